import LentilVerif.Model.Rescale
import LentilVerif.Gen.Effects
import Mathlib.Algebra.Order.Floor.Ring
import Mathlib.Algebra.Order.Field.Basic
import Mathlib.Data.Rat.Floor
import Mathlib.Tactic.Ring
import Mathlib.Tactic.Linarith
import Mathlib.Tactic.FieldSimp
import Mathlib.Tactic.Positivity
import Mathlib.Algebra.BigOperators.Intervals
import Mathlib.Algebra.BigOperators.Ring.Finset
/-! # C17 — resampling a plane changes its sampling, not its optics

**Partial**: the bookkeeping (pixel scale, shape, extent, identity at scale 1, binary mask, original untouched) is proved;
"transmitted power and propagated image are preserved to interpolation accuracy" is about the cubic-spline interpolator
(`scipy.ndimage.map_coordinates`, external) and has no theorem — it is measured by tools/harness/c17.py on smooth
apertures (unproven clause). -/
set_option linter.unusedSectionVars false
namespace Lentil.C17
open Lentil.Resc

variable {K : Type} [Field K] [LinearOrder K] [IsStrictOrderedRing K] [FloorRing K]

/-- rescaling by `s` divides the pixel scale by exactly `s` (so `s` samples of the new grid span one old sample) -/
theorem rescale_pixelscale (px s : K) (hs : s ≠ 0) : pixelscale px s = px / s ∧ pixelscale px s * s = px := by
  unfold pixelscale; exact ⟨rfl, by field_simp⟩

/-- resampling to a new pixel scale yields exactly that pixel scale -/
theorem resample_scale (px new : K) (hp : px ≠ 0) (hn : new ≠ 0) : pixelscale px (resampleScale px new) = new := by
  unfold pixelscale resampleScale; simp only [Gen.prResampleScale]; field_simp

/-- per axis: a plane sampled at `(px0, px1)` comes back at `(px0/s, px1/s)`; a plane without pixel scale stays without -/
theorem rescale_pixelscale_per_axis (px0 px1 s : K) (hs : s ≠ 0) :
    planePixelscale (some (px0, px1)) s = some (px0 / s, px1 / s) ∧
    (∀ q, planePixelscale (some (px0, px1)) s = some q → q.1 * s = px0 ∧ q.2 * s = px1) ∧
    planePixelscale (none : Option (K × K)) s = none := by
  refine ⟨rfl, ?_, rfl⟩
  intro q hq
  simp only [planePixelscale, Gen.prPixelscale, Option.map_some, Option.some.injEq] at hq
  subst hq
  constructor <;> field_simp

/-- resampling is refused exactly for planes without pixel scale (ValueError) and non-uniformly sampled planes
(NotImplementedError); otherwise it is the rescale by `px/new` and returns the requested pixel scale on both axes -/
theorem resample_guards (px : Option (K × K)) (new : K) (hn : new ≠ 0) :
    (resample px new = .valueError ↔ px = none) ∧
    (resample px new = .notImplemented ↔ ∃ p, px = some p ∧ p.1 ≠ p.2) ∧
    (∀ p s, px = some p → p.1 ≠ 0 → resample px new = .scale s → planePixelscale px s = some (new, new)) := by
  cases px with
  | none => simp [resample]
  | some p =>
    by_cases h : p.1 = p.2
    · refine ⟨by simp [resample, h], by simp [resample, h], ?_⟩
      intro p' s hp hp0 hs
      simp only [Option.some.injEq] at hp; subst hp
      simp only [resample, h, if_true, Resample.scale.injEq] at hs
      subst hs
      have hp2 : p.2 ≠ 0 := h ▸ hp0
      simp only [planePixelscale, Gen.prPixelscale, Gen.prResampleScale, Option.map_some, Option.some.injEq, Prod.mk.injEq, resampleScale]
      rw [← h]; constructor <;> field_simp
    · exact ⟨by simp [resample, h], by simp [resample, h], by intro p' s hp _ hs; simp [resample, h] at hs⟩

/-- unit invariance: measuring every length in another unit (all pixel scales multiplied by `k ≠ 0`) changes neither the
refusals nor the scale factor of `resample` — so no absolute tolerance on pixel scales (e.g. "already close enough") can be
part of it: a plane sampled in nanometres is resampled exactly like the same plane described in metres -/
theorem resample_unit_invariant (px : Option (K × K)) (new k : K) (hk : k ≠ 0) (hn : new ≠ 0) :
    resample (px.map fun p => (k * p.1, k * p.2)) (k * new) = resample px new := by
  cases px with
  | none => rfl
  | some p =>
    simp only [resample, Option.map_some, resampleScale, Gen.prResampleScale]
    by_cases h : p.1 = p.2
    · simp only [h, if_true, Resample.scale.injEq]; field_simp
    · have : ¬ (k * p.1 = k * p.2) := fun e => h (mul_left_cancel₀ hk e)
      simp [h, this]

/-- `Plane.rescale` / `Plane.resample` wired as the source wires them (regenerated, tools/specs/c17.py `plane_generator`): work on
`self.copy()`; amplitude and OPD interpolated (order 3, nearest, not unitary) only behind `ndim > 1`, the amplitude then divided by
the scale, the OPD not; every mask segment order 0 / constant; then binarise, cast to int, recompute the slices, divide BOTH
pixel-scale components; `resample` refuses a missing and a non-uniform pixel scale in that order and hands `px[0]/new` on -/
theorem plane_rescale_wiring (px0 px1 s new : K) :
    Gen.prSteps = ["copy:self.copy()", "amplitude", "opd", "mask", "binarise", "astype(int)", "slice", "pixelscale"] ∧
    Gen.prInterp = [("amplitude", "ndim > 1", "3", "'nearest'", "False"), ("opd", "ndim > 1", "3", "'nearest'", "False"),
                    ("mask", "always (each segment)", "0", "'constant'", "False")] ∧
    Gen.prResampleGuards = [("not self.pixelscale", "ValueError"), ("self.pixelscale[0] != self.pixelscale[1]", "NotImplementedError")] ∧
    Gen.prAmplitudeFactor (1 : K) s = 1 / s ∧ Gen.prOpdFactor (1 : K) s = 1 ∧
    Gen.prPixelscale px0 px1 s = (px0 / s, px1 / s) ∧ Gen.prResampleScale px0 px1 new = px0 / new := by
  refine ⟨by decide, by decide, by decide, rfl, rfl, rfl, rfl⟩

/-- the amplitude is divided by `s` exactly when it is an array (so that the `s²`-times more samples carry the same power);
a scalar amplitude or OPD is passed through -/
theorem amplitude_factor (s : K) :
    amplitudeFactor 2 s = 1 / s ∧ amplitudeFactor 0 s = 1 ∧ interpolated 2 = true ∧ interpolated 0 = false ∧ interpolated 1 = false := by
  simp [amplitudeFactor, Gen.prAmplitudeFactor, interpolated]

/-- the interpolation grid of `util.rescale` is uniform with spacing `1/s` and maps the centre of the output grid onto the
centre of the input grid (`(k − S/2)/s + n/2`): sample `k+1` is `1/s` after sample `k`, and for even `S = 2h` sample `h` sits at `n/2` -/
theorem coord_grid (S n k h : Int) (s : K) (hs : s ≠ 0) :
    coord (fun k => (k : K)) (2 : K) S n s (k + 1) - coord (fun k => (k : K)) (2 : K) S n s k = 1 / s ∧
    (S = 2 * h → coord (fun k => (k : K)) (2 : K) S n s h = (n : K) / 2) := by
  constructor
  · unfold coord; push_cast; field_simp; ring
  · intro hS; unfold coord; rw [hS]; push_cast; field_simp; ring

/-- the grid the source builds (regenerated from util.py on every run) is the model's: each axis gets `⌈n·s⌉` samples from ITS OWN
length, the row coordinates are centred with the row counts and the column coordinates with the column counts, row coordinates go
to `map_coordinates` first, and each coordinate vector has the length of its own axis -/
theorem grid_uses_own_axis (n0 n1 S0 S1 i j : Int) (s : K) :
    gridShape Int.ceil (fun k => (k : K)) n0 n1 s = (outShape Int.ceil (fun k => (k : K)) n0 s, outShape Int.ceil (fun k => (k : K)) n1 s) ∧
    gridRow (fun k => (k : K)) (2 : K) S0 S1 n0 n1 s i = coord (fun k => (k : K)) (2 : K) S0 n0 s i ∧
    gridCol (fun k => (k : K)) (2 : K) S0 S1 n0 n1 s j = coord (fun k => (k : K)) (2 : K) S1 n1 s j ∧
    Gen.rescaleCoordOrder = ["y", "x"] ∧ Gen.rescaleCoordYLen = "S0" ∧ Gen.rescaleCoordXLen = "S1" := by
  refine ⟨rfl, rfl, rfl, rfl, rfl, rfl⟩

/-- the rescaled arrays have `⌈n·s⌉` samples: the smallest integer count whose span covers the `n·s` new-grid samples -/
theorem rescale_shape (n : Int) (s : K) :
    outShape Int.ceil (fun k => (k : K)) n s = ⌈(n : K) * s⌉ ∧
    (n : K) * s ≤ (outShape Int.ceil (fun k => (k : K)) n s : K) ∧ (outShape Int.ceil (fun k => (k : K)) n s : K) < (n : K) * s + 1 := by
  unfold outShape
  exact ⟨rfl, Int.le_ceil _, Int.ceil_lt_add_one _⟩

/-- the physical extent (pixel scale × samples) is preserved to within one sample of the new grid:
`0 ≤ (px/s)·⌈n s⌉ − px·n < px/s` -/
theorem extent_within_one_sample (n : Int) (px s : K) (hp : 0 < px) (hs : 0 < s) :
    0 ≤ pixelscale px s * (outShape Int.ceil (fun k => (k : K)) n s : K) - px * n ∧
    pixelscale px s * (outShape Int.ceil (fun k => (k : K)) n s : K) - px * n < pixelscale px s := by
  obtain ⟨_, h1, h2⟩ := rescale_shape (K := K) n s
  unfold pixelscale
  set S : K := (outShape Int.ceil (fun k => (k : K)) n s : K)
  have hq : 0 < px / s := div_pos hp hs
  have e : px * n = px / s * (n * s) := by field_simp
  constructor
  · rw [e, ← mul_sub]; exact mul_nonneg hq.le (by linarith)
  · rw [e, ← mul_sub]
    calc px / s * (S - n * s) < px / s * 1 := mul_lt_mul_of_pos_left (by linarith) hq
      _ = px / s := mul_one _

/-- how far the interpolation grid reaches beyond the input sample centres `0 … n−1` (the rim the mask's `mode='constant'` zeroes):
the first output sample sits at a coordinate in `(−1/(2s), 0]` and the last one in `[n − 1/s, n − 1/(2s))` — so for `s > 1` the
last sample lies beyond the last input centre `n − 1`, by less than half an input pixel, and for `s ≤ 1/2`… never beyond it -/
theorem grid_rim_bounds (n : Int) (s : K) (hs : 0 < s) :
    let S := outShape Int.ceil (fun k => (k : K)) n s
    (-(1 / (2 * s)) < coord (fun k => (k : K)) (2 : K) S n s 0 ∧ coord (fun k => (k : K)) (2 : K) S n s 0 ≤ 0) ∧
    ((n : K) - 1 / s ≤ coord (fun k => (k : K)) (2 : K) S n s (S - 1) ∧ coord (fun k => (k : K)) (2 : K) S n s (S - 1) < (n : K) - 1 / (2 * s)) := by
  intro S
  obtain ⟨_, h1, h2⟩ := rescale_shape (K := K) n s
  have hs' : s ≠ 0 := ne_of_gt hs
  have e0 : coord (fun k => (k : K)) (2 : K) S n s 0 = ((n : K) * s - (S : K)) / (2 * s) := by
    unfold coord; push_cast; field_simp; ring
  have e1 : coord (fun k => (k : K)) (2 : K) S n s (S - 1) = ((S : K) - 2 + (n : K) * s) / (2 * s) := by
    unfold coord; push_cast; field_simp; ring
  have h2s : 0 < 2 * s := by linarith
  refine ⟨⟨?_, ?_⟩, ⟨?_, ?_⟩⟩
  · rw [e0, neg_lt, ← neg_div, div_lt_div_iff_of_pos_right h2s]; linarith
  · rw [e0]; exact div_nonpos_of_nonpos_of_nonneg (by linarith) h2s.le
  · rw [e1, show (n : K) - 1 / s = (2 * (n : K) * s - 2) / (2 * s) by field_simp, div_le_div_iff_of_pos_right h2s]; linarith
  · rw [e1, show (n : K) - 1 / (2 * s) = (2 * (n : K) * s - 1) / (2 * s) by field_simp, div_lt_div_iff_of_pos_right h2s]; linarith

/-- per axis: on a plane sampled at `(px0, px1)` each axis keeps its physical extent to within one sample of ITS new pixel scale -/
theorem extent_within_one_sample_per_axis (n0 n1 : Int) (px0 px1 s : K) (h0 : 0 < px0) (h1 : 0 < px1) (hs : 0 < s) :
    ∃ q, planePixelscale (some (px0, px1)) s = some q ∧
      (0 ≤ q.1 * (outShape Int.ceil (fun k => (k : K)) n0 s : K) - px0 * n0 ∧ q.1 * (outShape Int.ceil (fun k => (k : K)) n0 s : K) - px0 * n0 < q.1) ∧
      (0 ≤ q.2 * (outShape Int.ceil (fun k => (k : K)) n1 s : K) - px1 * n1 ∧ q.2 * (outShape Int.ceil (fun k => (k : K)) n1 s : K) - px1 * n1 < q.2) := by
  refine ⟨(px0 / s, px1 / s), by simp [planePixelscale, Gen.prPixelscale], ?_, ?_⟩
  · exact extent_within_one_sample n0 px0 s h0 hs
  · exact extent_within_one_sample n1 px1 s h1 hs

/-- at scale 1 the output grid has the input's shape and every output sample is interpolated at its own integer coordinate -/
theorem rescale_one_coordinates_are_integers (n j : Int) :
    outShape Int.ceil (fun k => (k : K)) n (1 : K) = n ∧
    coord (fun k => (k : K)) (2 : K) (outShape Int.ceil (fun k => (k : K)) n (1 : K)) n (1 : K) j = (j : K) := by
  have h : outShape Int.ceil (fun k => (k : K)) n (1 : K) = n := by simp [outShape]
  refine ⟨h, ?_⟩
  rw [h]; unfold coord; ring

/-- hence rescaling by 1 is the identity, for every interpolator that reproduces the samples at integer coordinates
(contract of `map_coordinates`, every spline order) and every `eps ≤ 1` -/
theorem rescale_one_is_identity (interp interp1 : (Int → Int → K) → K → K → K)
    (hi : ∀ f (a b : Int), interp f (a : K) (b : K) = f a b) (hi1 : ∀ f (a b : Int), interp1 f (a : K) (b : K) = f a b)
    (eps : K) (he : eps ≤ 1) (n0 n1 : Int) (img : Int → Int → K) (i j : Int) :
    rescaleAt interp interp1 Int.ceil (fun k => (k : K)) 2 eps n0 n1 img 1 i j = img i j := by
  unfold rescaleAt
  simp only [(rescale_one_coordinates_are_integers (K := K) n0 i).2, (rescale_one_coordinates_are_integers (K := K) n1 j).2, hi, hi1]
  by_cases h0 : img i j = 0
  · simp [h0]
  · simp only [h0, if_false]
    have : ¬ ((1 : K) < eps) := not_lt.mpr he
    simp [this]

/-- the exact part of the power clause: a constant amplitude `a` on `n₀ × n₁` samples, rescaled by `s` with any interpolator that
reproduces constants, becomes `a/s` on `⌈n₀s⌉ × ⌈n₁s⌉` samples (`amplitudeFactor`); its power `Σ (a/s)²` is at least the original
`n₀n₁a²` and exceeds it by less than the one-sample rim: `< (n₀ + 1/s)(n₁ + 1/s)a²`. (Dividing by the realised size ratio instead of
`s` — or not dividing at all — violates this for non-integer `n·s`.) -/
theorem constant_aperture_power (n0 n1 : Nat) (a s : K) (hs : 0 < s) :
    let S0 := (outShape Int.ceil (fun k => (k : K)) (n0 : Int) s).toNat
    let S1 := (outShape Int.ceil (fun k => (k : K)) (n1 : Int) s).toNat
    let P' := ∑ _i ∈ Finset.range S0, ∑ _j ∈ Finset.range S1, (a * amplitudeFactor 2 s) ^ 2
    (n0 : K) * n1 * a ^ 2 ≤ P' ∧ P' ≤ ((n0 : K) + 1 / s) * ((n1 : K) + 1 / s) * a ^ 2 := by
  intro S0 S1 P'
  have key : ∀ n : Nat, (n : K) ≤ ((outShape Int.ceil (fun k => (k : K)) (n : Int) s).toNat : K) / s ∧
      ((outShape Int.ceil (fun k => (k : K)) (n : Int) s).toNat : K) / s ≤ (n : K) + 1 / s := by
    intro n
    obtain ⟨_, h1, h2⟩ := rescale_shape (K := K) (n : Int) s
    have hnn : (0 : Int) ≤ outShape Int.ceil (fun k => (k : K)) (n : Int) s := by
      unfold outShape; apply Int.ceil_nonneg; push_cast; positivity
    have hc : ((outShape Int.ceil (fun k => (k : K)) (n : Int) s).toNat : K) = ((outShape Int.ceil (fun k => (k : K)) (n : Int) s : Int) : K) := by
      rw [← Int.cast_natCast, Int.toNat_of_nonneg hnn]
    rw [hc]
    push_cast at h1 h2
    constructor
    · rw [le_div_iff₀ hs]; exact h1
    · rw [div_le_iff₀ hs]; have : ((n : K) + 1 / s) * s = n * s + 1 := by field_simp
      rw [this]; exact le_of_lt h2
  have hP : P' = ((S0 : K) / s) * ((S1 : K) / s) * a ^ 2 := by
    simp only [P', Finset.sum_const, Finset.card_range, nsmul_eq_mul, amplitudeFactor, Gen.prAmplitudeFactor]
    norm_num
    field_simp
  obtain ⟨a0, b0⟩ := key n0
  obtain ⟨a1, b1⟩ := key n1
  have hn0 : (0 : K) ≤ n0 := Nat.cast_nonneg _
  have hn1 : (0 : K) ≤ n1 := Nat.cast_nonneg _
  have ha2 : 0 ≤ a ^ 2 := sq_nonneg a
  rw [hP]
  constructor
  · exact mul_le_mul_of_nonneg_right (mul_le_mul a0 a1 hn1 (le_trans hn0 a0)) ha2
  · exact mul_le_mul_of_nonneg_right (mul_le_mul b0 b1 (le_trans hn1 a1) (le_trans (le_trans hn0 a0) b0)) ha2

/-- rescaling by `s` and then by `1/s` returns the pixel scale exactly and, when `n·s` is a whole number of samples, the shape -/
theorem rescale_roundtrip (px0 px1 s : K) (hs : 0 < s) (n m : Int) (hnm : (n : K) * s = (m : K)) :
    (planePixelscale (some (px0, px1)) s).bind (fun q => planePixelscale (some q) (1 / s)) = some (px0, px1) ∧
    outShape Int.ceil (fun k => (k : K)) (outShape Int.ceil (fun k => (k : K)) n s) (1 / s) = n := by
  have hs' : s ≠ 0 := ne_of_gt hs
  constructor
  · simp only [planePixelscale, Gen.prPixelscale, Option.map_some, Option.bind_some, Option.some.injEq, Prod.mk.injEq]
    constructor <;> field_simp
  · have h1 : outShape Int.ceil (fun k => (k : K)) n s = m := by
      simp only [outShape]; rw [hnm]; exact Int.ceil_intCast m
    rw [h1]
    simp only [outShape]
    have : (m : K) * (1 / s) = (n : K) := by rw [← hnm]; field_simp
    rw [this]; exact Int.ceil_intCast n

/-- segment structure under nearest-sample resampling (`order=0`): every output pixel takes the mask values of ONE source pixel
`(ry i, rx j)`, so segments that were pairwise disjoint stay pairwise disjoint, a pixel covered by some segment comes from a covered
source pixel, and the union of the rescaled segments is the rescaled union -/
theorem segments_stay_disjoint (segs : List (Int → Int → K)) (ry rx : Int → Int)
    (hdis : ∀ a b, ((segs.filter fun m => decide (m a b ≠ 0)).length ≤ 1)) (i j : Int) :
    let segs' := segs.map fun m => fun a b => binarise (m (ry a) (rx b))
    (segs'.filter fun m => decide (m i j ≠ 0)).length ≤ 1 ∧
    ((segs'.map fun m => m i j).sum = if (segs.filter fun m => decide (m (ry i) (rx j) ≠ 0)).length = 0 then 0 else 1) := by
  intro segs'
  have hlen : (segs'.filter fun m => decide (m i j ≠ 0)).length = (segs.filter fun m => decide (m (ry i) (rx j) ≠ 0)).length := by
    simp only [segs', List.filter_map, List.length_map]
    congr 1
    apply List.filter_congr
    intro m _
    by_cases h : m (ry i) (rx j) = 0 <;> simp [binarise, h]
  have hsum : ∀ l : List (Int → Int → K), ((l.map fun m => fun a b => binarise (m (ry a) (rx b))).map fun m => m i j).sum
      = ((l.filter fun m => decide (m (ry i) (rx j) ≠ 0)).length : Int) := by
    intro l
    induction l with
    | nil => simp
    | cons m ms ih =>
      simp only [List.map_cons, List.sum_cons, ih]
      by_cases h : m (ry i) (rx j) = 0 <;> simp [binarise, h, List.filter_cons] <;> omega
  refine ⟨by rw [hlen]; exact hdis _ _, ?_⟩
  rw [hsum segs]
  have := hdis (ry i) (rx j)
  split_ifs with h0
  · exact_mod_cast h0
  · have h1 : (segs.filter fun m => decide (m (ry i) (rx j) ≠ 0)).length = 1 := by omega
    exact_mod_cast h1

/-- … on the grid the source builds: with `order=0, mode='constant'` (regenerated `Gen.prInterp`) every output sample takes the values
of the source pixel nearest to its REGENERATED coordinate (`nearestMask` over `gridRow`/`gridCol`, any rounding `rnd`) when that
coordinate lies inside the input array, and 0 in every segment on the rim beyond the first/last input sample centre. Hence disjoint
segments stay disjoint on the whole output grid; inside, their union is the resampled union; on the rim every segment is zero
(so a border-filling mask loses its trailing rim: the union is NOT the resampled union there). -/
theorem segments_stay_disjoint_on_grid (segs : List (Int → Int → K)) (rnd : K → Int) (S0 S1 n0 n1 : Int) (s : K)
    (hdis : ∀ a b, ((segs.filter fun m => decide (m a b ≠ 0)).length ≤ 1)) (i j : Int) :
    let segs' := segs.map fun m => nearestMask (fun k => (k : K)) (2 : K) rnd S0 S1 n0 n1 s m
    (segs'.filter fun m => decide (m i j ≠ 0)).length ≤ 1 ∧
    (insideB (fun k => (k : K)) (2 : K) S0 S1 n0 n1 s i j = false → ∀ m ∈ segs', m i j = 0) ∧
    (Gen.prInterp.filter fun r => r.1 == "mask").map (fun r => (r.2.2.1, r.2.2.2.1)) = [("0", "'constant'")] := by
  intro segs'
  refine ⟨?_, ?_, by decide⟩
  · cases hin : insideB (fun k => (k : K)) (2 : K) S0 S1 n0 n1 s i j with
    | true =>
      have h := (segments_stay_disjoint segs (fun a => rnd (gridRow (fun k => (k : K)) (2 : K) S0 S1 n0 n1 s a))
        (fun b => rnd (gridCol (fun k => (k : K)) (2 : K) S0 S1 n0 n1 s b)) hdis i j).1
      have e : (segs'.filter fun m => decide (m i j ≠ 0)).length =
          ((segs.map fun m => fun a b => binarise (m (rnd (gridRow (fun k => (k : K)) (2 : K) S0 S1 n0 n1 s a))
            (rnd (gridCol (fun k => (k : K)) (2 : K) S0 S1 n0 n1 s b)))).filter fun m => decide (m i j ≠ 0)).length := by
        simp only [segs', List.filter_map, List.length_map]
        congr 1; apply List.filter_congr; intro m _
        simp only [Function.comp, nearestMask, hin, if_true]
      rw [e]; exact h
    | false =>
      have : (segs'.filter fun m => decide (m i j ≠ 0)) = [] := by
        simp only [segs', List.filter_map, List.map_eq_nil_iff, List.filter_eq_nil_iff]
        intro m _; simp [nearestMask, hin]
      rw [this]; simp
  · intro hout m hm
    simp only [segs', List.mem_map] at hm
    obtain ⟨m0, _, rfl⟩ := hm
    simp [nearestMask, hout]

/-- … and the post-mask of `util.rescale` cannot spoil it: each interpolated layer is multiplied by a factor (the order-1
interpolated, thresholded support of that layer — any factor at all, here arbitrary per layer and sample) before it is binarised;
a product is non-zero only where the nearest-sample value is, so the layers stay pairwise disjoint and every value is still 0 or 1 -/
theorem segments_stay_disjoint_with_postmask (segs : List (Int → Int → K)) (ry rx : Int → Int)
    (fac : (Int → Int → K) → Int → Int → K)
    (hdis : ∀ a b, ((segs.filter fun m => decide (m a b ≠ 0)).length ≤ 1)) (i j : Int) :
    let segs' := segs.map fun m => fun a b => binarise (m (ry a) (rx b) * fac m a b)
    (segs'.filter fun m => decide (m i j ≠ 0)).length ≤ 1 ∧ (∀ m ∈ segs', m i j = 0 ∨ m i j = 1) := by
  intro segs'
  constructor
  · have hlen : (segs'.filter fun m => decide (m i j ≠ 0)).length =
        (segs.filter fun m => decide (m (ry i) (rx j) * fac m i j ≠ 0)).length := by
      have hb : ∀ v : K, (binarise v ≠ 0) ↔ v ≠ 0 := by
        intro v; unfold binarise; by_cases hv : v = 0
        · rw [if_pos hv]; exact ⟨fun h => absurd rfl h, fun h => absurd hv h⟩
        · rw [if_neg hv]; exact ⟨fun _ => hv, fun _ => by decide⟩
      simp only [segs', List.filter_map, List.length_map]
      congr 1; apply List.filter_congr; intro m _
      simp only [Function.comp, hb]
    rw [hlen]
    refine le_trans (List.Sublist.length_le (List.monotone_filter_right segs ?_)) (hdis (ry i) (rx j))
    intro m hm
    simp only [decide_eq_true_eq] at hm ⊢
    exact fun h0 => hm (by rw [h0, zero_mul])
  · intro m hm
    simp only [segs', List.mem_map] at hm
    obtain ⟨m0, _, rfl⟩ := hm
    show binarise (m0 (ry i) (rx j) * fac m0 i j) = 0 ∨ binarise (m0 (ry i) (rx j) * fac m0 i j) = 1
    unfold binarise
    by_cases h : m0 (ry i) (rx j) * fac m0 i j = 0
    · rw [if_pos h]; exact Or.inl rfl
    · rw [if_neg h]; exact Or.inr rfl

/-- non-vacuity of `rescale_one_is_identity`: the nearest-sample interpolator `f ⌊y⌋ ⌊x⌋` reproduces samples at integer coordinates,
so the hypotheses `hi`, `hi1` are satisfiable and rescaling by 1 with it returns the image -/
example (img : Int → Int → ℚ) (n0 n1 i j : Int) :
    rescaleAt (fun f y x => f ⌊y⌋ ⌊x⌋) (fun f y x => f ⌊y⌋ ⌊x⌋) Int.ceil (fun k => (k : ℚ)) 2 (1 / 2) n0 n1 img 1 i j = img i j :=
  rescale_one_is_identity (K := ℚ) _ _ (fun f a b => by simp) (fun f a b => by simp) (1 / 2) (by norm_num) n0 n1 img i j

/-- the mask stays binary with its segment structure, on the regenerated grid: every resampled layer (`nearestMask`: nearest source pixel
of the regenerated coordinate, binarised, 0 on the rim) takes only the values 0 and 1, the number of layers is kept, and at every
output sample whose coordinate lies inside the input array the union of disjoint segments is the resampled union (1 iff some segment
covers the nearest source pixel) -/
theorem resampled_layers_binary_count_union (segs : List (Int → Int → K)) (rnd : K → Int) (S0 S1 n0 n1 : Int) (s : K)
    (hdis : ∀ a b, ((segs.filter fun m => decide (m a b ≠ 0)).length ≤ 1)) (i j : Int) :
    let segs' := segs.map fun m => nearestMask (fun k => (k : K)) (2 : K) rnd S0 S1 n0 n1 s m
    (∀ m ∈ segs', m i j = 0 ∨ m i j = 1) ∧ segs'.length = segs.length ∧
    (insideB (fun k => (k : K)) (2 : K) S0 S1 n0 n1 s i j = true →
      (segs'.map fun m => m i j).sum =
        if (segs.filter fun m => decide (m (rnd (gridRow (fun k => (k : K)) (2 : K) S0 S1 n0 n1 s i))
              (rnd (gridCol (fun k => (k : K)) (2 : K) S0 S1 n0 n1 s j)) ≠ 0)).length = 0 then 0 else 1) := by
  intro segs'
  refine ⟨?_, by simp [segs'], ?_⟩
  · intro m hm
    simp only [segs', List.mem_map] at hm
    obtain ⟨m0, _, rfl⟩ := hm
    simp only [nearestMask]
    split_ifs with h
    · by_cases h0 : m0 (rnd (gridRow (fun k => (k : K)) (2 : K) S0 S1 n0 n1 s i)) (rnd (gridCol (fun k => (k : K)) (2 : K) S0 S1 n0 n1 s j)) = 0 <;>
        simp [binarise, h0]
    · exact Or.inl rfl
  · intro hin
    have h := (segments_stay_disjoint segs (fun a => rnd (gridRow (fun k => (k : K)) (2 : K) S0 S1 n0 n1 s a))
      (fun b => rnd (gridCol (fun k => (k : K)) (2 : K) S0 S1 n0 n1 s b)) hdis i j).2
    rw [← h]
    simp only [segs', List.map_map]
    congr 1
    apply List.map_congr_left
    intro m _
    simp [nearestMask, hin]

/-- Plane-level identity: rescaling a PLANE by 1 keeps the pixel scale on both axes, leaves amplitude (factor 1) and OPD factors at 1,
keeps the shape, and interpolates every sample of every array at its own integer coordinate on the regenerated grid — so with an
interpolator that reproduces samples at integer coordinates the returned plane has the attributes of the original -/
theorem plane_rescale_one_is_identity (px0 px1 : K) (n0 n1 i j : Int) :
    planePixelscale (some (px0, px1)) (1 : K) = some (px0, px1) ∧ amplitudeFactor 2 (1 : K) = 1 ∧ Gen.prOpdFactor (1 : K) (1 : K) = 1 ∧
    gridShape Int.ceil (fun k => (k : K)) n0 n1 (1 : K) = (n0, n1) ∧
    gridRow (fun k => (k : K)) (2 : K) n0 n1 n0 n1 (1 : K) i = (i : K) ∧ gridCol (fun k => (k : K)) (2 : K) n0 n1 n0 n1 (1 : K) j = (j : K) := by
  have h0 := rescale_one_coordinates_are_integers (K := K) n0 i
  have h1 := rescale_one_coordinates_are_integers (K := K) n1 j
  refine ⟨by simp [planePixelscale, Gen.prPixelscale], by simp [amplitudeFactor, Gen.prAmplitudeFactor], rfl, ?_, ?_, ?_⟩
  · have := (grid_uses_own_axis (K := K) n0 n1 n0 n1 i j 1).1
    rw [this, h0.1, h1.1]
  · have := (grid_uses_own_axis (K := K) n0 n1 n0 n1 i j 1).2.1
    rw [this]; have h := h0.2; rw [h0.1] at h; exact h
  · have := (grid_uses_own_axis (K := K) n0 n1 n0 n1 i j 1).2.2.1
    rw [this]; have h := h1.2; rw [h1.1] at h; exact h

/-- an explicit `shape=` (scalar or pair, regenerated branches of `util.rescale`) is a field of view in INPUT samples: each axis gets
`⌈m·s⌉` samples from its own entry (a scalar serves both axes), and passing the image's own shape is the default -/
theorem rescale_explicit_shape (n0 n1 m m0 m1 : Int) (s : K) :
    gridShapeArg Int.ceil (fun k => (k : K)) n0 n1 (.scalar m) s =
      (outShape Int.ceil (fun k => (k : K)) m s, outShape Int.ceil (fun k => (k : K)) m s) ∧
    gridShapeArg Int.ceil (fun k => (k : K)) n0 n1 (.pair m0 m1) s =
      (outShape Int.ceil (fun k => (k : K)) m0 s, outShape Int.ceil (fun k => (k : K)) m1 s) ∧
    gridShapeArg Int.ceil (fun k => (k : K)) n0 n1 (.pair n0 n1) s = gridShapeArg Int.ceil (fun k => (k : K)) n0 n1 .default s ∧
    gridShapeArg Int.ceil (fun k => (k : K)) n0 n0 (.scalar n0) s = gridShapeArg Int.ceil (fun k => (k : K)) n0 n0 .default s :=
  ⟨rfl, rfl, rfl, rfl⟩

/-- an explicit shape changes the field of view, **not the sampling or the registration**: an output of `S` samples and one of `S'`
samples with `S = S' + 2c` interpolate at the same input coordinates, shifted by `c` samples (the explicit-shape result is the centre
crop / pad of the default result), and the `⌈m·s⌉` samples span the requested `m` input samples to within one output sample -/
theorem explicit_shape_same_sampling (S S' c n k m : Int) (s : K) (hs : 0 < s) (hS : S = S' + 2 * c) :
    coord (fun k => (k : K)) (2 : K) S n s (k + c) = coord (fun k => (k : K)) (2 : K) S' n s k ∧
    (m : K) ≤ (outShape Int.ceil (fun k => (k : K)) m s : K) / s ∧
    (outShape Int.ceil (fun k => (k : K)) m s : K) / s < (m : K) + 1 / s := by
  have hs' : s ≠ 0 := ne_of_gt hs
  refine ⟨?_, ?_, ?_⟩
  · unfold coord; rw [hS]; push_cast; field_simp; ring
  · rw [le_div_iff₀ hs]; unfold outShape; exact Int.le_ceil _
  · rw [div_lt_iff₀ hs]; unfold outShape
    have := Int.ceil_lt_add_one ((m : K) * s)
    have h1 : ((m : K) + 1 / s) * s = (m : K) * s + 1 := by field_simp
    rw [h1]; exact this

example : gridShapeArg Int.ceil (fun k => (k : ℚ)) 9 9 (.scalar 5) (3 / 2) = (8, 8) ∧
    gridShapeArg Int.ceil (fun k => (k : ℚ)) 9 9 (.pair 4 7) (3 / 2) = (6, 11) := by
  constructor <;> simp [gridShapeArg, Gen.rescaleCeilArgScalar, Gen.rescaleCeilArgPair, Prod.ext_iff, Int.ceil_eq_iff] <;> norm_num

/-- complex input (regenerated branch `Gen.rescaleComplexParts`): the real part of the result is the interpolant of the real part and
the imaginary part that of the imaginary part, on the same grid, both under the support mask of `img ≠ 0`; for an image whose
imaginary part vanishes the real part of the result is exactly the real-input result `rescaleAt` -/
theorem complex_rescale_by_parts (interp interp1 : (Int → Int → K) → K → K → K) (eps : K) (n0 n1 : Int)
    (re im : Int → Int → K) (s : K) (i j : Int) :
    (∃ mm : K, rescaleComplexAt interp interp1 Int.ceil (fun k => (k : K)) 2 eps n0 n1 re im s i j =
      some (interp re (coord (fun k => (k : K)) 2 (outShape Int.ceil (fun k => (k : K)) n0 s) n0 s i)
                      (coord (fun k => (k : K)) 2 (outShape Int.ceil (fun k => (k : K)) n1 s) n1 s j) * mm,
            interp im (coord (fun k => (k : K)) 2 (outShape Int.ceil (fun k => (k : K)) n0 s) n0 s i)
                      (coord (fun k => (k : K)) 2 (outShape Int.ceil (fun k => (k : K)) n1 s) n1 s j) * mm)) ∧
    ((rescaleComplexAt interp interp1 Int.ceil (fun k => (k : K)) 2 eps n0 n1 re (fun _ _ => 0) s i j).map (·.1) =
      some (rescaleAt interp interp1 Int.ceil (fun k => (k : K)) 2 eps n0 n1 re s i j)) := by
  constructor
  · exact ⟨_, rfl⟩
  · simp [rescaleComplexAt, rescaleAt, Gen.rescaleComplexParts, List.lookup, complexPart]

/-- the original plane is untouched (regenerated part): the effect-site scan finds no in-place write on any argument of
`Plane.rescale`, `Plane.resample`, `util.rescale` (they work on `self.copy()` / fresh arrays) -/
theorem original_untouched :
    (Gen.effTable.filter fun r => ["plane.Plane.rescale", "plane.Plane.resample", "util.rescale"].contains r.fn).map
        (fun r => (r.fn, r.writes, r.cacheWrites, r.globalWrites)) =
      [("plane.Plane.resample", [], [], []), ("plane.Plane.rescale", [], [], []), ("util.rescale", [], [], [])] := by decide +kernel

/-- the driver runs the model with core `Rat.ceil`; on ℚ that is `Int.ceil` -/
theorem driver_ceil_is_ceil (q : ℚ) : Rat.ceil q = ⌈q⌉ := by
  rw [Rat.ceil_eq_neg_floor_neg]
  show -⌊-q⌋ = ⌈q⌉
  rw [Int.floor_neg]; simp

/-- non-vacuity of `extent_within_one_sample`: 5 samples of 2 mm rescaled by 3/2 give 8 samples of 4/3 mm: 32/3 − 10 = 2/3 < 4/3 -/
example : pixelscale (2 : ℚ) (3 / 2) * (8 : ℚ) - 2 * 5 = 2 / 3 := by norm_num [pixelscale]

end Lentil.C17
