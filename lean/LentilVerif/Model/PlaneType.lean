import LentilVerif.Gen.PlaneType
/-! C08 — plane-type state machine. Mathlib-free; the tables come from `Gen/PlaneType.lean` (regenerated from
`lentil/plane.py`, `lentil/propagate.py`, `lentil/ptype.py`, `lentil/wavefront.py` and the three RST pages). -/
namespace Lentil.PT
open Gen

/-- operations of a program at the level of plane *types* -/
inductive Op where
  | mul (p : PType)
  | prop
deriving DecidableEq, Repr

/-- operations of a program at the level of public plane *classes* -/
inductive COp where
  | mul (c : PlaneClass)
  | prop
deriving DecidableEq, Repr

/-- one step of a machine given by a multiplication table and a propagation rule -/
def stepWith (mul : WType → PType → Res) (prop : WType → Res) (w : WType) : Op → Res
  | .mul p => mul w p
  | .prop => prop w

/-- state after an outcome: a refusal leaves the wavefront type where it was -/
def next (w : WType) : Res → WType
  | .ok w' => w'
  | .refused _ => w

/-- trace of outcomes of a whole program (the program continues after a refusal, as a Python session does after
catching the exception) -/
def runWith (mul : WType → PType → Res) (prop : WType → Res) : WType → List Op → List Res
  | _, [] => []
  | w, op :: rest => let r := stepWith mul prop w op; r :: runWith mul prop (next w r) rest

def codeStep := stepWith codeMul codePropagate
def docStep := stepWith docMul docPropagate
def codeRun := runWith codeMul codePropagate
def docRun := runWith docMul docPropagate

/-- final type after a program -/
def finalWith (mul : WType → PType → Res) (prop : WType → Res) : WType → List Op → WType
  | w, [] => w
  | w, op :: rest => finalWith mul prop (next w (stepWith mul prop w op)) rest

/-- `C(...).multiply(wavefront)` for a public class: a custom `multiply` that references names which do not exist
raises AttributeError before anything else; otherwise `Plane.multiply` (table) followed by the override's forced type -/
def classMul (c : PlaneClass) (w : WType) : Res :=
  if classCustomMul c then
    -- a body that does not go through Plane.multiply: names that do not exist raise AttributeError before anything else;
    -- otherwise the structural rule read off its return value applies (type kept, no table look-up) or nothing is known
    if !(classMissing c).isEmpty then .refused .attributeError
    else if classCustomKeepsType c then .ok w
    else .refused .otherError
  else match codeMul w (classPtype c) with
    | .ok w' => .ok ((classForce c).getD w')
    | .refused e => .refused e

def classStep (w : WType) : COp → Res
  | .mul c => classMul c w
  | .prop => codePropagate w

def classRun : WType → List COp → List Res
  | _, [] => []
  | w, op :: rest => let r := classStep w op; r :: classRun (next w r) rest

/-- the type-level operation a class-level operation stands for -/
def COp.toOp : COp → Op
  | .mul c => .mul (classPtype c)
  | .prop => .prop

/-- what the documentation promises for a class: its documented ptype looked up in the documented table -/
def docClassMul (c : PlaneClass) (w : WType) : Option Res :=
  (docClassPtype c).map (docMul w)

def _root_.Gen.Res.isOk : Res → Bool
  | .ok _ => true
  | .refused _ => false

/-- the class acts exactly as the documented table says for the ptype it is constructed with (decidable, over the
generated tables; true for every class whose `multiply` goes through `Plane.multiply` without forcing a type) -/
def classTableDriven (c : PlaneClass) : Bool :=
  WType.all.all fun w => classMul c w == docMul w (classPtype c)

/-- a class documented in planes.rst conforms when it is constructed with its documented ptype, acts as the documented
table says for that ptype, and can be applied to at least one wavefront type; undocumented classes conform trivially -/
def classConforms (c : PlaneClass) : Bool :=
  match docClassPtype c with
  | none => true
  | some p => classPtype c == p && (WType.all.all fun w => classMul c w == docMul w p)
              && (WType.all.any fun w => (classMul c w).isOk)

end Lentil.PT
