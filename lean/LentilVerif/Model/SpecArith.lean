import LentilVerif.Model.Units
import LentilVerif.Gen.InterpGrid
/-! C13 — spectrum arithmetic (`Spectrum._ufunc`, `_interp_common`, `_sampling`, `_intersect`). Mathlib-free, over `Rat`. -/
namespace Lentil.Spec
open Gen Lentil.Units

inductive Sampling where
  | min | left | right
  | step (d : Rat)
deriving DecidableEq, Repr

def Sampling.swap : Sampling → Sampling
  | .left => .right
  | .right => .left
  | s => s

/-- what the option selects (generated from `_sampling`: `Gen.samplingSel*`) -/
def Sampling.sel : Sampling → Gen.SamplingSel
  | .min => Gen.samplingSelMin
  | .left => Gen.samplingSelLeft
  | .right => Gen.samplingSelRight
  | .step _ => Gen.samplingSelScalar

/-- `_sampling((w1, w2), method)`; `none` = ValueError (an operand with fewer than two samples) -/
def samplingOf (m : Sampling) (w1 w2 : List Rat) : Option Rat :=
  match m.sel with
  | .minBoth => (match minDiff w1, minDiff w2 with
    | some a, some b => some (min a b)
    | _, _ => none)
  | .operand 0 => minDiff w1
  | .operand 1 => minDiff w2
  | .operand _ => none
  | .given => (match m with | .step d => some d | _ => none)

/-- the guard `tol` of `_interp_common` (generated from the source: `Gen.interpTol`) -/
def gridTol (dw : Rat) : Rat := Gen.interpTol dw

/-- number of intervals of the common grid (generated: every assignment to `num` in `_interp_common`) -/
def gridNum (mn mx dw : Rat) : Int := Gen.interpNum mn mx dw (gridTol dw)

/-- `np.linspace(start, stop, count)` with the generated arguments -/
def commonGrid (mn mx dw : Rat) : List Rat :=
  linspace (Gen.interpStart mn mx (gridNum mn mx dw)) (Gen.interpStop mn mx (gridNum mn mx dw))
    (Gen.interpCount mn mx (gridNum mn mx dw)).toNat

def clip (lo hi x : Rat) : Rat := if x < lo then lo else if hi < x then hi else x

/-- one operand seen from a grid point `g`: the linear interpolant (evaluated at `g` clipped into the operand's range)
where `g` lies within the operand's range up to the guard, the fill value elsewhere -/
def operandAt (s : Spectrum) (lo hi tol fill : Rat) (g : Rat) : Rat :=
  if decide (lo - tol ≤ g) && decide (g ≤ hi + tol) then interpAt s.wave s.value fill fill (clip lo hi g) else fill

/-- `_interp_common`: (common grid, operand 1 on it, operand 2 on it) -/
def interpCommon (s1 s2 : Spectrum) (m : Sampling) (fill : Rat) : Except Err (List Rat × List Rat × List Rat) :=
  match minL s1.wave, maxL s1.wave, minL s2.wave, maxL s2.wave with
  | some lo1, some hi1, some lo2, some hi2 =>
    match samplingOf m s1.wave s2.wave with
    | none => .error .valueError
    | some dw =>
      let mn := Gen.interpMin lo1 lo2
      let mx := Gen.interpMax hi1 hi2
      let g := commonGrid mn mx dw
      .ok (g, g.map (operandAt s1 lo1 hi1 (gridTol dw) fill), g.map (operandAt s2 lo2 hi2 (gridTol dw) fill))
  | _, _, _, _ => .error .valueError

/-- `Spectrum._ufunc(ufunc, other: Spectrum)` with both operands already in the same wavelength unit -/
def ufunc (op : Rat → Rat → Rat) (s1 s2 : Spectrum) (m : Sampling) (fill : Rat) : Except Err Spectrum :=
  match interpCommon s1 s2 m fill with
  | .error e => .error e
  | .ok (g, v1, v2) => .ok ⟨g, List.zipWith op v1 v2⟩

/-- the right operand is converted, on a copy, to the left operand's wavelength unit first -/
def ufuncU (op : Rat → Rat → Rat) (s1 s2 : USpec) (m : Sampling) (fill : Rat) : Except Err USpec :=
  let s2' := if s2.wu = s1.wu then s2 else toWave s1.wu s2
  match ufunc op ⟨s1.wave, s1.value⟩ ⟨s2'.wave, s2'.value⟩ m fill with
  | .error e => .error e
  | .ok r => .ok ⟨r.wave, r.value, if Gen.ufuncResultWaveUnitFromSelf then s1.wu else s2'.wu,
                   if Gen.ufuncResultValueUnitFromSelf then s1.vu else s2'.vu⟩

/-- scalar operand: element-wise on the unchanged grid -/
def ufuncScalar (op : Rat → Rat → Rat) (s : Spectrum) (c : Rat) : Spectrum := ⟨s.wave, s.value.map (op · c)⟩

/-- equal-length vector operand: element-wise on the unchanged grid; other lengths do not broadcast (ValueError) -/
def ufuncVector (op : Rat → Rat → Rat) (s : Spectrum) (v : List Rat) : Except Err Spectrum :=
  if v.length = s.value.length then .ok ⟨s.wave, List.zipWith op s.value v⟩
  else if v.length = 1 then .ok ⟨s.wave, s.value.map (op · v.head!)⟩
  else .error .valueError

/-- meaning of the arithmetic a Spectrum operator ends in (`Gen.ArithOp`, regenerated from `__add__`/`add`/… of the source) on
exact rationals; `power` has no rational model (irrational values) -/
def arithFn : Gen.ArithOp → Option (Rat → Rat → Rat)
  | .add => some (· + ·)
  | .subtract => some (· - ·)
  | .multiply => some (· * ·)
  | .divide => some (· / ·)
  | .power => none

end Lentil.Spec
