import LentilVerif.Model.Zernike
import LentilVerif.Gen.ZernikeCalls
/-! Executable model of `zernike_basis / zernike_fit / zernike_compose / zernike_remove` (`lentil/zernike.py`), Mathlib-free and
generic in the scalar type: run at `Float` by the driver (Driver/Ops/C12.lean) and proved, over any field, to be the abstract matrix
objects `zfit / zcompose / zremove` of `Lemmas/ZernikeFit.lean` (Props/C12.lean).

Samples are numbered `0 … p-1` in C order (`ravel()` / `reshape(k, -1)` of the code), requested modes `0 … k-1` in the order given.
`fit` solves the normal equations `BᵀB·x = Bᵀ·opd` by Cramer's rule with Laplace-expansion determinants (k ≤ 6 in the harness);
that `np.linalg.pinv(basis)` yields the same solution for a full-column-rank basis is the trusted contract. -/
namespace Lentil
variable {K : Type}

section
variable [Add K] [Sub K] [Mul K] [Div K] [Neg K] [Zero K] [One K]

/-- determinant by Laplace expansion along row 0 of the leading `n × n` block of `A` -/
def detN : Nat → (Nat → Nat → K) → K
  | 0, _ => 1
  | n + 1, A => sumRange (n + 1) fun j =>
      (if j % 2 = 0 then A 0 j else -(A 0 j)) * detN n (fun r c => A (r + 1) (if c < j then c else c + 1))

/-- `BᵀB` for a basis with `p` samples -/
def gramX (p : Nat) (B : Nat → Nat → K) (a b : Nat) : K := sumRange p fun s => B s a * B s b

/-- `Bᵀ·opd` -/
def rhsX (p : Nat) (B : Nat → Nat → K) (opd : Nat → K) (a : Nat) : K := sumRange p fun s => B s a * opd s

/-- Cramer's rule: component `i` of the solution of `G·x = b` (`k × k`) -/
def cramerX (k : Nat) (G : Nat → Nat → K) (b : Nat → K) (i : Nat) : K :=
  detN k (fun r c => if c = i then b r else G r c) / detN k G

/-- the sample number of pixel (r, c): `opd.ravel()` (regenerated `Gen.ravelIndex`) on the OPD side, `basis.reshape(k, -1)` (regenerated
`Gen.reshapeIndex`) on the basis side — the fit pairs sample `s` of one with sample `s` of the other, so the two must agree -/
def opdSample (nr nc r c : Nat) : Nat := Gen.ravelIndex nr nc r c
def basisSample (nr nc r c : Nat) : Nat := Gen.reshapeIndex nr nc r c

/-- `zernike_fit`: coefficients of the requested modes -/
def fitX (p k : Nat) (B : Nat → Nat → K) (opd : Nat → K) : Nat → K := cramerX k (gramX p B) (rhsX p B opd)

/-- `B·c`: the OPD composed from coefficients of the requested modes — the REGENERATED contraction `Gen.removeContract` (the
`einsum('ijk,i->jk', basis, coeffs)` of `zernike_remove`; `basis[a]` flattened row-major is column `a` of `B`) -/
def composeX (k : Nat) (B : Nat → Nat → K) (c : Nat → K) (s : Nat) : K := Gen.removeContract sumRange k (fun a s => B s a) c s

/-- `zernike_remove`: `opd - B·fit(opd)` with the same basis for the fit and the subtraction -/
def removeX (p k : Nat) (B : Nat → Nat → K) (opd : Nat → K) (s : Nat) : K := opd s - composeX k B (fitX p k B opd) s

end

section
variable [Add K] [Mul K] [Zero K] [One K] [IntCast K]

/-- `zernike_basis(mask, modes, vectorize=True, normalize, rho, theta)ᵀ`: entry (sample `s`, requested mode number `a`) -/
def zBasisX (sqrtN : Nat → K) (cos sin : K → K) (modes : Nat → Nat) (normalize : Bool) (rho theta : Nat → K) (mask : Nat → Bool) :
    Nat → Nat → K :=
  fun s a => zernAt sqrtN cos sin (modes a) normalize (rho s) (theta s) (mask s)

/-- `zernike_compose(mask, coeffs, …)`: coefficient number `i` (0-based) multiplies the mode with Noll index `nollOf i`
(`nollOf` is the regenerated `Gen.composeNoll`, `i ↦ i + 1`) -/
def composeFullX (sqrtN : Nat → K) (cos sin : K → K) (nollOf : Nat → Nat) (L : Nat) (coeffs : Nat → K) (normalize : Bool)
    (rho theta : Nat → K) (mask : Nat → Bool) (s : Nat) : K :=
  sumRange L fun i => coeffs i * zernAt sqrtN cos sin (nollOf i) normalize (rho s) (theta s) (mask s)

/-! ### the call wiring of `zernike_fit` / `zernike_remove`, through the REGENERATED argument projections (`Gen.fitBasisArgs`,
`Gen.removeFitArgs`, `Gen.removeBasisArgs`): which mask / modes / normalisation / coordinates reach which callee -/

/-- `zernike_basis(**b)ᵀ` for an argument record -/
def basisOfArgs (sqrtN : Nat → K) (cos sin : K → K) (b : Gen.BasisArgs (Nat → Bool) (Nat → Nat) (Nat → K)) : Nat → Nat → K :=
  zBasisX sqrtN cos sin b.modes b.normalize b.rho b.theta b.mask

end

section
variable [Add K] [Sub K] [Mul K] [Div K] [Neg K] [Zero K] [One K] [IntCast K]

/-- `zernike_fit(**a)`: the basis is requested with `Gen.fitBasisArgs a`; the OPD enters through the REGENERATED selection `Gen.fitSelect`
(`np.where(mask != 0, opd, 0)`): samples outside the mask are replaced by 0 before the contraction, so they cannot influence the fit — also not
at `Float`, where `0 * NaN = NaN` -/
def fitA (sqrtN : Nat → K) (cos sin : K → K) (p k : Nat) (a : Gen.FitArgs (Nat → K) (Nat → Bool) (Nat → Nat) (Nat → K)) : Nat → K :=
  fitX p k (basisOfArgs sqrtN cos sin (Gen.fitBasisArgs a)) (fun s => Gen.fitSelect (a.mask s) (a.opd s))

/-- `zernike_remove(**a)`: coefficients from `zernike_fit(**Gen.removeFitArgs a)`, basis from `zernike_basis(**Gen.removeBasisArgs a)`, combined
with the input by the REGENERATED returned expression `Gen.removeResidual` (`opd - fit_opd` in the source) -/
def removeA (sqrtN : Nat → K) (cos sin : K → K) (p k : Nat) (a : Gen.RemoveArgs (Nat → K) (Nat → Bool) (Nat → Nat) (Nat → K)) : Nat → K :=
  fun s => Gen.removeResidual (a.opd s) (composeX k (basisOfArgs sqrtN cos sin (Gen.removeBasisArgs a)) (fitA sqrtN cos sin p k (Gen.removeFitArgs a)) s)

end
end Lentil
