import LentilVerif.Model.Basic
import LentilVerif.Gen.RescaleGrid
import LentilVerif.Gen.PlaneRescale
/-! Executable model of the sampling bookkeeping of `Plane.rescale`, `Plane.resample` and `util.rescale` (C17), generic in
the value type; the interpolator (`scipy.ndimage.map_coordinates`) is a parameter with a stated contract. Mathlib-free. -/
namespace Lentil.Resc
variable {K : Type}

/-- `np.ceil(n * scale).astype(int)`: samples of the rescaled array along an axis of `n` samples -/
def outShape [Mul K] (ceil : K → Int) (ofInt : Int → K) (n : Int) (s : K) : Int := ceil (ofInt n * s)

/-- `(arange(S) - S/2)/scale + n/2`: input-array coordinate at which output sample `j` is interpolated -/
def coord [Add K] [Sub K] [Div K] (ofInt : Int → K) (two : K) (S n : Int) (s : K) (j : Int) : K :=
  (ofInt j - ofInt S / two) / s + ofInt n / two

/-- the grid **as the source builds it** (regenerated `Gen.rescaleCeilArg/rescaleCoordY/rescaleCoordX`, tools/specs/c17.py):
output shape of an `(n0, n1)` image and the (row, column) coordinate of output sample `(i, j)` -/
def gridShape [Add K] [Sub K] [Mul K] [Div K] (ceil : K → Int) (ofInt : Int → K) (n0 n1 : Int) (s : K) : Int × Int :=
  let a := Gen.rescaleCeilArg (ofInt n0) (ofInt n1) s
  (ceil a.1, ceil a.2)
def gridRow [Add K] [Sub K] [Mul K] [Div K] (ofInt : Int → K) (two : K) (S0 S1 n0 n1 : Int) (s : K) (i : Int) : K :=
  Gen.rescaleCoordY (ofInt S0) (ofInt S1) (ofInt n0) (ofInt n1) s two (ofInt i)
def gridCol [Add K] [Sub K] [Mul K] [Div K] (ofInt : Int → K) (two : K) (S0 S1 n0 n1 : Int) (s : K) (j : Int) : K :=
  Gen.rescaleCoordX (ofInt S0) (ofInt S1) (ofInt n0) (ofInt n1) s two (ofInt j)

/-- `Plane.rescale`: `plane._pixelscale = (px[0]/scale, px[1]/scale)` -/
def pixelscale [Div K] (px s : K) : K := px / s

/-- `Plane.resample(new)`: `rescale(scale = pixelscale[0] / new)` -/
def resampleScale [Add K] [Sub K] [Mul K] [Div K] (px new : K) : K := Gen.prResampleScale px px new     -- regenerated: `self.pixelscale[0]/pixelscale`

/-- `Plane.rescale`'s own bookkeeping (everything except the interpolation):
* `plane._pixelscale = (px[0]/scale, px[1]/scale)` when a pixel scale is set, else left `None`;
* the amplitude is interpolated **and divided by `scale`** only when it is an array (`amplitude.ndim > 1`), the OPD is
  interpolated only when it is an array; scalars pass through unchanged. -/
def planePixelscale [Add K] [Sub K] [Mul K] [Div K] (px : Option (K × K)) (s : K) : Option (K × K) :=
  px.map fun p => Gen.prPixelscale p.1 p.2 s        -- regenerated tuple update of Plane.rescale
def amplitudeFactor [One K] [Add K] [Sub K] [Mul K] [Div K] (ampNdim : Nat) (s : K) : K :=
  if ampNdim > 1 then Gen.prAmplitudeFactor 1 s else 1     -- regenerated post-factor behind the `ndim > 1` guard
def interpolated (ndim : Nat) : Bool := decide (ndim > 1)

/-- outcome of `Plane.resample(new)`: refuses a plane without pixel scale (`ValueError`) and a non-uniformly sampled one
(`NotImplementedError`); otherwise rescales by `pixelscale[0] / new` -/
inductive Resample (K : Type) where
  | valueError | notImplemented | scale (s : K)
deriving Repr

def resample [Add K] [Sub K] [Mul K] [Div K] [DecidableEq K] (px : Option (K × K)) (new : K) : Resample K :=
  match px with
  | none => .valueError
  | some p => if p.1 = p.2 then .scale (resampleScale p.1 new) else .notImplemented

/-- `mask[np.nonzero(mask)] = 1; mask.astype(int)` -/
def binarise [Zero K] [DecidableEq K] (x : K) : Int := if x = 0 then 0 else 1

/-- does the regenerated coordinate of output sample `(i, j)` lie inside the input array `[0, n0−1] × [0, n1−1]`? -/
def insideB [Add K] [Sub K] [Mul K] [Div K] [LE K] [DecidableLE K] (ofInt : Int → K) (two : K) (S0 S1 n0 n1 : Int) (s : K) (i j : Int) : Bool :=
  decide (ofInt 0 ≤ gridRow ofInt two S0 S1 n0 n1 s i) && decide (gridRow ofInt two S0 S1 n0 n1 s i ≤ ofInt (n0 - 1)) &&
  decide (ofInt 0 ≤ gridCol ofInt two S0 S1 n0 n1 s j) && decide (gridCol ofInt two S0 S1 n0 n1 s j ≤ ofInt (n1 - 1))

/-- one mask layer resampled as `Plane.rescale` does it (`order=0, mode='constant'`, then binarised): the value of the source pixel
nearest (`rnd`) to the regenerated coordinate when that lies inside the input array, 0 on the rim outside it -/
def nearestMask [Zero K] [DecidableEq K] [Add K] [Sub K] [Mul K] [Div K] [LE K] [DecidableLE K] (ofInt : Int → K) (two : K) (rnd : K → Int)
    (S0 S1 n0 n1 : Int) (s : K) (m : Int → Int → K) (i j : Int) : Int :=
  if insideB ofInt two S0 S1 n0 n1 s i j then binarise (m (rnd (gridRow ofInt two S0 S1 n0 n1 s i)) (rnd (gridCol ofInt two S0 S1 n0 n1 s j))) else 0

/-- `util.rescale(img, scale, mask=None, unitary=False)` at output sample `(i, j)`:
the spline interpolant of `img` at the mapped coordinates, times the (linearly interpolated, thresholded) support mask.
`interp f y x`: value of the order-3 interpolant of `f` at `(y, x)`; `interp1`: the order-1 interpolant (for the mask). -/
def rescaleAt [Zero K] [One K] [Add K] [Sub K] [Mul K] [Div K] [DecidableEq K] [LT K] [DecidableLT K]
    (interp interp1 : (Int → Int → K) → K → K → K) (ceil : K → Int) (ofInt : Int → K) (two eps : K)
    (n0 n1 : Int) (img : Int → Int → K) (s : K) (i j : Int) : K :=
  let S0 := outShape ceil ofInt n0 s
  let S1 := outShape ceil ofInt n1 s
  let y := coord ofInt two S0 n0 s i
  let x := coord ofInt two S1 n1 s j
  let supp : Int → Int → K := fun a b => if img a b = 0 then 0 else 1
  let m := interp1 supp y x
  interp img y x * (if m < eps then 0 else m)

/-- the `shape=` argument of `util.rescale`: absent, a scalar, or a pair -/
inductive ShapeArg where
  | default
  | scalar (m : Int)
  | pair (m0 m1 : Int)

/-- output shape for each form of `shape=` **as the source computes it** (regenerated `Gen.rescaleCeilArg`, `rescaleCeilArgScalar`,
`rescaleCeilArgPair`): the explicit shape is given in INPUT samples and is multiplied by the scale like the image shape -/
def gridShapeArg [Add K] [Sub K] [Mul K] [Div K] (ceil : K → Int) (ofInt : Int → K) (n0 n1 : Int) (sh : ShapeArg) (s : K) : Int × Int :=
  match sh with
  | .default => gridShape ceil ofInt n0 n1 s
  | .scalar m => let a := Gen.rescaleCeilArgScalar (ofInt m) s; (ceil a.1, ceil a.2)
  | .pair m0 m1 => let a := Gen.rescaleCeilArgPair (ofInt m0) (ofInt m1) s; (ceil a.1, ceil a.2)

/-- which part of a complex image a name of the regenerated table `Gen.rescaleComplexParts` denotes -/
def complexPart (re im : Int → Int → K) (name : String) : Option (Int → Int → K) :=
  if name = "img.real" then some re else if name = "img.imag" then some im else none

/-- `util.rescale(img, scale, mask=None, unitary=False)` for COMPLEX `img = re + i·im` at output sample `(i, j)`, as (real, imaginary):
each output part is the interpolant of the input part the source names (`Gen.rescaleComplexParts`), on the same coordinates, times the
support mask of `img != 0` (non-zero real OR imaginary part). `none` = the table names something else. -/
def rescaleComplexAt [Zero K] [One K] [Add K] [Sub K] [Mul K] [Div K] [DecidableEq K] [LT K] [DecidableLT K]
    (interp interp1 : (Int → Int → K) → K → K → K) (ceil : K → Int) (ofInt : Int → K) (two eps : K)
    (n0 n1 : Int) (re im : Int → Int → K) (s : K) (i j : Int) : Option (K × K) :=
  let S0 := outShape ceil ofInt n0 s
  let S1 := outShape ceil ofInt n1 s
  let y := coord ofInt two S0 n0 s i
  let x := coord ofInt two S1 n1 s j
  let supp : Int → Int → K := fun a b => if re a b = 0 ∧ im a b = 0 then 0 else 1
  let m := interp1 supp y x
  let mm := if m < eps then 0 else m
  match (Gen.rescaleComplexParts.lookup "out.real").bind (complexPart re im), (Gen.rescaleComplexParts.lookup "out.imag").bind (complexPart re im) with
  | some pr, some pi => some (interp pr y x * mm, interp pi y x * mm)
  | _, _ => none

end Lentil.Resc
