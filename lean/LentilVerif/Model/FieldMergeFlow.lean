import LentilVerif.Model.Field
import LentilVerif.Gen.FieldMergeFlow
import LentilVerif.Gen.FieldReduceFlow
/-! `lentil.field._merge` as its statements run, evaluated from the regenerated description of them
(`Gen.FieldMergeFlow`: canvas fill, which helper gives the canvas shape / the per-field slice / the result offset, in-place
accumulation). `Props/C06.merge_flow_spec` proves it equal to the closed-form model `mergeL` the merge theorems are about.
Mathlib-free. -/
namespace Lentil
variable {K : Type}

/-- `_merge(fields)`: `out = np.zeros(shape)` (every sample starts at the generated fill value; `one` stands for the
`np.ones` reading), then for each field in order `out[slc] += field.data` (`=` when the generated flag says so), result
`Field(data=out, offset=…)` -/
def mergeFlowL [Add K] [Zero K] (one : K) (fs : List (Fld K)) : Option (Fld K) :=
  let b := boundaryL (fs.map Fld.extent)
  match Gen.mergeCanvasShape b.rmin b.rmax b.cmin b.cmax 0 with
  | none => none
  | some shp =>
    let off := Gen.mergeResultOffset b.rmin b.rmax b.cmin b.cmax
    let fill : K := if Gen.mergeCanvasFill = 0 then 0 else one
    some { arr := { s0 := shp.1, s1 := shp.2,
                    get := fun i j => fs.foldl (fun acc f =>
                      let e := f.extent
                      let sl := Gen.mergeFieldSlice b.rmin b.rmax b.cmin b.cmax e.rmin e.rmax e.cmin e.cmax
                      if decide (sl.1.1 ≤ i) && decide (i < sl.1.2) && decide (sl.2.1 ≤ j) && decide (j < sl.2.2)
                      then (if Gen.mergeLoopInPlace then acc + f.arr.get (i - sl.1.1) (j - sl.2.1)
                            else f.arr.get (i - sl.1.1) (j - sl.2.1))
                      else acc) fill },
           o0 := off.1, o1 := off.2 }

/-- value of a regenerated `out.append(…)` argument of `reduce` for a group with members `l`: `_merge(f['field'])` or
`f['field'][k]` (`none` = IndexError) -/
def _root_.Gen.GroupOut.eval {α : Type} (merge : List α → Option α) (l : List α) : Gen.GroupOut → Option α
  | .mergeAll => merge l
  | .member k => l[k]?

/-- the body of `reduce`'s loop for one group: the generated test on the group size (`Gen.reduceMerges`) selects the
generated then / else value -/
def groupOutFlow {α : Type} (merge : List α → Option α) (l : List α) : Option α :=
  if Gen.reduceMerges (l.length : Int) then Gen.reduceThenOut.eval merge l else Gen.reduceElseOut.eval merge l

end Lentil
