import LentilVerif.Model.Propagate
/-! Executable model of tilt bookkeeping: `lentil.Tilt.shift`, first-order `lentil.DispersiveTilt.shift`,
`Field.shift` (fold, metres -> oversampled pixels, xy -> ij), `Plane.ptt_vector` and the arithmetic of
`Plane.fit_tilt` (the least-squares coefficients themselves come from `np.linalg.lstsq`, a trusted contract: the model
takes them as an argument). Generic in the scalar type. Mathlib-free. -/
namespace Lentil

/-- objects implementing the tilt interface `shift(xs, ys, z, wavelength)` -/
inductive TiltEl (R : Type) where
  /-- `lentil.Tilt(x=xArg, y=yArg)` -/
  | angular (xArg yArg : R)
  /-- `lentil.DispersiveTilt(trace=[t0, t1], dispersion=[d0, d1])` (both first order) -/
  | dispersive1 (t0 t1 d0 d1 : R)

variable {R : Type}

section
variable [Add R] [Sub R] [Mul R] [Div R] [Neg R] [RealLike R]

/-- `tilt.shift(xs, ys, z, wavelength)`.
`Tilt.__init__` stores `self.x = y`, `self.y = x`; `Tilt.shift` returns `(xs - z*self.x, ys - z*self.y)`.
`DispersiveTilt.shift`: `dist = (wavelength - dispersion[1])/dispersion[0]`, `x = dist/sqrt(1 + trace[0]**2)`,
`y = polyval(trace, x)`, then the incoming shift is added. -/
def TiltEl.shift (e : TiltEl R) (xs ys z wl : R) : R × R :=
  match e with
  | .angular xArg yArg => (xs - z * yArg, ys - z * xArg)
  | .dispersive1 t0 t1 d0 d1 =>
      let dist := (wl - d1) / d0
      let x := dist / RealLike.sqrt (RealLike.ofInt 1 + t0 * t0)
      let y := t0 * x + t1
      (x + xs, y + ys)

/-- the loop of `Field.shift`: `x, y = 0, 0; for tilt in self.tilt: x, y = tilt.shift(xs=x, ys=y, ...)` -/
def foldShift (ts : List (TiltEl R)) (z wl : R) : R × R :=
  ts.foldl (fun p e => e.shift p.1 p.2 z wl) (RealLike.ofInt 0, RealLike.ofInt 0)

/-- `Field.shift(z, wavelength, pixelscale=(du0, du1), oversample, indexing)`:
`out = x/pixelscale[1]*oversample, y/pixelscale[0]*oversample`; `'ij'` gives `(-out[1], out[0])` -/
def fieldShift (ts : List (TiltEl R)) (z wl du0 du1 : R) (os : Int) (ij : Bool) : R × R :=
  let p := foldShift ts z wl
  let out := (p.1 / du1 * RealLike.ofInt os, p.2 / du0 * RealLike.ofInt os)
  if ij then (-out.2, out.1) else out

/-- row `k` of `Plane.ptt_vector` for one mask at array index `(i, j)` of an `s0 x s1` plane:
`[1, r*px0, -c*px1] * mask` with `(r, c) = mesh(shape)` = index minus `floor(n/2)` -/
def pttBasis (s0 s1 : Int) (px0 px1 : R) (mask : Int → Int → R) (k : Nat) (i j : Int) : R :=
  (match k with
   | 0 => RealLike.ofInt 1
   | 1 => RealLike.ofInt (cc s0 i) * px0
   | _ => -(RealLike.ofInt (cc s1 j)) * px1) * mask i j

/-- the OPD that `fit_tilt` subtracts for coefficients `(t1, t2)`: `einsum('ij,i->j', ptt_vector[1:3], t[1:3])` -/
def tiltRamp (s0 s1 : Int) (px0 px1 : R) (mask : Int → Int → R) (t1 t2 : R) (i j : Int) : R :=
  pttBasis s0 s1 px0 px1 mask 1 i j * t1 + pttBasis s0 s1 px0 px1 mask 2 i j * t2

/-- `fit_tilt`, one mask: `opd -= ramp`; the recorded element is `Tilt(x=t1, y=t2)` -/
def fitTiltOpd (s0 s1 : Int) (px0 px1 : R) (mask opd : Int → Int → R) (t1 t2 : R) : Int → Int → R :=
  fun i j => opd i j - tiltRamp s0 s1 px0 px1 mask t1 t2 i j

def fitTiltRecord (t1 t2 : R) : TiltEl R := .angular t1 t2
end

/-- `fit_tilt`, segmented: `opd = sum_seg (opd - ramp_seg) * mask_seg` -/
def fitTiltOpdSeg [Add R] [Sub R] [Mul R] [Div R] [Neg R] [RealLike R] [Zero R] (s0 s1 : Int) (px0 px1 : R)
    (segs : List ((Int → Int → R) × R × R)) (opd : Int → Int → R) : Int → Int → R :=
  fun i j => sumList segs fun s => (opd i j - tiltRamp s0 s1 px0 px1 s.1 s.2.1 s.2.2 i j) * s.1 i j

section ramp
variable {K : Type} [Add R] [Sub R] [Mul R] [Neg R] [RealLike R] [Mul K] [CxLike K R]
/-- the input field multiplied by the phase ramp of a displacement `(sr, sc)` output samples (for `alpha` as in
`ramp_is_opd_ramp` this is the phasor of the OPD ramp `thx*r*dx0 - thy*c*dx1`, `r`/`c` global pupil coordinates) -/
def rampField (f : Fld K) (αr αc sr sc : R) : Fld K :=
  { f with arr := { f.arr with get := fun x y => f.arr.get x y *
      ((CxLike.expI (RealLike.twoPi * αr * RealLike.ofInt (cc f.arr.s0 x + f.o0) * sr) : K) *
       CxLike.expI (RealLike.twoPi * αc * RealLike.ofInt (cc f.arr.s1 y + f.o1) * sc)) } }

end ramp

section history
variable [Add R] [Sub R] [Mul R] [Div R] [Neg R] [RealLike R] [Zero R]
/-- a plane's OPD/tilt history: OPD updates and tilt fits (with whatever coefficients the solver returned) -/
inductive TiltOp (R : Type) where
  | update (d : Int → Int → R)
  | fit (t1 t2 : R)

/-- state after a history: current OPD and the recorded tilts, oldest first -/
def tiltRun (s0 s1 : Int) (px0 px1 : R) (mask : Int → Int → R) :
    List (TiltOp R) → (Int → Int → R) × List (R × R) → (Int → Int → R) × List (R × R)
  | [], st => st
  | TiltOp.update d :: ops, (opd, ts) => tiltRun s0 s1 px0 px1 mask ops (fun i j => opd i j + d i j, ts)
  | TiltOp.fit t1 t2 :: ops, (opd, ts) => tiltRun s0 s1 px0 px1 mask ops (fitTiltOpd s0 s1 px0 px1 mask opd t1 t2, ts ++ [(t1, t2)])

def tiltUpdatesSum : List (TiltOp R) → Int → Int → R
  | [], _, _ => 0
  | TiltOp.update d :: ops, i, j => d i j + tiltUpdatesSum ops i j
  | TiltOp.fit _ _ :: ops, i, j => tiltUpdatesSum ops i j

end history

end Lentil
