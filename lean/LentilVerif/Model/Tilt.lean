import LentilVerif.Model.Propagate
import LentilVerif.Gen.TiltFit
/-! Executable model of tilt bookkeeping: `lentil.Tilt.shift`, first-order `lentil.DispersiveTilt.shift`,
`Field.shift` (fold, metres -> oversampled pixels, xy -> ij), `Plane.ptt_vector` and the arithmetic of
`Plane.fit_tilt` (the least-squares coefficients themselves come from `np.linalg.lstsq`, a trusted contract: the model
takes them as an argument). Generic in the scalar type. Mathlib-free. -/
namespace Lentil

/-- `np.polyval(p, x)`: Horner evaluation, coefficients in decreasing powers -/
def polyval {R : Type} [Add R] [Mul R] [RealLike R] (p : List R) (x : R) : R :=
  p.foldl (fun acc c => acc * x + c) (RealLike.ofInt 0)

/-- `np.polyder(p)`: coefficients of the derivative, decreasing powers -/
def polyder {R : Type} [Mul R] [RealLike R] : List R → List R
  | [] => []
  | [_] => []
  | c :: d :: rest => (RealLike.ofInt ((d :: rest).length) * c) :: polyder (d :: rest)

/-- objects implementing the tilt interface `shift(xs, ys, z, wavelength)` -/
inductive TiltEl (R : Type) where
  /-- `lentil.Tilt(x=xArg, y=yArg)` -/
  | angular (xArg yArg : R)
  /-- `lentil.DispersiveTilt(trace=[t0, t1], dispersion=[d0, d1])` (both first order) -/
  | dispersive1 (t0 t1 d0 d1 : R)
  /-- `lentil.DispersiveTilt(trace, dispersion)` of any order, given the abscissa `x` the numerical branches return for the wavelength
  (contract `C04.DispersiveSolved`: root of the generated residuals); the displacement is the generated tail `(x, polyval(trace, x))` -/
  | dispersiveN (trace : List R) (x : R)

variable {R : Type}

section
variable [Add R] [Sub R] [Mul R] [Div R] [Neg R] [RealLike R]

/-- `tilt.shift(xs, ys, z, wavelength)`.
`Tilt` (generated `Gen.tiltShift`): `__init__` stores `self.x = y`, `self.y = x`; `shift` returns `(xs - z*self.x, ys - z*self.y)`.
`DispersiveTilt.shift` (generated `Gen.dispersiveShift1`, first-order branches): `dist = (wavelength - dispersion[1])/dispersion[0]`, `x = dist/sqrt(1 + trace[0]**2)`,
`y = polyval(trace, x)`, then the incoming shift is added. -/
def TiltEl.shift (e : TiltEl R) (xs ys z wl : R) : R × R :=
  match e with
  | .angular xArg yArg => Gen.tiltShift xArg yArg xs ys z
  | .dispersive1 t0 t1 d0 d1 => Gen.dispersiveShift1 RealLike.sqrt (RealLike.ofInt 1) t0 t1 d0 d1 wl xs ys
  | .dispersiveN trace x => Gen.dispersiveTail polyval trace x xs ys

/-- the loop of `Field.shift`: `x, y = 0, 0; for tilt in self.tilt: x, y = tilt.shift(xs=x, ys=y, ...)` -/
def foldShift (ts : List (TiltEl R)) (z wl : R) : R × R :=
  ts.foldl (fun p e => e.shift p.1 p.2 z wl) (RealLike.ofInt 0, RealLike.ofInt 0)

/-- `Field.shift(z, wavelength, pixelscale=(du0, du1), oversample, indexing)`:
`out = x/pixelscale[1]*oversample, y/pixelscale[0]*oversample`; `'ij'` gives `(-out[1], out[0])` -/
def fieldShift (ts : List (TiltEl R)) (z wl du0 du1 : R) (os : Int) (ij : Bool) : R × R :=
  let p := foldShift ts z wl
  let out := Gen.fieldShiftOut p.1 p.2 du0 du1 (RealLike.ofInt os)
  if ij then Gen.fieldShiftIJ out.1 out.2 else out

/-- entry `k` (0, 1, 2) of a triple -/
def tripleGet (t : R × R × R) (k : Int) : R := if k = 0 then t.1 else if k = 1 then t.2.1 else t.2.2

/-- row `k` of `Plane.ptt_vector` for one mask at array index `(i, j)` of an `s0 x s1` plane: the generated unmasked row
(`Gen.pttRow`: `[1, r*px0, -c*px1]`) times the mask, `(r, c) = mesh(shape)` = index minus `floor(n/2)` -/
def pttBasis (s0 s1 : Int) (px0 px1 : R) (mask : Int → Int → R) (k : Int) (i j : Int) : R :=
  tripleGet (Gen.pttRow (RealLike.ofInt 1) (RealLike.ofInt (cc s0 i)) (RealLike.ofInt (cc s1 j)) px0 px1) k * mask i j

/-- SPECIFICATION: the OPD ramp equivalent to a tilt of `thx` about x and `thy` about y on the mask,
`(thx * r * px0 - thy * c * px1) * mask` (see `C04.ramp_is_opd_ramp`, `C04.fieldShift_angular`) -/
def tiltRamp (s0 s1 : Int) (px0 px1 : R) (mask : Int → Int → R) (thx thy : R) (i j : Int) : R :=
  (thx * RealLike.ofInt (cc s0 i) * px0 - thy * RealLike.ofInt (cc s1 j) * px1) * mask i j
end

section fit
variable [Add R] [Sub R] [Mul R] [Div R] [Neg R] [RealLike R] [Zero R]

/-- what `fit_tilt` subtracts (one mask): `einsum('ij,i->j', ptt_vector[rows], t[coefs])` with the generated slices
`Gen.fitSubRows`, `Gen.fitSubCoefs`; `t` is the full coefficient vector returned by `lstsq` (contract) -/
def fitSubtract (s0 s1 : Int) (px0 px1 : R) (mask : Int → Int → R) (t : Int → R) (i j : Int) : R :=
  sumRange (Gen.fitSubRows.2 - Gen.fitSubRows.1).toNat fun m =>
    pttBasis s0 s1 px0 px1 mask (Gen.fitSubRows.1 + m) i j * t (Gen.fitSubCoefs.1 + m)

/-- `fit_tilt`, one mask: `plane.opd -= opd_tilt` -/
def fitTiltOpd (s0 s1 : Int) (px0 px1 : R) (mask opd : Int → Int → R) (t : Int → R) : Int → Int → R :=
  fun i j => opd i j - fitSubtract s0 s1 px0 px1 mask t i j

/-- the `(x, y)` arguments of the recorded `Tilt(x=t[·], y=t[·])` (generated indices `Gen.fitRecord`) -/
def fitRecordXY (t : Int → R) : R × R := (t Gen.fitRecord.1, t Gen.fitRecord.2)
def fitTiltRecord (t : Int → R) : TiltEl R := .angular (fitRecordXY t).1 (fitRecordXY t).2

/-- what `fit_tilt` subtracts for segment `seg` (rows of the stacked basis `Gen.fitSegSubRows seg`, taken inside the
segment's own block `Gen.pttSegRows seg` whose mask is `mask`) -/
def fitSegSubtract (s0 s1 : Int) (px0 px1 : R) (seg : Int) (mask : Int → Int → R) (t : Int → R) (i j : Int) : R :=
  sumRange ((Gen.fitSegSubRows seg).2 - (Gen.fitSegSubRows seg).1).toNat fun m =>
    pttBasis s0 s1 px0 px1 mask ((Gen.fitSegSubRows seg).1 + m - (Gen.pttSegRows seg).1) i j * t (Gen.fitSegSubCoefs.1 + m)

def fitSegRecordXY (t : Int → R) : R × R := (t Gen.fitSegRecord.1, t Gen.fitSegRecord.2)

/-- `fit_tilt`, segmented: `opd = sum_seg (opd - seg_tilt) * mask[seg]`; `segs` = (segment index, mask, coefficients) -/
def fitTiltOpdSeg (s0 s1 : Int) (px0 px1 : R) (segs : List (Int × (Int → Int → R) × (Int → R))) (opd : Int → Int → R) :
    Int → Int → R :=
  fun i j => sumList segs fun s => (opd i j - fitSegSubtract s0 s1 px0 px1 s.1 s.2.1 s.2.2 i j) * s.2.1 i j

/-- `fit_tilt` on a plane with one mask, as called: under the generated early-return test (`Gen.fitTiltSkips`, with `ptt_vector is None`
given by the generated `Gen.pttVectorNone`; `shapeEmpty` = `self.shape == ()`, `shapeNone` = `self.shape is None`, `opdSize` =
`plane.opd.size`) the plane comes back untouched — same OPD, nothing recorded (`none`); otherwise the OPD with the fitted ramp removed
and the `(x, y)` of the recorded `Tilt` -/
def fitTiltCall (shapeEmpty shapeNone : Bool) (opdSize : Int) (s0 s1 : Int) (px0 px1 : R) (mask opd : Int → Int → R) (t : Int → R) :
    (Int → Int → R) × Option (R × R) :=
  if Gen.fitTiltSkips (Gen.pttVectorNone shapeEmpty shapeNone) opdSize then (opd, none)
  else (fitTiltOpd s0 s1 px0 px1 mask opd t, some (fitRecordXY t))
end fit

/-! ## How tilt lists are built (generated wiring `Gen.wavefrontInitTilt`, `Gen.fieldMulTilt`, `Gen.tiltInterfaceAppend`) -/

/-- the tilt list of a field after `Wavefront(tilt=w)` (or none), a chain of untilted planes (`Plane.multiply`: `field * phasor`,
the phasor carrying the plane's own recorded tilts `ptilts`), in order -/
def tiltListAfterPlanes (init : List (TiltEl R)) (planeTilts : List (List (TiltEl R))) : List (TiltEl R) :=
  planeTilts.foldl (fun l pt => Gen.fieldMulTilt l pt) init

/-- `Wavefront(tilt=(a, b))`: the initial field's list -/
def waveTilt (a b : R) : List (TiltEl R) := Gen.wavefrontInitTilt TiltEl.angular a b

/-- multiplication by a `Tilt`/`DispersiveTilt` plane `e`: the plane's own phasor carries no tilt (`Field.__mul__` with an empty
right list), then `TiltInterface.multiply` appends the element -/
def tiltListAfterTiltPlane (l : List (TiltEl R)) (e : TiltEl R) : List (TiltEl R) :=
  Gen.tiltInterfaceAppend (Gen.fieldMulTilt l []) e

section ramp
variable {K : Type} [Add R] [Sub R] [Mul R] [Neg R] [RealLike R] [Mul K] [CxLike K R]
/-- the input field multiplied by the phase ramp of a displacement `(sr, sc)` output samples (for `alpha` as in
`ramp_is_opd_ramp` this is the phasor of the OPD ramp `thx*r*dx0 - thy*c*dx1`, `r`/`c` global pupil coordinates) -/
def rampField (f : Fld K) (αr αc sr sc : R) : Fld K :=
  { f with arr := { f.arr with get := fun x y => f.arr.get x y *
      ((CxLike.expI (RealLike.twoPi * αr * RealLike.ofInt (cc f.arr.s0 x + f.o0) * sr) : K) *
       CxLike.expI (RealLike.twoPi * αc * RealLike.ofInt (cc f.arr.s1 y + f.o1) * sc)) } }


/-- the complex field a plane contributes on one slice (`Plane.multiply`: `amp * exp(2 pi i opd / wavelength)` at
`slice_offset`), as a function of slice-local indices; the global coordinate of index `(x, y)` is
`(cc s0 x + o0, cc s1 y + o1)` = the plane's mesh coordinate of that pixel (C03 `slice_offset_embeds`) -/
def phasorField [Div R] (amp : Int → Int → K) (opd : Int → Int → R) (wl : R) (s0 s1 o0 o1 : Int) : Fld K :=
  { arr := { s0 := s0, s1 := s1, get := fun x y => amp x y * CxLike.expI (RealLike.twoPi * opd x y / wl) }, o0 := o0, o1 := o1 }
end ramp

/-- one segment of a segmented aperture with its own tilt: amplitude·mask and OPD on the segment's slice (slice-local indices, slice
shape `s0 x s1` at offset `(o0, o1)`), the tilt `(thx, thy)` its field carries as metadata, and the split `fix + sub` of the shift -/
structure SegTilt (K R : Type) where
  amp : Int → Int → K
  opd0 : Int → Int → R
  thx : R
  thy : R
  s0 : Int
  s1 : Int
  o0 : Int
  o1 : Int
  fix0 : Int
  fix1 : Int
  sub0 : R
  sub1 : R

section history
variable [Add R] [Sub R] [Mul R] [Div R] [Neg R] [RealLike R] [Zero R]
/-- a plane's OPD/tilt history: OPD updates and tilt fits (with whatever coefficients the solver returned) -/
inductive TiltOp (R : Type) where
  | update (d : Int → Int → R)
  | fit (t : Int → R)

/-- state after a history: current OPD and the recorded tilts, oldest first -/
def tiltRun (s0 s1 : Int) (px0 px1 : R) (mask : Int → Int → R) :
    List (TiltOp R) → (Int → Int → R) × List (R × R) → (Int → Int → R) × List (R × R)
  | [], st => st
  | TiltOp.update d :: ops, (opd, ts) => tiltRun s0 s1 px0 px1 mask ops (fun i j => opd i j + d i j, ts)
  | TiltOp.fit t :: ops, (opd, ts) => tiltRun s0 s1 px0 px1 mask ops (fitTiltOpd s0 s1 px0 px1 mask opd t, ts ++ [fitRecordXY t])

def tiltUpdatesSum : List (TiltOp R) → Int → Int → R
  | [], _, _ => 0
  | TiltOp.update d :: ops, i, j => d i j + tiltUpdatesSum ops i j
  | TiltOp.fit _ :: ops, i, j => tiltUpdatesSum ops i j

end history

end Lentil
