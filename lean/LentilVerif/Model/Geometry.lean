import LentilVerif.Model.Field
import LentilVerif.Gen.Util
import LentilVerif.Gen.Helper
import LentilVerif.Gen.Helper20
import LentilVerif.Gen.Hex
import LentilVerif.Gen.Mesh
import LentilVerif.Gen.UtilWindow
import LentilVerif.Gen.UtilCentroid
import LentilVerif.Gen.UtilRebin
/-! Executable model of lentil's array-geometry helpers (`util.pad/subarray/boundary/rebin/centroid`,
`helper.mesh/boundary_slice/slice_offset`, `shape.circle/rectangle/hexagon`, `segmented.hex_ring/hex_segments`).
Index arithmetic comes from the generated kernel (`Gen.padIdx2`, `Gen.padIdx3`, `Gen.subarrayIdx`, `Gen.boundarySlice`,
`Gen.sliceOffset`, `Gen.hexDirections`, …); the array plumbing is written by hand and tied to the implementation by the
correspondence harness (tools/harness/c20.py). Mathlib-free, generic in the value type. -/
namespace Lentil

variable {K : Type}

/-- half-open window test `lo ≤ i < hi` as a Bool guard -/
def inWin (lo hi i : Int) : Bool := decide (lo ≤ i) && decide (i < hi)

/-- a cube: `depth` slices of shape `(s0, s1)` (first axis indexes the slices) -/
structure Cube (K : Type) where
  d : Int
  s0 : Int
  s1 : Int
  get : Int → Int → Int → K

/-- slice `k` of a cube -/
def Cube.slice (a : Cube K) (k : Int) : Arr K := { s0 := a.s0, s1 := a.s1, get := a.get k }

/-! ## `util.pad` -/

/-- `padded[rmin1:rmax1, cmin1:cmax1] = array[rmin0:rmax0, cmin0:cmax0]` on a zero array of shape `(S0, S1)` -/
def pad2 [Zero K] (a : Arr K) (S0 S1 : Int) : Arr K :=
  let ix := Gen.padIdx2 a.s0 a.s1 S0 S1
  { s0 := S0, s1 := S1,
    get := fun i j =>
      if inWin ix.2.1 ix.2.2.1 i && inWin ix.2.2.2.1 ix.2.2.2.2 j
      then a.get (i - ix.2.1 + ix.1.1) (j - ix.2.2.2.1 + ix.1.2.2.1) else 0 }

/-- cube branch: `padded[:, rmin1:rmax1, cmin1:cmax1] = array[:, rmin0:rmax0, cmin0:cmax0]` -/
def pad3 [Zero K] (a : Cube K) (S0 S1 : Int) : Cube K :=
  let ix := Gen.padIdx3 a.d a.s0 a.s1 S0 S1
  { d := a.d, s0 := S0, s1 := S1,
    get := fun k i j =>
      if inWin ix.2.1 ix.2.2.1 i && inWin ix.2.2.2.1 ix.2.2.2.2 j
      then a.get k (i - ix.2.1 + ix.1.1) (j - ix.2.2.2.1 + ix.1.2.2.1) else 0 }

/-- reference semantics of the centre convention: the array placed on the infinite zero plane with its sample
`(⌊s0/2⌋, ⌊s1/2⌋)` at the origin, read at coordinate `(r, c)` -/
def Arr.centred [Zero K] (a : Arr K) (r c : Int) : K :=
  if inWin 0 a.s0 (r + a.s0 / 2) && inWin 0 a.s1 (c + a.s1 / 2) then a.get (r + a.s0 / 2) (c + a.s1 / 2) else 0

def Cube.centred [Zero K] (a : Cube K) (k r c : Int) : K :=
  if inWin 0 a.s0 (r + a.s0 / 2) && inWin 0 a.s1 (c + a.s1 / 2) then a.get k (r + a.s0 / 2) (c + a.s1 / 2) else 0

/-! ## `util.subarray` -/

/-- `a[rmin:rmax, cmin:cmax]` or `ValueError` -/
def subarray (a : Arr K) (h w o0 o1 : Int) : Except String (Arr K) :=
  match Gen.subarrayIdx a.s0 a.s1 h w o0 o1 with
  | .error e => .error e
  | .ok ix => .ok { s0 := ix.2.1 - ix.1, s1 := ix.2.2.2 - ix.2.2.1, get := fun i j => a.get (i + ix.1) (j + ix.2.2.1) }

/-! ## `util.window` -/

/-- Python's `slice(lo, hi).indices(n)` for step 1: a negative bound counts from the end, then both are clamped to `[0, n]` -/
def sliceBound (n x : Int) : Int :=
  if x < 0 then (if x + n < 0 then 0 else x + n) else (if n < x then n else x)

/-- NumPy basic slicing `a[r0:r1, c0:c1]` (a view: sample `(i, j)` is the source sample `(start₀ + i, start₁ + j)`) -/
def viewSlice (a : Arr K) (r0 r1 c0 c1 : Int) : Arr K :=
  let b0 := sliceBound a.s0 r0; let e0 := sliceBound a.s0 r1
  let b1 := sliceBound a.s1 c0; let e1 := sliceBound a.s1 c1
  { s0 := if e0 < b0 then 0 else e0 - b0, s1 := if e1 < b1 then 0 else e1 - b1,
    get := fun i j => a.get (b0 + i) (b1 + j) }

/-- `util.window(img, shape, slice)` on a 2-D array: the generated decision tree `Gen.windowAct` carried out on the array model
(`shape`/`slice` = `none` for Python's `None`); `AssertionError` for inconsistent `shape` and `slice` -/
def window [Zero K] (a : Arr K) (shape : Option (Int × Int)) (slice : Option (Int × Int × Int × Int)) : Except String (Arr K) :=
  match Gen.windowAct (a.s0 * a.s1) shape.isNone slice.isNone (shape.getD (0, 0)) (slice.getD (0, 0, 0, 0)) with
  | .whole => .ok a
  | .view r0 r1 c0 c1 => .ok (viewSlice a r0 r1 c0 c1)
  | .pad S0 S1 => .ok (pad2 a S0 S1)
  | .refuse => .error "AssertionError"
  | .fallthrough => .error "None"

/-- cube branch of the `shape=` path (`lentil.pad` handles the third axis); `size` = depth × rows × columns -/
def window3Shape [Zero K] (a : Cube K) (S0 S1 : Int) : Except String (Cube K) :=
  match Gen.windowAct (a.d * a.s0 * a.s1) false true (S0, S1) (0, 0, 0, 0) with
  | .whole => .ok a
  | .pad T0 T1 => .ok (pad3 a T0 T1)
  | _ => .error "unmodelled"

/-- NumPy basic slicing of a cube with two slices: `a[..., r0:r1, c0:c1]` (last two axes: every depth slice is cut on rows and columns) when
`fromEnd`, `a[r0:r1, c0:c1]` (FIRST two axes: depth and rows, all columns) otherwise -/
def viewSlice3 (fromEnd : Bool) (a : Cube K) (r0 r1 c0 c1 : Int) : Cube K :=
  if fromEnd then
    let b0 := sliceBound a.s0 r0; let e0 := sliceBound a.s0 r1
    let b1 := sliceBound a.s1 c0; let e1 := sliceBound a.s1 c1
    { d := a.d, s0 := if e0 < b0 then 0 else e0 - b0, s1 := if e1 < b1 then 0 else e1 - b1,
      get := fun k i j => a.get k (b0 + i) (b1 + j) }
  else
    let b0 := sliceBound a.d r0; let e0 := sliceBound a.d r1
    let b1 := sliceBound a.s0 c0; let e1 := sliceBound a.s0 c1
    { d := if e0 < b0 then 0 else e0 - b0, s0 := if e1 < b1 then 0 else e1 - b1, s1 := a.s1,
      get := fun k i j => a.get (b0 + k) (b1 + i) j }

/-- `util.window(img, shape, slice)` on a cube `(depth, rows, cols)`: the generated decision tree, the view on the axes the source addresses
(`Gen.windowSliceAxesFromEnd`), `lentil.pad`'s cube branch for `shape=` -/
def window3 [Zero K] (a : Cube K) (shape : Option (Int × Int)) (slice : Option (Int × Int × Int × Int)) : Except String (Cube K) :=
  match Gen.windowAct (a.d * a.s0 * a.s1) shape.isNone slice.isNone (shape.getD (0, 0)) (slice.getD (0, 0, 0, 0)) with
  | .whole => .ok a
  | .view r0 r1 c0 c1 => .ok (viewSlice3 Gen.windowSliceAxesFromEnd a r0 r1 c0 c1)
  | .pad S0 S1 => .ok (pad3 a S0 S1)
  | .refuse => .error "AssertionError"
  | .fallthrough => .error "None"

/-! ## `util.boundary`, `helper.boundary_slice`, `helper.slice_offset` -/

/-- some index below `n` satisfies `p` (`np.any` along an axis) -/
def anyBelow : Nat → (Nat → Bool) → Bool
  | 0, _ => false
  | n + 1, p => p n || anyBelow n p

/-- least index below `n` satisfying `p`  (`np.where(v)[0][0]`) -/
def firstTrue : Nat → (Nat → Bool) → Option Nat
  | 0, _ => none
  | n + 1, p => match firstTrue n p with
    | some k => some k
    | none => if p n then some n else none

/-- greatest index below `n` satisfying `p`  (`np.where(v)[0][-1]`) -/
def lastTrue : Nat → (Nat → Bool) → Option Nat
  | 0, _ => none
  | n + 1, p => if p n then some n else lastTrue n p

def rowAny (x : Arr Bool) (i : Nat) : Bool := anyBelow x.s1.toNat fun j => x.get i j
def colAny (x : Arr Bool) (j : Nat) : Bool := anyBelow x.s0.toNat fun i => x.get i j

/-- `x > threshold` -/
def gtMask [LT K] [DecidableRel (α := K) (· < ·)] (x : Arr K) (thr : K) : Arr Bool :=
  { s0 := x.s0, s1 := x.s1, get := fun i j => decide (thr < x.get i j) }

/-- `util.boundary` on the thresholded array; `none` when nothing exceeds the threshold (NumPy raises IndexError) -/
def boundary (x : Arr Bool) : Option Extent :=
  match firstTrue x.s0.toNat (rowAny x), lastTrue x.s0.toNat (rowAny x),
        firstTrue x.s1.toNat (colAny x), lastTrue x.s1.toNat (colAny x) with
  | some r0, some r1, some c0, some c1 => some ⟨r0, r1, c0, c1⟩
  | _, _, _, _ => none

/-- `helper.boundary_slice(x, pad=(p0, p1))`: ((row start, row stop), (col start, col stop)) -/
def boundarySlice (x : Arr Bool) (p0 p1 : Int) : Option ((Int × Int) × (Int × Int)) :=
  (boundary x).map fun b => Gen.boundarySlice b.rmin b.rmax b.cmin b.cmax x.s0 x.s1 p0 p1

/-! ## `util.rebin`, `util.centroid` -/

/-- total of an array -/
def Arr.total [Add K] [Zero K] (a : Arr K) : K :=
  sumRange a.s0.toNat fun i => sumRange a.s1.toNat fun j => a.get i j

/-- `img.reshape(s0//f, f, s1//f, f).sum(-1).sum(1)`; `reshape` refuses (`none`) unless `f` divides both axes -/
def rebin [Add K] [Zero K] (a : Arr K) (f : Nat) : Option (Arr K) :=
  if decide (0 < f) && decide (a.s0 % f = 0) && decide (a.s1 % f = 0) then
    some { s0 := a.s0 / f, s1 := a.s1 / f,
           get := fun i j => sumRange f fun u => sumRange f fun v => a.get (i * f + u) (j * f + v) }
  else none

/-- cube branch of `rebin`: every slice separately, shape `(d, s0//f, s1//f)` -/
def rebin3 [Add K] [Zero K] (a : Cube K) (f : Nat) : Option (Cube K) :=
  if decide (0 < f) && decide (a.s0 % f = 0) && decide (a.s1 % f = 0) then
    some { d := a.d, s0 := a.s0 / f, s1 := a.s1 / f,
           get := fun k i j => sumRange f fun u => sumRange f fun v => a.get k (i * f + u) (j * f + v) }
  else none

/-- row-major (C order) flat position of the multi-index `idx` in an array of shape `dims` (what `reshape` preserves) -/
def cFlat (dims idx : List Int) : Int := (List.zip dims idx).foldl (fun acc p => acc * p.1 + p.2) 0

/-- numerators and common denominator of `util.centroid`: `(Σ i·x[i,j], Σ j·x[i,j], Σ x[i,j])` -/
def centroidNum (a : Arr Int) : Int × Int × Int :=
  (sumRange a.s0.toNat fun i => sumRange a.s1.toNat fun j => (i : Int) * a.get i j,
   sumRange a.s0.toNat fun i => sumRange a.s1.toNat fun j => (j : Int) * a.get i j,
   a.total)

/-- the same for any scalar (float images, antialiased shapes with values in [0, 1], ℚ weights): `util.centroid` normalises by the total
and takes `np.dot` of the index grids with the image; these are the two numerators and the total -/
def centroidNumK [Add K] [Mul K] [Zero K] [NatCast K] (a : Arr K) : K × K × K :=
  (sumRange a.s0.toNat fun i => sumRange a.s1.toNat fun j => ((i : Nat) : K) * a.get i j,
   sumRange a.s0.toNat fun i => sumRange a.s1.toNat fun j => ((j : Nat) : K) * a.get i j,
   a.total)

/-- `util.centroid(img)` itself: the REGENERATED `Gen.centroid` (normalisation by the total, index grids, dot products) on the array model -/
def centroidRC [Add K] [Mul K] [Div K] [Zero K] [IntCast K] (a : Arr K) : K × K :=
  Gen.centroid sumRange a.s0.toNat a.s1.toNat fun i j => a.get i j

/-! ## `helper.mesh` and the drawn shapes (`shape.py`) -/

/-- coordinate of index `i` on an axis of length `n` shifted by `s`: `arange(n) - floor(n/2) - s` — the REGENERATED `Gen.meshCoord` -/
def meshCoord [Add K] [Sub K] [Mul K] [Div K] [Neg K] [NatCast K] [IntCast K] (n i : Int) (s : K) : K := Gen.meshCoord n i s

def clip01 [Zero K] [One K] [LT K] [DecidableRel (α := K) (· < ·)] (x : K) : K :=
  if x < 0 then 0 else if 1 < x then 1 else x

def binarise [Zero K] [One K] [LT K] [DecidableRel (α := K) (· < ·)] (x : K) : K := if 0 < x then 1 else x

def absK [Zero K] [Neg K] [LT K] [DecidableRel (α := K) (· < ·)] (x : K) : K := if x < 0 then -x else x

def minK [LT K] [DecidableRel (α := K) (· < ·)] (x y : K) : K := if y < x then y else x

section Shapes
variable [Add K] [Sub K] [Mul K] [Div K] [Neg K] [Zero K] [One K] [IntCast K] [NatCast K] [LT K] [DecidableRel (α := K) (· < ·)]

/-- `shape.circle`: `clip(radius + 0.5 - sqrt((rr - s0)² + (cc - s1)²), 0, 1)`, binarised without antialiasing.
`half` is the constant 0.5 and `sqrt` the square root of the value type. -/
def circleAt (sqrt : K → K) (half : K) (n0 n1 : Int) (radius s0 s1 : K) (aa : Bool) (i j : Int) : K :=
  let y := meshCoord n0 i s0
  let x := meshCoord n1 j s1
  let m := clip01 ((radius + half) - sqrt (y * y + x * x))
  if aa then m else binarise m

/-- `shape.rectangle`; `ca`, `sa` = cos and sin of the rotation angle -/
def rectangleAt (half : K) (n0 n1 : Int) (width height s0 s1 ca sa : K) (aa : Bool) (i j : Int) : K :=
  let rr := meshCoord n0 i s0
  let cc := meshCoord n1 j s1
  let r := (Gen.meshRot rr cc ca sa).1
  let c := (Gen.meshRot rr cc ca sa).2
  let wc := clip01 ((half + width * half) - absK c)
  let hc := clip01 ((half + height * half) - absK r)
  let m := minK (minK 1 wc) hc
  if aa then m else binarise m

/-- `shape.spider`: one minus a rectangle of length `len = √2·max(shape)/2` and the given width, pushed out from the (shifted) centre by
`len/2` along the direction `angle` (`ca`, `sa` = cos, sin of the angle; `sqrt2` = √2) -/
def spiderAt (half sqrt2 : K) (n0 n1 : Int) (width s0 s1 ca sa : K) (aa : Bool) (i j : Int) : K :=
  let len := sqrt2 * ((max n0 n1 : Int) : K) / ((2 : Int) : K)
  let dist := len / ((2 : Int) : K)
  1 - rectangleAt half n0 n1 len width (s0 + -dist * sa) (s1 + dist * ca) ca sa aa i j

/-- one of the six half-planes of `shape.hexagon` (normal `(sn, cn)`) -/
def hexSide (half inner : K) (aa : Bool) (r c sn cn : K) : K :=
  let rho := r * sn + c * cn
  if aa then clip01 ((inner + half) - rho) else (if inner < rho then 0 else 1)

/-- `shape.hexagon`: minimum over the six half-planes; `sinT n`, `cosT n` = sin and cos of the n-th normal angle
(`n·π/3 + π/6`, or `n·π/3` when rotated) and `inner = radius·√3/2` -/
def hexagonAt (half inner : K) (sinT cosT : Nat → K) (n0 n1 : Int) (s0 s1 : K) (aa : Bool) (i j : Int) : K :=
  let r := meshCoord n0 i s0
  let c := meshCoord n1 j s1
  let sd := fun (n : Nat) => hexSide half inner aa r c (sinT n) (cosT n)
  -- `for n in range(6): mask = np.minimum(mask, slc)` starting from ones
  minK (minK (minK (minK (minK (minK 1 (sd 0)) (sd 1)) (sd 2)) (sd 3)) (sd 4)) (sd 5)

end Shapes

/-! ## hexagonal grid walk (`segmented.py`) -/

abbrev HexCell := Int × Int × Int

/-- `hex_neighbor(hex, i)` -/
def hexNeighbor (h : HexCell) (i : Nat) : HexCell := Gen.hexNeighbor h i

/-- inner loop of `hex_ring`: `for j in range(n): results.append(hex); hex = hex_neighbor(hex, i)` -/
def walkSide (i : Nat) : Nat → List HexCell → HexCell → List HexCell × HexCell
  | 0, acc, h => (acc, h)
  | n + 1, acc, h => walkSide i n (acc ++ [h]) (hexNeighbor h i)

/-- outer loop of `hex_ring`: sides `i = 0 … m-1` -/
def walkSides (k : Nat) : Nat → List HexCell × HexCell
  | 0 => ([], Gen.hexRingStart k)
  | m + 1 => let s := walkSides k m; walkSide m k s.1 s.2

/-- `segmented.hex_ring(k)`: the REGENERATED loop translation `Gen.hexRing` (folds over the state `(results, hex)`); `walkSide` / `walkSides` above are
the recursive form the lemmas use, proved equal to it (`hexRing_eq_walk`) -/
def hexRing (k : Nat) : List HexCell := Gen.hexRing k

/-- `hex_to_rc(hex, radius, rotate)` = `(-y, x)` of `hex_to_xy`; `sqrt3 = √3`, `sqrt3h = √3/2`, `threeHalf = 3/2` -/
def hexToRC [Add K] [Mul K] [Neg K] [IntCast K] (sqrt3 sqrt3h threeHalf : K) (h : HexCell) (radius : K) (rotate : Bool) : K × K :=
  if rotate then (-(radius * (threeHalf * (h.2.1 : K))), radius * (sqrt3 * (h.1 : K) + sqrt3h * (h.2.1 : K)))
  else (-(radius * (sqrt3h * (h.1 : K) + sqrt3 * (h.2.1 : K))), radius * (threeHalf * (h.1 : K)))

/-- array size of `hex_segments`: `np.ceil(<Gen.hexSizeArg>).astype(int)` — the argument of the ceiling is REGENERATED from the source -/
def hexSegmentsSize [Add K] [Sub K] [Mul K] [Div K] [Neg K] [NatCast K] [IntCast K] (ceil : K → Int) (sqrtN : Nat → K)
    (rings pad : Nat) (seg_radius seg_gap : K) : Int :=
  ceil (Gen.hexSizeArg sqrtN rings pad seg_radius seg_gap)

/-- cells in the numbering of `hex_segments`: 0 = centre, then ring 1, ring 2, … -/
def segCells : Nat → List HexCell
  | 0 => [(0, 0, 0)]
  | k + 1 => segCells k ++ hexRing (k + 1)

/-- segment numbers that `hex_segments(rings, drop=…)` draws, in order -/
def keptSegments (rings : Nat) (drop : List Nat) : List Nat :=
  (List.range (segCells rings).length).filter fun s => !drop.contains s

/-- the (segment number, cell) pairs `hex_segments(rings, drop=…)` draws, in order: the REGENERATED translation of its numbering (centre test,
`seg` counter, ring loops, drop test) — `Gen.keptCells`; `segCells` / `keptSegments` above are the closed forms the theorems use
(`keptCells_spec`) -/
def keptCells (rings : Nat) (drop : List Nat) : List (Nat × HexCell) := Gen.keptCells rings drop

end Lentil
