import LentilVerif.Model.Fourier
import LentilVerif.Gen.FourierWiring
/-! The `out=` path of `lentil.fourier.dft2`: a caller-supplied buffer is refused when its dtype cannot hold complex values
(guard regenerated: `Gen.fwOutRefused`), otherwise the transform is computed from the input and written into the buffer, which is
the returned object (`Gen.fwOutResultIsBuffer`). **Caveat (not modelled):** the input is read as a snapshot — when the caller passes
the input array itself as the buffer (`out=f`) the real code relies on `E1.dot(f)` being a fresh temporary evaluated before
`np.dot(·, E2, out=out)` writes; that evaluation order lives inside NumPy and is only observed by the correspondence
(in-place cases of tools/harness/c01.py). Mathlib-free. -/
namespace Lentil

/-- a caller-supplied output buffer: can its dtype hold complex numbers (`np.can_cast(complex, out.dtype)`), and what it holds -/
structure OutBuf (K : Type) where
  canCastComplex : Bool
  arr : Arr K

/-- outcome of a call with `out=` -/
inductive OutCall (K : Type) where
  | typeError
  | ok (result : Arr K) (bufferAfter : Option (Arr K)) (resultIsBuffer : Bool)

variable {K R : Type} [Add R] [Sub R] [Mul R] [Neg R] [RealLike R] [Add K] [Mul K] [Zero K] [CxLike K R]

/-- `dft2(f, alpha, shape, shift, offset, unitary, out=out)` -/
def dft2Out (f : Arr K) (αr αc : R) (M N : Int) (shr shc : R) (offr offc : Int) (unitary : Bool) (out : Option (OutBuf K)) : OutCall K :=
  match out with
  | none => .ok (dft2 f αr αc M N shr shc offr offc unitary) none false
  | some b =>
    if Gen.fwOutRefused b.canCastComplex then .typeError
    else
      let F := dft2 f αr αc M N shr shc offr offc unitary      -- whatever `b.arr` held is overwritten
      .ok F (some F) Gen.fwOutResultIsBuffer

end Lentil
