import LentilVerif.Model.Fourier
import LentilVerif.Gen.FourierWiring
/-! The `out=` path of `lentil.fourier.dft2`. Two checks stand between a caller-supplied buffer and the result:

1. `dft2`'s own guard (regenerated: `Gen.fwOutRefused`): a buffer whose dtype cannot hold complex values
   (`not np.can_cast(complex, out.dtype)`) raises `TypeError`;
2. `np.dot(…, out=out)`'s acceptance condition — a **NumPy contract written down by hand** (`dotAccepts`, TRUSTED, observed by the
   correspondence op `c01.out` on every generated buffer): the buffer must have exactly the result's dtype (complex128), two
   dimensions of the result's shape `(M, N)`, be C-contiguous (computed from its strides as NumPy does: an axis of length 1 may carry
   any stride) and writeable; otherwise `ValueError`.

A buffer passing both is overwritten with the transform of the input and is the returned object (`Gen.fwOutResultIsBuffer`).
**Not modelled:** alignment (buffers are assumed aligned); aliasing — the input is read as a snapshot, so the in-place call
`out=f` is outside this model (the real code relies on `E1.dot(f)` being evaluated before `np.dot(·, E2, out=out)` writes; that order
lives inside NumPy and is only observed by the in-place cases of tools/harness/c01.py).

`idft2(F, …, out=out)` (`idft2Out`, wave 12): `out` is handed to `dft2` (`Gen.fwIdft2PassesOut`, regenerated), so the same two checks
decide; the array `dft2` returned — the buffer — is then conjugated in place (`np.conj(X, out=X)`, `Gen.fwIdft2ConjInPlace`) and, in
the non-unitary branch, divided in place (`np.divide(X, n, out=X)`, `Gen.fwIdft2DivideInPlace`): the buffer ends up holding the final
values and is the returned object. Were the division a fresh `X / n`, the buffer would keep the undivided values and the result
would be another array — the model follows the regenerated flags, the theorem `C01.idft2_out_buffer` pins their values.
Mathlib-free. -/
namespace Lentil

/-- the dtypes of the buffers the harness generates -/
inductive BufDtype where
  | complex128 | complex64 | clongdouble | float64 | int64 | object
  deriving DecidableEq, Repr

/-- `np.can_cast(complex, dtype)` (NumPy's default "safe" casting table, restricted to `BufDtype`; TRUSTED, observed) -/
def BufDtype.canCastComplex : BufDtype → Bool
  | .complex128 => true | .clongdouble => true | .object => true
  | .complex64 => false | .float64 => false | .int64 => false

/-- a caller-supplied output buffer: dtype, shape (any number of dimensions), strides in elements, writeable flag, contents -/
structure OutBuf (K : Type) where
  dtype : BufDtype
  shape : List Int
  strides : List Int
  writeable : Bool
  arr : Arr K

/-- NumPy's C-contiguity flag of a two-dimensional array with non-empty axes: walking from the last axis, every axis of length ≠ 1
must have stride = product of the later lengths -/
def cContiguous2 (a b s t : Int) : Bool := (b == 1 || t == 1) && (a == 1 || s == b)

/-- `np.dot(A, B, out=buf)` accepts `buf` for an `(M, N)` complex128 product (NumPy contract, by hand) -/
def dotAccepts {K : Type} (b : OutBuf K) (M N : Int) : Bool :=
  b.dtype == .complex128 && b.writeable &&
  match b.shape, b.strides with
  | [a, c], [s, t] => a == M && c == N && cContiguous2 a c s t
  | _, _ => false

/-- outcome of a call with `out=` -/
inductive OutCall (K : Type) where
  | typeError
  | valueError
  | ok (result : Arr K) (bufferAfter : Option (Arr K)) (resultIsBuffer : Bool)

variable {K R : Type} [Add R] [Sub R] [Mul R] [Neg R] [RealLike R] [Add K] [Mul K] [Zero K] [CxLike K R]

/-- `dft2(f, alpha, shape, shift, offset, unitary, out=out)` -/
def dft2Out (f : Arr K) (αr αc : R) (M N : Int) (shr shc : R) (offr offc : Int) (unitary : Bool) (out : Option (OutBuf K)) : OutCall K :=
  match out with
  | none => .ok (dft2 f αr αc M N shr shc offr offc unitary) none false
  | some b =>
    if Gen.fwOutRefused b.dtype.canCastComplex then .typeError          -- dft2's own guard comes first
    else if !dotAccepts b M N then .valueError                          -- then np.dot's
    else
      let F := dft2 f αr αc M N shr shc offr offc unitary              -- whatever `b.arr` held is overwritten
      .ok F (some F) Gen.fwOutResultIsBuffer

/-- `idft2(F, alpha, shape, shift, unitary, out=out)`: `dft2` of the conjugated input with `out` passed on, then the in-place
conjugation and (non-unitary) the in-place division of the array `dft2` returned -/
def idft2Out (F : Arr K) (αr αc : R) (M N : Int) (shr shc : R) (unitary : Bool) (out : Option (OutBuf K)) : OutCall K :=
  let Fc : Arr K := { F with get := fun i j => CxLike.conj (R := R) (F.get i j) }
  match dft2Out Fc αr αc M N shr shc Gen.fwIdft2Offset.1 Gen.fwIdft2Offset.2 unitary (if Gen.fwIdft2PassesOut then out else none) with
  | .typeError => .typeError
  | .valueError => .valueError
  | .ok G buf isBuf =>
    -- `np.conj(X, out=X)`: the object `dft2` returned (the buffer when `isBuf`) now holds the conjugate
    let G1 : Arr K := { G with get := fun i j => CxLike.conj (R := R) (G.get i j) }
    -- `if unitary: return X` / `return np.divide(X, n, out=X)`
    let G2 : Arr K := { G with get := fun i j =>
      let z := CxLike.conj (R := R) (G.get i j)
      if unitary then z else CxLike.divInt (R := R) z (F.s0 * F.s1) }
    let inPlace : Bool := Gen.fwIdft2ConjInPlace && (unitary || Gen.fwIdft2DivideInPlace)
    .ok G2 (buf.map fun _ => if inPlace then G2 else G1) (isBuf && inPlace)

/-- `dft2(f, alpha)` / `idft2(F, alpha)`: the calls that pass nothing but the sampling — every other argument takes the default
regenerated from the signature (`Gen.fwDft2ShapeDefault`, `Gen.fwDft2DefaultShift/Offset/Unitary`, `Gen.fwIdft2DefaultShift/Unitary`) -/
def dft2Default (f : Arr K) (αr αc : R) : Arr K :=
  dft2 f αr αc (Gen.fwDft2ShapeDefault f.s0 f.s1).1 (Gen.fwDft2ShapeDefault f.s0 f.s1).2
    (RealLike.ofInt Gen.fwDft2DefaultShift.1) (RealLike.ofInt Gen.fwDft2DefaultShift.2)
    Gen.fwDft2DefaultOffset.1 Gen.fwDft2DefaultOffset.2 Gen.fwDft2DefaultUnitary
def idft2Default (F : Arr K) (αr αc : R) : Arr K :=
  idft2 F αr αc (Gen.fwDft2ShapeDefault F.s0 F.s1).1 (Gen.fwDft2ShapeDefault F.s0 F.s1).2
    (RealLike.ofInt Gen.fwIdft2DefaultShift.1) (RealLike.ofInt Gen.fwIdft2DefaultShift.2) Gen.fwIdft2DefaultUnitary

/-- the outcome as a tag (what the correspondence compares with the exception class the real call raises) -/
def OutCall.tag {K : Type} : OutCall K → String
  | .typeError => "TypeError" | .valueError => "ValueError" | .ok _ _ _ => "ok"

end Lentil
