import LentilVerif.Model.Propagate
import LentilVerif.Gen.FftScratch
import LentilVerif.Gen.Util
import LentilVerif.Gen.PlaneType
/-! Executable model of `lentil.propagate.propagate_fft` (`_fft_shape`, shape/scratch guards, scratch zero-and-insert,
`lentil.util.pad`, `_fft2`), generic in the value type. `np.fft.fft2(norm='ortho')`, `fftshift`, `ifftshift` are modelled
by their documented contracts (unitary DFT with origin at index 0; index rotations by `±floor(n/2)`). Mathlib-free. -/
namespace Lentil

/-- what `_fft_shape` needs beyond `RealLike`: `np.round(.).astype(int)` (half to even) and `np.min` of two reals -/
class FftLike (R : Type) where
  roundEven : R → Int
  min : R → R → R
  /-- the comparison `a > b` of the scalars (the shape guard compares floats) -/
  gt : R → R → Bool

variable {K R : Type}

section shape
variable [Add R] [Sub R] [Mul R] [Div R] [RealLike R] [FftLike R]

/-- `_fft_shape`: `fft_shape = round(1/alpha)` per axis; `alpha` as wired at the call sites (generated `Gen.fftShapeAlpha` → `Gen.fftAlphaCall`:
`_dft_alpha(dx, du, z, wavelength, oversample)`, i.e. `z` and `wavelength` in each other's slot — harmless, they are multiplied) -/
def fftShape (dx0 dx1 du0 du1 z wl : R) (os : Int) : Int × Int :=
  let α := Gen.fftShapeAlpha dx0 dx1 du0 du1 z wl (RealLike.ofInt os)
  (FftLike.roundEven (RealLike.ofInt 1 / α.1), FftLike.roundEven (RealLike.ofInt 1 / α.2))

/-- `_fft_shape`: `prop_wavelength = min((fft_shape/oversample * dx * du)/z)` -/
def propWavelength (S0 S1 : Int) (dx0 dx1 du0 du1 z wl : R) (os : Int) : R :=
  let w := Gen.fftReportedWavelengths (RealLike.ofInt S0) (RealLike.ofInt S1) dx0 dx1 du0 du1 z wl (RealLike.ofInt os)
  FftLike.min w.1 w.2
end shape

/-- `np.fft.ifftshift(x)[i] = x[(i + n//2) mod n]` -/
def npIfftshiftIdx (n i : Int) : Int := (i + n / 2) % n
/-- `np.fft.fftshift(x)[i] = x[(i - n//2) mod n]` -/
def npFftshiftIdx (n i : Int) : Int := (i - n / 2) % n

section fft
variable [Add R] [Sub R] [Mul R] [Neg R] [Div R] [RealLike R] [Add K] [Mul K] [Zero K] [CxLike K R]

/-- `exp(-2 pi i t / n)` for an integer `t` -/
def rootPow (n t : Int) : K := CxLike.expI (-(RealLike.twoPi * RealLike.ofInt t / RealLike.ofInt n) : R)

/-- contract of `np.fft.fft2(x, norm=…)`: DFT with both origins at index 0, scaled by `1` (backward, code 0), `1/sqrt N`
(ortho, code 1) or `1/N` (forward, code 2) -/
def fft2Scale (norm : Int) (n : Int) : R :=
  if norm = 1 then RealLike.ofInt 1 / RealLike.sqrt (RealLike.ofInt n)
  else if norm = 2 then RealLike.ofInt 1 / RealLike.ofInt n else RealLike.ofInt 1

def fft2Ortho (x : Arr K) : Arr K :=
  { x with get := fun k l =>
      (sumRange x.s1.toNat fun b =>
        (sumRange x.s0.toNat fun a => (rootPow (R := R) x.s0 (a * k) : K) * x.get a b) * rootPow (R := R) x.s1 (b * l))
      * CxLike.ofReal (fft2Scale (R := R) Gen.fft2Norm (x.s0 * x.s1)) }

/-- `lentil.propagate._fft2(x)`: the composition read from the source (`Gen.fft2InnerIdx`, `Gen.fft2OuterIdx`, `Gen.fft2Norm`):
today `fftshift(fft2(ifftshift(x), norm='ortho'))` -/
def fft2c (x : Arr K) : Arr K :=
  let xs : Arr K := { x with get := fun i j => x.get (Gen.fft2InnerIdx x.s0 i) (Gen.fft2InnerIdx x.s1 j) }
  let F := fft2Ortho (R := R) xs
  { F with get := fun i j => F.get (Gen.fft2OuterIdx x.s0 i) (Gen.fft2OuterIdx x.s1 j) }
end fft

/-- index `(i, j)` lies in the slice region `[r0:r1, c0:c1]` -/
def inRegion (r : (Int × Int) × (Int × Int)) (i j : Int) : Bool :=
  decide (r.1.1 ≤ i) && decide (i < r.1.2) && decide (r.2.1 ≤ j) && decide (j < r.2.2)

/-- `lentil.util.pad(array, shape)` for a 2-D array: `padded[rmin1:rmax1, cmin1:cmax1] = array[rmin0:rmax0, cmin0:cmax0]` with the
generated index block `Gen.padIdx2` (zero-pad or centre-crop per axis, origins `floor(n/2)` aligned) -/
def padTo [Zero K] (a : Arr K) (S0 S1 : Int) : Arr K :=
  { s0 := S0, s1 := S1,
    get := fun i j =>
      let ix := Gen.padIdx2 a.s0 a.s1 S0 S1
      if inRegion ((ix.2.1, ix.2.2.1), (ix.2.2.2.1, ix.2.2.2.2)) i j
      then a.get (i - ix.2.1 + ix.1.1) (j - ix.2.2.2.1 + ix.1.2.2.1) else 0 }

/-- `scratch[<zero region>] = 0` then read back through the `S0 x S1` view handed to `insert`/`_fft2`: zero inside the
zeroed region (generated: `Gen.scratchZero`, re-translated from the source on every run), old content elsewhere.
That the insert/transform views are the `S0 x S1` corner is theorem `C09.scratch_views_are_corner`. -/
def zeroedCorner [Zero K] (scr : Arr K) (S0 S1 : Int) : Arr K :=
  { s0 := S0, s1 := S1, get := fun i j => if inRegion (Gen.scratchZero S0 S1) i j then 0 else scr.get i j }

/-- outcome of `propagate_fft` -/
inductive FftOut (K R : Type) where
  | notImplemented : FftOut K R            -- wavefront carries tilt
  | valueError : FftOut K R                -- shape larger than the grid / scratch too small
  | ok (wavelength : R) (S0 S1 : Int) (shapeOut : Int × Int) (field : Fld K) : FftOut K R

section guards
variable [Add R] [Sub R] [Mul R] [Div R] [RealLike R] [FftLike R]
/-- the shape guard `np.any(shape > fft_shape/oversample)` (generated `Gen.fftShapeTooBig`, evaluated on the scalars) -/
def shapeTooBig (shape : Option (Int × Int)) (S : Int × Int) (os : Int) : Bool :=
  match shape with
  | none => false
  | some sh => Gen.fftShapeTooBig (R := R) FftLike.gt (RealLike.ofInt sh.1) (RealLike.ofInt sh.2) (RealLike.ofInt S.1) (RealLike.ofInt S.2)
      (RealLike.ofInt os)
end guards

/-- `shape_out` (generated): the whole grid when `shape is None`, else `shape * oversample` -/
def fftShapeOut (shape : Option (Int × Int)) (S : Int × Int) (os : Int) : Int × Int :=
  match shape with
  | none => Gen.fftShapeOutNone S.1 S.2 os
  | some sh => Gen.fftShapeOutSome sh.1 sh.2 os

/-- the scratch guard `not all(scratch.shape >= fft_shape)` (generated) -/
def scratchTooSmall (scratch : Option (Arr K)) (S : Int × Int) : Bool :=
  match scratch with
  | none => false
  | some scr => Gen.fftScratchTooSmall scr.s0 scr.s1 S.1 S.2

section scratchshape
variable [Add R] [Sub R] [Mul R] [Div R] [RealLike R] [FftLike R]
/-- `lentil.propagate.scratch_shape(wavelength, dx, du, z, oversample)`; `maxWl` = `np.max(wavelength)` -/
def scratchShape (maxWl dx0 dx1 du0 du1 z : R) (os : Int) : Int × Int :=
  let α := Gen.scratchShapeAlpha dx0 dx1 du0 du1 z maxWl (RealLike.ofInt os)
  (FftLike.roundEven (RealLike.ofInt 1 / α.1), FftLike.roundEven (RealLike.ofInt 1 / α.2))

/-- metadata of the wavefront returned by `propagate_fft` (generated hand-over): wavelength, pixelscale, focal length -/
def fftMeta (lam dx0 dx1 du0 du1 z wl : R) (os : Int) : R × (R × R) × R :=
  Gen.fftOutMeta lam dx0 dx1 du0 du1 z wl (RealLike.ofInt os)
end scratchshape

section prop
variable [Add R] [Sub R] [Mul R] [Neg R] [Div R] [RealLike R] [FftLike R] [Add K] [Mul K] [Zero K] [CxLike K R]

/-- the padded `S0 x S1` grid handed to `_fft2`: via the scratch buffer (zero, then insert every field) or via
`pad(wavefront.field, fft_shape)` -/
def fftGrid (one : K) (fs : List (Fld K)) (W0 W1 S0 S1 : Int) (scratch : Option (Arr K)) : Arr K :=
  match scratch with
  | some scr => fs.foldl (fun out f => insertArr f out one) (zeroedCorner scr S0 S1)
  | none => padTo (wavefrontField one fs W0 W1) S0 S1

/-- `propagate_fft(wavefront, pixelscale=du, shape, oversample=os, scratch)`; `(W0, W1)` = `wavefront.shape`,
`hasTilt` = some field carries tilt metadata -/
def propagateFft (one : K) (fs : List (Fld K)) (hasTilt : Bool) (W0 W1 : Int) (dx0 dx1 du0 du1 wl z : R) (os : Int)
    (shape : Option (Int × Int)) (scratch : Option (Arr K)) : FftOut K R :=
  if hasTilt then .notImplemented else
  let S := fftShape dx0 dx1 du0 du1 z wl os
  let lam := propWavelength S.1 S.2 dx0 dx1 du0 du1 z wl os
  if shapeTooBig (R := R) shape S os then .valueError else
  if scratchTooSmall scratch S then .valueError else
  .ok lam S.1 S.2 (fftShapeOut shape S os) { arr := fft2c (R := R) (fftGrid one fs W0 W1 S.1 S.2 scratch), o0 := 0, o1 := 0 }

/-- outcome of the call `propagate_fft(wavefront, …)` on a wavefront of any plane type: refused by one of the two entry guards with the
exception the generated guard table names, or the plane type of the result and the outcome of the body -/
inductive FftCallOut (K R : Type) where
  | refusedBy (e : Gen.Err) : FftCallOut K R
  | done (ptype : Gen.WType) (o : FftOut K R) : FftCallOut K R

/-- `propagate_fft` as called on a wavefront whose plane type is `w` (`none` = a wavefront that has met no pupil/image plane): the two
entry guards in source order as regenerated in `Gen.codePropagateFft` (`_has_tilt` -> NotImplementedError, then
`_propagate_ptype` -> TypeError / flipped type), then the body `propagateFft` -/
def propagateFftCall (w : Gen.WType) (one : K) (fs : List (Fld K)) (hasTilt : Bool) (W0 W1 : Int) (dx0 dx1 du0 du1 wl z : R) (os : Int)
    (shape : Option (Int × Int)) (scratch : Option (Arr K)) : FftCallOut K R :=
  match Gen.codePropagateFft hasTilt w with
  | .refused e => .refusedBy e
  | .ok t => .done t (propagateFft one fs hasTilt W0 W1 dx0 dx1 du0 du1 wl z os shape scratch)
end prop

end Lentil
