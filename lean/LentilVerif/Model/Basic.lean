import LentilVerif.Gen.Extent
/-! Hand-written glue over the generated extent kernel. Mathlib-free. -/
namespace Lentil

structure Extent where
  rmin : Int
  rmax : Int
  cmin : Int
  cmax : Int
deriving Repr, DecidableEq, Inhabited

def Extent.ofT (t : Int × Int × Int × Int) : Extent := ⟨t.1, t.2.1, t.2.2.1, t.2.2.2⟩

/-- `lentil.extent.array_extent(shape, shift)` -/
def arrayExtent (s0 s1 o0 o1 : Int) : Extent := .ofT (Gen.arrayExtent s0 s1 o0 o1)
def intersect (a b : Extent) : Bool := Gen.intersect a.rmin a.rmax a.cmin a.cmax b.rmin b.rmax b.cmin b.cmax
def intersectionExtent (a b : Extent) : Extent :=
  .ofT (Gen.intersectionExtent a.rmin a.rmax a.cmin a.cmax b.rmin b.rmax b.cmin b.cmax)
def intersectionShift (a b : Extent) : Int × Int :=
  Gen.intersectionShift a.rmin a.rmax a.cmin a.cmax b.rmin b.rmax b.cmin b.cmax
def intersectionShape (a b : Extent) : Option (Int × Int) :=
  Gen.intersectionShape a.rmin a.rmax a.cmin a.cmax b.rmin b.rmax b.cmin b.cmax
def intersectionSlices (a b : Extent) :=
  Gen.intersectionSlices a.rmin a.rmax a.cmin a.cmax b.rmin b.rmax b.cmin b.cmax
def arrayCenter (e : Extent) : Int × Int := Gen.arrayCenter e.rmin e.rmax e.cmin e.cmax

/-- membership of an integer pixel coordinate, as a Bool guard (see DESIGN §8 risk (b)) -/
def Extent.inb (e : Extent) (r c : Int) : Bool :=
  decide (e.rmin ≤ r) && decide (r ≤ e.rmax) && decide (e.cmin ≤ c) && decide (c ≤ e.cmax)

def Extent.mem (e : Extent) (r c : Int) : Prop := e.rmin ≤ r ∧ r ≤ e.rmax ∧ e.cmin ≤ c ∧ c ≤ e.cmax

def Extent.nrow (e : Extent) : Int := e.rmax - e.rmin + 1
def Extent.ncol (e : Extent) : Int := e.cmax - e.cmin + 1

/-- value at global coordinate (r,c) of data `get` occupying extent `e`, zero elsewhere -/
def embAt {K} [Zero K] (e : Extent) (get : Int → Int → K) (r c : Int) : K :=
  if e.inb r c then get (r - e.rmin) (c - e.cmin) else 0

/-- finite sums as folds (executable; equal to `Finset.sum` over `range`, proved in Lemmas) -/
def sumRange {K} [Add K] [Zero K] (n : Nat) (f : Nat → K) : K := (List.range n).foldl (fun acc i => acc + f i) 0

def sumList {K} [Add K] [Zero K] {α} (l : List α) (f : α → K) : K := l.foldl (fun acc x => acc + f x) 0

end Lentil
