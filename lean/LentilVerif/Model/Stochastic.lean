import LentilVerif.Model.Basic
import LentilVerif.Gen.Rule07
import LentilVerif.Gen.PowerSpectrum
/-! Executable model of the seeded random models of `lentil/detector.py` and `lentil/wfe.py` for C18: each function is a
**deterministic wrapper around an uninterpreted sampler** (`draw`, `z`, `fpn`, `x` below stand for what
`np.random.default_rng(seed).poisson/normal/lognormal` return — pure functions of the seed and the parameters, contract of
NumPy's `Generator`). Generic in the value type; instantiated at `Float` by the driver and at an ordered field in
`Props/C18.lean`. Mathlib-free. -/
namespace Lentil.Stoch
variable {K : Type}

/-- `shot_noise(img, 'poisson', seed)`: NumPy's `poisson` raises `ValueError` when a mean is negative or above `lamMax`
(both re-raised by lentil as `ValueError`); otherwise `np.floor` of the integer draws. `none` = ValueError. -/
def shotPoisson [LT K] [DecidableLT K] [Zero K] (lamMax : K) (draw : Int → Nat → K → Int) (seed : Int) (n : Nat) (img : Nat → K) :
    Option (Nat → Int) :=
  if (List.range n).any (fun i => decide (img i < 0) || decide (lamMax < img i)) then none
  else some fun i => draw seed i (img i)

/-- `shot_noise(img, 'gaussian', seed)`: explicit negative and largest-representable-count guards, then `asarray(normal(loc=img, scale=sqrt(img)), dtype=int)`
(truncation toward zero), then `np.floor` (identity on integers). `z seed i` is the standard-normal draw of pixel `i`. -/
def shotGaussian [LT K] [DecidableLT K] [Zero K] [Add K] [Mul K] (lamMax : K) (sqrt : K → K) (trunc : K → Int) (z : Int → Nat → K)
    (seed : Int) (n : Nat) (img : Nat → K) : Option (Nat → Int) :=
  if (List.range n).any (fun i => decide (img i < 0) || decide (lamMax < img i)) then none
  else some fun i => trunc (img i + sqrt (img i) * z seed i)

/-- `read_noise(img, electrons, seed)`: `img + normal(0, electrons, img.shape)` -/
def readNoise [Add K] [Mul K] (z : Int → Nat → K) (electrons : K) (seed : Int) (img : Nat → K) (i : Nat) : K :=
  img i + electrons * z seed i

/-- `dark_current(rate, shape, fpn_factor, seed)`: `floor(rate * ones(shape) * fpn)`, `fpn` lognormal draws when
`fpn_factor > 0`, else the constant 1 -/
def darkCurrent [LT K] [DecidableLT K] [Zero K] [One K] [Mul K] (floor : K → Int) (fpn : Int → Nat → K) (rate fpnFactor : K)
    (seed : Int) (i : Nat) : Int :=
  if 0 < fpnFactor then floor (rate * 1 * fpn seed i) else floor (rate * 1 * 1)

/-- Rule-07 dark-current rate in electrons per pixel per second: **translated from `rule07_dark_current`** on every run
(`Gen.rule07Rate`, tools/specs/c18.py: every constant and every operation); `exp`/`pow` and the literal constructor are parameters -/
def rule07Rate [LE K] [DecidableLE K] [Add K] [Sub K] [Mul K] [Div K] (exp : K → K) (pow : K → K → K) (ofScientific : Nat → Bool → Nat → K)
    (temperature cutoff pixelscale : K) : K :=
  Gen.rule07Rate exp pow ofScientific temperature cutoff pixelscale

/-- `rule07_dark_current(temperature, cutoff, pixelscale, shape, fpn_factor, seed)`:
`dark_current(rate, shape, fpn_factor, seed)` — the rate from Rule 07, **the caller's seed handed on unchanged** -/
def rule07Dark [LT K] [DecidableLT K] [Zero K] [One K] [Mul K] (floor : K → Int) (fpn : Int → Nat → K) (rate : K) (fpnFactor : K)
    (seed : Int) (i : Nat) : Int :=
  darkCurrent floor fpn rate fpnFactor seed i

/-- number of non-zero entries (`np.count_nonzero`); `nz y` decides `y ≠ 0` -/
def countNonzero (nz : K → Bool) (n : Nat) (f : Nat → K) : Nat := ((List.range n).filter fun i => nz (f i)).length

/-- `power_spectrum`: `x seed i` is the filtered unit-variance noise at (flattened) pixel `i`; then
`opd *= mask ; opd = opd * sqrt(count_nonzero(opd) / sum(|opd|^2)) * rms` -/
def powerSpectrum [Zero K] [Add K] [Mul K] (nz : K → Bool) (sqrt : K → K) (div : K → K → K) (ofNat : Nat → K) (rms : K) (mask : Nat → K)
    (x : Int → Nat → K) (seed : Int) (n : Nat) (i : Nat) : K :=
  -- both steps are the REGENERATED translations of the source lines (Gen/PowerSpectrum.lean: psMaskStep, psNormalise)
  let opd : Nat → K := fun i => Gen.psMaskStep (x seed i) (mask i)
  Gen.psNormalise sqrt div (opd i) (ofNat (countNonzero nz n opd)) (sumRange n fun i => opd i * opd i) rms

/-- the accumulation of `cosmic_rays`: `img = zeros(shape); for ray: img += _cosmic_ray(...)`, each ray frame being zeros plus
`electron_flux * dist` at the pixels the ray crosses. `deps` lists (flattened pixel, flux, distance) of every deposit in the
order they are added; the frame value at pixel `i` is the running sum of the deposits made there. -/
def cosmicFrame [Zero K] [Add K] [Mul K] (deps : List (Nat × K × K)) (i : Nat) : K :=
  sumList deps fun d => if d.1 = i then d.2.1 * d.2.2 else 0

end Lentil.Stoch
