/-! Spectra of `lentil/radiometry.py` as lists of exact rationals (C13, C14, C15). Mathlib-free (core `Rat`), so the
driver executes exactly these definitions; the proof files state theorems about them over `ℚ = Rat`. -/
namespace Lentil.Spec

/-- `np.trapz(y, x)` = Σ (x[k+1]-x[k])·(y[k+1]+y[k])/2 -/
def trapz : List Rat → List Rat → Rat
  | x0 :: x1 :: xs, y0 :: y1 :: ys => (x1 - x0) * (y1 + y0) / 2 + trapz (x1 :: xs) (y1 :: ys)
  | _, _ => 0

/-- strictly increasing (what the `wave` setter enforces: sorted and unique) -/
def strictIncB : List Rat → Bool
  | x0 :: x1 :: xs => decide (x0 < x1) && strictIncB (x1 :: xs)
  | _ => true

/-- the three checks of the `Spectrum.wave` setter: positive, sorted, unique -/
def validWave (w : List Rat) : Bool := w.all (fun x => decide (0 < x)) && strictIncB w

end Lentil.Spec
