import LentilVerif.Gen.SpectrumOps
/-! Spectra of `lentil/radiometry.py` as lists of exact rationals (C13, C14, C15). Mathlib-free (core `Rat`), so the
driver executes exactly these definitions; the proof files state theorems about them over `ℚ = Rat`. -/
namespace Lentil.Spec

/-- `np.trapz(y, x)` = Σ (x[k+1]-x[k])·(y[k+1]+y[k])/2 -/
def trapz : List Rat → List Rat → Rat
  | x0 :: x1 :: xs, y0 :: y1 :: ys => (x1 - x0) * (y1 + y0) / 2 + trapz (x1 :: xs) (y1 :: ys)
  | _, _ => 0

/-- strictly increasing (what the `wave` setter enforces: sorted and unique) -/
def strictIncB : List Rat → Bool
  | x0 :: x1 :: xs => decide (x0 < x1) && strictIncB (x1 :: xs)
  | _ => true

/-- the three checks of the `Spectrum.wave` setter: positive, sorted, unique -/
def validWave (w : List Rat) : Bool := w.all (fun x => decide (0 < x)) && strictIncB w

end Lentil.Spec

namespace Lentil.Spec

/-- a spectrum as lentil stores it: two arrays assigned separately -/
structure Spectrum where
  wave : List Rat
  value : List Rat
deriving DecidableEq, Repr

inductive Err where
  | valueError | indexError | typeError
deriving DecidableEq, Repr

def Err.name : Err → String
  | .valueError => "ValueError" | .indexError => "IndexError" | .typeError => "TypeError"

/-- the invariant of C15: strictly increasing wavelengths, one value per wavelength -/
def wfB (s : Spectrum) : Bool := strictIncB s.wave && decide (s.wave.length = s.value.length)

/-! ### sampling (`scipy.interpolate.interp1d(kind='linear', bounds_error=False, fill_value=…)`) -/

/-- value of the piecewise-linear interpolant on the segment containing `x` (`x` inside the range) -/
def seg : List Rat → List Rat → Rat → Rat
  | x0 :: x1 :: xs, y0 :: y1 :: ys, x =>
      if x ≤ x1 then (y1 - y0) / (x1 - x0) * (x - x0) + y0 else seg (x1 :: xs) (y1 :: ys) x
  | _, y0 :: _, _ => y0
  | _, [], _ => 0

def interpAt (xs ys : List Rat) (fillL fillR : Rat) (x : Rat) : Rat :=
  match xs.head?, xs.getLast? with
  | some a, some b => if x < a then fillL else if b < x then fillR else seg xs ys x
  | _, _ => fillL

/-- `Spectrum.sample` in the spectrum's own unit; scipy refuses an empty spectrum -/
def sample (s : Spectrum) (fillL fillR : Rat) (xs : List Rat) : Except Err (List Rat) :=
  if s.wave.length < 1 then .error .valueError else .ok (xs.map (interpAt s.wave s.value fillL fillR))

/-! ### resizing operations; each returns the state afterwards and the exception raised, if any -/

abbrev Outcome := Spectrum × Option Err

/-- `a[mask]`-style selection by a Boolean mask computed from the *wavelengths* and applied to both arrays separately
(`np.delete(self.wave, indx)`, `np.delete(self.value, indx)`) -/
def keepMask : List Bool → List Rat → List Rat
  | b :: bs, x :: xs => if b then x :: keepMask bs xs else keepMask bs xs
  | _, _ => []

def crop (lo hi : Rat) (s : Spectrum) : Outcome :=
  match s.wave.head? with
  | none => (s, some .indexError)
  | some w0 =>
    let s1 : Spectrum := if Gen.cropLowGuard lo w0 then
        let m := s.wave.map (fun w => !Gen.cropDropLow lo w); ⟨keepMask m s.wave, keepMask m s.value⟩
      else s
    match s1.wave.getLast? with
    | none => (s1, some .indexError)
    | some wl =>
      if Gen.cropHighGuard hi wl then
        let m := s1.wave.map (fun w => !Gen.cropDropHigh hi w); (⟨keepMask m s1.wave, keepMask m s1.value⟩, none)
      else (s1, none)

def maxL : List Rat → Option Rat
  | [] => none
  | x :: xs => some (xs.foldl max x)

def minL : List Rat → Option Rat
  | [] => none
  | x :: xs => some (xs.foldl min x)

/-- index of the first element satisfying `p` -/
def firstIdx (p : Rat → Bool) : List Rat → Option Nat
  | [] => none
  | x :: xs => if p x then some 0 else (firstIdx p xs).map (· + 1)

/-- index of the last element satisfying `p` -/
def lastIdx (p : Rat → Bool) (l : List Rat) : Option Nat :=
  (firstIdx p l.reverse).map (fun i => l.length - 1 - i)

def slice (a b : Nat) (l : List Rat) : List Rat := (l.drop a).take (b + 1 - a)

def trim (tol : Rat) (s : Spectrum) : Outcome :=
  if s.value.all (· == 0) then (s, none) else
  match maxL s.value with
  | none => (s, none)
  | some m =>
    if Gen.trimRefuses m then (s, some .valueError) else
    let p := fun v : Rat => Gen.trimAbove v m tol
    match firstIdx p s.value, lastIdx p s.value with
    | some a, some b => (⟨slice a b s.wave, slice a b s.value⟩, none)
    | _, _ => (s, some .indexError)

/-- NumPy broadcasting of `other.wave <= self.wave` for 1-D arrays -/
def anyLeBroadcast (o w : List Rat) : Option Bool :=
  if o.length = w.length then some ((List.zipWith (fun a b => decide (a ≤ b)) o w).any id)
  else if o.length = 1 then some (w.any (fun b => decide (o.head! ≤ b)))
  else if w.length = 1 then some (o.any (fun a => decide (a ≤ w.head!)))
  else none

def append (other : Spectrum) (s : Spectrum) : Outcome :=
  match anyLeBroadcast other.wave s.wave with
  | none => (s, some .valueError)
  | some true => (s, some .valueError)
  | some false =>
    let w := s.wave ++ other.wave
    if validWave w then (⟨w, s.value ++ other.value⟩, none) else (s, some .valueError)

/-- `np.diff(wave).min()` -/
def minDiff : List Rat → Option Rat
  | x0 :: x1 :: xs => some (match minDiff (x1 :: xs) with | some d => min (x1 - x0) d | none => x1 - x0)
  | _ => none

def ceilNat? (q : Rat) : Int := q.ceil

/-- `np.linspace(a, b, n)` for n ≥ 1 (exact) -/
def linspace (a b : Rat) (n : Nat) : List Rat :=
  if n = 1 then [a] else (List.range n).map (fun (i : Nat) => a + ((i : Nat) : Rat) * ((b - a) / ((n - 1 : Nat) : Rat)))

/-- `Spectrum.pad(ends, sampling, mode='constant', values=(vL, vR))`; `dw` = `_sampling(self.wave, sampling)` already
resolved (`none` = 'min'); `edge = true` is mode='edge' -/
def pad (e0 e1 : Rat) (sampling : Option Rat) (edge : Bool) (vL vR : Rat) (s : Spectrum) : Outcome :=
  let vals : Option (Rat × Rat) := if edge then
      (match s.value.head?, s.value.getLast? with | some a, some b => some (a, b) | _, _ => none)
    else some (vL, vR)
  match vals with
  | none => (s, some .indexError)
  | some (vl, vr) =>
  let dw : Option Rat := match sampling with | some d => some d | none => minDiff s.wave
  match dw, minL s.wave, maxL s.wave with
  | some d, some mn, some mx =>
    let nl : Int := Gen.padNLeft mn mx e0 e1 d
    let nr : Int := Gen.padNRight mn mx e0 e1 d
    if nl < 0 then (s, some .valueError) else
    if nl = 0 then (s, some .indexError) else
    let left := (linspace e0 mn nl.toNat).dropLast
    if nr < 0 then (s, some .valueError) else
    if nr = 0 then (s, some .indexError) else
    let right := (linspace mx e1 nr.toNat).drop 1
    let w := left ++ s.wave ++ right
    if validWave w then
      (⟨w, List.replicate left.length vl ++ s.value ++ List.replicate right.length vr⟩, none)
    else (s, some .valueError)
  | _, _, _ => (s, some .valueError)

/-- `Spectrum.resample(wave, fill_value)` in the spectrum's own unit: sample, then assign `wave` (validated), then `value` -/
def resample (xs : List Rat) (fillL fillR : Rat) (s : Spectrum) : Outcome :=
  match sample s fillL fillR xs with
  | .error e => (s, some e)
  | .ok v => if validWave xs then (⟨xs, v⟩, none) else (s, some .valueError)

inductive Op where
  | crop (lo hi : Rat)
  | trim (tol : Rat)
  | append (other : Spectrum)
  | pad (e0 e1 : Rat) (sampling : Option Rat) (edge : Bool) (vL vR : Rat)
  | resample (xs : List Rat) (fillL fillR : Rat)
deriving Repr

def step (s : Spectrum) : Op → Outcome
  | .crop lo hi => crop lo hi s
  | .trim tol => trim tol s
  | .append o => append o s
  | .pad e0 e1 sm ed vl vr => pad e0 e1 sm ed vl vr s
  | .resample xs fl fr => resample xs fl fr s

/-- state after a whole history (the session continues after a refusal) -/
def run (s : Spectrum) : List Op → Spectrum
  | [] => s
  | op :: rest => run (step s op).1 rest

/-! ### integration and binning -/

/-- `Spectrum.integrate(start, end, method='trapz')` -/
def integrate (s : Spectrum) (a b : Rat) : Rat :=
  let m := s.wave.map (fun w => Gen.integrateKeeps a b w)
  trapz (keepMask m s.wave) (keepMask m s.value)

def midpoints : List Rat → List Rat
  | c0 :: c1 :: cs => Gen.binMid c0 c1 :: midpoints (c1 :: cs)
  | _ => []

/-- edges of the trapezoid bins: `symmetric` mirrors the first/last half-step outwards, `inside` stops at the centres -/
def trapzEdges (symmetric : Bool) (c : List Rat) : List Rat :=
  match c, c.getLast?, (c.dropLast).getLast? with
  | c0 :: c1 :: _, some cl, some cp =>
      (if symmetric then Gen.binEndLo c0 c1 else c0) :: midpoints c ++ [if symmetric then Gen.binEndHi cp cl else cl]
  | _, _, _ => []

/-- chained trapezoid rule: one bin per adjacent pair of edges -/
def trapzBins : List Rat → List Rat → List Rat
  | x0 :: x1 :: xs, f0 :: f1 :: fs => Gen.trapzTerm x0 x1 f0 f1 :: trapzBins (x1 :: xs) (f1 :: fs)
  | _, _ => []

def interleave : List Rat → List Rat → List Rat
  | a :: as, b :: bs => a :: b :: interleave as bs
  | as, [] => as
  | [], _ => []

/-- `float → int` cast of NumPy assignment into an integer array: truncation toward zero -/
def truncQ (q : Rat) : Rat := if 0 ≤ q then ((q.floor : Int) : Rat) else ((q.ceil : Int) : Rat)

/-- sample points of the Simpson bins (2n+1 points for n centres). `intC`: the centres were given as an *integer-dtype*
array, so the interleaved grid `x = np.empty(…, dtype=wave.dtype)` is an integer array and the mid-points (and, for
`inside`, the two inserted quarter points) are truncated when stored — modelled as the code does it (known finding
KF-C15-bin-integer-centres) -/
def simpsPoints (symmetric : Bool) (c : List Rat) (intC : Bool := false) : List Rat :=
  let tr := fun q : Rat => if intC then truncQ q else q
  let x := interleave c ((midpoints c).map tr)
  match c, c.getLast?, (c.dropLast).getLast? with
  | c0 :: c1 :: _, some cl, some cp =>
    if symmetric then Gen.binEndLo c0 c1 :: x ++ [Gen.binEndHi cp cl]
    else
      match x with
      | x0 :: x1 :: rest =>
        let x' := x0 :: tr (x0 + (x1 - x0) / 2) :: x1 :: rest
        match x'.getLast?, (x'.dropLast).getLast? with
        | some l, some p => x'.dropLast ++ [tr (l + (p - l) / 2), l]
        | _, _ => []
      | _ => []
  | _, _, _ => []

/-- chained Simpson rule over consecutive triples -/
def simpsBins : List Rat → List Rat → List Rat
  | x0 :: x1 :: x2 :: xs, f0 :: f1 :: f2 :: fs =>
      Gen.simpsTerm x0 x1 x2 f0 f1 f2 :: simpsBins (x2 :: xs) (f2 :: fs)
  | _, _ => []

def sumL (l : List Rat) : Rat := l.foldl (· + ·) 0

/-- the un-normalised bins of `Spectrum.bin` in the spectrum's own unit -/
def binRaw (s : Spectrum) (simps symmetric : Bool) (fillL fillR : Rat) (c : List Rat) (intC : Bool := false) :
    Except Err (List Rat) :=
  if c.length < 2 then .error .valueError else
  let x := if simps then simpsPoints symmetric c intC else trapzEdges symmetric c
  match sample s fillL fillR x with
  | .error e => .error e
  | .ok f => .ok (if simps then simpsBins x f else trapzBins x f)

/-- the integral used by `preserve_power`: `self.integrate(min(centres), max(centres), method)`; for the trapezoid
method it is the model's own `integrate`, for Simpson (`scipy.integrate.simpson`, not modelled) it is supplied -/
def binNorm (s : Spectrum) (c : List Rat) (given : Option Rat) : Rat :=
  match given with
  | some I => I
  | none => match minL c, maxL c with
    | some a, some b => integrate s a b
    | _, _ => 0

/-- `Spectrum.bin(centres, interp_method, ends, preserve_power, fill_value)` in the spectrum's own unit.
`pp = none`: preserve_power=False; `pp = some given`: rescale by `binNorm s c given / Σ bins` when the code's guard
(`Gen.binRescaleGuard`, total ≠ 0) holds, otherwise the raw bins are returned unchanged (translated guard and factor) -/
def bin (s : Spectrum) (simps symmetric : Bool) (fillL fillR : Rat) (pp : Option (Option Rat)) (c : List Rat)
    (intC : Bool := false) : Except Err (List Rat) :=
  match binRaw s simps symmetric fillL fillR c intC with
  | .error e => .error e
  | .ok bins =>
    match pp with
    | none => .ok bins
    | some given =>
      if Gen.binRescaleGuard (sumL bins) then .ok (bins.map (· * Gen.binRescaleFactor (binNorm s c given) (sumL bins)))
      else .ok bins

end Lentil.Spec
