import LentilVerif.Model.Field
import LentilVerif.Model.Fourier
import LentilVerif.Gen.Helper
import LentilVerif.Gen.PlanePhase
import LentilVerif.Gen.WfViews
/-! Executable model of `lentil.plane.Plane.multiply` (per-segment phasors, fields × segments loop) and of the
`Wavefront` views `field`, `intensity`, `insert` (`lentil/wavefront.py`). Generic in the value type `K` of the field and
the type `R` of optical path differences; Mathlib-free. The slice offset is the *generated* `Gen.sliceOffset`
(helper.py); `boundary_slice`/`util.boundary` and the NumPy slicing/broadcasting are modelled by hand and tied by the
correspondence harness (tools/harness/c07.py, c03.py). Tilt bookkeeping (`tilt=self.tilt[n::self.size]`) is not
modelled here (C04). The model follows the code of /repo after its `fix:` commits: a scalar amplitude is multiplied by
`mask[s]` too. -/
namespace Lentil

/-- a plane attribute (`amplitude`, `opd`): 0-d scalar or 2-D array -/
inductive Attr (α : Type) where
  | scalar (v : α)
  | array (a : Arr α)

/-- `attr[s]`-style lookup at a position of the full array; a scalar broadcasts -/
def Attr.at {α} (a : Attr α) (i j : Int) : α :=
  match a with
  | .scalar v => v
  | .array x => x.get i j

/-- a 2-D slice `np.s_[r0:r1, c0:c1]` -/
structure Slice2 where
  r0 : Int
  r1 : Int
  c0 : Int
  c1 : Int
deriving Repr, DecidableEq

/-- smallest `i < n` with `p i` -/
def firstTrueIdx (p : Nat → Bool) : Nat → Option Nat
  | 0 => none
  | n + 1 => match firstTrueIdx p n with
    | some i => some i
    | none => if p n then some n else none

/-- largest `i < n` with `p i` -/
def lastTrueIdx (p : Nat → Bool) : Nat → Option Nat
  | 0 => none
  | n + 1 => if p n then some n else lastTrueIdx p n

def anyBelowIdx (p : Nat → Bool) (n : Nat) : Bool := (firstTrueIdx p n).isSome

/-- `lentil.helper.boundary_slice(mask)` (threshold 0, pad 0) through `lentil.util.boundary`: first/last row and column
holding a non-zero entry; an all-zero mask makes NumPy raise (`none`) -/
def bboxSlice (s0 s1 : Int) (m : Int → Int → Bool) : Option Slice2 :=
  let rowAny : Nat → Bool := fun i => anyBelowIdx (fun j => m i j) s1.toNat
  let colAny : Nat → Bool := fun j => anyBelowIdx (fun i => m i j) s0.toNat
  match firstTrueIdx rowAny s0.toNat, lastTrueIdx rowAny s0.toNat, firstTrueIdx colAny s1.toNat, lastTrueIdx colAny s1.toNat with
  | some r0, some r1, some c0, some c1 => some ⟨r0, (r1 : Int) + 1, c0, (c1 : Int) + 1⟩
  | _, _, _, _ => none

/-- one segment of a plane: its 0/1 mask (`plane.mask[n]`, read inside the plane's shape) and its bounding slice
(`plane._slice[n]`) -/
structure Seg where
  m : Int → Int → Bool
  s : Slice2

/-- `plane._mask` after `Plane.__init__` (entries normalised to 0/1) together with `plane._slice` -/
inductive MaskM where
  /-- 0-d mask: `_slice = [Ellipsis]`, `plane.shape == ()` -/
  | scalar (on : Bool)
  /-- 2-D mask (one segment) or 3-D mask (one segment per layer) of shape `(s0, s1)` -/
  | segs (s0 s1 : Int) (l : List Seg)

/-- `_plane_slice(mask)`: bounding slices of every layer; `none` when some layer is empty (NumPy raises) -/
def mkMask (s0 s1 : Int) (ms : List (Int → Int → Bool)) : Option MaskM :=
  (ms.mapM fun m => (bboxSlice s0 s1 m).map fun s => (⟨m, s⟩ : Seg)).map (MaskM.segs s0 s1)

structure PlaneM (K R : Type) where
  amp : Attr K
  opd : Attr R
  mask : MaskM

variable {K R : Type}

/-- `plane.shape`: `()` (here `none`) for a 0-d mask -/
def PlaneM.shape (p : PlaneM K R) : Option (Int × Int) :=
  match p.mask with
  | .scalar _ => none
  | .segs s0 s1 _ => some (s0, s1)

/-- the phase factor of `Plane.multiply`: `np.exp(2*np.pi*1j*opd/wavefront.wavelength)` — `CxLike.expI t` is `exp(i t)`;
instantiated at `Float` by the driver and at `ℝ`/`ℂ` (`Complex.exp`) in Props/C07 -/
def planePh [Mul R] [Div R] [Neg R] [RealLike R] [CxLike K R] (wavelength opd : R) : K :=
  -- the real multiplier of `1j` is the *generated* `Gen.planePhaseArg` (read off the np.exp(...) expression on every run)
  CxLike.expI (Gen.planePhaseArg RealLike.twoPi opd wavelength)

/-- `amp * mask` for a 0/1 mask entry -/
def maskMul [Zero K] (b : Bool) (x : K) : K := if b then x else 0

/-- the phasor `Field` of one segment: `amplitude[s] * mask_n[s] * exp(2 pi i opd[s] / wavelength)` placed at
`slice_offset(s, shape)`; `ph opd` stands for `exp(2 pi i opd / wavelength)` -/
def segPhasor [Zero K] [Mul K] (ph : R → K) (amp : Attr K) (opd : Attr R) (s0 s1 : Int) (g : Seg) : Fld K :=
  let off := Gen.sliceOffset g.s.r0 g.s.r1 g.s.c0 g.s.c1 s0 s1
  { arr := { s0 := g.s.r1 - g.s.r0, s1 := g.s.c1 - g.s.c0,
             get := fun i j => maskMul (g.m (i + g.s.r0) (j + g.s.c0)) (amp.at (i + g.s.r0) (j + g.s.c0))
                                 * ph (opd.at (i + g.s.r0) (j + g.s.c0)) },
    o0 := off.1, o1 := off.2 }

/-- NumPy broadcasting of `amplitude * exp(.. opd ..)`: the shape of whichever attribute is an array, else one element -/
def attrShape (amp : Attr K) (opd : Attr R) : Int × Int :=
  match amp, opd with
  | .array a, _ => (a.s0, a.s1)
  | _, .array o => (o.s0, o.s1)
  | _, _ => (1, 1)

/-- 0-d mask: slice `Ellipsis`, offset `(0, 0)`; the phasor takes the shape of whichever attribute is an array
(NumPy broadcasting), else it is a one-element field -/
def scalarPhasor [Zero K] [Mul K] (ph : R → K) (amp : Attr K) (opd : Attr R) (on : Bool) : Fld K :=
  let sh : Int × Int := attrShape amp opd
  { arr := { s0 := sh.1, s1 := sh.2, get := fun i j => maskMul on (amp.at i j) * ph (opd.at i j) }, o0 := 0, o1 := 0 }

/-- the list of phasors built inside the loop `for n, s in enumerate(self._slice)` -/
def planePhasors [Zero K] [Mul K] (ph : R → K) (p : PlaneM K R) : List (Fld K) :=
  match p.mask with
  | .scalar on => [scalarPhasor ph p.amp p.opd on]
  | .segs s0 s1 l => l.map (segPhasor ph p.amp p.opd s0 s1)

/-- `Plane.multiply`, the data part: `for field in data: for n, s in enumerate(self._slice): res = field * phasor;
if res.size > 0: out.data.append(res)` -/
def planeMultiply [Zero K] [Mul K] (ph : R → K) (p : PlaneM K R) (data : List (Fld K)) : List (Fld K) :=
  data.flatMap fun f => (planePhasors ph p).filterMap fun q => f.mul q

/-- a chain of planes applied left to right -/
def chainMultiply [Zero K] [Mul K] (ph : R → K) (ps : List (PlaneM K R)) (data : List (Fld K)) : List (Fld K) :=
  ps.foldl (fun d p => planeMultiply ph p d) data

/-! ## Wavefront views -/

def zerosArr [Zero K] (s0 s1 : Int) : Arr K := { s0 := s0, s1 := s1, get := fun _ _ => 0 }

/-- one pass of the loop of a view over the (optional) fields it iterates -/
def insertStep [Add K] [Mul K] (post : K → K) (w : K) (acc : Option (Arr K)) (g : Option (Fld K)) : Option (Arr K) :=
  match acc, g with
  | some o, some f => some (insertArr f o w post)
  | _, _ => none

/-- the common loop of `Wavefront.field` / `.intensity` / `.insert`, driven by the *generated* wiring record
(`Gen/WfViews.lean`, read off wavefront.py on every run): iterate `reduce(self.data)` or `self.data`, insert the complex
samples or `|.|^2` (`nsq`), with weight `weight` or the default 1 (`one`) -/
def viewRun [Add K] [Mul K] [Zero K] (wr : Gen.ViewWiring) (one : K) (nsq : K → K) (data : List (Fld K)) (out : Arr K)
    (weight : K) : Option (Arr K) :=
  -- `out = np.zeros(self.shape, …)` (wiring `zeros`) or the caller's array
  (if wr.reduce then reduce data else data.map some).foldl
    (insertStep (if wr.intensity then nsq else id) (if wr.weighted then weight else one))
    (some (if wr.zeros then zerosArr out.s0 out.s1 else out))

/-- `Wavefront.field` for a 2-D `shape` (never fails: no `reduce`) -/
def wfField [Add K] [Mul K] [Zero K] (one : K) (s0 s1 : Int) (data : List (Fld K)) : Arr K :=
  (viewRun Gen.fieldWiring one id data (zerosArr s0 s1) one).getD (zerosArr s0 s1)

/-- `Wavefront.insert(out, weight)`; `nsq z` stands for `|z^2|`. `one` is `field.insert`'s own default weight 1, which is
what applies when the regenerated wiring does NOT pass `weight=weight` on (`Gen.insertWiring.weighted = false`): the flag
decides between `w` and `one`, so a source that drops the keyword changes this definition's value (`wfInsert_eq` and the
C07 statement `wavefront_insert_uses_weight` then fail) -/
def wfInsert [Add K] [Mul K] [Zero K] (one : K) (nsq : K → K) (data : List (Fld K)) (out : Arr K) (w : K) : Option (Arr K) :=
  viewRun Gen.insertWiring one nsq data out w

/-- `Wavefront.intensity` -/
def wfIntensity [Add K] [Mul K] [Zero K] (one : K) (nsq : K → K) (s0 s1 : Int) (data : List (Fld K)) : Option (Arr K) :=
  viewRun Gen.intensityWiring one nsq data (zerosArr s0 s1) one

end Lentil
