import LentilVerif.Model.Plane
import LentilVerif.Model.Tilt
/-! Tilt bookkeeping through `Plane.multiply` and `TiltInterface.multiply`, on top of `Model/Plane.lean` (data) and
builderB's `Model/Tilt.lean` / `Model/Propagate.lean` (tilt elements, `Field.shift`, `propagate_dft` with per-field shifts
and window). A field travels with its *own* list of tilt elements: `Field.__mul__` builds `self.tilt + other.tilt` (a new
list per product), `Plane.multiply` passes `tilt=self.tilt[n::self.size]` to the phasor of segment `n`, and
`TiltInterface.multiply` appends the tilt plane once to every field. Mathlib-free. -/
namespace Lentil

variable {K R : Type}

/-- a field with its tilt list (`Field.data/offset`, `Field.tilt`) -/
abbrev TFld (K R : Type) := Fld K × List (TiltEl R)

/-- `Plane.multiply` with tilt lists: `segTilts[n]` is `self.tilt[n::self.size]` (missing entries: `[]`) -/
def planeMultiplyT [Zero K] [Mul K] (ph : R → K) (p : PlaneM K R) (segTilts : List (List (TiltEl R)))
    (data : List (TFld K R)) : List (TFld K R) :=
  data.flatMap fun ft =>
    (((planePhasors ph p).zipIdx).filterMap fun (q, n) =>
      (ft.1.mul q).map fun g => (g, ft.2 ++ (segTilts.getD n [])))

/-- `TiltInterface.multiply`: `Plane.multiply` of a plane with default attributes (no tilt list of its own), then
`field.tilt.append(self)` for every field -/
def tiltMultiplyT [Zero K] [Mul K] (ph : R → K) (one : K) (zeroOpd : R) (e : TiltEl R) (data : List (TFld K R)) : List (TFld K R) :=
  (planeMultiplyT ph ⟨.scalar one, .scalar zeroOpd, .scalar true⟩ [] data).map fun ft => (ft.1, ft.2 ++ [e])

/-- an element of a chain: a masked plane without fitted tilts, or a Tilt plane -/
inductive ChainEl (K R : Type) where
  | pl (p : PlaneM K R)
  | tl (e : TiltEl R)

/-- a chain of planes and Tilt planes in any order, applied left to right with the tilt lists carried along (the loop of
the driver op `c03.chain` for planes without fitted tilts) -/
def runChainT [Zero K] [Mul K] (ph : R → K) (one : K) (zeroOpd : R) : List (ChainEl K R) → List (TFld K R) → List (TFld K R)
  | [], d => d
  | .pl p :: r, d => runChainT ph one zeroOpd r (planeMultiplyT ph p [] d)
  | .tl e :: r, d => runChainT ph one zeroOpd r (tiltMultiplyT ph one zeroOpd e d)

/-- the masked planes of a chain, in order -/
def chainPlanes : List (ChainEl K R) → List (PlaneM K R)
  | [] => []
  | .pl p :: r => p :: chainPlanes r
  | .tl _ :: r => chainPlanes r

/-- the Tilt planes of a chain, in order -/
def chainTilts : List (ChainEl K R) → List (TiltEl R)
  | [] => []
  | .pl _ :: r => chainTilts r
  | .tl e :: r => e :: chainTilts r

/-- forgetting the tilt lists gives `planeMultiply` -/
theorem planeMultiplyT_data [Zero K] [Mul K] (ph : R → K) (p : PlaneM K R) (segTilts : List (List (TiltEl R)))
    (data : List (TFld K R)) :
    (planeMultiplyT ph p segTilts data).map Prod.fst = planeMultiply ph p (data.map Prod.fst) := by
  unfold planeMultiplyT planeMultiply
  induction data with
  | nil => rfl
  | cons ft rest ih =>
    simp only [List.flatMap_cons, List.map_append, List.map_cons, ih]
    congr 1
    generalize planePhasors ph p = qs
    suffices h : ∀ (k : Nat), List.map Prod.fst (List.filterMap (fun x : Fld K × Nat =>
        (ft.1.mul x.1).map fun g => (g, ft.2 ++ (segTilts.getD x.2 []))) (qs.zipIdx k)) = List.filterMap (fun q => ft.1.mul q) qs from h 0
    induction qs with
    | nil => intro k; rfl
    | cons q qs ihq =>
      intro k
      simp only [List.zipIdx_cons, List.filterMap_cons]
      cases ft.1.mul q with
      | none => simp only [Option.map_none]; exact ihq (k + 1)
      | some g => simp only [Option.map_some, List.map_cons]; rw [ihq (k + 1)]

end Lentil
