import LentilVerif.Model.Field
/-! Executable model of `lentil/fourier.py` (`dft2`, `idft2`), generic in the value type `K` (complex-like) and the
scalar type `R` (real-like). Instantiated at `Drv.CF`/`Float` by the driver and at `ℂ`/`ℝ` in the proof files
("one definition, two instantiations", DESIGN §2.1). Mathlib-free. -/
namespace Lentil

/-- what the model needs from the real scalars besides `+ - * neg` (taken as separate instance arguments so that at
`ℝ`/`ℂ` they resolve to Mathlib's own instances) -/
class RealLike (R : Type) where
  ofInt : Int → R
  twoPi : R
  sqrt : R → R
  abs : R → R

/-- what the model needs from the complex values -/
class CxLike (K : Type) (R : Type) where
  /-- `exp(i t)` -/
  expI : R → K
  ofReal : R → K
  conj : K → K
  /-- division by an integer count (`np.divide(F, N)`) -/
  divInt : K → Int → K

/-- centred coordinate of index `i` on an axis of `n` samples: `arange(n) - floor(n/2)` (`_dft2_coords`) -/
def cc (n i : Int) : Int := i - n / 2

variable {K R : Type} [Add R] [Sub R] [Mul R] [Neg R] [RealLike R] [Add K] [Mul K] [Zero K] [CxLike K R]

/-- entry of `exp(-2 pi i alpha outer(X + off, U - shift))` at input index `x`, output index `u` (`_dft2_matrices`) -/
def dftKernel (α : R) (m M : Int) (off : Int) (shift : R) (x u : Int) : K :=
  CxLike.expI (-(RealLike.twoPi * α * RealLike.ofInt (cc m x + off) * (RealLike.ofInt (cc M u) - shift)))

/-- `lentil.fourier.dft2(f, (αr, αc), shape=(M, N), shift=(shr, shc), offset=(offr, offc), unitary)`:
the matrix triple product `E1 · f · E2`, scaled by `sqrt|αr αc|` when unitary -/
def dft2 (f : Arr K) (αr αc : R) (M N : Int) (shr shc : R) (offr offc : Int) (unitary : Bool) : Arr K :=
  { s0 := M, s1 := N,
    get := fun u v =>
      let F : K := sumRange f.s1.toNat fun y =>
        (sumRange f.s0.toNat fun x => (dftKernel αr f.s0 M offr shr x u : K) * f.get x y) * dftKernel αc f.s1 N offc shc y v
      if unitary then F * CxLike.ofReal (RealLike.sqrt (RealLike.abs (αr * αc))) else F }

/-- `lentil.fourier.idft2(F, α, shape, shift, unitary)`: `conj(dft2(conj F))`, divided by `F.size` unless unitary -/
def idft2 (F : Arr K) (αr αc : R) (M N : Int) (shr shc : R) (unitary : Bool) : Arr K :=
  let Fc : Arr K := { F with get := fun i j => CxLike.conj (R := R) (F.get i j) }
  let G := dft2 Fc αr αc M N shr shc 0 0 unitary
  { G with get := fun i j =>
      let z := CxLike.conj (R := R) (G.get i j)
      if unitary then z else CxLike.divInt (R := R) z (F.s0 * F.s1) }

end Lentil
