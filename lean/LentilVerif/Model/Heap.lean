import LentilVerif.Gen.Effects
import LentilVerif.Gen.FourierWiring
/-! Heap model for C10 (purity): cells with abstract contents, objects that captured caller arrays, the global NumPy
generator as one cell and the `_dft2_coords` cache as a partial map. An *op* is one public API call together with the
binding of its parameter slots to cells; **what an op may write is read off the generated effect table**
(`Gen.effTable`, regenerated from the source by `tools/specs/c10.py` on every run). Mathlib-free. -/
namespace Lentil.Heap

abbrev Cell := Nat
/-- key of the `_dft2_coords` cache: `(m, n, M, N)` -/
abbrev Key := Int × Int × Int × Int
/-- the four cached coordinate vectors, each as its entry function -/
abbrev Coords := (Int → Int) × (Int → Int) × (Int → Int) × (Int → Int)

structure State where
  /-- abstract content of every cell (array bytes / object state) -/
  val : Cell → Int
  /-- arrays an object holds by reference, with the attribute that holds them (`Plane._amplitude = np.asarray(amplitude)` ↦
  `("amplitude", cell)`; leading underscores dropped) -/
  refs : Cell → List (String × Cell)
  /-- state of NumPy's global generator -/
  rng : Int
  /-- the `lru_cache` of `_dft2_coords` -/
  cache : Key → Option Coords

/-- one public call -/
structure Op where
  fn : String
  /-- parameter slot ↦ cell passed in that slot -/
  bind : List (String × Cell)
  /-- freshly allocated result (`none`: the call returns one of its arguments, e.g. `out`, or nothing) -/
  res : Option Cell
  /-- uninterpreted: whatever the call would store into a cell it writes / the state it leaves the generator in / what
  a cache-writing call would leave in the cache / which cache entries get evicted -/
  newVal : Cell → Int
  newRng : Int
  newCoords : Key → Coords
  evict : Key → Bool
  /-- the cache key the call looks up (`dft2` family), if any -/
  key : Option Key
  /-- value of the call's `inplace=` flag (only read for the functions in `inplaceGated`) -/
  inplace : Bool := true

def row? (tbl : List Gen.EffRow) (fn : String) : Option Gen.EffRow := tbl.find? (fun r => r.fn == fn)

/-- functions whose in-place behaviour is switched by an `inplace=` argument: with `inplace=False` they work on `self.copy()` -/
def inplaceGated : List String := ["plane.Plane.fit_tilt"]

/-- parameter slots the function may write in place. A function missing from the table may write every slot it is given;
an `inplace=`-gated function called with `inplace=False` writes none. -/
def writeSlots (tbl : List Gen.EffRow) (op : Op) : List String :=
  match row? tbl op.fn with
  | some r => if inplaceGated.contains op.fn && !op.inplace then [] else r.writes.map (·.1)
  | none => op.bind.map (·.1)

/-- attributes through which the function's in-place write sites on `slot` go (regenerated `writePaths`); empty = unknown
(a write through a callee, an `out=` buffer, a function missing from the table): then every attribute may be written -/
def writeAttrs (tbl : List Gen.EffRow) (op : Op) (slot : String) : List String :=
  match row? tbl op.fn with
  | some r => (r.writePaths.filter fun p => p.1 == slot).map (·.2)
  | none => []

/-- cells the op may write: the cells bound to its write slots and, of what those objects hold by reference, the cells held through
an attribute the function's write sites go through (slot- and attribute-specific: `fit_tilt` may write the plane and its `opd`
array, never its `amplitude` or `mask`) -/
def writeCells (tbl : List Gen.EffRow) (s : State) (op : Op) : List Cell :=
  (op.bind.filter fun b => (writeSlots tbl op).contains b.1).flatMap fun b =>
    b.2 :: ((s.refs b.2).filter fun r => r.1 == "*" || (writeAttrs tbl op b.1).isEmpty || (writeAttrs tbl op b.1).contains r.1).map (·.2)

def usesGlobalRng (tbl : List Gen.EffRow) (fn : String) : Bool :=
  match row? tbl fn with
  | some r => r.globalRng
  | none => true

def writesCache (tbl : List Gen.EffRow) (fn : String) : Bool :=
  match row? tbl fn with
  | some r => !r.cacheWrites.isEmpty
  | none => true

/-- cells captured by the result: for a constructor, the cells bound to the parameters its attributes alias -/
def capturedBy (tbl : List Gen.EffRow) (op : Op) : List (String × Cell) :=
  match row? tbl op.fn with
  | some r => r.captures.flatMap fun cp => (op.bind.filter fun b => b.1 == cp.2).map fun b => (cp.1, b.2)
  | none => op.bind.map fun b => ("?", b.2)

/-- what a result that is NOT fresh shares with the arguments (regenerated `returnsAlias`: the parameters the returned value may be
a view of): the cells bound to those parameters, under the wildcard attribute "*" (a write to the result is a write to them),
and everything those cells hold -/
def aliasedBy (tbl : List Gen.EffRow) (s : State) (op : Op) : List (String × Cell) :=
  match row? tbl op.fn with
  | some r => (op.bind.filter fun b => r.returnsAlias.contains b.1).flatMap fun b => ("*", b.2) :: s.refs b.2
  | none => op.bind.map fun b => ("*", b.2)

/-- public functions whose result is documented/expected to be (a view of) an argument: attribute getters, the in-place functions
that return their target, window/subarray views, pass-through sanitizers -/
def viewReturning : List String := [
  "detector.qe_asarray", "field.boundary", "field.insert", "plane.Image.fit_tilt", "plane.Plane.amplitude", "plane.Plane.diameter",
  "plane.Plane.fit_tilt", "plane.Plane.global_mask", "plane.Plane.mask", "plane.Plane.opd", "plane.Plane.pixelscale", "plane.Plane.ptype",
  "ptype.PType.__str__", "ptype.ptype", "radiometry.Flam.to", "radiometry.Photlam.to", "radiometry.Spectrum.value",
  "radiometry.Spectrum.valueunit", "radiometry.Spectrum.wave", "radiometry.Spectrum.waveunit", "radiometry.Wlam.to",
  "radiometry.path_emission", "util.sanitize_bandpass", "util.sanitize_shape", "util.subarray", "util.window",
  "wavefront.Wavefront.insert", "wavefront.Wavefront.pixelscale", "wavefront.Wavefront.ptype", "wavefront.Wavefront.wavelength",
  "zernike.zernike"]

/-- `arange(n) - floor(n/2)` -/
def cc (n i : Int) : Int := i - n / 2
/-- what `_dft2_coords(m, n, M, N)` computes -/
def freshCoords (k : Key) : Coords :=
  -- the four vectors as `_dft2_coords` builds them: regenerated from fourier.py (Gen/FourierWiring.lean, `fwCoord0..3`)
  (Gen.fwCoord0 k.1 k.2.1 k.2.2.1 k.2.2.2, Gen.fwCoord1 k.1 k.2.1 k.2.2.1 k.2.2.2,
   Gen.fwCoord2 k.1 k.2.1 k.2.2.1 k.2.2.2, Gen.fwCoord3 k.1 k.2.1 k.2.2.1 k.2.2.2)

def step (tbl : List Gen.EffRow) (s : State) (op : Op) : State :=
  let W := writeCells tbl s op
  { val := fun c => if op.res = some c then op.newVal c else if W.contains c then op.newVal c else s.val c
    refs := fun c =>
      if op.res = some c then capturedBy tbl op ++ aliasedBy tbl s op
      -- a setter (`plane.opd = arr`) makes the object hold its argument by reference from now on
      else if op.res = none ∧ op.bind.contains ("self", c) then capturedBy tbl op ++ s.refs c
      else s.refs c
    rng := if usesGlobalRng tbl op.fn then op.newRng else s.rng
    cache := fun k =>
      if writesCache tbl op.fn then some (op.newCoords k)
      else if op.evict k then none
      else if op.key = some k then (match s.cache k with | some v => some v | none => some (freshCoords k))
      else s.cache k }

def run (tbl : List Gen.EffRow) (s : State) (ops : List Op) : State := ops.foldl (step tbl) s

/-- the coordinate vectors a `dft2`-family call with key `k` works with in state `s` -/
def lookup (s : State) (k : Key) : Coords :=
  match s.cache k with
  | some v => v
  | none => freshCoords k

/-- every cached entry is what `_dft2_coords` computes for its key -/
def CacheOK (s : State) : Prop := ∀ k v, s.cache k = some v → v = freshCoords k

/-- (function, parameter) pairs documented as in-place: explicit output buffers, accumulate-into-array, scratch space,
in-place tilt fitting, attribute setters, the spectrum editing methods (docs: user guide + docstrings) -/
def documentedInPlace : List (String × String) := [
  ("field.insert", "out"), ("wavefront.Wavefront.insert", "out"),
  ("fourier.dft2", "out"), ("fourier.idft2", "out"),
  ("propagate.propagate_fft", "scratch"),
  ("plane.Plane.fit_tilt", "self"),
  ("plane.Plane.amplitude.setter", "self"), ("plane.Plane.opd.setter", "self"), ("wavefront.Wavefront.ptype.setter", "self"),
  ("radiometry.Spectrum.append", "self"), ("radiometry.Spectrum.crop", "self"), ("radiometry.Spectrum.pad", "self"),
  ("radiometry.Spectrum.resample", "self"), ("radiometry.Spectrum.to", "self"), ("radiometry.Spectrum.trim", "self"),
  ("radiometry.Spectrum.wave.setter", "self"), ("radiometry.Spectrum.value.setter", "self"),
  ("radiometry.Spectrum.waveunit.setter", "self"), ("radiometry.Spectrum.valueunit.setter", "self"),
  ("radiometry.Material.transmission.setter", "self"), ("radiometry.Material.emission.setter", "self")]

/-- the table-level check: every in-place write site of a public function is on the documented list -/
def tableOK (tbl : List Gen.EffRow) : Bool :=
  tbl.all fun r => !r.pub || r.writes.all fun w => documentedInPlace.contains (r.fn, w.1)

end Lentil.Heap
