import LentilVerif.Model.Basic
import LentilVerif.Gen.FieldIdx
import LentilVerif.Gen.FieldMerge
import LentilVerif.Gen.FieldDispatch
import LentilVerif.Gen.FieldAccum
/-! Executable model of `lentil/field.py` (Field.__mul__, merge, reduce, insert), generic in the value type.
Index arithmetic comes from the generated kernel (`Gen.*`); the array plumbing is written by hand and tied to the
implementation by the correspondence harness (tools/harness/c06.py). Mathlib-free. -/
namespace Lentil

/-- a 2-D array: shape and a total accessor (only read inside the shape) -/
structure Arr (K : Type) where
  s0 : Int
  s1 : Int
  get : Int → Int → K

/-- `lentil.field.Field`: data and (row, col) offset -/
structure Fld (K : Type) where
  arr : Arr K
  o0 : Int
  o1 : Int

variable {K : Type}

def Fld.extent (f : Fld K) : Extent := arrayExtent f.arr.s0 f.arr.s1 f.o0 f.o1
def Fld.size1 (f : Fld K) : Bool := decide (f.arr.s0 = 1) && decide (f.arr.s1 = 1)

/-- the field's data on the infinite zero-padded plane -/
def Fld.emb [Zero K] (f : Fld K) (r c : Int) : K := embAt f.extent f.arr.get r c

/-- semantic embedding: a one-element field is an infinite constant -/
def Fld.sem [Zero K] (f : Fld K) (r c : Int) : K := if f.size1 then f.arr.get 0 0 else f.emb r c

/-- `Field._mul_array` once both operands are arrays (after `_mul_broadcast`) -/
def Fld.mulArr [Mul K] (a b : Fld K) : Option (Fld K) :=
  let ea := a.extent
  let eb := b.extent
  if intersect ea eb then
    let sl := intersectionSlices ea eb
    let sh := intersectionShift ea eb
    -- data = self_data[self_slice] * other_data[other_slice]
    some { arr := { s0 := sl.1.1.2 - sl.1.1.1, s1 := sl.1.2.2 - sl.1.2.1,
                    get := fun i j => a.arr.get (i + sl.1.1.1) (j + sl.1.2.1) * b.arr.get (i + sl.2.1.1) (j + sl.2.2.1) },
           o0 := sh.1, o1 := sh.2 }
  else none

/-- `np.broadcast_to(a_data, b_data.shape)` with `a_offset = b_offset` -/
def Fld.broadcastTo (a b : Fld K) : Fld K :=
  { arr := { s0 := b.arr.s0, s1 := b.arr.s1, get := fun _ _ => a.arr.get 0 0 }, o0 := b.o0, o1 := b.o1 }

/-- `Field.size` (`data.size`; array dimensions are non-negative) -/
def Fld.size (f : Fld K) : Int := ((f.arr.s0.toNat * f.arr.s1.toNat : Nat) : Int)

/-- `Field.__mul__`: the dispatch test (`self.size == 1 and other.size == 1`) and `_mul_scalar`'s offset comparison
(`np.array_equal(self.offset, other.offset)`, value equality whatever the containers) are the generated
`Gen.mulBothOne` / `Gen.mulScalarSame`
(closed form: `Fld.mul_closed` in Lemmas/Field.lean) -/
def Fld.mul [Mul K] (a b : Fld K) : Option (Fld K) :=
  if Gen.mulBothOne a.size b.size then
    -- `_mul_scalar`
    -- the container types of the two offsets (list / tuple / ndarray: the `_kind` parameters) are not part of the model;
    -- `Props/C06.mul_dispatch_spec` shows the generated comparison does not depend on them
    if Gen.mulScalarSame a.o0 a.o1 0 b.o0 b.o1 0 then
      some { arr := { s0 := 1, s1 := 1, get := fun _ _ => a.arr.get 0 0 * b.arr.get 0 0 }, o0 := a.o0, o1 := a.o1 }
    else none
  else
    let a' := if a.size1 then a.broadcastTo b else a
    let b' := if b.size1 then b.broadcastTo a' else b
    a'.mulArr b'

/-- `lentil.field.boundary`: fold of the generated step from the generated initial value -/
def boundaryL (es : List Extent) : Extent :=
  es.foldl (fun acc e => .ofT (Gen.boundaryStep acc.rmin acc.rmax acc.cmin acc.cmax e.rmin e.rmax e.cmin e.cmax))
    (.ofT Gen.boundaryInit)

/-- `lentil.field._merge` for a list of array fields (no member is 0-d: the generated `_merge_shape` gets `all0d = 0`, so
the shape is never `()`; on the single-origin-pixel box it is (1, 1) and every slice is the whole array, which is what
the general slice formula gives there). The `Option` is kept for the callers; `mergeL_isSome` (Lemmas) shows it is `some`. -/
def mergeL [Add K] [Zero K] (fs : List (Fld K)) : Option (Fld K) :=
  let b := boundaryL (fs.map Fld.extent)
  match Gen.mergeShape b.rmin b.rmax b.cmin b.cmax 0 with
  | none => none
  | some shp =>
    let off := Gen.mergeOffset b.rmin b.rmax b.cmin b.cmax
    some { arr := { s0 := shp.1, s1 := shp.2,
                    -- out[slc] += field.data with slc = the generated `_merge_slices` step (row, col)
                    get := fun i j => sumList fs fun f =>
                      let e := f.extent
                      let sl := Gen.mergeSlice b.rmin b.rmax b.cmin b.cmax e.rmin e.rmax e.cmin e.cmax
                      if decide (sl.1.1 ≤ i) && decide (i < sl.1.2) && decide (sl.2.1 ≤ j) && decide (j < sl.2.2)
                      then f.arr.get (i - sl.1.1) (j - sl.2.1) else 0 },
           o0 := off.1, o1 := off.2 }

/-- a group of `_reduce`: the member fields and the cached group extent -/
structure Group (K : Type) where
  fields : List (Fld K)
  extent : Extent

/-- first pair (m < n) in `itertools.combinations(range(len), 2)` order whose extents intersect -/
def firstPair (gs : List (Group K)) : Option (Nat × Nat) :=
  let n := gs.length
  let idx := (List.range n).flatMap fun m => ((List.range n).filter fun k => m < k).map fun k => (m, k)
  idx.find? fun (m, k) => match gs[m]?, gs[k]? with
    | some gm, some gk => intersect gm.extent gk.extent
    | _, _ => false

/-- `lentil.field._disjoint` (fuel = number of groups suffices: every step removes one group). The merge step follows the
constants recognised in the source (`Gen.disjointStep` = (kept, appended, recomputed, popped) with 0 for `m`, 1 for `n`):
`fields[kept]['field'].extend(fields[appended]['field'])`, `fields[r]['extent'] = boundary(fields[r]['field'])`,
`fields.pop(popped)`; closed form for the current source: `disjoint_succ_some` (Lemmas/Reduce.lean) -/
def disjoint : Nat → List (Group K) → List (Group K)
  | 0, gs => gs
  | fuel + 1, gs =>
    match firstPair gs with
    | none => gs
    | some (m, k) =>
      let st := Gen.disjointStep
      let ix := fun (c : Int) => if c = 0 then m else k
      match gs[ix st.1]?, gs[ix st.2.1]? with
      | some gkeep, some gsrc =>
        let gs1 := gs.set (ix st.1) { fields := gkeep.fields ++ gsrc.fields, extent := gkeep.extent }
        let gs2 := match gs1[ix st.2.2.1]? with
          | some gr => gs1.set (ix st.2.2.1) { gr with extent := boundaryL (gr.fields.map Fld.extent) }
          | none => gs1
        disjoint fuel (gs2.eraseIdx (ix st.2.2.2))
      | _, _ => gs

/-- `lentil.field.reduce` -/
def reduce [Add K] [Zero K] (fs : List (Fld K)) : List (Option (Fld K)) :=
  let gs := disjoint fs.length (fs.map fun f => { fields := [f], extent := f.extent })
  gs.map fun g => match g.fields with
    | [f] => some f
    | l => mergeL l

/-- value of a generated accumulation term (`Gen.AccExpr`) at a data sample `d` and weight `w`; `nsq` interprets `|·|²` -/
def _root_.Gen.AccExpr.eval [Mul K] (nsq : K → K) (d w : K) : Gen.AccExpr → K
  | .data => d
  | .weight => w
  | .mul a b => a.eval nsq d w * b.eval nsq d w
  | .nsq a => nsq (a.eval nsq d w)

/-- what `out[out_slice] += …` leaves in a sample that held `o`: the generated intensity-branch term
(`Gen.insertAccumIntensity`, with `|·|²` read as `post`) accumulated in place iff the generated flag says `+=`.
Closed form for the current source: `insertTerm_eq` (Lemmas/Field.lean): `o + post d * w`. The field branch is the same
term with `post = id` (`Props/C06.insert_accum_spec`). -/
def insertTerm [Add K] [Mul K] (post : K → K) (o d w : K) : K :=
  if Gen.insertAccumInPlace.1 then o + Gen.insertAccumIntensity.eval post d w else Gen.insertAccumIntensity.eval post d w

/-- `lentil.field.insert(field, out, intensity=False, weight=w)`: the new content of `out` -/
def insertArr [Add K] [Mul K] (f : Fld K) (out : Arr K) (w : K) (post : K → K := id) : Arr K :=
  match Gen.insertIdx f.arr.s0 f.arr.s1 f.o0 f.o1 out.s0 out.s1 with
  | none => out
  | some ((orow, ocol), (frow, fcol)) =>
    { out with get := fun i j =>
        if decide (orow.1 ≤ i) && decide (i < orow.2) && decide (ocol.1 ≤ j) && decide (j < ocol.2)
        then insertTerm post (out.get i j) (f.arr.get (i - orow.1 + frow.1) (j - ocol.1 + fcol.1)) w
        else out.get i j }

/-- `insert` with the branch chosen as in the source: `intensity` selects the generated intensity term (with `|·|²` = `nsq`),
otherwise the generated field term; each accumulates in place iff its generated flag says `+=` -/
def insertArrMode [Add K] [Mul K] (intensity : Bool) (nsq : K → K) (f : Fld K) (out : Arr K) (w : K) : Arr K :=
  match Gen.insertIdx f.arr.s0 f.arr.s1 f.o0 f.o1 out.s0 out.s1 with
  | none => out
  | some ((orow, ocol), (frow, fcol)) =>
    let term := if intensity then Gen.insertAccumIntensity else Gen.insertAccumField
    let inplace := if intensity then Gen.insertAccumInPlace.1 else Gen.insertAccumInPlace.2
    { out with get := fun i j =>
        if decide (orow.1 ≤ i) && decide (i < orow.2) && decide (ocol.1 ≤ j) && decide (j < ocol.2)
        then
          let t := term.eval nsq (f.arr.get (i - orow.1 + frow.1) (j - ocol.1 + fcol.1)) w
          if inplace then out.get i j + t else t
        else out.get i j }

end Lentil
