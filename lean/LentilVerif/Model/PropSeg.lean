import LentilVerif.Model.Plane
import LentilVerif.Model.Fourier
import LentilVerif.Model.Propagate
/-! `lentil.propagate.propagate_dft` for wavefronts whose fields carry no tilt and without an output mask — the part of
the propagation loop that C03 needs (one `dft2` per field, each re-centred by the field's own offset, all landing on the
same output window). Generic in `K`/`R` like `Model/Fourier.lean`; Mathlib-free. The general loop (tilt shifts, output
masks, clipping windows) is C02's model. -/
namespace Lentil

variable {K R : Type} [Add R] [Sub R] [Mul R] [Neg R] [RealLike R] [Add K] [Mul K] [Zero K] [CxLike K R]

/-- the output window of `propagate_dft` for `fix_shift = (0, 0)` and no mask: the *generated* window block
(`Gen.dftWindow`, re-translated from propagate.py on every run) on `array_extent(shape_out)`; returns
(shape, offset of the output field, dft2 `shift` argument) -/
def propWindow (shapeOut propOut : Int × Int) : Option ((Int × Int) × (Int × Int) × (Int × Int)) :=
  dftWindow (arrayExtent shapeOut.1 shapeOut.2 0 0) propOut.1 propOut.2 0 0

/-- `propagate_dft` on tilt-free fields: `out.data.append(Field(dft2(field.data, alpha, shape=intersect_shape,
shift=prop_shift, offset=field.offset, unitary=True), offset=intersect_shift))` for every field -/
def propagateDftNoTilt (data : List (Fld K)) (αr αc : R) (shapeOut propOut : Int × Int) : List (Fld K) :=
  match propWindow shapeOut propOut with
  | none => []
  | some (ish, isft, psh) =>
    data.map fun f =>
      { arr := dft2 f.arr αr αc ish.1 ish.2 (RealLike.ofInt psh.1) (RealLike.ofInt psh.2) f.o0 f.o1 true,
        o0 := isft.1, o1 := isft.2 }

/-- `propagate_dft` (builderB's `propagateDft`: generated window block, optional output mask) on fields that all carry the same
tilt list, hence the same shift `fix + sub` — e.g. after Tilt planes shared by all segments or `Wavefront(tilt=…)` -/
def propagateDftCommon (data : List (Fld K)) (αr αc : R) (S0 S1 P0 P1 os : Int) (mask : Option Extent)
    (fix0 fix1 : Int) (sub0 sub1 : R) : List (Fld K) :=
  propagateDft (data.map fun f => ({ fld := f, fix0 := fix0, fix1 := fix1, sub0 := sub0, sub1 := sub1 } : TField K R))
    αr αc S0 S1 P0 P1 os mask

end Lentil
