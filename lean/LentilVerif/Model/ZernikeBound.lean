import LentilVerif.Model.ZernikeRadial
/-! A checkable certificate for `|R_n^m(ρ)| ≤ 1` on [−1, 1] (C11: "bounded by 1 without normalisation"), Mathlib-free and decided by
the kernel for a finite table.  `2^n · R_n^m(x) = Σ_t W_t · T_t(x)` with `T_t` the Chebyshev polynomials (`T_t(cos θ) = cos tθ`) and
INTEGER weights `W_t ≥ 0` that sum to `2^n`: then `2^n |R| ≤ Σ W_t = 2^n`.  The weights come from `2^e x^e = Σ_t g(e,t) T_t`,
`g(e,0) = C(e, e/2)`, `g(e,t) = 2 C(e, (e−t)/2)`; the check compares the two coefficient lists, so nothing about the weights is trusted. -/
namespace Lentil

/-- coefficient lists, lowest degree first: `c :: l` is `c + x · l(x)` -/
def addL : List Int → List Int → List Int
  | [], l => l
  | l, [] => l
  | a :: l, b :: r => (a + b) :: addL l r

def scaleL (c : Int) (l : List Int) : List Int := l.map fun a => c * a

/-- `T_{t+2} = 2x T_{t+1} − T_t` on coefficient lists -/
def nextT (a b : List Int) : List Int := addL (0 :: scaleL 2 b) (scaleL (-1) a)

/-- `Σ_i w_i T_{t+i}` given `a = T_t`, `b = T_{t+1}` -/
def chebAcc : List Int → List Int → List Int → List Int
  | [], _, _ => []
  | w :: ws, a, b => addL (scaleL w a) (chebAcc ws b (nextT a b))

/-- `c · x^e` -/
def monoL (c : Int) : Nat → List Int
  | 0 => [c]
  | e + 1 => 0 :: monoL c e

/-- the coefficient list of `R_n^m`: the terms `a_k x^(n−2k)` of `radialEval` -/
def denseRadial (n m : Nat) : List Int :=
  (List.range ((n - m) / 2 + 1)).foldr (fun k acc => addL (monoL (radialCoeff n m k) (n - 2 * k)) acc) []

/-- `2^e x^e = Σ_t chebG e t · T_t` (t ≡ e mod 2) -/
def chebG (e t : Nat) : Nat := if e < t then 0 else if t = 0 then chooseN e (e / 2) else 2 * chooseN e ((e - t) / 2)

/-- the Chebyshev weights of `2^n R_n^m`, t = 0 … n -/
def chebW (n m : Nat) : List Int :=
  (List.range (n + 1)).map fun t =>
    if (n - t) % 2 = 0 then
      ((List.range ((n - m) / 2 + 1)).map fun k => radialCoeff n m k * (4 : Int) ^ k * (chebG (n - 2 * k) t : Int)).foldl (· + ·) 0
    else 0

def sumL (l : List Int) : Int := l.foldr (· + ·) 0

/-- the certificate for one (n, m): the weights are non-negative, sum to `2^n`, and `Σ_t W_t T_t` IS `2^n R_n^m` coefficient by coefficient -/
def radialCheb (n m : Nat) : Bool :=
  (chebW n m).all (fun w => decide (0 ≤ w)) && sumL (chebW n m) == (2 : Int) ^ n &&
    chebAcc (chebW n m) [1] [0, 1] == scaleL ((2 : Int) ^ n) (denseRadial n m)

/-- the certificate passes for every valid (n, m) with n ≤ N -/
def allCheb (N : Nat) : Bool :=
  (List.range (N + 1)).all fun n => (List.range (n + 1)).all fun m => (n - m) % 2 != 0 || radialCheb n m

end Lentil
