import LentilVerif.Model.Field
import LentilVerif.Gen.FieldDispatch
/-! 0-d aware model of `lentil.field._merge` / `reduce` / `merge` / `overlap` (C06).

`Wavefront.__init__` creates fields whose data is a **0-d** array. Everywhere except one corner a 0-d field behaves as a
1×1 array at its offset (`array_extent` maps `len(shape) < 2` to `(1, 1)`, and `out[row, col] += data` broadcasts). The
corner is `_merge` on a collection whose bounding box is the single origin pixel — i.e. every member is a one-element
field at offset (0, 0): every slice is `Ellipsis`; `_merge_shape` returns `()` when every member is 0-d (the result is
then 0-d) and `(1, 1)` otherwise (/repo fix: it used to return `()` always, and a (1, 1) array member made NumPy raise).

`ZFld` = a `Fld` plus the flag "data is 0-d". The existing `Fld`/`mergeL`/`reduce` are not changed; `mergeZ`/`reduceZ`
refine them (`Lemmas/ReduceZ.lean`: they agree wherever `mergeL`/`reduce` answer). Mathlib-free. -/
namespace Lentil
variable {K : Type}

/-- a field together with the flag "its data is a 0-d array" (then `fld.arr` is 1×1) -/
structure ZFld (K : Type) where
  fld : Fld K
  zd : Bool

def b2i (b : Bool) : Int := if b then 1 else 0

/-- `Field.__mul__`, 0-d aware: the data of the product is 0-d exactly when both operands are 0-d (NumPy: `() * ()` is
`()`, `() * (1, 1)` is `(1, 1)`, and a one-element operand is broadcast to the other's shape) -/
def ZFld.mul [Mul K] (a b : ZFld K) : Option (ZFld K) :=
  (a.fld.mul b.fld).map fun p => { fld := p, zd := a.zd && b.zd }

/-- `lentil.field._merge`, 0-d aware. `_merge_shape` (generated, with `all0d` = "every member is 0-d") returns `()` only on
the single-origin-pixel box of an all-0-d collection: then `out = np.zeros(())` and `out[...] += field.data` adds every
member, and the result is 0-d. In every other case (also (1, 1) arrays, or a mix, at the origin) the result is an array and
`mergeL` applies. -/
def mergeZ [Add K] [Zero K] (fs : List (ZFld K)) : Option (ZFld K) :=
  let b := boundaryL (fs.map fun z => z.fld.extent)
  match Gen.mergeShape b.rmin b.rmax b.cmin b.cmax (b2i (fs.all fun z => z.zd)) with
  | none =>
    let off := Gen.mergeOffset b.rmin b.rmax b.cmin b.cmax
    some { fld := { arr := { s0 := 1, s1 := 1, get := fun _ _ => sumList fs fun z => z.fld.arr.get 0 0 },
                    o0 := off.1, o1 := off.2 },
           zd := true }
  | some _ => (mergeL (fs.map fun z => z.fld)).map fun p => { fld := p, zd := false }

/-- a group of `_reduce` whose members carry the 0-d flag -/
structure GroupZ (K : Type) where
  fields : List (ZFld K)
  extent : Extent

/-- forget the flags -/
def GroupZ.toG (g : GroupZ K) : Group K := { fields := g.fields.map fun z => z.fld, extent := g.extent }

def GroupZ.single (z : ZFld K) : GroupZ K := { fields := [z], extent := z.fld.extent }

/-- `fields[m]['field'].extend(fields[n]['field']); fields[m]['extent'] = boundary(fields[m]['field'])` -/
def mergeGroupsZ (gm gk : GroupZ K) : GroupZ K :=
  { fields := gm.fields ++ gk.fields, extent := boundaryL ((gm.fields ++ gk.fields).map fun z => z.fld.extent) }

/-- `lentil.field._disjoint` on flagged groups (the pair search only reads the cached extents); the merge step follows the
recognised constants `Gen.disjointStep`, as in `Lentil.disjoint` -/
def disjointZ : Nat → List (GroupZ K) → List (GroupZ K)
  | 0, gs => gs
  | fuel + 1, gs =>
    match firstPair (gs.map GroupZ.toG) with
    | none => gs
    | some (m, k) =>
      let st := Gen.disjointStep
      let ix := fun (c : Int) => if c = 0 then m else k
      match gs[ix st.1]?, gs[ix st.2.1]? with
      | some gkeep, some gsrc =>
        let gs1 := gs.set (ix st.1) { fields := gkeep.fields ++ gsrc.fields, extent := gkeep.extent }
        let gs2 := match gs1[ix st.2.2.1]? with
          | some gr => gs1.set (ix st.2.2.1) { gr with extent := boundaryL (gr.fields.map fun (z : ZFld K) => z.fld.extent) }
          | none => gs1
        disjointZ fuel (gs2.eraseIdx (ix st.2.2.2))
      | _, _ => gs

/-- `_merge(f['field']) if len(f['field']) > 1 else f['field'][0]`; the test is the generated `Gen.reduceMerges` -/
def GroupZ.out [Add K] [Zero K] (g : GroupZ K) : Option (ZFld K) :=
  if Gen.reduceMerges (g.fields.length : Int) then mergeZ g.fields
  else match g.fields with
    | [z] => some z
    | l => mergeZ l          -- not reached with the current test (an empty group does not occur)

/-- `lentil.field.reduce`, 0-d aware -/
def reduceZ [Add K] [Zero K] (zs : List (ZFld K)) : List (Option (ZFld K)) :=
  (disjointZ zs.length (zs.map GroupZ.single)).map GroupZ.out

/-- public `lentil.field.overlap(fields)`: `len(fields) == 2` (generated `Gen.overlapIsPair`) → the extent test on
`fields[0]`, `fields[1]`; otherwise `_reduce` and the generated test `Gen.overlapManyFalse` on the number of groups -/
def overlapL (fs : List (Fld K)) : Bool :=
  if Gen.overlapIsPair (fs.length : Int) then
    match fs with
    | a :: b :: _ => intersect a.extent b.extent
    | _ => false             -- not reached with the current test (`fields[1]` would raise IndexError)
  else
    !(Gen.overlapManyFalse ((disjoint fs.length (fs.map fun f => { fields := [f], extent := f.extent })).length : Int))

/-- public `lentil.field.merge(a, b, enforce_overlap)`: the refusal test is the generated `Gen.mergeRefuses`
(`enforce_overlap and not overlap((a, b))`, `none` = `ValueError`), else `_merge((a, b))` -/
def mergePublic [Add K] [Zero K] (a b : ZFld K) (enforce : Bool) : Option (ZFld K) :=
  if Gen.mergeRefuses (b2i enforce) (b2i (overlapL [a.fld, b.fld])) then none else mergeZ [a, b]

end Lentil
