import LentilVerif.Model.Basic
import LentilVerif.Gen.Units
import LentilVerif.Gen.DetectorIdx
/-! Executable model of the detector chain of `lentil/detector.py` (`collect_charge`, `collect_charge_bayer`, `qe_asarray`,
`format_bayer_string`, `adc`), generic in the value type `K`. Instantiated at core `Rat` by the driver
(`Driver/Ops/C16.lean`, exact arithmetic on dyadic test data) and at an arbitrary ordered field with a floor in
`Props/C16.lean`. Mathlib-free.

NumPy contracts used (trusted, DESIGN §4):
* `np.einsum('ijk,i->jk', img, qe)[j,k] = Σ_i img[i,j,k]·qe[i]`;
* `np.tile(k, (a, b))` has shape `(a·d0, b·d1)` and entry `[i, j] = k[i % d0, j % d1]`;
* `np.repeat(x, os, axis=0)` has shape `(os·n, m)` and entry `[i, j] = x[i / os, j]` (likewise on axis 1);
* `np.where(c, a, b)`, `np.floor`, boolean-mask assignment `img[img < 0] = 0`, `astype`. -/
namespace Lentil.Det

/-- a 2-D array: shape and total accessor (only read inside the shape) -/
structure Img (K : Type) where
  s0 : Int
  s1 : Int
  get : Int → Int → K

variable {K : Type}

/-! ## collect_charge -/

/-- `np.einsum('ijk,i->jk', img, qe)` at pixel `(i, j)`; `nw` wavelength slices -/
def collectCharge [Add K] [Mul K] [Zero K] (nw : Nat) (img : Nat → Int → Int → K) (qe : Nat → K) (i j : Int) : K :=
  sumRange nw fun l => img l i j * qe l

/-- `collect_charge` on a cube of `ns` slices with `nw` wavelengths / efficiencies, as the code behaves:
equal counts → the wavelength sum; a single slice (also a 2-D image) with `nw > 1` efficiencies is **broadcast** by `einsum`
(every efficiency multiplies the one slice: `img · Σ qe` — accepted silently, reported); any other mismatch → `ValueError` (`none`) -/
def collectChargeChecked [Add K] [Mul K] [Zero K] (ns nw : Nat) (img : Nat → Int → Int → K) (qe : Nat → K) : Option (Int → Int → K) :=
  if ns = nw then some (collectCharge nw img qe)
  else if ns = 1 then some (collectCharge nw (fun _ => img 0) qe)
  else none

/-- the three ways a quantum efficiency can be given. `spectrum s`: `s l` is the value returned by
`Spectrum.sample(wave, waveunit)` at the `l`-th wavelength (contract of `radiometry.Spectrum.sample`, properties C13/C15) -/
inductive QE (K : Type) where
  | scalar (q : K)
  | vector (size : Nat) (v : Nat → K)
  | spectrum (s : Nat → K)
  /-- a `Spectrum` object: grid points (wavelength, value) in unit `su`, sampled at the call's wavelengths `wave l` in unit `wu` -/
  | spectrumObj (grid : List (K × K)) (su : Gen.WUnit) (wave : Nat → K) (wu : Gen.WUnit)

/-- piecewise-linear interpolation through the points `(x, v)` (ascending `x`), 0 outside the covered range:
`scipy.interpolate.interp1d(x, v, kind='linear', bounds_error=False, fill_value=0)` -/
def interpLin [LE K] [DecidableLE K] [Zero K] [Add K] [Sub K] [Mul K] [Div K] : List (K × K) → K → K
  | (x0, v0) :: (x1, v1) :: rest, w =>
      if x0 ≤ w ∧ w ≤ x1 then v0 + (v1 - v0) * (w - x0) / (x1 - x0) else interpLin ((x1, v1) :: rest) w
  | _, _ => 0

/-- `Spectrum.sample(w, waveunit=wu)` of a unit-less-valued spectrum given on `grid` in wavelength unit `su`: the spectrum is
converted to `wu` (wavelengths multiplied by the regenerated factor `Gen.waveTo su wu`, values unchanged) and interpolated linearly -/
def spectrumSample [LE K] [DecidableLE K] [Zero K] [Add K] [Sub K] [Mul K] [Div K] [NatCast K]
    (grid : List (K × K)) (su : Gen.WUnit) (w : K) (wu : Gen.WUnit) : K :=
  interpLin (grid.map fun p => (p.1 * Gen.waveTo su wu, p.2)) w

/-- `qe_asarray(qe, wave, waveunit)`: `none` models the failed `assert qe.size == wave.size` -/
def QE.asArray [LE K] [DecidableLE K] [Zero K] [Add K] [Sub K] [Mul K] [Div K] [NatCast K] : QE K → (nw : Nat) → Option (Nat → K)
  | .scalar q, _ => some fun _ => q
  | .vector size v, nw => if size = nw then some v else none
  | .spectrum s, _ => some s
  | .spectrumObj grid su wave wu, _ => some fun l => spectrumSample grid su (wave l) wu

/-! ## Bayer mosaic -/

inductive Colour where
  | R | G | B
deriving DecidableEq, Repr, Inhabited

/-- one letter of a Bayer string, after `upper()`; anything but R, G, B is foreign -/
def colourOfChar (c : Char) : Option Colour :=
  match c.toUpper with
  | 'R' => some .R
  | 'G' => some .G
  | 'B' => some .B
  | _ => none

/-- `format_bayer_string`: upper-case, only the letters R G B, length a perfect square `d²`, reshaped **row-major** to `d × d`
(`pattern a b` = letter `a·d + b`). `none` = ValueError. -/
def formatBayer (s : String) : Option (Nat × (Int → Int → Colour)) :=
  let cs := s.toList.map colourOfChar
  if cs.any Option.isNone then none
  else match (List.range (cs.length + 1)).find? (fun d => d * d == cs.length) with
    | none => none
    | some d => some (d, fun a b => (cs[(a * d + b).toNat]?).join.getD .R)

/-- `np.where(bayer_pattern == c, 1, 0)` -/
def kernel [Zero K] [One K] (pattern : Int → Int → Colour) (c : Colour) : Int → Int → K :=
  fun i j => if pattern i j = c then 1 else 0

/-- `np.tile(k, (a, b))` for a `d0 × d1` array -/
def tile (k : Img K) (a b : Int) : Img K :=
  { s0 := a * k.s0, s1 := b * k.s1, get := fun i j => k.get (i % k.s0) (j % k.s1) }

/-- `np.repeat(x, os, axis=0)` -/
def repeat0 (x : Img K) (os : Int) : Img K := { s0 := os * x.s0, s1 := x.s1, get := fun i j => x.get (i / os) j }
/-- `np.repeat(x, os, axis=1)` -/
def repeat1 (x : Img K) (os : Int) : Img K := { s0 := x.s0, s1 := os * x.s1, get := fun i j => x.get i (j / os) }

/-- the per-colour mosaic of `collect_charge_bayer` for an image of shape `(R, C)`, a `d × d` pattern and oversampling `os`:
```
nrow = img.shape[1] // oversample ; ncol = img.shape[2] // oversample
m = np.tile(kernel, (nrow // kernel.shape[0], ncol // kernel.shape[1]))
m = np.repeat(np.repeat(m, oversample, axis=0), oversample, axis=1)
``` -/
def repeatAx (x : Img K) (f ax : Int) : Img K := if ax = 0 then repeat0 x f else repeat1 x f

/-- built from the **regenerated** bookkeeping (`Gen.bayerTileReps`, `Gen.bayerRepeats`, tools/specs/c16.py): the tile repeat counts
and the (factor, axis) list of the nested `np.repeat` calls are translated from the source on every run -/
def mosaic (kern : Img K) (R C os : Int) : Img K :=
  let reps := Gen.bayerTileReps R C os kern.s0 kern.s1
  (Gen.bayerRepeats R C os).foldl (fun m p => repeatAx m p.1 p.2) (tile kern reps.1 reps.2)

/-- NumPy broadcasting of one axis: equal lengths, or one of them 1 -/
def bcast (a b : Int) : Option Int := if a = b then some a else if a = 1 then some b else if b = 1 then some a else none

/-- shape of `einsum(img, qe) * mosaic` for an image of shape `(R, C)`: `none` = broadcast error (ValueError). For image sizes that
are multiples of `d·os` this is `(R, C)`; a one-row or one-column image that is *not* a multiple is **broadcast against an empty
mosaic** and yields an empty array instead of an error (behaviour of the code, outside the property's quantifier; reported) -/
def bayerShape (R C d os : Int) : Option (Int × Int) :=
  let m := mosaic (K := Int) { s0 := d, s1 := d, get := fun _ _ => 0 } R C os
  match bcast R m.s0, bcast C m.s1 with
  | some r, some c => some (r, c)
  | _, _ => none

/-- one colour channel: `einsum(img, qe_c) * mosaic_c`; `none` = NumPy broadcast error (mosaic shape ≠ image shape) -/
def bayerChannel [Add K] [Mul K] [Zero K] [One K] (nw : Nat) (R C : Int) (img : Nat → Int → Int → K) (qe : Nat → K)
    (d : Int) (pattern : Int → Int → Colour) (os : Int) (c : Colour) : Option (Int → Int → K) :=
  let m := mosaic (K := K) { s0 := d, s1 := d, get := kernel pattern c } R C os
  if decide (m.s0 = R) && decide (m.s1 = C) then some fun i j => collectCharge nw img qe i j * m.get i j else none

/-- `collect_charge_bayer(..., flatten=True)` -/
def bayerFlat [Add K] [Mul K] [Zero K] [One K] (nw : Nat) (R C : Int) (img : Nat → Int → Int → K) (qe : Colour → Nat → K)
    (d : Int) (pattern : Int → Int → Colour) (os : Int) : Option (Int → Int → K) :=
  match bayerChannel nw R C img (qe .R) d pattern os .R, bayerChannel nw R C img (qe .G) d pattern os .G,
        bayerChannel nw R C img (qe .B) d pattern os .B with
  | some r, some g, some b => some fun i j => r i j + g i j + b i j
  | _, _, _ => none

/-- the efficiency parameter a name of the regenerated channel table (`Gen.bayerChannels`) denotes -/
def colourOfQeName : String → Option Colour
  | "qe_red" => some .R
  | "qe_green" => some .G
  | "qe_blue" => some .B
  | _ => none

/-- one channel image **as the source wires it** (`Gen.bayerChannels`, regenerated from `collect_charge_bayer`): the kernel letter, the
einsum subscripts and the efficiency variable are read off the table; anything the table does not explain is `none` -/
def bayerChannelFromSource [Add K] [Mul K] [Zero K] [One K] (nw : Nat) (R C : Int) (img : Nat → Int → Int → K) (qe : Colour → Nat → K)
    (d : Int) (pattern : Int → Int → Colour) (os : Int) (name : String) : Option (Int → Int → K) :=
  match Gen.bayerChannels.lookup name with
  | some (letter, sub, q) =>
    match colourOfChar letter, colourOfQeName q with
    | some kc, some qc => if sub = "ijk,i->jk" then bayerChannel nw R C img (qe qc) d pattern os kc else none
    | _, _ => none
  | none => none

/-- `flatten=True` **as the source sums it** (`Gen.bayerFlattenTerms`, left to right) -/
def bayerFlatFromSource [Add K] [Mul K] [Zero K] [One K] (nw : Nat) (R C : Int) (img : Nat → Int → Int → K) (qe : Colour → Nat → K)
    (d : Int) (pattern : Int → Int → Colour) (os : Int) : Option (Int → Int → K) :=
  match Gen.bayerFlattenTerms with
  | [] => none
  | t :: ts => ts.foldl (fun acc name => match acc, bayerChannelFromSource nw R C img qe d pattern os name with
      | some a, some ch => some fun i j => a i j + ch i j
      | _, _ => none) (bayerChannelFromSource nw R C img qe d pattern os t)

/-- `flatten=False` **as the source returns it** (`Gen.bayerSeparateOrder`) -/
def bayerSeparateFromSource [Add K] [Mul K] [Zero K] [One K] (nw : Nat) (R C : Int) (img : Nat → Int → Int → K) (qe : Colour → Nat → K)
    (d : Int) (pattern : Int → Int → Colour) (os : Int) : List (Option (Int → Int → K)) :=
  Gen.bayerSeparateOrder.map (bayerChannelFromSource nw R C img qe d pattern os)

/-! ## adc -/

/-- `n`-th power by repeated multiplication (`img_cube[d]**order`) -/
def npow [Mul K] [One K] (x : K) : Nat → K
  | 0 => 1
  | n + 1 => npow x n * x

/-- gain polynomial without constant term, coefficients highest power first:
`Σ_d gain[d] · x^(n - d)`, `n = len(gain)` (the `einsum` over the power cube) -/
def polyGain [Add K] [Mul K] [Zero K] [One K] : List K → K → K
  | [], _ => 0
  | c :: cs, x => c * npow x (cs.length + 1) + polyGain cs x

/-- `np.where(img > cap, cap, img)`; `if saturation_capacity:` treats `None` (and 0) as "no limit" -/
def clipSat [LT K] [DecidableLT K] (cap : Option K) (x : K) : K :=
  match cap with
  | none => x
  | some c => if c < x then c else x

/-- DN of one pixel: `floor`, then `img[img < 0] = 0` -/
def adcValue [Add K] [Mul K] [Zero K] [One K] [LT K] [DecidableLT K] (floor : K → Int) (cap : Option K) (g : List K) (x : K) : Int :=
  let v := floor (polyGain g (clipSat cap x))
  if v < 0 then 0 else v

/-- one digitisation step, by its name in the regenerated step list `Gen.adcSteps`: the count is a `K` up to the floor and an `Int`
(DN) after it; a step applied to the wrong kind of value, or an unknown step, is `none` -/
def adcStep [Add K] [Mul K] [Zero K] [One K] [LT K] [DecidableLT K] (floor : K → Int) (cap : Option K) (g : List K) :
    String → Sum K Int → Option (Sum K Int)
  | "saturate", .inl x => some (.inl (clipSat cap x))
  | "gain", .inl x => some (.inl (polyGain g x))
  | "floor", .inl x => some (.inr (floor x))
  | "clamp", .inr v => some (.inr (if v < 0 then 0 else v))
  | "cast", .inr v => some (.inr v)
  | _, _ => none

/-- `adc` at one pixel, **run through the steps in the order the source performs them** (`Gen.adcSteps`, regenerated) -/
def adcFromSteps [Add K] [Mul K] [Zero K] [One K] [LT K] [DecidableLT K] (floor : K → Int) (cap : Option K) (g : List K) (x : K) :
    Option (Sum K Int) :=
  (Gen.adcSteps.map (·.1)).foldlM (fun v name => adcStep floor cap g name v) (.inl x)

/-- the four ways `gain` can be given -/
inductive Gain (K : Type) where
  | scalar (g : K)                         -- ndim 0
  | poly (g : List K)                      -- ndim 1
  | perPixel (g : Int → Int → K)           -- ndim 2
  | perPixelPoly (n : Nat) (g : Nat → Int → Int → K)   -- ndim 3, `g d i j`, `d < n`

/-- coefficient list (highest power first) that applies at pixel `(i, j)` -/
def Gain.at : Gain K → Int → Int → List K
  | .scalar g, _, _ => [g]
  | .poly g, _, _ => g
  | .perPixel g, i, j => [g i j]
  | .perPixelPoly n g, i, j => (List.range n).map fun d => g d i j

/-- `gain.ndim` of the four forms -/
def Gain.ndim : Gain K → Nat
  | .scalar _ => 0
  | .poly _ => 1
  | .perPixel _ => 2
  | .perPixelPoly _ _ => 3

/-- `np.einsum(subscripts, img_cube, gain)` at one pixel for the three subscript strings `adc` uses (`none`: any other string):
`cube d` the power cube at this pixel, `g d` the `d`-th gain coefficient that applies here, `g0` the per-pixel scalar gain -/
def einsumAt [Add K] [Mul K] [Zero K] (sub : String) (n : Nat) (cube g : Nat → K) (g0 : K) : Option K :=
  if sub = "ijk,i->jk" then some (sumRange n fun d => cube d * g d)
  else if sub = "ijk,jk->jk" then some (sumRange n fun d => cube d * g0)
  else if sub = "ijk,ijk->jk" then some (sumRange n fun d => cube d * g d)
  else none

/-- the gain step of `adc` **wired as the source wires it** (regenerated tables of tools/specs/c16.py): the polynomial order from
`Gen.adcOrderSource[gain.ndim]`, the power cube from `Gen.adcCubeExponent`, the contraction from `Gen.adcEinsum[ndim]` (a 0-d gain
is given a new axis and runs as 1-D) -/
def gainFromSource [Add K] [Mul K] [Zero K] [One K] (gain : Gain K) (x : K) (i j : Int) : Option K :=
  let co := gain.at i j
  match Gen.adcOrderSource.lookup gain.ndim with
  | none => none
  | some src =>
    let n : Nat := if src = "gain.shape[0]" then co.length else if src = "1" then 1 else 0
    let cube : Nat → K := fun d => npow x (Gen.adcCubeExponent n d).toNat
    match Gen.adcEinsum.lookup (if gain.ndim = 0 then 1 else gain.ndim) with
    | none => none
    | some sub => einsumAt sub n cube (fun d => co.getD d 0) (co.getD 0 0)

/-- `adc(img, gain, saturation_capacity)` at pixel `(i, j)` -/
def adcFrame [Add K] [Mul K] [Zero K] [One K] [LT K] [DecidableLT K] (floor : K → Int) (cap : Option K) (gain : Gain K)
    (img : Int → Int → K) (i j : Int) : Int :=
  adcValue floor cap (gain.at i j) (img i j)

/-- all in-shape indices, row-major -/
def idx (s0 s1 : Int) : List (Int × Int) :=
  (List.range s0.toNat).flatMap fun (i : Nat) => (List.range s1.toNat).map fun (j : Nat) => ((i : Int), (j : Int))

/-- does `adc` emit the saturation warning? (`warn_saturate and saturation_capacity and np.any(img > saturation_capacity)`) -/
def adcWarns [LT K] [DecidableLT K] (warn : Bool) (cap : Option K) (img : Img K) : Bool :=
  match cap with
  | none => false
  | some c => warn && (idx img.s0 img.s1).any fun p => decide (c < img.get p.1 p.2)

end Lentil.Det
