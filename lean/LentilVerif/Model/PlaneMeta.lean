import LentilVerif.Model.Plane
import LentilVerif.Gen.PlanePx
import LentilVerif.Gen.PlaneHandover
/-! `Plane.multiply` / `Pupil.multiply` at the level of the whole `Wavefront` (metadata hand-over), on top of the data
model of `Model/Plane.lean`. `_mul_pixelscale` is the *generated* definition (`Gen/PlanePx.lean`, four None-patterns).
The plane-type check (`_can_mul_ptype`) belongs to C08 and is not modelled here. Mathlib-free. -/
namespace Lentil

/-- the observable state of a `Wavefront`: `M` is the type of wavelength / focal length -/
structure Wf (K M : Type) where
  wavelength : M
  focal : M
  pixelscale : Option (Int × Int)
  /-- `()` is `none` -/
  shape : Option (Int × Int)
  data : List (Fld K)

/-- `lentil.plane._mul_pixelscale(a, b)`; `Except.error` is the raised exception's class -/
def mulPixelscale (a b : Option (Int × Int)) : Except String (Option (Int × Int)) :=
  match a, b with
  | none, none => Gen.mulPixelscaleNN.map fun _ => none
  | none, some b => (Gen.mulPixelscaleNP b.1 b.2).map some
  | some a, none => (Gen.mulPixelscalePN a.1 a.2).map some
  | some a, some b => (Gen.mulPixelscalePP a.1 a.2 b.1 b.2).map some

variable {K R M : Type}

/-- what the model needs of the type of focal lengths: Python truthiness (`None` and `0` are falsy) and `np.inf` -/
class FocalLike (M : Type) where
  truthy : M → Bool
  inf : M

/-- a `Wf` from the generated hand-over record (plane types are C08's: `Unit` here) and the data -/
def Wf.ofHandover (h : Gen.WfHandover M (Option (Int × Int)) (Option (Int × Int)) Unit) (data : List (Fld K)) : Wf K M :=
  { wavelength := h.wavelength, focal := h.focal_length, pixelscale := h.pixelscale, shape := h.shape, data := data }

def Wf.handover (w : Wf K M) : Gen.WfHandover M (Option (Int × Int)) (Option (Int × Int)) Unit :=
  { wavelength := w.wavelength, focal_length := w.focal, pixelscale := w.pixelscale, shape := w.shape, ptype := () }

/-- `Plane.multiply(wavefront)`; `phOf wavelength opd` stands for `exp(2 pi i opd / wavelength)`. Which attribute of which
operand goes where is the *generated* `Gen.planeMultiplyHandover` / `planeMultiplyPixelscaleArgs` / `planeMultiplyShape`
(read off `Plane.multiply`'s `lentil.Wavefront.empty(...)` call on every run). -/
def planeMultiplyW [Zero K] [Mul K] [FocalLike M] (phOf : M → R → K) (p : PlaneM K R) (ppx : Option (Int × Int)) (w : Wf K M) :
    Except String (Wf K M) :=
  let args := Gen.planeMultiplyPixelscaleArgs ppx w.pixelscale
  (mulPixelscale args.1 args.2).map fun px =>
    -- `Wavefront.empty(...)` builds the new wavefront through `Wavefront.__init__`, whose (generated) normalisation of the
    -- focal length replaces a falsy value by `np.inf`
    let h := Gen.planeMultiplyHandover w.wavelength px w.focal (Gen.planeMultiplyShape p.shape w.shape) ()
    Wf.ofHandover { h with focal_length := Gen.wavefrontInitFocal FocalLike.truthy FocalLike.inf h.focal_length }
      (planeMultiply (phOf w.wavelength) p w.data)

/-- `Pupil.multiply(wavefront)`: as `Plane.multiply`, then the generated `Gen.pupilMultiplyHandover` (the wavefront takes the
pupil's focal length) -/
def pupilMultiplyW [Zero K] [Mul K] [FocalLike M] (phOf : M → R → K) (p : PlaneM K R) (ppx : Option (Int × Int)) (fl : M) (w : Wf K M) :
    Except String (Wf K M) :=
  (planeMultiplyW phOf p ppx w).map fun w' => Wf.ofHandover (Gen.pupilMultiplyHandover w'.handover fl) w'.data

/-- `Image.multiply(wavefront)`: as `Plane.multiply`, then the generated `Gen.imageMultiplyHandover` (only the plane type is
set; plane types themselves are C08's and are not carried by `Wf`) -/
def imageMultiplyW [Zero K] [Mul K] [FocalLike M] (phOf : M → R → K) (p : PlaneM K R) (ppx : Option (Int × Int)) (w : Wf K M) :
    Except String (Wf K M) :=
  (planeMultiplyW phOf p ppx w).map fun w' => Wf.ofHandover (Gen.imageMultiplyHandover w'.handover ()) w'.data

/-- one step of a chain at wavefront level: a `Plane`, a `Pupil` (with its focal length) or an `Image`, each with its pixel scale -/
inductive WStep (K R M : Type) where
  | plane (p : PlaneM K R) (px : Option (Int × Int))
  | pupil (p : PlaneM K R) (px : Option (Int × Int)) (fl : M)
  | image (p : PlaneM K R) (px : Option (Int × Int))

def WStep.planeM : WStep K R M → PlaneM K R
  | .plane p _ => p
  | .pupil p _ _ => p
  | .image p _ => p

def WStep.apply [Zero K] [Mul K] [FocalLike M] (phOf : M → R → K) (s : WStep K R M) (w : Wf K M) : Except String (Wf K M) :=
  match s with
  | .plane p px => planeMultiplyW phOf p px w
  | .pupil p px fl => pupilMultiplyW phOf p px fl w
  | .image p px => imageMultiplyW phOf p px w

/-- `w * s1 * s2 * …`: the chain stops at the first refusal -/
def runW [Zero K] [Mul K] [FocalLike M] (phOf : M → R → K) : List (WStep K R M) → Wf K M → Except String (Wf K M)
  | [], w => .ok w
  | s :: r, w => match s.apply phOf w with
    | .ok w' => runW phOf r w'
    | .error e => .error e

/-- `Wavefront(wavelength, ...)`: one one-element field of value 1 at offset (0, 0), shape `()` -/
def Wf.init [Zero K] (one : K) (wavelength focal : M) (px : Option (Int × Int)) : Wf K M :=
  { wavelength := wavelength, focal := focal, pixelscale := px, shape := none,
    data := [{ arr := { s0 := 1, s1 := 1, get := fun _ _ => one }, o0 := 0, o1 := 0 }] }

end Lentil
