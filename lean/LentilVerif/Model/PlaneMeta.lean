import LentilVerif.Model.Plane
import LentilVerif.Gen.PlanePx
/-! `Plane.multiply` / `Pupil.multiply` at the level of the whole `Wavefront` (metadata hand-over), on top of the data
model of `Model/Plane.lean`. `_mul_pixelscale` is the *generated* definition (`Gen/PlanePx.lean`, four None-patterns).
The plane-type check (`_can_mul_ptype`) belongs to C08 and is not modelled here. Mathlib-free. -/
namespace Lentil

/-- the observable state of a `Wavefront`: `M` is the type of wavelength / focal length -/
structure Wf (K M : Type) where
  wavelength : M
  focal : M
  pixelscale : Option (Int × Int)
  /-- `()` is `none` -/
  shape : Option (Int × Int)
  data : List (Fld K)

/-- `lentil.plane._mul_pixelscale(a, b)`; `Except.error` is the raised exception's class -/
def mulPixelscale (a b : Option (Int × Int)) : Except String (Option (Int × Int)) :=
  match a, b with
  | none, none => Gen.mulPixelscaleNN.map fun _ => none
  | none, some b => (Gen.mulPixelscaleNP b.1 b.2).map some
  | some a, none => (Gen.mulPixelscalePN a.1 a.2).map some
  | some a, some b => (Gen.mulPixelscalePP a.1 a.2 b.1 b.2).map some

variable {K R M : Type}

/-- `Plane.multiply(wavefront)`; `phOf wavelength opd` stands for `exp(2 pi i opd / wavelength)` -/
def planeMultiplyW [Zero K] [Mul K] (phOf : M → R → K) (p : PlaneM K R) (ppx : Option (Int × Int)) (w : Wf K M) :
    Except String (Wf K M) :=
  (mulPixelscale ppx w.pixelscale).map fun px =>
    { wavelength := w.wavelength
      focal := w.focal
      pixelscale := px
      shape := match p.shape with | none => w.shape | some s => some s
      data := planeMultiply (phOf w.wavelength) p w.data }

/-- `Pupil.multiply(wavefront)`: as `Plane.multiply`, then the wavefront takes the pupil's focal length -/
def pupilMultiplyW [Zero K] [Mul K] (phOf : M → R → K) (p : PlaneM K R) (ppx : Option (Int × Int)) (fl : M) (w : Wf K M) :
    Except String (Wf K M) :=
  (planeMultiplyW phOf p ppx w).map fun w' => { w' with focal := fl }

/-- `Wavefront(wavelength, ...)`: one one-element field of value 1 at offset (0, 0), shape `()` -/
def Wf.init [Zero K] (one : K) (wavelength focal : M) (px : Option (Int × Int)) : Wf K M :=
  { wavelength := wavelength, focal := focal, pixelscale := px, shape := none,
    data := [{ arr := { s0 := 1, s1 := 1, get := fun _ _ => one }, o0 := 0, o1 := 0 }] }

end Lentil
