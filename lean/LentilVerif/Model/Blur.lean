import LentilVerif.Model.Energy
import LentilVerif.Gen.BlurWiring
/-! Executable model of the Fourier-domain blurs (C19): `detector.pixel`, `convolvable.jitter`, `convolvable.smear`.
`out = |ifft2(fft2(img) · kernel)|` with the kernel built from the index map of `np.fft.fftfreq` (rows ↔ f_y, columns ↔
f_x); jitter and smear renormalise to the input total unless the blurred frame has zero total (guard regenerated from the source). `np.fft.fft2/ifft2` are contracts: the plain DFT pair with origin
at index 0, written with the shared `dft2` (offset `⌊n/2⌋`, shift `-⌊n/2⌋` cancel the centring). Generic; Mathlib-free. -/
namespace Lentil

/-- transcendental real functions the blur kernels need -/
class BlurLike (R : Type) where
  /-- `np.sinc`: `sin(πx)/(πx)`, `1` at `0` -/
  sinc : R → R
  exp : R → R
  sin : R → R
  cos : R → R
  pi : R
  /-- the test `x == 0` of the zero-total guard -/
  isZero : R → Bool

/-- `|z|` of a complex value (`np.abs`) -/
class AbsLike (K : Type) (R : Type) where
  cabs : K → R

/-- `np.fft.fftfreq(n)[i] · n`: `0, 1, …, ⌈n/2⌉-1, -⌊n/2⌋, …, -1` (documented index map; contract) -/
def fftfreqIdx (n i : Int) : Int := if i < (n + 1) / 2 then i else i - n

/-- evaluate an array once into a table (NumPy materialises every intermediate array); identical to the array at every
index (`Lemmas/Blur.force_get`). Only here so that the executable model does not recompute lazily defined entries. -/
def Arr.force {A : Type} (a : Arr A) : Arr A :=
  let tbl : Array A := ((List.range (a.s0 * a.s1).toNat).map fun k => a.get (Int.ofNat k / a.s1) (Int.ofNat k % a.s1)).toArray
  { a with get := fun i j =>
      if 0 ≤ i ∧ i < a.s0 ∧ 0 ≤ j ∧ j < a.s1 then tbl.getD (i * a.s1 + j).toNat (a.get i j) else a.get i j }

variable {K R : Type} [Add R] [Sub R] [Mul R] [Neg R] [Div R] [Zero R] [RealLike R] [BlurLike R]
  [Add K] [Mul K] [Zero K] [CxLike K R] [AbsLike K R]

/-- `np.fft.fftfreq(n)[i]` -/
def fftfreq (n i : Int) : R := RealLike.ofInt (fftfreqIdx n i) / RealLike.ofInt n

/-- `detector.pixel`'s transfer function. Shape and entries are the definitions regenerated from the source
(`Gen.bwPixelKernel`: `np.dot(mtf_y[:, newaxis], mtf_x[newaxis, :])`, `mtf = sinc(fftfreq(img.shape[k])·oversample)`) -/
def pixelKernel (s0 s1 : Int) (os : R) : Arr R :=
  { s0 := (Gen.bwPixelKernelShape s0 s1).1, s1 := (Gen.bwPixelKernelShape s0 s1).2,
    get := Gen.bwPixelKernel BlurLike.sinc BlurLike.exp RealLike.sqrt BlurLike.sin BlurLike.cos BlurLike.pi RealLike.ofInt
      fftfreq s0 s1 os }

/-- `convolvable.jitter`'s transfer function `exp(-2 (π · (scale/pixelscale) · oversample · ρ)²)`, regenerated from the source -/
def jitterKernel (s0 s1 : Int) (scale pixelscale os : R) : Arr R :=
  { s0 := (Gen.bwJitterKernelShape s0 s1).1, s1 := (Gen.bwJitterKernelShape s0 s1).2,
    get := Gen.bwJitterKernel BlurLike.sinc BlurLike.exp RealLike.sqrt BlurLike.sin BlurLike.cos BlurLike.pi RealLike.ofInt
      fftfreq s0 s1 scale pixelscale os }

/-- `convolvable.smear`'s transfer function `sinc((sin a · f_y + cos a · f_x) · (distance/pixelscale) · oversample)`,
`a = radians(angle)`, regenerated from the source -/
def smearKernel (s0 s1 : Int) (distance angleDeg pixelscale os : R) : Arr R :=
  { s0 := (Gen.bwSmearKernelShape s0 s1).1, s1 := (Gen.bwSmearKernelShape s0 s1).2,
    get := Gen.bwSmearKernel BlurLike.sinc BlurLike.exp RealLike.sqrt BlurLike.sin BlurLike.cos BlurLike.pi RealLike.ofInt
      fftfreq s0 s1 distance angleDeg pixelscale os }

/-- `np.fft.fft2(x)` (contract): plain DFT, origin at index 0, no normalisation -/
def fft2 (x : Arr K) : Arr K :=
  dft2 x (RealLike.ofInt 1 / RealLike.ofInt x.s0 : R) (RealLike.ofInt 1 / RealLike.ofInt x.s1 : R) x.s0 x.s1
    (-(RealLike.ofInt (x.s0 / 2)) : R) (-(RealLike.ofInt (x.s1 / 2)) : R) (x.s0 / 2) (x.s1 / 2) false

/-- `np.fft.ifft2(X)` (contract): `conj(fft2(conj X)) / (s0·s1)` -/
def ifft2 (X : Arr K) : Arr K :=
  let Xc : Arr K := { X with get := fun i j => CxLike.conj (R := R) (X.get i j) }
  let G := fft2 (R := R) Xc
  { G with get := fun i j => CxLike.divInt (R := R) (CxLike.conj (R := R) (G.get i j)) (X.s0 * X.s1) }

/-- real image as a complex array -/
def toCx (img : Arr R) : Arr K := { s0 := img.s0, s1 := img.s1, get := fun i j => CxLike.ofReal (img.get i j) }

/-- `X * kernel` (pointwise, real kernel) -/
def mulKernel (X : Arr K) (k : Arr R) : Arr K := { X with get := fun i j => X.get i j * CxLike.ofReal (k.get i j) }

/-- `np.abs` pointwise -/
def absArr (X : Arr K) : Arr R := { s0 := X.s0, s1 := X.s1, get := fun i j => AbsLike.cabs (X.get i j) }

/-- `np.abs(np.fft.ifft2(np.fft.fft2(img) * kernel))`, every intermediate array materialised once -/
def blurCore (K : Type) [Add K] [Mul K] [Zero K] [CxLike K R] [AbsLike K R] (img k : Arr R) : Arr R :=
  (absArr (ifft2 (R := R) (mulKernel (fft2 (R := R) (toCx (K := K) img)).force k).force)).force

/-- `out * np.sum(img) / np.sum(out)` -/
def renorm (img out : Arr R) : Arr R :=
  let S := arrSum img
  let T := arrSum out
  { out with get := fun i j => out.get i j * S / T }

/-- the renormalisation with the expression regenerated from a function's `return` statement -/
def renormWith (e : R → R → R → R) (img out : Arr R) : Arr R :=
  let S := arrSum img
  let T := arrSum out
  { out with get := fun i j => e (out.get i j) S T }

/-- the closing statements of `jitter` / `smear` as regenerated: when the source guards the rescaling with
`if np.sum(out) == 0: return out` (`guard`) and the blurred frame has zero total, it is returned as it is; otherwise it is
rescaled by the regenerated expression -/
def renormGuarded (guard : Bool) (e : R → R → R → R) (img out : Arr R) : Arr R :=
  if guard && BlurLike.isZero (arrSum out) then out else renormWith e img out

section stages
variable (K : Type) [Add K] [Mul K] [Zero K] [CxLike K R] [AbsLike K R]
/-- the four stages the sources compose (each materialised once): `np.abs`, `np.fft.ifft2`, `np.fft.fft2` of the real image, `· * kernel` -/
def stAbs (Y : Arr K) : Arr R := (absArr Y).force
def stIfft2 (X : Arr K) : Arr K := ifft2 (R := R) X
def stFft2 (img : Arr R) : Arr K := (fft2 (R := R) (toCx (K := K) img)).force
def stMul (X : Arr K) (k : Arr R) : Arr K := (mulKernel X k).force
end stages

/-- `lentil.detector.pixel(img, oversample)`: kernel, composition and (absent) renormalisation as regenerated from the source -/
def pixel (K : Type) [Add K] [Mul K] [Zero K] [CxLike K R] [AbsLike K R] (img : Arr R) (os : R) : Arr R :=
  let out := Gen.bwPixelApply (stAbs (R := R) K) (stIfft2 (R := R) K) (stFft2 (R := R) K) (stMul (R := R) K) img (pixelKernel img.s0 img.s1 os)
  if Gen.bwPixelRenorm then renormGuarded Gen.bwPixelRenormGuard Gen.bwPixelRenormExpr img out else out

/-- `lentil.convolvable.jitter(img, scale, pixelscale, oversample)` -/
def jitter (K : Type) [Add K] [Mul K] [Zero K] [CxLike K R] [AbsLike K R] (img : Arr R) (scale pixelscale os : R) : Arr R :=
  let out := Gen.bwJitterApply (stAbs (R := R) K) (stIfft2 (R := R) K) (stFft2 (R := R) K) (stMul (R := R) K) img (jitterKernel img.s0 img.s1 scale pixelscale os)
  if Gen.bwJitterRenorm then renormGuarded Gen.bwJitterRenormGuard Gen.bwJitterRenormExpr img out else out

/-- `lentil.convolvable.smear(img, distance, angle, pixelscale, oversample)` (angle in degrees, given) -/
def smear (K : Type) [Add K] [Mul K] [Zero K] [CxLike K R] [AbsLike K R] (img : Arr R) (distance angleDeg pixelscale os : R) :
    Arr R :=
  let out := Gen.bwSmearApply (stAbs (R := R) K) (stIfft2 (R := R) K) (stFft2 (R := R) K) (stMul (R := R) K) img (smearKernel img.s0 img.s1 distance angleDeg pixelscale os)
  if Gen.bwSmearRenorm then renormGuarded Gen.bwSmearRenormGuard Gen.bwSmearRenormExpr img out else out

/-- the calls that leave `pixelscale` / `oversample` out — "the extent expressed in samples": the omitted arguments take the defaults
regenerated from the signatures (`Gen.bw…Default…`) -/
def pixelDefault (K : Type) [Add K] [Mul K] [Zero K] [CxLike K R] [AbsLike K R] (img : Arr R) : Arr R :=
  pixel K img (RealLike.ofInt Gen.bwPixelDefaultOversample)
def jitterDefault (K : Type) [Add K] [Mul K] [Zero K] [CxLike K R] [AbsLike K R] (img : Arr R) (scale : R) : Arr R :=
  jitter K img scale (RealLike.ofInt Gen.bwJitterDefaultPixelscale) (RealLike.ofInt Gen.bwJitterDefaultOversample)
def smearDefault (K : Type) [Add K] [Mul K] [Zero K] [CxLike K R] [AbsLike K R] (img : Arr R) (distance angleDeg : R) : Arr R :=
  smear K img distance angleDeg (RealLike.ofInt Gen.bwSmearDefaultPixelscale) (RealLike.ofInt Gen.bwSmearDefaultOversample)

/-- `smear(img, distance, angle=None, …)`: the direction is one `uniform(0, 2π)` draw `u ∈ [0, 1)` of NumPy's global generator; kernel
as regenerated from the `angle is None` branch -/
def smearKernelNone (s0 s1 : Int) (distance pixelscale os u : R) : Arr R :=
  { s0 := (Gen.bwSmearKernelShape s0 s1).1, s1 := (Gen.bwSmearKernelShape s0 s1).2,
    get := Gen.bwSmearKernelNone BlurLike.sinc BlurLike.exp RealLike.sqrt BlurLike.sin BlurLike.cos BlurLike.pi RealLike.ofInt
      fftfreq s0 s1 distance pixelscale os u }
def smearNone (K : Type) [Add K] [Mul K] [Zero K] [CxLike K R] [AbsLike K R] (img : Arr R) (distance pixelscale os u : R) : Arr R :=
  let out := Gen.bwSmearApply (stAbs (R := R) K) (stIfft2 (R := R) K) (stFft2 (R := R) K) (stMul (R := R) K) img (smearKernelNone img.s0 img.s1 distance pixelscale os u)
  if Gen.bwSmearRenorm then renormGuarded Gen.bwSmearRenormGuard Gen.bwSmearRenormExpr img out else out

/-- `detector.pixelate(img, oversample)`: output shape of `rescale(pixel(img, os), scale)` = `ceil(n · scale)` per axis, the scale as
regenerated from the call (`1/oversample`); the interpolation itself (`scipy.ndimage.map_coordinates`, order 3) is not modelled -/
def pixelateShape (ceil : R → Int) (s0 s1 : Int) (os : R) : Int × Int :=
  (ceil (RealLike.ofInt s0 * Gen.bwPixelateScale RealLike.ofInt os), ceil (RealLike.ofInt s1 * Gen.bwPixelateScale RealLike.ofInt os))

/-- `np.roll(img, (a, b), axis=(0, 1))`: `out[i, j] = img[(i - a) mod s0, (j - b) mod s1]` -/
def roll {A : Type} (img : Arr A) (a b : Int) : Arr A :=
  { img with get := fun i j => img.get ((i - a) % img.s0) ((j - b) % img.s1) }

end Lentil
