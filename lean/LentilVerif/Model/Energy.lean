import LentilVerif.Model.Fourier
import LentilVerif.Gen.NormalizePower
/-! Executable model of the energy bookkeeping of propagation (C05): intensity `|F|²`, the evaluated window of
`propagate_dft` for untilted fields, the FFT path `fftshift ∘ fft2(norm='ortho') ∘ ifftshift` of `propagate_fft`
(with the NumPy index maps as contracts) and `util.normalize_power`. Generic in the value type; Mathlib-free. -/
namespace Lentil

/-- `|z|²` -/
class NormSqLike (K : Type) (R : Type) where
  normSq : K → R

variable {K R : Type} [Add R] [Sub R] [Mul R] [Neg R] [Div R] [Zero R] [RealLike R]
  [Add K] [Mul K] [Zero K] [CxLike K R] [NormSqLike K R]

/-- pointwise `|F|²` (`np.abs(field.data**2)` in `field.insert(…, intensity=True)`) -/
def intensity (F : Arr K) : Arr R := { s0 := F.s0, s1 := F.s1, get := fun i j => NormSqLike.normSq (F.get i j) }

/-- `np.sum` of a 2-D array -/
def arrSum {A : Type} [Add A] [Zero A] (a : Arr A) : A :=
  sumRange a.s0.toNat fun i => sumRange a.s1.toNat fun j => a.get i j

/-- `lentil.util.normalize_power(array, power)`: `array * factor`, the factor being the expression regenerated from the source
(`Gen.npFactor`: `sqrt(power / sum(|array|²))`) -/
def normalizePower (a : Arr K) (p : R) : Arr K :=
  { a with get := fun i j => a.get i j * CxLike.ofReal (Gen.npFactor RealLike.sqrt RealLike.ofInt p (arrSum (intensity (R := R) a))) }

/-- the field `propagate_dft` evaluates on a window of `M × N` output samples whose first sample has integer frequency
coordinate `(U0, V0)` (output index minus `⌊shape_out/2⌋`), for a list of untilted fields: each field is transformed by
`dft2(data, α, shape=(M,N), shift, offset=field.offset, unitary=True)` with the shift that puts coordinate `U0 + u` at
window index `u`; coincident output fields are merged (summed) by `Wavefront.intensity`'s `reduce`. -/
def propagateWindow (fs : List (Fld K)) (αr αc : R) (M N U0 V0 : Int) : Arr K :=
  { s0 := M, s1 := N,
    get := fun u v => sumList fs fun f =>
      (dft2 f.arr αr αc M N (-(RealLike.ofInt (U0 + M / 2))) (-(RealLike.ofInt (V0 + N / 2))) f.o0 f.o1 true).get u v }

/-- `np.fft.ifftshift(x)[i] = x[(i + ⌊n/2⌋) mod n]` (documented index map; contract) -/
def ifftshiftIdxE (n i : Int) : Int := (i + n / 2) % n
/-- `np.fft.fftshift(x)[i] = x[(i - ⌊n/2⌋) mod n]` (documented index map; contract) -/
def fftshiftIdxE (n i : Int) : Int := (i + (n - n / 2)) % n

/-- `np.fft.fft2(x, norm='ortho')` (contract): the unitary DFT with both origins at index 0, i.e. `dft2` with
`α = 1/n`, offset `⌊n/2⌋` and shift `-⌊n/2⌋` cancelling the centring of the coordinates -/
def fft2ortho (x : Arr K) : Arr K :=
  dft2 x (RealLike.ofInt 1 / RealLike.ofInt x.s0 : R) (RealLike.ofInt 1 / RealLike.ofInt x.s1 : R) x.s0 x.s1
    (-(RealLike.ofInt (x.s0 / 2)) : R) (-(RealLike.ofInt (x.s1 / 2)) : R) (x.s0 / 2) (x.s1 / 2) true

/-- `propagate._fft2(x) = fftshift(fft2(ifftshift(x), norm='ortho'))` -/
def fftPath (x : Arr K) : Arr K :=
  let xs : Arr K := { x with get := fun i j => x.get (ifftshiftIdxE x.s0 i) (ifftshiftIdxE x.s1 j) }
  let X := fft2ortho (R := R) xs
  { X with get := fun k l => X.get (fftshiftIdxE x.s0 k) (fftshiftIdxE x.s1 l) }

/-- the sum of the fields' embeddings on an `S0 × S1` array with the origin at index `⌊S/2⌋`
(`lentil.pad(wavefront.field, fft_shape)`) -/
def embedAll (fs : List (Fld K)) (S0 S1 : Int) : Arr K :=
  { s0 := S0, s1 := S1, get := fun i j => sumList fs fun f => f.emb (i - S0 / 2) (j - S1 / 2) }

end Lentil
