import LentilVerif.Model.Fourier
import LentilVerif.Gen.NormalizePower
/-! Executable model of the energy bookkeeping of propagation (C05): intensity `|F|²`, `np.sum`, `util.normalize_power` (factor
regenerated; run by the driver op `c05.normalize`) and the reference "input power" of the theorems (`embedAll`: the wavefront's
total field on its canvas). The propagators themselves are the C02 (`propagateField`, window kernel regenerated) and C09
(`propagateFft`) models, run by their driver ops. Generic in the value type; Mathlib-free. -/
namespace Lentil

/-- `|z|²` -/
class NormSqLike (K : Type) (R : Type) where
  normSq : K → R

variable {K R : Type} [Add R] [Sub R] [Mul R] [Neg R] [Div R] [Zero R] [RealLike R]
  [Add K] [Mul K] [Zero K] [CxLike K R] [NormSqLike K R]

/-- pointwise `|F|²` (`np.abs(field.data**2)` in `field.insert(…, intensity=True)`) -/
def intensity (F : Arr K) : Arr R := { s0 := F.s0, s1 := F.s1, get := fun i j => NormSqLike.normSq (F.get i j) }

/-- `np.sum` of a 2-D array -/
def arrSum {A : Type} [Add A] [Zero A] (a : Arr A) : A :=
  sumRange a.s0.toNat fun i => sumRange a.s1.toNat fun j => a.get i j

/-- `lentil.util.normalize_power(array, power)`: `array * factor`, the factor being the expression regenerated from the source
(`Gen.npFactor`: `sqrt(power / sum(|array|²))`) -/
def normalizePower (a : Arr K) (p : R) : Arr K :=
  { a with get := fun i j => a.get i j * CxLike.ofReal (Gen.npFactor RealLike.sqrt RealLike.ofInt p (arrSum (intensity (R := R) a))) }

/-- `normalize_power(array)`: the call that omits `power` takes the default regenerated from the signature (`Gen.npDefaultPower`) -/
def normalizePowerDefault (a : Arr K) : Arr K := normalizePower a (RealLike.ofInt (R := R) Gen.npDefaultPower)

/-- the sum of the fields' embeddings on an `S0 × S1` array with the origin at index `⌊S/2⌋`
(`lentil.pad(wavefront.field, fft_shape)`) -/
def embedAll (fs : List (Fld K)) (S0 S1 : Int) : Arr K :=
  { s0 := S0, s1 := S1, get := fun i j => sumList fs fun f => f.emb (i - S0 / 2) (j - S1 / 2) }

end Lentil
