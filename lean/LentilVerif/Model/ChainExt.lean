import LentilVerif.Model.Plane
/-! Extents of the fields a chain of planes produces, computed from the planes' bounding slices alone (`ExtOK`, the input-level
hypothesis of the C03 end-to-end theorems), with a Boolean version the driver evaluates so that the harness' own scope test
cannot drift away from the theorems' hypothesis. Mathlib-free. -/
namespace Lentil
variable {K R : Type}

def Extent.valid (e : Extent) : Prop := e.rmin ≤ e.rmax ∧ e.cmin ≤ e.cmax
/-- the extent is a single pixel -/
def Extent.onePx (e : Extent) : Prop := e.rmin = e.rmax ∧ e.cmin = e.cmax

/-- extent of the product of two array fields (`none`: they do not overlap, the product is dropped) -/
def mulExtent (e q : Extent) : Option Extent := if intersect e q then some (intersectionExtent e q) else none

/-- extents after one plane whose phasors occupy `qs`, for incoming extents `es` (loop order of `Plane.multiply`) -/
def stepExtents (qs es : List Extent) : List Extent := es.flatMap fun e => qs.filterMap fun q => mulExtent e q

/-- no one-pixel extent ever arises along the chain; `Q` = the planes' phasor boxes, `es` = the incoming extents -/
def ExtOK : List (List Extent) → List Extent → Prop
  | [], _ => True
  | qs :: rest, es => (∀ e ∈ stepExtents qs es, ¬ e.onePx) ∧ ExtOK rest (stepExtents qs es)


/-- the box a segment's phasor occupies on the infinite plane: its bounding slice shifted by the plane's centre -/
def segBox (S0 S1 : Int) (g : Seg) : Extent := ⟨g.s.r0 - S0 / 2, g.s.r1 - 1 - S0 / 2, g.s.c0 - S1 / 2, g.s.c1 - 1 - S1 / 2⟩

/-- the phasor boxes of an array-mask plane — a function of the bounding slices and the shape only -/
def PlaneM.boxes (p : PlaneM K R) : List Extent :=
  match p.mask with
  | .scalar _ => []
  | .segs S0 S1 l => l.map (segBox S0 S1)


/-- Boolean `onePx` -/
def Extent.onePxb (e : Extent) : Bool := decide (e.rmin = e.rmax) && decide (e.cmin = e.cmax)

/-- Boolean `ExtOK` -/
def extOKb : List (List Extent) → List Extent → Bool
  | [], _ => true
  | qs :: rest, es => (stepExtents qs es).all (fun e => !e.onePxb) && extOKb rest (stepExtents qs es)

/-- the input-level scope test for a chain on the fresh wavefront: no box of the first plane and no intersection of boxes
along the chain is a single pixel -/
def freshExtOKb (boxes : List (List Extent)) : Bool :=
  match boxes with
  | [] => true
  | q :: rest => q.all (fun e => !e.onePxb) && extOKb rest q

end Lentil
