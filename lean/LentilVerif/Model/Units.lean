import LentilVerif.Gen.Units
import LentilVerif.Model.Spectrum
/-! C14 — `Spectrum.to`, Planck's law. The factor tables `Gen.waveTo`, `Gen.fluxTo` are regenerated from
`lentil/radiometry.py` on every run. Mathlib-free. -/
namespace Lentil.Units
open Gen Lentil.Spec

/-- a spectrum with its units (`valueunit = none` is the unitless case of lentil) -/
structure USpec where
  wave : List Rat
  value : List Rat
  wu : WUnit
  vu : Option FUnit
deriving DecidableEq, Repr

/-- `Spectrum.to(u)` for a wavelength unit: a per-wavelength density (`photlam/flam/wlam`) has its values divided by
the factor its wavelengths are multiplied by; a unitless value is kept -/
def toWave (u : WUnit) (s : USpec) : USpec :=
  let k : Rat := waveTo s.wu u
  match s.vu with
  | some f => { wave := s.wave.map (· * k), value := s.value.map (· / k), wu := u, vu := some f }
  | none => { wave := s.wave.map (· * k), value := s.value, wu := u, vu := none }

/-- `Spectrum.to(g)` for a flux unit: conversion is done with the wavelength in metres and the density per metre,
then brought back to the spectrum's wavelength unit; TypeError for a unitless spectrum -/
def toFlux (g : FUnit) (H C : Rat) (s : USpec) : Option USpec :=
  match s.vu with
  | none => none
  | some f =>
    let km : Rat := waveTo s.wu .m
    let back : Rat := waveTo .m s.wu
    some { wave := s.wave,
           value := List.zipWith (fun v w => fluxTo f g (v / km) (w * km) H C / back) s.value s.wave,
           wu := s.wu, vu := some g }

/-- `planck_radiance` (`two_or_2pi = 2`) / `planck_exitance` (`two_or_2pi = 2π`) with `exp` an uninterpreted function;
`wave` in unit `wu`, result in `vu` per `wu` -/
def planck {K : Type} [NatCast K] [Mul K] [Div K] [Add K] [Sub K] (expf : K → K) (pref : K) (H C kB : K)
    (wave temp : K) (wu : WUnit) (vu : FUnit) : K :=
  let wm := wave * waveTo wu .m
  let flux := pref * H * (C * C) / ((wm * wm * wm * wm * wm) * (expf (H * C / (wm * kB * temp)) - ((1 : Nat) : K)))
  match vu with
  | .wlam => flux / waveTo .m wu
  | v => fluxTo .wlam v flux wm H C / waveTo .m wu

end Lentil.Units
