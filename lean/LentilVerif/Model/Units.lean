import LentilVerif.Gen.Units
import LentilVerif.Model.Spectrum
/-! C14 — `Spectrum.to`, Planck's law. The factor tables `Gen.waveTo`, `Gen.fluxTo` are regenerated from
`lentil/radiometry.py` on every run. Mathlib-free. -/
namespace Lentil.Units
open Gen Lentil.Spec

/-- a spectrum with its units (`valueunit = none` is the unitless case of lentil) -/
structure USpec where
  wave : List Rat
  value : List Rat
  wu : WUnit
  vu : Option FUnit
deriving DecidableEq, Repr

/-- `Spectrum.to(u)` for a wavelength unit: a per-wavelength density (`photlam/flam/wlam`) has its values divided by
the factor its wavelengths are multiplied by; a unitless value is kept -/
def toWave (u : WUnit) (s : USpec) : USpec :=
  let k : Rat := waveTo s.wu u
  match s.vu with
  | some f => { wave := s.wave.map (fun w => Gen.toStepWaveDensity w k), value := s.value.map (fun v => Gen.toStepValueDensity v k), wu := u, vu := some f }
  | none => { wave := s.wave.map (fun w => Gen.toStepWaveUnitless w k), value := s.value.map Gen.toStepValueUnitless, wu := u, vu := none }

/-- `Spectrum.to(g)` for a flux unit: conversion is done with the wavelength in metres and the density per metre,
then brought back to the spectrum's wavelength unit; TypeError for a unitless spectrum -/
def toFlux (g : FUnit) (H C : Rat) (s : USpec) : Option USpec :=
  match s.vu with
  | none => none
  | some f =>
    let km : Rat := waveTo s.wu .m
    let back : Rat := waveTo .m s.wu
    some { wave := s.wave,
           value := List.zipWith (fun v w => Gen.toStepFlux f g w v km back H C) s.value s.wave,
           wu := s.wu, vu := some g }

/-- `Spectrum.to(*units)`: the arguments are applied left to right; a wavelength-unit name rescales (`toWave`), a flux-unit
name converts the values (`toFlux`, TypeError on a unitless spectrum), anything else is a ValueError; the first refusal
stops the call and the spectrum stays as the arguments before it left it. Names are the canonical ones
(`WUnit.ofName?`/`FUnit.ofName?` of the generated tables — `Spectrum.to` does not accept the long aliases). -/
def applyTo (H C : Rat) : USpec → List String → USpec × Option String
  | s, [] => (s, none)
  | s, u :: rest =>
    match WUnit.ofName? u with
    | some w => applyTo H C (toWave w s) rest
    | none =>
      match FUnit.ofName? u with
      | some f => match toFlux f H C s with
        | some s' => applyTo H C s' rest
        | none => (s, some "TypeError")
      | none => (s, some "ValueError")

end Lentil.Units
