import LentilVerif.Model.FieldZ
import LentilVerif.Gen.FieldPublicFlow
import LentilVerif.Gen.FieldOverlapPair
import LentilVerif.Gen.FieldMulScalar
/-! `_reduce`, public `overlap` and public `merge` of `lentil/field.py` evaluated from the regenerated value-carrying pieces of
their statements (`Gen.FieldPublicFlow`, `Gen.FieldOverlapPair`, tests from `Gen.FieldDispatch`); `Props/C06` proves them equal
to the models `overlapL` / `mergePublic` / the initial groups of `reduce`. Mathlib-free. -/
namespace Lentil
variable {K : Type}

/-- `_reduce`: `[{'field': [f], 'extent': f.extent} for f in fields]` with the generated number of copies of `f` -/
def reduceInitFlow (fs : List (Fld K)) : List (Group K) :=
  fs.map fun f => { fields := List.replicate Gen.reduceInitCopies f, extent := f.extent }

/-- `overlap(fields)`: generated tests, generated pair value, generated constants of the many-branch -/
def overlapFlow (fs : List (Fld K)) : Bool :=
  if Gen.overlapIsPair (fs.length : Int) then
    match fs with
    | a :: b :: _ => Gen.overlapPairValue a.extent.rmin a.extent.rmax a.extent.cmin a.extent.cmax
        b.extent.rmin b.extent.rmax b.extent.cmin b.extent.cmax
    | _ => false
  else if Gen.overlapManyFalse ((disjoint fs.length (reduceInitFlow fs)).length : Int) then Gen.overlapManyThen
  else Gen.overlapManyElse

/-- `merge(a, b, enforce_overlap)`: generated refusal test, `_merge` on the generated tuple of operands -/
def mergePublicFlow [Add K] [Zero K] (a b : ZFld K) (enforce : Bool) : Option (ZFld K) :=
  if Gen.mergeRefuses (b2i enforce) (b2i (overlapFlow [a.fld, b.fld])) then none
  else mergeZ (Gen.mergeAcceptedOrder.map fun i => if i = 0 then a else b)

/-- `itertools.combinations(l, r)` (trusted contract of the standard library): the r-element sublists in lexicographic
order of positions -/
def combos {α : Type} : Nat → List α → List (List α)
  | 0, _ => [[]]
  | _ + 1, [] => []
  | r + 1, x :: xs => (combos r xs).map (x :: ·) ++ combos (r + 1) xs

/-- `for m, n in …`: unpacking of a 2-element combination -/
def toPair : List Nat → Option (Nat × Nat)
  | [m, k] => some (m, k)
  | _ => none

/-- the index pairs `_disjoint` scans: `for m, n in combinations(range(len(fields)), r)` with the generated `r` -/
def disjointScan (n : Nat) : List (Nat × Nat) :=
  (combos Gen.disjointScanR (List.range n)).filterMap toPair

/-- `Field._mul_scalar` from its regenerated branch bodies: under the generated offset test the one-element product of the
generated factors at the generated operand's offset, else the empty product -/
def mulScalarFlow [Mul K] (a b : Fld K) : Option (Fld K) :=
  let pick := fun (i : Nat) => if i = 0 then a else b
  if Gen.mulScalarSame a.o0 a.o1 0 b.o0 b.o1 0 then
    some { arr := { s0 := 1, s1 := 1,
                    get := fun _ _ => (pick Gen.mulScalarFactors.1).arr.get 0 0 * (pick Gen.mulScalarFactors.2).arr.get 0 0 },
           o0 := (pick Gen.mulScalarOffsetOf).o0, o1 := (pick Gen.mulScalarOffsetOf).o1 }
  else none

end Lentil
