import LentilVerif.Model.Fourier
import LentilVerif.Gen.Window
import LentilVerif.Gen.PropagateMeta
import LentilVerif.Model.Geometry
import LentilVerif.Gen.PlaneType
/-! Executable model of `lentil.propagate.propagate_dft` / `propagate_fft` and `Wavefront.field`, generic in the value
type. The integer window logic is the *generated* kernel `Gen.dftWindow`, `Gen.maskShape`, `Gen.maskShift`
(re-translated from lentil/propagate.py on every run); the float/array plumbing is written by hand and tied to the
implementation by the correspondence harnesses (tools/harness/c02.py, c09.py, c04.py). Mathlib-free. -/
namespace Lentil

variable {K R : Type}

/-- the `alpha` of `propagate_dft`: `_dft_alpha(dx=wavefront.pixelscale, du=pixelscale, z=wavefront.focal_length,
wavelength=wavefront.wavelength, oversample)` — generated (`Gen.dftAlphaCall`, `Gen.dftAlpha`) -/
def dftAlpha [Add R] [Sub R] [Mul R] [Div R] [RealLike R] (dx0 dx1 du0 du1 wl z : R) (os : Int) : R × R :=
  Gen.dftAlphaCall dx0 dx1 du0 du1 wl z (RealLike.ofInt os)

/-- metadata of the wavefront returned by `propagate_dft` (generated hand-over): wavelength, pixelscale, focal length -/
def dftMeta [Add R] [Sub R] [Mul R] [Div R] [RealLike R] (dx0 dx1 du0 du1 wl z : R) (os : Int) : R × (R × R) × R :=
  Gen.dftOutMeta dx0 dx1 du0 du1 wl z (RealLike.ofInt os)

/-- `out_extent` of `propagate_dft`: the whole (oversampled) output array, or the bounding box of the mask.
`mask = some b`: `b = lentil.boundary(mask)` = (first, last) row and column index of the mask's support -/
def outExtent (S0 S1 : Int) (mask : Option Extent) : Extent :=
  match mask with
  | none => arrayExtent S0 S1 0 0
  | some b =>
    let sh := Gen.maskShape b.rmin b.rmax b.cmin b.cmax
    let sf := Gen.maskShift S0 S1 b.rmin b.rmax b.cmin b.cmax
    arrayExtent sh.1 sh.2 sf.1 sf.2

/-- `out_extent` from the mask array itself: `lentil.boundary(mask, threshold=0)` (C20's executable model `boundary ∘ gtMask`) feeds
`_mask_shape/_mask_shift`; `none` when the mask has no entry above the threshold (NumPy raises IndexError) -/
def outExtentOfMask (S0 S1 : Int) (mask : Option (Arr Bool)) : Option Extent :=
  match mask with
  | none => some (outExtent S0 S1 none)
  | some m => (boundary m).map fun b => outExtent S0 S1 (some b)

/-- `np.fix`: truncation toward zero, as an integer -/
class TruncLike (R : Type) where
  trunc : R → Int

/-- `fix_shift = np.fix(shift)`, `subpx_shift = shift - fix_shift` for one axis -/
def fixSplit [Sub R] [RealLike R] [TruncLike R] (s : R) : Int × R :=
  (TruncLike.trunc s, s - RealLike.ofInt (TruncLike.trunc s))

/-- the per-field window block of `propagate_dft` (generated): `(intersect_shape, intersect_shift, prop_shift)` -/
def dftWindow (oe : Extent) (P0 P1 fix0 fix1 : Int) : Option ((Int × Int) × (Int × Int) × (Int × Int)) :=
  Gen.dftWindow oe.rmin oe.rmax oe.cmin oe.cmax P0 P1 fix0 fix1

/-- the propagation extent `array_extent(prop_shape_out, fix_shift)` -/
def propExtent (P0 P1 fix0 fix1 : Int) : Extent := arrayExtent P0 P1 fix0 fix1

/-- a field together with the integer/sub-pixel split of its tilt shift, `shift = fix + sub` in (row, col) -/
structure TField (K R : Type) where
  fld : Fld K
  fix0 : Int
  fix1 : Int
  sub0 : R
  sub1 : R

/-- a field with the shift `(s0, s1)` its tilt elements give it (`Field.shift`, in output samples), split by `np.fix` -/
def tfieldOfShift [Sub R] [RealLike R] [TruncLike R] (f : Fld K) (s0 s1 : R) : TField K R :=
  ⟨f, (fixSplit s0).1, (fixSplit s1).1, (fixSplit s0).2, (fixSplit s1).2⟩

section
variable [Add R] [Sub R] [Mul R] [Neg R] [RealLike R] [Add K] [Mul K] [Zero K] [CxLike K R]

/-- value of the unitary Fraunhofer sum of `f` (with input offset) at the *real* output coordinate `(pr, pc)` in
output samples: `dft2` with a one-sample output whose only coordinate is `0 - (-p)`. -/
def fraunhoferAt (f : Fld K) (αr αc : R) (pr pc : R) : K :=
  (dft2 f.arr αr αc 1 1 (-pr) (-pc) f.o0 f.o1 true).get 0 0

/-- body of the field loop of `propagate_dft` for one field: the output `Field`, if any -/
def propagateField (t : TField K R) (αr αc : R) (oe : Extent) (P0 P1 : Int) : Option (Fld K) :=
  match dftWindow oe P0 P1 t.fix0 t.fix1 with
  | none => none
  | some (ish, isf, ps) =>
    -- the dft2 call and the output Field, argument by argument as generated from the source (`Gen.dftCall*`, `Gen.dftFieldOffset`)
    let shp := Gen.dftCallShape ish.1 ish.2 isf.1 isf.2 t.fld.o0 t.fld.o1
    let sft := Gen.dftCallShift (RealLike.ofInt ps.1) (RealLike.ofInt ps.2) t.sub0 t.sub1
    let off := Gen.dftCallOffset ish.1 ish.2 isf.1 isf.2 t.fld.o0 t.fld.o1
    let fo := Gen.dftFieldOffset ish.1 ish.2 isf.1 isf.2 t.fld.o0 t.fld.o1
    some { arr := dft2 t.fld.arr αr αc shp.1 shp.2 sft.1 sft.2 off.1 off.2 true, o0 := fo.1, o1 := fo.2 }

/-- `propagate_dft(wavefront, pixelscale, shape=(S0,S1), prop_shape=(P0,P1), oversample=os, mask)`: the list of
output fields (`alpha` is computed by `dftAlpha`) -/
def propagateDft (fs : List (TField K R)) (αr αc : R) (S0 S1 P0 P1 os : Int) (mask : Option Extent) : List (Fld K) :=
  fs.filterMap fun t => propagateField t αr αc (outExtent (Gen.dftShapeOut S0 S1 os).1 (Gen.dftShapeOut S0 S1 os).2 mask)
    (Gen.dftPropShapeOut P0 P1 os).1 (Gen.dftPropShapeOut P0 P1 os).2
end

/-- outcome of a `propagate_dft(...)` call as the caller writes it: the output fields and the output array shape, or the exception -/
inductive DftOut (K : Type) where
  | ok (fields : List (Fld K)) (S0 S1 : Int)
  | valueError
  | indexError

/-- `out_extent` in the mask branch for a mask array of shape `(m0, m1)` whose support has the bounding rows/cols `b`
(generated `_mask_shape`, `_mask_shift`, `array_extent` arguments) -/
def maskOutExtent (m0 m1 S0 S1 : Int) (b : Extent) : Extent :=
  let sh := Gen.maskShape b.rmin b.rmax b.cmin b.cmax
  let sf := Gen.maskShift m0 m1 b.rmin b.rmax b.cmin b.cmax
  let a := Gen.dftOutExtentArgsMask sh.1 sh.2 sf.1 sf.2 S0 S1
  arrayExtent a.1.1 a.1.2 a.2.1 a.2.2

/-- `out_extent` without a mask (generated `array_extent` arguments) -/
def noMaskOutExtent (S0 S1 : Int) : Extent :=
  let a := Gen.dftOutExtentArgsNoMask S0 S1
  arrayExtent a.1.1 a.1.2 a.2.1 a.2.2

section
variable [Add K] [Mul K] [Zero K] [Add R] [Sub R] [Mul R] [Neg R] [RealLike R] [CxLike K R]
/-- the body of `propagate_dft` after `shape_out = (S0, S1)` and `prop_shape_out = (P0, P1)` are resolved: mask-shape guard,
`lentil.boundary` of the mask, the mask / no-mask `out_extent`, the field loop -/
def propagateDftResolved (fs : List (TField K R)) (αr αc : R) (S0 S1 P0 P1 : Int) (mask : Option (Arr Bool)) : DftOut K :=
  match mask with
  | none => .ok (fs.filterMap fun t => propagateField t αr αc (noMaskOutExtent S0 S1) P0 P1) S0 S1
  | some m =>
    if Gen.dftMaskMismatch m.s0 m.s1 S0 S1 then .valueError
    else match boundary m with
      | none => .indexError
      | some b => .ok (fs.filterMap fun t => propagateField t αr αc (maskOutExtent m.s0 m.s1 S0 S1 b) P0 P1) S0 S1

/-- `propagate_dft(wavefront, pixelscale, shape, prop_shape, oversample, mask)` with the arguments as the caller writes them:
the `None` defaults and int→pair broadcasting (`Gen.dftShapeDefault`, `Gen.dftPropShapeDefault`), the mask-shape guard
(`Gen.dftMaskMismatch`), `lentil.boundary` of the mask (C20 `boundary`; an empty support is NumPy's IndexError) and the
mask / no-mask choice of `out_extent` are all taken from the generated code. `(W0, W1)` is `wavefront.shape`. -/
def propagateDftCall (fs : List (TField K R)) (αr αc : R) (W0 W1 : Int) (shape propShape : Gen.ShapeArg) (os : Int)
    (mask : Option (Arr Bool)) : DftOut K :=
  propagateDftResolved fs αr αc
    (Gen.dftShapeOut (Gen.dftShapeDefault W0 W1 shape).1 (Gen.dftShapeDefault W0 W1 shape).2 os).1
    (Gen.dftShapeOut (Gen.dftShapeDefault W0 W1 shape).1 (Gen.dftShapeDefault W0 W1 shape).2 os).2
    (Gen.dftPropShapeOut (Gen.dftPropShapeDefault (Gen.dftShapeDefault W0 W1 shape).1 (Gen.dftShapeDefault W0 W1 shape).2 propShape).1
      (Gen.dftPropShapeDefault (Gen.dftShapeDefault W0 W1 shape).1 (Gen.dftShapeDefault W0 W1 shape).2 propShape).2 os).1
    (Gen.dftPropShapeOut (Gen.dftPropShapeDefault (Gen.dftShapeDefault W0 W1 shape).1 (Gen.dftShapeDefault W0 W1 shape).2 propShape).1
      (Gen.dftPropShapeDefault (Gen.dftShapeDefault W0 W1 shape).1 (Gen.dftShapeDefault W0 W1 shape).2 propShape).2 os).2 mask

/-- outcome of `propagate_dft(wavefront, …)` on a wavefront of any plane type: refused by the plane-type check with the exception the
generated table names, or the plane type of the result and the outcome of the rest of the call -/
inductive DftCallOut (K : Type) where
  | refusedBy (e : Gen.Err) : DftCallOut K
  | done (ptype : Gen.WType) (o : DftOut K) : DftCallOut K

/-- `propagate_dft` as called on a wavefront whose plane type is `w` (`none`: it has met no pupil / image plane): the plane-type check
`_propagate_ptype` (generated table `Gen.codePropagate`) and the rest of the call `propagateDftCall`, in the order of the source statements
(generated positions `Gen.dftPtypeStmt`, `Gen.dftMaskGuardStmt`): whichever comes first raises first -/
def propagateDftTyped (w : Gen.WType) (fs : List (TField K R)) (αr αc : R) (W0 W1 : Int) (shape propShape : Gen.ShapeArg) (os : Int)
    (mask : Option (Arr Bool)) : DftCallOut K :=
  let body := propagateDftCall fs αr αc W0 W1 shape propShape os mask
  match Gen.codePropagate w with
  | .ok t => .done t body
  | .refused e =>
    if Gen.dftPtypeStmt < Gen.dftMaskGuardStmt then .refusedBy e
    else match body with
      | .ok _ _ _ => .refusedBy e
      | other => .done w other
end

/-- value of an optional output field on the infinite zero-padded plane (`none` = no field was produced = zero) -/
def embO [Zero K] (o : Option (Fld K)) (r c : Int) : K :=
  match o with
  | some g => g.emb r c
  | none => 0

/-- `Wavefront.field`: every field inserted into zeros of the wavefront's shape -/
def wavefrontField [Add K] [Mul K] [Zero K] (one : K) (fs : List (Fld K)) (S0 S1 : Int) : Arr K :=
  fs.foldl (fun out f => insertArr f out one) { s0 := S0, s1 := S1, get := fun _ _ => 0 }

end Lentil
