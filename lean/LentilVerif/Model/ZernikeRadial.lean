import LentilVerif.Gen.ZernikeR
/-! Integer kernel of `lentil/zernike.py`: Noll index → (n, m) and the radial polynomial coefficients with their exact tables
(`radialAtOne`, `gramNum`, …). It imports only the generated `Gen/ZernikeR.lean` (the coefficient formula of `R`): the finite tables of
`Lemmas/ZernikeTables.lean` depend on these two files only, so they are re-checked only when the formula changes. -/
namespace Lentil

/-! ## Noll index -/

def tri (n : Nat) : Nat := n * (n + 1) / 2

/-- `rowPos n q fuel`: `q` is the 0-based position counted from the start of row `n` -/
def rowPos : Nat → Nat → Nat → Nat × Nat
  | n, q, 0 => (n, q)
  | n, q, fuel + 1 => if q ≤ n then (n, q) else rowPos (n + 1) (q - (n + 1)) fuel

/-- Noll `j ≥ 1` ↦ `(n, p)`: radial order and position in its row (`p ≤ n`, `j = tri n + p + 1`) -/
def nollRow (j : Nat) : Nat × Nat := rowPos 0 (j - 1) j

/-- |m| at position `p` of row `n`: rows read 0,2,2,4,4,… (n even) or 1,1,3,3,… (n odd) -/
def absM (n p : Nat) : Nat := if n % 2 = 0 then 2 * ((p + 1) / 2) else 2 * (p / 2) + 1

/-- radial order of Noll index `j` -/
def nollN (j : Nat) : Nat := (nollRow j).1

/-- signed azimuthal order as `zernike_index` returns it: `+` for even `j` (cosine), `-` for odd `j` (sine) -/
def nollM (j : Nat) : Int :=
  if j % 2 = 0 then (absM (nollRow j).1 (nollRow j).2 : Int) else -(absM (nollRow j).1 (nollRow j).2 : Int)

/-- explicit inverse: the Noll index of the mode with radial order `n` and signed azimuthal order `m` -/
def nollInv (n : Nat) (m : Int) : Nat :=
  -- row n holds |m| = a > 0 at the two adjacent positions a-1, a (indices tri n + a, tri n + a + 1): the even one is +a
  if m.natAbs = 0 then tri n + 1
  else if 0 < m then (if (tri n + m.natAbs) % 2 = 0 then tri n + m.natAbs else tri n + m.natAbs + 1)
  else (if (tri n + m.natAbs) % 2 = 1 then tri n + m.natAbs else tri n + m.natAbs + 1)

/-- the literal list construction of `zernike_index`, from the REGENERATED pieces: seed `Gen.rowSeed n` (`[1, 1]` for odd n, `[0]` otherwise),
then `Gen.rowLoops n` (= ⌊n/2⌋) passes each appending `Gen.rowStep last` (= `last + 2` twice) -/
def rowMLoop : Nat → List Nat → List Nat
  | 0, l => l
  | t + 1, l => rowMLoop t (l ++ Gen.rowStep (l.getLastD 0))

def rowMList (n : Nat) : List Nat := rowMLoop (Gen.rowLoops n) (Gen.rowSeed n)

/-- `zernike_index(j)` as written: row `n`, `r = j - (n+1)(n+2)/2 - 1` (a negative index from the end of `row_m`) -/
def codeIndex (j : Nat) : Int × Nat :=
  let n := nollN j
  if n = 0 then (0, 0) else
    let r : Int := Gen.idxR j n
    let l := rowMList n
    let idx : Int := if r < 0 then (l.length : Int) + r else r
    let sign : Int := Gen.idxSign j
    ((l.getD idx.toNat 0 : Int) * sign, n)

/-! ## radial polynomials -/

/-- coefficient of ρ^(n-2k) in R_n^m: the exact value of the quotient `lentil.zernike.R` computes, numerator and denominator
REGENERATED from the source (`Gen.radialNum`, `Gen.radialDen`) -/
def radialCoeff (n m k : Nat) : Int := Gen.radialNum n m k / (Gen.radialDen n m k : Int)

/-- every coefficient of every valid (n, m) with n ≤ N is an exact integer: the denominator of the quotient the code forms divides its
numerator (so the Int division of `radialCoeff` is the true value of the float quotient) -/
def allCoeffExact (N : Nat) : Bool :=
  (List.range (N + 1)).all fun n => (List.range (n + 1)).all fun m => (n - m) % 2 != 0 ||
    (List.range ((n - m) / 2 + 1)).all fun k => Gen.radialNum n m k % (Gen.radialDen n m k : Int) == 0 && Gen.radialDen n m k != 0

/-- Pascal's binomial coefficients (kernel-evaluable) -/
def chooseN : Nat → Nat → Nat
  | _, 0 => 1
  | 0, _ + 1 => 0
  | n + 1, k + 1 => chooseN n k + chooseN n (k + 1)
/-- the code's factorial quotient is the textbook binomial form `(-1)^k C(n-k, k) C(n-2k, (n-m)/2 - k)` for all valid (n, m, k), n ≤ N -/
def allBinomial (N : Nat) : Bool :=
  (List.range (N + 1)).all fun n => (List.range (n + 1)).all fun m => (n - m) % 2 != 0 ||
    (List.range ((n - m) / 2 + 1)).all fun k =>
      radialCoeff n m k == (-1 : Int) ^ k * ((chooseN (n - k) k * chooseN (n - 2 * k) ((n - m) / 2 - k) : Nat) : Int)

/-- R_n^m(1) -/
def radialAtOne (n m : Nat) : Int := ((List.range ((n - m) / 2 + 1)).map (radialCoeff n m)).foldl (· + ·) 0

/-- all valid (n, m) with n ≤ N have R_n^m(1) = 1 -/
def allAtOne (N : Nat) : Bool :=
  (List.range (N + 1)).all fun n => (List.range (n + 1)).all fun m => (n - m) % 2 != 0 || radialAtOne n m == 1

/-- `D · ∫₀¹ R_n^m R_n'^m ρ dρ = Σ_k Σ_l a_k b_l · D/(n-2k + n'-2l + 2)` for a common denominator `D` -/
def gramNum (n n' m : Nat) (D : Nat) : Int :=
  ((List.range ((n - m) / 2 + 1)).map fun k =>
    ((List.range ((n' - m) / 2 + 1)).map fun l =>
      radialCoeff n m k * radialCoeff n' m l * ((D / (n - 2 * k + n' - 2 * l + 2) : Nat) : Int)).foldl (· + ·) 0).foldl (· + ·) 0

def lcmUpTo (k : Nat) : Nat := (List.range (k + 1)).foldl (fun a i => if i = 0 then a else Nat.lcm a i) 1

/-- every denominator that occurs divides `D` (so the cleared-denominator sum is exact) -/
def allDenomsDivide (N : Nat) : Bool :=
  let D := lcmUpTo (2 * N + 2)
  (List.range (2 * N + 2)).all fun d => D % (d + 1) == 0

/-- radial orthogonality table: `D·∫₀¹ R_n^m R_n'^m ρ dρ = D/(2(n+1))` if `n = n'`, else `0`, all valid n, n' ≤ N, m -/
def allGram (N : Nat) : Bool :=
  let D := lcmUpTo (2 * N + 2)
  (List.range (N + 1)).all fun n => (List.range (N + 1)).all fun n' => (List.range (min n n' + 1)).all fun m =>
    (n - m) % 2 != 0 || (n' - m) % 2 != 0 || gramNum n n' m D == (if n = n' then ((D / (2 * (n + 1)) : Nat) : Int) else 0)

end Lentil
