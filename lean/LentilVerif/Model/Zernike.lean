import LentilVerif.Model.Geometry
import LentilVerif.Model.ZernikeRadial
/-! Executable model of `lentil/zernike.py`: Noll index → (n, m), radial polynomial coefficients, mode values
(normalisation · radial · azimuthal), and `zernike_coordinates`. Mathlib-free; the value-level definitions are generic in the
scalar type (run at `Float` by the driver, reasoned about over ordered fields in `Props/C11.lean`). The correspondence
harness is tools/harness/c11.py. -/
namespace Lentil

variable {K : Type}

def powK [Mul K] [One K] (x : K) : Nat → K
  | 0 => 1
  | n + 1 => powK x n * x

/-- `lentil.zernike.R(m, n, rho)`: 0 for odd `n - |m|`, else `Σ_k coeff_k · rho^(n-2k)` accumulated for k = 0, 1, … -/
def radialEval [Add K] [Mul K] [Zero K] [One K] [IntCast K] (n m : Nat) (rho : K) : K :=
  if (n - m) % 2 = 1 then 0
  else (List.range ((n - m) / 2 + 1)).foldl (fun acc k => acc + ((radialCoeff n m k : Int) : K) * powK rho (n - 2 * k)) 0

/-- square of Noll's normalisation constant: `n+1` for m = 0, `2(n+1)` otherwise -/
def normSq (n : Nat) (m : Int) : Nat := if m = 0 then n + 1 else 2 * (n + 1)

/-- the radial polynomial as a list of (coefficient, exponent) terms in the order the code accumulates them -/
def radialTerms (n m : Nat) : List (Int × Nat) :=
  if (n - m) % 2 = 1 then [] else (List.range ((n - m) / 2 + 1)).map fun k => (radialCoeff n m k, n - 2 * k)

def evalTerms [Add K] [Mul K] [Zero K] [One K] [IntCast K] (ts : List (Int × Nat)) (rho : K) : K :=
  ts.foldl (fun acc t => acc + ((t.1 : Int) : K) * powK rho t.2) 0

/-- one sample of `zernike(mask, j, normalize, rho, theta)`: the REGENERATED decision tree and leaf products `Gen.zernCore` applied to the
Noll orders of `j` and the radial polynomial; `sqrtN k` = √k. The mask enters as the factor 1 or 0, as in the code — so at `Float` a
non-finite radial or azimuthal factor outside the mask gives NaN, not 0. -/
def zernAt [Add K] [Mul K] [Zero K] [One K] [IntCast K] (sqrtN : Nat → K) (cos sin : K → K)
    (j : Nat) (normalize : Bool) (rho theta : K) (mask : Bool) : K :=
  Gen.zernCore sqrtN cos sin (nollN j) (nollM j) normalize (radialEval (nollN j) (nollM j).natAbs rho) theta mask

/-- the same function with everything that depends only on `j` (Noll row, radial coefficient list) computed once; an evaluation
strategy for the driver — `zernFast_eq` (Lemmas/Zernike.lean) proves it equal to `zernAt` -/
def zernFast [Add K] [Mul K] [Zero K] [One K] [IntCast K] (sqrtN : Nat → K) (cos sin : K → K)
    (j : Nat) (normalize : Bool) : K → K → Bool → K :=
  let n := nollN j
  let m := nollM j
  let ts := radialTerms n m.natAbs
  fun rho theta mask => Gen.zernCore sqrtN cos sin n m normalize (evalTerms ts rho) theta mask

/-! ## `zernike_coordinates` -/

/-- `np.asarray(mask, dtype=bool)`: the support of a weight array -/
def supportMask {W : Type} [Zero W] [DecidableEq W] (x : Arr W) : Arr Bool :=
  { s0 := x.s0, s1 := x.s1, get := fun i j => decide (x.get i j ≠ 0) }

/-- number of masked samples and the sums of their row / column indices -/
def maskMoments (mask : Arr Bool) : Nat × Nat × Nat :=
  (sumRange mask.s0.toNat fun i => sumRange mask.s1.toNat fun j => if mask.get i j then 1 else 0,
   sumRange mask.s0.toNat fun i => sumRange mask.s1.toNat fun j => if mask.get i j then i else 0,
   sumRange mask.s0.toNat fun i => sumRange mask.s1.toNat fun j => if mask.get i j then j else 0)

section Coords
variable [Add K] [Sub K] [Mul K] [Div K] [Neg K] [Zero K] [One K] [IntCast K] [NatCast K] [LT K] [DecidableRel (α := K) (· < ·)]

/-- default `shift = centroid - shape // 2`: the REGENERATED `Gen.zShiftAxis` applied to the centroid of the mask -/
def zShift (mask : Arr Bool) : K × K :=
  let mm := maskMoments mask
  (Gen.zShiftAxis ((mm.2.1 : K) / (mm.1 : K)) mask.s0, Gen.zShiftAxis ((mm.2.2 : K) / (mm.1 : K)) mask.s1)

/-- `rr`, `cc` of `helper.mesh(mask.shape, shift)` -/
def zRR (mask : Arr Bool) (s : K × K) (i : Int) : K := meshCoord mask.s0 i s.1
def zCC (mask : Arr Bool) (s : K × K) (j : Int) : K := meshCoord mask.s1 j s.2

/-- `r = |rr + i·cc|` -/
def zRad (sqrt : K → K) (mask : Arr Bool) (s : K × K) (i j : Int) : K :=
  sqrt (zRR mask s i * zRR mask s i + zCC mask s j * zCC mask s j)

/-- maximum of a list of non-negative values (`np.max(r*mask)`: unmasked samples contribute 0) -/
def maxL (l : List K) : K := l.foldl (fun a b => if a < b then b else a) 0

/-- `np.max(r * mask)` -/
def zRmax (sqrt : K → K) (mask : Arr Bool) (s : K × K) : K :=
  maxL ((List.range mask.s0.toNat).flatMap fun (i : Nat) => (List.range mask.s1.toNat).map fun (j : Nat) =>
    if mask.get i j then zRad sqrt mask s i j else 0)

/-- `rho = r / max(r * mask)` -/
def zRho (sqrt : K → K) (mask : Arr Bool) (s : K × K) (i j : Int) : K := zRad sqrt mask s i j / zRmax sqrt mask s

/-- `theta = angle(-rr·e^{iα} + i·cc·e^{iα})` with `ca = cos α`, `sa = sin α`, `α = (90 - rotate)·π/180` -/
def zTheta (atan2 : K → K → K) (ca sa : K) (mask : Arr Bool) (s : K × K) (i j : Int) : K :=
  -- the REGENERATED real / imaginary part of the argument of `np.angle` (`Gen.zThetaArg`); `np.angle z = atan2 (im z) (re z)`
  let z := Gen.zThetaArg (zRR mask s i) (zCC mask s j) ca sa
  atan2 z.2 z.1

end Coords

end Lentil
