def hello := "world"
