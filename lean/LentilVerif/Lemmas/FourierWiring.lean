import LentilVerif.Lemmas.Fourier
import LentilVerif.Gen.FourierWiring
/-! The hand model of `fourier.py` follows the wiring regenerated from the source (`Gen/FourierWiring.lean`). Imported only by
the properties anchored in `fourier.py` (C01, C05), so an edit there does not touch unrelated checks. -/
open Finset
namespace Lentil

/-- `np.exp(1j · φ)` for a real phase `φ` (the phase `c · π · t` itself is regenerated: `Gen.fwExpPhase1/2`) -/
noncomputable def srcExp (φ : ℝ) : ℂ := Complex.exp (Complex.I * (φ : ℂ))

theorem dftKernel_wired1 (f0 f1 : ℤ) (αr αc : ℝ) (M N : ℤ) (shr shc : ℝ) (offr offc : ℤ) (x u : ℤ) :
    (dftKernel αr f0 M offr shr x u : ℂ)
      = srcExp (Gen.fwExpPhase1 (fun i : ℤ => (i : ℝ)) Real.pi (Gen.fwDft2E1Arg (fun i : ℤ => (i : ℝ)) f0 f1 αr αc M N shr shc offr offc u x)) := by
  rw [dftKernel_eq]
  unfold ker srcExp
  simp only [Gen.fwDft2E1Arg, Gen.fwE1Arg, Gen.fwExpPhase1, Gen.fwCoord0, Gen.fwCoord2, cc]
  congr 1
  push_cast
  ring

theorem dftKernel_wired2 (f0 f1 : ℤ) (αr αc : ℝ) (M N : ℤ) (shr shc : ℝ) (offr offc : ℤ) (y v : ℤ) :
    (dftKernel αc f1 N offc shc y v : ℂ)
      = srcExp (Gen.fwExpPhase2 (fun i : ℤ => (i : ℝ)) Real.pi (Gen.fwDft2E2Arg (fun i : ℤ => (i : ℝ)) f0 f1 αr αc M N shr shc offr offc y v)) := by
  rw [dftKernel_eq]
  unfold ker srcExp
  simp only [Gen.fwDft2E2Arg, Gen.fwE2Arg, Gen.fwExpPhase2, Gen.fwCoord1, Gen.fwCoord3, cc]
  congr 1
  push_cast
  ring

end Lentil
