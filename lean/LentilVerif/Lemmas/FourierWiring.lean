import LentilVerif.Lemmas.Fourier
import LentilVerif.Gen.FourierWiring
/-! The hand model of `fourier.py` follows the wiring regenerated from the source (`Gen/FourierWiring.lean`). Imported only by
the properties anchored in `fourier.py` (C01, C05), so an edit there does not touch unrelated checks. -/
open Finset
namespace Lentil

/-- entry of the source's `np.exp(c * 1j * np.pi * t)` -/
noncomputable def srcExp (c : ℤ) (t : ℝ) : ℂ := Complex.exp ((c : ℂ) * Complex.I * Real.pi * (t : ℂ))

theorem dftKernel_wired1 (f0 f1 : ℤ) (αr αc : ℝ) (M N : ℤ) (shr shc : ℝ) (offr offc : ℤ) (x u : ℤ) :
    (dftKernel αr f0 M offr shr x u : ℂ)
      = srcExp Gen.fwExpCoeff1 (Gen.fwDft2E1Arg (fun i : ℤ => (i : ℝ)) f0 f1 αr αc M N shr shc offr offc u x) := by
  rw [dftKernel_eq]
  unfold ker srcExp
  simp only [Gen.fwDft2E1Arg, Gen.fwE1Arg, Gen.fwExpCoeff1, Gen.fwCoord0, Gen.fwCoord2, cc]
  congr 1
  push_cast
  ring

theorem dftKernel_wired2 (f0 f1 : ℤ) (αr αc : ℝ) (M N : ℤ) (shr shc : ℝ) (offr offc : ℤ) (y v : ℤ) :
    (dftKernel αc f1 N offc shc y v : ℂ)
      = srcExp Gen.fwExpCoeff2 (Gen.fwDft2E2Arg (fun i : ℤ => (i : ℝ)) f0 f1 αr αc M N shr shc offr offc y v) := by
  rw [dftKernel_eq]
  unfold ker srcExp
  simp only [Gen.fwDft2E2Arg, Gen.fwE2Arg, Gen.fwExpCoeff2, Gen.fwCoord1, Gen.fwCoord3, cc]
  congr 1
  push_cast
  ring

end Lentil
