import LentilVerif.Lemmas.Zernike
import Mathlib.Analysis.SpecialFunctions.Sqrt
import Mathlib.Algebra.Order.Floor.Ring
import Mathlib.Tactic.Linarith
import Mathlib.Tactic.Ring
/-! Triangular numbers for the real-arithmetic row search of `zernike_index`. -/
namespace Lentil

theorem two_tri (n : ℕ) : 2 * tri n = n * (n + 1) := by
  induction n with
  | zero => rfl
  | succ n ih => rw [tri_succ]; ring_nf; ring_nf at ih; omega

end Lentil
