import LentilVerif.Model.Geometry
import Mathlib.Tactic.Ring
import Mathlib.Tactic.Linarith
import Mathlib.Algebra.Order.Field.Basic
/-! Order facts about the shape model (`clip01`, `minK`, `absK`, `hexSide`, `meshCoord`) over a linearly ordered field. -/
set_option linter.unusedSectionVars false
namespace Lentil
variable {K : Type} [Field K] [LinearOrder K] [IsStrictOrderedRing K]

theorem clip01_mem (x : K) : 0 ≤ clip01 x ∧ clip01 x ≤ 1 := by
  unfold clip01; split_ifs with h1 h2
  · exact ⟨le_refl _, zero_le_one⟩
  · exact ⟨zero_le_one, le_refl _⟩
  · exact ⟨not_lt.1 h1, not_lt.1 h2⟩

theorem minK_eq_min (x y : K) : minK x y = min x y := by
  unfold minK; split_ifs with h
  · exact (min_eq_right h.le).symm
  · exact (min_eq_left (not_lt.1 h)).symm

theorem absK_eq_abs (x : K) : absK x = |x| := by
  unfold absK; split_ifs with h
  · exact (abs_of_neg h).symm
  · exact (abs_of_nonneg (not_lt.1 h)).symm

theorem binarise_mem {x : K} (h : 0 ≤ x ∧ x ≤ 1) : binarise x = 0 ∨ binarise x = 1 := by
  unfold binarise; split_ifs with g
  · exact Or.inr rfl
  · exact Or.inl (le_antisymm (not_lt.1 g) h.1)

theorem meshCoord_shift (n i d : Int) (s : K) : meshCoord n i (s + (d : K)) = meshCoord n (i - d) s := by
  unfold meshCoord Gen.meshCoord; push_cast; ring

theorem meshCoord_half_turn (n i : Int) : meshCoord n (2 * (n / 2) - i) (0 : K) = -meshCoord n i (0 : K) := by
  unfold meshCoord Gen.meshCoord; push_cast; ring

theorem hexSide_mem (half inner : K) (aa : Bool) (r c sn cn : K) :
    0 ≤ hexSide half inner aa r c sn cn ∧ hexSide half inner aa r c sn cn ≤ 1 := by
  unfold hexSide; simp only
  split_ifs
  · exact clip01_mem _
  · exact ⟨le_refl _, zero_le_one⟩
  · exact ⟨zero_le_one, le_refl _⟩

theorem hexSide_binary (half inner : K) (r c sn cn : K) :
    hexSide half inner false r c sn cn = 0 ∨ hexSide half inner false r c sn cn = 1 := by
  simp only [hexSide, Bool.false_eq_true, if_false]
  split_ifs <;> simp

theorem min_mem01 {x y : K} (hx : 0 ≤ x ∧ x ≤ 1) (hy : 0 ≤ y ∧ y ≤ 1) : 0 ≤ min x y ∧ min x y ≤ 1 :=
  ⟨le_min hx.1 hy.1, (min_le_left _ _).trans hx.2⟩

theorem min_binary {x y : K} (hx : x = 0 ∨ x = 1) (hy : y = 0 ∨ y = 1) : min x y = 0 ∨ min x y = 1 := by
  rcases hx with rfl | rfl <;> rcases hy with rfl | rfl <;> simp

theorem hexSide_neg (half inner : K) (aa : Bool) (r c sn cn : K) :
    hexSide half inner aa (-r) (-c) (-sn) (-cn) = hexSide half inner aa r c sn cn := by
  unfold hexSide; simp only [neg_mul_neg]

theorem meshCoord_recentre (n S r : Int) (s : K) : meshCoord n (r + n / 2) s = meshCoord S (r + S / 2) s := by
  unfold meshCoord Gen.meshCoord; push_cast; ring

theorem meshRot_neg (a b ca sa : K) : Gen.meshRot (-a) (-b) ca sa = (-(Gen.meshRot a b ca sa).1, -(Gen.meshRot a b ca sa).2) := by
  unfold Gen.meshRot; ext <;> simp only <;> ring

theorem meshRot_unrotated (a b : K) : Gen.meshRot a b 1 0 = (a, b) := by
  unfold Gen.meshRot; ext <;> simp

/-- half-turn symmetry and mirror symmetry about the origin ROW give mirror symmetry about the origin COLUMN -/
theorem column_mirror_of_half_turn_and_row_mirror (g : Int → Int → K) (c0 c1 : Int)
    (hh : ∀ i j, g (2 * c0 - i) (2 * c1 - j) = g i j) (hr : ∀ i j, g (2 * c0 - i) j = g i j) (i j : Int) :
    g i (2 * c1 - j) = g i j := by
  have h := hh (2 * c0 - i) j
  rw [show 2 * c0 - (2 * c0 - i) = i by ring] at h
  rw [h, hr]

/-- a 2 × 2 binary rectangle on a 6 × 6 array over ℚ -/
def exRect (i j : Int) : ℚ := rectangleAt (1 / 2) 6 6 2 2 0 0 1 0 false i j

theorem exRect_border (i j : Int) : exRect 0 j = 0 ∧ exRect i 0 = 0 := by
  constructor <;>
  · unfold exRect rectangleAt meshCoord Gen.meshCoord Gen.meshRot
    simp only [absK_eq_abs, minK_eq_min]
    norm_num [clip01, binarise]
    split_ifs <;> simp_all <;> linarith

end Lentil
