import LentilVerif.Model.Tilt
import LentilVerif.Lemmas.Fft
import Mathlib.Tactic.Ring
import Mathlib.Algebra.BigOperators.Group.List.Basic
/-! Helper lemmas for C04: folds of tilt shifts, fold-sums in a commutative ring. -/
namespace Lentil

section sums
variable {K : Type} [CommRing K]

theorem sumRange_mul_right (n : Nat) (f : Nat → K) (c : K) : sumRange n (fun i => f i * c) = sumRange n f * c := by
  induction n with
  | zero => simp [sumRange]
  | succ n ih => rw [sumRange_succ, sumRange_succ, ih, add_mul]

theorem foldl_add_start {α : Type} (l : List α) (f : α → K) (a : K) :
    l.foldl (fun acc x => acc + f x) a = a + l.foldl (fun acc x => acc + f x) 0 := by
  induction l generalizing a with
  | nil => simp
  | cons x xs ih => simp only [List.foldl_cons]; rw [ih (a + f x), ih (0 + f x)]; ring

theorem sumListB_nil {α : Type} (f : α → K) : sumList ([] : List α) f = 0 := rfl
theorem sumListB_cons {α : Type} (x : α) (l : List α) (f : α → K) : sumList (x :: l) f = f x + sumList l f := by
  unfold sumList; simp only [List.foldl_cons]; rw [foldl_add_start]; ring
theorem sumListB_append {α : Type} (l l' : List α) (f : α → K) : sumList (l ++ l') f = sumList l f + sumList l' f := by
  induction l with
  | nil => simp [sumListB_nil]
  | cons x xs ih => simp only [List.cons_append, sumListB_cons, ih]; ring
theorem sumListB_zero {α : Type} (l : List α) (f : α → K) (h : ∀ x ∈ l, f x = 0) : sumList l f = 0 := by
  induction l with
  | nil => rfl
  | cons x xs ih =>
    rw [sumListB_cons, h x (List.mem_cons_self), ih (fun y hy => h y (List.mem_cons_of_mem _ hy))]; ring
end sums

section shift
variable {R : Type} [Field R] [RealLike R]

/-- displacement contributed by one element on its own (incoming shift zero) -/
def TiltEl.disp (e : TiltEl R) (z wl : R) : R × R := e.shift 0 0 z wl

theorem TiltEl.shift_eq_add (e : TiltEl R) (xs ys z wl : R) :
    e.shift xs ys z wl = (xs + (e.disp z wl).1, ys + (e.disp z wl).2) := by
  cases e <;> simp only [TiltEl.shift, TiltEl.disp, Gen.tiltShift, Gen.dispersiveShift1, Gen.dispersiveTail] <;> refine Prod.ext ?_ ?_ <;> simp only <;> ring

theorem foldl_shift (ts : List (TiltEl R)) (z wl : R) (p : R × R) :
    ts.foldl (fun p e => e.shift p.1 p.2 z wl) p =
      (p.1 + (ts.map fun e => (e.disp z wl).1).sum, p.2 + (ts.map fun e => (e.disp z wl).2).sum) := by
  induction ts generalizing p with
  | nil => simp
  | cons e es ih =>
    simp only [List.foldl_cons, List.map_cons, List.sum_cons]
    rw [ih, TiltEl.shift_eq_add]; refine Prod.ext ?_ ?_ <;> simp only <;> ring

/-- a list of angular elements shifts like the single element with the summed angles -/
theorem foldShift_angular_list (h0 : (RealLike.ofInt 0 : R) = 0) (ab : List (R × R)) (z wl : R) :
    foldShift (ab.map fun p => TiltEl.angular p.1 p.2) z wl =
      foldShift [TiltEl.angular (ab.map Prod.fst).sum (ab.map Prod.snd).sum] z wl := by
  unfold foldShift
  rw [foldl_shift, foldl_shift, h0]
  simp only [List.map_map, List.map_cons, List.map_nil, List.sum_cons, List.sum_nil, add_zero, zero_add]
  have hx : ∀ l : List (R × R), (l.map ((fun e : TiltEl R => (e.disp z wl).1) ∘ fun p => TiltEl.angular p.1 p.2)).sum
      = ((TiltEl.angular (l.map Prod.fst).sum (l.map Prod.snd).sum : TiltEl R).disp z wl).1 := by
    intro l
    induction l with
    | nil => simp [TiltEl.disp, TiltEl.shift, Gen.tiltShift]
    | cons p l ih =>
      simp only [List.map_cons, List.sum_cons, Function.comp, ih]
      simp only [TiltEl.disp, TiltEl.shift, Gen.tiltShift]; ring
  have hy : ∀ l : List (R × R), (l.map ((fun e : TiltEl R => (e.disp z wl).2) ∘ fun p => TiltEl.angular p.1 p.2)).sum
      = ((TiltEl.angular (l.map Prod.fst).sum (l.map Prod.snd).sum : TiltEl R).disp z wl).2 := by
    intro l
    induction l with
    | nil => simp [TiltEl.disp, TiltEl.shift, Gen.tiltShift]
    | cons p l ih =>
      simp only [List.map_cons, List.sum_cons, Function.comp, ih]
      simp only [TiltEl.disp, TiltEl.shift, Gen.tiltShift]; ring
  rw [hx, hy]
end shift

section fit
variable {R : Type} [Field R] [RealLike R]

/-- closed form of what `fit_tilt` subtracts, from the generated slices and basis rows -/
theorem fitSubtract_eq (h1 : (RealLike.ofInt 1 : R) = 1) (s0 s1 : Int) (px0 px1 : R) (mask : Int → Int → R) (t : Int → R) (i j : Int) :
    fitSubtract s0 s1 px0 px1 mask t i j =
      (RealLike.ofInt (cc s0 i) * px0 * t 1 + -(RealLike.ofInt (cc s1 j)) * px1 * t 2) * mask i j := by
  have e : (Gen.fitSubRows.2 - Gen.fitSubRows.1).toNat = 2 := rfl
  unfold fitSubtract
  rw [e, sumRange_succ, sumRange_succ]
  simp only [sumRange, List.range_zero, List.foldl_nil, Gen.fitSubRows, Gen.fitSubCoefs, pttBasis, Gen.pttRow, tripleGet, h1]
  norm_num
  ring

theorem fitSegSubtract_eq (h1 : (RealLike.ofInt 1 : R) = 1) (s0 s1 : Int) (px0 px1 : R) (seg : Int) (mask : Int → Int → R)
    (t : Int → R) (i j : Int) :
    fitSegSubtract s0 s1 px0 px1 seg mask t i j =
      (RealLike.ofInt (cc s0 i) * px0 * t 1 + -(RealLike.ofInt (cc s1 j)) * px1 * t 2) * mask i j := by
  have e : ((Gen.fitSegSubRows seg).2 - (Gen.fitSegSubRows seg).1).toNat = 2 := by
    simp only [Gen.fitSegSubRows]; omega
  unfold fitSegSubtract
  rw [e, sumRange_succ, sumRange_succ]
  have r0 : (Gen.fitSegSubRows seg).1 + ((0 : Nat) : Int) - (Gen.pttSegRows seg).1 = 1 := by
    simp only [Gen.fitSegSubRows, Gen.pttSegRows]; omega
  have r1 : (Gen.fitSegSubRows seg).1 + ((1 : Nat) : Int) - (Gen.pttSegRows seg).1 = 2 := by
    simp only [Gen.fitSegSubRows, Gen.pttSegRows]; omega
  simp only [sumRange, List.range_zero, List.foldl_nil, r0, r1, Gen.fitSegSubCoefs, pttBasis, Gen.pttRow, tripleGet, h1]
  norm_num
  ring
end fit

end Lentil
