import LentilVerif.Model.Zernike
import LentilVerif.Lemmas.GeometrySums
import Mathlib.Tactic.Ring
import Mathlib.Algebra.BigOperators.Ring.Finset
import Mathlib.Tactic.Linarith
import Mathlib.Tactic.FieldSimp
import Mathlib.Algebra.Order.Field.Basic
/-! Algebraic helper lemmas for C11: radial evaluation at 1, mask moments as Finset sums, list maximum. -/
set_option linter.unusedSectionVars false
namespace Lentil
open Finset

section RingFacts
variable {K : Type} [CommRing K]

theorem powK_one (p : ℕ) : powK (1 : K) p = 1 := by
  induction p with
  | zero => rfl
  | succ p ih => simp [powK, ih]

theorem powK_eq_pow (x : K) (p : ℕ) : powK x p = x ^ p := by
  induction p with
  | zero => simp [powK]
  | succ p ih => simp [powK, ih, pow_succ]

theorem foldl_cast_one (c : ℕ → ℤ) (e : ℕ → ℕ) (l : List ℕ) (acc : ℤ) :
    l.foldl (fun (a : K) k => a + ((c k : ℤ) : K) * powK 1 (e k)) (acc : K) = ((l.foldl (fun a k => a + c k) acc : ℤ) : K) := by
  have hf : (fun (a : K) k => a + ((c k : ℤ) : K) * powK 1 (e k)) = fun (a : K) k => a + ((c k : ℤ) : K) := by
    funext a k; rw [powK_one, mul_one]
  rw [hf]
  induction l generalizing acc with
  | nil => rfl
  | cons x t ih =>
    simp only [List.foldl_cons]
    rw [← Int.cast_add]; exact ih _

/-- `R_n^m(1)` in any commutative ring is the integer `radialAtOne n m` -/
theorem radialEval_one (n m : ℕ) (h : (n - m) % 2 = 0) : radialEval n m (1 : K) = ((radialAtOne n m : ℤ) : K) := by
  unfold radialEval radialAtOne
  rw [if_neg (by omega), List.foldl_map]
  have := foldl_cast_one (K := K) (radialCoeff n m) (fun k => n - 2 * k) (List.range ((n - m) / 2 + 1)) 0
  simpa using this

end RingFacts

section Coords
variable {K : Type} [Field K]

theorem maskMoments_cast (mask : Arr Bool) :
    ((maskMoments mask).1 : K) = ∑ i ∈ range mask.s0.toNat, ∑ j ∈ range mask.s1.toNat, (if mask.get i j then (1 : K) else 0) ∧
    ((maskMoments mask).2.1 : K) = ∑ i ∈ range mask.s0.toNat, ∑ j ∈ range mask.s1.toNat, (if mask.get i j then (i : K) else 0) ∧
    ((maskMoments mask).2.2 : K) = ∑ i ∈ range mask.s0.toNat, ∑ j ∈ range mask.s1.toNat, (if mask.get i j then (j : K) else 0) := by
  unfold maskMoments
  simp only [sumRange_eq_sum]
  refine ⟨?_, ?_, ?_⟩ <;> simp only [Nat.cast_sum, Nat.cast_ite, Nat.cast_one, Nat.cast_zero]

end Coords

section Order
variable {K : Type} [Field K] [LinearOrder K] [IsStrictOrderedRing K]

theorem maxL_foldl_ge (l : List K) (a : K) : a ≤ l.foldl (fun a b => if a < b then b else a) a ∧
    ∀ x ∈ l, x ≤ l.foldl (fun a b => if a < b then b else a) a := by
  induction l generalizing a with
  | nil => exact ⟨le_refl _, fun x hx => by cases hx⟩
  | cons y t ih =>
    simp only [List.foldl_cons]
    obtain ⟨h1, h2⟩ := ih (if a < y then y else a)
    have ha : a ≤ (if a < y then y else a) := by split_ifs with h; exact h.le; exact le_refl _
    have hy : y ≤ (if a < y then y else a) := by split_ifs with h; exact le_refl _; exact not_lt.1 h
    refine ⟨ha.trans h1, ?_⟩
    intro x hx
    rcases List.mem_cons.1 hx with rfl | hx
    · exact hy.trans h1
    · exact h2 x hx

theorem maxL_foldl_mem (l : List K) (a : K) :
    l.foldl (fun a b => if a < b then b else a) a = a ∨ l.foldl (fun a b => if a < b then b else a) a ∈ l := by
  induction l generalizing a with
  | nil => exact Or.inl rfl
  | cons y t ih =>
    simp only [List.foldl_cons]
    rcases ih (if a < y then y else a) with h | h
    · rw [h]; split_ifs
      · exact Or.inr (List.mem_cons_self ..)
      · exact Or.inl rfl
    · exact Or.inr (List.mem_cons_of_mem _ h)

theorem maxL_ge (l : List K) : 0 ≤ maxL l ∧ ∀ x ∈ l, x ≤ maxL l := maxL_foldl_ge l 0
theorem maxL_mem (l : List K) : maxL l = 0 ∨ maxL l ∈ l := maxL_foldl_mem l 0

end Order
end Lentil
