import Mathlib.Tactic.Ring
import Mathlib.Tactic.FieldSimp
import Mathlib.Tactic.NormNum
import Mathlib.Tactic.Linarith
import Mathlib.Algebra.Order.Field.Rat
import LentilVerif.Model.Spectrum
/-! helper lemmas for C15/C13: strict monotonicity as `Pairwise`, mask/slice selections, lengths -/
namespace Lentil.Spec

abbrev StrictInc (l : List ℚ) : Prop := l.Pairwise (· < ·)

/-- the invariant as a proposition -/
def WF (s : Spectrum) : Prop := StrictInc s.wave ∧ s.wave.length = s.value.length

theorem strictIncB_iff : ∀ l : List ℚ, strictIncB l = true ↔ StrictInc l := by
  intro l
  induction l with
  | nil => simp [strictIncB, StrictInc]
  | cons x0 l ih =>
    cases l with
    | nil => simp [strictIncB, StrictInc]
    | cons x1 xs =>
      simp only [strictIncB, Bool.and_eq_true, decide_eq_true_eq, ih, StrictInc, List.pairwise_cons] at ih ⊢
      constructor
      · rintro ⟨h01, h1, hp⟩
        refine ⟨?_, h1, hp⟩
        intro a ha
        rcases List.mem_cons.mp ha with rfl | ha
        · exact h01
        · exact lt_trans h01 (h1 a ha)
      · rintro ⟨h0, h1, hp⟩
        exact ⟨h0 x1 (by simp), h1, hp⟩

theorem wfB_iff (s : Spectrum) : wfB s = true ↔ WF s := by
  simp [wfB, WF, strictIncB_iff]

theorem validWave_strictInc (w : List ℚ) (h : validWave w = true) : StrictInc w := by
  simp only [validWave, Bool.and_eq_true] at h
  exact (strictIncB_iff w).mp h.2

theorem validWave_pos (w : List ℚ) (h : validWave w = true) : ∀ x ∈ w, 0 < x := by
  simp only [validWave, Bool.and_eq_true, List.all_eq_true, decide_eq_true_eq] at h
  exact h.1

theorem keepMask_sublist : ∀ (m : List Bool) (l : List ℚ), (keepMask m l).Sublist l := by
  intro m
  induction m with
  | nil => intro l; simp [keepMask]
  | cons b bs ih =>
    intro l
    cases l with
    | nil => simp [keepMask]
    | cons x xs =>
      cases b
      · simpa [keepMask] using (ih xs).cons x
      · simpa [keepMask] using (ih xs).cons₂ x

theorem keepMask_length_eq : ∀ (m : List Bool) (a b : List ℚ), a.length = b.length →
    (keepMask m a).length = (keepMask m b).length := by
  intro m
  induction m with
  | nil => intro a b _; simp [keepMask]
  | cons c cs ih =>
    intro a b h
    cases a with
    | nil => cases b with
      | nil => simp [keepMask]
      | cons y ys => simp at h
    | cons x xs => cases b with
      | nil => simp at h
      | cons y ys =>
        have h' : xs.length = ys.length := by simpa using h
        cases c <;> simp [keepMask, ih xs ys h']

theorem keepMask_zip_sublist : ∀ (m : List Bool) (a b : List ℚ),
    (List.zip (keepMask m a) (keepMask m b)).Sublist (List.zip a b) := by
  intro m
  induction m with
  | nil => intro a b; simp [keepMask]
  | cons c cs ih =>
    intro a b
    cases a with
    | nil => simp [keepMask]
    | cons x xs => cases b with
      | nil => simp [keepMask]
      | cons y ys =>
        cases c
        · simpa [keepMask] using (ih xs ys).cons (x, y)
        · simpa [keepMask] using (ih xs ys).cons₂ (x, y)

theorem mem_keepMask_map (p : ℚ → Bool) : ∀ (l : List ℚ) (x : ℚ), x ∈ keepMask (l.map p) l ↔ x ∈ l ∧ p x = true := by
  intro l
  induction l with
  | nil => intro x; simp [keepMask]
  | cons y ys ih =>
    intro x
    by_cases hy : p y = true
    · simp only [List.map_cons, keepMask, hy, if_true, List.mem_cons, ih]
      constructor
      · rintro (rfl | ⟨h1, h2⟩)
        · exact ⟨Or.inl rfl, hy⟩
        · exact ⟨Or.inr h1, h2⟩
      · rintro ⟨rfl | h1, h2⟩
        · exact Or.inl rfl
        · exact Or.inr ⟨h1, h2⟩
    · have hy' : p y = false := by simpa using hy
      simp only [List.map_cons, keepMask, hy', Bool.false_eq_true, if_false, List.mem_cons, ih]
      constructor
      · rintro ⟨h1, h2⟩; exact ⟨Or.inr h1, h2⟩
      · rintro ⟨rfl | h1, h2⟩
        · rw [hy'] at h2; cases h2
        · exact ⟨h1, h2⟩

theorem slice_sublist (a b : Nat) (l : List ℚ) : (slice a b l).Sublist l :=
  (List.take_sublist _ _).trans (List.drop_sublist _ _)

theorem slice_length_eq (a b : Nat) (l1 l2 : List ℚ) (h : l1.length = l2.length) :
    (slice a b l1).length = (slice a b l2).length := by
  simp [slice, h]

theorem slice_zip (a b : Nat) (l1 l2 : List ℚ) :
    List.zip (slice a b l1) (slice a b l2) = ((List.zip l1 l2).drop a).take (b + 1 - a) := by
  simp [slice, List.zip, List.take_zipWith, List.drop_zipWith]

theorem slice_zip_sublist (a b : Nat) (l1 l2 : List ℚ) :
    (List.zip (slice a b l1) (slice a b l2)).Sublist (List.zip l1 l2) := by
  rw [slice_zip]; exact (List.take_sublist _ _).trans (List.drop_sublist _ _)

end Lentil.Spec
