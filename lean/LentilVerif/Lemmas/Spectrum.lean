import Mathlib.Tactic.Ring
import Mathlib.Tactic.FieldSimp
import Mathlib.Tactic.NormNum
import Mathlib.Tactic.Linarith
import Mathlib.Algebra.Order.Field.Rat
import LentilVerif.Model.Spectrum
/-! helper lemmas for C15/C13: strict monotonicity as `Pairwise`, mask/slice selections, lengths -/
namespace Lentil.Spec

abbrev StrictInc (l : List ℚ) : Prop := l.Pairwise (· < ·)

/-- the invariant as a proposition -/
def WF (s : Spectrum) : Prop := StrictInc s.wave ∧ s.wave.length = s.value.length

theorem strictIncB_iff : ∀ l : List ℚ, strictIncB l = true ↔ StrictInc l := by
  intro l
  induction l with
  | nil => simp [strictIncB, StrictInc]
  | cons x0 l ih =>
    cases l with
    | nil => simp [strictIncB, StrictInc]
    | cons x1 xs =>
      simp only [strictIncB, Bool.and_eq_true, decide_eq_true_eq, ih, StrictInc, List.pairwise_cons] at ih ⊢
      constructor
      · rintro ⟨h01, h1, hp⟩
        refine ⟨?_, h1, hp⟩
        intro a ha
        rcases List.mem_cons.mp ha with rfl | ha
        · exact h01
        · exact lt_trans h01 (h1 a ha)
      · rintro ⟨h0, h1, hp⟩
        exact ⟨h0 x1 (by simp), h1, hp⟩

theorem wfB_iff (s : Spectrum) : wfB s = true ↔ WF s := by
  simp [wfB, WF, strictIncB_iff]

theorem validWave_strictInc (w : List ℚ) (h : validWave w = true) : StrictInc w := by
  simp only [validWave, Bool.and_eq_true] at h
  exact (strictIncB_iff w).mp h.2

theorem validWave_pos (w : List ℚ) (h : validWave w = true) : ∀ x ∈ w, 0 < x := by
  simp only [validWave, Bool.and_eq_true, List.all_eq_true, decide_eq_true_eq] at h
  exact h.1

theorem keepMask_sublist : ∀ (m : List Bool) (l : List ℚ), (keepMask m l).Sublist l := by
  intro m
  induction m with
  | nil => intro l; simp [keepMask]
  | cons b bs ih =>
    intro l
    cases l with
    | nil => simp [keepMask]
    | cons x xs =>
      cases b
      · simpa [keepMask] using (ih xs).cons x
      · simpa [keepMask] using (ih xs).cons₂ x

theorem keepMask_length_eq : ∀ (m : List Bool) (a b : List ℚ), a.length = b.length →
    (keepMask m a).length = (keepMask m b).length := by
  intro m
  induction m with
  | nil => intro a b _; simp [keepMask]
  | cons c cs ih =>
    intro a b h
    cases a with
    | nil => cases b with
      | nil => simp [keepMask]
      | cons y ys => simp at h
    | cons x xs => cases b with
      | nil => simp at h
      | cons y ys =>
        have h' : xs.length = ys.length := by simpa using h
        cases c <;> simp [keepMask, ih xs ys h']

theorem keepMask_zip_sublist : ∀ (m : List Bool) (a b : List ℚ),
    (List.zip (keepMask m a) (keepMask m b)).Sublist (List.zip a b) := by
  intro m
  induction m with
  | nil => intro a b; simp [keepMask]
  | cons c cs ih =>
    intro a b
    cases a with
    | nil => simp [keepMask]
    | cons x xs => cases b with
      | nil => simp [keepMask]
      | cons y ys =>
        cases c
        · simpa [keepMask] using (ih xs ys).cons (x, y)
        · simpa [keepMask] using (ih xs ys).cons₂ (x, y)

theorem mem_keepMask_map (p : ℚ → Bool) : ∀ (l : List ℚ) (x : ℚ), x ∈ keepMask (l.map p) l ↔ x ∈ l ∧ p x = true := by
  intro l
  induction l with
  | nil => intro x; simp [keepMask]
  | cons y ys ih =>
    intro x
    by_cases hy : p y = true
    · simp only [List.map_cons, keepMask, hy, if_true, List.mem_cons, ih]
      constructor
      · rintro (rfl | ⟨h1, h2⟩)
        · exact ⟨Or.inl rfl, hy⟩
        · exact ⟨Or.inr h1, h2⟩
      · rintro ⟨rfl | h1, h2⟩
        · exact Or.inl rfl
        · exact Or.inr ⟨h1, h2⟩
    · have hy' : p y = false := by simpa using hy
      simp only [List.map_cons, keepMask, hy', Bool.false_eq_true, if_false, List.mem_cons, ih]
      constructor
      · rintro ⟨h1, h2⟩; exact ⟨Or.inr h1, h2⟩
      · rintro ⟨rfl | h1, h2⟩
        · rw [hy'] at h2; cases h2
        · exact ⟨h1, h2⟩

theorem slice_sublist (a b : Nat) (l : List ℚ) : (slice a b l).Sublist l :=
  (List.take_sublist _ _).trans (List.drop_sublist _ _)

theorem slice_length_eq (a b : Nat) (l1 l2 : List ℚ) (h : l1.length = l2.length) :
    (slice a b l1).length = (slice a b l2).length := by
  simp [slice, h]

theorem slice_zip (a b : Nat) (l1 l2 : List ℚ) :
    List.zip (slice a b l1) (slice a b l2) = ((List.zip l1 l2).drop a).take (b + 1 - a) := by
  simp [slice, List.zip, List.take_zipWith, List.drop_zipWith]

theorem slice_zip_sublist (a b : Nat) (l1 l2 : List ℚ) :
    (List.zip (slice a b l1) (slice a b l2)).Sublist (List.zip l1 l2) := by
  rw [slice_zip]; exact (List.take_sublist _ _).trans (List.drop_sublist _ _)

theorem wf_keepMask (m : List Bool) (s : Spectrum) (h : WF s) : WF ⟨keepMask m s.wave, keepMask m s.value⟩ :=
  ⟨h.1.sublist (keepMask_sublist m s.wave), keepMask_length_eq m _ _ h.2⟩

theorem sample_length (s : Spectrum) (fl fr : ℚ) (xs v : List ℚ) (h : sample s fl fr xs = .ok v) :
    v.length = xs.length := by
  simp only [sample] at h
  split at h
  · cases h
  · cases h; simp

theorem midpoints_length : ∀ c : List ℚ, (midpoints c).length = c.length - 1 := by
  intro c
  induction c with
  | nil => simp [midpoints]
  | cons c0 c ih => cases c with
    | nil => simp [midpoints]
    | cons c1 cs => simp only [midpoints, List.length_cons] at ih ⊢; omega

theorem trapzBins_length : ∀ x f : List ℚ, x.length = f.length → (trapzBins x f).length = x.length - 1 := by
  intro x
  induction x with
  | nil => intro f _; simp [trapzBins]
  | cons x0 x ih =>
    intro f h
    cases x with
    | nil => simp [trapzBins]
    | cons x1 xs => cases f with
      | nil => simp at h
      | cons f0 f => cases f with
        | nil => simp at h
        | cons f1 fs =>
          have := ih (f1 :: fs) (by simpa using h)
          simp only [trapzBins, List.length_cons] at this ⊢; omega

theorem trapzBins_nonneg : ∀ x f : List ℚ, StrictInc x → (∀ v ∈ f, 0 ≤ v) → ∀ b ∈ trapzBins x f, 0 ≤ b := by
  intro x
  induction x with
  | nil => intro f _ _ b hb; simp [trapzBins] at hb
  | cons x0 x ih =>
    intro f hx hf b hb
    cases x with
    | nil => simp [trapzBins] at hb
    | cons x1 xs => cases f with
      | nil => simp [trapzBins] at hb
      | cons f0 f => cases f with
        | nil => simp [trapzBins] at hb
        | cons f1 fs =>
          simp only [trapzBins, Gen.trapzTerm, List.mem_cons] at hb
          rcases hb with rfl | hb
          · have h01 : x0 < x1 := (List.pairwise_cons.mp hx).1 x1 (by simp)
            have := hf f0 (by simp); have := hf f1 (by simp)
            have : 0 ≤ x1 - x0 := by linarith
            positivity
          · exact ih (f1 :: fs) (List.pairwise_cons.mp hx).2 (fun v hv => hf v (by simp [hv])) b hb

theorem sumL_eq_sum (l : List ℚ) : sumL l = l.sum := by
  simp [sumL, List.sum_eq_foldl]

theorem head_le_of_strictInc : ∀ (l : List ℚ) (a : ℚ), StrictInc l → l.head? = some a → ∀ x ∈ l, a ≤ x := by
  intro l a hl ha x hx
  cases l with
  | nil => simp at ha
  | cons y ys =>
    simp at ha; subst ha
    rcases List.mem_cons.mp hx with rfl | hx
    · exact le_refl _
    · exact le_of_lt ((List.pairwise_cons.mp hl).1 x hx)

theorem le_getLast_of_strictInc : ∀ (l : List ℚ) (b : ℚ), StrictInc l → l.getLast? = some b → ∀ x ∈ l, x ≤ b := by
  intro l
  induction l with
  | nil => intro b _ hb; simp at hb
  | cons y ys ih =>
    intro b hl hb x hx
    cases ys with
    | nil => simp at hb; subst hb; simp at hx; subst hx; exact le_refl _
    | cons z zs =>
      rw [List.getLast?_cons_cons] at hb
      rcases List.mem_cons.mp hx with rfl | hx
      · have h1 : x < z := (List.pairwise_cons.mp hl).1 z (by simp)
        exact le_trans (le_of_lt h1) (ih b (List.pairwise_cons.mp hl).2 hb z (by simp))
      · exact ih b (List.pairwise_cons.mp hl).2 hb x hx

theorem firstIdx_spec (p : ℚ → Bool) : ∀ (l : List ℚ) (a : ℕ), firstIdx p l = some a →
    (∃ v, l[a]? = some v ∧ p v = true) ∧ ∀ j, j < a → ∀ v, l[j]? = some v → p v = false := by
  intro l
  induction l with
  | nil => intro a h; simp [firstIdx] at h
  | cons x xs ih =>
    intro a h
    by_cases hx : p x = true
    · simp [firstIdx, hx] at h; subst h
      exact ⟨⟨x, by simp, hx⟩, fun j hj => absurd hj (Nat.not_lt_zero j)⟩
    · have hx' : p x = false := by simpa using hx
      simp only [firstIdx, hx', Bool.false_eq_true, if_false, Option.map_eq_some_iff] at h
      obtain ⟨a', ha', rfl⟩ := h
      obtain ⟨⟨v, hv, hpv⟩, hlt⟩ := ih a' ha'
      refine ⟨⟨v, by simpa using hv, hpv⟩, ?_⟩
      intro j hj w hw
      cases j with
      | zero => simp at hw; subst hw; exact hx'
      | succ j => exact hlt j (by omega) w (by simpa using hw)

theorem lastIdx_spec (p : ℚ → Bool) (l : List ℚ) (b : ℕ) (h : lastIdx p l = some b) :
    (∃ v, l[b]? = some v ∧ p v = true) ∧ ∀ j, b < j → ∀ v, l[j]? = some v → p v = false := by
  simp only [lastIdx, Option.map_eq_some_iff] at h
  obtain ⟨i, hi, rfl⟩ := h
  obtain ⟨⟨v, hv, hpv⟩, hlt⟩ := firstIdx_spec p l.reverse i hi
  have hil : i < l.length := by
    have := (List.getElem?_eq_some_iff.mp hv).1; simpa using this
  refine ⟨⟨v, ?_, hpv⟩, ?_⟩
  · rw [List.getElem?_reverse hil] at hv; exact hv
  · intro j hj w hw
    have hjl : j < l.length := (List.getElem?_eq_some_iff.mp hw).1
    have hj' : l.length - 1 - j < i := by omega
    apply hlt (l.length - 1 - j) hj' w
    rw [List.getElem?_reverse (by omega)]
    have : l.length - 1 - (l.length - 1 - j) = j := by omega
    rw [this]; exact hw

theorem firstIdx_none (p : ℚ → Bool) : ∀ (l : List ℚ), firstIdx p l = none → ∀ v ∈ l, p v = false := by
  intro l
  induction l with
  | nil => intro _ v hv; simp at hv
  | cons x xs ih =>
    intro h v hv
    by_cases hx : p x = true
    · simp [firstIdx, hx] at h
    · have hx' : p x = false := by simpa using hx
      simp only [firstIdx, hx', Bool.false_eq_true, if_false, Option.map_eq_none_iff] at h
      rcases List.mem_cons.mp hv with rfl | hv
      · exact hx'
      · exact ih h v hv

theorem lastIdx_none (p : ℚ → Bool) (l : List ℚ) (h : lastIdx p l = none) : ∀ v ∈ l, p v = false := by
  simp only [lastIdx, Option.map_eq_none_iff] at h
  intro v hv
  exact firstIdx_none p l.reverse h v (by simpa using hv)

theorem keepMask_zipWith (f : ℚ → ℚ → ℚ) : ∀ (m : List Bool) (a b : List ℚ),
    keepMask m (List.zipWith f a b) = List.zipWith f (keepMask m a) (keepMask m b) := by
  intro m
  induction m with
  | nil => intro a b; simp [keepMask]
  | cons c cs ih =>
    intro a b
    cases a with
    | nil => cases c <;> simp [keepMask]
    | cons x xs => cases b with
      | nil =>
        cases c
        · simp [keepMask]
        · simp [keepMask]
      | cons y ys => cases c <;> simp [keepMask, ih]

theorem keepMask_append : ∀ (m1 m2 : List Bool) (l1 l2 : List ℚ), m1.length = l1.length →
    keepMask (m1 ++ m2) (l1 ++ l2) = keepMask m1 l1 ++ keepMask m2 l2 := by
  intro m1
  induction m1 with
  | nil => intro m2 l1 l2 h; cases l1 with
    | nil => rfl
    | cons _ _ => simp at h
  | cons c cs ih =>
    intro m2 l1 l2 h
    cases l1 with
    | nil => simp at h
    | cons x xs =>
      have h' : cs.length = xs.length := by simpa using h
      cases c <;> simp [keepMask, ih m2 xs l2 h']

theorem keepMask_all_false : ∀ (l m : List ℚ) (p : ℚ → Bool), (∀ x ∈ l, p x = false) → m.length = l.length →
    keepMask (l.map p) m = [] := by
  intro l
  induction l with
  | nil => intro m p _ h; cases m <;> simp [keepMask]
  | cons x xs ih =>
    intro m p hp h
    cases m with
    | nil => simp at h
    | cons y ys =>
      have : p x = false := hp x (by simp)
      simp only [List.map_cons, keepMask, this, Bool.false_eq_true, if_false]
      exact ih ys p (fun z hz => hp z (by simp [hz])) (by simpa using h)

theorem keepMask_congr : ∀ (l m : List ℚ) (p q : ℚ → Bool), (∀ x ∈ l, p x = q x) → keepMask (l.map p) m = keepMask (l.map q) m := by
  intro l m p q h
  have : l.map p = l.map q := List.map_congr_left h
  rw [this]

theorem validWave_iff (w : List ℚ) : validWave w = true ↔ (∀ x ∈ w, 0 < x) ∧ StrictInc w := by
  simp only [validWave, Bool.and_eq_true, List.all_eq_true, decide_eq_true_eq, strictIncB_iff]

theorem validWave_map_mul (w : List ℚ) (k : ℚ) (hk : 0 < k) (h : validWave w = true) : validWave (w.map (· * k)) = true := by
  rw [validWave_iff] at h ⊢
  refine ⟨?_, ?_⟩
  · intro x hx
    obtain ⟨y, hy, rfl⟩ := List.mem_map.mp hx
    exact mul_pos (h.1 y hy) hk
  · exact List.Pairwise.map _ (fun a b hab => (mul_lt_mul_iff_of_pos_right hk).mpr hab) h.2

theorem linspace_valid (a b : ℚ) (n : ℕ) (ha : 0 < a) (hab : a < b) (hn : 2 ≤ n) : validWave (linspace a b n) = true := by
  rw [validWave_iff]
  unfold linspace
  have hn1 : ¬ n = 1 := by omega
  rw [if_neg hn1]
  have hstep : 0 < (b - a) / ((n - 1 : ℕ) : ℚ) := by
    apply div_pos (by linarith)
    have : 0 < n - 1 := by omega
    exact_mod_cast this
  refine ⟨?_, ?_⟩
  · intro x hx
    obtain ⟨i, _, rfl⟩ := List.mem_map.mp hx
    have : (0 : ℚ) ≤ (i : ℚ) := by exact_mod_cast Nat.zero_le i
    nlinarith [mul_nonneg this (le_of_lt hstep)]
  · apply List.Pairwise.map _ _ (List.pairwise_lt_range (n := n))
    intro i j hij
    have : (i : ℚ) < (j : ℚ) := by exact_mod_cast hij
    nlinarith


/-- the same spectrum with its wavelengths expressed in another unit (factor k) -/
def scaleS (k : ℚ) (s : Spectrum) : Spectrum := ⟨s.wave.map (· * k), s.value⟩

theorem keepMask_map (f : ℚ → ℚ) : ∀ (m : List Bool) (l : List ℚ), keepMask m (l.map f) = (keepMask m l).map f := by
  intro m
  induction m with
  | nil => intro l; simp [keepMask]
  | cons b bs ih =>
    intro l
    cases l with
    | nil => simp [keepMask]
    | cons x xs => cases b <;> simp [keepMask, ih]

theorem mask_gt_scale (k a : ℚ) (hk : 0 < k) (l : List ℚ) :
    (l.map (· * k)).map (fun w => !decide (a * k > w)) = l.map (fun w => !decide (a > w)) := by
  simp only [List.map_map]
  apply List.map_congr_left
  intro w _
  simp only [Function.comp, gt_iff_lt, mul_lt_mul_iff_of_pos_right hk]

theorem mask_lt_scale (k a : ℚ) (hk : 0 < k) (l : List ℚ) :
    (l.map (· * k)).map (fun w => !decide (a * k < w)) = l.map (fun w => !decide (a < w)) := by
  simp only [List.map_map]
  apply List.map_congr_left
  intro w _
  simp only [Function.comp, mul_lt_mul_iff_of_pos_right hk]

def cropStage1 (lo w0 : ℚ) (s : Spectrum) : Spectrum :=
  if Gen.cropLowGuard lo w0 then
    ⟨keepMask (s.wave.map fun w => !Gen.cropDropLow lo w) s.wave, keepMask (s.wave.map fun w => !Gen.cropDropLow lo w) s.value⟩
  else s

def cropStage2 (hi : ℚ) (s1 : Spectrum) : Outcome :=
  match s1.wave.getLast? with
  | none => (s1, some .indexError)
  | some wl =>
    if Gen.cropHighGuard hi wl then
      (⟨keepMask (s1.wave.map fun w => !Gen.cropDropHigh hi w) s1.wave, keepMask (s1.wave.map fun w => !Gen.cropDropHigh hi w) s1.value⟩, none)
    else (s1, none)

theorem crop_eq_stages (lo hi : ℚ) (s : Spectrum) :
    crop lo hi s = match s.wave.head? with
      | none => (s, some .indexError)
      | some w0 => cropStage2 hi (cropStage1 lo w0 s) := by
  cases h : s.wave.head? with
  | none => simp [crop, h]
  | some w0 =>
    simp only [crop, h, cropStage1, cropStage2]
    cases hl : (if Gen.cropLowGuard lo w0 = true then (⟨keepMask (s.wave.map fun w => !Gen.cropDropLow lo w) s.wave, keepMask (s.wave.map fun w => !Gen.cropDropLow lo w) s.value⟩ : Spectrum) else s).wave.getLast? <;> rfl

/-- the generated comparison operators of crop are homogeneous: scaling both sides by k > 0 does not change them -/
theorem cropOps_scale (k a w : ℚ) (hk : 0 < k) :
    Gen.cropDropLow (a * k) (w * k) = Gen.cropDropLow a w ∧ Gen.cropDropHigh (a * k) (w * k) = Gen.cropDropHigh a w ∧
    Gen.cropLowGuard (a * k) (w * k) = Gen.cropLowGuard a w ∧ Gen.cropHighGuard (a * k) (w * k) = Gen.cropHighGuard a w := by
  simp only [Gen.cropDropLow, Gen.cropDropHigh, Gen.cropLowGuard, Gen.cropHighGuard, gt_iff_lt, mul_lt_mul_iff_of_pos_right hk, and_self]

theorem mask_low_scale (k a : ℚ) (hk : 0 < k) (l : List ℚ) :
    (l.map (· * k)).map (fun w => !Gen.cropDropLow (a * k) w) = l.map (fun w => !Gen.cropDropLow a w) := by
  simp only [List.map_map]
  apply List.map_congr_left
  intro w _
  simp only [Function.comp, (cropOps_scale k a w hk).1]

theorem mask_high_scale (k a : ℚ) (hk : 0 < k) (l : List ℚ) :
    (l.map (· * k)).map (fun w => !Gen.cropDropHigh (a * k) w) = l.map (fun w => !Gen.cropDropHigh a w) := by
  simp only [List.map_map]
  apply List.map_congr_left
  intro w _
  simp only [Function.comp, (cropOps_scale k a w hk).2.1]

theorem cropStage1_scale (k lo w0 : ℚ) (hk : 0 < k) (s : Spectrum) :
    cropStage1 (lo * k) (w0 * k) (scaleS k s) = scaleS k (cropStage1 lo w0 s) := by
  simp only [cropStage1, (cropOps_scale k lo w0 hk).2.2.1]
  cases Gen.cropLowGuard lo w0
  · simp [scaleS]
  · simp only [scaleS, if_true, mask_low_scale k lo hk, keepMask_map]

theorem cropStage2_scale (k hi : ℚ) (hk : 0 < k) (s : Spectrum) :
    cropStage2 (hi * k) (scaleS k s) = (scaleS k (cropStage2 hi s).1, (cropStage2 hi s).2) := by
  simp only [cropStage2, scaleS, List.getLast?_map]
  cases hl : s.wave.getLast? with
  | none => simp
  | some wl =>
    simp only [Option.map_some, (cropOps_scale k hi wl hk).2.2.2]
    cases Gen.cropHighGuard hi wl
    · simp
    · simp only [if_true, mask_high_scale k hi hk, keepMask_map]

theorem interleave_length : ∀ (a b : List ℚ), a.length = b.length + 1 → (interleave a b).length = a.length + b.length := by
  intro a
  induction a with
  | nil => intro b h; simp at h
  | cons x xs ih =>
    intro b h
    cases b with
    | nil => simp [interleave]
    | cons y ys =>
      have := ih ys (by simpa using h)
      simp only [interleave, List.length_cons, this]; omega

theorem simpsBins_length : ∀ (k : ℕ) (x f : List ℚ), x.length = f.length → x.length = 2 * k + 1 → (simpsBins x f).length = k := by
  intro k
  induction k with
  | zero =>
    intro x f hl hx
    match x, f, hl, hx with
    | [x0], [f0], _, _ => simp [simpsBins]
  | succ k ih =>
    intro x f hl hx
    match x, f, hl, hx with
    | x0 :: x1 :: x2 :: xs, f0 :: f1 :: f2 :: fs, hl, hx =>
      have := ih (x2 :: xs) (f2 :: fs) (by simpa using hl) (by simp at hx ⊢; omega)
      simp [simpsBins, this]

theorem simpsPoints_length (sym intC : Bool) (c : List ℚ) (hc : 2 ≤ c.length) : (simpsPoints sym c intC).length = 2 * c.length + 1 := by
  match c, hc with
  | c0 :: c1 :: cs, _ =>
    have hm : ((midpoints (c0 :: c1 :: cs)).map (fun q : ℚ => if intC then truncQ q else q)).length = (c0 :: c1 :: cs).length - 1 := by
      rw [List.length_map, midpoints_length]
    have hi := interleave_length (c0 :: c1 :: cs) ((midpoints (c0 :: c1 :: cs)).map (fun q : ℚ => if intC then truncQ q else q))
      (by rw [hm]; simp)
    rw [hm] at hi
    cases hcs : (c1 :: cs).getLast? with
    | none => simp at hcs
    | some l =>
      cases hd : ((c0 :: c1 :: cs).dropLast).getLast? with
      | none => simp at hd
      | some p =>
        simp only [simpsPoints, List.getLast?_cons_cons, hcs, hd]
        cases sym
        · -- inside
          simp only [Bool.false_eq_true, if_false]
          generalize hx : interleave (c0 :: c1 :: cs) ((midpoints (c0 :: c1 :: cs)).map (fun q : ℚ => if intC then truncQ q else q)) = x at hi
          match x, hi with
          | x0 :: x1 :: rest, hi =>
            simp only []
            cases hA : (x1 :: rest).getLast? with
            | none => simp at hA
            | some l' =>
              cases hB : ((x0 :: (if intC then truncQ (x0 + (x1 - x0) / 2) else x0 + (x1 - x0) / 2) :: x1 :: rest).dropLast).getLast? with
              | none => simp at hB
              | some p' =>
                simp only [List.length_append, List.length_dropLast, List.length_cons, List.length_nil]
                simp only [List.length_cons] at hi
                omega
          | [], hi => simp at hi
          | [x0], hi => simp at hi; omega
        · simp only [if_true, List.length_cons, List.length_append] at hi ⊢
          simp at hi ⊢; omega


theorem seg_nonneg : ∀ (xs ys : List ℚ) (x : ℚ), StrictInc xs → (∀ y ∈ ys, 0 ≤ y) → (∀ a, xs.head? = some a → a ≤ x) →
    0 ≤ seg xs ys x := by
  intro xs
  induction xs with
  | nil => intro ys x _ hy _; cases ys with
    | nil => simp [seg]
    | cons y0 _ => simp only [seg]; exact hy y0 (by simp)
  | cons x0 xs ih =>
    intro ys x hs hy hx
    cases xs with
    | nil => cases ys with
      | nil => simp [seg]
      | cons y0 _ => simp only [seg]; exact hy y0 (by simp)
    | cons x1 rest =>
      cases ys with
      | nil => simp [seg]
      | cons y0 ys => cases ys with
        | nil => simp only [seg]; exact hy y0 (by simp)
        | cons y1 ys' =>
          have h01 : x0 < x1 := (List.pairwise_cons.mp hs).1 x1 (by simp)
          have hx0 : x0 ≤ x := hx x0 (by simp)
          have hy0 := hy y0 (by simp); have hy1 := hy y1 (by simp)
          by_cases hx1 : x ≤ x1
          · simp only [seg, hx1, if_true]
            have hd : 0 < x1 - x0 := by linarith
            have : (y1 - y0) / (x1 - x0) * (x - x0) + y0 = (y1 * (x - x0) + y0 * (x1 - x)) / (x1 - x0) := by
              field_simp; ring
            rw [this]
            apply div_nonneg _ (le_of_lt hd)
            have : 0 ≤ x - x0 := by linarith
            have : 0 ≤ x1 - x := by linarith
            positivity
          · simp only [seg, hx1, if_false]
            apply ih (y1 :: ys') x (List.pairwise_cons.mp hs).2 (fun y hy' => hy y (by simp at hy' ⊢; tauto))
            intro a ha; simp at ha; subst ha; linarith

theorem interpAt_nonneg (xs ys : List ℚ) (fl fr x : ℚ) (hs : StrictInc xs) (hy : ∀ y ∈ ys, 0 ≤ y) (hfl : 0 ≤ fl) (hfr : 0 ≤ fr) :
    0 ≤ interpAt xs ys fl fr x := by
  unfold interpAt
  cases ha : xs.head? with
  | none => simpa using hfl
  | some a =>
    cases hb : xs.getLast? with
    | none => simpa using hfl
    | some b =>
      simp only []
      by_cases h1 : x < a
      · simp [h1, hfl]
      · by_cases h2 : b < x
        · simp [h1, h2, hfr]
        · simp only [h1, h2, if_false]
          exact seg_nonneg xs ys x hs hy (fun a' ha' => by rw [ha] at ha'; cases ha'; linarith)

/-- adjacent entries are non-decreasing -/
def adjLe : List ℚ → Prop
  | x0 :: x1 :: xs => x0 ≤ x1 ∧ adjLe (x1 :: xs)
  | _ => True

theorem trapzBins_nonneg_adj : ∀ x f : List ℚ, adjLe x → (∀ v ∈ f, 0 ≤ v) → ∀ b ∈ trapzBins x f, 0 ≤ b := by
  intro x
  induction x with
  | nil => intro f _ _ b hb; simp [trapzBins] at hb
  | cons x0 x ih =>
    intro f hx hf b hb
    cases x with
    | nil => simp [trapzBins] at hb
    | cons x1 xs => cases f with
      | nil => simp [trapzBins] at hb
      | cons f0 f => cases f with
        | nil => simp [trapzBins] at hb
        | cons f1 fs =>
          simp only [trapzBins, Gen.trapzTerm, List.mem_cons] at hb
          rcases hb with rfl | hb
          · have h01 : x0 ≤ x1 := hx.1
            have := hf f0 (by simp); have := hf f1 (by simp)
            have : 0 ≤ x1 - x0 := by linarith
            positivity
          · exact ih (f1 :: fs) hx.2 (fun v hv => hf v (by simp [hv])) b hb

theorem adjLe_edges : ∀ (c : List ℚ) (c0 e hiE : ℚ), StrictInc (c0 :: c) → c ≠ [] → e ≤ c0 →
    (∀ l, (c0 :: c).getLast? = some l → l ≤ hiE) → adjLe (e :: midpoints (c0 :: c) ++ [hiE]) := by
  intro c
  induction c with
  | nil => intro c0 e hiE _ hne; exact absurd rfl hne
  | cons c1 cs ih =>
    intro c0 e hiE hs _ he hl
    have h01 : c0 < c1 := (List.pairwise_cons.mp hs).1 c1 (by simp)
    have hm0 : c0 ≤ Gen.binMid c0 c1 := by simp only [Gen.binMid]; linarith
    have hm1 : Gen.binMid c0 c1 ≤ c1 := by simp only [Gen.binMid]; linarith
    cases cs with
    | nil =>
      simp only [midpoints, List.cons_append, List.nil_append, adjLe]
      exact ⟨le_trans he hm0, le_trans hm1 (hl c1 (by simp)), trivial⟩
    | cons c2 cs' =>
      have := ih c1 (Gen.binMid c0 c1) hiE (List.pairwise_cons.mp hs).2 (by simp) hm1
        (fun l hl' => hl l (by rw [List.getLast?_cons_cons]; exact hl'))
      simp only [midpoints, List.cons_append, adjLe] at this ⊢
      exact ⟨le_trans he hm0, this⟩

theorem secondLast_lt_last (l : List ℚ) (cl cp : ℚ) (hs : StrictInc l) (h1 : l.getLast? = some cl) (h2 : l.dropLast.getLast? = some cp) :
    cp < cl := by
  have hne : l ≠ [] := by intro h; simp [h] at h1
  have hd := List.dropLast_append_getLast? cl (by simpa using h1)
  rw [← hd] at hs
  have := (List.pairwise_append.mp hs).2.2 cp (List.mem_of_getLast? h2) cl (by simp)
  exact this

theorem adjLe_trapzEdges (sym : Bool) (c : List ℚ) (hs : StrictInc c) : adjLe (trapzEdges sym c) := by
  unfold trapzEdges
  match c, hs with
  | [], _ => simp [adjLe]
  | [c0], _ => simp [adjLe]
  | c0 :: c1 :: cs, hs =>
    cases hl : (c0 :: c1 :: cs).getLast? with
    | none => simp [adjLe]
    | some cl =>
      cases hp : ((c0 :: c1 :: cs).dropLast).getLast? with
      | none => simp [adjLe]
      | some cp =>
        simp only []
        have hlt := secondLast_lt_last _ cl cp hs hl hp
        have h01 : c0 < c1 := (List.pairwise_cons.mp hs).1 c1 (by simp)
        apply adjLe_edges (c1 :: cs) c0 _ _ hs (by simp)
        · cases sym <;> simp [Gen.binEndLo] <;> linarith
        · intro l hl'; rw [hl] at hl'; cases hl'
          cases sym <;> simp [Gen.binEndHi] <;> linarith


theorem adjLe_of_strictInc : ∀ l : List ℚ, StrictInc l → adjLe l := by
  intro l
  induction l with
  | nil => intro _; trivial
  | cons x xs ih =>
    intro h
    cases xs with
    | nil => trivial
    | cons y ys => exact ⟨le_of_lt ((List.pairwise_cons.mp h).1 y (by simp)), ih (List.pairwise_cons.mp h).2⟩

theorem trapz_nonneg : ∀ w v : List ℚ, adjLe w → (∀ y ∈ v, 0 ≤ y) → 0 ≤ trapz w v := by
  intro w
  induction w with
  | nil => intro v _ _; simp [trapz]
  | cons x0 w ih =>
    intro v hw hv
    cases w with
    | nil => simp [trapz]
    | cons x1 xs => cases v with
      | nil => simp [trapz]
      | cons y0 v => cases v with
        | nil => simp [trapz]
        | cons y1 ys =>
          have := ih (y1 :: ys) hw.2 (fun y hy => hv y (by simp [hy]))
          have h0 := hv y0 (by simp); have h1 := hv y1 (by simp)
          have hx : 0 ≤ x1 - x0 := by have := hw.1; linarith
          simp only [trapz]
          have hs : 0 ≤ y1 + y0 := by linarith
          have : 0 ≤ (x1 - x0) * (y1 + y0) / 2 := div_nonneg (mul_nonneg hx hs) (by norm_num)
          linarith

theorem mem_keepMask (m : List Bool) : ∀ (l : List ℚ) (x : ℚ), x ∈ keepMask m l → x ∈ l :=
  fun l x hx => (keepMask_sublist m l).subset hx

theorem sumL_nonneg (l : List ℚ) (h : ∀ x ∈ l, 0 ≤ x) : 0 ≤ sumL l := by
  rw [sumL_eq_sum]
  induction l with
  | nil => simp
  | cons a l ih =>
    have := ih (fun x hx => h x (by simp [hx]))
    have := h a (by simp)
    simp only [List.sum_cons]; linarith

/-- the interpolant of samples lying on a line is that line (inside the sampled range) -/
theorem seg_linear (a b : ℚ) : ∀ (xs : List ℚ) (x : ℚ), StrictInc xs → 2 ≤ xs.length →
    (∀ l, xs.getLast? = some l → x ≤ l) → seg xs (xs.map fun t => a * t + b) x = a * x + b := by
  intro xs
  induction xs with
  | nil => intro x _ h; simp at h
  | cons x0 xs ih =>
    intro x hs h2 hl
    cases xs with
    | nil => simp at h2
    | cons x1 rest =>
      have h01 : x0 < x1 := (List.pairwise_cons.mp hs).1 x1 (by simp)
      simp only [List.map_cons, seg]
      by_cases hx1 : x ≤ x1
      · simp only [hx1, if_true]
        have hd : x1 - x0 ≠ 0 := by linarith [h01]
        field_simp
        ring
      · simp only [hx1, if_false]
        have hrest : rest ≠ [] := by
          intro hr; subst hr
          have := hl x1 (by simp); exact hx1 this
        have := ih x (List.pairwise_cons.mp hs).2
          (by cases rest with
              | nil => exact absurd rfl hrest
              | cons _ _ => simp)
          (fun l hl' => hl l (by rw [List.getLast?_cons_cons]; exact hl'))
        simpa using this

theorem interpAt_linear (a b fl fr : ℚ) (xs : List ℚ) (x lo hi : ℚ) (hs : StrictInc xs) (h2 : 2 ≤ xs.length)
    (hlo : xs.head? = some lo) (hhi : xs.getLast? = some hi) (h1 : lo ≤ x) (h3 : x ≤ hi) :
    interpAt xs (xs.map fun t => a * t + b) fl fr x = a * x + b := by
  unfold interpAt
  simp only [hlo, hhi, not_lt.mpr h1, not_lt.mpr h3, if_false]
  exact seg_linear a b xs x hs h2 (fun l hl => by rw [hhi] at hl; cases hl; exact h3)

/-- exact integrals of the line a·λ + b over consecutive edges -/
def exactBins (a b : ℚ) : List ℚ → List ℚ
  | x0 :: x1 :: xs => (a * (x1 ^ 2 - x0 ^ 2) / 2 + b * (x1 - x0)) :: exactBins a b (x1 :: xs)
  | _ => []

theorem trapzBins_linear (a b : ℚ) : ∀ x : List ℚ, trapzBins x (x.map fun t => a * t + b) = exactBins a b x := by
  intro x
  induction x with
  | nil => rfl
  | cons x0 x ih =>
    cases x with
    | nil => rfl
    | cons x1 xs =>
      simp only [List.map_cons] at ih ⊢
      simp only [trapzBins, exactBins, ih, Gen.trapzTerm]
      congr 1
      ring


theorem simpsBins_nonneg_adj (x f : List ℚ) : adjLe x → (∀ v ∈ f, 0 ≤ v) → ∀ b ∈ simpsBins x f, 0 ≤ b := by
  fun_induction simpsBins x f with
  | case1 x0 x1 x2 xs f0 f1 f2 fs ih =>
    intro hx hf b hb
    simp only [List.mem_cons] at hb
    rcases hb with rfl | hb
    · have h01 := hx.1; have h12 := hx.2.1
      have := hf f0 (by simp); have := hf f1 (by simp); have := hf f2 (by simp)
      have : 0 ≤ x2 - x0 := by linarith
      simp only [Gen.simpsTerm]
      have hsum : 0 ≤ f0 + 4 * f1 + f2 := by linarith
      exact mul_nonneg (div_nonneg this (by norm_num)) hsum
    · exact ih hx.2.2 (fun v hv => hf v (by simp at hv ⊢; tauto)) b hb
  | case2 x f h => intro _ _ b hb; simp at hb

theorem adjLe_interleave : ∀ (c : List ℚ) (c0 e hiE : ℚ), StrictInc (c0 :: c) → e ≤ c0 →
    (∀ l, (c0 :: c).getLast? = some l → l ≤ hiE) → adjLe (e :: interleave (c0 :: c) (midpoints (c0 :: c)) ++ [hiE]) := by
  intro c
  induction c with
  | nil =>
    intro c0 e hiE _ he hl
    simp only [midpoints, interleave, List.cons_append, List.nil_append, adjLe]
    exact ⟨he, hl c0 (by simp), trivial⟩
  | cons c1 cs ih =>
    intro c0 e hiE hs he hl
    have h01 : c0 < c1 := (List.pairwise_cons.mp hs).1 c1 (by simp)
    have hm0 : c0 ≤ Gen.binMid c0 c1 := by simp only [Gen.binMid]; linarith
    have hm1 : Gen.binMid c0 c1 ≤ c1 := by simp only [Gen.binMid]; linarith
    have := ih c1 (Gen.binMid c0 c1) hiE (List.pairwise_cons.mp hs).2 hm1
      (fun l hl' => hl l (by rw [List.getLast?_cons_cons]; exact hl'))
    simp only [midpoints, interleave, List.cons_append, adjLe] at this ⊢
    exact ⟨he, hm0, this⟩

theorem adjLe_simpsPoints_symmetric (c : List ℚ) (hs : StrictInc c) : adjLe (simpsPoints true c false) := by
  unfold simpsPoints
  match c, hs with
  | [], _ => simp [adjLe]
  | [c0], _ => simp [adjLe]
  | c0 :: c1 :: cs, hs =>
    cases hl : (c0 :: c1 :: cs).getLast? with
    | none => simp [adjLe]
    | some cl =>
      cases hp : ((c0 :: c1 :: cs).dropLast).getLast? with
      | none => simp [adjLe]
      | some cp =>
        have hlt := secondLast_lt_last _ cl cp hs hl hp
        have h01 : c0 < c1 := (List.pairwise_cons.mp hs).1 c1 (by simp)
        have hid : (midpoints (c0 :: c1 :: cs)).map (fun q : ℚ => if false = true then truncQ q else q) = midpoints (c0 :: c1 :: cs) := by simp
        simp only [Bool.false_eq_true, if_false, if_true]
        simp only [Bool.false_eq_true, if_false] at hid
        rw [hid]
        apply adjLe_interleave (c1 :: cs) c0 _ _ hs
        · simp only [Gen.binEndLo]; linarith
        · intro l hl'; rw [hl] at hl'; cases hl'; simp only [Gen.binEndHi]; linarith


/-- the line through (x0, y0), (x1, y1) -/
def lineThrough (x0 y0 x1 y1 x : ℚ) : ℚ := y0 + (y1 - y0) / (x1 - x0) * (x - x0)
/-- a primitive of that line: `linePrim (x + h) − linePrim x = h·lineThrough x + slope·h²/2` (`linePrim_is_primitive`) -/
def linePrim (x0 y0 x1 y1 x : ℚ) : ℚ := y0 * x + (y1 - y0) / (x1 - x0) * (x - x0) ^ 2 / 2

theorem seg_on_segment : ∀ (xs ys : List ℚ) (x : ℚ) (i : ℕ) (a b ya yb : ℚ), StrictInc xs →
    xs[i]? = some a → xs[i + 1]? = some b → ys[i]? = some ya → ys[i + 1]? = some yb → a ≤ x → x ≤ b →
    seg xs ys x = lineThrough a ya b yb x := by
  intro xs
  induction xs with
  | nil => intro ys x i a b ya yb _ ha; simp at ha
  | cons x0 xs ih =>
    intro ys x i a b ya yb hs ha hb hya hyb hax hxb
    cases xs with
    | nil => simp at hb
    | cons x1 rest =>
      cases ys with
      | nil => simp at hya
      | cons y0 ys => cases ys with
        | nil => simp at hyb
        | cons y1 ys' =>
          have h01 : x0 < x1 := (List.pairwise_cons.mp hs).1 x1 (by simp)
          have hs' := (List.pairwise_cons.mp hs).2
          cases i with
          | zero =>
            simp at ha hb hya hyb; subst ha; subst hb; subst hya; subst hyb
            simp only [seg, hxb, if_true, lineThrough]; ring
          | succ j =>
            simp only [List.getElem?_cons_succ] at ha hb hya hyb
            -- a is an element of the tail, so x1 ≤ a
            have hx1a : x1 ≤ a := head_le_of_strictInc (x1 :: rest) x1 hs' (by simp) a (List.mem_of_getElem? ha)
            by_cases hx1 : x ≤ x1
            · -- then x = x1 = a and j = 0
              have hxa : x = a := le_antisymm (le_trans hx1 hx1a) hax
              have hax1 : a = x1 := le_antisymm (by rw [← hxa]; exact hx1) hx1a
              have hj : j = 0 := by
                by_contra hj
                obtain ⟨k, rfl⟩ := Nat.exists_eq_succ_of_ne_zero hj
                simp only [List.getElem?_cons_succ] at ha
                have := (List.pairwise_cons.mp hs').1 a (List.mem_of_getElem? ha)
                linarith
              subst hj
              simp at hya; subst hya
              have hxx1 : x = x1 := hxa.trans hax1
              subst hxx1
              have hd : x - x0 ≠ 0 := by linarith
              subst hax1
              simp only [seg, le_refl, if_true, lineThrough, sub_self, mul_zero, add_zero]
              field_simp; ring
            · simp only [seg, hx1, if_false]
              exact ih (y1 :: ys') x j a b ya yb hs' ha hb hya hyb hax hxb


theorem trapzBins_getElem : ∀ (x f : List ℚ) (k : ℕ) (e0 e1 f0 f1 : ℚ),
    x[k]? = some e0 → x[k + 1]? = some e1 → f[k]? = some f0 → f[k + 1]? = some f1 →
    (trapzBins x f)[k]? = some (Gen.trapzTerm e0 e1 f0 f1) := by
  intro x
  induction x with
  | nil => intro f k e0 e1 f0 f1 h; simp at h
  | cons x0 x ih =>
    intro f k e0 e1 f0 f1 h0 h1 g0 g1
    cases x with
    | nil => simp at h1
    | cons x1 xs => cases f with
      | nil => simp at g0
      | cons y0 f => cases f with
        | nil => simp at g1
        | cons y1 fs =>
          cases k with
          | zero => simp at h0 h1 g0 g1; subst h0; subst h1; subst g0; subst g1; simp [trapzBins]
          | succ j =>
            simp only [List.getElem?_cons_succ] at h0 h1 g0 g1
            simp only [trapzBins, List.getElem?_cons_succ]
            exact ih (y1 :: fs) j e0 e1 f0 f1 h0 h1 g0 g1


end Lentil.Spec
