import LentilVerif.Model.Fourier
import Mathlib.Analysis.SpecialFunctions.Trigonometric.Basic
import Mathlib.RingTheory.RootsOfUnity.Complex
import Mathlib.Algebra.BigOperators.Intervals
/-! Helper lemmas for the Fourier model at `K = ℂ`, `R = ℝ` (C01, C05, C19): the instantiation, folds as `Finset` sums,
the kernel as a complex exponential, roots-of-unity orthogonality over a centred period, generic 1-D inversion and
Parseval for a kernel with orthogonal rows, and their lifts to two axes. -/
open Finset

namespace Lentil

/-! ## instantiation at ℝ / ℂ -/

noncomputable instance instRealLikeReal : RealLike ℝ := ⟨fun i => (i : ℝ), 2 * Real.pi, Real.sqrt, fun x => |x|⟩
noncomputable instance instCxLikeComplex : CxLike ℂ ℝ :=
  ⟨fun t => Complex.exp (t * Complex.I), fun r => (r : ℂ), starRingEnd ℂ, fun z n => z / (n : ℂ)⟩

theorem sumRange_eq {K} [AddCommMonoid K] (n : ℕ) (f : ℕ → K) : sumRange n f = ∑ i ∈ range n, f i := by
  unfold sumRange
  induction n with
  | zero => simp
  | succ k ih => rw [List.range_succ, List.foldl_append, ih, Finset.sum_range_succ]; simp

/-- the transform kernel as a complex exponential -/
noncomputable def ker (α : ℝ) (m M : ℤ) (off : ℤ) (shift : ℝ) (x u : ℤ) : ℂ :=
  Complex.exp (-(2 * Real.pi * Complex.I) * (α * ((cc m x + off : ℤ) : ℝ) * (((cc M u : ℤ) : ℝ) - shift) : ℝ))

theorem dftKernel_eq (α : ℝ) (m M off : ℤ) (shift : ℝ) (x u : ℤ) :
    (dftKernel α m M off shift x u : ℂ) = ker α m M off shift x u := by
  unfold dftKernel ker
  simp only [CxLike.expI, RealLike.twoPi, RealLike.ofInt]
  congr 1
  push_cast
  ring

/-- the un-normalised transform as `Finset` sums of `ker` (model order: inner sum over rows, outer over columns) -/
noncomputable def dft2Sum (f : Arr ℂ) (αr αc : ℝ) (M N : ℤ) (shr shc : ℝ) (offr offc : ℤ) (u v : ℤ) : ℂ :=
  ∑ y ∈ range f.s1.toNat,
    (∑ x ∈ range f.s0.toNat, ker αr f.s0 M offr shr x u * f.get x y) * ker αc f.s1 N offc shc y v

/-- normalisation factor of `dft2` -/
noncomputable def nrm (αr αc : ℝ) (unitary : Bool) : ℂ := if unitary then ((Real.sqrt |αr * αc| : ℝ) : ℂ) else 1

theorem dft2_get_eq (f : Arr ℂ) (αr αc : ℝ) (M N : ℤ) (shr shc : ℝ) (offr offc : ℤ) (unitary : Bool) (u v : ℤ) :
    (dft2 f αr αc M N shr shc offr offc unitary).get u v
      = (if unitary then ((Real.sqrt |αr * αc| : ℝ) : ℂ) else 1) * dft2Sum f αr αc M N shr shc offr offc u v := by
  unfold dft2 dft2Sum
  simp only [sumRange_eq, dftKernel_eq]
  cases unitary
  · simp
  · simp only [if_true, CxLike.ofReal, RealLike.sqrt, RealLike.abs]; rw [mul_comm]

/-! ## roots of unity over a centred period -/

/-- the geometric sum of a non-trivial power of a primitive `n`-th root over the centred period vanishes -/
theorem geom_centered_zero {F : Type*} [Field F] (n : ℕ) (hn : 0 < n) (ζ : F) (hζ : IsPrimitiveRoot ζ n) (d : ℤ)
    (hd : ¬ (n : ℤ) ∣ d) : ∑ u ∈ range n, ζ ^ (d * cc n u) = 0 := by
  have hζ0 : ζ ≠ 0 := hζ.ne_zero hn.ne'
  have hr : ζ ^ d ≠ 1 := fun h => hd ((hζ.zpow_eq_one_iff_dvd d).mp h)
  have hsum : ∑ u ∈ range n, ζ ^ (d * cc n u) = ζ ^ (d * cc n 0) * ∑ u ∈ range n, (ζ ^ d) ^ u := by
    rw [mul_sum]; apply sum_congr rfl; intro u _
    rw [← zpow_natCast, ← zpow_mul, ← zpow_add₀ hζ0]; congr 1; simp only [cc]; ring
  rw [hsum]
  have hg : (ζ ^ d - 1) * ∑ u ∈ range n, (ζ ^ d) ^ u = 0 := by
    rw [mul_comm, geom_sum_mul, ← zpow_natCast, ← zpow_mul, mul_comm, zpow_mul, zpow_natCast,
      hζ.pow_eq_one, one_zpow, sub_self]
  have : ∑ u ∈ range n, (ζ ^ d) ^ u = 0 := by
    rcases mul_eq_zero.mp hg with h | h
    · exact absurd (sub_eq_zero.mp h) hr
    · exact h
  rw [this, mul_zero]

open ComplexConjugate

/-- rows of a kernel are orthogonal with squared norm `K` over `K` output samples -/
def Orth (m K : ℕ) (κ : ℕ → ℕ → ℂ) : Prop :=
  ∀ x < m, ∀ x' < m, ∑ u ∈ range K, κ x u * conj (κ x' u) = if x = x' then (K : ℂ) else 0

theorem conj_ker (α : ℝ) (m M off : ℤ) (shift : ℝ) (x u : ℤ) :
    conj (ker α m M off shift x u) =
      Complex.exp ((2 * Real.pi * Complex.I) * (α * ((cc m x + off : ℤ) : ℝ) * (((cc M u : ℤ) : ℝ) - shift) : ℝ)) := by
  unfold ker
  rw [← Complex.exp_conj]
  congr 1
  simp only [map_mul, map_neg, Complex.conj_ofReal, Complex.conj_I, map_ofNat]
  ring

/-- full-period orthogonality of the transform kernel: `α = 1/K`, `K` output samples, any integer offset, any real
shift; the two input coordinates must be less than one period apart -/
theorem ker_orth (K : ℕ) (hK : 0 < K) (m off : ℤ) (s : ℝ) (x x' : ℤ) (hxx : |x - x'| < K) :
    ∑ u ∈ range K, ker (1 / K) m K off s x u * conj (ker (1 / K) m K off s x' u)
      = if x = x' then (K : ℂ) else 0 := by
  have hK0 : (K : ℂ) ≠ 0 := by exact_mod_cast hK.ne'
  set ζ : ℂ := Complex.exp (2 * Real.pi * Complex.I / K) with hζdef
  have hζ : IsPrimitiveRoot ζ K := Complex.isPrimitiveRoot_exp K hK.ne'
  have key : ∀ u : ℕ, ker (1 / K) m K off s x u * conj (ker (1 / K) m K off s x' u)
      = Complex.exp ((2 * Real.pi * Complex.I) * (((x - x' : ℤ) : ℂ) / K * s)) * ζ ^ ((x' - x) * cc K u) := by
    intro u
    rw [conj_ker, hζdef, ← Complex.exp_int_mul]
    unfold ker
    rw [← Complex.exp_add, ← Complex.exp_add]
    congr 1
    simp only [cc]
    push_cast
    field_simp
    ring
  simp only [key, ← mul_sum]
  split_ifs with h
  · subst h; simp
  · have hd : ¬ ((K : ℤ) ∣ x' - x) := by
      intro hdvd
      have : x' - x = 0 := by
        apply Int.eq_zero_of_abs_lt_dvd hdvd
        rw [abs_sub_comm]; exact hxx
      omega
    rw [geom_centered_zero K hK ζ hζ (x' - x) hd, mul_zero]

/-! ## generic one-axis inversion and Parseval for a kernel with orthogonal rows -/

theorem inv1 (m K : ℕ) (κ : ℕ → ℕ → ℂ) (h : Orth m K κ) (g : ℕ → ℂ) (x' : ℕ) (hx' : x' < m) :
    ∑ u ∈ range K, (∑ x ∈ range m, κ x u * g x) * conj (κ x' u) = K * g x' := by
  simp_rw [sum_mul]
  rw [sum_comm]
  have : ∀ x ∈ range m, ∑ u ∈ range K, κ x u * g x * conj (κ x' u) = g x * (if x = x' then (K : ℂ) else 0) := by
    intro x hx
    rw [← h x (mem_range.mp hx) x' hx', mul_sum]
    exact sum_congr rfl fun u _ => by ring
  rw [sum_congr rfl this]
  simp only [mul_ite, mul_zero]
  rw [sum_ite_eq' (range m) x' (fun x => g x * (K : ℂ))]
  simp only [mem_range, hx', if_true]
  ring

theorem parseval1 (m K : ℕ) (κ : ℕ → ℕ → ℂ) (h : Orth m K κ) (g : ℕ → ℂ) :
    ∑ u ∈ range K, Complex.normSq (∑ x ∈ range m, κ x u * g x) = K * ∑ x ∈ range m, Complex.normSq (g x) := by
  apply Complex.ofReal_injective
  push_cast
  simp only [← Complex.mul_conj]
  have : ∀ u ∈ range K, (∑ x ∈ range m, κ x u * g x) * conj (∑ x ∈ range m, κ x u * g x)
      = ∑ x' ∈ range m, conj (g x') * ((∑ x ∈ range m, κ x u * g x) * conj (κ x' u)) := by
    intro u _
    rw [map_sum, mul_sum]
    exact sum_congr rfl fun x' _ => by rw [map_mul]; ring
  rw [sum_congr rfl this, sum_comm]
  have : ∀ x' ∈ range m, ∑ u ∈ range K, conj (g x') * ((∑ x ∈ range m, κ x u * g x) * conj (κ x' u))
      = (K : ℂ) * (g x' * conj (g x')) := by
    intro x' hx'
    rw [← mul_sum, inv1 m K κ h g x' (mem_range.mp hx')]; ring
  rw [sum_congr rfl this, mul_sum]

/-! ## two axes -/

theorem parseval2 (m n K L : ℕ) (κ1 κ2 : ℕ → ℕ → ℂ) (h1 : Orth m K κ1) (h2 : Orth n L κ2) (f : ℕ → ℕ → ℂ) :
    ∑ u ∈ range K, ∑ v ∈ range L, Complex.normSq (∑ y ∈ range n, (∑ x ∈ range m, κ1 x u * f x y) * κ2 y v)
      = K * L * ∑ x ∈ range m, ∑ y ∈ range n, Complex.normSq (f x y) := by
  have hv : ∀ u ∈ range K, ∑ v ∈ range L, Complex.normSq (∑ y ∈ range n, (∑ x ∈ range m, κ1 x u * f x y) * κ2 y v)
      = L * ∑ y ∈ range n, Complex.normSq (∑ x ∈ range m, κ1 x u * f x y) := by
    intro u _
    rw [← parseval1 n L κ2 h2 (fun y => ∑ x ∈ range m, κ1 x u * f x y)]
    exact sum_congr rfl fun v _ => by congr 1; exact sum_congr rfl fun y _ => mul_comm _ _
  rw [sum_congr rfl hv, ← mul_sum, sum_comm]
  have hu : ∀ y ∈ range n, ∑ u ∈ range K, Complex.normSq (∑ x ∈ range m, κ1 x u * f x y)
      = K * ∑ x ∈ range m, Complex.normSq (f x y) := fun y _ => parseval1 m K κ1 h1 (fun x => f x y)
  rw [sum_congr rfl hu, ← mul_sum, sum_comm]
  ring

theorem inv2 (m n K L : ℕ) (κ1 κ2 : ℕ → ℕ → ℂ) (h1 : Orth m K κ1) (h2 : Orth n L κ2) (f : ℕ → ℕ → ℂ)
    (x' y' : ℕ) (hx' : x' < m) (hy' : y' < n) :
    ∑ v ∈ range L, (∑ u ∈ range K, conj (κ1 x' u) * ∑ y ∈ range n, (∑ x ∈ range m, κ1 x u * f x y) * κ2 y v)
        * conj (κ2 y' v) = K * L * f x' y' := by
  have hin : ∀ v ∈ range L, ∑ u ∈ range K, conj (κ1 x' u) * ∑ y ∈ range n, (∑ x ∈ range m, κ1 x u * f x y) * κ2 y v
      = ∑ y ∈ range n, κ2 y v * ((K : ℂ) * f x' y) := by
    intro v _
    simp_rw [mul_sum]
    rw [sum_comm]
    refine sum_congr rfl fun y _ => ?_
    rw [← inv1 m K κ1 h1 (fun x => f x y) x' hx', mul_sum]
    exact sum_congr rfl fun u _ => by ring
  rw [sum_congr rfl (fun v hv => by rw [hin v hv]), inv1 n L κ2 h2 (fun y => (K : ℂ) * f x' y) y' hy']
  ring

/-! ## sums of periodic functions over one period -/

theorem sum_range_shift_one {A : Type*} [AddCommMonoid A] (n : ℕ) (h : ℤ → A) (hper : ∀ z, h (z + n) = h z) :
    ∑ i ∈ range n, h ((i : ℤ) - 1) = ∑ i ∈ range n, h i := by
  cases n with
  | zero => simp
  | succ k =>
    rw [sum_range_succ', sum_range_succ]
    have h1 : h (((0 : ℕ) : ℤ) - 1) = h k := by
      have := hper (((0 : ℕ) : ℤ) - 1)
      rw [← this]; congr 1; push_cast; ring
    rw [h1]
    congr 1
    exact sum_congr rfl fun i _ => by congr 1; push_cast; ring

/-- a function of period `n` has the same sum over any shifted period -/
theorem sum_range_shift_int {A : Type*} [AddCommMonoid A] (n : ℕ) (h : ℤ → A) (hper : ∀ z, h (z + n) = h z) (a : ℤ) :
    ∑ i ∈ range n, h ((i : ℤ) - a) = ∑ i ∈ range n, h i := by
  induction a with
  | zero => simp
  | succ a ih =>
    have := sum_range_shift_one n (fun z => h (z - a)) (fun z => by
      show h (z + n - a) = h (z - a); rw [← hper (z - a)]; congr 1; ring)
    rw [← ih, ← this]
    exact sum_congr rfl fun i _ => by congr 1; ring
  | pred a ih =>
    have := sum_range_shift_one n (fun z => h (z - (-(a : ℤ) - 1))) (fun z => by
      show h (z + n - (-(a : ℤ) - 1)) = h (z - (-(a : ℤ) - 1)); rw [← hper (z - (-(a : ℤ) - 1))]; congr 1; ring)
    rw [← this, ← ih]
    exact sum_congr rfl fun i _ => by congr 1; ring

theorem emod_range_nat (n : ℕ) (i : ℕ) (hi : i ∈ range n) : ((i : ℤ)) % (n : ℤ) = i :=
  Int.emod_eq_of_lt (by omega) (by have := mem_range.mp hi; omega)

/-! ## the plain DFT character `E n t = exp(-2πi·t/n)` on integers -/

/-- `exp(-2πi·t/n)` for an integer `t` -/
noncomputable def E (n : ℕ) (t : ℤ) : ℂ := Complex.exp (-(2 * Real.pi * Complex.I) * (t : ℂ) / n)

theorem E_add (n : ℕ) (s t : ℤ) : E n (s + t) = E n s * E n t := by
  unfold E; rw [← Complex.exp_add]; congr 1; push_cast; ring

theorem E_zero (n : ℕ) : E n 0 = 1 := by simp [E]

theorem E_period (n : ℕ) (hn : 0 < n) (s : ℤ) : E n (n * s) = 1 := by
  unfold E
  have hn' : (n : ℂ) ≠ 0 := by exact_mod_cast hn.ne'
  have : -(2 * Real.pi * Complex.I) * ((n * s : ℤ) : ℂ) / n = ((-s : ℤ) : ℂ) * (2 * Real.pi * Complex.I) := by
    push_cast; field_simp
  rw [this, Complex.exp_int_mul_two_pi_mul_I]

theorem E_add_period (n : ℕ) (hn : 0 < n) (t s : ℤ) : E n (t + n * s) = E n t := by
  rw [E_add, E_period n hn, mul_one]

/-- `E` only depends on its argument modulo `n` -/
theorem E_congr (n : ℕ) (hn : 0 < n) (s t : ℤ) (h : (n : ℤ) ∣ s - t) : E n s = E n t := by
  obtain ⟨c, hc⟩ := h
  have : s = t + n * c := by omega
  rw [this, E_add_period n hn]

open ComplexConjugate in
theorem conj_E (n : ℕ) (t : ℤ) : conj (E n t) = E n (-t) := by
  unfold E
  rw [← Complex.exp_conj]
  congr 1
  simp only [map_div₀, map_mul, map_neg, Complex.conj_ofReal, Complex.conj_I, map_ofNat, map_intCast, map_natCast]
  push_cast; ring

/-- the plain DFT kernel `exp(-2πi·a·k/n)` as the shared kernel with the centring cancelled (`offset = ⌊n/2⌋`,
`shift = -⌊n/2⌋`) -/
noncomputable def fker (n : ℕ) (a k : ℤ) : ℂ := ker (1 / n) n n ((n : ℤ) / 2) (-(((n : ℤ) / 2 : ℤ) : ℝ)) a k

theorem fker_eq (n : ℕ) (a k : ℤ) : fker n a k = E n (a * k) := by
  unfold fker ker cc E; congr 1; push_cast; ring

/-- the centred kernel on a full period in terms of the character -/
theorem ker_centered_eq (n : ℕ) (x u : ℤ) : ker (1 / n) n n 0 0 x u = E n ((x - (n : ℤ) / 2) * (u - (n : ℤ) / 2)) := by
  unfold ker cc E; congr 1; push_cast; ring

/-- the kernel on a full period with an integer shift, in terms of the character -/
theorem ker_int_shift_eq (n : ℕ) (off s : ℤ) (x u : ℤ) :
    ker (1 / n) n n off ((s : ℤ) : ℝ) x u = E n ((x - (n : ℤ) / 2 + off) * (u - (n : ℤ) / 2 - s)) := by
  unfold ker cc E; congr 1; push_cast; ring

/-- on a full period an integer shift only moves the output index: sample `u` with shift `s` is sample `(u − s) mod n` without -/
theorem ker_int_shift_roll (n : ℕ) (hn : 0 < n) (off s : ℤ) (x u : ℤ) :
    ker (1 / n) n n off ((s : ℤ) : ℝ) x u = ker (1 / n) n n off 0 x ((u - s) % n) := by
  have h0 : ker (1 / n) n n off 0 x ((u - s) % n) = ker (1 / n) n n off ((0 : ℤ) : ℝ) x ((u - s) % n) := by simp
  rw [h0, ker_int_shift_eq, ker_int_shift_eq]
  apply E_congr n hn
  rw [Int.emod_def (u - s) n]
  exact ⟨(x - (n : ℤ) / 2 + off) * ((u - s) / n), by ring⟩

/-- the phase ramp an output shift `s` puts on input sample `x` (full period `m`, offset `off`):
`exp(2πi·(x − ⌊m/2⌋ + off)·s/m)` -/
noncomputable def ramp (m : ℕ) (off : ℤ) (s : ℝ) (x : ℤ) : ℂ :=
  Complex.exp ((2 * Real.pi * Complex.I) * ((1 / (m : ℝ) * ((cc m x + off : ℤ) : ℝ) * s : ℝ) : ℂ))

open ComplexConjugate in
/-- on a full period the inverse kernel with an integer shift `t` at output sample `i` is the conjugate of the forward kernel (offset
`off`, any real shift `s`) at input sample `(i − t − off) mod m`, times that sample's phase ramp -/
theorem ker_inv_roll (m : ℕ) (hm : 0 < m) (off t : ℤ) (s : ℝ) (u i : ℤ) :
    conj (ker (1 / m) m m 0 ((t : ℤ) : ℝ) u i)
      = ramp m off s ((i - t - off) % m) * conj (ker (1 / m) m m off s ((i - t - off) % m) u) := by
  rw [conj_ker, conj_ker, ramp, ← Complex.exp_add, Complex.exp_eq_exp_iff_exists_int]
  refine ⟨cc m u * ((i - t - off) / m), ?_⟩
  have hm' : (m : ℂ) ≠ 0 := by exact_mod_cast hm.ne'
  rw [Int.emod_def]
  unfold cc
  push_cast
  field_simp
  ring

/-! ## the model's transforms in sum form -/

/-- `idft2` as sums: the adjoint kernel applied to `F`, scaled by `√|αr αc|` (unitary) or `1/F.size` -/
theorem idft2_get_eq (F : Arr ℂ) (αr αc : ℝ) (M N : ℤ) (shr shc : ℝ) (unitary : Bool) (i j : ℤ) :
    (idft2 F αr αc M N shr shc unitary).get i j =
      (if unitary then ((Real.sqrt |αr * αc| : ℝ) : ℂ) else 1 / ((F.s0 * F.s1 : ℤ) : ℂ)) *
      ∑ v ∈ range F.s1.toNat, (∑ u ∈ range F.s0.toNat, conj (ker αr F.s0 M 0 shr u i) * F.get u v)
        * conj (ker αc F.s1 N 0 shc v j) := by
  unfold idft2
  simp only [dft2_get_eq, dft2Sum, CxLike.conj, CxLike.divInt]
  cases unitary
  · simp only [Bool.false_eq_true, if_false, one_mul, map_sum, map_mul, Complex.conj_conj]
    rw [div_eq_mul_inv, mul_comm, one_div]
  · simp only [if_true, map_sum, map_mul, Complex.conj_conj, Complex.conj_ofReal]

theorem ker_symm (α : ℝ) (m : ℤ) (x u : ℤ) : ker α m m 0 0 x u = ker α m m 0 0 u x := by
  unfold ker; congr 1; push_cast; ring

/-- input and output roles of the centred kernel can be exchanged (used by the inverse transform) -/
theorem ker_swap (α : ℝ) (m K : ℤ) (x u : ℤ) : ker α K m 0 0 u x = ker α m K 0 0 x u := by
  unfold ker; congr 1; push_cast; ring

/-- the unitary factor squared on a full period -/
theorem sqrt_abs_inv_mul_self (K L : ℕ) (hK : 0 < K) (hL : 0 < L) :
    Real.sqrt |(1 / (K : ℝ)) * (1 / (L : ℝ))| * Real.sqrt |(1 / (K : ℝ)) * (1 / (L : ℝ))| = 1 / ((K : ℝ) * L) := by
  have hK' : (0 : ℝ) < K := by exact_mod_cast hK
  have hL' : (0 : ℝ) < L := by exact_mod_cast hL
  rw [Real.mul_self_sqrt (abs_nonneg _), abs_of_pos (by positivity)]
  field_simp

/-- orthogonality of the model kernel over a full period `K` for `m ≤ K` input samples -/
theorem orth_ker (m K : ℕ) (hK : 0 < K) (hmK : m ≤ K) (s0 off : ℤ) (s : ℝ) :
    Orth m K (fun x u => ker (1 / K) s0 K off s x u) := by
  intro x hx x' hx'
  have := ker_orth K hK s0 off s (x : ℤ) (x' : ℤ) (by rw [abs_lt]; constructor <;> omega)
  simp only [Nat.cast_inj] at this
  exact this

theorem Orth.conj {m K : ℕ} {κ : ℕ → ℕ → ℂ} (h : Orth m K κ) : Orth m K (fun x u => conj (κ x u)) := by
  intro x hx x' hx'
  have := congrArg conj (h x hx x' hx')
  simp only [map_sum, map_mul] at this
  rw [this]; split_ifs <;> simp

@[simp] theorem dft2C_s0 (f : Arr ℂ) (αr αc : ℝ) (M N : ℤ) (shr shc : ℝ) (offr offc : ℤ) (un : Bool) :
    (dft2 f αr αc M N shr shc offr offc un).s0 = M := rfl
@[simp] theorem dft2C_s1 (f : Arr ℂ) (αr αc : ℝ) (M N : ℤ) (shr shc : ℝ) (offr offc : ℤ) (un : Bool) :
    (dft2 f αr αc M N shr shc offr offc un).s1 = N := rfl

theorem pull_const (K L : ℕ) (a b : ℕ → ℂ) (S : ℕ → ℕ → ℂ) (c : ℂ) :
    ∑ v ∈ range L, (∑ u ∈ range K, a u * (c * S u v)) * b v = c * ∑ v ∈ range L, (∑ u ∈ range K, a u * S u v) * b v := by
  simp only [mul_sum, sum_mul]
  exact sum_congr rfl fun v _ => sum_congr rfl fun u _ => by ring

/-- **energy over one period.** A unitary `dft2` with `α = (1/K, 1/L)` onto `K × L` samples, `K ≥ rows`, `L ≥ cols`,
any integer offsets and real shifts, conserves `Σ|·|²` -/
theorem dft2_energy (f : Arr ℂ) (m n : ℕ) (hm : f.s0 = m) (hn : f.s1 = n) (K L : ℕ) (hK : 0 < K) (hL : 0 < L)
    (hmK : m ≤ K) (hnL : n ≤ L) (shr shc : ℝ) (offr offc : ℤ) :
    ∑ u ∈ range K, ∑ v ∈ range L,
        Complex.normSq ((dft2 f (1 / (K : ℝ)) (1 / (L : ℝ)) K L shr shc offr offc true).get u v)
      = ∑ x ∈ range m, ∑ y ∈ range n, Complex.normSq (f.get x y) := by
  simp only [dft2_get_eq, if_true, Complex.normSq_mul, Complex.normSq_ofReal, sqrt_abs_inv_mul_self K L hK hL, ← mul_sum]
  unfold dft2Sum
  simp only [hm, hn, Int.toNat_natCast]
  rw [parseval2 m n K L (fun x u => ker (1 / K) m K offr shr x u) (fun y v => ker (1 / L) n L offc shc y v)
    (orth_ker m K hK hmK m offr shr) (orth_ker n L hL hnL n offc shc) (fun x y => f.get x y)]
  have hK' : (K : ℝ) ≠ 0 := by exact_mod_cast hK.ne'
  have hL' : (L : ℝ) ≠ 0 := by exact_mod_cast hL.ne'
  field_simp

end Lentil
