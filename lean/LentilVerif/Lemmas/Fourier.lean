import LentilVerif.Model.Fourier
import Mathlib.Analysis.SpecialFunctions.Trigonometric.Basic
import Mathlib.RingTheory.RootsOfUnity.Complex
import Mathlib.Algebra.BigOperators.Intervals
/-! Helper lemmas for the Fourier model at `K = ℂ`, `R = ℝ` (C01, C05, C19): the instantiation, folds as `Finset` sums,
the kernel as a complex exponential, roots-of-unity orthogonality over a centred period, generic 1-D inversion and
Parseval for a kernel with orthogonal rows, and their lifts to two axes. -/
open Finset

namespace Lentil

/-! ## instantiation at ℝ / ℂ -/

noncomputable instance instRealLikeReal : RealLike ℝ := ⟨fun i => (i : ℝ), 2 * Real.pi, Real.sqrt, fun x => |x|⟩
noncomputable instance instCxLikeComplex : CxLike ℂ ℝ :=
  ⟨fun t => Complex.exp (t * Complex.I), fun r => (r : ℂ), starRingEnd ℂ, fun z n => z / (n : ℂ)⟩

theorem sumRange_eq {K} [AddCommMonoid K] (n : ℕ) (f : ℕ → K) : sumRange n f = ∑ i ∈ range n, f i := by
  unfold sumRange
  induction n with
  | zero => simp
  | succ k ih => rw [List.range_succ, List.foldl_append, ih, Finset.sum_range_succ]; simp

/-- the transform kernel as a complex exponential -/
noncomputable def ker (α : ℝ) (m M : ℤ) (off : ℤ) (shift : ℝ) (x u : ℤ) : ℂ :=
  Complex.exp (-(2 * Real.pi * Complex.I) * (α * ((cc m x + off : ℤ) : ℝ) * (((cc M u : ℤ) : ℝ) - shift) : ℝ))

theorem dftKernel_eq (α : ℝ) (m M off : ℤ) (shift : ℝ) (x u : ℤ) :
    (dftKernel α m M off shift x u : ℂ) = ker α m M off shift x u := by
  unfold dftKernel ker
  simp only [CxLike.expI, RealLike.twoPi, RealLike.ofInt]
  congr 1
  push_cast
  ring

/-- the un-normalised transform as `Finset` sums of `ker` (model order: inner sum over rows, outer over columns) -/
noncomputable def dft2Sum (f : Arr ℂ) (αr αc : ℝ) (M N : ℤ) (shr shc : ℝ) (offr offc : ℤ) (u v : ℤ) : ℂ :=
  ∑ y ∈ range f.s1.toNat,
    (∑ x ∈ range f.s0.toNat, ker αr f.s0 M offr shr x u * f.get x y) * ker αc f.s1 N offc shc y v

/-- normalisation factor of `dft2` -/
noncomputable def nrm (αr αc : ℝ) (unitary : Bool) : ℂ := if unitary then ((Real.sqrt |αr * αc| : ℝ) : ℂ) else 1

theorem dft2_get_eq (f : Arr ℂ) (αr αc : ℝ) (M N : ℤ) (shr shc : ℝ) (offr offc : ℤ) (unitary : Bool) (u v : ℤ) :
    (dft2 f αr αc M N shr shc offr offc unitary).get u v
      = (if unitary then ((Real.sqrt |αr * αc| : ℝ) : ℂ) else 1) * dft2Sum f αr αc M N shr shc offr offc u v := by
  unfold dft2 dft2Sum
  simp only [sumRange_eq, dftKernel_eq]
  cases unitary
  · simp
  · simp only [if_true, CxLike.ofReal, RealLike.sqrt, RealLike.abs]; rw [mul_comm]

end Lentil
