import LentilVerif.Lemmas.Fft
import Mathlib.Algebra.Order.Field.Basic
import Mathlib.Tactic.Ring
import Mathlib.Tactic.Linarith
/-! The shape guard of `propagate_fft` compares floats (`shape > fft_shape/oversample`, generated `Gen.fftShapeTooBig`);
over an ordered field it is the integer criterion `shape*oversample > fft_shape`. -/
namespace Lentil

variable {R : Type} [Field R] [LinearOrder R] [IsStrictOrderedRing R] [RealLike R] [FftLike R]

theorem shapeTooBig_iff (hcast : ∀ n : Int, (RealLike.ofInt n : R) = (n : R)) (hgt : ∀ a b : R, FftLike.gt a b = true ↔ b < a)
    (sh S : Int × Int) (os : Int) (hos : 0 < os) :
    shapeTooBig (R := R) (some sh) S os = true ↔ sh.1 * os > S.1 ∨ sh.2 * os > S.2 := by
  have hosR : (0 : R) < (os : R) := by exact_mod_cast hos
  have key : ∀ a b : Int, ((b : R) / (os : R) < (a : R)) ↔ b < a * os := by
    intro a b
    rw [div_lt_iff₀ hosR]
    constructor
    · intro h; exact_mod_cast h
    · intro h; exact_mod_cast h
  simp only [shapeTooBig, Gen.fftShapeTooBig, Bool.or_eq_true, hgt, hcast, key, gt_iff_lt]

theorem shapeTooBig_none (S : Int × Int) (os : Int) : shapeTooBig (R := R) none S os = false := rfl

end Lentil
