import LentilVerif.Model.ZernikeBound
/-! The finite certificate table for `|R_n^m| ≤ 1` on [−1,1], all 121 valid (n, m) with n ≤ 20 (n ≤ 40 in `ZernikeTables40`) (`decide +kernel`, integers only). Its own module:
re-checked only when the coefficient formula changes. -/
namespace Lentil
theorem allCheb_20 : allCheb 20 = true := by decide +kernel
end Lentil
