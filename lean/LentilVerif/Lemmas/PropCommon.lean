import LentilVerif.Model.PropSeg
import LentilVerif.Model.PlaneTilt
import LentilVerif.Lemmas.ChainExtents
/-! Unfolding lemmas and chain descriptions used by Props/C03.lean (not property statements). -/
namespace Lentil

section
variable {K R : Type} [Add R] [Sub R] [Mul R] [Neg R] [RealLike R] [NonUnitalNonAssocSemiring K] [CxLike K R]

/-- the common-shift propagation in closed form: one window for all fields (none: every field is dropped) -/
theorem propagateDftCommon_eq (data : List (Fld K)) (αr αc : R) (S0 S1 P0 P1 os : Int) (mask : Option Extent)
    (fix0 fix1 : Int) (sub0 sub1 : R) :
    propagateDftCommon data αr αc S0 S1 P0 P1 os mask fix0 fix1 sub0 sub1 =
      match dftWindow (outExtent (S0 * os) (S1 * os) mask) (P0 * os) (P1 * os) fix0 fix1 with
      | none => []
      | some (ish, isf, ps) => data.map fun f =>
          { arr := dft2 f.arr αr αc ish.1 ish.2 (RealLike.ofInt ps.1 + sub0) (RealLike.ofInt ps.2 + sub1) f.o0 f.o1 true,
            o0 := isf.1, o1 := isf.2 } := by
  unfold propagateDftCommon propagateDft propagateField
  simp only [List.filterMap_map, Gen.dftShapeOut, Gen.dftPropShapeOut, Function.comp_def]
  cases hw : dftWindow (outExtent (S0 * os) (S1 * os) mask) (P0 * os) (P1 * os) fix0 fix1 with
  | none =>
    induction data with
    | nil => rfl
    | cons f fs ih => rw [List.filterMap_cons]; exact ih
  | some w =>
    obtain ⟨ish, isf, ps⟩ := w
    simp only []
    induction data with
    | nil => rfl
    | cons f fs ih =>
      simp only [Gen.dftCallShape, Gen.dftCallShift, Gen.dftCallOffset, Gen.dftFieldOffset] at ih ⊢
      simp only [List.filterMap_cons, List.map_cons]; rw [ih]

end

section
variable {K R : Type}

/-- the chain elements of one description: every `SplitPlane` as its segmented or its monolithic plane, Tilt planes as they are -/
def descr (seg : Bool) : List (SplitPlane K R ⊕ TiltEl R) → List (ChainEl K R)
  | [] => []
  | .inl s :: r => .pl (if seg then s.seg else s.mono) :: descr seg r
  | .inr e :: r => .tl e :: descr seg r

/-- the `SplitPlane`s of a chain -/
def splits : List (SplitPlane K R ⊕ TiltEl R) → List (SplitPlane K R)
  | [] => []
  | .inl s :: r => s :: splits r
  | .inr _ :: r => splits r

theorem chainPlanes_descr (seg : Bool) (els : List (SplitPlane K R ⊕ TiltEl R)) :
    chainPlanes (descr seg els) = (splits els).map (fun s => if seg then s.seg else s.mono) := by
  induction els with
  | nil => rfl
  | cons el els ih => cases el <;> simp [descr, splits, chainPlanes, ih]

theorem chainTilts_descr (seg : Bool) (els : List (SplitPlane K R ⊕ TiltEl R)) :
    chainTilts (descr seg els) = chainTilts (descr true els) := by
  induction els with
  | nil => rfl
  | cons el els ih => cases el <;> simp [descr, chainTilts, ih]

end

end Lentil
