import LentilVerif.Lemmas.ZernikeRadialIntegral
import LentilVerif.Lemmas.ZernikeAngular
import LentilVerif.Lemmas.Zernike
/-! The model's modes over ℝ factor as normalisation · radial polynomial · azimuthal factor; angular integrals of products of
azimuthal factors; the polar-coordinate mean over the unit disk. -/
namespace Lentil
open Real intervalIntegral

/-- the model's normalised mode over ℝ (real `√`, `cos`, `sin`), inside the mask -/
noncomputable def zReal (j : ℕ) (ρ θ : ℝ) : ℝ := zernAt (fun k => Real.sqrt k) Real.cos Real.sin j true ρ θ true

/-- Noll's normalisation factor as the model applies it -/
noncomputable def normFac (n : ℕ) (m : ℤ) : ℝ := if m = 0 then (if n = 0 then 1 else √((n + 1 : ℕ) : ℝ)) else √((2 : ℕ) : ℝ) * √((n + 1 : ℕ) : ℝ)

/-- azimuthal factor as the model applies it: 1, `cos(mθ)` for m > 0, `sin(mθ)` for m < 0 -/
noncomputable def azim (m : ℤ) (θ : ℝ) : ℝ := if m = 0 then 1 else if 0 < m then Real.cos ((m : ℝ) * θ) else Real.sin ((m : ℝ) * θ)

theorem radialEval_zero_zero (ρ : ℝ) : radialEval 0 0 ρ = 1 := by
  simp [radialEval, radialCoeff, Gen.radialNum, Gen.radialDen, Gen.fact, powK]

/-- **the model's mode is normalisation · radial polynomial · azimuthal factor** -/
theorem zReal_factor (j : ℕ) (ρ θ : ℝ) :
    zReal j ρ θ = normFac (nollN j) (nollM j) * radialEval (nollN j) (nollM j).natAbs ρ * azim (nollM j) θ := by
  unfold zReal zernAt Gen.zernCore normFac azim
  by_cases h0 : nollM j = 0
  · by_cases hn : nollN j = 0
    · simp [h0, hn, radialEval_zero_zero]
    · simp [h0, hn]
  · by_cases hp : 0 < nollM j
    · simp [h0, hp]
    · simp [h0, hp]

/-- and the square of that factor is `normSq` -/
theorem normFac_sq (n : ℕ) (m : ℤ) : normFac n m ^ 2 = ((normSq n m : ℕ) : ℝ) := by
  unfold normFac normSq
  split_ifs with h0 hn
  · subst hn; simp
  · rw [Real.sq_sqrt (by positivity)]
  · rw [mul_pow, Real.sq_sqrt (by positivity), Real.sq_sqrt (by positivity)]; push_cast; ring


theorem azim_pos (m : ℤ) (hm : 0 < m) (θ : ℝ) : azim m θ = Real.cos (((m.natAbs : ℕ) : ℝ) * θ) := by
  unfold azim; rw [if_neg (by omega), if_pos hm]
  congr 2
  have h : (m : ℤ) = ((m.natAbs : ℕ) : ℤ) := by omega
  rw [← Int.cast_natCast (R := ℝ) m.natAbs, ← h]

theorem azim_neg (m : ℤ) (hm : m < 0) (θ : ℝ) : azim m θ = -Real.sin (((m.natAbs : ℕ) : ℝ) * θ) := by
  unfold azim; rw [if_neg (by omega), if_neg (by omega)]
  have h : (m : ℤ) = -((m.natAbs : ℕ) : ℤ) := by omega
  have hr : (m : ℝ) = -((m.natAbs : ℕ) : ℝ) := by
    rw [← Int.cast_natCast (R := ℝ) m.natAbs, ← Int.cast_neg, ← h]
  rw [hr, neg_mul, Real.sin_neg]

theorem azim_zero (θ : ℝ) : azim 0 θ = 1 := by simp [azim]

/-- the angular integral of a product of two azimuthal factors over a period -/
theorem azim_integral (m m' : ℤ) :
    ∫ θ in (0 : ℝ)..(2 * π), azim m θ * azim m' θ = if m = m' then (if m = 0 then 2 * π else π) else 0 := by
  rcases lt_trichotomy m 0 with hm | hm | hm <;> rcases lt_trichotomy m' 0 with hm' | hm' | hm'
  · -- sin · sin
    simp only [azim_neg m hm, azim_neg m' hm', neg_mul_neg]
    by_cases e : m = m'
    · subst e
      rw [if_pos rfl, if_neg (by omega)]
      have := angular_sin_sq m.natAbs (by omega)
      simpa [sq] using this
    · rw [if_neg e]
      exact (angular_cross m.natAbs m'.natAbs).2.1 (by omega)
  · subst hm'
    simp only [azim_neg m hm, azim_zero, mul_one]
    rw [if_neg (by omega), intervalIntegral.integral_neg]
    have := int_sin_int (m.natAbs : ℤ)
    simp only [Int.cast_natCast] at this
    rw [this, neg_zero]
  · simp only [azim_neg m hm, azim_pos m' hm']
    rw [if_neg (by omega)]
    have := (angular_cross m'.natAbs m.natAbs).2.2
    simp only [neg_mul, intervalIntegral.integral_neg]
    rw [show (fun θ => Real.sin (((m.natAbs : ℕ) : ℝ) * θ) * Real.cos (((m'.natAbs : ℕ) : ℝ) * θ))
        = fun θ => Real.cos (((m'.natAbs : ℕ) : ℝ) * θ) * Real.sin (((m.natAbs : ℕ) : ℝ) * θ) from by funext θ; ring, this, neg_zero]
  · subst hm
    simp only [azim_neg m' hm', azim_zero, one_mul]
    rw [if_neg (by omega), intervalIntegral.integral_neg]
    have := int_sin_int (m'.natAbs : ℤ)
    simp only [Int.cast_natCast] at this
    rw [this, neg_zero]
  · subst hm; subst hm'
    simp [azim_zero]
  · subst hm
    simp only [azim_pos m' hm', azim_zero, one_mul]
    rw [if_neg (by omega)]
    have := int_cos_int (m'.natAbs : ℤ) (by omega)
    simpa using this
  · simp only [azim_pos m hm, azim_neg m' hm']
    rw [if_neg (by omega)]
    have := (angular_cross m.natAbs m'.natAbs).2.2
    simp only [mul_neg, intervalIntegral.integral_neg, this, neg_zero]
  · subst hm'
    simp only [azim_pos m hm, azim_zero, mul_one]
    rw [if_neg (by omega)]
    have := int_cos_int (m.natAbs : ℤ) (by omega)
    simpa using this
  · simp only [azim_pos m hm, azim_pos m' hm']
    by_cases e : m = m'
    · subst e
      rw [if_pos rfl, if_neg (by omega)]
      have := angular_cos_sq m.natAbs (by omega)
      simpa [sq] using this
    · rw [if_neg e]
      exact (angular_cross m.natAbs m'.natAbs).1 (by omega)


/-- mean over the unit disk in polar coordinates: `(1/π) ∫₀^{2π} ∫₀¹ f(ρ, θ) ρ dρ dθ` -/
noncomputable def diskMean (f : ℝ → ℝ → ℝ) : ℝ := (1 / π) * ∫ θ in (0 : ℝ)..(2 * π), ∫ ρ in (0 : ℝ)..1, f ρ θ * ρ

/-- the disk mean of a product of two modes is `N N' · (radial integral) · (angular integral) / π` -/
theorem diskMean_modes (j j' : ℕ) :
    diskMean (fun ρ θ => zReal j ρ θ * zReal j' ρ θ) =
      (1 / π) * (normFac (nollN j) (nollM j) * normFac (nollN j') (nollM j') *
        (∫ ρ in (0 : ℝ)..1, radialEval (nollN j) (nollM j).natAbs ρ * radialEval (nollN j') (nollM j').natAbs ρ * ρ) *
        ∫ θ in (0 : ℝ)..(2 * π), azim (nollM j) θ * azim (nollM j') θ) := by
  unfold diskMean
  congr 1
  have h1 : ∀ θ : ℝ, (∫ ρ in (0 : ℝ)..1, zReal j ρ θ * zReal j' ρ θ * ρ)
      = (normFac (nollN j) (nollM j) * normFac (nollN j') (nollM j') *
        (∫ ρ in (0 : ℝ)..1, radialEval (nollN j) (nollM j).natAbs ρ * radialEval (nollN j') (nollM j').natAbs ρ * ρ)) *
        (azim (nollM j) θ * azim (nollM j') θ) := by
    intro θ
    have : ∀ ρ : ℝ, zReal j ρ θ * zReal j' ρ θ * ρ
        = (normFac (nollN j) (nollM j) * normFac (nollN j') (nollM j') * (azim (nollM j) θ * azim (nollM j') θ)) *
          (radialEval (nollN j) (nollM j).natAbs ρ * radialEval (nollN j') (nollM j').natAbs ρ * ρ) := by
      intro ρ; rw [zReal_factor, zReal_factor]; ring
    simp only [this]
    rw [intervalIntegral.integral_const_mul]; ring
  simp only [h1]
  rw [intervalIntegral.integral_const_mul]

/-! ### arithmetic of Noll's constants (supporting lemmas; the property theorems are `mode_factorisation` / `zernike_orthonormal`) -/

/-- **Noll's normalisation constants** give unit mean square over the unit disk: with `∫₀¹ (R_n^m)² ρ dρ = 1/(2(n+1))`
(`radial_gram`) and the angular integral `2π` (m = 0) or `π` (cos², sin²; m ≠ 0), the mean `N²·(1/(2(n+1)))·(2π or π)/π` is 1
for `N² = n+1` (m = 0) and `N² = 2(n+1)` (m ≠ 0) -/
theorem normalisation_constants (n : Nat) (m : Int) :
    ((normSq n m : Nat) : ℚ) * (1 / (2 * ((n : ℚ) + 1))) * (if m = 0 then 2 else 1) = 1 := by
  have hn : (2 * ((n : ℚ) + 1)) ≠ 0 := by positivity
  unfold normSq
  split_ifs <;> (push_cast; field_simp)

/-- the same with the angular integrals evaluated (Mathlib interval integrals): for m = 0 the angular factor is `∫₀^{2π} 1 = 2π`,
for m ≥ 1 it is `∫₀^{2π} cos²(mθ) = ∫₀^{2π} sin²(mθ) = π`; with the radial norm `1/(2(n+1))` the mean square over the unit disk
`N² · (1/(2(n+1))) · (angular integral)/π` is exactly 1 -/
theorem normalisation_unit_mean_square (n m : ℕ) :
    (((normSq n 0 : ℕ) : ℝ) * (1 / (2 * ((n : ℝ) + 1))) * ((∫ _θ in (0 : ℝ)..(2 * Real.pi), (1 : ℝ)) / Real.pi) = 1) ∧
    (1 ≤ m →
      ((normSq n m : ℕ) : ℝ) * (1 / (2 * ((n : ℝ) + 1))) * ((∫ θ in (0 : ℝ)..(2 * Real.pi), Real.cos ((m : ℝ) * θ) ^ 2) / Real.pi) = 1 ∧
      ((normSq n (-(m : ℤ)) : ℕ) : ℝ) * (1 / (2 * ((n : ℝ) + 1))) * ((∫ θ in (0 : ℝ)..(2 * Real.pi), Real.sin ((m : ℝ) * θ) ^ 2) / Real.pi) = 1) := by
  have hn : (2 * ((n : ℝ) + 1)) ≠ 0 := by positivity
  have hpi : Real.pi ≠ 0 := Real.pi_ne_zero
  constructor
  · simp only [normSq, if_true, intervalIntegral.integral_const, sub_zero, smul_eq_mul, mul_one]
    push_cast; field_simp
  · intro hm
    have m0 : ((m : ℤ) ≠ 0) := by omega
    have m1 : (-(m : ℤ) ≠ 0) := by omega
    rw [angular_cos_sq m hm, angular_sin_sq m hm]
    simp only [normSq, if_neg m0, if_neg m1]
    constructor <;> (push_cast; field_simp)

/-- a 2 × 3 mask (first row and last column: 4 samples, not symmetric, even and odd axis) for the non-vacuity of the coordinate theorems -/
def exMask : Arr Bool := ⟨2, 3, fun i j => decide (i = 0 ∨ j = 2)⟩

/-- its moments (count 4, row sum 1, column sum 5) and, with the identity as radius function over ℚ, `max(r·mask) = 13/8` about the centroid -/
theorem exMask_facts : maskMoments exMask = (4, 1, 5) ∧ zRmax (fun x : ℚ => x) exMask (zShift (K := ℚ) exMask) = 13 / 8 := by
  constructor
  · decide +kernel
  · decide +kernel

end Lentil
