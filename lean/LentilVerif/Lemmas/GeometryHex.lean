import LentilVerif.Lemmas.Geometry
import LentilVerif.Lemmas.GeometryShapes
import Mathlib.Analysis.SpecialFunctions.Trigonometric.Basic
/-! Separating-axis argument for hexagonal segments with a positive gap, and the exact edge-normal tables of `lentil.hexagon`. -/
set_option linter.unusedSectionVars false
namespace Lentil
open Real
variable {K : Type} [Field K] [LinearOrder K] [IsStrictOrderedRing K]

/-- a non-antialiased hexagon sample is 1 exactly when the pixel passes all six (closed) edge tests -/
theorem hexagonAt_eq_one_iff (half inner : K) (sinT cosT : Nat → K) (n0 n1 : Int) (s0 s1 : K) (i j : Int) :
    hexagonAt half inner sinT cosT n0 n1 s0 s1 false i j = 1 ↔
      ∀ n, n < 6 → meshCoord n0 i s0 * sinT n + meshCoord n1 j s1 * cosT n ≤ inner := by
  unfold hexagonAt
  simp only [minK_eq_min]
  have side : ∀ n, hexSide half inner false (meshCoord n0 i s0) (meshCoord n1 j s1) (sinT n) (cosT n)
      = if inner < meshCoord n0 i s0 * sinT n + meshCoord n1 j s1 * cosT n then 0 else 1 := by
    intro n; simp [hexSide]
  simp only [side]
  constructor
  · intro h n hn
    by_contra hc
    have hlt := not_le.1 hc
    have m6 : ∀ a b c d e f : K, min (min (min (min (min (min 1 a) b) c) d) e) f ≤ a ∧
        min (min (min (min (min (min 1 a) b) c) d) e) f ≤ b ∧ min (min (min (min (min (min 1 a) b) c) d) e) f ≤ c ∧
        min (min (min (min (min (min 1 a) b) c) d) e) f ≤ d ∧ min (min (min (min (min (min 1 a) b) c) d) e) f ≤ e ∧
        min (min (min (min (min (min 1 a) b) c) d) e) f ≤ f := by
      intro a b c d e f
      refine ⟨?_, ?_, ?_, ?_, ?_, min_le_right _ _⟩
      · exact (min_le_left _ _).trans ((min_le_left _ _).trans ((min_le_left _ _).trans ((min_le_left _ _).trans ((min_le_left _ _).trans (min_le_right _ _)))))
      · exact (min_le_left _ _).trans ((min_le_left _ _).trans ((min_le_left _ _).trans ((min_le_left _ _).trans (min_le_right _ _))))
      · exact (min_le_left _ _).trans ((min_le_left _ _).trans ((min_le_left _ _).trans (min_le_right _ _)))
      · exact (min_le_left _ _).trans ((min_le_left _ _).trans (min_le_right _ _))
      · exact (min_le_left _ _).trans (min_le_right _ _)
    have hm := m6 (if inner < meshCoord n0 i s0 * sinT 0 + meshCoord n1 j s1 * cosT 0 then 0 else 1)
      (if inner < meshCoord n0 i s0 * sinT 1 + meshCoord n1 j s1 * cosT 1 then 0 else 1)
      (if inner < meshCoord n0 i s0 * sinT 2 + meshCoord n1 j s1 * cosT 2 then 0 else 1)
      (if inner < meshCoord n0 i s0 * sinT 3 + meshCoord n1 j s1 * cosT 3 then 0 else 1)
      (if inner < meshCoord n0 i s0 * sinT 4 + meshCoord n1 j s1 * cosT 4 then 0 else 1)
      (if inner < meshCoord n0 i s0 * sinT 5 + meshCoord n1 j s1 * cosT 5 then 0 else 1)
    rw [h] at hm
    have hn' : n = 0 ∨ n = 1 ∨ n = 2 ∨ n = 3 ∨ n = 4 ∨ n = 5 := by omega
    have bad : ¬ ((1 : K) ≤ 0) := not_le.2 one_pos
    rcases hn' with rfl | rfl | rfl | rfl | rfl | rfl
    · have := hm.1; rw [if_pos hlt] at this; exact bad this
    · have := hm.2.1; rw [if_pos hlt] at this; exact bad this
    · have := hm.2.2.1; rw [if_pos hlt] at this; exact bad this
    · have := hm.2.2.2.1; rw [if_pos hlt] at this; exact bad this
    · have := hm.2.2.2.2.1; rw [if_pos hlt] at this; exact bad this
    · have := hm.2.2.2.2.2; rw [if_pos hlt] at this; exact bad this
  · intro h
    rw [if_neg (not_lt.2 (h 0 (by omega))), if_neg (not_lt.2 (h 1 (by omega))), if_neg (not_lt.2 (h 2 (by omega))),
      if_neg (not_lt.2 (h 3 (by omega))), if_neg (not_lt.2 (h 4 (by omega))), if_neg (not_lt.2 (h 5 (by omega)))]
    simp


/-- two distinct cube cells differ by at least 2 in one of the six signed differences of cube coordinates -/
theorem cube_cells_apart (a b : HexCell) (ha : a.1 + a.2.1 + a.2.2 = 0) (hb : b.1 + b.2.1 + b.2.2 = 0) (hab : a ≠ b) :
    2 ≤ (b.1 - a.1) - (b.2.1 - a.2.1) ∨ 2 ≤ (b.2.1 - a.2.1) - (b.1 - a.1) ∨
    2 ≤ (b.2.2 - a.2.2) - (b.2.1 - a.2.1) ∨ 2 ≤ (b.2.1 - a.2.1) - (b.2.2 - a.2.2) ∨
    2 ≤ (b.2.2 - a.2.2) - (b.1 - a.1) ∨ 2 ≤ (b.1 - a.1) - (b.2.2 - a.2.2) := by
  by_contra h
  apply hab
  have h1 : a.1 = b.1 := by omega
  have h2 : a.2.1 = b.2.1 := by omega
  have h3 : a.2.2 = b.2.2 := by omega
  exact Prod.ext h1 (Prod.ext h2 h3)

theorem hex_disjoint_unrotated (half hh R g : K) (sinT cosT : Nat → K) (n : Int) (a b : HexCell) (i j : Int)
    (hhpos : 0 < hh) (hR : 0 ≤ R) (hg : 0 < g)
    (hT : sinT 0 = 1 / 2 ∧ cosT 0 = hh ∧ sinT 1 = 1 ∧ cosT 1 = 0 ∧ sinT 2 = 1 / 2 ∧ cosT 2 = -hh ∧
          sinT 3 = -(1 / 2) ∧ cosT 3 = -hh ∧ sinT 4 = -1 ∧ cosT 4 = 0 ∧ sinT 5 = -(1 / 2) ∧ cosT 5 = hh)
    (ha : a.1 + a.2.1 + a.2.2 = 0) (hb : b.1 + b.2.1 + b.2.2 = 0) (hab : a ≠ b) :
    ¬ (hexagonAt half (R * hh) sinT cosT n n (hexToRC (2 * hh) hh (3 / 2) a (R + g / 2) false).1
          (hexToRC (2 * hh) hh (3 / 2) a (R + g / 2) false).2 false i j = 1 ∧
       hexagonAt half (R * hh) sinT cosT n n (hexToRC (2 * hh) hh (3 / 2) b (R + g / 2) false).1
          (hexToRC (2 * hh) hh (3 / 2) b (R + g / 2) false).2 false i j = 1) := by
  rintro ⟨hA, hB⟩
  rw [hexagonAt_eq_one_iff] at hA hB
  obtain ⟨s0, c0, s1, c1, s2, c2, s3, c3, s4, c4, s5, c5⟩ := hT
  have A0 := hA 0 (by omega); have A1 := hA 1 (by omega); have A2 := hA 2 (by omega)
  have A3 := hA 3 (by omega); have A4 := hA 4 (by omega); have A5 := hA 5 (by omega)
  have B0 := hB 0 (by omega); have B1 := hB 1 (by omega); have B2 := hB 2 (by omega)
  have B3 := hB 3 (by omega); have B4 := hB 4 (by omega); have B5 := hB 5 (by omega)
  simp only [s0, c0, s1, c1, s2, c2, s3, c3, s4, c4, s5, c5, meshCoord, Gen.meshCoord, hexToRC, Bool.false_eq_true, if_false] at A0 A1 A2 A3 A4 A5 B0 B1 B2 B3 B4 B5
  have hw : 0 < (R + g / 2) * hh := mul_pos (by linarith) hhpos
  have hsum : ((a.1 : K) + (a.2.1 : K) + (a.2.2 : K) = 0) := by exact_mod_cast ha
  have hsumb : ((b.1 : K) + (b.2.1 : K) + (b.2.2 : K) = 0) := by exact_mod_cast hb
  have gpos : 0 < g * hh := mul_pos hg hhpos
  have za : ((a.1 : K) + (a.2.1 : K) + (a.2.2 : K)) * ((R + g / 2) * hh) = 0 := by rw [hsum, zero_mul]
  have zb : ((b.1 : K) + (b.2.1 : K) + (b.2.2 : K)) * ((R + g / 2) * hh) = 0 := by rw [hsumb, zero_mul]
  rcases cube_cells_apart a b ha hb hab with d | d | d | d | d | d
  all_goals have dK := (Int.cast_le (R := K)).2 d
  all_goals push_cast at dK
  · have := mul_le_mul_of_nonneg_left dK hw.le; linarith [A0, B3, this, gpos, za, zb]
  · have := mul_le_mul_of_nonneg_left dK hw.le; linarith [A3, B0, this, gpos, za, zb]
  · have := mul_le_mul_of_nonneg_left dK hw.le; linarith [A1, B4, this, gpos, za, zb]
  · have := mul_le_mul_of_nonneg_left dK hw.le; linarith [A4, B1, this, gpos, za, zb]
  · have := mul_le_mul_of_nonneg_left dK hw.le; linarith [A2, B5, this, gpos, za, zb]
  · have := mul_le_mul_of_nonneg_left dK hw.le; linarith [A5, B2, this, gpos, za, zb]

theorem hex_disjoint_rotated (half hh R g : K) (sinT cosT : Nat → K) (n : Int) (a b : HexCell) (i j : Int)
    (hhpos : 0 < hh) (hR : 0 ≤ R) (hg : 0 < g)
    (hT : sinT 0 = 0 ∧ cosT 0 = 1 ∧ sinT 1 = hh ∧ cosT 1 = 1 / 2 ∧ sinT 2 = hh ∧ cosT 2 = -(1 / 2) ∧
          sinT 3 = 0 ∧ cosT 3 = -1 ∧ sinT 4 = -hh ∧ cosT 4 = -(1 / 2) ∧ sinT 5 = -hh ∧ cosT 5 = 1 / 2)
    (ha : a.1 + a.2.1 + a.2.2 = 0) (hb : b.1 + b.2.1 + b.2.2 = 0) (hab : a ≠ b) :
    ¬ (hexagonAt half (R * hh) sinT cosT n n (hexToRC (2 * hh) hh (3 / 2) a (R + g / 2) true).1
          (hexToRC (2 * hh) hh (3 / 2) a (R + g / 2) true).2 false i j = 1 ∧
       hexagonAt half (R * hh) sinT cosT n n (hexToRC (2 * hh) hh (3 / 2) b (R + g / 2) true).1
          (hexToRC (2 * hh) hh (3 / 2) b (R + g / 2) true).2 false i j = 1) := by
  rintro ⟨hA, hB⟩
  rw [hexagonAt_eq_one_iff] at hA hB
  obtain ⟨s0, c0, s1, c1, s2, c2, s3, c3, s4, c4, s5, c5⟩ := hT
  have A0 := hA 0 (by omega); have A1 := hA 1 (by omega); have A2 := hA 2 (by omega)
  have A3 := hA 3 (by omega); have A4 := hA 4 (by omega); have A5 := hA 5 (by omega)
  have B0 := hB 0 (by omega); have B1 := hB 1 (by omega); have B2 := hB 2 (by omega)
  have B3 := hB 3 (by omega); have B4 := hB 4 (by omega); have B5 := hB 5 (by omega)
  simp only [s0, c0, s1, c1, s2, c2, s3, c3, s4, c4, s5, c5, meshCoord, Gen.meshCoord, hexToRC, if_true] at A0 A1 A2 A3 A4 A5 B0 B1 B2 B3 B4 B5
  have hw : 0 < (R + g / 2) * hh := mul_pos (by linarith) hhpos
  have hsum : ((a.1 : K) + (a.2.1 : K) + (a.2.2 : K) = 0) := by exact_mod_cast ha
  have hsumb : ((b.1 : K) + (b.2.1 : K) + (b.2.2 : K) = 0) := by exact_mod_cast hb
  have gpos : 0 < g * hh := mul_pos hg hhpos
  have za : ((a.1 : K) + (a.2.1 : K) + (a.2.2 : K)) * ((R + g / 2) * hh) = 0 := by rw [hsum, zero_mul]
  have zb : ((b.1 : K) + (b.2.1 : K) + (b.2.2 : K)) * ((R + g / 2) * hh) = 0 := by rw [hsumb, zero_mul]
  rcases cube_cells_apart a b ha hb hab with d | d | d | d | d | d
  all_goals have dK := (Int.cast_le (R := K)).2 d
  all_goals push_cast at dK
  · have := mul_le_mul_of_nonneg_left dK hw.le; linarith [A1, B4, this, gpos, za, zb]
  · have := mul_le_mul_of_nonneg_left dK hw.le; linarith [A4, B1, this, gpos, za, zb]
  · have := mul_le_mul_of_nonneg_left dK hw.le; linarith [A2, B5, this, gpos, za, zb]
  · have := mul_le_mul_of_nonneg_left dK hw.le; linarith [A5, B2, this, gpos, za, zb]
  · have := mul_le_mul_of_nonneg_left dK hw.le; linarith [A3, B0, this, gpos, za, zb]
  · have := mul_le_mul_of_nonneg_left dK hw.le; linarith [A0, B3, this, gpos, za, zb]



/-- the edge normals of `lentil.hexagon`, unrotated (`θₙ = n·π/3 + π/6`), with `hh = √3/2` -/
theorem hexagon_table_unrotated :
    let s := fun n : ℕ => Real.sin ((n : ℝ) * π / 3 + π / 6)
    let c := fun n : ℕ => Real.cos ((n : ℝ) * π / 3 + π / 6)
    s 0 = 1 / 2 ∧ c 0 = √3 / 2 ∧ s 1 = 1 ∧ c 1 = 0 ∧ s 2 = 1 / 2 ∧ c 2 = -(√3 / 2) ∧
    s 3 = -(1 / 2) ∧ c 3 = -(√3 / 2) ∧ s 4 = -1 ∧ c 4 = 0 ∧ s 5 = -(1 / 2) ∧ c 5 = √3 / 2 := by
  have e0 : ((0 : ℕ) : ℝ) * π / 3 + π / 6 = π / 6 := by push_cast; ring
  have e1 : ((1 : ℕ) : ℝ) * π / 3 + π / 6 = π / 2 := by push_cast; ring
  have e2 : ((2 : ℕ) : ℝ) * π / 3 + π / 6 = π - π / 6 := by push_cast; ring
  have e3 : ((3 : ℕ) : ℝ) * π / 3 + π / 6 = π / 6 + π := by push_cast; ring
  have e4 : ((4 : ℕ) : ℝ) * π / 3 + π / 6 = π / 2 + π := by push_cast; ring
  have e5 : ((5 : ℕ) : ℝ) * π / 3 + π / 6 = 2 * π - π / 6 := by push_cast; ring
  simp only [e0, e1, e2, e3, e4, e5, Real.sin_pi_div_six, Real.cos_pi_div_six, Real.sin_pi_div_two, Real.cos_pi_div_two,
    Real.sin_pi_sub, Real.cos_pi_sub, Real.sin_add_pi, Real.cos_add_pi, Real.sin_two_pi_sub, Real.cos_two_pi_sub]
  norm_num

/-- rotated (`θₙ = n·π/3`) -/
theorem hexagon_table_rotated :
    let s := fun n : ℕ => Real.sin ((n : ℝ) * π / 3)
    let c := fun n : ℕ => Real.cos ((n : ℝ) * π / 3)
    s 0 = 0 ∧ c 0 = 1 ∧ s 1 = √3 / 2 ∧ c 1 = 1 / 2 ∧ s 2 = √3 / 2 ∧ c 2 = -(1 / 2) ∧
    s 3 = 0 ∧ c 3 = -1 ∧ s 4 = -(√3 / 2) ∧ c 4 = -(1 / 2) ∧ s 5 = -(√3 / 2) ∧ c 5 = 1 / 2 := by
  have e0 : ((0 : ℕ) : ℝ) * π / 3 = 0 := by push_cast; ring
  have e1 : ((1 : ℕ) : ℝ) * π / 3 = π / 3 := by push_cast; ring
  have e2 : ((2 : ℕ) : ℝ) * π / 3 = π - π / 3 := by push_cast; ring
  have e3 : ((3 : ℕ) : ℝ) * π / 3 = π := by push_cast; ring
  have e4 : ((4 : ℕ) : ℝ) * π / 3 = π / 3 + π := by push_cast; ring
  have e5 : ((5 : ℕ) : ℝ) * π / 3 = 2 * π - π / 3 := by push_cast; ring
  simp only [e0, e1, e2, e3, e4, e5, Real.sin_zero, Real.cos_zero, Real.sin_pi_div_three, Real.cos_pi_div_three, Real.sin_pi,
    Real.cos_pi, Real.sin_pi_sub, Real.cos_pi_sub, Real.sin_add_pi, Real.cos_add_pi, Real.sin_two_pi_sub, Real.cos_two_pi_sub]
  norm_num


/-- unrotated hexagon: row extent `inner`, column extent `R` about its centre -/
theorem hex_extent_unrotated (half hh R ρ : K) (sinT cosT : Nat → K) (size : Int) (a : HexCell) (i j : Int) (hhpos : 0 < hh)
    (hT : sinT 0 = 1 / 2 ∧ cosT 0 = hh ∧ sinT 1 = 1 ∧ cosT 1 = 0 ∧ sinT 2 = 1 / 2 ∧ cosT 2 = -hh ∧
          sinT 3 = -(1 / 2) ∧ cosT 3 = -hh ∧ sinT 4 = -1 ∧ cosT 4 = 0 ∧ sinT 5 = -(1 / 2) ∧ cosT 5 = hh)
    (hin : hexagonAt half (R * hh) sinT cosT size size (hexToRC (2 * hh) hh (3 / 2) a ρ false).1
          (hexToRC (2 * hh) hh (3 / 2) a ρ false).2 false i j = 1) :
    ((i : K) - ((size / 2 : Int) : K)) + ρ * hh * ((a.1 : K) + 2 * (a.2.1 : K)) ≤ R * hh ∧
    -(((i : K) - ((size / 2 : Int) : K)) + ρ * hh * ((a.1 : K) + 2 * (a.2.1 : K))) ≤ R * hh ∧
    ((j : K) - ((size / 2 : Int) : K)) - ρ * (3 / 2 * (a.1 : K)) ≤ R ∧
    -(((j : K) - ((size / 2 : Int) : K)) - ρ * (3 / 2 * (a.1 : K))) ≤ R := by
  rw [hexagonAt_eq_one_iff] at hin
  obtain ⟨s0, c0, s1, c1, s2, c2, s3, c3, s4, c4, s5, c5⟩ := hT
  have A0 := hin 0 (by omega); have A1 := hin 1 (by omega); have A2 := hin 2 (by omega)
  have A3 := hin 3 (by omega); have A4 := hin 4 (by omega); have A5 := hin 5 (by omega)
  simp only [s0, c0, s1, c1, s2, c2, s3, c3, s4, c4, s5, c5, meshCoord, Gen.meshCoord, hexToRC, Bool.false_eq_true, if_false] at A0 A1 A2 A3 A4 A5
  refine ⟨by linarith [A1], by linarith [A4], ?_, ?_⟩
  · have : (((j : K) - ((size / 2 : Int) : K)) - ρ * (3 / 2 * (a.1 : K))) * hh ≤ R * hh := by linarith [A0, A5]
    exact le_of_mul_le_mul_right this hhpos
  · have : (-(((j : K) - ((size / 2 : Int) : K)) - ρ * (3 / 2 * (a.1 : K)))) * hh ≤ R * hh := by linarith [A2, A3]
    exact le_of_mul_le_mul_right this hhpos

/-- from the extents to the border: a coordinate within `(2k+1)·inner + k·g` of the centre index `⌊size/2⌋` is an index in
`[1, size − 2]` when `size ≥ 2·((2k+1)·inner + k·g + pad)` and `pad ≥ 2` -/
theorem index_clear_of_border (size i : Int) (E pad : K) (hpad : 2 ≤ pad) (hsize : 2 * (E + pad) ≤ (size : K))
    (h1 : (i : K) - ((size / 2 : Int) : K) ≤ E) (h2 : -((i : K) - ((size / 2 : Int) : K)) ≤ E) : 1 ≤ i ∧ i ≤ size - 2 := by
  have a1 : 2 * (size / 2) ≤ size := by omega
  have a2 : size ≤ 2 * (size / 2) + 1 := by omega
  have b1 : (2 : K) * ((size / 2 : Int) : K) ≤ (size : K) := by exact_mod_cast a1
  have b2 : (size : K) ≤ 2 * ((size / 2 : Int) : K) + 1 := by exact_mod_cast a2
  have i1 : (1 : K) ≤ (i : K) := by linarith
  have i2 : (i : K) ≤ ((size - 2 : Int) : K) := by push_cast; linarith
  exact ⟨by exact_mod_cast i1, by exact_mod_cast i2⟩

/-- unrotated: a pixel inside the segment at a cell of cube distance ≤ k lies strictly inside the array border -/
theorem hex_border_unrotated (half hh R g pad : K) (sinT cosT : Nat → K) (size : Int) (k : Nat) (a : HexCell) (i j : Int)
    (hh56 : 5 / 6 ≤ hh) (hh1 : hh ≤ 1) (hR : 0 ≤ R) (hg : 0 ≤ g) (hpad : 2 ≤ pad) (hk : 1 ≤ k)
    (hsize : ((2 * k + 1 : ℕ) : K) * (R * hh) * 2 + ((2 * k : ℕ) : K) * g + pad * 2 ≤ (size : K))
    (hT : sinT 0 = 1 / 2 ∧ cosT 0 = hh ∧ sinT 1 = 1 ∧ cosT 1 = 0 ∧ sinT 2 = 1 / 2 ∧ cosT 2 = -hh ∧
          sinT 3 = -(1 / 2) ∧ cosT 3 = -hh ∧ sinT 4 = -1 ∧ cosT 4 = 0 ∧ sinT 5 = -(1 / 2) ∧ cosT 5 = hh)
    (ha : a.1 + a.2.1 + a.2.2 = 0)
    (hb : (-(k : Int) ≤ a.1 ∧ a.1 ≤ k) ∧ (-(k : Int) ≤ a.2.1 ∧ a.2.1 ≤ k) ∧ (-(k : Int) ≤ a.2.2 ∧ a.2.2 ≤ k))
    (hin : hexagonAt half (R * hh) sinT cosT size size (hexToRC (2 * hh) hh (3 / 2) a (R + g / 2) false).1
          (hexToRC (2 * hh) hh (3 / 2) a (R + g / 2) false).2 false i j = 1) :
    (1 ≤ i ∧ i ≤ size - 2) ∧ (1 ≤ j ∧ j ≤ size - 2) := by
  have hhpos : 0 < hh := by linarith
  obtain ⟨e1, e2, e3, e4⟩ := hex_extent_unrotated half hh R (R + g / 2) sinT cosT size a i j hhpos hT hin
  have hq : (-(k : K) ≤ (a.1 : K) ∧ (a.1 : K) ≤ k) := ⟨by exact_mod_cast hb.1.1, by exact_mod_cast hb.1.2⟩
  have hr : (-(k : K) ≤ (a.2.1 : K) ∧ (a.2.1 : K) ≤ k) := ⟨by exact_mod_cast hb.2.1.1, by exact_mod_cast hb.2.1.2⟩
  have hs : (-(k : K) ≤ (a.2.2 : K) ∧ (a.2.2 : K) ≤ k) := ⟨by exact_mod_cast hb.2.2.1, by exact_mod_cast hb.2.2.2⟩
  have hsum : ((a.1 : K) + (a.2.1 : K) + (a.2.2 : K) = 0) := by exact_mod_cast ha
  have hk1 : (1 : K) ≤ k := by exact_mod_cast hk
  have hk0 : (0 : K) ≤ k := by linarith
  have hρ : 0 ≤ R + g / 2 := by linarith
  have hw : 0 ≤ (R + g / 2) * hh := mul_nonneg hρ hhpos.le
  have kg : 0 ≤ (k : K) * g := mul_nonneg hk0 hg
  have t1 : (R + g / 2) * hh * ((a.2.2 : K) - a.2.1) ≤ (R + g / 2) * hh * (2 * k) :=
    mul_le_mul_of_nonneg_left (by linarith [hs.2, hr.1]) hw
  have t1' : (R + g / 2) * hh * ((a.2.1 : K) - a.2.2) ≤ (R + g / 2) * hh * (2 * k) :=
    mul_le_mul_of_nonneg_left (by linarith [hs.1, hr.2]) hw
  have t2 : (k : K) * g * hh ≤ k * g := mul_le_of_le_one_right kg hh1
  have t3 : R * (5 / 6) ≤ R * hh := mul_le_mul_of_nonneg_left hh56 hR
  have t4 : (k : K) * R * (5 / 6) ≤ k * R * hh := mul_le_mul_of_nonneg_left hh56 (mul_nonneg hk0 hR)
  have t6 : (R + g / 2) * (a.1 : K) ≤ (R + g / 2) * k := mul_le_mul_of_nonneg_left hq.2 hρ
  have t6' : (R + g / 2) * (-(a.1 : K)) ≤ (R + g / 2) * k := mul_le_mul_of_nonneg_left (by linarith [hq.1]) hρ
  have kR1 : R ≤ (k : K) * R := le_mul_of_one_le_left hR hk1
  have za : ((a.1 : K) + (a.2.1 : K) + (a.2.2 : K)) * ((R + g / 2) * hh) = 0 := by rw [hsum, zero_mul]
  push_cast at hsize
  have hE : 2 * ((2 * (k : K) + 1) * (R * hh) + k * g + pad) ≤ (size : K) := by linarith
  have r1 : (i : K) - ((size / 2 : Int) : K) ≤ (2 * (k : K) + 1) * (R * hh) + k * g := by linarith [e1, t1, t2, za]
  have r2 : -((i : K) - ((size / 2 : Int) : K)) ≤ (2 * (k : K) + 1) * (R * hh) + k * g := by linarith [e2, t1', t2, za]
  have c1 : (j : K) - ((size / 2 : Int) : K) ≤ (2 * (k : K) + 1) * (R * hh) + k * g := by linarith [e3, t3, t4, t6, kR1, kg]
  have c2 : -((j : K) - ((size / 2 : Int) : K)) ≤ (2 * (k : K) + 1) * (R * hh) + k * g := by linarith [e4, t3, t4, t6', kR1, kg]
  exact ⟨index_clear_of_border size i _ pad hpad hE r1 r2, index_clear_of_border size j _ pad hpad hE c1 c2⟩

/-- rotated hexagon: column extent `inner`, row extent `R` about its centre -/
theorem hex_extent_rotated (half hh R ρ : K) (sinT cosT : Nat → K) (size : Int) (a : HexCell) (i j : Int) (hhpos : 0 < hh)
    (hT : sinT 0 = 0 ∧ cosT 0 = 1 ∧ sinT 1 = hh ∧ cosT 1 = 1 / 2 ∧ sinT 2 = hh ∧ cosT 2 = -(1 / 2) ∧
          sinT 3 = 0 ∧ cosT 3 = -1 ∧ sinT 4 = -hh ∧ cosT 4 = -(1 / 2) ∧ sinT 5 = -hh ∧ cosT 5 = 1 / 2)
    (hin : hexagonAt half (R * hh) sinT cosT size size (hexToRC (2 * hh) hh (3 / 2) a ρ true).1
          (hexToRC (2 * hh) hh (3 / 2) a ρ true).2 false i j = 1) :
    ((j : K) - ((size / 2 : Int) : K)) - ρ * hh * (2 * (a.1 : K) + (a.2.1 : K)) ≤ R * hh ∧
    -(((j : K) - ((size / 2 : Int) : K)) - ρ * hh * (2 * (a.1 : K) + (a.2.1 : K))) ≤ R * hh ∧
    ((i : K) - ((size / 2 : Int) : K)) + ρ * (3 / 2 * (a.2.1 : K)) ≤ R ∧
    -(((i : K) - ((size / 2 : Int) : K)) + ρ * (3 / 2 * (a.2.1 : K))) ≤ R := by
  rw [hexagonAt_eq_one_iff] at hin
  obtain ⟨s0, c0, s1, c1, s2, c2, s3, c3, s4, c4, s5, c5⟩ := hT
  have A0 := hin 0 (by omega); have A1 := hin 1 (by omega); have A2 := hin 2 (by omega)
  have A3 := hin 3 (by omega); have A4 := hin 4 (by omega); have A5 := hin 5 (by omega)
  simp only [s0, c0, s1, c1, s2, c2, s3, c3, s4, c4, s5, c5, meshCoord, Gen.meshCoord, hexToRC, if_true] at A0 A1 A2 A3 A4 A5
  refine ⟨by linarith [A0], by linarith [A3], ?_, ?_⟩
  · have : (((i : K) - ((size / 2 : Int) : K)) + ρ * (3 / 2 * (a.2.1 : K))) * hh ≤ R * hh := by linarith [A1, A2]
    exact le_of_mul_le_mul_right this hhpos
  · have : (-(((i : K) - ((size / 2 : Int) : K)) + ρ * (3 / 2 * (a.2.1 : K)))) * hh ≤ R * hh := by linarith [A4, A5]
    exact le_of_mul_le_mul_right this hhpos

theorem hex_border_rotated (half hh R g pad : K) (sinT cosT : Nat → K) (size : Int) (k : Nat) (a : HexCell) (i j : Int)
    (hh56 : 5 / 6 ≤ hh) (hh1 : hh ≤ 1) (hR : 0 ≤ R) (hg : 0 ≤ g) (hpad : 2 ≤ pad) (hk : 1 ≤ k)
    (hsize : ((2 * k + 1 : ℕ) : K) * (R * hh) * 2 + ((2 * k : ℕ) : K) * g + pad * 2 ≤ (size : K))
    (hT : sinT 0 = 0 ∧ cosT 0 = 1 ∧ sinT 1 = hh ∧ cosT 1 = 1 / 2 ∧ sinT 2 = hh ∧ cosT 2 = -(1 / 2) ∧
          sinT 3 = 0 ∧ cosT 3 = -1 ∧ sinT 4 = -hh ∧ cosT 4 = -(1 / 2) ∧ sinT 5 = -hh ∧ cosT 5 = 1 / 2)
    (ha : a.1 + a.2.1 + a.2.2 = 0)
    (hb : (-(k : Int) ≤ a.1 ∧ a.1 ≤ k) ∧ (-(k : Int) ≤ a.2.1 ∧ a.2.1 ≤ k) ∧ (-(k : Int) ≤ a.2.2 ∧ a.2.2 ≤ k))
    (hin : hexagonAt half (R * hh) sinT cosT size size (hexToRC (2 * hh) hh (3 / 2) a (R + g / 2) true).1
          (hexToRC (2 * hh) hh (3 / 2) a (R + g / 2) true).2 false i j = 1) :
    (1 ≤ i ∧ i ≤ size - 2) ∧ (1 ≤ j ∧ j ≤ size - 2) := by
  have hhpos : 0 < hh := by linarith
  obtain ⟨e1, e2, e3, e4⟩ := hex_extent_rotated half hh R (R + g / 2) sinT cosT size a i j hhpos hT hin
  have hq : (-(k : K) ≤ (a.1 : K) ∧ (a.1 : K) ≤ k) := ⟨by exact_mod_cast hb.1.1, by exact_mod_cast hb.1.2⟩
  have hr : (-(k : K) ≤ (a.2.1 : K) ∧ (a.2.1 : K) ≤ k) := ⟨by exact_mod_cast hb.2.1.1, by exact_mod_cast hb.2.1.2⟩
  have hs : (-(k : K) ≤ (a.2.2 : K) ∧ (a.2.2 : K) ≤ k) := ⟨by exact_mod_cast hb.2.2.1, by exact_mod_cast hb.2.2.2⟩
  have hsum : ((a.1 : K) + (a.2.1 : K) + (a.2.2 : K) = 0) := by exact_mod_cast ha
  have hk1 : (1 : K) ≤ k := by exact_mod_cast hk
  have hk0 : (0 : K) ≤ k := by linarith
  have hρ : 0 ≤ R + g / 2 := by linarith
  have hw : 0 ≤ (R + g / 2) * hh := mul_nonneg hρ hhpos.le
  have kg : 0 ≤ (k : K) * g := mul_nonneg hk0 hg
  have t1 : (R + g / 2) * hh * ((a.1 : K) - a.2.2) ≤ (R + g / 2) * hh * (2 * k) :=
    mul_le_mul_of_nonneg_left (by linarith [hq.2, hs.1]) hw
  have t1' : (R + g / 2) * hh * ((a.2.2 : K) - a.1) ≤ (R + g / 2) * hh * (2 * k) :=
    mul_le_mul_of_nonneg_left (by linarith [hq.1, hs.2]) hw
  have t2 : (k : K) * g * hh ≤ k * g := mul_le_of_le_one_right kg hh1
  have t3 : R * (5 / 6) ≤ R * hh := mul_le_mul_of_nonneg_left hh56 hR
  have t4 : (k : K) * R * (5 / 6) ≤ k * R * hh := mul_le_mul_of_nonneg_left hh56 (mul_nonneg hk0 hR)
  have t6 : (R + g / 2) * (a.2.1 : K) ≤ (R + g / 2) * k := mul_le_mul_of_nonneg_left hr.2 hρ
  have t6' : (R + g / 2) * (-(a.2.1 : K)) ≤ (R + g / 2) * k := mul_le_mul_of_nonneg_left (by linarith [hr.1]) hρ
  have kR1 : R ≤ (k : K) * R := le_mul_of_one_le_left hR hk1
  have za : ((a.1 : K) + (a.2.1 : K) + (a.2.2 : K)) * ((R + g / 2) * hh) = 0 := by rw [hsum, zero_mul]
  push_cast at hsize
  have hE : 2 * ((2 * (k : K) + 1) * (R * hh) + k * g + pad) ≤ (size : K) := by linarith
  have c1 : (j : K) - ((size / 2 : Int) : K) ≤ (2 * (k : K) + 1) * (R * hh) + k * g := by linarith [e1, t1, t2, za]
  have c2 : -((j : K) - ((size / 2 : Int) : K)) ≤ (2 * (k : K) + 1) * (R * hh) + k * g := by linarith [e2, t1', t2, za]
  have r1 : (i : K) - ((size / 2 : Int) : K) ≤ (2 * (k : K) + 1) * (R * hh) + k * g := by linarith [e3, t3, t4, t6', kR1, kg]
  have r2 : -((i : K) - ((size / 2 : Int) : K)) ≤ (2 * (k : K) + 1) * (R * hh) + k * g := by linarith [e4, t3, t4, t6, kR1, kg]
  exact ⟨index_clear_of_border size i _ pad hpad hE r1 r2, index_clear_of_border size j _ pad hpad hE c1 c2⟩



theorem kf_vertex_pixel (half hh : K) (sinT cosT : Nat → K) (n : Int) (R : ℕ) (hhpos : 0 < hh)
    (hT : sinT 0 = 1 / 2 ∧ cosT 0 = hh ∧ sinT 1 = 1 ∧ cosT 1 = 0 ∧ sinT 2 = 1 / 2 ∧ cosT 2 = -hh ∧
          sinT 3 = -(1 / 2) ∧ cosT 3 = -hh ∧ sinT 4 = -1 ∧ cosT 4 = 0 ∧ sinT 5 = -(1 / 2) ∧ cosT 5 = hh) :
    hexagonAt half ((R : K) * hh) sinT cosT n n 0 0 false (n / 2) (n / 2 + R) = 1 ∧
    hexagonAt half ((R : K) * hh) sinT cosT n n (hexToRC (2 * hh) hh (3 / 2) (1, 0, -1) ((R : K) + 0 / 2) false).1
      (hexToRC (2 * hh) hh (3 / 2) (1, 0, -1) ((R : K) + 0 / 2) false).2 false (n / 2) (n / 2 + R) = 1 := by
  obtain ⟨s0, c0, s1, c1, s2, c2, s3, c3, s4, c4, s5, c5⟩ := hT
  have hR : (0 : K) ≤ R := Nat.cast_nonneg R
  have hRh : 0 ≤ (R : K) * hh := mul_nonneg hR hhpos.le
  constructor
  · rw [hexagonAt_eq_one_iff]
    intro k hk
    have h : k = 0 ∨ k = 1 ∨ k = 2 ∨ k = 3 ∨ k = 4 ∨ k = 5 := by omega
    rcases h with rfl | rfl | rfl | rfl | rfl | rfl <;>
      simp only [s0, c0, s1, c1, s2, c2, s3, c3, s4, c4, s5, c5, meshCoord, Gen.meshCoord] <;> push_cast <;> nlinarith
  · rw [hexagonAt_eq_one_iff]
    intro k hk
    have h : k = 0 ∨ k = 1 ∨ k = 2 ∨ k = 3 ∨ k = 4 ∨ k = 5 := by omega
    rcases h with rfl | rfl | rfl | rfl | rfl | rfl <;>
      simp only [s0, c0, s1, c1, s2, c2, s3, c3, s4, c4, s5, c5, meshCoord, Gen.meshCoord, hexToRC, Bool.false_eq_true, if_false] <;> push_cast <;> nlinarith



/-- the regenerated `hex_to_rc`, grid pitch, inner radius and size argument in the closed forms the segment theorems use (`hh = √3/2`) -/
theorem gen_hex_forms (sqrtN : ℕ → K) (hh : K) (hs : sqrtN 3 = 2 * hh) (h : HexCell) (ρ R g : K) (rot : Bool) (k pad : ℕ) :
    Gen.hexToRC sqrtN h ρ rot = hexToRC (2 * hh) hh (3 / 2) h ρ rot ∧
    Gen.hexPitch R g = R + g / 2 ∧ Gen.hexInner sqrtN R = R * hh ∧
    Gen.hexSizeArg sqrtN k pad R g = ((2 * k + 1 : ℕ) : K) * (R * hh) * 2 + ((2 * k : ℕ) : K) * g + ((pad : ℕ) : K) * 2 := by
  refine ⟨?_, ?_, ?_, ?_⟩
  · unfold Gen.hexToRC Gen.hexToXY hexToRC
    cases rot
    · simp only [Bool.false_eq_true, if_false, hs]; refine Prod.ext ?_ ?_ <;> (simp only; push_cast; ring)
    · simp only [if_true, hs]; refine Prod.ext ?_ ?_ <;> (simp only; push_cast; ring)
  · unfold Gen.hexPitch; push_cast; ring
  · unfold Gen.hexInner; rw [hs]; push_cast; ring
  · unfold Gen.hexSizeArg Gen.hexInner; rw [hs]; push_cast; ring


theorem segCells_sum (k : Nat) (c : HexCell) (hc : c ∈ segCells k) : c.1 + c.2.1 + c.2.2 = 0 := by
  induction k with
  | zero => simp only [segCells, List.mem_singleton] at hc; subst hc; rfl
  | succ k ih =>
    simp only [segCells, List.mem_append] at hc
    rcases hc with h | h
    · exact ih h
    · obtain ⟨t, _, h⟩ := hexRing_mem (k + 1) c h
      rcases h with rfl | rfl | rfl | rfl | rfl | rfl <;> (simp only; omega)

/-- `5/6 ≤ √3/2 ≤ 1` -/
theorem sqrt3_half_bounds : (5 : ℝ) / 6 ≤ √3 / 2 ∧ √3 / 2 ≤ 1 ∧ 0 < √3 / 2 := by
  have hs : √3 * √3 = 3 := Real.mul_self_sqrt (by norm_num)
  have h0 : (0 : ℝ) ≤ √3 := Real.sqrt_nonneg 3
  have h1 : (5 : ℝ) / 3 ≤ √3 := by
    by_contra h; have h := not_le.1 h; nlinarith
  have h2 : √3 ≤ 2 := by
    by_contra h; have h := not_le.1 h; nlinarith
  exact ⟨by linarith, by linarith, by linarith⟩

/-! ### the numbering loop of `hex_segments` (translated: `Gen.keptCells`) -/

/-- the (number, cell) pairs of a numbered cell list that survive the drop list -/
def keptOf (drop : List Nat) (cells : List HexCell) (start : Nat) : List (Nat × HexCell) :=
  ((cells.zipIdx start).filter (fun p => !drop.contains p.2)).map (fun p => (p.2, p.1))

theorem keptOf_append (drop : List Nat) (l1 l2 : List HexCell) (a : Nat) :
    keptOf drop (l1 ++ l2) a = keptOf drop l1 a ++ keptOf drop l2 (a + l1.length) := by
  unfold keptOf
  rw [List.zipIdx_append, List.filter_append, List.map_append]

theorem seg_inner (drop : List Nat) (L : List HexCell) : ∀ (acc : List (Nat × HexCell)) (a : Nat),
    L.foldl (fun (st : List (Nat × HexCell) × Nat) h =>
        ((if drop.contains st.2 then st.1 else st.1 ++ [(st.2, h)]), st.2 + 1)) (acc, a)
      = (acc ++ keptOf drop L a, a + L.length) := by
  induction L with
  | nil => intro acc a; simp [keptOf]
  | cons h t ih =>
    intro acc a
    rw [List.foldl_cons, ih]
    unfold keptOf
    rw [List.zipIdx_cons, List.filter_cons]
    by_cases hd : a ∈ drop
    · simp [hd, Nat.add_assoc, Nat.add_comm 1]
    · simp [hd, Nat.add_assoc, Nat.add_comm 1]

theorem keptCells_eq (rings : Nat) (drop : List Nat) :
    keptCells rings drop = keptOf drop (segCells rings) 0 := by
  have outer : ∀ k : Nat, (List.range' 1 k).foldl (fun (st : List (Nat × HexCell) × Nat) ring =>
      (Gen.hexRing ring).foldl (fun (st : List (Nat × HexCell) × Nat) h =>
        ((if drop.contains st.2 then st.1 else st.1 ++ [(st.2, h)]), st.2 + 1)) st)
      ((if drop.contains 0 then [] else [(0, ((0, 0, 0) : HexCell))]), 1)
      = (keptOf drop (segCells k) 0, (segCells k).length) := by
    intro k
    induction k with
    | zero =>
      by_cases hd : 0 ∈ drop <;> simp [keptOf, segCells, hd]
    | succ k ih =>
      rw [List.range'_1_concat, List.foldl_append, ih]
      simp only [List.foldl_cons, List.foldl_nil]
      rw [seg_inner]
      have e : segCells (k + 1) = segCells k ++ hexRing (k + 1) := rfl
      rw [e, keptOf_append, List.length_append, Nat.zero_add, Nat.add_comm 1 k]
      rfl
  unfold keptCells Gen.keptCells
  have := outer rings
  simp only [Nat.add_sub_cancel]
  exact congrArg Prod.fst this

/-- the numbers of the drawn segments are `keptSegments`, and every drawn cell is the cell with that number in `segCells` -/
theorem keptCells_spec (rings : Nat) (drop : List Nat) :
    (keptCells rings drop).map Prod.fst = keptSegments rings drop ∧
    ∀ p ∈ keptCells rings drop, (segCells rings)[p.1]? = some p.2 := by
  have e : keptCells rings drop = keptOf drop (segCells rings) 0 := keptCells_eq rings drop
  rw [e]
  constructor
  · unfold keptOf keptSegments
    rw [List.map_map]
    have h1 : (Prod.fst ∘ fun p : HexCell × Nat => (p.2, p.1)) = Prod.snd := rfl
    rw [h1]
    have h2 : (fun p : HexCell × Nat => !drop.contains p.2) = (fun s : Nat => !drop.contains s) ∘ Prod.snd := rfl
    rw [h2, ← List.filter_map, List.zipIdx_map_snd, List.range_eq_range']
  · intro p hp
    unfold keptOf at hp
    simp only [List.mem_map, List.mem_filter] at hp
    obtain ⟨q, ⟨hq, _⟩, rfl⟩ := hp
    obtain ⟨_, hlt, he⟩ := List.mem_zipIdx hq
    simp only [Nat.sub_zero, Nat.zero_add] at hlt he
    rw [List.getElem?_eq_getElem hlt, he]

/-! ### border clearance of the ANTIALIASED segments (the library default) -/

/-- the antialiased support is inside the binary hexagon that is half a pixel larger: a positive antialiased value means every edge distance is
below `inner + half` -/
theorem hexagonAt_aa_pos (half inner : K) (sinT cosT : Nat → K) (n0 n1 : Int) (s0 s1 : K) (i j : Int)
    (h : 0 < hexagonAt half inner sinT cosT n0 n1 s0 s1 true i j) :
    hexagonAt half (inner + half) sinT cosT n0 n1 s0 s1 false i j = 1 := by
  rw [hexagonAt_eq_one_iff]
  unfold hexagonAt at h
  simp only [minK_eq_min, lt_min_iff] at h
  have side : ∀ n, 0 < hexSide half inner true (meshCoord n0 i s0) (meshCoord n1 j s1) (sinT n) (cosT n) →
      meshCoord n0 i s0 * sinT n + meshCoord n1 j s1 * cosT n ≤ inner + half := by
    intro n hn
    unfold hexSide clip01 at hn
    simp only [if_true] at hn
    by_contra hc
    have hlt := not_le.1 hc
    rw [if_pos (by linarith)] at hn
    exact lt_irrefl _ hn
  intro n hn
  obtain ⟨⟨⟨⟨⟨⟨_, h0⟩, h1⟩, h2⟩, h3⟩, h4⟩, h5⟩ := h
  have hcases : n = 0 ∨ n = 1 ∨ n = 2 ∨ n = 3 ∨ n = 4 ∨ n = 5 := by omega
  rcases hcases with rfl | rfl | rfl | rfl | rfl | rfl
  · exact side 0 h0
  · exact side 1 h1
  · exact side 2 h2
  · exact side 3 h3
  · exact side 4 h4
  · exact side 5 h5

/-- as `index_clear_of_border` with 3/5 of a pixel of slack (the antialiased edge reaches half a pixel further; across a vertex `(1/2)/(√3/2) ≤ 3/5`):
the integer index is still in `[1, size − 2]` for `pad ≥ 2` -/
theorem index_clear_of_border_slack (size i : Int) (E pad : K) (hpad : 2 ≤ pad) (hsize : 2 * (E + pad) ≤ (size : K))
    (h1 : (i : K) - ((size / 2 : Int) : K) ≤ E + 3 / 5) (h2 : -((i : K) - ((size / 2 : Int) : K)) ≤ E + 3 / 5) : 1 ≤ i ∧ i ≤ size - 2 := by
  have a1 : 2 * (size / 2) ≤ size := by omega
  have a2 : size ≤ 2 * (size / 2) + 1 := by omega
  have b1 : (2 : K) * ((size / 2 : Int) : K) ≤ (size : K) := by exact_mod_cast a1
  have b2 : (size : K) ≤ 2 * ((size / 2 : Int) : K) + 1 := by exact_mod_cast a2
  have i1 : (0 : K) < (i : K) := by linarith
  have i2 : (i : K) < ((size - 1 : Int) : K) := by push_cast; linarith
  have j1 : 0 < i := by exact_mod_cast i1
  have j2 : i < size - 1 := by exact_mod_cast i2
  omega

theorem hex_border_unrotated_aa (half hh R g pad : K) (sinT cosT : Nat → K) (size : Int) (k : Nat) (a : HexCell) (i j : Int)
    (hhalf : half = 1 / 2) (hh56 : 5 / 6 ≤ hh) (hh1 : hh ≤ 1) (hR : 0 ≤ R) (hg : 0 ≤ g) (hpad : 2 ≤ pad) (hk : 1 ≤ k)
    (hsize : ((2 * k + 1 : ℕ) : K) * (R * hh) * 2 + ((2 * k : ℕ) : K) * g + pad * 2 ≤ (size : K))
    (hT : sinT 0 = 1 / 2 ∧ cosT 0 = hh ∧ sinT 1 = 1 ∧ cosT 1 = 0 ∧ sinT 2 = 1 / 2 ∧ cosT 2 = -hh ∧
          sinT 3 = -(1 / 2) ∧ cosT 3 = -hh ∧ sinT 4 = -1 ∧ cosT 4 = 0 ∧ sinT 5 = -(1 / 2) ∧ cosT 5 = hh)
    (ha : a.1 + a.2.1 + a.2.2 = 0)
    (hb : (-(k : Int) ≤ a.1 ∧ a.1 ≤ k) ∧ (-(k : Int) ≤ a.2.1 ∧ a.2.1 ≤ k) ∧ (-(k : Int) ≤ a.2.2 ∧ a.2.2 ≤ k))
    (hin : 0 < hexagonAt half (R * hh) sinT cosT size size (hexToRC (2 * hh) hh (3 / 2) a (R + g / 2) false).1
          (hexToRC (2 * hh) hh (3 / 2) a (R + g / 2) false).2 true i j) :
    (1 ≤ i ∧ i ≤ size - 2) ∧ (1 ≤ j ∧ j ≤ size - 2) := by
  have hhpos : 0 < hh := by linarith
  have hin1 := hexagonAt_aa_pos half (R * hh) sinT cosT size size _ _ i j hin
  have q1 : (R + half / hh) * hh = R * hh + half := by field_simp
  rw [← q1] at hin1
  obtain ⟨e1, e2, e3, e4⟩ := hex_extent_unrotated half hh (R + half / hh) (R + g / 2) sinT cosT size a i j hhpos hT hin1
  rw [q1] at e1 e2
  have q2 : half / hh ≤ 3 / 5 := by rw [hhalf, div_le_iff₀ hhpos]; linarith
  have hq : (-(k : K) ≤ (a.1 : K) ∧ (a.1 : K) ≤ k) := ⟨by exact_mod_cast hb.1.1, by exact_mod_cast hb.1.2⟩
  have hr : (-(k : K) ≤ (a.2.1 : K) ∧ (a.2.1 : K) ≤ k) := ⟨by exact_mod_cast hb.2.1.1, by exact_mod_cast hb.2.1.2⟩
  have hs : (-(k : K) ≤ (a.2.2 : K) ∧ (a.2.2 : K) ≤ k) := ⟨by exact_mod_cast hb.2.2.1, by exact_mod_cast hb.2.2.2⟩
  have hsum : ((a.1 : K) + (a.2.1 : K) + (a.2.2 : K) = 0) := by exact_mod_cast ha
  have hk1 : (1 : K) ≤ k := by exact_mod_cast hk
  have hk0 : (0 : K) ≤ k := by linarith
  have hρ : 0 ≤ R + g / 2 := by linarith
  have hw : 0 ≤ (R + g / 2) * hh := mul_nonneg hρ hhpos.le
  have kg : 0 ≤ (k : K) * g := mul_nonneg hk0 hg
  have t1 : (R + g / 2) * hh * ((a.2.2 : K) - a.2.1) ≤ (R + g / 2) * hh * (2 * k) :=
    mul_le_mul_of_nonneg_left (by linarith [hs.2, hr.1]) hw
  have t1' : (R + g / 2) * hh * ((a.2.1 : K) - a.2.2) ≤ (R + g / 2) * hh * (2 * k) :=
    mul_le_mul_of_nonneg_left (by linarith [hs.1, hr.2]) hw
  have t2 : (k : K) * g * hh ≤ k * g := mul_le_of_le_one_right kg hh1
  have t3 : R * (5 / 6) ≤ R * hh := mul_le_mul_of_nonneg_left hh56 hR
  have t4 : (k : K) * R * (5 / 6) ≤ k * R * hh := mul_le_mul_of_nonneg_left hh56 (mul_nonneg hk0 hR)
  have t6 : (R + g / 2) * (a.1 : K) ≤ (R + g / 2) * k := mul_le_mul_of_nonneg_left hq.2 hρ
  have t6' : (R + g / 2) * (-(a.1 : K)) ≤ (R + g / 2) * k := mul_le_mul_of_nonneg_left (by linarith [hq.1]) hρ
  have kR1 : R ≤ (k : K) * R := le_mul_of_one_le_left hR hk1
  have za : ((a.1 : K) + (a.2.1 : K) + (a.2.2 : K)) * ((R + g / 2) * hh) = 0 := by rw [hsum, zero_mul]
  push_cast at hsize
  have hE : 2 * ((2 * (k : K) + 1) * (R * hh) + k * g + pad) ≤ (size : K) := by linarith
  have r1 : (i : K) - ((size / 2 : Int) : K) ≤ (2 * (k : K) + 1) * (R * hh) + k * g + 3 / 5 := by linarith [q2, hhalf, e1, t1, t2, za]
  have r2 : -((i : K) - ((size / 2 : Int) : K)) ≤ (2 * (k : K) + 1) * (R * hh) + k * g + 3 / 5 := by linarith [q2, hhalf, e2, t1', t2, za]
  have c1 : (j : K) - ((size / 2 : Int) : K) ≤ (2 * (k : K) + 1) * (R * hh) + k * g + 3 / 5 := by linarith [q2, hhalf, e3, t3, t4, t6, kR1, kg]
  have c2 : -((j : K) - ((size / 2 : Int) : K)) ≤ (2 * (k : K) + 1) * (R * hh) + k * g + 3 / 5 := by linarith [q2, hhalf, e4, t3, t4, t6', kR1, kg]
  exact ⟨index_clear_of_border_slack size i _ pad hpad hE r1 r2, index_clear_of_border_slack size j _ pad hpad hE c1 c2⟩

theorem hex_border_rotated_aa (half hh R g pad : K) (sinT cosT : Nat → K) (size : Int) (k : Nat) (a : HexCell) (i j : Int)
    (hhalf : half = 1 / 2) (hh56 : 5 / 6 ≤ hh) (hh1 : hh ≤ 1) (hR : 0 ≤ R) (hg : 0 ≤ g) (hpad : 2 ≤ pad) (hk : 1 ≤ k)
    (hsize : ((2 * k + 1 : ℕ) : K) * (R * hh) * 2 + ((2 * k : ℕ) : K) * g + pad * 2 ≤ (size : K))
    (hT : sinT 0 = 0 ∧ cosT 0 = 1 ∧ sinT 1 = hh ∧ cosT 1 = 1 / 2 ∧ sinT 2 = hh ∧ cosT 2 = -(1 / 2) ∧
          sinT 3 = 0 ∧ cosT 3 = -1 ∧ sinT 4 = -hh ∧ cosT 4 = -(1 / 2) ∧ sinT 5 = -hh ∧ cosT 5 = 1 / 2)
    (ha : a.1 + a.2.1 + a.2.2 = 0)
    (hb : (-(k : Int) ≤ a.1 ∧ a.1 ≤ k) ∧ (-(k : Int) ≤ a.2.1 ∧ a.2.1 ≤ k) ∧ (-(k : Int) ≤ a.2.2 ∧ a.2.2 ≤ k))
    (hin : 0 < hexagonAt half (R * hh) sinT cosT size size (hexToRC (2 * hh) hh (3 / 2) a (R + g / 2) true).1
          (hexToRC (2 * hh) hh (3 / 2) a (R + g / 2) true).2 true i j) :
    (1 ≤ i ∧ i ≤ size - 2) ∧ (1 ≤ j ∧ j ≤ size - 2) := by
  have hhpos : 0 < hh := by linarith
  have hin1 := hexagonAt_aa_pos half (R * hh) sinT cosT size size _ _ i j hin
  have q1 : (R + half / hh) * hh = R * hh + half := by field_simp
  rw [← q1] at hin1
  obtain ⟨e1, e2, e3, e4⟩ := hex_extent_rotated half hh (R + half / hh) (R + g / 2) sinT cosT size a i j hhpos hT hin1
  rw [q1] at e1 e2
  have q2 : half / hh ≤ 3 / 5 := by rw [hhalf, div_le_iff₀ hhpos]; linarith
  have hq : (-(k : K) ≤ (a.1 : K) ∧ (a.1 : K) ≤ k) := ⟨by exact_mod_cast hb.1.1, by exact_mod_cast hb.1.2⟩
  have hr : (-(k : K) ≤ (a.2.1 : K) ∧ (a.2.1 : K) ≤ k) := ⟨by exact_mod_cast hb.2.1.1, by exact_mod_cast hb.2.1.2⟩
  have hs : (-(k : K) ≤ (a.2.2 : K) ∧ (a.2.2 : K) ≤ k) := ⟨by exact_mod_cast hb.2.2.1, by exact_mod_cast hb.2.2.2⟩
  have hsum : ((a.1 : K) + (a.2.1 : K) + (a.2.2 : K) = 0) := by exact_mod_cast ha
  have hk1 : (1 : K) ≤ k := by exact_mod_cast hk
  have hk0 : (0 : K) ≤ k := by linarith
  have hρ : 0 ≤ R + g / 2 := by linarith
  have hw : 0 ≤ (R + g / 2) * hh := mul_nonneg hρ hhpos.le
  have kg : 0 ≤ (k : K) * g := mul_nonneg hk0 hg
  have t1 : (R + g / 2) * hh * ((a.1 : K) - a.2.2) ≤ (R + g / 2) * hh * (2 * k) :=
    mul_le_mul_of_nonneg_left (by linarith [hq.2, hs.1]) hw
  have t1' : (R + g / 2) * hh * ((a.2.2 : K) - a.1) ≤ (R + g / 2) * hh * (2 * k) :=
    mul_le_mul_of_nonneg_left (by linarith [hq.1, hs.2]) hw
  have t2 : (k : K) * g * hh ≤ k * g := mul_le_of_le_one_right kg hh1
  have t3 : R * (5 / 6) ≤ R * hh := mul_le_mul_of_nonneg_left hh56 hR
  have t4 : (k : K) * R * (5 / 6) ≤ k * R * hh := mul_le_mul_of_nonneg_left hh56 (mul_nonneg hk0 hR)
  have t6 : (R + g / 2) * (a.2.1 : K) ≤ (R + g / 2) * k := mul_le_mul_of_nonneg_left hr.2 hρ
  have t6' : (R + g / 2) * (-(a.2.1 : K)) ≤ (R + g / 2) * k := mul_le_mul_of_nonneg_left (by linarith [hr.1]) hρ
  have kR1 : R ≤ (k : K) * R := le_mul_of_one_le_left hR hk1
  have za : ((a.1 : K) + (a.2.1 : K) + (a.2.2 : K)) * ((R + g / 2) * hh) = 0 := by rw [hsum, zero_mul]
  push_cast at hsize
  have hE : 2 * ((2 * (k : K) + 1) * (R * hh) + k * g + pad) ≤ (size : K) := by linarith
  have c1 : (j : K) - ((size / 2 : Int) : K) ≤ (2 * (k : K) + 1) * (R * hh) + k * g + 3 / 5 := by linarith [q2, hhalf, e1, t1, t2, za]
  have c2 : -((j : K) - ((size / 2 : Int) : K)) ≤ (2 * (k : K) + 1) * (R * hh) + k * g + 3 / 5 := by linarith [q2, hhalf, e2, t1', t2, za]
  have r1 : (i : K) - ((size / 2 : Int) : K) ≤ (2 * (k : K) + 1) * (R * hh) + k * g + 3 / 5 := by linarith [q2, hhalf, e3, t3, t4, t6', kR1, kg]
  have r2 : -((i : K) - ((size / 2 : Int) : K)) ≤ (2 * (k : K) + 1) * (R * hh) + k * g + 3 / 5 := by linarith [q2, hhalf, e4, t3, t4, t6, kR1, kg]
  exact ⟨index_clear_of_border_slack size i _ pad hpad hE r1 r2, index_clear_of_border_slack size j _ pad hpad hE c1 c2⟩



end Lentil
