import LentilVerif.Lemmas.SpecArith
/-! scaling lemmas for C13's unit invariance: every piece of `_interp_common` is homogeneous of degree one in the wavelengths -/
namespace Lentil.Spec
open Gen

theorem foldl_min_scale (k : ℚ) (hk : 0 < k) : ∀ (l : List ℚ) (a : ℚ), (l.map (· * k)).foldl min (a * k) = l.foldl min a * k := by
  intro l
  induction l with
  | nil => intro a; rfl
  | cons x xs ih =>
    intro a
    simp only [List.map_cons, List.foldl_cons]
    rw [← ih (min a x)]
    congr 1
    exact (min_mul_of_nonneg a x (le_of_lt hk)).symm

theorem foldl_max_scale (k : ℚ) (hk : 0 < k) : ∀ (l : List ℚ) (a : ℚ), (l.map (· * k)).foldl max (a * k) = l.foldl max a * k := by
  intro l
  induction l with
  | nil => intro a; rfl
  | cons x xs ih =>
    intro a
    simp only [List.map_cons, List.foldl_cons]
    rw [← ih (max a x)]
    congr 1
    exact (max_mul_of_nonneg a x (le_of_lt hk)).symm

theorem minL_scale (k : ℚ) (hk : 0 < k) (l : List ℚ) : minL (l.map (· * k)) = (minL l).map (· * k) := by
  cases l with
  | nil => rfl
  | cons x xs => simp only [minL, List.map_cons, Option.map_some, foldl_min_scale k hk]

theorem maxL_scale (k : ℚ) (hk : 0 < k) (l : List ℚ) : maxL (l.map (· * k)) = (maxL l).map (· * k) := by
  cases l with
  | nil => rfl
  | cons x xs => simp only [maxL, List.map_cons, Option.map_some, foldl_max_scale k hk]

theorem minDiff_scale (k : ℚ) (hk : 0 < k) : ∀ l : List ℚ, minDiff (l.map (· * k)) = (minDiff l).map (· * k) := by
  intro l
  induction l with
  | nil => rfl
  | cons x0 l ih =>
    cases l with
    | nil => rfl
    | cons x1 xs =>
      simp only [List.map_cons] at ih ⊢
      simp only [minDiff, ih]
      cases minDiff (x1 :: xs) with
      | none => simp [sub_mul]
      | some d =>
        simp only [Option.map_some]
        rw [← sub_mul, min_mul_of_nonneg _ _ (le_of_lt hk)]

/-- the sampling option expressed in the scaled unit: a numeric sampling is a length and scales, the others are names -/
def Sampling.scale (k : ℚ) : Sampling → Sampling
  | .step d => .step (d * k)
  | m => m

theorem samplingOf_scale (k : ℚ) (hk : 0 < k) (m : Sampling) (w1 w2 : List ℚ) :
    samplingOf (m.scale k) (w1.map (· * k)) (w2.map (· * k)) = (samplingOf m w1 w2).map (· * k) := by
  cases m <;> simp only [Sampling.scale, samplingOf_eq, minDiff_scale k hk]
  · cases minDiff w1 <;> cases minDiff w2 <;> simp [min_mul_of_nonneg _ _ (le_of_lt hk)]
  · rfl

theorem linspace_scale (k a b : ℚ) (n : ℕ) : linspace (a * k) (b * k) n = (linspace a b n).map (· * k) := by
  unfold linspace
  split
  · simp
  · simp only [List.map_map]
    apply List.map_congr_left
    intro i _
    simp only [Function.comp]
    ring

theorem gridTol_scale (k dw : ℚ) : gridTol (dw * k) = gridTol dw * k := by
  rw [gridTol_eq, gridTol_eq]; ring

theorem commonGrid_scale (k mn mx dw : ℚ) (hk : 0 < k) (hdw : dw ≠ 0) :
    commonGrid (mn * k) (mx * k) (dw * k) = (commonGrid mn mx dw).map (· * k) := by
  unfold commonGrid
  rw [gridNum_scale mn mx dw k hk hdw]
  simp only [Gen.interpStart, Gen.interpStop, Gen.interpCount]
  exact linspace_scale k mn mx _

theorem seg_scale (k : ℚ) (hk : 0 < k) : ∀ (xs ys : List ℚ) (x : ℚ), seg (xs.map (· * k)) ys (x * k) = seg xs ys x := by
  intro xs
  induction xs with
  | nil => intro ys x; cases ys <;> simp [seg]
  | cons x0 xs ih =>
    intro ys x
    cases xs with
    | nil => cases ys <;> simp [seg]
    | cons x1 rest =>
      cases ys with
      | nil => simp [seg]
      | cons y0 ys => cases ys with
        | nil => simp [seg]
        | cons y1 ys' =>
          have := ih (y1 :: ys') x
          simp only [List.map_cons] at this ⊢
          simp only [seg, mul_le_mul_iff_of_pos_right hk, this]
          congr 1
          rw [← sub_mul, ← sub_mul, div_mul_eq_mul_div, div_mul_eq_mul_div, ← mul_assoc, mul_div_mul_right _ _ (ne_of_gt hk)]

theorem interpAt_scale (k : ℚ) (hk : 0 < k) (xs ys : List ℚ) (fl fr x : ℚ) :
    interpAt (xs.map (· * k)) ys fl fr (x * k) = interpAt xs ys fl fr x := by
  unfold interpAt
  rw [List.head?_map, List.getLast?_map]
  cases xs.head? <;> cases xs.getLast? <;> simp only [Option.map_some, Option.map_none, mul_lt_mul_iff_of_pos_right hk, seg_scale k hk]

theorem clip_scale (k lo hi g : ℚ) (hk : 0 < k) : clip (lo * k) (hi * k) (g * k) = clip lo hi g * k := by
  unfold clip
  simp only [mul_lt_mul_iff_of_pos_right hk]
  split
  · rfl
  · split <;> rfl

theorem operandAt_scale (k : ℚ) (hk : 0 < k) (s : Spectrum) (lo hi tol fill g : ℚ) :
    operandAt (scaleS k s) (lo * k) (hi * k) (tol * k) fill (g * k) = operandAt s lo hi tol fill g := by
  unfold operandAt scaleS
  simp only [← sub_mul, ← add_mul, mul_le_mul_iff_of_pos_right hk, clip_scale k lo hi g hk, interpAt_scale k hk]

theorem interpCommon_scale (k : ℚ) (hk : 0 < k) (s1 s2 : Spectrum) (m : Sampling) (fill : ℚ)
    (hdw : ∀ dw, samplingOf m s1.wave s2.wave = some dw → dw ≠ 0) :
    interpCommon (scaleS k s1) (scaleS k s2) (m.scale k) fill
      = (interpCommon s1 s2 m fill).map (fun r => (r.1.map (· * k), r.2.1, r.2.2)) := by
  simp only [interpCommon, scaleS, minL_scale k hk, maxL_scale k hk, samplingOf_scale k hk]
  cases minL s1.wave <;> cases maxL s1.wave <;> cases minL s2.wave <;> cases maxL s2.wave <;> try rfl
  rename_i lo1 hi1 lo2 hi2
  simp only [Option.map_some]
  cases hs : samplingOf m s1.wave s2.wave with
  | none => rfl
  | some dw =>
    have hd := hdw dw hs
    simp only [Option.map_some, Except.map]
    have e1 : Gen.interpMin (lo1 * k) (lo2 * k) = Gen.interpMin lo1 lo2 * k := by
      simp only [Gen.interpMin]; exact (min_mul_of_nonneg _ _ (le_of_lt hk)).symm
    have e2 : Gen.interpMax (hi1 * k) (hi2 * k) = Gen.interpMax hi1 hi2 * k := by
      simp only [Gen.interpMax]; exact (max_mul_of_nonneg _ _ (le_of_lt hk)).symm
    rw [e1, e2, commonGrid_scale k _ _ dw hk hd, gridTol_scale]
    simp only [List.map_map]
    congr 2
    · congr 1
      · apply List.map_congr_left; intro g _
        exact operandAt_scale k hk s1 lo1 hi1 (gridTol dw) fill g
      · apply List.map_congr_left; intro g _
        exact operandAt_scale k hk s2 lo2 hi2 (gridTol dw) fill g

end Lentil.Spec
