import LentilVerif.Model.Heap
/-! Frame lemmas of the heap model (core Lean). Property theorems are in Props/C10.lean. -/
namespace Lentil.Heap

theorem mem_writeCells (tbl : List Gen.EffRow) (s : State) (op : Op) (c : Cell) :
    c ∈ writeCells tbl s op ↔ ∃ b ∈ op.bind, b.1 ∈ writeSlots tbl op ∧
      (c = b.2 ∨ ∃ a, (a, c) ∈ s.refs b.2 ∧ (a = "*" ∨ (writeAttrs tbl op b.1).isEmpty = true ∨ a ∈ writeAttrs tbl op b.1)) := by
  simp only [writeCells, List.mem_flatMap, List.mem_filter, List.contains_eq_mem, decide_eq_true_eq, List.mem_cons, List.mem_map,
    Bool.or_eq_true, beq_iff_eq, or_assoc]
  constructor
  · rintro ⟨b, ⟨hb, hs⟩, hc⟩
    refine ⟨b, hb, hs, ?_⟩
    rcases hc with hc | ⟨r, ⟨hr, hok⟩, rfl⟩
    · exact Or.inl hc
    · exact Or.inr ⟨r.1, hr, hok⟩
  · rintro ⟨b, hb, hs, hc⟩
    refine ⟨b, ⟨hb, hs⟩, ?_⟩
    rcases hc with hc | ⟨a, hr, hok⟩
    · exact Or.inl hc
    · exact Or.inr ⟨(a, c), ⟨hr, hok⟩, rfl⟩

theorem frame_step (tbl : List Gen.EffRow) (s : State) (op : Op) (c : Cell) (h1 : op.res ≠ some c)
    (h2 : c ∉ writeCells tbl s op) : (step tbl s op).val c = s.val c := by
  simp [step, h1, h2]

theorem run_cons (tbl : List Gen.EffRow) (s : State) (op : Op) (ops : List Op) :
    run tbl s (op :: ops) = run tbl (step tbl s op) ops := rfl

theorem run_append (tbl : List Gen.EffRow) (s : State) (a b : List Op) :
    run tbl s (a ++ b) = run tbl (run tbl s a) b := by simp [run, List.foldl_append]

theorem rng_step (tbl : List Gen.EffRow) (s : State) (op : Op) (h : usesGlobalRng tbl op.fn = false) :
    (step tbl s op).rng = s.rng := by simp [step, h]

theorem cache_step (tbl : List Gen.EffRow) (s : State) (op : Op) (h : writesCache tbl op.fn = false) (hs : CacheOK s) :
    CacheOK (step tbl s op) := by
  intro k v hv
  simp only [step, h, Bool.false_eq_true, if_false] at hv
  split at hv
  · cases hv
  · split at hv
    · cases hc : s.cache k with
      | none => simp [hc] at hv; exact hv.symm
      | some w => simp [hc] at hv; subst hv; exact hs k w hc
    · exact hs k v hv

theorem lookup_of_ok (s : State) (hs : CacheOK s) (k : Key) : lookup s k = freshCoords k := by
  unfold lookup
  cases hc : s.cache k with
  | none => rfl
  | some v => exact hs k v hc

theorem row?_mem (tbl : List Gen.EffRow) (fn : String) (r : Gen.EffRow) (h : row? tbl fn = some r) : r ∈ tbl ∧ r.fn = fn := by
  unfold row? at h
  exact ⟨List.mem_of_find?_eq_some h, by simpa using List.find?_some h⟩

end Lentil.Heap
