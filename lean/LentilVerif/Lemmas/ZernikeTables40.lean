import LentilVerif.Model.ZernikeRadial
import LentilVerif.Model.ZernikeBound
/-! THOROUGH TIER ONLY (about 5 minutes of kernel time): the cleared-denominator integer Gram table of the radial polynomials for all
orders n, n' ≤ 40 — every pair among the 861 modes the float evaluation can represent. Built by tools/harness/c11.py in the
thorough tier (`lake build LentilVerif.Props.C11Thorough`), not part of the quick build. -/
namespace Lentil

theorem allGram_40 : allGram 40 = true := by decide +kernel

/-- the Chebyshev certificate of `|R_n^m| ≤ 1` for all 441 valid (n, m) with n ≤ 40 -/
theorem allCheb_40 : allCheb 40 = true := by decide +kernel

end Lentil
