import Mathlib.Analysis.SpecialFunctions.PolarCoord
import Mathlib.MeasureTheory.Integral.IntervalIntegral.Periodic
import Mathlib.MeasureTheory.Integral.Prod
/-! The area integral over the unit disk of a function given in polar form is the iterated polar integral (Mathlib's polar change of
variables + Fubini + periodicity in the angle). -/
open MeasureTheory Set Real
namespace Lentil

/-- the open unit disk of the plane -/
def unitDisk : Set (ℝ × ℝ) := {q | q.1 ^ 2 + q.2 ^ 2 < 1}

theorem polar_indicator (G : ℝ → ℝ → ℝ) (p : ℝ × ℝ) (hp : p ∈ polarCoord.target) :
    p.1 • (unitDisk.indicator (fun q => G (polarCoord q).1 (polarCoord q).2) (polarCoord.symm p))
      = (Ioo (0 : ℝ) 1 ×ˢ Ioo (-π) π).indicator (fun p => p.1 * G p.1 p.2) p := by
  have hr : 0 < p.1 := hp.1
  have hinv : polarCoord (polarCoord.symm p) = p := polarCoord.right_inv hp
  have hmem : polarCoord.symm p ∈ unitDisk ↔ p.1 < 1 := by
    unfold unitDisk
    simp only [polarCoord_symm_apply, mem_setOf_eq]
    have : (p.1 * Real.cos p.2) ^ 2 + (p.1 * Real.sin p.2) ^ 2 = p.1 ^ 2 := by
      have := Real.cos_sq_add_sin_sq p.2; nlinarith
    rw [this]
    constructor
    · intro h; nlinarith
    · intro h; nlinarith
  by_cases h1 : p.1 < 1
  · rw [indicator_of_mem (hmem.2 h1), indicator_of_mem (show p ∈ Ioo (0 : ℝ) 1 ×ˢ Ioo (-π) π from ⟨⟨hr, h1⟩, hp.2⟩), hinv, smul_eq_mul]
  · rw [indicator_of_notMem (fun h => h1 (hmem.1 h)), indicator_of_notMem (fun h => h1 h.1.2), smul_zero]

/-- the integral over the unit disk of a function given in polar form is the integral of `ρ·G(ρ, θ)` over `(0,1) × (−π, π)` -/
theorem disk_integral_polar (G : ℝ → ℝ → ℝ) :
    ∫ q in unitDisk, G (polarCoord q).1 (polarCoord q).2 = ∫ p in Ioo (0 : ℝ) 1 ×ˢ Ioo (-π) π, p.1 * G p.1 p.2 := by
  have hmeas : MeasurableSet unitDisk := by
    unfold unitDisk
    exact measurableSet_lt (by fun_prop) measurable_const
  rw [← integral_indicator hmeas, ← integral_comp_polarCoord_symm]
  have hmeas2 : MeasurableSet (Ioo (0 : ℝ) 1 ×ˢ Ioo (-π) π) := measurableSet_Ioo.prod measurableSet_Ioo
  rw [← integral_indicator hmeas2]
  have hsub : Ioo (0 : ℝ) 1 ×ˢ Ioo (-π) π ⊆ polarCoord.target := fun p hp => ⟨hp.1.1, hp.2⟩
  rw [← integral_indicator polarCoord.open_target.measurableSet]
  congr 1
  funext p
  by_cases hp : p ∈ polarCoord.target
  · rw [indicator_of_mem hp, polar_indicator G p hp]
  · rw [indicator_of_notMem hp, indicator_of_notMem (fun h => hp (hsub h))]


/-- Fubini on the polar rectangle: for a jointly continuous polar form `G` -/
theorem polar_rect_iterated (G : ℝ → ℝ → ℝ) (hG : Continuous (fun p : ℝ × ℝ => G p.1 p.2)) :
    ∫ p in Ioo (0 : ℝ) 1 ×ˢ Ioo (-π) π, p.1 * G p.1 p.2 = ∫ θ in (-π)..π, ∫ ρ in (0 : ℝ)..1, G ρ θ * ρ := by
  have hcont : Continuous (fun p : ℝ × ℝ => p.1 * G p.1 p.2) := continuous_fst.mul hG
  have hint : IntegrableOn (fun p : ℝ × ℝ => p.1 * G p.1 p.2) (Ioo (0 : ℝ) 1 ×ˢ Ioo (-π) π) (volume.prod volume) := by
    have : IntegrableOn (fun p : ℝ × ℝ => p.1 * G p.1 p.2) (Icc (0 : ℝ) 1 ×ˢ Icc (-π) π) (volume.prod volume) :=
      hcont.continuousOn.integrableOn_compact (isCompact_Icc.prod isCompact_Icc)
    exact this.mono_set (prod_mono Ioo_subset_Icc_self Ioo_subset_Icc_self)
  rw [Measure.volume_eq_prod, ← setIntegral_prod_swap, setIntegral_prod]
  · rw [intervalIntegral.integral_of_le (by linarith [Real.pi_pos]), integral_Ioc_eq_integral_Ioo]
    apply setIntegral_congr_fun measurableSet_Ioo
    intro θ _
    simp only [Prod.swap_prod_mk]
    rw [intervalIntegral.integral_of_le zero_le_one, integral_Ioc_eq_integral_Ioo]
    apply setIntegral_congr_fun measurableSet_Ioo
    intro ρ _
    simp only [mul_comm]
  · have : IntegrableOn (fun z : ℝ × ℝ => (fun p : ℝ × ℝ => p.1 * G p.1 p.2) z.swap) (Icc (-π) π ×ˢ Icc (0 : ℝ) 1) (volume.prod volume) :=
      (hcont.comp continuous_swap).continuousOn.integrableOn_compact (isCompact_Icc.prod isCompact_Icc)
    exact this.mono_set (prod_mono Ioo_subset_Icc_self Ioo_subset_Icc_self)


/-- **polar change of variables on the unit disk**: for a jointly continuous polar form `G(ρ, θ)` that is 2π-periodic in θ, the integral of
`q ↦ G(|q|, arg q)` over the unit disk is `∫₀^{2π} ∫₀¹ G(ρ, θ) ρ dρ dθ` -/
theorem disk_integral_eq_iterated (G : ℝ → ℝ → ℝ) (hG : Continuous (fun p : ℝ × ℝ => G p.1 p.2))
    (hper : ∀ ρ, Function.Periodic (G ρ) (2 * π)) :
    ∫ q in unitDisk, G (polarCoord q).1 (polarCoord q).2 = ∫ θ in (0 : ℝ)..(2 * π), ∫ ρ in (0 : ℝ)..1, G ρ θ * ρ := by
  rw [disk_integral_polar, polar_rect_iterated G hG]
  have hH : Function.Periodic (fun θ => ∫ ρ in (0 : ℝ)..1, G ρ θ * ρ) (2 * π) := by
    intro θ; simp only; congr 1; funext ρ; rw [hper ρ θ]
  have := hH.intervalIntegral_add_eq (-π) 0
  rw [show -π + 2 * π = π by ring, zero_add] at this
  exact this

end Lentil
