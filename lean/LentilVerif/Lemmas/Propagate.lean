import LentilVerif.Lemmas.Window
import Mathlib.Tactic.Ring
/-! Helper lemmas about the propagation model (`dft2` coordinates, output-field embedding). -/
namespace Lentil

section
set_option linter.unusedSectionVars false
variable {K R : Type} [Add R] [Sub R] [Mul R] [Neg R] [RealLike R] [Add K] [Mul K] [Zero K] [CxLike K R]

theorem dft2_shape0 (f : Arr K) (αr αc : R) (M N : Int) (shr shc : R) (offr offc : Int) (un : Bool) :
    (dft2 f αr αc M N shr shc offr offc un).s0 = M := rfl
theorem dft2_shape1 (f : Arr K) (αr αc : R) (M N : Int) (shr shc : R) (offr offc : Int) (un : Bool) :
    (dft2 f αr αc M N shr shc offr offc un).s1 = N := rfl

/-- a `dft2` sample depends on `(M, u, shift)` only through the real output coordinate `ofInt (cc M u) - shift` -/
theorem dft2_get_congr (f : Arr K) (αr αc : R) (M N M' N' : Int) (shr shc shr' shc' : R) (offr offc : Int) (un : Bool)
    (u v u' v' : Int)
    (hr : (RealLike.ofInt (cc M u) : R) - shr = RealLike.ofInt (cc M' u') - shr')
    (hc : (RealLike.ofInt (cc N v) : R) - shc = RealLike.ofInt (cc N' v') - shc') :
    (dft2 f αr αc M N shr shc offr offc un).get u v = (dft2 f αr αc M' N' shr' shc' offr offc un).get u' v' := by
  simp only [dft2, dftKernel, hr, hc]
end

section
variable {K R : Type} [CommRing R] [RealLike R] [Add K] [Mul K] [Zero K] [CxLike K R]

/-- coordinate bookkeeping of `propagate_dft`: the kernel coordinate of local sample `r - rmin` equals `r - fix - sub` -/
theorem coord_eq (hcast : ∀ n : Int, (RealLike.ofInt n : R) = (n : R)) (A B D : Int) (sub : R) (h : A - B = D) :
    (RealLike.ofInt A : R) - (RealLike.ofInt B + sub) = RealLike.ofInt (cc 1 0) - (-(RealLike.ofInt D - sub)) := by
  have h0 : cc 1 0 = 0 := by decide
  rw [h0, hcast, hcast, hcast, hcast, ← h]; push_cast; ring
end

end Lentil
