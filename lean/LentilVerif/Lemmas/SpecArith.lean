import LentilVerif.Lemmas.Spectrum
import LentilVerif.Lemmas.Units
import LentilVerif.Model.SpecArith
/-! helper lemmas for C13 -/
namespace Lentil.Spec
open Lentil.Units Gen

/-- closed form of `samplingOf` (defined through the generated selection `Gen.samplingSel*` of `_sampling`): stops checking
when the source changes which operand an option selects -/
theorem samplingOf_eq (m : Sampling) (w1 w2 : List ℚ) : samplingOf m w1 w2 =
    (match m with
     | .min => (match minDiff w1, minDiff w2 with
       | some a, some b => some (min a b)
       | _, _ => none)
     | .left => minDiff w1
     | .right => minDiff w2
     | .step d => some d) := by
  cases m <;> rfl

theorem samplingOf_swap (m : Sampling) (w1 w2 : List ℚ) : samplingOf m.swap w2 w1 = samplingOf m w1 w2 := by
  cases m <;> simp only [Sampling.swap, samplingOf_eq]
  cases minDiff w1 <;> cases minDiff w2 <;> simp [min_comm]

theorem toWave_self (s : USpec) : toWave s.wu s = s := by
  cases s with
  | mk wave value wu vu => cases vu <;> simp [toWave_eq, waveTo_self]

/-- `y` is the value at `x` of the piecewise-linear function through the points `(xs[i], ys[i])` — the mathematical
interpolant, stated without reference to the model's `seg`/`interpAt` -/
def IsLinInterp (xs ys : List ℚ) (x y : ℚ) : Prop :=
  ∃ i x0 x1 y0 y1, xs[i]? = some x0 ∧ xs[i+1]? = some x1 ∧ ys[i]? = some y0 ∧ ys[i+1]? = some y1 ∧
    x0 ≤ x ∧ x ≤ x1 ∧ y = y0 + (y1 - y0) * (x - x0) / (x1 - x0)

theorem seg_spec : ∀ (xs ys : List ℚ) (x a b : ℚ), xs.length = ys.length → 2 ≤ xs.length → StrictInc xs →
    xs.head? = some a → xs.getLast? = some b → a ≤ x → x ≤ b → IsLinInterp xs ys x (seg xs ys x) := by
  intro xs
  induction xs with
  | nil => intro ys x a b _ h2; simp at h2
  | cons x0 xs ih =>
    intro ys x a b hl h2 hs ha hb hax hxb
    cases xs with
    | nil => simp at h2
    | cons x1 rest =>
      cases ys with
      | nil => simp at hl
      | cons y0 ys => cases ys with
        | nil => simp at hl
        | cons y1 ys' =>
          simp at ha; subst ha
          by_cases hx1 : x ≤ x1
          · refine ⟨0, x0, x1, y0, y1, by simp, by simp, by simp, by simp, hax, hx1, ?_⟩
            simp only [seg, hx1, if_true]; ring
          · have hx1' : x1 ≤ x := le_of_lt (not_le.mp hx1)
            have hrest : rest ≠ [] := by
              intro hr; subst hr; simp at hb; subst hb; exact hx1 hxb
            have hb' : (x1 :: rest).getLast? = some b := by rw [List.getLast?_cons_cons] at hb; exact hb
            have hl' : (x1 :: rest).length = (y1 :: ys').length := by simpa using hl
            have h2' : 2 ≤ (x1 :: rest).length := by
              cases rest with
              | nil => exact absurd rfl hrest
              | cons _ _ => simp
            obtain ⟨i, u0, u1, v0, v1, h1, h2_, h3, h4, h5, h6, h7⟩ :=
              ih (y1 :: ys') x x1 b hl' h2' (List.pairwise_cons.mp hs).2 (by simp) hb' hx1' hxb
            refine ⟨i + 1, u0, u1, v0, v1, by simpa using h1, by simpa using h2_, by simpa using h3, by simpa using h4, h5, h6, ?_⟩
            simp only [seg, hx1, if_false]; exact h7

theorem foldl_min_eq (x : ℚ) : ∀ xs : List ℚ, (∀ y ∈ xs, x ≤ y) → xs.foldl min x = x := by
  intro xs
  induction xs with
  | nil => intro _; rfl
  | cons y ys ih =>
    intro h
    have hy : x ≤ y := h y (by simp)
    simp only [List.foldl_cons, min_eq_left hy]
    exact ih (fun z hz => h z (by simp [hz]))

theorem minL_eq_head (l : List ℚ) (h : StrictInc l) : minL l = l.head? := by
  cases l with
  | nil => rfl
  | cons x xs =>
    simp only [minL, List.head?_cons]
    rw [foldl_min_eq x xs (fun y hy => le_of_lt ((List.pairwise_cons.mp h).1 y hy))]

theorem maxL_eq_getLast : ∀ (l : List ℚ), StrictInc l → maxL l = l.getLast? := by
  intro l
  induction l with
  | nil => intro _; rfl
  | cons x xs ih =>
    intro h
    cases xs with
    | nil => simp [maxL]
    | cons y ys =>
      have hxy : x < y := (List.pairwise_cons.mp h).1 y (by simp)
      have := ih (List.pairwise_cons.mp h).2
      simp only [maxL, List.foldl_cons, max_eq_right (le_of_lt hxy), List.getLast?_cons_cons] at this ⊢
      exact this

/-! bridges from the generated grid arithmetic (`Gen.interp*`, regenerated from `_interp_common`) to closed forms: these are the
lemmas that stop checking when the source arithmetic changes -/

theorem gridTol_eq (dw : ℚ) : gridTol dw = dw / 1000000000 := by
  unfold gridTol Gen.interpTol; ring

theorem gridNum_eq (mn mx dw : ℚ) : gridNum mn mx dw = ((mx - mn - gridTol dw) / dw).ceil := by
  unfold gridNum Gen.interpNum; rfl

theorem commonGrid_eq (mn mx dw : ℚ) (h : 0 ≤ gridNum mn mx dw) :
    commonGrid mn mx dw = linspace mn mx ((gridNum mn mx dw).toNat + 1) := by
  unfold commonGrid Gen.interpStart Gen.interpStop Gen.interpCount
  congr 1
  omega

theorem gridNum_scale (mn mx dw k : ℚ) (hk : 0 < k) (hdw : dw ≠ 0) :
    gridNum (mn * k) (mx * k) (dw * k) = gridNum mn mx dw := by
  rw [gridNum_eq, gridNum_eq, gridTol_eq, gridTol_eq]
  congr 1
  have hk' : k ≠ 0 := ne_of_gt hk
  field_simp

theorem interpMin_eq (a b : ℚ) : Gen.interpMin a b = min a b := rfl
theorem interpMax_eq (a b : ℚ) : Gen.interpMax a b = max a b := rfl

theorem gridNum_pos (mn mx dw : ℚ) (hdw : 0 < dw) (h : gridTol dw < mx - mn) : 1 ≤ gridNum mn mx dw := by
  rw [gridNum_eq]
  have : ((0 : Int) : ℚ) < (mx - mn - gridTol dw) / dw := by
    simp only [Int.cast_zero]; apply div_pos (by linarith) hdw
  have := Rat.lt_ceil_iff.mpr this
  omega


theorem minDiff_pos : ∀ (l : List ℚ), StrictInc l → 2 ≤ l.length →
    ∃ d, minDiff l = some d ∧ 0 < d ∧ ∀ a b, l.head? = some a → l.getLast? = some b → d ≤ b - a := by
  intro l
  induction l with
  | nil => intro _ h; simp at h
  | cons x0 l ih =>
    intro hs h2
    cases l with
    | nil => simp at h2
    | cons x1 xs =>
      have h01 : x0 < x1 := (List.pairwise_cons.mp hs).1 x1 (by simp)
      cases xs with
      | nil =>
        refine ⟨x1 - x0, by simp [minDiff], by linarith, ?_⟩
        intro a b ha hb; simp at ha hb; subst ha; subst hb; exact le_refl _
      | cons x2 rest =>
        obtain ⟨d, hd, hpos, hle⟩ := ih (List.pairwise_cons.mp hs).2 (by simp)
        have hm : minDiff (x0 :: x1 :: x2 :: rest) = some (min (x1 - x0) d) := by
          have : minDiff (x0 :: x1 :: x2 :: rest) = some (match minDiff (x1 :: x2 :: rest) with | some d => min (x1 - x0) d | none => x1 - x0) := rfl
          rw [this, hd]
        refine ⟨min (x1 - x0) d, hm, lt_min (by linarith) hpos, ?_⟩
        intro a b ha hb
        simp only [List.head?_cons, Option.some.injEq] at ha
        rw [List.getLast?_cons_cons] at hb
        have h1 := hle x1 b (by simp) hb
        have h2' : x1 - x0 ≤ b - a := by rw [← ha]; linarith
        exact le_trans (min_le_left _ _) h2'


theorem ends_of_valid (s : Spectrum) (h : WF s) (v : validWave s.wave = true) (l : 2 ≤ s.wave.length) :
    ∃ lo hi d, s.wave.head? = some lo ∧ s.wave.getLast? = some hi ∧ minL s.wave = some lo ∧ maxL s.wave = some hi ∧
      minDiff s.wave = some d ∧ 0 < d ∧ d ≤ hi - lo ∧ 0 < lo := by
  obtain ⟨d, hd, hpos, hle⟩ := minDiff_pos s.wave h.1 l
  have hs := h.1
  have hv := (validWave_iff _).mp v
  generalize s.wave = w at hd hle hs hv l ⊢
  match w, l with
  | x0 :: x1 :: xs, _ =>
    cases hb : (x0 :: x1 :: xs).getLast? with
    | none => simp at hb
    | some b =>
      refine ⟨x0, b, d, rfl, rfl, ?_, ?_, hd, hpos, hle x0 b rfl hb, hv.1 x0 (by simp)⟩
      · rw [minL_eq_head _ hs]; rfl
      · rw [maxL_eq_getLast _ hs]; exact hb


end Lentil.Spec
