import LentilVerif.Lemmas.Spectrum
import LentilVerif.Lemmas.Units
import LentilVerif.Model.SpecArith
/-! helper lemmas for C13 -/
namespace Lentil.Spec
open Lentil.Units Gen

theorem samplingOf_swap (m : Sampling) (w1 w2 : List ℚ) : samplingOf m.swap w2 w1 = samplingOf m w1 w2 := by
  cases m <;> simp only [Sampling.swap, samplingOf]
  cases minDiff w1 <;> cases minDiff w2 <;> simp [min_comm]

theorem toWave_self (s : USpec) : toWave s.wu s = s := by
  cases s with
  | mk wave value wu vu => cases vu <;> simp [toWave, waveTo_self]

end Lentil.Spec
