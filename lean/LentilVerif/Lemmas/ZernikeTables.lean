import LentilVerif.Model.ZernikeRadial
/-! Finite exact tables for C11, closed by `decide +kernel` (no axioms): R_n^m(1) = 1 and the radial Gram matrix over ℚ. Kept in their own module so that they are re-checked
only when `Model/Zernike.lean` changes (the Gram table takes about a minute). -/
namespace Lentil

/-- `∫₀¹ R_n^m(ρ) R_n'^m(ρ) ρ dρ` as an exact rational: term by term, `∫₀¹ ρ^a ρ^b ρ dρ = 1/(a+b+2)` -/
def gramQ (n n' m : Nat) : Rat :=
  ((List.range ((n - m) / 2 + 1)).map fun k =>
    ((List.range ((n' - m) / 2 + 1)).map fun l =>
      ((radialCoeff n m k * radialCoeff n' m l : Int) : Rat) /
        (((n - 2 * k + n' - 2 * l + 2 : Nat) : Int) : Rat)).foldl (· + ·) 0).foldl (· + ·) 0

/-- radial orthogonality for all valid n, n' ≤ N and m: `gramQ = 1/(2(n+1))` on the diagonal, `0` off it -/
def allGramQ (N : Nat) : Bool :=
  (List.range (N + 1)).all fun n => (List.range (N + 1)).all fun n' => (List.range (min n n' + 1)).all fun m =>
    (n - m) % 2 != 0 || (n' - m) % 2 != 0 ||
      gramQ n n' m == (if n = n' then (1 : Rat) / (((2 * (n + 1) : Nat) : Int) : Rat) else 0)

theorem allAtOne_40 : allAtOne 40 = true := by decide +kernel
theorem allCoeffExact_40 : allCoeffExact 40 = true := by decide +kernel
theorem allBinomial_40 : allBinomial 40 = true := by decide +kernel
theorem allGramQ_20 : allGramQ 20 = true := by decide +kernel

end Lentil
