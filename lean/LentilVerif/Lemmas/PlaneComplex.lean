import LentilVerif.Model.Plane
import Mathlib.Analysis.Real.Sqrt
import Mathlib.Analysis.SpecialFunctions.Trigonometric.Basic
/-! The intended instantiation `K = ℂ`, `R = ℝ` of the model's scalar classes, for C07's phase-factor theorem. Same
definitions as `realLikeReal`/`cxLikeComplex` of `Lemmas/FftComplex.lean`; repeated here because that file cannot be
imported together with `Lemmas/Field.lean` (both declare `Lentil.sumList_zero` via `Lemmas/Tilt.lean`). -/
namespace Lentil.PlaneC
open Complex

@[reducible] noncomputable def realLikeReal : RealLike ℝ := ⟨fun n => (n : ℝ), 2 * Real.pi, Real.sqrt, fun x => |x|⟩
@[reducible] noncomputable def cxLikeComplex : CxLike ℂ ℝ :=
  ⟨fun t => Complex.exp ((t : ℂ) * I), fun r => (r : ℂ), fun z => (starRingEnd ℂ) z, fun z n => z / (n : ℂ)⟩

end Lentil.PlaneC
