import LentilVerif.Model.Plane
import LentilVerif.Lemmas.PlaneAlg
import Mathlib.Analysis.Real.Sqrt
import Mathlib.Analysis.SpecialFunctions.Trigonometric.Basic
/-! The intended instantiation `K = ℂ`, `R = ℝ` of the model's scalar classes, for C07's phase-factor theorem. Same
definitions as `realLikeReal`/`cxLikeComplex` of `Lemmas/FftComplex.lean`; repeated here because that file cannot be
imported together with `Lemmas/Field.lean` (both declare `Lentil.sumList_zero` via `Lemmas/Tilt.lean`). -/
namespace Lentil.PlaneC
open Complex

@[reducible] noncomputable def realLikeReal : RealLike ℝ := ⟨fun n => (n : ℝ), 2 * Real.pi, Real.sqrt, fun x => |x|⟩
@[reducible] noncomputable def cxLikeComplex : CxLike ℂ ℝ :=
  ⟨fun t => Complex.exp ((t : ℂ) * I), fun r => (r : ℂ), fun z => (starRingEnd ℂ) z, fun z n => z / (n : ℂ)⟩

/-- the transmission of an array-mask plane with the explicit exponential: on each segment's mask
`amplitude · exp(+2πi·OPD/λ)`, `0` elsewhere, summed over the segments -/
noncomputable def planeExpT (wavelength : ℝ) (p : PlaneM ℂ ℝ) (r c : Int) : ℂ :=
  match p.mask with
  | .scalar _ => 0
  | .segs S0 S1 l =>
    sumList l (fun g => segFactor (fun o : ℝ => Complex.exp (2 * Real.pi * Complex.I * ((o : ℂ) / (wavelength : ℂ))))
      p.amp p.opd S0 S1 g.m r c)

end Lentil.PlaneC
