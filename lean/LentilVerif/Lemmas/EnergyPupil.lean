import LentilVerif.Lemmas.EnergyPlane
import LentilVerif.Lemmas.ChainExtents
import LentilVerif.Props.C07
/-! C05 through the pupil: C07's `plane_multiply_exp` (a plane multiplies the fresh wavefront by `amplitude·exp(2πi·OPD/λ)` on its mask)
and the extents of `Plane.multiply`'s output (Lemmas/ChainExtents.lean) composed with the plane-energy equality. -/
open Finset
namespace Lentil

/-- a field whose extent lies on the canvas fits it -/
theorem fits_of_extent (f : Fld ℂ) (S0 S1 : ℕ) (e : Extent) (he : f.extent = e) (hv : e.rmin ≤ e.rmax ∧ e.cmin ≤ e.cmax)
    (hin : -((S0 : ℤ) / 2) ≤ e.rmin ∧ e.rmax ≤ -((S0 : ℤ) / 2) + S0 - 1 ∧ -((S1 : ℤ) / 2) ≤ e.cmin ∧ e.cmax ≤ -((S1 : ℤ) / 2) + S1 - 1) :
    Fits f S0 S1 := by
  unfold Fld.extent at he
  rw [arrayExtent_eq] at he
  subst he
  simp only at hv hin
  refine ⟨f.arr.s0.toNat, f.arr.s1.toNat, by omega, by omega, ?_, ?_⟩ <;> (constructor <;> omega)

theorem normSq_planeExp (x : ℝ) : Complex.normSq (Complex.exp (2 * Real.pi * Complex.I * (x : ℂ))) = 1 := by
  rw [Complex.normSq_eq_norm_sq, Complex.norm_exp]
  simp [Complex.mul_re]

theorem propagate_dft_energy_eq (fs : List (Fld ℂ)) (S0 S1 K L : ℕ) (hfit : ∀ f ∈ fs, Fits f S0 S1) (hK : 0 < K) (hL : 0 < L)
    (hS0 : S0 ≤ K) (hS1 : S1 ≤ L) (oe : Extent) (P0 P1 : ℤ) (hoe : oe.rmin ≤ oe.rmax ∧ oe.cmin ≤ oe.cmax) (hP : 0 < P0 ∧ 0 < P1)
    (hcover : ∀ q ∈ periodBox K L, (oe.inb q.1 q.2 && (propExtent P0 P1 0 0).inb q.1 q.2) = true) :
    ∑ q ∈ periodBox K L, Complex.normSq
        ((fs.map fun f => embO (propagateField (⟨f, 0, 0, 0, 0⟩ : TField ℂ ℝ) (1 / (K : ℝ)) (1 / (L : ℝ)) oe P0 P1) q.1 q.2).sum)
      = arrSum (intensity (R := ℝ) (embedAll fs S0 S1)) := by
  rw [← (plane_energy_le fs S0 S1 K L hfit hK hL hS0 hS1 (periodBox K L) (Finset.Subset.refl _)).2]
  refine sum_congr rfl fun q hq => ?_
  rw [propagateField_sum_eq_fieldAt fs _ _ oe P0 P1 hoe hP, hcover q hq, if_pos rfl]

/-- the fresh wavefront: one field holding the scalar 1 at offset 0 -/
def unitField : Fld ℂ := ⟨⟨1, 1, fun _ _ => 1⟩, 0, 0⟩

theorem pupil_image_total_aux (wl : ℝ) (amp : Attr ℂ) (opd : Attr ℝ) (S0 S1 K L : ℕ) (g : Seg) (hc : g.covers S0 S1)
    (hbig : g.s.r0 < g.s.r1 ∧ g.s.c0 < g.s.c1 ∧ ¬ (g.s.r1 - g.s.r0 = 1 ∧ g.s.c1 - g.s.c0 = 1))
    (hK : 0 < K) (hL : 0 < L) (hS0 : S0 ≤ K) (hS1 : S1 ≤ L) (oe : Extent) (P0 P1 : ℤ)
    (hoe : oe.rmin ≤ oe.rmax ∧ oe.cmin ≤ oe.cmax) (hP : 0 < P0 ∧ 0 < P1)
    (hcover : ∀ q ∈ periodBox K L, (oe.inb q.1 q.2 && (propExtent P0 P1 0 0).inb q.1 q.2) = true) :
    ∑ q ∈ periodBox K L, Complex.normSq
        (((planeMultiply (planePh wl) ⟨amp, opd, .segs S0 S1 [g]⟩ [unitField]).map fun f =>
          embO (propagateField (⟨f, 0, 0, 0, 0⟩ : TField ℂ ℝ) (1 / (K : ℝ)) (1 / (L : ℝ)) oe P0 P1) q.1 q.2).sum)
      = ∑ i ∈ range S0, ∑ j ∈ range S1, (if g.m i j = true then Complex.normSq (amp.at i j) else 0) := by
  set out := planeMultiply (planePh wl) ⟨amp, opd, .segs S0 S1 [g]⟩ [unitField] with hout
  -- the output fields sit on the segment's box, inside the canvas
  have hs1 : (segPhasor (planePh wl) amp opd S0 S1 g).size1 = false := by
    rw [Bool.eq_false_iff]; intro hh
    simp only [Fld.size1, segPhasor, Bool.and_eq_true] at hh
    exact hbig.2.2 ⟨of_decide_eq_true hh.1, of_decide_eq_true hh.2⟩
  have hext : out.map Fld.extent = [segBox S0 S1 g] := by
    rw [hout, planeMultiply_fresh_extents (planePh wl) _ unitField rfl]
    · simp [planePhasors, segPhasor_extent]
    · intro q hq
      simp only [planePhasors, List.map_cons, List.map_nil, List.mem_cons, List.mem_nil_iff, or_false] at hq
      subst hq
      refine ⟨hs1, ?_⟩
      rw [segPhasor_extent]; unfold Extent.valid segBox; simp only; omega
  have hfit : ∀ f ∈ out, Fits f S0 S1 := by
    intro f hf
    have : f.extent ∈ out.map Fld.extent := List.mem_map_of_mem hf
    rw [hext, List.mem_singleton] at this
    obtain ⟨h1, h2, h3, h4, _⟩ := hc
    refine fits_of_extent f S0 S1 _ this ?_ ?_ <;> (unfold segBox; simp only; omega)
  rw [(propagate_dft_energy_eq out S0 S1 K L hfit hK hL hS0 hS1 oe P0 P1 hoe hP hcover), arrSum_eq]
  have e0 : (intensity (R := ℝ) (embedAll out (S0 : ℤ) (S1 : ℤ))).s0 = S0 := rfl
  have e1 : (intensity (R := ℝ) (embedAll out (S0 : ℤ) (S1 : ℤ))).s1 = S1 := rfl
  rw [e0, e1]
  simp only [Int.toNat_natCast]
  refine sum_congr rfl fun i hi => sum_congr rfl fun j hj => ?_
  have hi' := mem_range.mp hi
  have hj' := mem_range.mp hj
  show Complex.normSq (sumList out fun f => f.emb ((i : ℤ) - (S0 : ℤ) / 2) ((j : ℤ) - (S1 : ℤ) / 2)) = _
  rw [hout, C07.plane_multiply_exp wl amp opd S0 S1 g hc hbig [unitField] (by simp [unitField]) _ _]
  have hsem : sumList [unitField] (fun f => f.sem ((i : ℤ) - (S0 : ℤ) / 2) ((j : ℤ) - (S1 : ℤ) / 2)) = 1 := by
    simp [sumList, Fld.sem, Fld.size1, unitField]
  rw [hsem, one_mul]
  have hidx : (i : ℤ) - (S0 : ℤ) / 2 + (S0 : ℤ) / 2 = i ∧ (j : ℤ) - (S1 : ℤ) / 2 + (S1 : ℤ) / 2 = j := by constructor <;> ring
  rw [hidx.1, hidx.2]
  by_cases hm : g.m i j = true
  · rw [if_pos ⟨by omega, by omega, by omega, by omega, hm⟩, if_pos hm, Complex.normSq_mul]
    have : (((opd.at i j : ℝ) : ℂ) / (wl : ℂ)) = ((opd.at i j / wl : ℝ) : ℂ) := by push_cast; rfl
    rw [this, normSq_planeExp, mul_one]
  · rw [if_neg (fun h => hm h.2.2.2.2), if_neg hm, Complex.normSq_zero]

end Lentil
