import LentilVerif.Model.Field
import LentilVerif.Lemmas.Extent
/-! `lentil.field.insert` on the generated index kernel: what `insertArr` writes where (core Lean, `omega`). -/
namespace Lentil

/-- characterisation of the generated index block of `insert` -/
theorem insertIdx_spec (fs0 fs1 o0 o1 S0 S1 : Int) :
    match Gen.insertIdx fs0 fs1 o0 o1 S0 S1 with
    | none => (max (S0 / 2 - fs0 / 2 + o0) 0 ≥ min (S0 / 2 - fs0 / 2 + o0 + fs0) S0) ∨
              (max (S1 / 2 - fs1 / 2 + o1) 0 ≥ min (S1 / 2 - fs1 / 2 + o1 + fs1) S1)
    | some r =>
        r.1.1.1 = max (S0 / 2 - fs0 / 2 + o0) 0 ∧ r.1.1.2 = min (S0 / 2 - fs0 / 2 + o0 + fs0) S0 ∧
        r.1.2.1 = max (S1 / 2 - fs1 / 2 + o1) 0 ∧ r.1.2.2 = min (S1 / 2 - fs1 / 2 + o1 + fs1) S1 ∧
        r.2.1.1 = r.1.1.1 - (S0 / 2 - fs0 / 2 + o0) ∧ r.2.2.1 = r.1.2.1 - (S1 / 2 - fs1 / 2 + o1) ∧
        r.1.1.1 < r.1.1.2 ∧ r.1.2.1 < r.1.2.2 := by
  unfold Gen.insertIdx
  simp only []
  by_cases h1 : S0 / 2 - fs0 / 2 + o0 < 0 <;> by_cases h2 : S0 / 2 - fs0 / 2 + o0 + fs0 > S0 <;>
  by_cases h3 : S1 / 2 - fs1 / 2 + o1 < 0 <;> by_cases h4 : S1 / 2 - fs1 / 2 + o1 + fs1 > S1 <;>
  simp only [h1, h2, h3, h4, decide_true, decide_false, if_true, if_false, Bool.false_eq_true] <;>
  (generalize hg : (_ || _ : Bool) = g
   cases g <;> simp only [Bool.false_eq_true, if_true, if_false] <;>
   simp only [Bool.or_eq_true, Bool.or_eq_false_iff, decide_eq_true_eq, decide_eq_false_iff_not, ge_iff_le] at hg <;>
   omega)

variable {K : Type}

/-- **What `insert` writes.** At every valid index `(i, j)` of the target, `insert(field, out, weight=w)` adds the field's
sample at the global coordinate `(i - S0/2, j - S1/2)` (times `w`, after `post`) when that coordinate lies in the field's
extent, and leaves the target unchanged otherwise. -/
theorem insertArr_get [Add K] [Mul K] (f : Fld K) (out : Arr K) (w : K) (post : K → K) (i j : Int)
    (hi : 0 ≤ i ∧ i < out.s0) (hj : 0 ≤ j ∧ j < out.s1) :
    (insertArr f out w post).get i j =
      if f.extent.inb (i - out.s0 / 2) (j - out.s1 / 2)
      then out.get i j + post (f.arr.get (i - out.s0 / 2 - f.extent.rmin) (j - out.s1 / 2 - f.extent.cmin)) * w
      else out.get i j := by
  have hspec := insertIdx_spec f.arr.s0 f.arr.s1 f.o0 f.o1 out.s0 out.s1
  unfold insertArr
  -- closed form of the generated accumulation term (`Gen.insertAccumIntensity`, `+=`)
  have hterm : ∀ o d : K, insertTerm post o d w = o + post d * w := fun _ _ => rfl
  simp only [hterm]
  cases hidx : Gen.insertIdx f.arr.s0 f.arr.s1 f.o0 f.o1 out.s0 out.s1 with
  | none =>
    rw [hidx] at hspec
    simp only at hspec
    have hb : f.extent.inb (i - out.s0 / 2) (j - out.s1 / 2) = false := by
      cases h : f.extent.inb (i - out.s0 / 2) (j - out.s1 / 2) with
      | false => rfl
      | true =>
        exfalso
        rw [Extent.inb_iff, Fld.extent, arrayExtent_eq] at h
        simp only at h
        omega
    simp only [hb, Bool.false_eq_true, if_false]
  | some r =>
    obtain ⟨⟨orow, ocol⟩, ⟨frow, fcol⟩⟩ := r
    rw [hidx] at hspec
    simp only at hspec
    obtain ⟨h1, h2, h3, h4, h5, h6, h7, h8⟩ := hspec
    simp only
    cases h : f.extent.inb (i - out.s0 / 2) (j - out.s1 / 2) with
    | false =>
      have hg : (decide (orow.1 ≤ i) && decide (i < orow.2) && decide (ocol.1 ≤ j) && decide (j < ocol.2)) = false := by
        cases hg' : (decide (orow.1 ≤ i) && decide (i < orow.2) && decide (ocol.1 ≤ j) && decide (j < ocol.2)) with
        | false => rfl
        | true =>
          exfalso
          simp only [Bool.and_eq_true, decide_eq_true_eq] at hg'
          have hn : ¬ (f.extent.inb (i - out.s0 / 2) (j - out.s1 / 2) = true) := by rw [h]; exact Bool.false_ne_true
          apply hn
          rw [Extent.inb_iff, Fld.extent, arrayExtent_eq]
          simp only
          omega
      simp only [hg, Bool.false_eq_true, if_false]
    | true =>
      rw [Extent.inb_iff, Fld.extent, arrayExtent_eq] at h
      simp only at h
      have hg : (decide (orow.1 ≤ i) && decide (i < orow.2) && decide (ocol.1 ≤ j) && decide (j < ocol.2)) = true := by
        simp only [Bool.and_eq_true, decide_eq_true_eq]; omega
      simp only [hg, if_true]
      have e1 : i - orow.1 + frow.1 = i - out.s0 / 2 - f.extent.rmin := by
        rw [Fld.extent, arrayExtent_eq]; simp only; omega
      have e2 : j - ocol.1 + fcol.1 = j - out.s1 / 2 - f.extent.cmin := by
        rw [Fld.extent, arrayExtent_eq]; simp only; omega
      rw [e1, e2]

end Lentil
