import LentilVerif.Model.Field
import LentilVerif.Lemmas.Extent
/-! `lentil.field.insert` on the generated index kernel: what `insertArr` writes where (core Lean, `omega`). -/
namespace Lentil

/-- characterisation of the generated index block of `insert` -/
theorem insertIdx_spec (fs0 fs1 o0 o1 S0 S1 : Int) :
    match Gen.insertIdx fs0 fs1 o0 o1 S0 S1 with
    | none => (max (S0 / 2 - fs0 / 2 + o0) 0 ≥ min (S0 / 2 - fs0 / 2 + o0 + fs0) S0) ∨
              (max (S1 / 2 - fs1 / 2 + o1) 0 ≥ min (S1 / 2 - fs1 / 2 + o1 + fs1) S1)
    | some ((orow, ocol), (frow, fcol)) =>
        orow.1 = max (S0 / 2 - fs0 / 2 + o0) 0 ∧ orow.2 = min (S0 / 2 - fs0 / 2 + o0 + fs0) S0 ∧
        ocol.1 = max (S1 / 2 - fs1 / 2 + o1) 0 ∧ ocol.2 = min (S1 / 2 - fs1 / 2 + o1 + fs1) S1 ∧
        frow.1 = orow.1 - (S0 / 2 - fs0 / 2 + o0) ∧ fcol.1 = ocol.1 - (S1 / 2 - fs1 / 2 + o1) ∧
        orow.1 < orow.2 ∧ ocol.1 < ocol.2 := by
  unfold Gen.insertIdx
  simp only [apply_ite Prod.fst, apply_ite Prod.snd]
  split
  · rename_i h; split at h
    · simp only [Bool.or_eq_true, decide_eq_true_eq, ge_iff_le] at *; omega
    · cases h
  · rename_i orow ocol frow fcol h; split at h
    · cases h
    · simp only [Bool.or_eq_true, decide_eq_true_eq, ge_iff_le, Option.some.injEq, Prod.mk.injEq] at *
      omega

end Lentil
