import LentilVerif.Lemmas.ZernikeRadialIntegral
import LentilVerif.Model.ZernikeBound
import Mathlib.Analysis.SpecialFunctions.Trigonometric.Inverse
/-! Soundness of the Chebyshev certificate of `Model/ZernikeBound.lean`: `radialCheb n m = true → |R_n^m(x)| ≤ 1` on [−1, 1]. -/
namespace Lentil
open Finset

/-- value of a coefficient list (lowest degree first) -/
def evalL : List Int → ℝ → ℝ
  | [], _ => 0
  | c :: l, x => (c : ℝ) + x * evalL l x

theorem evalL_addL (a b : List Int) (x : ℝ) : evalL (addL a b) x = evalL a x + evalL b x := by
  induction a generalizing b with
  | nil => simp [addL, evalL]
  | cons c l ih =>
    cases b with
    | nil => simp [addL, evalL]
    | cons d r => simp only [addL, evalL, ih, Int.cast_add]; ring

theorem evalL_scaleL (c : Int) (l : List Int) (x : ℝ) : evalL (scaleL c l) x = (c : ℝ) * evalL l x := by
  induction l with
  | nil => simp [scaleL, evalL]
  | cons a l ih =>
    have : scaleL c (a :: l) = (c * a) :: scaleL c l := rfl
    rw [this]; simp only [evalL, ih, Int.cast_mul]; ring

theorem evalL_monoL (c : Int) (e : ℕ) (x : ℝ) : evalL (monoL c e) x = (c : ℝ) * x ^ e := by
  induction e with
  | zero => simp [monoL, evalL]
  | succ e ih => simp only [monoL, evalL, ih, Int.cast_zero]; ring

theorem evalL_nextT (a b : List Int) (x : ℝ) : evalL (nextT a b) x = 2 * x * evalL b x - evalL a x := by
  unfold nextT
  rw [evalL_addL, evalL_scaleL]
  simp only [evalL, evalL_scaleL, Int.cast_zero, Int.cast_neg, Int.cast_one, Int.cast_ofNat]; ring

/-- `cos((t+2)θ) = 2 cos θ cos((t+1)θ) − cos(tθ)` -/
theorem cos_add_two_mul (t : ℕ) (θ : ℝ) :
    Real.cos (((t + 2 : ℕ) : ℝ) * θ) = 2 * Real.cos θ * Real.cos (((t + 1 : ℕ) : ℝ) * θ) - Real.cos ((t : ℝ) * θ) := by
  have h1 : ((t + 2 : ℕ) : ℝ) * θ = ((t + 1 : ℕ) : ℝ) * θ + θ := by push_cast; ring
  have h2 : (t : ℝ) * θ = ((t + 1 : ℕ) : ℝ) * θ - θ := by push_cast; ring
  rw [h1, h2, Real.cos_add, Real.cos_sub]; ring

theorem sumL_cons (w : Int) (ws : List Int) : sumL (w :: ws) = w + sumL ws := rfl

/-- a non-negative combination of `cos tθ, cos (t+1)θ, …` is bounded by the sum of its weights -/
theorem chebAcc_bound (θ : ℝ) (ws : List Int) : ∀ (a b : List Int) (t : ℕ), (∀ w ∈ ws, (0 : Int) ≤ w) →
    evalL a (Real.cos θ) = Real.cos ((t : ℝ) * θ) → evalL b (Real.cos θ) = Real.cos (((t + 1 : ℕ) : ℝ) * θ) →
    |evalL (chebAcc ws a b) (Real.cos θ)| ≤ ((sumL ws : Int) : ℝ) := by
  induction ws with
  | nil => intro a b t _ _ _; simp [chebAcc, evalL, sumL]
  | cons w ws ih =>
    intro a b t hw ha hb
    have hw0 : (0 : ℝ) ≤ (w : ℝ) := by exact_mod_cast hw w (List.mem_cons_self ..)
    have hn : evalL (nextT a b) (Real.cos θ) = Real.cos (((t + 1 + 1 : ℕ) : ℝ) * θ) := by
      rw [evalL_nextT, ha, hb, cos_add_two_mul]
    have IH := ih b (nextT a b) (t + 1) (fun v hv => hw v (List.mem_cons_of_mem _ hv)) hb hn
    simp only [chebAcc, evalL_addL, evalL_scaleL, sumL_cons, Int.cast_add, ha]
    calc |(w : ℝ) * Real.cos ((t : ℝ) * θ) + evalL (chebAcc ws b (nextT a b)) (Real.cos θ)|
        ≤ |(w : ℝ) * Real.cos ((t : ℝ) * θ)| + |evalL (chebAcc ws b (nextT a b)) (Real.cos θ)| := abs_add_le _ _
      _ ≤ (w : ℝ) + ((sumL ws : Int) : ℝ) := by
          apply add_le_add _ IH
          rw [abs_mul, abs_of_nonneg hw0]
          exact mul_le_of_le_one_right hw0 (Real.abs_cos_le_one _)

theorem evalL_foldr_addL (ks : List ℕ) (g : ℕ → List Int) (x : ℝ) :
    evalL (ks.foldr (fun k acc => addL (g k) acc) []) x = (ks.map fun k => evalL (g k) x).sum := by
  induction ks with
  | nil => simp [evalL]
  | cons k ks ih => simp only [List.foldr_cons, evalL_addL, ih, List.map_cons, List.sum_cons]

theorem list_sum_map_range (n : ℕ) (f : ℕ → ℝ) : ((List.range n).map f).sum = ∑ i ∈ range n, f i := by
  induction n with
  | zero => simp
  | succ n ih => rw [List.range_succ, List.map_append, List.sum_append, ih, sum_range_succ]; simp

/-- the coefficient list of the certificate evaluates to the model's radial polynomial -/
theorem evalL_denseRadial (n m : ℕ) (h : (n - m) % 2 = 0) (x : ℝ) : evalL (denseRadial n m) x = radialEval n m x := by
  unfold denseRadial
  rw [evalL_foldr_addL, list_sum_map_range, radialEval_real n m h]
  apply sum_congr rfl
  intro k _
  rw [evalL_monoL]

/-- soundness of the certificate -/
theorem radialCheb_sound (n m : ℕ) (h : (n - m) % 2 = 0) (hc : radialCheb n m = true) (x : ℝ) (h0 : -1 ≤ x) (h1 : x ≤ 1) :
    |radialEval n m x| ≤ 1 := by
  unfold radialCheb at hc
  simp only [Bool.and_eq_true, List.all_eq_true, decide_eq_true_eq, beq_iff_eq] at hc
  obtain ⟨⟨hpos, hsum⟩, heq⟩ := hc
  obtain ⟨θ, rfl⟩ : ∃ θ, x = Real.cos θ := ⟨Real.arccos x, (Real.cos_arccos h0 h1).symm⟩
  have B := chebAcc_bound θ (chebW n m) [1] [0, 1] 0 hpos (by simp [evalL]) (by simp [evalL])
  rw [heq, evalL_scaleL, evalL_denseRadial n m h, hsum] at B
  have h2 : (0 : ℝ) < 2 ^ n := by positivity
  have e : (((2 : Int) ^ n : Int) : ℝ) = (2 : ℝ) ^ n := by push_cast; rfl
  rw [e, abs_mul, abs_of_pos h2] at B
  exact le_of_mul_le_mul_left (by linarith) h2

/-- one entry of the certificate table -/
theorem radialCheb_of_all (N : ℕ) (T : allCheb N = true) (n m : ℕ) (hn : n ≤ N) (hm : m ≤ n) (h : (n - m) % 2 = 0) :
    radialCheb n m = true := by
  unfold allCheb at T
  rw [List.all_eq_true] at T
  have T1 := T n (List.mem_range.2 (by omega))
  rw [List.all_eq_true] at T1
  have T2 := T1 m (List.mem_range.2 (by omega))
  simp only [Bool.or_eq_true, bne_iff_ne] at T2
  rcases T2 with h' | h'
  · exact absurd h h'
  · exact h'

end Lentil
