import LentilVerif.Lemmas.SpecScale
/-! C13 — spectrum arithmetic and a common rescaling of the operands' VALUES (the other half of a unit change of a
per-wavelength density: `Spectrum.to(wave unit)` divides the values by the factor it multiplies the wavelengths by) -/
namespace Lentil.Spec

theorem seg_vscale (k : ℚ) : ∀ (xs ys : List ℚ) (x : ℚ), seg xs (ys.map (· / k)) x = seg xs ys x / k := by
  intro xs
  induction xs with
  | nil => intro ys x; cases ys <;> simp [seg]
  | cons x0 xs ih =>
    intro ys x
    cases xs with
    | nil => cases ys <;> simp [seg]
    | cons x1 rest =>
      cases ys with
      | nil => simp [seg]
      | cons y0 ys => cases ys with
        | nil => simp [seg]
        | cons y1 ys' =>
          have := ih (y1 :: ys') x
          simp only [List.map_cons] at this ⊢
          simp only [seg, this]
          split
          · ring
          · rfl

theorem interpAt_vscale (k : ℚ) (xs ys : List ℚ) (fl fr x : ℚ) :
    interpAt xs (ys.map (· / k)) (fl / k) (fr / k) x = interpAt xs ys fl fr x / k := by
  unfold interpAt
  cases xs.head? <;> cases xs.getLast? <;> simp only [seg_vscale]
  split
  · rfl
  · split <;> rfl

/-- the values of a spectrum divided by `k` -/
def vscaleS (k : ℚ) (s : Spectrum) : Spectrum := ⟨s.wave, s.value.map (· / k)⟩

theorem operandAt_vscale (k : ℚ) (s : Spectrum) (lo hi tol fill g : ℚ) :
    operandAt (vscaleS k s) lo hi tol (fill / k) g = operandAt s lo hi tol fill g / k := by
  unfold operandAt vscaleS
  simp only [interpAt_vscale]
  split <;> rfl

theorem interpCommon_vscale (k : ℚ) (s1 s2 : Spectrum) (m : Sampling) (fill : ℚ) :
    interpCommon (vscaleS k s1) (vscaleS k s2) m (fill / k)
      = (interpCommon s1 s2 m fill).map (fun r => (r.1, r.2.1.map (· / k), r.2.2.map (· / k))) := by
  simp only [interpCommon]
  have e1 : (vscaleS k s1).wave = s1.wave := rfl
  have e2 : (vscaleS k s2).wave = s2.wave := rfl
  rw [e1, e2]
  cases minL s1.wave <;> cases maxL s1.wave <;> cases minL s2.wave <;> cases maxL s2.wave <;> try rfl
  rename_i lo1 hi1 lo2 hi2
  simp only []
  cases samplingOf m s1.wave s2.wave with
  | none => rfl
  | some dw =>
    have h : ∀ (s : Spectrum) (lo hi : ℚ), operandAt (vscaleS k s) lo hi (gridTol dw) (fill / k) = fun x => operandAt s lo hi (gridTol dw) fill x / k :=
      fun s lo hi => funext (operandAt_vscale k s lo hi (gridTol dw) fill)
    simp only [Except.map, List.map_map, Function.comp_def, h]

end Lentil.Spec
