import LentilVerif.Model.PlaneType
/-! helper lemmas for C08 (not obligations) -/
namespace Lentil.C08
open Gen Lentil.PT

theorem mem_WType_all : ∀ w : WType, w ∈ WType.all := by
  intro w; cases w <;> simp [WType.all]

/-- what `classConforms c = true` means: the class has its documented ptype, acts exactly as the documented table says for
it, and can be applied to some compatible wavefront -/
theorem classConforms_spec (c : PlaneClass) (h : classConforms c = true) :
    ∀ p, docClassPtype c = some p →
      classPtype c = p ∧ (∀ w, classMul c w = docMul w p) ∧ (∃ w w', classMul c w = .ok w') := by
  intro p hp
  simp only [classConforms, hp, Bool.and_eq_true, beq_iff_eq, List.all_eq_true, List.any_eq_true] at h
  obtain ⟨⟨h1, h2⟩, w, _, hw⟩ := h
  refine ⟨h1, fun w => h2 w (mem_WType_all w), w, ?_⟩
  cases hr : classMul c w with
  | ok w' => exact ⟨w', rfl⟩
  | refused e => rw [hr] at hw; cases hw

/-- (a property of the model's `next`, true by construction — NOT evidence about the code; the clause "a refused operation
leaves both operands unchanged" is carried by the snapshot oracle only) a refused operation leaves the wavefront type unchanged, and a program consisting only of refused operations ends
where it started (the value-level part — both operands' arrays untouched — is checked by the correspondence snapshots) -/
theorem refusal_preserves_state :
    (∀ w op e, codeStep w op = .refused e → next w (codeStep w op) = w)
    ∧ (∀ (prog : List Op) (w : WType), (∀ r ∈ codeRun w prog, ∃ e, r = .refused e) →
        finalWith codeMul codePropagate w prog = w) := by
  refine ⟨fun w op e h => by rw [h]; rfl, ?_⟩
  intro prog
  induction prog with
  | nil => intro w _; rfl
  | cons op rest ih =>
    intro w h
    have h0 := h (stepWith codeMul codePropagate w op) (by simp [codeRun, runWith])
    obtain ⟨e, he⟩ := h0
    have hn : next w (stepWith codeMul codePropagate w op) = w := by rw [he]; rfl
    simp only [finalWith, hn]
    apply ih
    intro r hr
    apply h
    simp only [codeRun, runWith, hn, List.mem_cons]
    exact Or.inr hr

end Lentil.C08
