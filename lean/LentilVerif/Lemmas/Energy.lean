import LentilVerif.Lemmas.Fourier
import LentilVerif.Model.Energy
/-! Helper lemmas for the propagation-energy model (C05) at `K = ℂ`, `R = ℝ`. -/
open Finset
namespace Lentil

noncomputable instance instNormSqLikeComplex : NormSqLike ℂ ℝ := ⟨Complex.normSq⟩

theorem arrSum_eq {A} [AddCommMonoid A] (a : Arr A) :
    arrSum a = ∑ i ∈ range a.s0.toNat, ∑ j ∈ range a.s1.toNat, a.get i j := by
  unfold arrSum; simp only [sumRange_eq]

end Lentil
