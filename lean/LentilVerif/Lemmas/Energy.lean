import LentilVerif.Lemmas.Fourier
import LentilVerif.Model.Energy
/-! Helper lemmas for the propagation-energy model (C05) at `K = ℂ`, `R = ℝ`. -/
open Finset
namespace Lentil

noncomputable instance instNormSqLikeComplex : NormSqLike ℂ ℝ := ⟨Complex.normSq⟩

theorem arrSum_eq {A} [AddCommMonoid A] (a : Arr A) :
    arrSum a = ∑ i ∈ range a.s0.toNat, ∑ j ∈ range a.s1.toNat, a.get i j := by
  unfold arrSum; simp only [sumRange_eq]

theorem sumList_eq {A} [AddCommMonoid A] {β} (l : List β) (f : β → A) : sumList l f = (l.map f).sum := by
  unfold sumList
  have : ∀ (a : A), List.foldl (fun acc x => acc + f x) a l = a + (l.map f).sum := by
    induction l with
    | nil => intro a; simp
    | cons h t ih => intro a; simp [ih, add_assoc]
  simpa using this 0

/-- kernel value at an integer output-frequency coordinate `U` -/
noncomputable def kerAt (α : ℝ) (m off : ℤ) (x U : ℤ) : ℂ :=
  Complex.exp (-(2 * Real.pi * Complex.I) * (α * ((cc m x + off : ℤ) : ℝ) * ((U : ℤ) : ℝ) : ℝ))

/-- with the shift `-(U0 + ⌊M/2⌋)` the output sample `u` of a window of any length `M` sits at coordinate `U0 + u` -/
theorem ker_window (α : ℝ) (m M off U0 : ℤ) (x u : ℤ) :
    ker α m M off (-(((U0 + M / 2 : ℤ)) : ℝ)) x u = kerAt α m off x (U0 + u) := by
  unfold ker kerAt cc
  congr 1
  push_cast
  ring

/-- **proof device, not a model**: neither run by a driver op nor generated, and no theorem of Props/C05 mentions it. The field a
window of `M × N` output samples whose first sample has integer frequency coordinate `(U0, V0)` would hold for untilted fields
(each field transformed by `dft2(…, shape=(M,N), shift=-(U0+⌊M/2⌋), offset=field.offset, unitary=True)`, coincident fields
summed). Its one-sample instance defines `fieldAt`, to which the samples of the C02 model `propagateField` (regenerated window
kernel) are proved equal (`propagateField_sum_eq_fieldAt`). -/
noncomputable def propagateWindow (fs : List (Fld ℂ)) (αr αc : ℝ) (M N U0 V0 : ℤ) : Arr ℂ :=
  { s0 := M, s1 := N,
    get := fun u v => sumList fs fun f =>
      (dft2 f.arr αr αc M N (-(RealLike.ofInt (U0 + M / 2))) (-(RealLike.ofInt (V0 + N / 2))) f.o0 f.o1 true).get u v }

/-- the field at integer frequency coordinate `(U, V)`: the one-sample window there -/
noncomputable def fieldAt (fs : List (Fld ℂ)) (αr αc : ℝ) (U V : ℤ) : ℂ :=
  (propagateWindow fs αr αc 1 1 U V).get 0 0

theorem propagateWindow_get (fs : List (Fld ℂ)) (αr αc : ℝ) (M N U0 V0 u v : ℤ) :
    (propagateWindow fs αr αc M N U0 V0).get u v
      = (fs.map fun f => ((Real.sqrt |αr * αc| : ℝ) : ℂ) *
          ∑ y ∈ range f.arr.s1.toNat, (∑ x ∈ range f.arr.s0.toNat, kerAt αr f.arr.s0 f.o0 x (U0 + u) * f.arr.get x y)
            * kerAt αc f.arr.s1 f.o1 y (V0 + v)).sum := by
  unfold propagateWindow
  simp only [sumList_eq, dft2_get_eq, if_true, dft2Sum, RealLike.ofInt, ker_window]

/-- **a window only selects**: sample `(u, v)` of any evaluated window is the field at coordinate `(U0 + u, V0 + v)` -/
theorem window_selects (fs : List (Fld ℂ)) (αr αc : ℝ) (M N U0 V0 u v : ℤ) :
    (propagateWindow fs αr αc M N U0 V0).get u v = fieldAt fs αr αc (U0 + u) (V0 + v) := by
  unfold fieldAt
  rw [propagateWindow_get, propagateWindow_get]
  simp only [add_zero]

theorem sum_range_shift (g : ℤ → ℝ) (M : ℕ) (U0 : ℤ) :
    ∑ u ∈ range M, g (U0 + u) = ∑ U ∈ Finset.Ico U0 (U0 + M), g U := by
  refine Finset.sum_nbij' (fun u => U0 + (u : ℤ)) (fun U => (U - U0).toNat) ?_ ?_ ?_ ?_ ?_
  · intro u hu; simp only [mem_range, mem_Ico] at hu ⊢; omega
  · intro U hU; simp only [mem_range, mem_Ico] at hU ⊢; omega
  · intro u _; simp
  · intro U hU; simp only [mem_Ico] at hU; omega
  · intro u _; rfl

/-- the energy of an evaluated window as a sum over its integer frequency coordinates -/
theorem window_energy_eq (fs : List (Fld ℂ)) (αr αc : ℝ) (M N : ℕ) (U0 V0 : ℤ) :
    arrSum (intensity (R := ℝ) (propagateWindow fs αr αc M N U0 V0))
      = ∑ U ∈ Finset.Ico U0 (U0 + M), ∑ V ∈ Finset.Ico V0 (V0 + N), Complex.normSq (fieldAt fs αr αc U V) := by
  rw [arrSum_eq]
  simp only [intensity, NormSqLike.normSq, window_selects]
  have h0 : (propagateWindow fs αr αc M N U0 V0).s0 = M := rfl
  have h1 : (propagateWindow fs αr αc M N U0 V0).s1 = N := rfl
  simp only [h0, h1, Int.toNat_natCast]
  rw [sum_range_shift (fun U => ∑ v ∈ range N, Complex.normSq (fieldAt fs αr αc U (V0 + v))) M U0]
  exact sum_congr rfl fun U _ => sum_range_shift (fun V => Complex.normSq (fieldAt fs αr αc U V)) N V0

end Lentil
