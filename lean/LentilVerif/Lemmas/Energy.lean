import LentilVerif.Lemmas.Fourier
import LentilVerif.Model.Energy
/-! Helper lemmas for the propagation-energy model (C05) at `K = ℂ`, `R = ℝ`. -/
open Finset
namespace Lentil

noncomputable instance instNormSqLikeComplex : NormSqLike ℂ ℝ := ⟨Complex.normSq⟩

theorem arrSum_eq {A} [AddCommMonoid A] (a : Arr A) :
    arrSum a = ∑ i ∈ range a.s0.toNat, ∑ j ∈ range a.s1.toNat, a.get i j := by
  unfold arrSum; simp only [sumRange_eq]

theorem sumList_eq {A} [AddCommMonoid A] {β} (l : List β) (f : β → A) : sumList l f = (l.map f).sum := by
  unfold sumList
  have : ∀ (a : A), List.foldl (fun acc x => acc + f x) a l = a + (l.map f).sum := by
    induction l with
    | nil => intro a; simp
    | cons h t ih => intro a; simp [ih, add_assoc]
  simpa using this 0

/-- kernel value at an integer output-frequency coordinate `U` -/
noncomputable def kerAt (α : ℝ) (m off : ℤ) (x U : ℤ) : ℂ :=
  Complex.exp (-(2 * Real.pi * Complex.I) * (α * ((cc m x + off : ℤ) : ℝ) * ((U : ℤ) : ℝ) : ℝ))

/-- with the shift `-(U0 + ⌊M/2⌋)` the output sample `u` of a window of any length `M` sits at coordinate `U0 + u` -/
theorem ker_window (α : ℝ) (m M off U0 : ℤ) (x u : ℤ) :
    ker α m M off (-(((U0 + M / 2 : ℤ)) : ℝ)) x u = kerAt α m off x (U0 + u) := by
  unfold ker kerAt cc
  congr 1
  push_cast
  ring

/-- the field at integer frequency coordinate `(U, V)`: the one-sample window there -/
noncomputable def fieldAt (fs : List (Fld ℂ)) (αr αc : ℝ) (U V : ℤ) : ℂ :=
  (propagateWindow fs αr αc 1 1 U V).get 0 0

theorem propagateWindow_get (fs : List (Fld ℂ)) (αr αc : ℝ) (M N U0 V0 u v : ℤ) :
    (propagateWindow fs αr αc M N U0 V0).get u v
      = (fs.map fun f => ((Real.sqrt |αr * αc| : ℝ) : ℂ) *
          ∑ y ∈ range f.arr.s1.toNat, (∑ x ∈ range f.arr.s0.toNat, kerAt αr f.arr.s0 f.o0 x (U0 + u) * f.arr.get x y)
            * kerAt αc f.arr.s1 f.o1 y (V0 + v)).sum := by
  unfold propagateWindow
  simp only [sumList_eq, dft2_get_eq, if_true, dft2Sum, RealLike.ofInt, ker_window]

/-- **a window only selects**: sample `(u, v)` of any evaluated window is the field at coordinate `(U0 + u, V0 + v)` -/
theorem window_selects (fs : List (Fld ℂ)) (αr αc : ℝ) (M N U0 V0 u v : ℤ) :
    (propagateWindow fs αr αc M N U0 V0).get u v = fieldAt fs αr αc (U0 + u) (V0 + v) := by
  unfold fieldAt
  rw [propagateWindow_get, propagateWindow_get]
  simp only [add_zero]

theorem sum_range_shift (g : ℤ → ℝ) (M : ℕ) (U0 : ℤ) :
    ∑ u ∈ range M, g (U0 + u) = ∑ U ∈ Finset.Ico U0 (U0 + M), g U := by
  refine Finset.sum_nbij' (fun u => U0 + (u : ℤ)) (fun U => (U - U0).toNat) ?_ ?_ ?_ ?_ ?_
  · intro u hu; simp only [mem_range, mem_Ico] at hu ⊢; omega
  · intro U hU; simp only [mem_range, mem_Ico] at hU ⊢; omega
  · intro u _; simp
  · intro U hU; simp only [mem_Ico] at hU; omega
  · intro u _; rfl

/-- the energy of an evaluated window as a sum over its integer frequency coordinates -/
theorem window_energy_eq (fs : List (Fld ℂ)) (αr αc : ℝ) (M N : ℕ) (U0 V0 : ℤ) :
    arrSum (intensity (R := ℝ) (propagateWindow fs αr αc M N U0 V0))
      = ∑ U ∈ Finset.Ico U0 (U0 + M), ∑ V ∈ Finset.Ico V0 (V0 + N), Complex.normSq (fieldAt fs αr αc U V) := by
  rw [arrSum_eq]
  simp only [intensity, NormSqLike.normSq, window_selects]
  have h0 : (propagateWindow fs αr αc M N U0 V0).s0 = M := rfl
  have h1 : (propagateWindow fs αr αc M N U0 V0).s1 = N := rfl
  simp only [h0, h1, Int.toNat_natCast]
  rw [sum_range_shift (fun U => ∑ v ∈ range N, Complex.normSq (fieldAt fs αr αc U (V0 + v))) M U0]
  exact sum_congr rfl fun U _ => sum_range_shift (fun V => Complex.normSq (fieldAt fs αr αc U V)) N V0

/-! ## the FFT path: `fftshift ∘ fft2(ortho) ∘ ifftshift` is the centred unitary transform -/

/-- one axis: plain DFT of the `ifftshift`ed samples, read at the `fftshift`ed index, is the centred DFT -/
theorem fftshift_dft1 (n : ℕ) (hn : 0 < n) (g : ℤ → ℂ) (k : ℤ) :
    ∑ a ∈ range n, fker n a ((k + ((n : ℤ) - (n : ℤ) / 2)) % n) * g (((a : ℤ) + (n : ℤ) / 2) % n)
      = ∑ x ∈ range n, ker (1 / n) n n 0 0 x k * g x := by
  have hper : ∀ z : ℤ, E n ((z + n - (n : ℤ) / 2) * (k - (n : ℤ) / 2)) * g ((z + n) % n)
      = E n ((z - (n : ℤ) / 2) * (k - (n : ℤ) / 2)) * g (z % n) := by
    intro z; rw [Int.add_emod_right]; congr 1; exact E_congr n hn _ _ ⟨k - (n : ℤ) / 2, by ring⟩
  have h1 := sum_range_shift_int n (fun z => E n ((z - (n : ℤ) / 2) * (k - (n : ℤ) / 2)) * g (z % n)) hper (-((n : ℤ) / 2))
  have h2 : ∑ x ∈ range n, ker (1 / n) n n 0 0 x k * g x
      = ∑ i ∈ range n, E n (((i : ℤ) - (n : ℤ) / 2) * (k - (n : ℤ) / 2)) * g ((i : ℤ) % n) :=
    sum_congr rfl fun i hi => by rw [ker_centered_eq, emod_range_nat n i hi]
  rw [h2, ← h1]
  refine sum_congr rfl fun a _ => ?_
  simp only [fker_eq]
  congr 1
  · apply E_congr n hn
    rw [Int.emod_def]
    exact ⟨a * (1 - (k + ((n : ℤ) - (n : ℤ) / 2)) / n), by ring⟩
  · rw [sub_neg_eq_add]

theorem fft2ortho_get_eq (x : Arr ℂ) (m n : ℕ) (hm : x.s0 = m) (hn : x.s1 = n) (k l : ℤ) :
    (fft2ortho (R := ℝ) x).get k l = ((Real.sqrt |(1 / (m : ℝ)) * (1 / (n : ℝ))| : ℝ) : ℂ) *
      ∑ b ∈ range n, (∑ a ∈ range m, fker m a k * x.get a b) * fker n b l := by
  unfold fft2ortho
  rw [dft2_get_eq]
  simp only [dft2Sum, hm, hn, RealLike.ofInt, Int.toNat_natCast, if_true, Int.cast_one, Int.cast_natCast, fker]

/-- `fftshift ∘ fft2(norm='ortho') ∘ ifftshift` equals the centred unitary `dft2` with `α = (1/S0, 1/S1)` on the same
grid, at every index, for even and odd sizes -/
theorem fftPath_eq_dft2 (x : Arr ℂ) (S0 S1 : ℕ) (h0 : x.s0 = S0) (h1 : x.s1 = S1) (hS0 : 0 < S0) (hS1 : 0 < S1) (k l : ℤ) :
    (fftPath (R := ℝ) x).get k l = (dft2 x (1 / (S0 : ℝ)) (1 / (S1 : ℝ)) S0 S1 0 0 0 0 true).get k l := by
  have hL : (fftPath (R := ℝ) x).get k l
      = (fft2ortho (R := ℝ) ⟨x.s0, x.s1, fun i j => x.get (ifftshiftIdxE x.s0 i) (ifftshiftIdxE x.s1 j)⟩).get
          (fftshiftIdxE x.s0 k) (fftshiftIdxE x.s1 l) := rfl
  rw [hL, fft2ortho_get_eq ⟨x.s0, x.s1, fun i j => x.get (ifftshiftIdxE x.s0 i) (ifftshiftIdxE x.s1 j)⟩ S0 S1 h0 h1,
    dft2_get_eq]
  simp only [if_true, dft2Sum, h0, h1, Int.toNat_natCast, ifftshiftIdxE, fftshiftIdxE]
  congr 1
  have inner : ∀ b : ℕ, ∑ a ∈ range S0, fker S0 a ((k + ((S0 : ℤ) - (S0 : ℤ) / 2)) % S0)
        * x.get (((a : ℤ) + (S0 : ℤ) / 2) % S0) (((b : ℤ) + (S1 : ℤ) / 2) % S1)
      = ∑ i ∈ range S0, ker (1 / S0) S0 S0 0 0 i k * x.get i (((b : ℤ) + (S1 : ℤ) / 2) % S1) :=
    fun b => fftshift_dft1 S0 hS0 (fun z => x.get z (((b : ℤ) + (S1 : ℤ) / 2) % S1)) k
  simp only [inner]
  have outer := fftshift_dft1 S1 hS1 (fun z => ∑ i ∈ range S0, ker (1 / S0) S0 S0 0 0 i k * x.get i z) l
  rw [sum_congr rfl (fun b _ => mul_comm _ _), outer]
  exact sum_congr rfl fun y _ => mul_comm _ _

end Lentil
