import LentilVerif.Model.Plane
import LentilVerif.Lemmas.Extent
/-! Facts about the generated `Gen.sliceOffset` and the plane model that need only core Lean (`omega`). -/
namespace Lentil

/-- closed form of the translated `helper.slice_offset` (the `(0, 0)` special case is the general formula) -/
theorem sliceOffset_closed (r0 r1 c0 c1 S0 S1 : Int) :
    Gen.sliceOffset r0 r1 c0 c1 S0 S1 = (r0 + (r1 - r0) / 2 - S0 / 2, c0 + (c1 - c0) / 2 - S1 / 2) := by
  unfold Gen.sliceOffset
  simp only []
  by_cases h : (decide (r0 + (r1 - r0) / 2 - S0 / 2 = 0) && decide (c0 + (c1 - c0) / 2 - S1 / 2 = 0)) = true
  · simp only [h, if_true]
    simp only [Bool.and_eq_true, decide_eq_true_eq] at h
    rw [Prod.mk.injEq]; omega
  · simp only [h]; rfl

/-- the extent of a sub-array `arr[r0:r1, c0:c1]` carried at `slice_offset`: the slice, shifted by the centre of the
containing array -/
theorem slice_extent (r0 r1 c0 c1 S0 S1 : Int) :
    arrayExtent (r1 - r0) (c1 - c0) (Gen.sliceOffset r0 r1 c0 c1 S0 S1).1 (Gen.sliceOffset r0 r1 c0 c1 S0 S1).2
      = ⟨r0 - S0 / 2, r1 - 1 - S0 / 2, c0 - S1 / 2, c1 - 1 - S1 / 2⟩ := by
  rw [sliceOffset_closed, arrayExtent_eq]; simp only [Extent.mk.injEq]; omega

/-- an extent intersected with itself: the slices address the whole array and the shift is the centre -/
theorem self_slices (e : Extent) :
    intersectionSlices e e = (((0, e.rmax - e.rmin + 1), (0, e.cmax - e.cmin + 1)), ((0, e.rmax - e.rmin + 1), (0, e.cmax - e.cmin + 1))) ∧
    intersectionShift e e = (e.rmin + (e.rmax - e.rmin + 1) / 2, e.cmin + (e.cmax - e.cmin + 1) / 2) := by
  rw [intersectionSlices_eq, intersectionShift_eq]
  have h1 : max e.rmin e.rmin = e.rmin := by omega
  have h2 : min e.rmax e.rmax = e.rmax := by omega
  have h3 : max e.cmin e.cmin = e.cmin := by omega
  have h4 : min e.cmax e.cmax = e.cmax := by omega
  rw [h1, h2, h3, h4]
  refine ⟨?_, rfl⟩
  have a : e.rmin - e.rmin = 0 := by omega
  have b : e.cmin - e.cmin = 0 := by omega
  rw [a, b]

theorem intersectionShape_pos (a b : Extent) (p : Int × Int) (h : intersectionShape a b = some p) : 0 < p.1 ∧ 0 < p.2 := by
  rw [intersectionShape_eq] at h
  generalize min a.rmax b.rmax - max a.rmin b.rmin + 1 = nr at h
  generalize min a.cmax b.cmax - max a.cmin b.cmin + 1 = nc at h
  by_cases hc : (decide (nr ≤ 0) || decide (nc ≤ 0)) = true
  · rw [if_pos hc] at h; exact absurd h (by simp)
  · rw [if_neg hc, Option.some.injEq] at h
    subst h
    simp only [Bool.or_eq_true, decide_eq_true_eq] at hc
    simp only
    omega

/-- overlapping non-empty extents have a non-empty intersection extent (core-only file: `omega` sees the core `min`/`max`) -/
theorem intersectionExtent_valid (a b : Extent) (ha : a.rmin ≤ a.rmax ∧ a.cmin ≤ a.cmax) (hb : b.rmin ≤ b.rmax ∧ b.cmin ≤ b.cmax)
    (h : intersect a b = true) :
    (intersectionExtent a b).rmin ≤ (intersectionExtent a b).rmax ∧ (intersectionExtent a b).cmin ≤ (intersectionExtent a b).cmax := by
  rw [intersect_iff'] at h
  rw [intersectionExtent_eq]
  show max a.rmin b.rmin ≤ min a.rmax b.rmax ∧ max a.cmin b.cmin ≤ min a.cmax b.cmax
  omega

end Lentil
