import LentilVerif.Lemmas.Insert
import LentilVerif.Lemmas.Fft
import LentilVerif.Model.Propagate
import Mathlib.Algebra.BigOperators.Group.List.Basic
import Mathlib.Algebra.Ring.Defs
/-! `Wavefront.field` (every field inserted into zeros) is the sum of the fields' embeddings on the canvas. -/
namespace Lentil

variable {K : Type} [Semiring K]

theorem insertArr_get_emb (f : Fld K) (out : Arr K) (i j : Int) (hi : 0 ≤ i ∧ i < out.s0) (hj : 0 ≤ j ∧ j < out.s1) :
    (insertArr f out 1).get i j = out.get i j + f.emb (i - out.s0 / 2) (j - out.s1 / 2) := by
  rw [insertArr_get f out 1 id i j hi hj]
  unfold Fld.emb embAt
  cases h : f.extent.inb (i - out.s0 / 2) (j - out.s1 / 2) <;> simp

theorem foldInsert_get (fs : List (Fld K)) (out : Arr K) (i j : Int) (hi : 0 ≤ i ∧ i < out.s0) (hj : 0 ≤ j ∧ j < out.s1) :
    (fs.foldl (fun o f => insertArr f o 1) out).get i j =
      out.get i j + (fs.map fun f => f.emb (i - out.s0 / 2) (j - out.s1 / 2)).sum := by
  induction fs generalizing out with
  | nil => simp
  | cons f fs ih =>
    simp only [List.foldl_cons, List.map_cons, List.sum_cons]
    rw [ih (insertArr f out 1) (by rw [insertArr_s0]; exact hi) (by rw [insertArr_s1]; exact hj),
      insertArr_get_emb f out i j hi hj, insertArr_s0, insertArr_s1, add_assoc]

/-- `Wavefront.field[i][j]` is the sum over the wavefront's fields of their value at the global coordinate of the sample,
the optical axis being sample `floor(S/2)` -/
theorem wavefrontField_get (fs : List (Fld K)) (S0 S1 i j : Int) (hi : 0 ≤ i ∧ i < S0) (hj : 0 ≤ j ∧ j < S1) :
    (wavefrontField 1 fs S0 S1).get i j = (fs.map fun f => f.emb (i - S0 / 2) (j - S1 / 2)).sum := by
  unfold wavefrontField
  rw [foldInsert_get fs _ i j hi hj]; simp

theorem sum_filterMap_embO {α : Type} (l : List α) (p : α → Option (Fld K)) (r c : Int) :
    ((l.filterMap p).map fun f => f.emb r c).sum = (l.map fun a => embO (p a) r c).sum := by
  induction l with
  | nil => simp
  | cons a l ih =>
    cases h : p a with
    | none => simp [h, embO, ih]
    | some g => simp [h, embO, ih]

end Lentil
