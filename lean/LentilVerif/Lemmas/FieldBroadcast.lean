import LentilVerif.Model.Field
import LentilVerif.Lemmas.Field
import LentilVerif.Gen.FieldBroadcast
/-! Reading of the regenerated `lentil.field._mul_broadcast` (`Gen.mulBroadcast`: broadcast flag, shape and offset of each
operand after the function) back into model fields, so `Props/C06` can state `Gen = Model` for the broadcast step of
`Fld.mul`. -/
namespace Lentil
variable {K : Type}

/-- the operand `x` as `_mul_broadcast` returns it: shape `shp`, offset `off`; when the flag `bc` is 1 the data is
`np.broadcast_to(x.data, shp)` of a one-element array (every sample is the single sample), otherwise `x.data` itself -/
def Fld.ofBroadcast (bc : Int) (shp off : Int × Int) (x : Fld K) : Fld K :=
  { arr := { s0 := shp.1, s1 := shp.2, get := if bc = 1 then fun _ _ => x.arr.get 0 0 else x.arr.get },
    o0 := off.1, o1 := off.2 }

/-- the two operands after the regenerated `_mul_broadcast(self.data, self.offset, other.data, other.offset)` -/
def Fld.genBroadcast (a b : Fld K) : Fld K × Fld K :=
  let g := Gen.mulBroadcast a.arr.s0 a.arr.s1 a.size a.o0 a.o1 b.arr.s0 b.arr.s1 b.size b.o0 b.o1
  (Fld.ofBroadcast g.1 g.2.1 g.2.2.1 a, Fld.ofBroadcast g.2.2.2.1 g.2.2.2.2.1 g.2.2.2.2.2 b)

theorem Fld.size_eq_one_iff_size1 (f : Fld K) : f.size = 1 ↔ f.size1 = true := by
  rw [Fld.size_eq_one_iff]; simp [Fld.size1]

end Lentil
