import LentilVerif.Lemmas.Spectrum
/-! C15 — the chained Simpson rule of `Spectrum.bin` on UNIFORM centres: every centre is the mid-point of its two bin
edges, so each term (x₂−x₀)/6·(f₀+4f₁+f₂) is the exact integral of a line over the bin -/
namespace Lentil.Spec

/-- centres with the constant step `h` -/
def UniformStep (h : ℚ) : List ℚ → Prop
  | c0 :: c1 :: cs => c1 = c0 + h ∧ UniformStep h (c1 :: cs)
  | _ => True

/-- every second point, starting with the first: the bin edges among the Simpson sample points -/
def everyOther : List ℚ → List ℚ
  | x0 :: _ :: xs => x0 :: everyOther xs
  | l => l

/-- in every triple of the chained rule the middle point is the mid-point of the outer two -/
def MidTriples : List ℚ → Prop
  | x0 :: x1 :: x2 :: xs => x1 = (x0 + x2) / 2 ∧ MidTriples (x2 :: xs)
  | _ => True

/-- the chained Simpson rule is exact for a line when the middle point of every triple is the mid-point -/
theorem simpsBins_linear (a b : ℚ) : ∀ x : List ℚ, MidTriples x →
    simpsBins x (x.map fun t => a * t + b) = exactBins a b (everyOther x) := by
  intro x
  induction x using everyOther.induct with
  | case1 x0 x1 xs ih =>
    intro hm
    cases xs with
    | nil => simp [simpsBins, everyOther, exactBins]
    | cons x2 xs =>
      obtain ⟨h1, hm'⟩ := hm
      have := ih hm'
      simp only [List.map_cons] at this ⊢
      cases xs with
      | nil =>
        simp only [simpsBins, everyOther, exactBins, Gen.simpsTerm]
        subst h1; congr 1; ring
      | cons x3 xs =>
        simp only [simpsBins, everyOther, exactBins, Gen.simpsTerm, List.map_cons] at this ⊢
        rw [this]
        subst h1; congr 1; ring
  | case2 l hl =>
    intro _
    match l, hl with
    | [], _ => simp [simpsBins, everyOther, exactBins]
    | [x0], _ => simp [simpsBins, everyOther, exactBins]
    | x0 :: x1 :: xs, hl => exact absurd rfl (hl x0 x1 xs)

/-- `prev, c₀, m₀₁, c₁, …, c_last, last` -/
def simpsChain (prev last : ℚ) (c : List ℚ) : List ℚ := prev :: interleave c (midpoints c) ++ [last]

theorem simpsChain_spec (h : ℚ) : ∀ (c : List ℚ) (prev last cl : ℚ), c ≠ [] → UniformStep h c → c.head? = some (prev + h / 2) →
    c.getLast? = some cl → last = cl + h / 2 →
    MidTriples (simpsChain prev last c) ∧ everyOther (simpsChain prev last c) = prev :: midpoints c ++ [last] := by
  intro c
  induction c with
  | nil => intro _ _ _ hne; exact absurd rfl hne
  | cons c0 cs ih =>
    intro prev last cl _ hu hh hl hlast
    simp only [List.head?_cons, Option.some.injEq] at hh
    cases cs with
    | nil =>
      simp only [List.getLast?_singleton, Option.some.injEq] at hl
      subst hl hh hlast
      simp only [simpsChain, interleave, midpoints, List.cons_append, List.nil_append, MidTriples, everyOther, and_true]
      ring
    | cons c1 cs =>
      obtain ⟨h1, hu'⟩ := hu
      have hl' : (c1 :: cs).getLast? = some cl := by simpa [List.getLast?_cons_cons] using hl
      have hm : (c1 :: cs).head? = some (Gen.binMid c0 c1 + h / 2) := by
        simp only [List.head?_cons, Option.some.injEq, Gen.binMid]; subst h1; ring
      obtain ⟨i1, i2⟩ := ih (Gen.binMid c0 c1) last cl (by simp) hu' hm hl' hlast
      simp only [simpsChain] at i1 i2 ⊢
      simp only [interleave, midpoints, List.cons_append] at i1 i2 ⊢
      refine ⟨⟨?_, i1⟩, ?_⟩
      · subst hh h1; simp only [Gen.binMid]; ring
      · simp only [everyOther]; rw [i2]

theorem uniform_last_two (h : ℚ) : ∀ (c : List ℚ) (cl cp : ℚ), UniformStep h c → c.getLast? = some cl →
    c.dropLast.getLast? = some cp → cl = cp + h := by
  intro c
  induction c with
  | nil => intro _ _ _ hl; simp at hl
  | cons c0 cs ih =>
    intro cl cp hu hl hp
    match cs, hu, hl, hp, ih with
    | [], _, _, hp, _ => simp at hp
    | [c1], hu, hl, hp, _ =>
      simp at hl hp; subst hl hp; exact hu.1
    | c1 :: c2 :: cs, hu, hl, hp, ih =>
      exact ih cl cp hu.2 (by simpa [List.getLast?_cons_cons] using hl) (by simpa [List.dropLast, List.getLast?_cons_cons] using hp)

/-- on uniform centres the Simpson sample points (symmetric ends, float centres) have mid-point triples, and every second one
is a trapezoid bin edge -/
theorem simpsPoints_uniform (h : ℚ) (c : List ℚ) (hu : UniformStep h c) :
    MidTriples (simpsPoints true c) ∧ everyOther (simpsPoints true c) = trapzEdges true c := by
  unfold simpsPoints trapzEdges
  match c, hu with
  | [], _ => simp [MidTriples, everyOther]
  | [c0], _ => simp [MidTriples, everyOther]
  | c0 :: c1 :: cs, hu =>
    cases hl : (c0 :: c1 :: cs).getLast? with
    | none => simp at hl
    | some cl =>
      cases hp : ((c0 :: c1 :: cs).dropLast).getLast? with
      | none => simp [List.dropLast] at hp
      | some cp =>
        have hlp := uniform_last_two h _ cl cp hu hl hp
        have := simpsChain_spec h (c0 :: c1 :: cs) (Gen.binEndLo c0 c1) (Gen.binEndHi cp cl) cl (by simp) hu
          (by simp only [List.head?_cons, Option.some.injEq, Gen.binEndLo]; rw [hu.1]; ring) hl
          (by simp only [Gen.binEndHi]; rw [hlp]; ring)
        simpa [simpsChain, hl, hp] using this

end Lentil.Spec
