import LentilVerif.Lemmas.Window
/-! The fields `propagate_dft`'s loop body produces have a positive shape (core Lean, `omega`). Helper lemmas for C05
(`Wavefront.insert` of a propagated wavefront). -/
namespace Lentil

theorem inter_shape_pos (a b : Extent) (ha : a.rmin ≤ a.rmax ∧ a.cmin ≤ a.cmax) (hb : b.rmin ≤ b.rmax ∧ b.cmin ≤ b.cmax)
    (h : intersect a b = true) : 0 < (intersectionExtent a b).nrow ∧ 0 < (intersectionExtent a b).ncol := by
  rw [intersect_iff'] at h
  rw [intersectionExtent_eq]
  simp only [Extent.nrow, Extent.ncol]
  omega

variable {K R : Type} [Add R] [Sub R] [Mul R] [Neg R] [RealLike R] [Add K] [Mul K] [Zero K] [CxLike K R]

/-- a field produced by the loop body of `propagate_dft` has at least one row and one column -/
theorem propagateField_pos (t : TField K R) (αr αc : R) (oe : Extent) (P0 P1 : Int)
    (hoe : oe.rmin ≤ oe.rmax ∧ oe.cmin ≤ oe.cmax) (hP : 0 < P0 ∧ 0 < P1) (g : Fld K)
    (h : propagateField t αr αc oe P0 P1 = some g) : 0 < g.arr.s0 ∧ 0 < g.arr.s1 := by
  have hpe : (propExtent P0 P1 t.fix0 t.fix1).rmin ≤ (propExtent P0 P1 t.fix0 t.fix1).rmax ∧
      (propExtent P0 P1 t.fix0 t.fix1).cmin ≤ (propExtent P0 P1 t.fix0 t.fix1).cmax := by
    unfold propExtent; rw [arrayExtent_eq]; simp only; omega
  cases hi : intersect oe (propExtent P0 P1 t.fix0 t.fix1) with
  | true =>
    unfold propagateField at h
    rw [dftWindow_some oe P0 P1 t.fix0 t.fix1 hoe hP hi] at h
    simp only [Option.some.injEq] at h
    subst h
    exact inter_shape_pos _ _ hoe hpe hi
  | false =>
    unfold propagateField at h
    rw [dftWindow_none oe P0 P1 t.fix0 t.fix1 hi] at h
    cases h

end Lentil
