import LentilVerif.Lemmas.ZernikeOrtho
import LentilVerif.Lemmas.PolarDisk
/-! Continuity and angular periodicity of the model's modes; the area mean over the unit disk of a product of modes is the polar mean. -/
namespace Lentil
open Real

theorem radialEval_continuous (n m : ℕ) : Continuous (fun x : ℝ => radialEval n m x) := by
  by_cases h : (n - m) % 2 = 0
  · have : (fun x : ℝ => radialEval n m x) = fun x => ∑ k ∈ Finset.range ((n - m) / 2 + 1), ((radialCoeff n m k : ℤ) : ℝ) * x ^ (n - 2 * k) := by
      funext x; exact radialEval_real n m h x
    rw [this]
    exact continuous_finset_sum _ fun k _ => continuous_const.mul (continuous_pow _)
  · have : (fun x : ℝ => radialEval n m x) = fun _ => 0 := by
      funext x; unfold radialEval; rw [if_pos (by omega)]
    rw [this]; exact continuous_const

theorem azim_continuous (m : ℤ) : Continuous (azim m) := by
  unfold azim
  split_ifs
  · exact continuous_const
  · exact Real.continuous_cos.comp (continuous_const.mul continuous_id)
  · exact Real.continuous_sin.comp (continuous_const.mul continuous_id)

theorem azim_periodic (m : ℤ) : Function.Periodic (azim m) (2 * π) := by
  intro θ
  unfold azim
  split_ifs
  · rfl
  · rw [mul_add, Real.cos_add_int_mul_two_pi]
  · rw [mul_add, Real.sin_add_int_mul_two_pi]

theorem zReal_continuous (j : ℕ) : Continuous (fun p : ℝ × ℝ => zReal j p.1 p.2) := by
  have : (fun p : ℝ × ℝ => zReal j p.1 p.2)
      = fun p => normFac (nollN j) (nollM j) * radialEval (nollN j) (nollM j).natAbs p.1 * azim (nollM j) p.2 := by
    funext p; exact zReal_factor j p.1 p.2
  rw [this]
  exact (continuous_const.mul ((radialEval_continuous _ _).comp continuous_fst)).mul ((azim_continuous _).comp continuous_snd)

theorem zReal_periodic (j : ℕ) (ρ : ℝ) : Function.Periodic (zReal j ρ) (2 * π) := by
  intro θ; rw [zReal_factor, zReal_factor, azim_periodic]

/-- the area mean over the unit disk of the product of two modes (as functions of the point `q` through its polar coordinates) is the
polar-coordinate mean `diskMean` -/
theorem area_mean_modes (j j' : ℕ) :
    (1 / π) * ∫ q in unitDisk, zReal j (polarCoord q).1 (polarCoord q).2 * zReal j' (polarCoord q).1 (polarCoord q).2
      = diskMean (fun ρ θ => zReal j ρ θ * zReal j' ρ θ) := by
  unfold diskMean
  rw [disk_integral_eq_iterated (fun ρ θ => zReal j ρ θ * zReal j' ρ θ) ((zReal_continuous j).mul (zReal_continuous j'))
    (fun ρ θ => by simp only; rw [zReal_periodic j ρ θ, zReal_periodic j' ρ θ])]

end Lentil
