import LentilVerif.Lemmas.ZernikeRadialIntegral
import Mathlib.Algebra.Order.Field.Basic
import Mathlib.Tactic.FieldSimp
/-! Link between the cleared-denominator integer Gram table (`allGram`, cheap for the kernel) and the rational entries `gramQ`. -/
namespace Lentil
open Finset

theorem lcm_fold_dvd (l : List ℕ) (a : ℕ) :
    a ∣ l.foldl (fun a i => if i = 0 then a else Nat.lcm a i) a ∧
    ∀ d ∈ l, d ≠ 0 → d ∣ l.foldl (fun a i => if i = 0 then a else Nat.lcm a i) a := by
  induction l generalizing a with
  | nil => exact ⟨dvd_refl _, fun d hd => by cases hd⟩
  | cons x t ih =>
    simp only [List.foldl_cons]
    obtain ⟨h1, h2⟩ := ih (if x = 0 then a else Nat.lcm a x)
    have ha : a ∣ (if x = 0 then a else Nat.lcm a x) := by split_ifs; exact dvd_refl _; exact Nat.dvd_lcm_left _ _
    refine ⟨ha.trans h1, ?_⟩
    intro d hd hd0
    rcases List.mem_cons.1 hd with rfl | hd
    · have : d ∣ (if d = 0 then a else Nat.lcm a d) := by rw [if_neg hd0]; exact Nat.dvd_lcm_right _ _
      exact this.trans h1
    · exact h2 d hd hd0

theorem dvd_lcmUpTo (K d : ℕ) (h1 : 1 ≤ d) (h2 : d ≤ K) : d ∣ lcmUpTo K :=
  (lcm_fold_dvd (List.range (K + 1)) 1).2 d (List.mem_range.2 (by omega)) (by omega)

theorem lcmUpTo_pos (K : ℕ) : 0 < lcmUpTo K := by
  unfold lcmUpTo
  have : ∀ (l : List ℕ) (a : ℕ), 0 < a → 0 < l.foldl (fun a i => if i = 0 then a else Nat.lcm a i) a := by
    intro l; induction l with
    | nil => intro a ha; exact ha
    | cons x t ih =>
      intro a ha; simp only [List.foldl_cons]; apply ih
      split_ifs with hx; exact ha; exact Nat.lcm_pos ha (Nat.pos_of_ne_zero hx)
  exact this _ 1 one_pos

/-- the cleared-denominator integer Gram entry is `D · gramQ` when every denominator divides `D` -/
theorem gramNum_eq (n n' m D : ℕ) (hD : ∀ k l, k < (n - m) / 2 + 1 → l < (n' - m) / 2 + 1 → (n - 2 * k + n' - 2 * l + 2) ∣ D) :
    ((gramNum n n' m D : ℤ) : ℚ) = (D : ℚ) * gramQ n n' m := by
  unfold gramNum gramQ
  simp only [foldl_map_range, Int.cast_sum]
  rw [Finset.mul_sum]
  apply Finset.sum_congr rfl; intro k hk
  rw [Finset.mul_sum]
  apply Finset.sum_congr rfl; intro l hl
  have hd := hD k l (Finset.mem_range.1 hk) (Finset.mem_range.1 hl)
  have hpos : ((n - 2 * k + n' - 2 * l + 2 : ℕ) : ℚ) ≠ 0 := by positivity
  rw [Int.cast_mul (radialCoeff n m k * radialCoeff n' m l), Int.cast_natCast, Nat.cast_div hd hpos, Int.cast_natCast]
  field_simp


/-- an integer Gram table up to `N` gives the rational Gram entries up to `N` -/
theorem gramQ_of_allGram (N : ℕ) (hT : allGram N = true) (n n' m : ℕ) (hn : n ≤ N) (hn' : n' ≤ N) (hm : m ≤ n) (hm' : m ≤ n')
    (h : (n - m) % 2 = 0) (h' : (n' - m) % 2 = 0) :
    gramQ n n' m = if n = n' then (1 : ℚ) / (((2 * (n + 1) : ℕ) : ℤ) : ℚ) else 0 := by
  unfold allGram at hT
  simp only at hT
  rw [List.all_eq_true] at hT
  have T1 := hT n (List.mem_range.2 (by omega))
  rw [List.all_eq_true] at T1
  have T2 := T1 n' (List.mem_range.2 (by omega))
  rw [List.all_eq_true] at T2
  have T3 := T2 m (List.mem_range.2 (by omega))
  simp only [Bool.or_eq_true, bne_iff_ne, beq_iff_eq] at T3
  have hval : gramNum n n' m (lcmUpTo (2 * N + 2)) = if n = n' then ((lcmUpTo (2 * N + 2) / (2 * (n + 1)) : ℕ) : ℤ) else 0 := by
    rcases T3 with (h1 | h1) | h1
    · exact absurd h h1
    · exact absurd h' h1
    · exact h1
  have hDpos : ((lcmUpTo (2 * N + 2) : ℕ) : ℚ) ≠ 0 := by exact_mod_cast (lcmUpTo_pos _).ne'
  have hlink := gramNum_eq n n' m (lcmUpTo (2 * N + 2)) (fun k l hk hl => dvd_lcmUpTo _ _ (by omega) (by omega))
  rw [hval] at hlink
  have hq : gramQ n n' m = ((if n = n' then ((lcmUpTo (2 * N + 2) / (2 * (n + 1)) : ℕ) : ℤ) else 0 : ℤ) : ℚ) / (lcmUpTo (2 * N + 2) : ℚ) := by
    rw [hlink]; field_simp
  rw [hq]
  split_ifs with e
  · have hd : 2 * (n + 1) ∣ lcmUpTo (2 * N + 2) := dvd_lcmUpTo _ _ (by omega) (by omega)
    have h2 : ((2 * (n + 1) : ℕ) : ℚ) ≠ 0 := by positivity
    rw [Int.cast_natCast, Nat.cast_div hd h2, Int.cast_natCast]
    field_simp
  · simp

end Lentil
