import LentilVerif.Lemmas.GeometrySums
import Mathlib.Algebra.BigOperators.Ring.Finset
import Mathlib.Tactic.Ring
import Mathlib.Tactic.Linarith
import Mathlib.Tactic.LinearCombination
/-! Centroid of half-turn-symmetric arrays and of indicator sets (`util.centroid`). -/
namespace Lentil
open Finset

theorem centroidNum_sums (n0 n1 : ℕ) (g : Int → Int → Int) :
    centroidNum ⟨n0, n1, g⟩ =
      (∑ p ∈ range n0 ×ˢ range n1, (p.1 : Int) * g p.1 p.2, ∑ p ∈ range n0 ×ˢ range n1, (p.2 : Int) * g p.1 p.2,
       ∑ p ∈ range n0 ×ˢ range n1, g p.1 p.2) := by
  unfold centroidNum Arr.total
  simp only [sumRange_eq_sum, Int.toNat_natCast, Finset.sum_product]

/-- weighted first moment about `c` vanishes for a half-turn-symmetric array -/
theorem moment_zero_of_half_turn (n0 n1 c0 c1 : ℕ) (g : Int → Int → Int) (w : ℕ × ℕ → Int)
    (hw : ∀ p : ℕ × ℕ, p.1 ≤ 2 * c0 → p.2 ≤ 2 * c1 → w (2 * c0 - p.1, 2 * c1 - p.2) = -w p)
    (hw0 : ∀ p : ℕ × ℕ, p.1 ≤ 2 * c0 → p.2 ≤ 2 * c1 → (2 * c0 - p.1, 2 * c1 - p.2) = p → w p = 0)
    (hsym : ∀ i j : ℕ, i < n0 → j < n1 → g i j ≠ 0 →
      i ≤ 2 * c0 ∧ j ≤ 2 * c1 ∧ 2 * c0 - i < n0 ∧ 2 * c1 - j < n1 ∧ g ((2 * c0 - i : ℕ) : Int) ((2 * c1 - j : ℕ) : Int) = g i j) :
    ∑ p ∈ range n0 ×ˢ range n1, w p * g p.1 p.2 = 0 := by
  rw [← Finset.sum_filter_ne_zero]
  have key : ∀ p ∈ (range n0 ×ˢ range n1).filter (fun p => w p * g p.1 p.2 ≠ 0),
      p.1 < n0 ∧ p.2 < n1 ∧ g p.1 p.2 ≠ 0 := by
    intro p hp
    rw [Finset.mem_filter, Finset.mem_product, Finset.mem_range, Finset.mem_range] at hp
    exact ⟨hp.1.1, hp.1.2, fun h => hp.2 (by rw [h, mul_zero])⟩
  apply Finset.sum_involution (fun p _ => (2 * c0 - p.1, 2 * c1 - p.2))
  · intro p hp
    obtain ⟨h1, h2, h3⟩ := key p hp
    obtain ⟨a1, a2, a3, a4, a5⟩ := hsym p.1 p.2 h1 h2 h3
    simp only
    rw [a5, hw p a1 a2]; ring
  · intro p hp hne heq
    obtain ⟨h1, h2, h3⟩ := key p hp
    obtain ⟨a1, a2, _, _, _⟩ := hsym p.1 p.2 h1 h2 h3
    exact hne (by rw [hw0 p a1 a2 heq, zero_mul])
  · intro p hp
    obtain ⟨h1, h2, h3⟩ := key p hp
    obtain ⟨a1, a2, a3, a4, a5⟩ := hsym p.1 p.2 h1 h2 h3
    have hp' := (Finset.mem_filter.1 hp).2
    rw [Finset.mem_filter, Finset.mem_product, Finset.mem_range, Finset.mem_range]
    refine ⟨⟨a3, a4⟩, ?_⟩
    simp only
    rw [a5, hw p a1 a2]
    intro h; apply hp'; rw [neg_mul, neg_eq_zero] at h; exact h
  · intro p hp
    obtain ⟨h1, h2, h3⟩ := key p hp
    obtain ⟨a1, a2, _, _, _⟩ := hsym p.1 p.2 h1 h2 h3
    simp only
    ext <;> simp only <;> omega


/-- **the centroid of a half-turn-symmetric array is its centre of symmetry**: if every non-zero sample `(i, j)` has its mirror image
`(2c₀ − i, 2c₁ − j)` inside the array with the same value, the centroid numerators are `c₀·T`, `c₁·T` for the total `T` -/
theorem centroid_half_turn (n0 n1 c0 c1 : ℕ) (g : Int → Int → Int)
    (hsym : ∀ i j : ℕ, i < n0 → j < n1 → g i j ≠ 0 →
      i ≤ 2 * c0 ∧ j ≤ 2 * c1 ∧ 2 * c0 - i < n0 ∧ 2 * c1 - j < n1 ∧ g ((2 * c0 - i : ℕ) : Int) ((2 * c1 - j : ℕ) : Int) = g i j) :
    centroidNum ⟨n0, n1, g⟩ = ((c0 : Int) * (centroidNum ⟨n0, n1, g⟩).2.2, (c1 : Int) * (centroidNum ⟨n0, n1, g⟩).2.2,
      (centroidNum ⟨n0, n1, g⟩).2.2) := by
  rw [centroidNum_sums]
  simp only
  have r := moment_zero_of_half_turn n0 n1 c0 c1 g (fun p => (p.1 : Int) - c0)
    (fun p h1 h2 => by rw [Nat.cast_sub h1]; push_cast; ring)
    (fun p h1 h2 he => by have := congrArg Prod.fst he; simp only at this; omega) hsym
  have c := moment_zero_of_half_turn n0 n1 c0 c1 g (fun p => (p.2 : Int) - c1)
    (fun p h1 h2 => by rw [Nat.cast_sub h2]; push_cast; ring)
    (fun p h1 h2 he => by have := congrArg Prod.snd he; simp only at this; omega) hsym
  simp only [sub_mul, Finset.sum_sub_distrib, ← Finset.mul_sum] at r c
  refine Prod.ext ?_ (Prod.ext ?_ rfl)
  · simp only; linarith
  · simp only; linarith

/-- **centroid of an indicator set**: for the indicator of a set `S` of samples inside the array the numerators are `Σ_S i`, `Σ_S j`
and the total is `|S|` — the centroid is the mean position of the set -/
theorem centroid_indicator_set (n0 n1 : ℕ) (S : Finset (ℕ × ℕ)) (hS : S ⊆ range n0 ×ˢ range n1) [DecidablePred (· ∈ S)] :
    centroidNum ⟨n0, n1, fun i j => if (i.toNat, j.toNat) ∈ S then 1 else 0⟩
      = (∑ p ∈ S, (p.1 : Int), ∑ p ∈ S, (p.2 : Int), (S.card : Int)) := by
  rw [centroidNum_sums]
  simp only [Int.toNat_natCast, mul_ite, mul_one, mul_zero]
  have e : (range n0 ×ˢ range n1).filter (fun p => p ∈ S) = S := by
    ext p; simp only [Finset.mem_filter]; exact ⟨fun h => h.2, fun h => ⟨hS h, h⟩⟩
  refine Prod.ext ?_ (Prod.ext ?_ ?_)
  · simp only; rw [← Finset.sum_filter, e]
  · simp only; rw [← Finset.sum_filter, e]
  · simp only; rw [← Finset.sum_filter, e]; simp

/-! ### any commutative ring of weights -/

theorem centroidNumK_int (a : Arr Int) : centroidNumK a = centroidNum a := rfl

theorem centroidNumK_sums {K : Type} [CommRing K] (n0 n1 : ℕ) (g : Int → Int → K) :
    centroidNumK ⟨n0, n1, g⟩ =
      (∑ p ∈ range n0 ×ˢ range n1, (p.1 : K) * g p.1 p.2, ∑ p ∈ range n0 ×ˢ range n1, (p.2 : K) * g p.1 p.2,
       ∑ p ∈ range n0 ×ˢ range n1, g p.1 p.2) := by
  unfold centroidNumK Arr.total
  simp only [sumRange_eq_sum, Int.toNat_natCast, Finset.sum_product]

theorem moment_zero_of_half_turnK {K : Type} [CommRing K] (n0 n1 c0 c1 : ℕ) (g : Int → Int → K) (w : ℕ × ℕ → K)
    (hw : ∀ p : ℕ × ℕ, p.1 ≤ 2 * c0 → p.2 ≤ 2 * c1 → w (2 * c0 - p.1, 2 * c1 - p.2) = -w p)
    (hw0 : ∀ p : ℕ × ℕ, p.1 ≤ 2 * c0 → p.2 ≤ 2 * c1 → (2 * c0 - p.1, 2 * c1 - p.2) = p → w p = 0)
    (hsym : ∀ i j : ℕ, i < n0 → j < n1 → g i j ≠ 0 →
      i ≤ 2 * c0 ∧ j ≤ 2 * c1 ∧ 2 * c0 - i < n0 ∧ 2 * c1 - j < n1 ∧ g ((2 * c0 - i : ℕ) : Int) ((2 * c1 - j : ℕ) : Int) = g i j) :
    ∑ p ∈ range n0 ×ˢ range n1, w p * g p.1 p.2 = 0 := by
  classical
  rw [← Finset.sum_filter_ne_zero]
  have key : ∀ p ∈ (range n0 ×ˢ range n1).filter (fun p => w p * g p.1 p.2 ≠ 0),
      p.1 < n0 ∧ p.2 < n1 ∧ g p.1 p.2 ≠ 0 := by
    intro p hp
    rw [Finset.mem_filter, Finset.mem_product, Finset.mem_range, Finset.mem_range] at hp
    exact ⟨hp.1.1, hp.1.2, fun h => hp.2 (by rw [h, mul_zero])⟩
  apply Finset.sum_involution (fun p _ => (2 * c0 - p.1, 2 * c1 - p.2))
  · intro p hp
    obtain ⟨h1, h2, h3⟩ := key p hp
    obtain ⟨a1, a2, a3, a4, a5⟩ := hsym p.1 p.2 h1 h2 h3
    simp only
    rw [a5, hw p a1 a2]; ring
  · intro p hp hne heq
    obtain ⟨h1, h2, h3⟩ := key p hp
    obtain ⟨a1, a2, _, _, _⟩ := hsym p.1 p.2 h1 h2 h3
    exact hne (by rw [hw0 p a1 a2 heq, zero_mul])
  · intro p hp
    obtain ⟨h1, h2, h3⟩ := key p hp
    obtain ⟨a1, a2, a3, a4, a5⟩ := hsym p.1 p.2 h1 h2 h3
    have hp' := (Finset.mem_filter.1 hp).2
    rw [Finset.mem_filter, Finset.mem_product, Finset.mem_range, Finset.mem_range]
    refine ⟨⟨a3, a4⟩, ?_⟩
    simp only
    rw [a5, hw p a1 a2]
    intro h; apply hp'; rw [neg_mul, neg_eq_zero] at h; exact h
  · intro p hp
    obtain ⟨h1, h2, h3⟩ := key p hp
    obtain ⟨a1, a2, _, _, _⟩ := hsym p.1 p.2 h1 h2 h3
    simp only
    ext <;> simp only <;> omega

/-- **weighted centroid of a half-turn-symmetric image**, any commutative ring of weights (ℚ, ℝ: antialiased shapes): the numerators are
`c₀·T`, `c₁·T` for the total `T` -/
theorem centroid_half_turnK {K : Type} [CommRing K] (n0 n1 c0 c1 : ℕ) (g : Int → Int → K)
    (hsym : ∀ i j : ℕ, i < n0 → j < n1 → g i j ≠ 0 →
      i ≤ 2 * c0 ∧ j ≤ 2 * c1 ∧ 2 * c0 - i < n0 ∧ 2 * c1 - j < n1 ∧ g ((2 * c0 - i : ℕ) : Int) ((2 * c1 - j : ℕ) : Int) = g i j) :
    centroidNumK ⟨n0, n1, g⟩ = ((c0 : K) * (centroidNumK ⟨n0, n1, g⟩).2.2, (c1 : K) * (centroidNumK ⟨n0, n1, g⟩).2.2,
      (centroidNumK ⟨n0, n1, g⟩).2.2) := by
  rw [centroidNumK_sums]
  simp only
  have r := moment_zero_of_half_turnK n0 n1 c0 c1 g (fun p => (p.1 : K) - c0)
    (fun p h1 h2 => by simp only; rw [Nat.cast_sub h1]; push_cast; ring)
    (fun p h1 h2 he => by
      have := congrArg Prod.fst he; simp only at this
      have e : p.1 = c0 := by omega
      simp [e]) hsym
  have c := moment_zero_of_half_turnK n0 n1 c0 c1 g (fun p => (p.2 : K) - c1)
    (fun p h1 h2 => by simp only; rw [Nat.cast_sub h2]; push_cast; ring)
    (fun p h1 h2 he => by
      have := congrArg Prod.snd he; simp only at this
      have e : p.2 = c1 := by omega
      simp [e]) hsym
  simp only [sub_mul, Finset.sum_sub_distrib, ← Finset.mul_sum] at r c
  refine Prod.ext ?_ (Prod.ext ?_ rfl)
  · simp only; linear_combination r
  · simp only; linear_combination c

end Lentil
