import LentilVerif.Model.Zernike
import Mathlib.LinearAlgebra.Matrix.NonsingularInverse
/-! Abstract (non-executable) model of `zernike_fit / zernike_compose / zernike_remove` over Mathlib matrices.

`B` is the basis matrix: one row per sample of the array, one column per *requested* mode, in the order requested
(`zernike_basis(mask, modes, vectorize=True, …)ᵀ`). Under the property's hypothesis that the modes are linearly independent on
the mask — stated as `IsUnit (Bᵀ * B).det` — the Moore–Penrose inverse that `np.linalg.pinv` returns is `(BᵀB)⁻¹Bᵀ`
(trusted contract), so

* `fit B opd = (BᵀB)⁻¹ Bᵀ · opd`            (`zernike_fit`: `einsum('ij,i->j', pinv(basis), opd)`),
* `compose B c = B · c`                      (`zernike_compose` restricted to the requested modes / the `einsum` of `zernike_remove`),
* `remove B opd = opd − B · fit B opd`       (`zernike_remove`). -/
namespace Lentil
open Matrix

variable {P M R : Type} [Fintype P] [Fintype M] [DecidableEq M] [CommRing R]

/-- `(BᵀB)⁻¹Bᵀ` -/
noncomputable def pinvFR (B : Matrix P M R) : Matrix M P R := (Bᵀ * B)⁻¹ * Bᵀ

noncomputable def zfit (B : Matrix P M R) (opd : P → R) : M → R := pinvFR B *ᵥ opd
def zcompose (B : Matrix P M R) (c : M → R) : P → R := B *ᵥ c
noncomputable def zremove (B : Matrix P M R) (opd : P → R) : P → R := opd - zcompose B (zfit B opd)

theorem pinvFR_mul (B : Matrix P M R) (h : IsUnit (Bᵀ * B).det) : pinvFR B * B = 1 := by
  unfold pinvFR; rw [Matrix.mul_assoc, Matrix.nonsing_inv_mul _ h]

/-- basis matrix of the requested modes (any list, any order) from the C11 mode model: sample `p` has caller-supplied or default
coordinates `(rho p, theta p)` and mask bit `mask p` -/
def zBasis {K : Type} [Add K] [Mul K] [Zero K] [One K] [IntCast K] (sqrtN : Nat → K) (cos sin : K → K) {k : Nat} (modes : Fin k → Nat)
    (normalize : Bool) (rho theta : P → K) (mask : P → Bool) : Matrix P (Fin k) K :=
  fun p i => zernAt sqrtN cos sin (modes i) normalize (rho p) (theta p) (mask p)

/-! ### `(BᵀB)⁻¹Bᵀ` is THE Moore–Penrose inverse -/

theorem pinvFR_penrose (B : Matrix P M R) (h : IsUnit (Bᵀ * B).det) :
    B * pinvFR B * B = B ∧ pinvFR B * B * pinvFR B = pinvFR B ∧
    (B * pinvFR B)ᵀ = B * pinvFR B ∧ (pinvFR B * B)ᵀ = pinvFR B * B := by
  have h1 : pinvFR B * B = 1 := pinvFR_mul B h
  have hG : (Bᵀ * B)ᵀ = Bᵀ * B := by rw [Matrix.transpose_mul, Matrix.transpose_transpose]
  refine ⟨?_, ?_, ?_, ?_⟩
  · rw [Matrix.mul_assoc, h1, Matrix.mul_one]
  · rw [h1, Matrix.one_mul]
  · unfold pinvFR
    rw [Matrix.transpose_mul, Matrix.transpose_mul, Matrix.transpose_transpose, Matrix.transpose_nonsing_inv, hG, Matrix.mul_assoc]
  · rw [h1, Matrix.transpose_one]

theorem pinvFR_unique (B : Matrix P M R) (X : Matrix M P R) (h : IsUnit (Bᵀ * B).det)
    (h1 : B * X * B = B) (h3 : (B * X)ᵀ = B * X) : X = pinvFR B := by
  have e : Bᵀ * B * X = Bᵀ := by
    have := congrArg Matrix.transpose h1
    rw [Matrix.transpose_mul, h3, ← Matrix.mul_assoc] at this
    exact this
  have : (Bᵀ * B)⁻¹ * (Bᵀ * B * X) = (Bᵀ * B)⁻¹ * Bᵀ := by rw [e]
  rw [← Matrix.mul_assoc, Matrix.nonsing_inv_mul _ h, Matrix.one_mul] at this
  exact this

end Lentil
