import LentilVerif.Lemmas.ZernikeAlg
import LentilVerif.Lemmas.ZernikeTables
import Mathlib.Analysis.SpecialFunctions.Integrals.Basic
/-! The exact rational Gram entries `gramQ` are the radial integrals of the model's radial polynomials over [0, 1]. -/
namespace Lentil
open Finset intervalIntegral

/-- fold-sum of a mapped range as a Finset sum -/
theorem foldl_map_range {M : Type} [AddCommMonoid M] (n : ℕ) (f : ℕ → M) :
    ((List.range n).map f).foldl (· + ·) 0 = ∑ i ∈ range n, f i := by
  induction n with
  | zero => simp
  | succ n ih => rw [List.range_succ, List.map_append, List.foldl_append, ih, sum_range_succ]; rfl

theorem foldl_range_add {M : Type} [AddCommMonoid M] (n : ℕ) (f : ℕ → M) :
    (List.range n).foldl (fun acc k => acc + f k) 0 = ∑ i ∈ range n, f i := by
  induction n with
  | zero => simp
  | succ n ih => rw [List.range_succ, List.foldl_append, ih, sum_range_succ]; rfl

/-- the radial polynomial of the model as a polynomial expression over ℝ -/
theorem radialEval_real (n m : ℕ) (h : (n - m) % 2 = 0) (x : ℝ) :
    radialEval n m x = ∑ k ∈ range ((n - m) / 2 + 1), ((radialCoeff n m k : ℤ) : ℝ) * x ^ (n - 2 * k) := by
  unfold radialEval
  rw [if_neg (by omega), foldl_range_add]
  simp only [powK_eq_pow]

/-- `∫₀¹ (Σ aₖ x^{eₖ}) (Σ bₗ x^{fₗ}) x dx = Σₖ Σₗ aₖ bₗ / (eₖ + fₗ + 2)` -/
theorem integral_poly_mul (K L : ℕ) (a b : ℕ → ℝ) (e f : ℕ → ℕ) :
    ∫ x in (0 : ℝ)..1, (∑ k ∈ range K, a k * x ^ e k) * (∑ l ∈ range L, b l * x ^ f l) * x
      = ∑ k ∈ range K, ∑ l ∈ range L, a k * b l / ((e k + f l + 2 : ℕ) : ℝ) := by
  have hint : ∀ x : ℝ, (∑ k ∈ range K, a k * x ^ e k) * (∑ l ∈ range L, b l * x ^ f l) * x
      = ∑ k ∈ range K, ∑ l ∈ range L, (a k * b l) * x ^ (e k + f l + 1) := by
    intro x
    rw [Finset.sum_mul_sum, Finset.sum_mul]
    apply Finset.sum_congr rfl; intro k _
    rw [Finset.sum_mul]
    apply Finset.sum_congr rfl; intro l _
    rw [pow_succ, pow_add]; ring
  simp only [hint]
  rw [intervalIntegral.integral_finsetSum]
  · apply Finset.sum_congr rfl; intro k _
    rw [intervalIntegral.integral_finsetSum]
    · apply Finset.sum_congr rfl; intro l _
      rw [intervalIntegral.integral_const_mul, integral_pow]
      simp only [one_pow, ne_eq, Nat.add_eq_zero_iff, one_ne_zero, and_false, not_false_eq_true, zero_pow, sub_zero]
      push_cast
      rw [show (e k : ℝ) + f l + 1 + 1 = (e k : ℝ) + f l + 2 by ring, mul_one_div]
    · intro l _
      exact ((continuous_const.mul (continuous_pow _))).intervalIntegrable _ _
  · intro k _
    exact (continuous_finsetSum _ fun l _ => continuous_const.mul (continuous_pow _)).intervalIntegrable _ _


/-- the exact rational `gramQ` is the radial integral `∫₀¹ R_n^m(ρ) R_n'^m(ρ) ρ dρ` of the model's radial polynomials -/
theorem gramQ_eq_integral (n n' m : ℕ) (h : (n - m) % 2 = 0) (h' : (n' - m) % 2 = 0) :
    ((gramQ n n' m : ℚ) : ℝ) = ∫ x in (0 : ℝ)..1, radialEval n m x * radialEval n' m x * x := by
  have hfun : ∀ x : ℝ, radialEval n m x * radialEval n' m x * x
      = (∑ k ∈ range ((n - m) / 2 + 1), ((radialCoeff n m k : ℤ) : ℝ) * x ^ (n - 2 * k)) *
        (∑ l ∈ range ((n' - m) / 2 + 1), ((radialCoeff n' m l : ℤ) : ℝ) * x ^ (n' - 2 * l)) * x := by
    intro x; rw [radialEval_real n m h, radialEval_real n' m h']
  simp only [hfun]
  rw [integral_poly_mul]
  unfold gramQ
  rw [foldl_map_range]
  simp only [foldl_map_range]
  push_cast
  apply Finset.sum_congr rfl; intro k hk
  apply Finset.sum_congr rfl; intro l hl
  have hk' : 2 * k ≤ n := by have := Finset.mem_range.1 hk; omega
  have hl' : 2 * l ≤ n' := by have := Finset.mem_range.1 hl; omega
  congr 1
  rw [show n - 2 * k + n' - 2 * l = (n - 2 * k) + (n' - 2 * l) by omega]
  push_cast
  ring

end Lentil
