import LentilVerif.Lemmas.EnergyPupil
import LentilVerif.Lemmas.EnergyFft
/-! C05: the fields a monolithic pupil puts on the fresh wavefront lie on the plane's canvas and carry the plane's amplitude·mask power —
the facts `propagate_fft_energy` needs to speak about a pupil (used by `C05.normalized_pupil_images_to_p_fft`). -/
open Finset
namespace Lentil

/-- a field whose (valid) extent lies on the canvas is `within` it and has positive shape -/
theorem within_of_extent (f : Fld ℂ) (S0 S1 : ℕ) (e : Extent) (he : f.extent = e) (hv : e.rmin ≤ e.rmax ∧ e.cmin ≤ e.cmax)
    (hin : -((S0 : ℤ) / 2) ≤ e.rmin ∧ e.rmax ≤ -((S0 : ℤ) / 2) + S0 - 1 ∧ -((S1 : ℤ) / 2) ≤ e.cmin ∧ e.cmax ≤ -((S1 : ℤ) / 2) + S1 - 1) :
    f.within S0 S1 ∧ 0 < f.arr.s0 ∧ 0 < f.arr.s1 := by
  unfold Fld.within
  rw [he, arrayExtent_eq]
  unfold Fld.extent at he
  rw [arrayExtent_eq] at he
  subst he
  simp only at hv hin ⊢
  refine ⟨⟨?_, ?_, ?_, ?_⟩, ?_, ?_⟩ <;> omega

/-- the output of a monolithic pupil (mask box of more than one pixel) on the fresh wavefront: every field lies on the canvas -/
theorem pupil_fields_on_canvas (wl : ℝ) (amp : Attr ℂ) (opd : Attr ℝ) (S0 S1 : ℕ) (g : Seg) (hc : g.covers S0 S1)
    (hbig : g.s.r0 < g.s.r1 ∧ g.s.c0 < g.s.c1 ∧ ¬ (g.s.r1 - g.s.r0 = 1 ∧ g.s.c1 - g.s.c0 = 1)) :
    ∀ f ∈ planeMultiply (planePh wl) ⟨amp, opd, .segs S0 S1 [g]⟩ [unitField], f.within S0 S1 ∧ 0 < f.arr.s0 ∧ 0 < f.arr.s1 := by
  set out := planeMultiply (planePh wl) ⟨amp, opd, .segs S0 S1 [g]⟩ [unitField] with hout
  have hs1 : (segPhasor (planePh wl) amp opd S0 S1 g).size1 = false := by
    rw [Bool.eq_false_iff]; intro hh
    simp only [Fld.size1, segPhasor, Bool.and_eq_true] at hh
    exact hbig.2.2 ⟨of_decide_eq_true hh.1, of_decide_eq_true hh.2⟩
  have hext : out.map Fld.extent = [segBox S0 S1 g] := by
    rw [hout, planeMultiply_fresh_extents (planePh wl) _ unitField rfl]
    · simp [planePhasors, segPhasor_extent]
    · intro q hq
      simp only [planePhasors, List.map_cons, List.map_nil, List.mem_cons, List.mem_nil_iff, or_false] at hq
      subst hq
      refine ⟨hs1, ?_⟩
      rw [segPhasor_extent]; unfold Extent.valid segBox; simp only; omega
  intro f hf
  have : f.extent ∈ out.map Fld.extent := List.mem_map_of_mem hf
  rw [hext, List.mem_singleton] at this
  obtain ⟨h1, h2, h3, h4, _⟩ := hc
  refine within_of_extent f S0 S1 _ this ?_ ?_ <;> (unfold segBox; simp only; omega)

/-- … and their coherent sum on the canvas has the plane's amplitude·mask power -/
theorem pupil_input_power (wl : ℝ) (amp : Attr ℂ) (opd : Attr ℝ) (S0 S1 : ℕ) (g : Seg) (hc : g.covers S0 S1)
    (hbig : g.s.r0 < g.s.r1 ∧ g.s.c0 < g.s.c1 ∧ ¬ (g.s.r1 - g.s.r0 = 1 ∧ g.s.c1 - g.s.c0 = 1)) :
    arrSum (intensity (R := ℝ) (embedAll (planeMultiply (planePh wl) ⟨amp, opd, .segs S0 S1 [g]⟩ [unitField]) S0 S1))
      = ∑ i ∈ range S0, ∑ j ∈ range S1, (if g.m i j = true then Complex.normSq (amp.at i j) else 0) := by
  have hS0 : 0 < S0 := by have := hc.1; have := hc.2.1; have := hbig.1; omega
  have hS1 : 0 < S1 := by have := hc.2.2.1; have := hc.2.2.2.1; have := hbig.2.1; omega
  have hfit : ∀ f ∈ planeMultiply (planePh wl) ⟨amp, opd, .segs S0 S1 [g]⟩ [unitField], Fits f S0 S1 := fun f hf =>
    fits_of_within f S0 S1 (pupil_fields_on_canvas wl amp opd S0 S1 g hc hbig f hf).2 (pupil_fields_on_canvas wl amp opd S0 S1 g hc hbig f hf).1
  have hcover : ∀ q ∈ periodBox S0 S1, ((arrayExtent S0 S1 0 0).inb q.1 q.2 && (propExtent S0 S1 0 0).inb q.1 q.2) = true := by
    intro q hq
    simp only [periodBox, Finset.mem_product, Finset.mem_Ico] at hq
    simp only [Bool.and_eq_true, Extent.inb_iff, propExtent, arrayExtent_eq]
    omega
  have hoe : (arrayExtent S0 S1 0 0).rmin ≤ (arrayExtent S0 S1 0 0).rmax ∧ (arrayExtent S0 S1 0 0).cmin ≤ (arrayExtent S0 S1 0 0).cmax := by
    rw [arrayExtent_eq]; simp only; omega
  rw [← propagate_dft_energy_eq _ S0 S1 S0 S1 hfit hS0 hS1 le_rfl le_rfl (arrayExtent S0 S1 0 0) S0 S1 hoe
    ⟨by exact_mod_cast hS0, by exact_mod_cast hS1⟩ hcover]
  exact pupil_image_total_aux wl amp opd S0 S1 S0 S1 g hc hbig hS0 hS1 le_rfl le_rfl (arrayExtent S0 S1 0 0) S0 S1 hoe
    ⟨by exact_mod_cast hS0, by exact_mod_cast hS1⟩ hcover

end Lentil
