import LentilVerif.Lemmas.Plane
import LentilVerif.Lemmas.Field
import Mathlib.Algebra.Ring.Defs
/-! Algebra of `sumList` (the fold the executable model uses for sums) and the per-segment phasor. Helper lemmas for
C07/C03; property theorems are in Props/. -/
namespace Lentil
variable {K : Type}

section sums
variable [AddMonoid K] {α β : Type}

theorem foldl_add_eq (xs : List α) (f : α → K) (acc : K) :
    xs.foldl (fun a x => a + f x) acc = acc + sumList xs f := by
  unfold sumList
  induction xs generalizing acc with
  | nil => simp
  | cons x xs ih =>
    simp only [List.foldl_cons]
    rw [ih (acc + f x), ih (0 + f x), zero_add, add_assoc]

@[simp] theorem sumL_nil (f : α → K) : sumList ([] : List α) f = 0 := rfl

theorem sumL_cons (x : α) (xs : List α) (f : α → K) : sumList (x :: xs) f = f x + sumList xs f := by
  show (x :: xs).foldl (fun a x => a + f x) 0 = _
  rw [List.foldl_cons, foldl_add_eq, zero_add]

theorem sumL_append (a b : List α) (f : α → K) : sumList (a ++ b) f = sumList a f + sumList b f := by
  induction a with
  | nil => simp
  | cons x xs ih => rw [List.cons_append, sumL_cons, sumL_cons, ih, add_assoc]

theorem sumList_map (l : List α) (F : α → β) (e : β → K) : sumList (l.map F) e = sumList l (fun x => e (F x)) := by
  induction l with
  | nil => rfl
  | cons x xs ih => rw [List.map_cons, sumL_cons, sumL_cons, ih]

theorem sumList_flatMap (l : List α) (F : α → List β) (e : β → K) :
    sumList (l.flatMap F) e = sumList l (fun x => sumList (F x) e) := by
  induction l with
  | nil => rfl
  | cons x xs ih => rw [List.flatMap_cons, sumL_append, sumL_cons, ih]

theorem sumList_filterMap (l : List α) (F : α → Option β) (e : β → K) :
    sumList (l.filterMap F) e = sumList l (fun x => match F x with | some y => e y | none => 0) := by
  induction l with
  | nil => rfl
  | cons x xs ih =>
    rw [sumL_cons, ← ih]
    cases h : F x with
    | none => rw [List.filterMap_cons_none h]; simp
    | some y => rw [List.filterMap_cons_some h, sumL_cons]

theorem sumList_all_zero (l : List α) (f : α → K) (h : ∀ x ∈ l, f x = 0) : sumList l f = 0 := by
  induction l with
  | nil => rfl
  | cons x xs ih =>
    rw [sumL_cons, h x (List.mem_cons_self ..), ih (fun y hy => h y (List.mem_cons_of_mem _ hy)), add_zero]

end sums

section ring
variable [NonUnitalNonAssocSemiring K] {α : Type}

theorem sumList_mul_left (l : List α) (a : K) (f : α → K) : sumList l (fun x => a * f x) = a * sumList l f := by
  induction l with
  | nil => simp
  | cons x xs ih => rw [sumL_cons, sumL_cons, ih, mul_add]

theorem sumList_mul_right (l : List α) (a : K) (f : α → K) : sumList l (fun x => f x * a) = sumList l f * a := by
  induction l with
  | nil => simp
  | cons x xs ih => rw [sumL_cons, sumL_cons, ih, add_mul]

end ring

/-! ### the transmission of one segment -/
variable {R : Type}

/-- what one segment of a plane of shape `(S0, S1)` does at the global coordinate `(r, c)`: pixel `(i, j)` of the plane
sits at `(i - S0/2, j - S1/2)`; `amplitude * exp(2 pi i opd / wavelength)` where the segment's mask is set, `0`
elsewhere (also outside the plane) -/
def segFactor [Zero K] [Mul K] (ph : R → K) (amp : Attr K) (opd : Attr R) (S0 S1 : Int) (m : Int → Int → Bool) (r c : Int) : K :=
  if 0 ≤ r + S0 / 2 ∧ r + S0 / 2 < S0 ∧ 0 ≤ c + S1 / 2 ∧ c + S1 / 2 < S1 ∧ m (r + S0 / 2) (c + S1 / 2) = true
  then amp.at (r + S0 / 2) (c + S1 / 2) * ph (opd.at (r + S0 / 2) (c + S1 / 2)) else 0

/-- the bounding slice lies inside the plane and contains the support of the mask (what `boundary_slice` delivers) -/
def Seg.covers (S0 S1 : Int) (g : Seg) : Prop :=
  0 ≤ g.s.r0 ∧ g.s.r1 ≤ S0 ∧ 0 ≤ g.s.c0 ∧ g.s.c1 ≤ S1 ∧
  ∀ i j, 0 ≤ i → i < S0 → 0 ≤ j → j < S1 → g.m i j = true → g.s.r0 ≤ i ∧ i < g.s.r1 ∧ g.s.c0 ≤ j ∧ j < g.s.c1

/-- the phasor field of a segment embeds to the segment's transmission, whatever the bounding slice (as long as it
covers the support): the mask factor zeroes the foreign pixels inside the box -/
theorem segPhasor_emb [MulZeroClass K] (ph : R → K) (amp : Attr K) (opd : Attr R) (S0 S1 : Int) (g : Seg)
    (hc : g.covers S0 S1) (r c : Int) :
    (segPhasor ph amp opd S0 S1 g).emb r c = segFactor ph amp opd S0 S1 g.m r c := by
  obtain ⟨h1, h2, h3, h4, hcov⟩ := hc
  have key : (segPhasor ph amp opd S0 S1 g).emb r c =
      if g.s.r0 ≤ r + S0 / 2 ∧ r + S0 / 2 < g.s.r1 ∧ g.s.c0 ≤ c + S1 / 2 ∧ c + S1 / 2 < g.s.c1
      then maskMul (g.m (r + S0 / 2) (c + S1 / 2)) (amp.at (r + S0 / 2) (c + S1 / 2)) * ph (opd.at (r + S0 / 2) (c + S1 / 2))
      else 0 := by
    unfold segPhasor
    simp only []
    rw [emb_mk, slice_extent]
    unfold embAt
    by_cases h : g.s.r0 ≤ r + S0 / 2 ∧ r + S0 / 2 < g.s.r1 ∧ g.s.c0 ≤ c + S1 / 2 ∧ c + S1 / 2 < g.s.c1
    · have hin : (Extent.mk (g.s.r0 - S0 / 2) (g.s.r1 - 1 - S0 / 2) (g.s.c0 - S1 / 2) (g.s.c1 - 1 - S1 / 2)).inb r c = true := by
        rw [Extent.inb_iff]; simp only; omega
      rw [if_pos hin, if_pos h]
      have e1 : r - (g.s.r0 - S0 / 2) + g.s.r0 = r + S0 / 2 := by omega
      have e2 : c - (g.s.c0 - S1 / 2) + g.s.c0 = c + S1 / 2 := by omega
      simp only [e1, e2]
    · have hin : ¬ (Extent.mk (g.s.r0 - S0 / 2) (g.s.r1 - 1 - S0 / 2) (g.s.c0 - S1 / 2) (g.s.c1 - 1 - S1 / 2)).inb r c = true := by
        rw [Extent.inb_iff]; simp only; omega
      rw [if_neg hin, if_neg h]
  rw [key]
  unfold segFactor maskMul
  by_cases hm : g.m (r + S0 / 2) (c + S1 / 2) = true
  · by_cases hr : 0 ≤ r + S0 / 2 ∧ r + S0 / 2 < S0 ∧ 0 ≤ c + S1 / 2 ∧ c + S1 / 2 < S1
    · have := hcov _ _ hr.1 hr.2.1 hr.2.2.1 hr.2.2.2 hm
      have hh : 0 ≤ r + S0 / 2 ∧ r + S0 / 2 < S0 ∧ 0 ≤ c + S1 / 2 ∧ c + S1 / 2 < S1 ∧ g.m (r + S0 / 2) (c + S1 / 2) = true :=
        ⟨hr.1, hr.2.1, hr.2.2.1, hr.2.2.2, hm⟩
      rw [if_pos this, if_pos hh, if_pos hm]
    · have h1' : ¬ (g.s.r0 ≤ r + S0 / 2 ∧ r + S0 / 2 < g.s.r1 ∧ g.s.c0 ≤ c + S1 / 2 ∧ c + S1 / 2 < g.s.c1) := by omega
      have h2' : ¬ (0 ≤ r + S0 / 2 ∧ r + S0 / 2 < S0 ∧ 0 ≤ c + S1 / 2 ∧ c + S1 / 2 < S1 ∧ g.m (r + S0 / 2) (c + S1 / 2) = true) := by
        intro hh; exact hr ⟨hh.1, hh.2.1, hh.2.2.1, hh.2.2.2.1⟩
      rw [if_neg h1', if_neg h2']
  · have h2' : ¬ (0 ≤ r + S0 / 2 ∧ r + S0 / 2 < S0 ∧ 0 ≤ c + S1 / 2 ∧ c + S1 / 2 < S1 ∧ g.m (r + S0 / 2) (c + S1 / 2) = true) := by
      intro hh; exact hm hh.2.2.2.2
    rw [if_neg h2', if_neg hm, zero_mul]
    split <;> rfl

end Lentil

namespace Lentil
variable {K R : Type}

/-- the transmission of a whole plane at a global coordinate: the sum of its phasors, one-element phasors read as
constants -/
def planeT [Add K] [Mul K] [Zero K] (ph : R → K) (p : PlaneM K R) (r c : Int) : K :=
  sumList (planePhasors ph p) (fun q => q.sem r c)

/-- side conditions along a chain of planes: shapes are positive, no product pairs two one-element operands, and no
intermediate field has exactly one element (the scope exclusion of the known finding `one-pixel-segment`) -/
def ChainOK [Zero K] [Mul K] (ph : R → K) : List (PlaneM K R) → List (Fld K) → Prop
  | [], _ => True
  | p :: ps, data =>
    (∀ f ∈ data, 0 < f.arr.s0 ∧ 0 < f.arr.s1) ∧ (∀ q ∈ planePhasors ph p, 0 < q.arr.s0 ∧ 0 < q.arr.s1) ∧
    (∀ f ∈ data, ∀ q ∈ planePhasors ph p, (f.size1 && q.size1) = false) ∧
    (∀ g ∈ planeMultiply ph p data, g.size1 = false) ∧ ChainOK ph ps (planeMultiply ph p data)

theorem segFactor_congr [Zero K] [Mul K] (ph : R → K) (amp : Attr K) (opd : Attr R) (S0 S1 : Int) (m m' : Int → Int → Bool)
    (r c : Int) (h : m (r + S0 / 2) (c + S1 / 2) = m' (r + S0 / 2) (c + S1 / 2)) :
    segFactor ph amp opd S0 S1 m r c = segFactor ph amp opd S0 S1 m' r c := by
  unfold segFactor; rw [h]

end Lentil

namespace Lentil
variable {K : Type}

/-- an array field times a one-element field is never dropped and keeps the array's extent -/
theorem mul_const_some [Mul K] (f q : Fld K) (hf : f.size1 = false) (hq : q.size1 = true)
    (hpos : 0 < f.arr.s0 ∧ 0 < f.arr.s1) :
    ∃ p, f.mul q = some p ∧ p.extent = f.extent := by
  have hv := f.extent_valid hpos
  have hint : intersect f.extent f.extent = true := by rw [intersect_iff']; omega
  have hbe : (q.broadcastTo f).extent = f.extent := rfl
  have h1 : f.mul q = f.mulArr (q.broadcastTo f) := by
    rw [Fld.mul_closed]
    simp only [hf, hq, Bool.false_and, Bool.false_eq_true, if_false, if_true]
  rw [h1]
  unfold Fld.mulArr
  simp only [hbe, hint, if_true]
  refine ⟨_, rfl, ?_⟩
  show arrayExtent _ _ _ _ = _
  rw [mulArr_extent f.extent f.extent hint, intersectionExtent_eq]
  cases hfe : f.extent; simp

/-- an array field times a one-element field of value 1 is the array field itself (literally: same shape, offset, samples) -/
theorem mul_one_field [MulOneClass K] (f q : Fld K) (hf : f.size1 = false) (hq : q.size1 = true)
    (hpos : 0 < f.arr.s0 ∧ 0 < f.arr.s1) (h1 : ∀ x : K, x * q.arr.get 0 0 = x) : f.mul q = some f := by
  have hv := f.extent_valid hpos
  have hint : intersect f.extent f.extent = true := by rw [intersect_iff']; omega
  have hbe : (q.broadcastTo f).extent = f.extent := rfl
  have hm : f.mul q = f.mulArr (q.broadcastTo f) := by
    rw [Fld.mul_closed]
    simp only [hf, hq, Bool.false_and, Bool.false_eq_true, if_false, if_true]
  rw [hm]
  unfold Fld.mulArr
  simp only [hbe, hint, if_true, Option.some.injEq]
  obtain ⟨hs, hsh⟩ := self_slices f.extent
  rw [hs, hsh]
  obtain ⟨⟨s0, s1, get⟩, o0, o1⟩ := f
  have he : (Fld.mk ⟨s0, s1, get⟩ o0 o1).extent = ⟨-(s0 / 2) + o0, -(s0 / 2) + o0 + s0 - 1, -(s1 / 2) + o1, -(s1 / 2) + o1 + s1 - 1⟩ :=
    arrayExtent_eq _ _ _ _
  rw [he]
  simp only [Fld.broadcastTo, Fld.mk.injEq, Arr.mk.injEq]
  refine ⟨⟨by omega, by omega, ?_⟩, by omega, by omega⟩
  funext i j
  simp only [Int.add_zero]
  exact h1 _

theorem extent_shape_eq (p f : Fld K) (h : p.extent = f.extent) : p.arr.s0 = f.arr.s0 ∧ p.arr.s1 = f.arr.s1 := by
  unfold Fld.extent at h
  rw [arrayExtent_eq, arrayExtent_eq, Extent.mk.injEq] at h
  omega

end Lentil

/-! ### the hand model of `boundary_slice` covers the support -/
namespace Lentil

theorem firstTrueIdx_spec (p : Nat → Bool) (n i : Nat) (h : firstTrueIdx p n = some i) : i < n ∧ p i = true := by
  induction n with
  | zero => simp [firstTrueIdx] at h
  | succ n ih =>
    unfold firstTrueIdx at h
    cases hf : firstTrueIdx p n with
    | some j => rw [hf] at h; simp only [Option.some.injEq] at h; subst h; have := ih hf; exact ⟨by omega, this.2⟩
    | none =>
      rw [hf] at h
      by_cases hp : p n = true
      · simp only [hp, if_true, Option.some.injEq] at h; subst h; exact ⟨by omega, hp⟩
      · simp [hp] at h

theorem firstTrueIdx_le (p : Nat → Bool) (n k : Nat) (hk : k < n) (hp : p k = true) : ∃ i, firstTrueIdx p n = some i ∧ i ≤ k := by
  induction n with
  | zero => omega
  | succ n ih =>
    unfold firstTrueIdx
    cases hf : firstTrueIdx p n with
    | some j =>
      by_cases hkn : k < n
      · obtain ⟨i, hi, hle⟩ := ih hkn; rw [hf] at hi; simp only [Option.some.injEq] at hi; subst hi; exact ⟨j, rfl, hle⟩
      · have := (firstTrueIdx_spec p n j hf).1; exact ⟨j, rfl, by omega⟩
    | none =>
      by_cases hkn : k < n
      · obtain ⟨i, hi, _⟩ := ih hkn; rw [hf] at hi; simp at hi
      · have : k = n := by omega
        subst this; simp only [hp, if_true]; exact ⟨k, rfl, Nat.le_refl _⟩

theorem lastTrueIdx_spec (p : Nat → Bool) (n i : Nat) (h : lastTrueIdx p n = some i) : i < n ∧ p i = true := by
  induction n with
  | zero => simp [lastTrueIdx] at h
  | succ n ih =>
    unfold lastTrueIdx at h
    by_cases hp : p n = true
    · simp only [hp, if_true, Option.some.injEq] at h; subst h; exact ⟨by omega, hp⟩
    · simp only [hp] at h; have := ih h; exact ⟨by omega, this.2⟩

theorem lastTrueIdx_ge (p : Nat → Bool) (n k : Nat) (hk : k < n) (hp : p k = true) : ∃ i, lastTrueIdx p n = some i ∧ k ≤ i := by
  induction n with
  | zero => omega
  | succ n ih =>
    unfold lastTrueIdx
    by_cases hpn : p n = true
    · simp only [hpn, if_true]; exact ⟨n, rfl, by omega⟩
    · simp only [hpn]
      have hkn : k < n := by
        by_cases h : k = n
        · subst h; exact absurd hp hpn
        · omega
      exact ih hkn

theorem anyBelowIdx_of (p : Nat → Bool) (n k : Nat) (hk : k < n) (hp : p k = true) : anyBelowIdx p n = true := by
  obtain ⟨i, hi, _⟩ := firstTrueIdx_le p n k hk hp
  simp [anyBelowIdx, hi]

/-- **the model of `boundary_slice` covers the support**: whenever it returns a slice, the slice lies inside the array
and contains every set entry of the mask -/
theorem bboxSlice_covers (s0 s1 : Int) (m : Int → Int → Bool) (s : Slice2) (h : bboxSlice s0 s1 m = some s) :
    Seg.covers s0 s1 ⟨m, s⟩ := by
  unfold bboxSlice at h
  simp only [] at h
  split at h
  · rename_i r0 r1 c0 c1 h1 h2 h3 h4
    simp only [Option.some.injEq] at h; subst h
    have a1 := firstTrueIdx_spec _ _ _ h1
    have a2 := lastTrueIdx_spec _ _ _ h2
    have a3 := firstTrueIdx_spec _ _ _ h3
    have a4 := lastTrueIdx_spec _ _ _ h4
    refine ⟨by simp only; omega, by simp only; omega, by simp only; omega, by simp only; omega, ?_⟩
    intro i j hi0 hi1 hj0 hj1 hm
    have ei : ((i.toNat : Nat) : Int) = i := by omega
    have ej : ((j.toNat : Nat) : Int) = j := by omega
    have hrow : anyBelowIdx (fun j' : Nat => m (i.toNat : Nat) j') s1.toNat = true :=
      anyBelowIdx_of _ _ j.toNat (by omega) (by simp only [ei, ej]; exact hm)
    have hcol : anyBelowIdx (fun i' : Nat => m i' (j.toNat : Nat)) s0.toNat = true :=
      anyBelowIdx_of _ _ i.toNat (by omega) (by simp only [ei, ej]; exact hm)
    obtain ⟨x1, hx1, l1⟩ := firstTrueIdx_le (fun i' : Nat => anyBelowIdx (fun j' : Nat => m i' j') s1.toNat) s0.toNat i.toNat (by omega) hrow
    obtain ⟨x2, hx2, l2⟩ := lastTrueIdx_ge (fun i' : Nat => anyBelowIdx (fun j' : Nat => m i' j') s1.toNat) s0.toNat i.toNat (by omega) hrow
    obtain ⟨x3, hx3, l3⟩ := firstTrueIdx_le (fun j' : Nat => anyBelowIdx (fun i' : Nat => m i' j') s0.toNat) s1.toNat j.toNat (by omega) hcol
    obtain ⟨x4, hx4, l4⟩ := lastTrueIdx_ge (fun j' : Nat => anyBelowIdx (fun i' : Nat => m i' j') s0.toNat) s1.toNat j.toNat (by omega) hcol
    rw [h1] at hx1; rw [h2] at hx2; rw [h3] at hx3; rw [h4] at hx4
    simp only [Option.some.injEq] at hx1 hx2 hx3 hx4
    subst hx1 hx2 hx3 hx4
    simp only
    omega
  · simp at h


/-- every segment that `_plane_slice` (model `mkMask`) builds satisfies `Seg.covers` -/
theorem mkMask_covers (s0 s1 : Int) (ms : List (Int → Int → Bool)) (l : List Seg)
    (h : ms.mapM (fun m => (bboxSlice s0 s1 m).map fun s => (⟨m, s⟩ : Seg)) = some l) : ∀ g ∈ l, g.covers s0 s1 := by
  induction ms generalizing l with
  | nil => simp at h; subst h; simp
  | cons m ms ih =>
    rw [List.mapM_cons] at h
    cases hb : bboxSlice s0 s1 m with
    | none => simp [hb] at h
    | some s =>
      cases hr : ms.mapM (fun m => (bboxSlice s0 s1 m).map fun s => (⟨m, s⟩ : Seg)) with
      | none => simp [hb, hr] at h
      | some l' =>
        simp [hb, hr] at h
        subst h
        intro g hg
        rcases List.mem_cons.mp hg with rfl | hg
        · exact bboxSlice_covers s0 s1 m s hb
        · exact ih l' hr g hg

end Lentil

/-! ### the views in terms of the generated wiring -/
namespace Lentil
variable {K : Type}

theorem foldl_insertStep_some [Add K] [Mul K] (post : K → K) (w : K) (data : List (Fld K)) (out : Arr K) :
    (data.map some).foldl (insertStep post w) (some out) = some (data.foldl (fun o f => insertArr f o w post) out) := by
  induction data generalizing out with
  | nil => rfl
  | cons f fs ih => rw [List.map_cons, List.foldl_cons, List.foldl_cons]; exact ih _

/-- **`Wavefront.field` inserts every field of `self.data` (no `reduce`), complex samples, weight 1, into zeros** — true
of the generated `Gen.fieldWiring`; a change of that wiring in wavefront.py breaks this lemma -/
theorem wfField_eq [Add K] [Mul K] [Zero K] (one : K) (s0 s1 : Int) (data : List (Fld K)) :
    wfField one s0 s1 data = data.foldl (fun out f => insertArr f out one) (zerosArr s0 s1) := by
  unfold wfField viewRun
  simp only [Gen.fieldWiring, Bool.false_eq_true, if_false, if_true]
  rw [foldl_insertStep_some]
  rfl

/-- **`Wavefront.insert` iterates `reduce(self.data)` and inserts `|.|^2` times the caller's weight** (`Gen.insertWiring`) -/
theorem wfInsert_eq [Add K] [Mul K] [Zero K] (one : K) (nsq : K → K) (data : List (Fld K)) (out : Arr K) (w : K) :
    wfInsert one nsq data out w = (reduce data).foldl (insertStep nsq w) (some out) := by
  unfold wfInsert viewRun
  simp only [Gen.insertWiring, if_true, Bool.false_eq_true, if_false]

/-- **`Wavefront.intensity` is `insert` into zeros with weight 1** (`Gen.intensityWiring`: through `reduce`, `intensity=True`) -/
theorem wfIntensity_eq [Add K] [Mul K] [Zero K] (one : K) (nsq : K → K) (s0 s1 : Int) (data : List (Fld K)) :
    wfIntensity one nsq s0 s1 data = wfInsert one nsq data (zerosArr s0 s1) one := by
  rw [wfInsert_eq]
  unfold wfIntensity viewRun
  simp only [Gen.intensityWiring, if_true, Bool.false_eq_true, if_false]
  rfl

end Lentil

/-! ### concrete witnesses used by the non-vacuity examples and the known-finding lemmas of Props/C07, Props/C03 -/
namespace Lentil.Witness
open Lentil

/-- a one-pixel segment at pixel (1, 1) of a 5×5 plane -/
def g1 : Seg := ⟨fun i j => decide (i = 1) && decide (j = 1), ⟨1, 2, 1, 2⟩⟩
/-- a 2×3 block, rows 2..3, columns 2..4 -/
def g2 : Seg := ⟨fun i j => decide (2 ≤ i) && decide (i ≤ 3) && decide (2 ≤ j) && decide (j ≤ 4), ⟨2, 4, 2, 5⟩⟩
/-- a 1×4 strip in row 0 -/
def g3 : Seg := ⟨fun i j => decide (i = 0) && decide (j ≤ 3) && decide (0 ≤ j), ⟨0, 1, 0, 4⟩⟩
/-- the union of `g2` and `g3` with its bounding slice -/
def g23 : Seg := ⟨fun i j => [g2.m, g3.m].any (fun m => m i j), ⟨0, 4, 0, 5⟩⟩
/-- the union of `g1` and `g2` with its bounding slice -/
def g12 : Seg := ⟨fun i j => [g1.m, g2.m].any (fun m => m i j), ⟨1, 4, 1, 5⟩⟩
/-- the fresh wavefront's field -/
def w0 : Fld Int := ⟨⟨1, 1, fun _ _ => 1⟩, 0, 0⟩
/-- a 5×5 array field -/
def a55 : Fld Int := ⟨⟨5, 5, fun i j => i + 2 * j + 1⟩, 0, 0⟩
def ones55 : Fld Int := ⟨⟨5, 5, fun _ _ => 1⟩, 0, 0⟩
def ph1 : Int → Int := fun _ => 1

theorem g2_ok : g2.covers 5 5 ∧ (g2.s.r0 < g2.s.r1 ∧ g2.s.c0 < g2.s.c1 ∧ ¬ (g2.s.r1 - g2.s.r0 = 1 ∧ g2.s.c1 - g2.s.c0 = 1)) := by
  refine ⟨⟨by decide, by decide, by decide, by decide, ?_⟩, by decide⟩
  intro i j _ _ _ _ h
  simp only [g2, Bool.and_eq_true, decide_eq_true_eq] at h ⊢
  omega

theorem g1_covers : g1.covers 5 5 := by
  refine ⟨by decide, by decide, by decide, by decide, ?_⟩
  intro i j _ _ _ _ h
  simp only [g1, Bool.and_eq_true, decide_eq_true_eq] at h ⊢
  omega

theorem g23_disjoint : ([g2, g3].map Seg.m).Pairwise (fun a b => ∀ i j, ¬ (a i j = true ∧ b i j = true)) := by
  simp only [List.map_cons, List.map_nil, List.pairwise_cons, List.mem_cons, List.not_mem_nil, or_false, forall_eq,
    List.Pairwise.nil, and_true]
  refine ⟨?_, by simp⟩
  intro i j h
  simp only [g2, g3, Bool.and_eq_true, decide_eq_true_eq] at h
  omega

theorem g12_disjoint : ([g1, g2].map Seg.m).Pairwise (fun a b => ∀ i j, ¬ (a i j = true ∧ b i j = true)) := by
  simp only [List.map_cons, List.map_nil, List.pairwise_cons, List.mem_cons, List.not_mem_nil, or_false, forall_eq,
    List.Pairwise.nil, and_true]
  refine ⟨?_, by simp⟩
  intro i j h
  simp only [g1, g2, Bool.and_eq_true, decide_eq_true_eq] at h
  omega

theorem chain_ok : ChainOK ph1 [(⟨.scalar 2, .scalar 0, .segs 5 5 [g2, g3]⟩ : PlaneM Int Int)] [w0] := by
  refine ⟨?_, ?_, ?_, ?_, trivial⟩
  · intro f hf; simp only [List.mem_cons, List.not_mem_nil, or_false] at hf; subst hf; decide
  · intro q hq; simp only [planePhasors, List.map_cons, List.map_nil, List.mem_cons, List.not_mem_nil, or_false] at hq
    rcases hq with rfl | rfl <;> decide
  · intro f hf q hq
    simp only [planePhasors, List.map_cons, List.map_nil, List.mem_cons, List.not_mem_nil, or_false] at hq hf
    subst hf
    rcases hq with rfl | rfl <;> rfl
  · intro g hg
    have h : (planeMultiply ph1 (⟨.scalar 2, .scalar 0, .segs 5 5 [g2, g3]⟩ : PlaneM Int Int) [w0]).all
        (fun g => !g.size1) = true := by rfl
    have := List.all_eq_true.mp h g hg
    simpa using this

end Lentil.Witness
