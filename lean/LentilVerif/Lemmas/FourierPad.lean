import LentilVerif.Lemmas.Fourier
/-! Zero-padding lemmas for `dft2` (C01 `dft2_subarray_offset`; meant for reuse by C03): the transform of an array
embedded with an integer offset on a larger zero canvas (origin at `⌊S/2⌋`) is the transform of the array itself with
that offset. This file does not depend on the generated extent kernel; `Lemmas/FourierEmbed.lean` bridges to `Fld.emb`. -/
open Finset
namespace Lentil

theorem sum_range_shift' {A : Type*} [AddCommMonoid A] (g : ℤ → A) (M : ℕ) (U0 : ℤ) :
    ∑ u ∈ range M, g (U0 + u) = ∑ U ∈ Finset.Ico U0 (U0 + M), g U := by
  refine Finset.sum_nbij' (fun u => U0 + (u : ℤ)) (fun U => (U - U0).toNat) ?_ ?_ ?_ ?_ ?_
  · intro u hu; simp only [mem_range, mem_Ico] at hu ⊢; omega
  · intro U hU; simp only [mem_range, mem_Ico] at hU ⊢; omega
  · intro u _; simp
  · intro U hU; simp only [mem_Ico] at hU; omega
  · intro u _; rfl

/-- a sum over a canvas axis of samples that vanish outside `[lo, lo+m)` is the sum over the `m` embedded samples -/
theorem sum_embed (S m : ℕ) (lo : ℤ) (h0 : 0 ≤ lo) (h1 : lo + m ≤ S) (T F : ℤ → ℂ) :
    ∑ i ∈ range S, F i * (if lo ≤ (i : ℤ) ∧ (i : ℤ) ≤ lo + m - 1 then T ((i : ℤ) - lo) else 0)
      = ∑ x ∈ range m, F ((x : ℤ) + lo) * T x := by
  have hL := sum_range_shift' (fun z => F z * (if lo ≤ z ∧ z ≤ lo + m - 1 then T (z - lo) else 0)) S 0
  have hR := sum_range_shift' (fun z => F z * T (z - lo)) m lo
  simp only [zero_add] at hL
  rw [hL]
  have hR' : ∑ x ∈ range m, F ((x : ℤ) + lo) * T x = ∑ U ∈ Finset.Ico lo (lo + m), F U * T (U - lo) := by
    rw [← hR]; exact sum_congr rfl fun x _ => by rw [add_comm]; congr 2; ring
  rw [hR']
  symm
  rw [← Finset.sum_subset (s₁ := Finset.Ico lo (lo + m)) (s₂ := Finset.Ico 0 (S : ℤ))
    (f := fun z => F z * (if lo ≤ z ∧ z ≤ lo + m - 1 then T (z - lo) else 0))]
  · exact sum_congr rfl fun z hz => by
      simp only [mem_Ico] at hz; rw [if_pos ⟨hz.1, by omega⟩]
  · intro z hz; simp only [mem_Ico] at hz ⊢; omega
  · intro z _ hz; simp only [mem_Ico] at hz; rw [if_neg (by omega), mul_zero]

theorem ker_embed (α : ℝ) (S m M : ℤ) (o : ℤ) (sh : ℝ) (x u : ℤ) :
    ker α S M 0 sh (x + (S / 2 - m / 2 + o)) u = ker α m M o sh x u := by
  unfold ker cc; congr 1; push_cast; ring

/-- `f` placed with integer offset `(o0, o1)` on an `S0 × S1` canvas of zeros, both origins at index `⌊n/2⌋`: canvas
index `i` holds sample `i - (⌊S0/2⌋ - ⌊m/2⌋ + o0)` of `f` when that is inside `f` -/
def padded (f : Arr ℂ) (o0 o1 S0 S1 : ℤ) : Arr ℂ :=
  { s0 := S0, s1 := S1,
    get := fun i j =>
      if S0 / 2 - f.s0 / 2 + o0 ≤ i ∧ i ≤ S0 / 2 - f.s0 / 2 + o0 + f.s0 - 1 then
        (if S1 / 2 - f.s1 / 2 + o1 ≤ j ∧ j ≤ S1 / 2 - f.s1 / 2 + o1 + f.s1 - 1 then
          f.get (i - (S0 / 2 - f.s0 / 2 + o0)) (j - (S1 / 2 - f.s1 / 2 + o1)) else 0)
      else 0 }

theorem dft2_padded (f : Arr ℂ) (m n S0 S1 : ℕ) (hm : f.s0 = m) (hn : f.s1 = n) (o0 o1 : ℤ)
    (hr : 0 ≤ (S0 : ℤ) / 2 - (m : ℤ) / 2 + o0 ∧ (S0 : ℤ) / 2 - (m : ℤ) / 2 + o0 + m ≤ S0)
    (hc : 0 ≤ (S1 : ℤ) / 2 - (n : ℤ) / 2 + o1 ∧ (S1 : ℤ) / 2 - (n : ℤ) / 2 + o1 + n ≤ S1)
    (αr αc : ℝ) (M N : ℤ) (shr shc : ℝ) (unitary : Bool) (u v : ℤ) :
    (dft2 (padded f o0 o1 S0 S1) αr αc M N shr shc 0 0 unitary).get u v
      = (dft2 f αr αc M N shr shc o0 o1 unitary).get u v := by
  rw [dft2_get_eq, dft2_get_eq]
  congr 1
  unfold dft2Sum
  have e0 : (padded f o0 o1 (S0 : ℤ) (S1 : ℤ)).s0 = S0 := rfl
  have e1 : (padded f o0 o1 (S0 : ℤ) (S1 : ℤ)).s1 = S1 := rfl
  simp only [e0, e1, Int.toNat_natCast]
  simp only [padded, hm, hn, Int.toNat_natCast]
  set lo0 : ℤ := (S0 : ℤ) / 2 - (m : ℤ) / 2 + o0 with hlo0
  set lo1 : ℤ := (S1 : ℤ) / 2 - (n : ℤ) / 2 + o1 with hlo1
  have inner : ∀ j : ℕ, ∑ i ∈ range S0, ker αr S0 M 0 shr i u *
        (if lo0 ≤ (i : ℤ) ∧ (i : ℤ) ≤ lo0 + m - 1 then
          (if lo1 ≤ (j : ℤ) ∧ (j : ℤ) ≤ lo1 + n - 1 then f.get ((i : ℤ) - lo0) ((j : ℤ) - lo1) else 0) else 0)
      = if lo1 ≤ (j : ℤ) ∧ (j : ℤ) ≤ lo1 + n - 1 then
          ∑ x ∈ range m, ker αr m M o0 shr x u * f.get x ((j : ℤ) - lo1) else 0 := by
    intro j
    rw [sum_embed S0 m lo0 hr.1 hr.2
      (fun z => if lo1 ≤ (j : ℤ) ∧ (j : ℤ) ≤ lo1 + n - 1 then f.get z ((j : ℤ) - lo1) else 0)
      (fun z => ker αr S0 M 0 shr z u)]
    simp only [hlo0, ker_embed]
    split_ifs
    · rfl
    · simp
  simp only [inner]
  have outer := sum_embed S1 n lo1 hc.1 hc.2 (fun y => ∑ x ∈ range m, ker αr m M o0 shr x u * f.get x y)
    (fun z => ker αc S1 N 0 shc z v)
  rw [sum_congr rfl (fun j _ => mul_comm _ _), outer]
  simp only [hlo1, ker_embed]
  exact sum_congr rfl fun y _ => mul_comm _ _

end Lentil
