import LentilVerif.Lemmas.PropLinear
import LentilVerif.Lemmas.Pad
import LentilVerif.Lemmas.Propagate
/-! Bridge for C09: `dft2` of the padded `S0 x S1` grid that `propagate_fft` transforms equals the sum over the wavefront's
fields of `dft2` of each field with its own offset (what `propagate_dft` computes per field), by the additivity of the
transform in the embedded field (`Lemmas/PropLinear.lean`, C03). -/
namespace Lentil

section
variable {K : Type} [CommRing K]

theorem sumList_eq_listSum {α : Type} (l : List α) (f : α → K) : sumList l f = (l.map f).sum := by
  induction l with
  | nil => rfl
  | cons x xs ih => rw [sumL_cons, ih]; simp

/-- the padded grid (through a scratch buffer or through `pad(Wavefront.field)`) holds, at every grid index, the sum of
the fields' values at the global coordinate of that index -/
theorem fftGrid_get (fs : List (Fld K)) (W0 W1 S0 S1 : Int) (s : Option (Arr K))
    (hW : 0 ≤ W0 ∧ W0 ≤ S0 ∧ 0 ≤ W1 ∧ W1 ≤ S1) (hfit : ∀ f ∈ fs, f.within W0 W1)
    (i j : Int) (hi : 0 ≤ i ∧ i < S0) (hj : 0 ≤ j ∧ j < S1) :
    (fftGrid 1 fs W0 W1 S0 S1 s).get i j = (fs.map fun f => f.emb (i - S0 / 2) (j - S1 / 2)).sum := by
  have hsome : ∀ scr : Arr K, (fftGrid 1 fs W0 W1 S0 S1 (some scr)).get i j = (fs.map fun f => f.emb (i - S0 / 2) (j - S1 / 2)).sum := by
    intro scr
    unfold fftGrid
    rw [foldInsert_get fs (zeroedCorner scr S0 S1) i j hi hj, zeroedCorner_get scr S0 S1 i j hi hj, zero_add]
    rfl
  cases s with
  | some scr => exact hsome scr
  | none => rw [← scratch_eq_pad fs W0 W1 S0 S1 ⟨0, 0, fun _ _ => 0⟩ hW hfit i j hi hj]; exact hsome _

theorem fftGrid_shape (fs : List (Fld K)) (W0 W1 S0 S1 : Int) (s : Option (Arr K)) :
    (fftGrid 1 fs W0 W1 S0 S1 s).s0 = S0 ∧ (fftGrid 1 fs W0 W1 S0 S1 s).s1 = S1 := by
  cases s with
  | none => exact ⟨rfl, rfl⟩
  | some scr => exact foldInsert_shape fs (zeroedCorner scr S0 S1) 1

/-- as a field at offset 0, the grid is the total embedding of the fields on the whole plane -/
theorem fftGrid_emb (fs : List (Fld K)) (W0 W1 S0 S1 : Int) (s : Option (Arr K))
    (hW : 0 ≤ W0 ∧ W0 ≤ S0 ∧ 0 ≤ W1 ∧ W1 ≤ S1) (hfit : ∀ f ∈ fs, f.within W0 W1) (r c : Int) :
    (Fld.mk (fftGrid 1 fs W0 W1 S0 S1 s) 0 0).emb r c = sumList fs (fun f => f.emb r c) := by
  rw [sumList_eq_listSum]
  unfold Fld.emb embAt
  simp only [Fld.extent, (fftGrid_shape fs W0 W1 S0 S1 s).1, (fftGrid_shape fs W0 W1 S0 S1 s).2]
  by_cases hin : (arrayExtent S0 S1 0 0).inb r c = true
  · simp only [hin, if_true]
    have hin' := hin
    rw [Extent.inb_iff, arrayExtent_eq] at hin'; simp only at hin'
    rw [arrayExtent_eq]; simp only
    rw [fftGrid_get fs W0 W1 S0 S1 s hW hfit _ _ (by omega) (by omega)]
    congr 1
    apply List.map_congr_left; intro f _
    congr 1 <;> omega
  · simp only [hin, Bool.false_eq_true, if_false]
    symm
    apply List.sum_eq_zero
    intro x hx
    obtain ⟨f, hf, rfl⟩ := List.mem_map.mp hx
    apply emb_zero_outside f W0 W1 (hfit f hf)
    intro hc; apply hin
    rw [Extent.inb_iff, arrayExtent_eq] at hc ⊢; simp only at hc ⊢; omega

theorem wavefrontField_shape (fs : List (Fld K)) (W0 W1 : Int) :
    (wavefrontField 1 fs W0 W1).s0 = W0 ∧ (wavefrontField 1 fs W0 W1).s1 = W1 :=
  foldInsert_shape fs ({ s0 := W0, s1 := W1, get := fun _ _ => (0 : K) } : Arr K) (1 : K)

/-- `Wavefront.field` of a wavefront whose fields lie on its canvas, as a field at offset 0, is the total embedding of the
fields on the whole plane -/
theorem canvas_emb (fs : List (Fld K)) (W0 W1 : Int) (hfit : ∀ f ∈ fs, f.within W0 W1) (r c : Int) :
    (Fld.mk (wavefrontField 1 fs W0 W1) 0 0).emb r c = sumList fs (fun f => f.emb r c) := by
  rw [sumList_eq_listSum]
  unfold Fld.emb embAt
  simp only [Fld.extent, (wavefrontField_shape fs W0 W1).1, (wavefrontField_shape fs W0 W1).2]
  by_cases hin : (arrayExtent W0 W1 0 0).inb r c = true
  · simp only [hin, if_true]
    have hin' := hin
    rw [Extent.inb_iff, arrayExtent_eq] at hin'; simp only at hin'
    rw [arrayExtent_eq]; simp only
    rw [wavefrontField_get fs W0 W1 _ _ (by omega) (by omega)]
    congr 1
    apply List.map_congr_left; intro f _
    congr 1 <;> omega
  · simp only [hin, Bool.false_eq_true, if_false]
    symm
    apply List.sum_eq_zero
    intro x hx
    obtain ⟨f, hf, rfl⟩ := List.mem_map.mp hx
    exact emb_zero_outside f W0 W1 (hfit f hf) r c hin
end

section
variable {K R : Type} [Add R] [Sub R] [Mul R] [Neg R] [RealLike R] [CommRing K] [CxLike K R]

/-- **`dft2` of `Wavefront.field` = sum over the fields of `dft2` of each field with its offset** -/
theorem dft2_canvas (fs : List (Fld K)) (W0 W1 : Int) (hWp : 0 < W0 ∧ 0 < W1) (hfit : ∀ f ∈ fs, f.within W0 W1)
    (hpos : ∀ f ∈ fs, 0 < f.arr.s0 ∧ 0 < f.arr.s1)
    (αr αc : R) (M N : Int) (shr shc : R) (un : Bool) (u v : Int) :
    (dft2 (wavefrontField 1 fs W0 W1) αr αc M N shr shc 0 0 un).get u v =
      (fs.map fun f => (dft2 f.arr αr αc M N shr shc f.o0 f.o1 un).get u v).sum := by
  have hfalse : (dft2 (wavefrontField 1 fs W0 W1) αr αc M N shr shc 0 0 false).get u v =
      sumList fs (fun f => (dft2 f.arr αr αc M N shr shc f.o0 f.o1 false).get u v) := by
    obtain ⟨R0, H, C0, W, hbox⟩ := exists_box (Fld.mk (wavefrontField 1 fs W0 W1) 0 0 :: fs)
    have hg := dft2_eq_boxDft (Fld.mk (wavefrontField 1 fs W0 W1) 0 0)
      (by simp only [(wavefrontField_shape fs W0 W1).1, (wavefrontField_shape fs W0 W1).2]; exact hWp)
      αr αc M N shr shc u v R0 H C0 W (hbox _ List.mem_cons_self)
    simp only at hg
    rw [hg, sum_dft2_eq_boxDft fs hpos αr αc M N shr shc u v R0 H C0 W (fun f hf => hbox f (List.mem_cons_of_mem _ hf))]
    exact boxDft_congr _ _ (canvas_emb fs W0 W1 hfit) αr αc M N shr shc u v R0 H C0 W
  cases un with
  | false => rw [hfalse, sumList_eq_listSum]
  | true =>
    have hscale : ∀ (a : Arr K) (o0 o1 : Int), (dft2 a αr αc M N shr shc o0 o1 true).get u v
        = (dft2 a αr αc M N shr shc o0 o1 false).get u v * CxLike.ofReal (RealLike.sqrt (RealLike.abs (αr * αc))) := by
      intro a o0 o1; unfold dft2; simp
    rw [hscale, hfalse, sumList_eq_listSum, ← List.sum_map_mul_right]
    simp only [hscale]

/-- **`dft2` of the padded grid = sum over the fields of `dft2` of each field with its offset** (any sampling ratios, output
shape, shifts, either flag) -/
theorem dft2_fftGrid (fs : List (Fld K)) (W0 W1 S0 S1 : Int) (s : Option (Arr K)) (hS : 0 < S0 ∧ 0 < S1)
    (hW : 0 ≤ W0 ∧ W0 ≤ S0 ∧ 0 ≤ W1 ∧ W1 ≤ S1) (hfit : ∀ f ∈ fs, f.within W0 W1)
    (hpos : ∀ f ∈ fs, 0 < f.arr.s0 ∧ 0 < f.arr.s1)
    (αr αc : R) (M N : Int) (shr shc : R) (un : Bool) (u v : Int) :
    (dft2 (fftGrid 1 fs W0 W1 S0 S1 s) αr αc M N shr shc 0 0 un).get u v =
      (fs.map fun f => (dft2 f.arr αr αc M N shr shc f.o0 f.o1 un).get u v).sum := by
  -- un-normalised statement through the box transform
  have hfalse : (dft2 (fftGrid 1 fs W0 W1 S0 S1 s) αr αc M N shr shc 0 0 false).get u v =
      sumList fs (fun f => (dft2 f.arr αr αc M N shr shc f.o0 f.o1 false).get u v) := by
    obtain ⟨R0, H, C0, W, hbox⟩ := exists_box (Fld.mk (fftGrid 1 fs W0 W1 S0 S1 s) 0 0 :: fs)
    have hg := dft2_eq_boxDft (Fld.mk (fftGrid 1 fs W0 W1 S0 S1 s) 0 0)
      (by simp only [(fftGrid_shape fs W0 W1 S0 S1 s).1, (fftGrid_shape fs W0 W1 S0 S1 s).2]; exact hS)
      αr αc M N shr shc u v R0 H C0 W (hbox _ List.mem_cons_self)
    simp only at hg
    rw [hg, sum_dft2_eq_boxDft fs hpos αr αc M N shr shc u v R0 H C0 W (fun f hf => hbox f (List.mem_cons_of_mem _ hf))]
    exact boxDft_congr _ _ (fftGrid_emb fs W0 W1 S0 S1 s hW hfit) αr αc M N shr shc u v R0 H C0 W
  cases un with
  | false => rw [hfalse, sumList_eq_listSum]
  | true =>
    have hscale : ∀ (a : Arr K) (o0 o1 : Int), (dft2 a αr αc M N shr shc o0 o1 true).get u v
        = (dft2 a αr αc M N shr shc o0 o1 false).get u v * CxLike.ofReal (RealLike.sqrt (RealLike.abs (αr * αc))) := by
      intro a o0 o1; unfold dft2; simp
    rw [hscale, hfalse, sumList_eq_listSum, ← List.sum_map_mul_right]
    simp only [hscale]
end

end Lentil
