import LentilVerif.Model.Plane
import LentilVerif.Gen.PlaneLoop
import LentilVerif.Gen.Helper20
import LentilVerif.Gen.PlaneGeom
/-! Vocabulary and core-only (`omega`) lemmas that relate the hand model of the loop body of `Plane.multiply`
(`segPhasor`, `bboxSlice` in Model/Plane.lean) to the definitions regenerated from the source: `Gen.planeLoop*`
(plane.py, the loop body) and `Gen.boundarySlice` (helper.py). Property theorems are in Props/C07 and Props/C03. -/
namespace Lentil

/-- `attr.size` as NumPy reports it: 1 for a 0-d attribute, rows·columns for an array -/
def Attr.npSize {α} (a : Attr α) : Int :=
  match a with
  | .scalar _ => 1
  | .array x => x.s0 * x.s1

/-- the attribute used whole (`self.amplitude`, `self.opd` without `[s]`): the value NumPy broadcasts when it has one
element -/
def Attr.whole {α} (a : Attr α) : α :=
  match a with
  | .scalar v => v
  | .array x => x.get 0 0

theorem firstTrueIdx_lt (p : Nat → Bool) : ∀ (n i : Nat), firstTrueIdx p n = some i → i < n
  | 0, i, h => by simp [firstTrueIdx] at h
  | n + 1, i, h => by
    unfold firstTrueIdx at h
    cases hf : firstTrueIdx p n with
    | some k =>
      rw [hf] at h
      have := firstTrueIdx_lt p n k hf
      simp only [Option.some.injEq] at h
      omega
    | none =>
      rw [hf] at h
      by_cases hp : p n = true
      · simp only [hp, if_true, Option.some.injEq] at h; omega
      · simp [hp] at h

theorem lastTrueIdx_lt (p : Nat → Bool) : ∀ (n i : Nat), lastTrueIdx p n = some i → i < n
  | 0, i, h => by simp [lastTrueIdx] at h
  | n + 1, i, h => by
    unfold lastTrueIdx at h
    by_cases hp : p n = true
    · simp only [hp, if_true, Option.some.injEq] at h; omega
    · simp only [hp] at h
      have := lastTrueIdx_lt p n i (by simpa using h)
      omega

/-- closed form of the regenerated `helper.boundary_slice` at `pad = (0, 0)` for bounds inside the array -/
theorem boundarySlice_pad0 (rmin rmax cmin cmax S0 S1 : Int) (h : 0 ≤ rmin ∧ rmax < S0 ∧ 0 ≤ cmin ∧ cmax < S1) :
    Gen.boundarySlice rmin rmax cmin cmax S0 S1 0 0 = ((rmin, rmax + 1), (cmin, cmax + 1)) := by
  simp only [Gen.boundarySlice]
  have e1 : max (rmin - 0) (0 : Int) = rmin := by omega
  have e2 : min (rmax + 0 + 1) S0 = rmax + 1 := by omega
  have e3 : max (cmin - 0) (0 : Int) = cmin := by omega
  have e4 : min (cmax + 0 + 1) S1 = cmax + 1 := by omega
  rw [e1, e2, e3, e4]

/-- the bounding slice of the hand model is the regenerated `boundary_slice` (pad 0) of the first/last row and column
that hold a set entry (what `lentil.util.boundary` returns) -/
theorem bboxSlice_eq_gen (s0 s1 : Int) (m : Int → Int → Bool) (s : Slice2) (h : bboxSlice s0 s1 m = some s) :
    ∃ rmin rmax cmin cmax : Nat,
      firstTrueIdx (fun i => anyBelowIdx (fun j => m i j) s1.toNat) s0.toNat = some rmin ∧
      lastTrueIdx (fun i => anyBelowIdx (fun j => m i j) s1.toNat) s0.toNat = some rmax ∧
      firstTrueIdx (fun j => anyBelowIdx (fun i => m i j) s0.toNat) s1.toNat = some cmin ∧
      lastTrueIdx (fun j => anyBelowIdx (fun i => m i j) s0.toNat) s1.toNat = some cmax ∧
      Gen.boundarySlice rmin rmax cmin cmax s0 s1 0 0 = ((s.r0, s.r1), (s.c0, s.c1)) := by
  unfold bboxSlice at h
  simp only [] at h
  cases h1 : firstTrueIdx (fun i : Nat => anyBelowIdx (fun j : Nat => m i j) s1.toNat) s0.toNat with
  | none => simp [h1] at h
  | some rmin =>
  cases h2 : lastTrueIdx (fun i : Nat => anyBelowIdx (fun j : Nat => m i j) s1.toNat) s0.toNat with
  | none => simp [h1, h2] at h
  | some rmax =>
  cases h3 : firstTrueIdx (fun j : Nat => anyBelowIdx (fun i : Nat => m i j) s0.toNat) s1.toNat with
  | none => simp [h1, h2, h3] at h
  | some cmin =>
  cases h4 : lastTrueIdx (fun j : Nat => anyBelowIdx (fun i : Nat => m i j) s0.toNat) s1.toNat with
  | none => simp [h1, h2, h3, h4] at h
  | some cmax =>
  simp only [h1, h2, h3, h4, Option.some.injEq] at h
  refine ⟨rmin, rmax, cmin, cmax, rfl, rfl, rfl, rfl, ?_⟩
  have b2 := lastTrueIdx_lt _ _ _ h2
  have b4 := lastTrueIdx_lt _ _ _ h4
  rw [boundarySlice_pad0 _ _ _ _ _ _ ⟨by omega, by omega, by omega, by omega⟩, ← h]

end Lentil

namespace Lentil

/-- every segment that `_plane_slice` (model `mkMask`) builds carries the bounding slice of its own mask -/
theorem mkMask_bbox (s0 s1 : Int) (ms : List (Int → Int → Bool)) (l : List Seg)
    (h : ms.mapM (fun m => (bboxSlice s0 s1 m).map fun s => (⟨m, s⟩ : Seg)) = some l) :
    ∀ g ∈ l, bboxSlice s0 s1 g.m = some g.s := by
  induction ms generalizing l with
  | nil => simp at h; subst h; simp
  | cons m ms ih =>
    rw [List.mapM_cons] at h
    cases hb : bboxSlice s0 s1 m with
    | none => simp [hb] at h
    | some s =>
      cases hr : ms.mapM (fun m => (bboxSlice s0 s1 m).map fun s => (⟨m, s⟩ : Seg)) with
      | none => simp [hb, hr] at h
      | some l' =>
        simp [hb, hr] at h
        subst h
        intro g hg
        rcases List.mem_cons.mp hg with rfl | hg
        · exact hb
        · exact ih l' hr g hg

end Lentil
