import LentilVerif.Model.Field
import LentilVerif.Lemmas.Extent
import Mathlib.Tactic.SplitIfs
import Mathlib.Algebra.GroupWithZero.Defs
import Mathlib.Algebra.Group.Basic
/-! Helper lemmas for the field model (C06, C07, C03). Property theorems are in Props/. -/
namespace Lentil
variable {K : Type}

theorem emb_mk [Zero K] (s0 s1 o0 o1 : Int) (g : Int → Int → K) (r c : Int) :
    (Fld.mk ⟨s0, s1, g⟩ o0 o1).emb r c = embAt (arrayExtent s0 s1 o0 o1) g r c := rfl

theorem Fld.extent_valid (a : Fld K) (ha : 0 < a.arr.s0 ∧ 0 < a.arr.s1) :
    a.extent.rmin ≤ a.extent.rmax ∧ a.extent.cmin ≤ a.extent.cmax := by
  simp only [Fld.extent, arrayExtent_eq]; omega

/-- closed form of the generated accumulation of `insert` (breaks when the `+=` statements of `insert` change) -/
theorem insertTerm_eq [Add K] [Mul K] (post : K → K) (o d w : K) : insertTerm post o d w = o + post d * w := rfl

/-! ### `Gen.insertIdx` (translated from `lentil.field.insert`) addresses exactly the part of the field inside the target -/

theorem insertIdx_none (s0 s1 o0 o1 S0 S1 : Int)
    (h : Gen.insertIdx s0 s1 o0 o1 S0 S1 = none) (i j : Int) (hi : 0 ≤ i ∧ i < S0) (hj : 0 ≤ j ∧ j < S1) :
    (arrayExtent s0 s1 o0 o1).inb (i - S0 / 2) (j - S1 / 2) = false := by
  rw [Bool.eq_false_iff]; intro hh; rw [Extent.inb_iff, arrayExtent_eq] at hh; simp only at hh
  unfold Gen.insertIdx at h
  simp only [] at h
  split_ifs at h <;> simp_all <;> omega

theorem insertIdx_some (s0 s1 o0 o1 S0 S1 : Int) (orow ocol frow fcol : Int × Int)
    (h : Gen.insertIdx s0 s1 o0 o1 S0 S1 = some ((orow, ocol), (frow, fcol))) (i j : Int)
    (hi : 0 ≤ i ∧ i < S0) (hj : 0 ≤ j ∧ j < S1) :
    (decide (orow.1 ≤ i) && decide (i < orow.2) && decide (ocol.1 ≤ j) && decide (j < ocol.2))
      = (arrayExtent s0 s1 o0 o1).inb (i - S0 / 2) (j - S1 / 2) ∧
    i - orow.1 + frow.1 = i - S0 / 2 - (arrayExtent s0 s1 o0 o1).rmin ∧
    j - ocol.1 + fcol.1 = j - S1 / 2 - (arrayExtent s0 s1 o0 o1).cmin := by
  rw [Bool.eq_iff_iff, Extent.inb_iff, arrayExtent_eq]
  simp only [Bool.and_eq_true, decide_eq_true_eq]
  unfold Gen.insertIdx at h
  simp only [] at h
  split_ifs at h <;> simp_all <;>
    (obtain ⟨⟨⟨h1, h2⟩, h3, h4⟩, ⟨h5, h6⟩, h7, h8⟩ := h; subst_vars; simp only; omega)

/-- the two slices of `out[out_slice] += field.data[field_slice]` are non-empty, inside their arrays and of equal shape
(this is what makes the NumPy statement well-formed; the model `insertArr` reads only the slice starts) -/
theorem insertIdx_wellformed (s0 s1 o0 o1 S0 S1 : Int) (orow ocol frow fcol : Int × Int)
    (h : Gen.insertIdx s0 s1 o0 o1 S0 S1 = some ((orow, ocol), (frow, fcol))) :
    (0 ≤ orow.1 ∧ orow.1 < orow.2 ∧ orow.2 ≤ S0) ∧ (0 ≤ ocol.1 ∧ ocol.1 < ocol.2 ∧ ocol.2 ≤ S1) ∧
    (0 ≤ frow.1 ∧ frow.2 ≤ s0) ∧ (0 ≤ fcol.1 ∧ fcol.2 ≤ s1) ∧
    frow.2 - frow.1 = orow.2 - orow.1 ∧ fcol.2 - fcol.1 = ocol.2 - ocol.1 := by
  unfold Gen.insertIdx at h
  simp only [] at h
  split_ifs at h <;> simp_all <;>
    (obtain ⟨⟨⟨h1, h2⟩, h3, h4⟩, ⟨h5, h6⟩, h7, h8⟩ := h; subst_vars; simp only; omega)

/-! ### sums as folds -/

theorem sumList_congr [Add K] [Zero K] {α} (l : List α) (f g : α → K) (h : ∀ x ∈ l, f x = g x) :
    sumList l f = sumList l g := by
  unfold sumList
  suffices ∀ acc : K, l.foldl (fun acc x => acc + f x) acc = l.foldl (fun acc x => acc + g x) acc from this 0
  induction l with
  | nil => intro acc; rfl
  | cons x xs ih =>
    intro acc
    simp only [List.foldl_cons]
    rw [h x (List.mem_cons_self ..)]
    exact ih (fun y hy => h y (List.mem_cons_of_mem _ hy)) _

theorem sumList_zero [AddZeroClass K] {α} (l : List α) : sumList l (fun _ => (0 : K)) = 0 := by
  unfold sumList
  induction l with
  | nil => rfl
  | cons x xs ih => simp only [List.foldl_cons, add_zero] at ih ⊢; exact ih


/-! ### `boundary` (fold of the generated step) and the merged box -/


def bstep (acc e : Extent) : Extent :=
  .ofT (Gen.boundaryStep acc.rmin acc.rmax acc.cmin acc.cmax e.rmin e.rmax e.cmin e.cmax)

theorem bstep_eq (acc e : Extent) :
    bstep acc e = ⟨if e.rmin < acc.rmin then e.rmin else acc.rmin, if e.rmax > acc.rmax then e.rmax else acc.rmax,
                   if e.cmin < acc.cmin then e.cmin else acc.cmin, if e.cmax > acc.cmax then e.cmax else acc.cmax⟩ := by
  simp [bstep, Gen.boundaryStep, Extent.ofT]

theorem bstep_proj (acc e : Extent) :
    (bstep acc e).rmin = (if e.rmin < acc.rmin then e.rmin else acc.rmin) ∧
    (bstep acc e).rmax = (if e.rmax > acc.rmax then e.rmax else acc.rmax) ∧
    (bstep acc e).cmin = (if e.cmin < acc.cmin then e.cmin else acc.cmin) ∧
    (bstep acc e).cmax = (if e.cmax > acc.cmax then e.cmax else acc.cmax) := by
  rw [bstep_eq]; exact ⟨rfl, rfl, rfl, rfl⟩

theorem boundaryL_eq (es : List Extent) : boundaryL es = es.foldl bstep (.ofT Gen.boundaryInit) := rfl

theorem fold_mono (es : List Extent) (acc : Extent) :
    (es.foldl bstep acc).rmin ≤ acc.rmin ∧ acc.rmax ≤ (es.foldl bstep acc).rmax ∧
    (es.foldl bstep acc).cmin ≤ acc.cmin ∧ acc.cmax ≤ (es.foldl bstep acc).cmax := by
  induction es generalizing acc with
  | nil => simp
  | cons e es ih =>
    simp only [List.foldl_cons]
    have := ih (bstep acc e)
    obtain ⟨p1, p2, p3, p4⟩ := bstep_proj acc e
    rw [p1, p2, p3, p4] at this
    split_ifs at this <;> omega

theorem fold_contains (es : List Extent) (acc : Extent) (e : Extent) (he : e ∈ es) :
    (es.foldl bstep acc).rmin ≤ e.rmin ∧ e.rmax ≤ (es.foldl bstep acc).rmax ∧
    (es.foldl bstep acc).cmin ≤ e.cmin ∧ e.cmax ≤ (es.foldl bstep acc).cmax := by
  induction es generalizing acc with
  | nil => cases he
  | cons x xs ih =>
    simp only [List.foldl_cons]
    rcases List.mem_cons.mp he with h | h
    · subst h
      have := fold_mono xs (bstep acc e)
      obtain ⟨p1, p2, p3, p4⟩ := bstep_proj acc e
      rw [p1, p2, p3, p4] at this
      split_ifs at this <;> omega
    · exact ih _ h

/-- the generated `_merge_shape` with `all0d = 0` (no 0-d-only collection) always returns a shape -/
theorem mergeShape_arrays (b : Extent) : ∃ shp, Gen.mergeShape b.rmin b.rmax b.cmin b.cmax 0 = some shp := by
  unfold Gen.mergeShape
  simp only []
  split_ifs <;> simp_all

theorem merge_box (b : Extent) (a : Int) (shp : Int × Int) (h : Gen.mergeShape b.rmin b.rmax b.cmin b.cmax a = some shp)
    (hv : b.rmin ≤ b.rmax ∧ b.cmin ≤ b.cmax) :
    arrayExtent shp.1 shp.2 (Gen.mergeOffset b.rmin b.rmax b.cmin b.cmax).1 (Gen.mergeOffset b.rmin b.rmax b.cmin b.cmax).2 = b := by
  unfold Gen.mergeShape at h
  simp only [] at h
  split_ifs at h with h1 h2
  · simp only [Option.some.injEq] at h
    subst h
    simp only [Bool.and_eq_true, decide_eq_true_eq] at h1
    rw [arrayExtent_eq]
    simp only [Gen.mergeOffset]
    cases b; simp only [Extent.mk.injEq]; simp only at h1; omega
  · simp only [Option.some.injEq] at h
    subst h
    rw [arrayExtent_eq]
    simp only [Gen.mergeOffset]
    cases b; simp only [Extent.mk.injEq]; omega

theorem boundary_contains (fs : List (Fld K)) (f : Fld K) (hf : f ∈ fs) :
    let b := boundaryL (fs.map Fld.extent)
    b.rmin ≤ f.extent.rmin ∧ f.extent.rmax ≤ b.rmax ∧ b.cmin ≤ f.extent.cmin ∧ f.extent.cmax ≤ b.cmax := by
  simp only [boundaryL_eq]
  exact fold_contains _ _ _ (List.mem_map_of_mem hf)

/-- nonempty list of positive-shape fields: the `boundary` box is a valid extent -/
theorem boundary_valid (fs : List (Fld K)) (hne : fs ≠ []) (hpos : ∀ f ∈ fs, 0 < f.arr.s0 ∧ 0 < f.arr.s1) :
    (boundaryL (fs.map Fld.extent)).rmin ≤ (boundaryL (fs.map Fld.extent)).rmax ∧
    (boundaryL (fs.map Fld.extent)).cmin ≤ (boundaryL (fs.map Fld.extent)).cmax := by
  obtain ⟨f, hf⟩ := List.exists_mem_of_ne_nil fs hne
  have h1 := boundary_contains fs f hf
  have h2 := f.extent_valid (hpos f hf)
  simp only at h1
  omega

theorem mergeSlice_eq (b e : Extent) :
    Gen.mergeSlice b.rmin b.rmax b.cmin b.cmax e.rmin e.rmax e.cmin e.cmax =
      ((e.rmin - b.rmin, e.rmax - b.rmin + 1), (e.cmin - b.cmin, e.cmax - b.cmin + 1)) := by
  simp [Gen.mergeSlice]

/-- the merged field occupies exactly the `boundary` box of its members -/
theorem mergeL_extent [Add K] [Zero K] (fs : List (Fld K)) (hne : fs ≠ [])
    (hpos : ∀ f ∈ fs, 0 < f.arr.s0 ∧ 0 < f.arr.s1) (p : Fld K) (h : mergeL fs = some p) :
    p.extent = boundaryL (fs.map Fld.extent) := by
  have hv := boundary_valid fs hne hpos
  unfold mergeL at h
  simp only [] at h
  generalize boundaryL (fs.map Fld.extent) = b at h hv ⊢
  cases hs : Gen.mergeShape b.rmin b.rmax b.cmin b.cmax 0 with
  | none => simp [hs] at h
  | some shp =>
    simp only [hs, Option.some.injEq] at h
    subst h
    exact merge_box b 0 shp hs hv

/-- `_merge` of array fields always answers (since the /repo fix of `_merge_shape`: (1, 1) on the origin pixel) -/
theorem mergeL_isSome [Add K] [Zero K] (fs : List (Fld K)) : (mergeL fs).isSome = true := by
  unfold mergeL
  simp only []
  obtain ⟨shp, hs⟩ := mergeShape_arrays (boundaryL (fs.map Fld.extent))
  simp only [hs, Option.isSome_some]

/-- a merge is the sum of the embeddings (`Props/C06.merge_emb`) -/
theorem mergeL_emb [AddZeroClass K] (fs : List (Fld K)) (hne : fs ≠ [])
    (hpos : ∀ f ∈ fs, 0 < f.arr.s0 ∧ 0 < f.arr.s1) (p : Fld K) (h : mergeL fs = some p) (r c : Int) :
    p.emb r c = sumList fs (fun f => f.emb r c) := by
  unfold mergeL at h
  simp only [mergeSlice_eq] at h
  generalize hb : boundaryL (fs.map Fld.extent) = b at h
  have hcont : ∀ f ∈ fs, b.rmin ≤ f.extent.rmin ∧ f.extent.rmax ≤ b.rmax ∧ b.cmin ≤ f.extent.cmin ∧ f.extent.cmax ≤ b.cmax := by
    intro f hf; have := boundary_contains fs f hf; simp only [hb] at this; exact this
  have hv : b.rmin ≤ b.rmax ∧ b.cmin ≤ b.cmax := by
    obtain ⟨f, hf⟩ := List.exists_mem_of_ne_nil fs hne
    have h1 := hcont f hf
    have h2 := f.extent_valid (hpos f hf)
    omega
  cases hs : Gen.mergeShape b.rmin b.rmax b.cmin b.cmax 0 with
  | none => simp [hs] at h
  | some shp =>
    simp only [hs, Option.some.injEq] at h
    subst h
    rw [emb_mk, merge_box b 0 shp hs hv]
    unfold embAt
    by_cases hin : b.inb r c = true
    · rw [if_pos hin]
      apply sumList_congr
      intro f hf
      have hc := hcont f hf
      have fe : f.emb r c = embAt f.extent f.arr.get r c := rfl
      rw [fe]; unfold embAt
      have hg : (decide (f.extent.rmin - b.rmin ≤ r - b.rmin) && decide (r - b.rmin < f.extent.rmax - b.rmin + 1) &&
          decide (f.extent.cmin - b.cmin ≤ c - b.cmin) && decide (c - b.cmin < f.extent.cmax - b.cmin + 1)) = f.extent.inb r c := by
        rw [Bool.eq_iff_iff, Extent.inb_iff]; simp only [Bool.and_eq_true, decide_eq_true_eq]; omega
      have hx : ∀ (x m i : Int), x - m - (i - m) = x - i := by intros; omega
      simp only [hg, hx]
    · rw [if_neg hin]
      have : sumList fs (fun f => f.emb r c) = sumList fs (fun _ => (0 : K)) := by
        apply sumList_congr
        intro f hf
        have hc := hcont f hf
        have fe : f.emb r c = embAt f.extent f.arr.get r c := rfl
        rw [fe]; unfold embAt
        have : f.extent.inb r c = false := by
          rw [Bool.eq_false_iff]; intro hh; rw [Extent.inb_iff] at hh
          apply hin; rw [Extent.inb_iff]; omega
        simp [this]
      rw [this, sumList_zero]


/-! ### translation covariance of the product (position independence) -/

/-- a field moved by (d0, d1) pixels -/
def Fld.translate (f : Fld K) (d0 d1 : Int) : Fld K := { f with o0 := f.o0 + d0, o1 := f.o1 + d1 }

theorem Fld.translate_extent (f : Fld K) (d0 d1 : Int) : (f.translate d0 d1).extent = f.extent.shift d0 d1 :=
  arrayExtent_translate ..

theorem mulArr_translate [Mul K] (a b : Fld K) (d0 d1 : Int) :
    (a.translate d0 d1).mulArr (b.translate d0 d1) = (a.mulArr b).map fun p => p.translate d0 d1 := by
  unfold Fld.mulArr
  simp only [Fld.translate_extent, intersect_translate, intersectionSlices_translate, intersectionShift_translate]
  by_cases h : intersect a.extent b.extent = true
  · simp only [h, if_true, Option.map_some]; rfl
  · simp only [h, Bool.false_eq_true, if_false, Option.map_none]

/-! ### closed form of `Fld.mul` under the current generated dispatch tests -/

theorem Fld.size_eq_one_iff (f : Fld K) : f.size = 1 ↔ f.arr.s0 = 1 ∧ f.arr.s1 = 1 := by
  unfold Fld.size
  constructor
  · intro h
    have h' : f.arr.s0.toNat * f.arr.s1.toNat = 1 := by exact_mod_cast h
    have h1 := Nat.eq_one_of_mul_eq_one_right h'
    have h2 := Nat.eq_one_of_mul_eq_one_left h'
    omega
  · rintro ⟨h1, h2⟩; rw [h1, h2]; rfl

theorem Fld.mulBothOne_eq (a b : Fld K) : Gen.mulBothOne a.size b.size = (a.size1 && b.size1) := by
  simp only [Gen.mulBothOne, Fld.size1]
  rw [Bool.eq_iff_iff]
  simp only [Bool.and_eq_true, decide_eq_true_eq, Fld.size_eq_one_iff]

/-- `Fld.mul` with the generated tests evaluated: both one-element ⇒ `_mul_scalar` (offsets equal exactly, in both
components), else broadcast and `_mul_array`. Breaks when `Field.__mul__`'s size test or `_mul_scalar`'s comparison change. -/
theorem Fld.mul_closed [Mul K] (a b : Fld K) :
    a.mul b =
      if a.size1 && b.size1 then
        if decide (a.o0 = b.o0) && decide (a.o1 = b.o1) then
          some { arr := { s0 := 1, s1 := 1, get := fun _ _ => a.arr.get 0 0 * b.arr.get 0 0 }, o0 := a.o0, o1 := a.o1 }
        else none
      else
        let a' := if a.size1 then a.broadcastTo b else a
        let b' := if b.size1 then b.broadcastTo a' else b
        a'.mulArr b' := by
  unfold Fld.mul
  rw [Fld.mulBothOne_eq]
  rfl

/-- a non-empty product has positive shape (it occupies the set of common pixels) -/
theorem mulArr_pos_shape [Mul K] (a b p : Fld K) (ha : 0 < a.arr.s0 ∧ 0 < a.arr.s1) (hb : 0 < b.arr.s0 ∧ 0 < b.arr.s1)
    (h : a.mulArr b = some p) : 0 < p.arr.s0 ∧ 0 < p.arr.s1 := by
  unfold Fld.mulArr at h
  by_cases hi : intersect a.extent b.extent = true
  · simp only [hi, if_true, Option.some.injEq] at h
    subst h
    have hw := slices_wellformed a.extent b.extent (a.extent_valid ha) (b.extent_valid hb) hi
    simp only
    omega
  · simp [hi] at h

theorem Fld.mul_pos_shape [Mul K] (a b p : Fld K) (ha : 0 < a.arr.s0 ∧ 0 < a.arr.s1) (hb : 0 < b.arr.s0 ∧ 0 < b.arr.s1)
    (h : a.mul b = some p) : 0 < p.arr.s0 ∧ 0 < p.arr.s1 := by
  rw [Fld.mul_closed] at h
  cases h1 : a.size1 <;> cases h2 : b.size1 <;> simp only [h1, h2, Bool.and_self, Bool.and_false, Bool.false_and,
    Bool.false_eq_true, if_false, if_true] at h
  · exact mulArr_pos_shape a b p ha hb h
  · exact mulArr_pos_shape a (b.broadcastTo a) p ha ha h
  · exact mulArr_pos_shape (a.broadcastTo b) b p hb hb h
  · split at h
    · simp only [Option.some.injEq] at h; subst h; exact ⟨Int.one_pos, Int.one_pos⟩
    · cases h

/-- (definitional: restates the first branch of `Fld.mul`) two one-element fields: the documented rule — the constants multiply when the offsets agree, and the product is
empty otherwise -/
theorem Fld.mul_scalar_scalar [Mul K] (a b : Fld K) (hab : (a.size1 && b.size1) = true) :
    a.mul b = if a.o0 = b.o0 ∧ a.o1 = b.o1
      then some { arr := { s0 := 1, s1 := 1, get := fun _ _ => a.arr.get 0 0 * b.arr.get 0 0 }, o0 := a.o0, o1 := a.o1 }
      else none := by
  rw [Fld.mul_closed]
  simp only [hab, if_true]
  by_cases h : a.o0 = b.o0 ∧ a.o1 = b.o1
  · simp [h]
  · have : (decide (a.o0 = b.o0) && decide (a.o1 = b.o1)) = false := by
      rw [Bool.eq_false_iff]; intro hh; simp only [Bool.and_eq_true, decide_eq_true_eq] at hh; exact h hh
    simp [this, h]

/-! ### embeddings under translation, sums under reordering -/

theorem Extent.shift_inb (e : Extent) (d0 d1 r c : Int) : (e.shift d0 d1).inb r c = e.inb (r - d0) (c - d1) := by
  rw [Bool.eq_iff_iff, Extent.inb_iff, Extent.inb_iff]; simp only [Extent.shift]; omega

/-- a field moved by (d0, d1) embeds as the original embedding read at (r − d0, c − d1) -/
theorem Fld.translate_emb [Zero K] (f : Fld K) (d0 d1 r c : Int) :
    (f.translate d0 d1).emb r c = f.emb (r - d0) (c - d1) := by
  have h1 : (f.translate d0 d1).emb r c = embAt (f.translate d0 d1).extent f.arr.get r c := rfl
  have h2 : f.emb (r - d0) (c - d1) = embAt f.extent f.arr.get (r - d0) (c - d1) := rfl
  rw [h1, h2, Fld.translate_extent]
  unfold embAt
  rw [Extent.shift_inb]
  have e1 : r - (f.extent.shift d0 d1).rmin = r - d0 - f.extent.rmin := by simp only [Extent.shift]; omega
  have e2 : c - (f.extent.shift d0 d1).cmin = c - d1 - f.extent.cmin := by simp only [Extent.shift]; omega
  rw [e1, e2]

theorem sumList_map_comp [Add K] [Zero K] {α β} (l : List α) (g : α → β) (f : β → K) :
    sumList (l.map g) f = sumList l (fun x => f (g x)) := by
  unfold sumList; rw [List.foldl_map]

end Lentil
