import LentilVerif.Lemmas.Energy
import LentilVerif.Lemmas.FourierEmbed
import LentilVerif.Props.C02
/-! C05 over the C02 propagation model: the fields produced by `propagateField` (generated window kernel `Gen.dftWindow`)
are samples of `fieldAt`; several fields transform like the wavefront's total field on a canvas; plane energy over any set
of output samples inside one period is bounded by the input power, with equality on the whole period. -/
open Finset
namespace Lentil

/-- C02's `fraunhoferAt` at an integer output coordinate is the one-field `fieldAt` -/
theorem fraunhoferAt_int (f : Fld ℂ) (αr αc : ℝ) (U V : ℤ) :
    fraunhoferAt f αr αc ((U : ℤ) : ℝ) ((V : ℤ) : ℝ) = fieldAt [f] αr αc U V := by
  unfold fraunhoferAt fieldAt propagateWindow
  simp only [sumList, List.foldl, zero_add, RealLike.ofInt]
  have h : ((1 : ℤ) / 2) = 0 := by decide
  rw [h, add_zero, add_zero]

theorem fieldAt_cons (f : Fld ℂ) (fs : List (Fld ℂ)) (αr αc : ℝ) (U V : ℤ) :
    fieldAt (f :: fs) αr αc U V = fieldAt [f] αr αc U V + fieldAt fs αr αc U V := by
  unfold fieldAt
  simp only [propagateWindow_get, List.map_cons, List.sum_cons, List.map_nil, List.sum_nil, add_zero]

theorem fieldAt_nil (αr αc : ℝ) (U V : ℤ) : fieldAt [] αr αc U V = 0 := by
  unfold fieldAt; simp only [propagateWindow_get, List.map_nil, List.sum_nil]

/-- **bridge to the C02 model (generated window kernel).** For tilt-free fields, any output extent (whole array or mask box)
and any propagation shape, the sum of the fields produced by the loop body of `propagate_dft` (`propagateField`, built on
`Gen.dftWindow`) is, at plane coordinate `(r, c)`, the `fieldAt` of Model/Energy inside `out_extent ∩ prop_extent` and `0` outside. -/
theorem propagateField_sum_eq_fieldAt (fs : List (Fld ℂ)) (αr αc : ℝ) (oe : Extent) (P0 P1 : ℤ)
    (hoe : oe.rmin ≤ oe.rmax ∧ oe.cmin ≤ oe.cmax) (hP : 0 < P0 ∧ 0 < P1) (r c : ℤ) :
    (fs.map fun f => embO (propagateField (⟨f, 0, 0, 0, 0⟩ : TField ℂ ℝ) αr αc oe P0 P1) r c).sum
      = if oe.inb r c && (propExtent P0 P1 0 0).inb r c then fieldAt fs αr αc r c else 0 := by
  induction fs with
  | nil => simp [fieldAt_nil]
  | cons f fs ih =>
    rw [List.map_cons, List.sum_cons, ih, fieldAt_cons,
      C02.propagateField_sample (K := ℂ) (R := ℝ) (fun _ => rfl) ⟨f, 0, 0, 0, 0⟩ αr αc oe P0 P1 hoe hP r c]
    simp only [sub_zero, RealLike.ofInt]
    split_ifs
    · rw [fraunhoferAt_int]
    · simp

/-- a field lies on an `S0 × S1` canvas whose origin is at index `⌊S/2⌋` -/
def Fits (f : Fld ℂ) (S0 S1 : ℕ) : Prop :=
  ∃ m n : ℕ, f.arr.s0 = m ∧ f.arr.s1 = n ∧
    (0 ≤ (S0 : ℤ) / 2 - (m : ℤ) / 2 + f.o0 ∧ (S0 : ℤ) / 2 - (m : ℤ) / 2 + f.o0 + m ≤ S0) ∧
    (0 ≤ (S1 : ℤ) / 2 - (n : ℤ) / 2 + f.o1 ∧ (S1 : ℤ) / 2 - (n : ℤ) / 2 + f.o1 + n ≤ S1)

/-- the wavefront's total field on the canvas, as one field at offset 0 -/
def canvasFld (fs : List (Fld ℂ)) (S0 S1 : ℕ) : Fld ℂ := ⟨embedAll fs S0 S1, 0, 0⟩

theorem fieldAt_single (f : Fld ℂ) (αr αc : ℝ) (U V : ℤ) :
    fieldAt [f] αr αc U V
      = (dft2 f.arr αr αc 1 1 (-(((U + 1 / 2 : ℤ)) : ℝ)) (-(((V + 1 / 2 : ℤ)) : ℝ)) f.o0 f.o1 true).get 0 0 := by
  unfold fieldAt propagateWindow
  simp only [sumList, List.foldl, zero_add, RealLike.ofInt]

theorem fieldAt_single_embed (f : Fld ℂ) (S0 S1 : ℕ) (hfit : Fits f S0 S1) (αr αc : ℝ) (U V : ℤ) :
    fieldAt [f] αr αc U V = fieldAt [canvasFld [f] S0 S1] αr αc U V := by
  obtain ⟨m, n, hm, hn, hr, hc⟩ := hfit
  rw [fieldAt_single, fieldAt_single]
  exact (dft2_embed f m n S0 S1 hm hn hr hc αr αc 1 1 _ _ true 0 0).symm

/-- the transform at a coordinate is additive in the canvas array -/
theorem fieldAt_canvas_add (A B C : Arr ℂ) (h0 : B.s0 = A.s0 ∧ C.s0 = A.s0) (h1 : B.s1 = A.s1 ∧ C.s1 = A.s1)
    (hget : ∀ i j, A.get i j = B.get i j + C.get i j) (αr αc : ℝ) (U V : ℤ) :
    fieldAt [⟨A, 0, 0⟩] αr αc U V = fieldAt [⟨B, 0, 0⟩] αr αc U V + fieldAt [⟨C, 0, 0⟩] αr αc U V := by
  simp only [fieldAt_single, dft2_get_eq, dft2Sum, h0.1, h0.2, h1.1, h1.2, hget, mul_add, add_mul, sum_add_distrib]

theorem fieldAt_canvas_zero (A : Arr ℂ) (hget : ∀ i j, A.get i j = 0) (αr αc : ℝ) (U V : ℤ) :
    fieldAt [⟨A, 0, 0⟩] αr αc U V = 0 := by
  simp only [fieldAt_single, dft2_get_eq, dft2Sum, hget, mul_zero, zero_mul, sum_const_zero]

/-- **several fields = one embedded array.** The field at any frequency coordinate produced by a list of fields that all lie on
the canvas is the transform of the wavefront's total field `embedAll fs` (linearity + `dft2_embed`) -/
theorem fieldAt_eq_canvas (fs : List (Fld ℂ)) (S0 S1 : ℕ) (hfit : ∀ f ∈ fs, Fits f S0 S1) (αr αc : ℝ) (U V : ℤ) :
    fieldAt fs αr αc U V = fieldAt [canvasFld fs S0 S1] αr αc U V := by
  induction fs with
  | nil =>
    rw [fieldAt_nil]
    exact (fieldAt_canvas_zero _ (fun i j => by simp [embedAll, sumList]) αr αc U V).symm
  | cons f fs ih =>
    rw [fieldAt_cons, ih (fun g hg => hfit g (List.mem_cons_of_mem _ hg)),
      fieldAt_single_embed f S0 S1 (hfit f (List.mem_cons_self ..))]
    refine (fieldAt_canvas_add (embedAll (f :: fs) S0 S1) (embedAll [f] S0 S1) (embedAll fs S0 S1) ⟨rfl, rfl⟩ ⟨rfl, rfl⟩
      (fun i j => ?_) αr αc U V).symm
    simp only [embedAll, sumList_eq, List.map_cons, List.sum_cons, List.map_nil, List.sum_nil, add_zero]

/-- the full period of a commensurate sampling as a set of integer frequency coordinates -/
noncomputable def periodBox (K L : ℕ) : Finset (ℤ × ℤ) :=
  Finset.Ico (-((K : ℤ) / 2)) (-((K : ℤ) / 2) + K) ×ˢ Finset.Ico (-((L : ℤ) / 2)) (-((L : ℤ) / 2) + L)

/-- over one full period the plane energy of a single field is its power -/
theorem period_energy_single (f : Fld ℂ) (m n : ℕ) (hm : f.arr.s0 = m) (hn : f.arr.s1 = n) (K L : ℕ) (hK : 0 < K) (hL : 0 < L)
    (hmK : m ≤ K) (hnL : n ≤ L) :
    ∑ p ∈ periodBox K L, Complex.normSq (fieldAt [f] (1 / (K : ℝ)) (1 / (L : ℝ)) p.1 p.2) = arrSum (intensity (R := ℝ) f.arr) := by
  unfold periodBox
  rw [Finset.sum_product, ← window_energy_eq [f] (1 / (K : ℝ)) (1 / (L : ℝ)) K L (-((K : ℤ) / 2)) (-((L : ℤ) / 2))]
  have hE : arrSum (intensity (R := ℝ) f.arr)
      = arrSum (intensity (R := ℝ) (dft2 f.arr (1 / (K : ℝ)) (1 / (L : ℝ)) K L
          (-(RealLike.ofInt (-((K : ℤ) / 2) + (K : ℤ) / 2))) (-(RealLike.ofInt (-((L : ℤ) / 2) + (L : ℤ) / 2))) f.o0 f.o1 true)) := by
    rw [arrSum_eq, arrSum_eq]
    simp only [intensity, NormSqLike.normSq, dft2C_s0, dft2C_s1, hm, hn, Int.toNat_natCast]
    exact (dft2_energy f.arr m n hm hn K L hK hL hmK hnL _ _ f.o0 f.o1).symm
  rw [hE]
  congr 2
  simp [propagateWindow, sumList, dft2]

/-- **energy of any set of output samples ≤ input power, for any number of fields.** All fields on an `S0 × S1` canvas with
`S0 ≤ K`, `S1 ≤ L`, sampling `α = (1/K, 1/L)`: for every finite set `B` of integer frequency coordinates inside one period,
`Σ_B |field|² ≤ Σ |total field on the canvas|²`, with equality for the whole period; and `B ⊆ B'` gives `E(B) ≤ E(B')`. -/
theorem plane_energy_le (fs : List (Fld ℂ)) (S0 S1 K L : ℕ) (hfit : ∀ f ∈ fs, Fits f S0 S1) (hK : 0 < K) (hL : 0 < L)
    (hS0 : S0 ≤ K) (hS1 : S1 ≤ L) (B : Finset (ℤ × ℤ)) (hB : B ⊆ periodBox K L) :
    ∑ p ∈ B, Complex.normSq (fieldAt fs (1 / (K : ℝ)) (1 / (L : ℝ)) p.1 p.2) ≤ arrSum (intensity (R := ℝ) (embedAll fs S0 S1)) ∧
    ∑ p ∈ periodBox K L, Complex.normSq (fieldAt fs (1 / (K : ℝ)) (1 / (L : ℝ)) p.1 p.2)
      = arrSum (intensity (R := ℝ) (embedAll fs S0 S1)) := by
  have hper : ∑ p ∈ periodBox K L, Complex.normSq (fieldAt [canvasFld fs S0 S1] (1 / (K : ℝ)) (1 / (L : ℝ)) p.1 p.2)
      = arrSum (intensity (R := ℝ) (embedAll fs S0 S1)) := period_energy_single (canvasFld fs S0 S1) S0 S1 rfl rfl K L hK hL hS0 hS1
  simp only [fieldAt_eq_canvas fs S0 S1 hfit]
  refine ⟨?_, hper⟩
  rw [← hper]
  exact sum_le_sum_of_subset_of_nonneg hB (fun _ _ _ => Complex.normSq_nonneg _)

/-! ## fields sharing one tilt -/

/-- sum over the fields of C02's `fraunhoferAt` at a real output coordinate -/
noncomputable def fieldAtR (fs : List (Fld ℂ)) (αr αc pr pc : ℝ) : ℂ := (fs.map fun f => fraunhoferAt f αr αc pr pc).sum

theorem fraunhofer_canvas_add (A B C : Arr ℂ) (h0 : B.s0 = A.s0 ∧ C.s0 = A.s0) (h1 : B.s1 = A.s1 ∧ C.s1 = A.s1)
    (hget : ∀ i j, A.get i j = B.get i j + C.get i j) (αr αc pr pc : ℝ) :
    fraunhoferAt ⟨A, 0, 0⟩ αr αc pr pc = fraunhoferAt ⟨B, 0, 0⟩ αr αc pr pc + fraunhoferAt ⟨C, 0, 0⟩ αr αc pr pc := by
  simp only [fraunhoferAt, dft2_get_eq, dft2Sum, h0.1, h0.2, h1.1, h1.2, hget, mul_add, add_mul, sum_add_distrib]

theorem fraunhofer_canvas_zero (A : Arr ℂ) (hget : ∀ i j, A.get i j = 0) (αr αc pr pc : ℝ) :
    fraunhoferAt ⟨A, 0, 0⟩ αr αc pr pc = 0 := by
  simp only [fraunhoferAt, dft2_get_eq, dft2Sum, hget, mul_zero, zero_mul, sum_const_zero]

/-- several fields = the wavefront's total field on the canvas, at any real output coordinate -/
theorem fieldAtR_eq_canvas (fs : List (Fld ℂ)) (S0 S1 : ℕ) (hfit : ∀ f ∈ fs, Fits f S0 S1) (αr αc pr pc : ℝ) :
    fieldAtR fs αr αc pr pc = fraunhoferAt (canvasFld fs S0 S1) αr αc pr pc := by
  induction fs with
  | nil =>
    simp only [fieldAtR, List.map_nil, List.sum_nil]
    exact (fraunhofer_canvas_zero _ (fun i j => by simp [embedAll, sumList]) αr αc pr pc).symm
  | cons f fs ih =>
    have hf := hfit f (List.mem_cons_self ..)
    obtain ⟨m, n, hm, hn, hr, hc⟩ := hf
    have h1 : fraunhoferAt f αr αc pr pc = fraunhoferAt (canvasFld [f] S0 S1) αr αc pr pc :=
      (dft2_embed f m n S0 S1 hm hn hr hc αr αc 1 1 _ _ true 0 0).symm
    have ih' := ih (fun g hg => hfit g (List.mem_cons_of_mem _ hg))
    simp only [fieldAtR, List.map_cons, List.sum_cons] at ih' ⊢
    rw [ih', h1]
    refine (fraunhofer_canvas_add (embedAll (f :: fs) S0 S1) (embedAll [f] S0 S1) (embedAll fs S0 S1) ⟨rfl, rfl⟩ ⟨rfl, rfl⟩
      (fun i j => ?_) αr αc pr pc).symm
    simp only [embedAll, sumList_eq, List.map_cons, List.sum_cons, List.map_nil, List.sum_nil, add_zero]

/-- **fields sharing one tilt keep their energy over the displaced period** (any number of fields on the canvas) -/
theorem common_tilt_period_energy_aux (fs : List (Fld ℂ)) (S0 S1 K L : ℕ) (hfit : ∀ f ∈ fs, Fits f S0 S1) (hK : 0 < K) (hL : 0 < L)
    (hS0 : S0 ≤ K) (hS1 : S1 ≤ L) (fix0 fix1 : ℤ) (sub0 sub1 : ℝ) (oe : Extent) (hoe : oe.rmin ≤ oe.rmax ∧ oe.cmin ≤ oe.cmax)
    (hcover : ∀ r c, (propExtent K L fix0 fix1).inb r c = true → oe.inb r c = true) :
    ∑ u ∈ range K, ∑ v ∈ range L, Complex.normSq
        ((fs.map fun f => embO (propagateField (⟨f, fix0, fix1, sub0, sub1⟩ : TField ℂ ℝ) (1 / (K : ℝ)) (1 / (L : ℝ)) oe K L)
          (-((K : ℤ) / 2) + fix0 + u) (-((L : ℤ) / 2) + fix1 + v)).sum)
      = arrSum (intensity (R := ℝ) (embedAll fs S0 S1)) := by
  have hE := dft2_energy (embedAll fs S0 S1) S0 S1 rfl rfl K L hK hL hS0 hS1 sub0 sub1 0 0
  rw [arrSum_eq]
  have e0 : (intensity (R := ℝ) (embedAll fs (S0 : ℤ) (S1 : ℤ))).s0 = S0 := rfl
  have e1 : (intensity (R := ℝ) (embedAll fs (S0 : ℤ) (S1 : ℤ))).s1 = S1 := rfl
  rw [e0, e1]
  simp only [intensity, NormSqLike.normSq, Int.toNat_natCast]
  rw [← hE]
  refine sum_congr rfl fun u hu => sum_congr rfl fun v hv => ?_
  have hu' := mem_range.mp hu
  have hv' := mem_range.mp hv
  have hin : (propExtent (K : ℤ) (L : ℤ) fix0 fix1).inb (-((K : ℤ) / 2) + fix0 + u) (-((L : ℤ) / 2) + fix1 + v) = true := by
    unfold propExtent; rw [arrayExtent_eq, Extent.inb_iff]; simp only; omega
  have hterm : ∀ f : Fld ℂ, embO (propagateField (⟨f, fix0, fix1, sub0, sub1⟩ : TField ℂ ℝ) (1 / (K : ℝ)) (1 / (L : ℝ)) oe K L)
        (-((K : ℤ) / 2) + fix0 + u) (-((L : ℤ) / 2) + fix1 + v)
      = fraunhoferAt f (1 / (K : ℝ)) (1 / (L : ℝ)) (((-((K : ℤ) / 2) + fix0 + u - fix0 : ℤ) : ℝ) - sub0)
          (((-((L : ℤ) / 2) + fix1 + v - fix1 : ℤ) : ℝ) - sub1) := by
    intro f
    rw [C02.propagateField_sample (K := ℂ) (R := ℝ) (fun _ => rfl) ⟨f, fix0, fix1, sub0, sub1⟩ _ _ oe K L hoe
      ⟨by exact_mod_cast hK, by exact_mod_cast hL⟩, hcover _ _ hin, hin]
    simp only [Bool.and_self, if_true, RealLike.ofInt]
  simp only [hterm]
  have := fieldAtR_eq_canvas fs S0 S1 hfit (1 / (K : ℝ)) (1 / (L : ℝ))
    (((-((K : ℤ) / 2) + fix0 + u - fix0 : ℤ) : ℝ) - sub0) (((-((L : ℤ) / 2) + fix1 + v - fix1 : ℤ) : ℝ) - sub1)
  unfold fieldAtR at this
  rw [this]
  congr 1
  unfold fraunhoferAt canvasFld
  apply dft2_get_congr
  · simp only [RealLike.ofInt, cc]; push_cast; ring
  · simp only [RealLike.ofInt, cc]; push_cast; ring

/-! ## fields with different tilts -/

/-- a field multiplied by the phase ramp of a tilt shift `(s0, s1)` (in output samples) at sampling `(αr, αc)` -/
noncomputable def rampFld (f : Fld ℂ) (αr αc s0 s1 : ℝ) : Fld ℂ :=
  ⟨⟨f.arr.s0, f.arr.s1, fun x y => f.arr.get x y *
      Complex.exp ((2 * Real.pi * Complex.I) * ((αr * ((cc f.arr.s0 x + f.o0 : ℤ) : ℝ) * s0 + αc * ((cc f.arr.s1 y + f.o1 : ℤ) : ℝ) * s1 : ℝ) : ℂ))⟩,
    f.o0, f.o1⟩

theorem ker_split_shift (α : ℝ) (m off : ℤ) (p s : ℝ) (x : ℤ) :
    ker α m 1 off (-(p - s)) x 0 = ker α m 1 off (-p) x 0 * Complex.exp ((2 * Real.pi * Complex.I) * ((α * ((cc m x + off : ℤ) : ℝ) * s : ℝ) : ℂ)) := by
  unfold ker
  rw [← Complex.exp_add]
  congr 1
  push_cast
  ring

/-- evaluating the transform at a displaced coordinate = evaluating the transform of the ramped field -/
theorem fraunhoferAt_ramp (f : Fld ℂ) (αr αc s0 s1 pr pc : ℝ) :
    fraunhoferAt f αr αc (pr - s0) (pc - s1) = fraunhoferAt (rampFld f αr αc s0 s1) αr αc pr pc := by
  unfold fraunhoferAt rampFld
  rw [dft2_get_eq, dft2_get_eq]
  congr 1
  unfold dft2Sum
  refine sum_congr rfl fun y _ => ?_
  rw [sum_mul, sum_mul]
  refine sum_congr rfl fun x _ => ?_
  simp only [ker_split_shift]
  have : ((αr * ((cc f.arr.s0 x + f.o0 : ℤ) : ℝ) * s0 + αc * ((cc f.arr.s1 y + f.o1 : ℤ) : ℝ) * s1 : ℝ) : ℂ)
      = ((αr * ((cc f.arr.s0 x + f.o0 : ℤ) : ℝ) * s0 : ℝ) : ℂ) + ((αc * ((cc f.arr.s1 y + f.o1 : ℤ) : ℝ) * s1 : ℝ) : ℂ) := by push_cast; ring
  rw [this, mul_add, Complex.exp_add]
  ring

theorem fits_ramp (f : Fld ℂ) (αr αc s0 s1 : ℝ) (S0 S1 : ℕ) (h : Fits f S0 S1) : Fits (rampFld f αr αc s0 s1) S0 S1 := h

/-- sum over fields of the transform at an integer coordinate -/
theorem sum_fraunhoferAt_int (fs : List (Fld ℂ)) (αr αc : ℝ) (U V : ℤ) :
    (fs.map fun f => fraunhoferAt f αr αc ((U : ℤ) : ℝ) ((V : ℤ) : ℝ)).sum = fieldAt fs αr αc U V := by
  induction fs with
  | nil => simp [fieldAt_nil]
  | cons f fs ih => rw [List.map_cons, List.sum_cons, ih, fieldAt_cons, fraunhoferAt_int]

/-- **fields with different tilts.** Each field `t` carries its own shift `fix + sub`; where every field's window covers a whole
period the intensity summed over that period is the power of the coherent sum of the *tilted* input fields (each multiplied by its
own phase ramp): tilts make the fields interfere, the propagation itself still conserves energy. -/
theorem multi_tilt_period_energy_aux (ts : List (TField ℂ ℝ)) (S0 S1 K L : ℕ) (hfit : ∀ t ∈ ts, Fits t.fld S0 S1) (hK : 0 < K) (hL : 0 < L)
    (hS0 : S0 ≤ K) (hS1 : S1 ≤ L) (oe : Extent) (P0 P1 : ℤ) (hoe : oe.rmin ≤ oe.rmax ∧ oe.cmin ≤ oe.cmax) (hP : 0 < P0 ∧ 0 < P1)
    (hcover : ∀ t ∈ ts, ∀ q ∈ periodBox K L, (oe.inb q.1 q.2 && (propExtent P0 P1 t.fix0 t.fix1).inb q.1 q.2) = true) :
    ∑ q ∈ periodBox K L, Complex.normSq
        ((ts.map fun t => embO (propagateField t (1 / (K : ℝ)) (1 / (L : ℝ)) oe P0 P1) q.1 q.2).sum)
      = arrSum (intensity (R := ℝ) (embedAll (ts.map fun t =>
          rampFld t.fld (1 / (K : ℝ)) (1 / (L : ℝ)) ((t.fix0 : ℝ) + t.sub0) ((t.fix1 : ℝ) + t.sub1)) S0 S1)) := by
  have hfit' : ∀ f ∈ ts.map (fun t => rampFld t.fld (1 / (K : ℝ)) (1 / (L : ℝ)) ((t.fix0 : ℝ) + t.sub0) ((t.fix1 : ℝ) + t.sub1)), Fits f S0 S1 := by
    intro f hf
    obtain ⟨t, ht, rfl⟩ := List.mem_map.mp hf
    exact fits_ramp _ _ _ _ _ S0 S1 (hfit t ht)
  rw [← (plane_energy_le _ S0 S1 K L hfit' hK hL hS0 hS1 (periodBox K L) (Finset.Subset.refl _)).2]
  refine sum_congr rfl fun q hq => ?_
  congr 1
  rw [← sum_fraunhoferAt_int, List.map_map]
  congr 1
  apply List.map_congr_left
  intro t ht
  rw [C02.propagateField_sample (K := ℂ) (R := ℝ) (fun _ => rfl) t _ _ oe P0 P1 hoe hP, hcover t ht q hq, if_pos rfl]
  simp only [Function.comp, RealLike.ofInt]
  rw [← fraunhoferAt_ramp]
  congr 1 <;> push_cast <;> ring

end Lentil
