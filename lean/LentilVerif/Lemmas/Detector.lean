import LentilVerif.Model.Detector
import Mathlib.Algebra.BigOperators.Intervals
import Mathlib.Algebra.BigOperators.Ring.Finset
import Mathlib.Algebra.Order.Floor.Ring
import Mathlib.Data.Rat.Floor
import Mathlib.Tactic.NormNum
import Mathlib.Algebra.Order.Field.Basic
import Mathlib.Tactic.Ring
import Mathlib.Tactic.Linarith
import Mathlib.Tactic.Positivity
/-! Helper lemmas for C16 (detector chain). Property theorems are in Props/C16.lean. -/
namespace Lentil
open Finset

/-- the executable fold is the `Finset` sum -/
theorem sumRange_eq_sum {K} [AddCommMonoid K] (n : Nat) (f : Nat → K) : sumRange n f = ∑ i ∈ range n, f i := by
  unfold sumRange
  induction n with
  | zero => simp
  | succ n ih => rw [List.range_succ, List.foldl_append, ih, Finset.sum_range_succ]; rfl

namespace Det

theorem npow_eq_pow {K} [Monoid K] (x : K) (n : Nat) : npow x n = x ^ n := by
  induction n with
  | zero => simp [npow]
  | succ n ih => simp [npow, ih, pow_succ]

/-- the gain polynomial as a sum: coefficients highest power first, no constant term -/
theorem polyGain_eq_sum {K} [CommSemiring K] (g : List K) (x : K) :
    polyGain g x = ∑ d ∈ range g.length, g.getD d 0 * x ^ (g.length - d) := by
  induction g with
  | nil => simp [polyGain]
  | cons c cs ih =>
    rw [polyGain, ih, npow_eq_pow, List.length_cons, Finset.sum_range_succ', add_comm]
    congr 1
    apply Finset.sum_congr rfl
    intro d _
    simp [Nat.add_sub_add_right]

/-- membership in the row-major index list -/
theorem mem_idx (s0 s1 : Int) (p : Int × Int) : p ∈ idx s0 s1 ↔ 0 ≤ p.1 ∧ p.1 < s0 ∧ 0 ≤ p.2 ∧ p.2 < s1 := by
  obtain ⟨a, b⟩ := p
  simp only [idx, List.mem_flatMap, List.mem_map, List.mem_range, Prod.mk.injEq]
  constructor
  · rintro ⟨i, hi, j, hj, rfl, rfl⟩; omega
  · rintro ⟨h1, h2, h3, h4⟩
    exact ⟨a.toNat, by omega, b.toNat, by omega, by omega, by omega⟩

/-- a polynomial without constant term and with non-negative coefficients is monotone on `x ≥ 0` -/
theorem polyGain_mono {K} [Field K] [LinearOrder K] [IsStrictOrderedRing K] (g : List K) (hg : ∀ c ∈ g, 0 ≤ c)
    {x y : K} (hx : 0 ≤ x) (hxy : x ≤ y) : polyGain g x ≤ polyGain g y := by
  induction g with
  | nil => simp [polyGain]
  | cons c cs ih =>
    simp only [polyGain, npow_eq_pow]
    have hc : 0 ≤ c := hg c (by simp)
    have h1 : x ^ (cs.length + 1) ≤ y ^ (cs.length + 1) := pow_le_pow_left₀ hx hxy _
    have h2 := ih (fun c hc' => hg c (by simp [hc']))
    have h3 : c * x ^ (cs.length + 1) ≤ c * y ^ (cs.length + 1) := mul_le_mul_of_nonneg_left h1 hc
    linarith

theorem clipSat_mono {K} [LinearOrder K] (cap : Option K) {x y : K} (hxy : x ≤ y) : clipSat cap x ≤ clipSat cap y := by
  cases cap with
  | none => simpa [clipSat]
  | some c =>
    simp only [clipSat]
    split_ifs with h1 h2 h2
    · exact le_refl _
    · exact absurd (lt_of_lt_of_le h1 hxy) h2
    · exact le_of_not_gt h1
    · exact hxy

theorem clipSat_eq_min {K} [LinearOrder K] (c x : K) : clipSat (some c) x = min x c := by
  simp only [clipSat]
  split_ifs with h
  · exact (min_eq_right (le_of_lt h)).symm
  · exact (min_eq_left (le_of_not_gt h)).symm

theorem adcValue_eq_max {K} [Add K] [Mul K] [Zero K] [One K] [LT K] [DecidableLT K] (floor : K → Int) (cap : Option K) (g : List K) (x : K) :
    adcValue floor cap g x = max 0 (floor (polyGain g (clipSat cap x))) := by
  simp only [adcValue]
  split_ifs with h
  · exact (max_eq_left (le_of_lt h)).symm
  · exact (max_eq_right (not_lt.mp h)).symm

end Det
end Lentil

namespace Lentil.Det
section interp
variable {K : Type} [Field K] [LinearOrder K] [IsStrictOrderedRing K]

/-- a flat spectrum interpolates to its value everywhere inside its band -/
theorem interpLin_flat (q : K) : ∀ (pts : List (K × K)) (w : K), (∀ p ∈ pts, p.2 = q) →
    ∀ (x0 : K) (xl : K), pts.head? = some (x0, q) → pts.getLast? = some (xl, q) → 2 ≤ pts.length → x0 ≤ w → w ≤ xl →
    interpLin pts w = q
  | [], _, _, _, _, _, _, hlen, _, _ => by simp at hlen
  | [_], _, _, _, _, _, _, hlen, _, _ => by simp at hlen
  | (a0, v0) :: (a1, v1) :: rest, w, hall, x0, xl, hh, hl, _, h0, h1 => by
    have e0 : v0 = q := hall (a0, v0) (by simp)
    have e1 : v1 = q := hall (a1, v1) (by simp)
    simp only [List.head?_cons, Option.some.injEq, Prod.mk.injEq] at hh
    obtain ⟨rfl, _⟩ := hh
    unfold interpLin
    by_cases hin : a0 ≤ w ∧ w ≤ a1
    · rw [if_pos hin, e0, e1]; simp
    · rw [if_neg hin]
      have hlt : a1 < w := by
        by_contra hc; exact hin ⟨h0, not_lt.mp hc⟩
      cases rest with
      | nil =>
        simp only [List.getLast?_cons_cons, List.getLast?_singleton, Option.some.injEq, Prod.mk.injEq] at hl
        obtain ⟨rfl, _⟩ := hl
        exact absurd h1 (not_le.mpr hlt)
      | cons r rs =>
        apply interpLin_flat q ((a1, v1) :: r :: rs) w (fun p hp => hall p (by simp at hp ⊢; tauto)) a1 xl
        · simp [e1]
        · simpa [List.getLast?_cons_cons] using hl
        · simp
        · exact le_of_lt hlt
        · exact h1

/-- interpolation does not care about the wavelength unit: scaling the grid and the query by the same `k > 0` changes nothing -/
theorem interpLin_scale (k : K) (hk : 0 < k) : ∀ (pts : List (K × K)) (w : K),
    interpLin (pts.map fun p => (p.1 * k, p.2)) (w * k) = interpLin pts w
  | [], _ => rfl
  | [_], _ => rfl
  | (a0, v0) :: (a1, v1) :: rest, w => by
    have ih := interpLin_scale k hk ((a1, v1) :: rest) w
    simp only [List.map_cons] at ih ⊢
    unfold interpLin
    have c1 : (a0 * k ≤ w * k ∧ w * k ≤ a1 * k) ↔ (a0 ≤ w ∧ w ≤ a1) := by
      rw [mul_le_mul_iff_of_pos_right hk, mul_le_mul_iff_of_pos_right hk]
    by_cases hin : a0 ≤ w ∧ w ≤ a1
    · rw [if_pos (c1.mpr hin), if_pos hin]
      have : (w * k - a0 * k) / (a1 * k - a0 * k) = (w - a0) / (a1 - a0) := by
        rw [← sub_mul, ← sub_mul, mul_div_mul_right _ _ (ne_of_gt hk)]
      rw [mul_div_assoc, this, ← mul_div_assoc]
    · rw [if_neg (fun h => hin (c1.mp h)), if_neg hin]; exact ih
end interp
end Lentil.Det
