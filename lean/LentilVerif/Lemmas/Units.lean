import Mathlib.Tactic.Ring
import Mathlib.Tactic.FieldSimp
import Mathlib.Tactic.NormNum
import Mathlib.Algebra.Order.Field.Rat
import LentilVerif.Model.Units
/-! helper lemmas for C14 (unit tables, trapezoid sums under rescaling, zipWith round trips) -/
namespace Lentil.Units
open Gen Lentil.Spec

theorem waveTo_cocycle {K : Type} [Field K] [CharZero K] :
    ∀ a b c : WUnit, (waveTo a b : K) * waveTo b c = waveTo a c := by
  intro a b c; cases a <;> cases b <;> cases c <;> norm_num [waveTo]

theorem waveTo_self {K : Type} [Field K] [CharZero K] : ∀ a : WUnit, (waveTo a a : K) = 1 := by
  intro a; cases a <;> norm_num [waveTo]

theorem waveTo_ne_zero {K : Type} [Field K] [CharZero K] : ∀ a b : WUnit, (waveTo a b : K) ≠ 0 := by
  intro a b; cases a <;> cases b <;> norm_num [waveTo]

theorem waveTo_pos : ∀ a b : WUnit, (0 : ℚ) < waveTo a b := by
  intro a b; cases a <;> cases b <;> norm_num [waveTo]

/-- closed forms of the model's `toWave`/`toFlux` (defined through the generated per-sample steps `Gen.toStep*`): these bridge
lemmas stop checking when `Spectrum.to` changes which quantity is multiplied or divided by which factor -/
theorem toWave_eq (u : WUnit) (s : USpec) : toWave u s =
    (match s.vu with
     | some f => { wave := s.wave.map (· * (waveTo s.wu u : ℚ)), value := s.value.map (· / (waveTo s.wu u : ℚ)), wu := u, vu := some f }
     | none => { wave := s.wave.map (· * (waveTo s.wu u : ℚ)), value := s.value, wu := u, vu := none }) := by
  have hid : (Gen.toStepValueUnitless : ℚ → ℚ) = id := by funext v; rfl
  unfold toWave
  cases s.vu <;> simp [Gen.toStepWaveDensity, Gen.toStepValueDensity, Gen.toStepWaveUnitless, hid]

theorem toFlux_eq (g : FUnit) (H C : ℚ) (s : USpec) : toFlux g H C s =
    (match s.vu with
     | none => none
     | some f => some { wave := s.wave,
                        value := List.zipWith (fun v w => fluxTo f g (v / (waveTo s.wu .m : ℚ)) (w * (waveTo s.wu .m : ℚ)) H C / (waveTo .m s.wu : ℚ)) s.value s.wave,
                        wu := s.wu, vu := some g }) := by
  unfold toFlux
  cases s.vu <;> simp [Gen.toStepFlux]

theorem trapz_nil_left (v : List ℚ) : trapz [] v = 0 := by simp [trapz]
theorem trapz_single_left (x : ℚ) (v : List ℚ) : trapz [x] v = 0 := by simp [trapz]

/-- trapezoid sum is unchanged when the abscissae are multiplied and the ordinates divided by the same non-zero factor -/
theorem trapz_scale (k : ℚ) (hk : k ≠ 0) :
    ∀ w v : List ℚ, trapz (w.map (· * k)) (v.map (· / k)) = trapz w v := by
  intro w v
  fun_induction trapz w v with
  | case1 x0 x1 xs y0 y1 ys ih =>
    simp only [List.map_cons, trapz] at ih ⊢
    rw [ih]; first | (field_simp; ring) | field_simp
  | case2 w v h =>
    cases w with
    | nil => simp [trapz]
    | cons x0 xs =>
      cases xs with
      | nil => simp [trapz]
      | cons x1 xs =>
        cases v with
        | nil => simp [trapz]
        | cons y0 ys =>
          cases ys with
          | nil => simp [trapz]
          | cons y1 ys => exact absurd rfl (h x0 x1 xs y0 y1 ys rfl)

theorem map_mul_mul (l : List ℚ) (a b : ℚ) : (l.map (· * a)).map (· * b) = l.map (· * (a * b)) := by
  simp [List.map_map, Function.comp_def, mul_assoc]

theorem map_div_div (l : List ℚ) (a b : ℚ) : (l.map (· / a)).map (· / b) = l.map (· / (a * b)) := by
  simp [List.map_map, Function.comp_def, div_div]

theorem map_mul_one (l : List ℚ) : l.map (· * (1 : ℚ)) = l := by simp
theorem map_div_one (l : List ℚ) : l.map (· / (1 : ℚ)) = l := by simp

/-- two zipWith passes against the same second list undo each other when they do so pointwise -/
theorem zipWith_round_trip (F G : ℚ → ℚ → ℚ) (P : ℚ → Prop) (h : ∀ v w, P w → G (F v w) w = v) :
    ∀ (vs ws : List ℚ), vs.length = ws.length → (∀ w ∈ ws, P w) →
      List.zipWith G (List.zipWith F vs ws) ws = vs := by
  intro vs
  induction vs with
  | nil => intro ws _ _; simp
  | cons v vs ih =>
    intro ws hl hp
    cases ws with
    | nil => simp at hl
    | cons w ws =>
      simp only [List.zipWith_cons_cons]
      rw [h v w (hp w (by simp)), ih ws (by simpa using hl) (fun x hx => hp x (by simp [hx]))]

/-- two zipWith passes against the same second list compose pointwise -/
theorem zipWith_comp (F G F' : ℚ → ℚ → ℚ) (P : ℚ → Prop) (h : ∀ v w, P w → G (F v w) w = F' v w) :
    ∀ (vs ws : List ℚ), (∀ w ∈ ws, P w) → List.zipWith G (List.zipWith F vs ws) ws = List.zipWith F' vs ws := by
  intro vs
  induction vs with
  | nil => intro ws _; simp
  | cons v vs ih =>
    intro ws hp
    cases ws with
    | nil => simp
    | cons w ws =>
      simp only [List.zipWith_cons_cons]
      rw [h v w (hp w (by simp)), ih ws (fun x hx => hp x (by simp [hx]))]

theorem length_zipWith_eq (F : ℚ → ℚ → ℚ) (vs ws : List ℚ) (h : vs.length = ws.length) :
    (List.zipWith F vs ws).length = vs.length := by simp [h]

/-- flux conversion there and back through metres, with abstract metre factors `km·back = 1` -/
theorem flux_there_and_back {K : Type} [Field K] [CharZero K] (v w H C km back : K)
    (hw : w ≠ 0) (hH : H ≠ 0) (hC : C ≠ 0) (hkm : km ≠ 0) (hb : back ≠ 0) (hkb : km * back = 1) :
    ∀ f g : FUnit, fluxTo g f ((fluxTo f g (v / km) (w * km) H C / back) / km) (w * km) H C / back = v := by
  have hb' : back = 1 / km := by field_simp; rw [mul_comm]; exact hkb
  subst hb'
  intro f g; cases f <;> cases g <;> simp only [fluxTo] <;> field_simp <;> simp

end Lentil.Units
