import LentilVerif.Model.Geometry
import Mathlib.Algebra.BigOperators.Intervals
/-! Fold-sums of the model as `Finset` sums, and the block-sum identity behind `rebin`. -/
namespace Lentil
open Finset

theorem sumRange_eq_sum {K} [AddCommMonoid K] (n : ℕ) (f : ℕ → K) : sumRange n f = ∑ i ∈ range n, f i := by
  unfold sumRange
  induction n with
  | zero => simp
  | succ n ih => rw [List.range_succ, List.foldl_append, ih, sum_range_succ]; rfl

/-- summing `f` consecutive samples in each of `n` blocks is summing all `n·f` samples -/
theorem sum_blocks {K} [AddCommMonoid K] (n f : ℕ) (g : ℕ → K) :
    ∑ i ∈ range n, ∑ u ∈ range f, g (i * f + u) = ∑ k ∈ range (n * f), g k := by
  induction n with
  | zero => simp
  | succ n ih => rw [sum_range_succ, ih, Nat.succ_mul, sum_range_add]

theorem sum_blocks2 {K} [AddCommMonoid K] (n0 n1 f : ℕ) (G : ℕ → ℕ → K) :
    ∑ i ∈ range n0, ∑ j ∈ range n1, ∑ u ∈ range f, ∑ v ∈ range f, G (i * f + u) (j * f + v)
      = ∑ x ∈ range (n0 * f), ∑ y ∈ range (n1 * f), G x y := by
  rw [← sum_blocks n0 f]
  apply sum_congr rfl; intro i _
  rw [sum_comm]
  apply sum_congr rfl; intro u _
  exact sum_blocks n1 f (G (i * f + u))

end Lentil
