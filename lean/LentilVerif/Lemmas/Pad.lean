import LentilVerif.Lemmas.Canvas
import LentilVerif.Model.PropagateFft
/-! `lentil.util.pad` of an array no larger than the target, and the scratch path of `propagate_fft` versus
`pad(Wavefront.field, fft_shape)`. -/
namespace Lentil

variable {K : Type}

/-- per-axis closed form of the generated pad index block: (src start, src stop, dst start, dst stop). (Same statement as
C20's `padIdx2_eq` in Lemmas/Geometry.lean, which cannot be imported here: Model/Geometry and Model/Plane both declare
`Lentil.firstTrue`.) -/
def padAxisB (m S : Int) : Int × Int × Int × Int :=
  if S - m ≤ 0 then (m / 2 - S / 2, m / 2 - S / 2 + S, 0, S) else (0, m, S / 2 - m / 2, S / 2 - m / 2 + m)

theorem padIdx2_closed (m0 m1 S0 S1 : Int) :
    Gen.padIdx2 m0 m1 S0 S1 =
      (((padAxisB m0 S0).1, (padAxisB m0 S0).2.1, (padAxisB m1 S1).1, (padAxisB m1 S1).2.1),
       ((padAxisB m0 S0).2.2.1, (padAxisB m0 S0).2.2.2, (padAxisB m1 S1).2.2.1, (padAxisB m1 S1).2.2.2)) := by
  unfold Gen.padIdx2 padAxisB
  by_cases h0 : S0 - m0 ≤ 0 <;> by_cases h1 : S1 - m1 ≤ 0 <;> simp [h0, h1]

/-- zero-padding (array no larger than the target on both axes): the array's origin sample `floor(n/2)` lands on the
target's origin sample `floor(S/2)`, zeros elsewhere -/
theorem padTo_get [Zero K] (a : Arr K) (S0 S1 : Int) (h0 : a.s0 ≤ S0) (h1 : a.s1 ≤ S1) (i j : Int) :
    (padTo a S0 S1).get i j =
      if decide (S0 / 2 - a.s0 / 2 ≤ i) && decide (i < S0 / 2 - a.s0 / 2 + a.s0) &&
         decide (S1 / 2 - a.s1 / 2 ≤ j) && decide (j < S1 / 2 - a.s1 / 2 + a.s1)
      then a.get (i - (S0 / 2 - a.s0 / 2)) (j - (S1 / 2 - a.s1 / 2)) else 0 := by
  unfold padTo
  simp only [padIdx2_closed, padAxisB]
  by_cases e0 : S0 - a.s0 ≤ 0 <;> by_cases e1 : S1 - a.s1 ≤ 0 <;> simp only [e0, e1, if_true, if_false, inRegion]
  · have : a.s0 = S0 := by omega
    have : a.s1 = S1 := by omega
    simp_all
  · have : a.s0 = S0 := by omega
    simp_all
  · have : a.s1 = S1 := by omega
    simp_all
  · simp

/-- a field lies on the `W0 x W1` canvas of its wavefront -/
def Fld.within (f : Fld K) (W0 W1 : Int) : Prop :=
  (arrayExtent W0 W1 0 0).rmin ≤ f.extent.rmin ∧ f.extent.rmax ≤ (arrayExtent W0 W1 0 0).rmax ∧
  (arrayExtent W0 W1 0 0).cmin ≤ f.extent.cmin ∧ f.extent.cmax ≤ (arrayExtent W0 W1 0 0).cmax

theorem emb_zero_outside [Zero K] (f : Fld K) (W0 W1 : Int) (hw : f.within W0 W1) (r c : Int)
    (h : ¬ ((arrayExtent W0 W1 0 0).inb r c = true)) : f.emb r c = 0 := by
  unfold Fld.emb embAt
  have : f.extent.inb r c = false := by
    cases hh : f.extent.inb r c with
    | false => rfl
    | true =>
      exfalso; apply h
      rw [Extent.inb_iff] at hh ⊢
      unfold Fld.within at hw; omega
  simp only [this, Bool.false_eq_true, if_false]

/-- **The scratch path and `pad(Wavefront.field, fft_shape)` build the same grid**, whatever the buffer held and however
large it is: at every index of the `S0 x S1` grid, for a wavefront no larger than the grid whose fields lie on its canvas. -/
theorem scratch_eq_pad [Semiring K] (fs : List (Fld K)) (W0 W1 S0 S1 : Int) (scr : Arr K)
    (hW : 0 ≤ W0 ∧ W0 ≤ S0 ∧ 0 ≤ W1 ∧ W1 ≤ S1) (hfit : ∀ f ∈ fs, f.within W0 W1)
    (i j : Int) (hi : 0 ≤ i ∧ i < S0) (hj : 0 ≤ j ∧ j < S1) :
    (fftGrid 1 fs W0 W1 S0 S1 (some scr)).get i j = (fftGrid 1 fs W0 W1 S0 S1 none).get i j := by
  have hshape := foldInsert_shape fs ({ s0 := W0, s1 := W1, get := fun _ _ => (0 : K) } : Arr K) (1 : K)
  simp only at hshape
  unfold fftGrid
  -- scratch path: zero corner plus the sum of the embeddings
  rw [foldInsert_get fs (zeroedCorner scr S0 S1) i j hi hj]
  have hz : (zeroedCorner scr S0 S1).get i j = 0 := zeroedCorner_get scr S0 S1 i j hi hj
  rw [hz, zero_add]
  show _ = (padTo (wavefrontField 1 fs W0 W1) S0 S1).get i j
  have hs0 : (wavefrontField 1 fs W0 W1).s0 = W0 := hshape.1
  have hs1 : (wavefrontField 1 fs W0 W1).s1 = W1 := hshape.2
  rw [padTo_get _ S0 S1 (by rw [hs0]; exact hW.2.1) (by rw [hs1]; exact hW.2.2.2), hs0, hs1]
  simp only [show (zeroedCorner scr S0 S1).s0 = S0 from rfl, show (zeroedCorner scr S0 S1).s1 = S1 from rfl]
  by_cases hin : (decide (S0 / 2 - W0 / 2 ≤ i) && decide (i < S0 / 2 - W0 / 2 + W0) &&
      decide (S1 / 2 - W1 / 2 ≤ j) && decide (j < S1 / 2 - W1 / 2 + W1)) = true
  · simp only [hin, if_true]
    simp only [Bool.and_eq_true, decide_eq_true_eq] at hin
    rw [wavefrontField_get fs W0 W1 _ _ (by omega) (by omega)]
    congr 1
    apply List.map_congr_left; intro f _
    congr 1 <;> omega
  · simp only [hin]
    simp only [Bool.and_eq_true, decide_eq_true_eq] at hin
    apply List.sum_eq_zero
    intro x hx
    obtain ⟨f, hf, rfl⟩ := List.mem_map.mp hx
    apply emb_zero_outside f W0 W1 (hfit f hf)
    rw [Extent.inb_iff, arrayExtent_eq]; simp only; omega

end Lentil
