import LentilVerif.Lemmas.Tilt
import Mathlib.Algebra.BigOperators.Intervals
import Mathlib.Data.Int.ModEq
import Mathlib.Tactic.FieldSimp
/-! The centred FFT (`fftshift ∘ fft2(ortho) ∘ ifftshift`, NumPy contracts) equals the unitary `dft2` with `alpha = 1/S`
and both origins at `floor(S/2)` — for even and odd `S`. Helper lemmas for C09. -/
namespace Lentil
open Finset

section sums
variable {K : Type} [CommRing K]

theorem sumRange_eq_finset (n : Nat) (f : Nat → K) : sumRange n f = ∑ i ∈ range n, f i := by
  induction n with
  | zero => simp [sumRange]
  | succ n ih => rw [sumRange_succ, Finset.sum_range_succ, ih]

/-- a rotation of the summation index by `h` (mod `n`) does not change a sum over a full period -/
theorem sum_rot (n h : Nat) (hh : h ≤ n) (g : Nat → K) :
    ∑ a ∈ range n, g ((a + h) % n) = ∑ a ∈ range n, g a := by
  obtain ⟨m, rfl⟩ : ∃ m, n = m + h := ⟨n - h, by omega⟩
  have R : ∑ a ∈ range (m + h), g a = ∑ a ∈ range h, g a + ∑ a ∈ range m, g (h + a) := by
    rw [add_comm m h, Finset.sum_range_add]
  rw [R, Finset.sum_range_add (fun a => g ((a + h) % (m + h))) m h, add_comm]
  congr 1
  · apply Finset.sum_congr rfl; intro x hx
    have : (m + x + h) % (m + h) = x := by
      rw [show m + x + h = (m + h) + x by omega, Nat.add_mod_left, Nat.mod_eq_of_lt]
      have := Finset.mem_range.mp hx; omega
    simp only [this]
  · apply Finset.sum_congr rfl; intro x hx
    have : (x + h) % (m + h) = h + x := by
      rw [Nat.mod_eq_of_lt (by have := Finset.mem_range.mp hx; omega)]; omega
    simp only [this]

/-- the same with `Int` indices as used by the model: `npIfftshiftIdx n a = (a + n/2) % n` -/
theorem sumRange_rot (S : Int) (hS : 0 < S) (g : Int → K) :
    sumRange S.toNat (fun a => g (npIfftshiftIdx S a)) = sumRange S.toNat (fun a => g a) := by
  rw [sumRange_eq_finset, sumRange_eq_finset]
  obtain ⟨n, rfl⟩ : ∃ n : Nat, S = n := ⟨S.toNat, by omega⟩
  simp only [Int.toNat_natCast]
  have hh : n / 2 ≤ n := Nat.div_le_self n 2
  rw [← sum_rot n (n / 2) hh (fun a => g (a : Int))]
  apply Finset.sum_congr rfl; intro a _
  congr 1
end sums

section kernel
set_option linter.unusedSectionVars false
variable {K R : Type} [Field R] [RealLike R] [CommRing K] [CxLike K R]

/-- `exp(-2 pi i t/n)` is `n`-periodic in the integer `t` (true of the complex exponential; hypothesis of the generic
statement) -/
def RootPeriodic (K R : Type) [Field R] [RealLike R] [CommRing K] [CxLike K R] : Prop :=
  ∀ n a b : Int, a % n = b % n → (rootPow (R := R) n a : K) = rootPow (R := R) n b

/-- the FFT kernel at rotated input index / rotated output index is the centred kernel -/
theorem rootPow_rot (hper : RootPeriodic K R) (n a u : Int) :
    (rootPow (R := R) n (a * npFftshiftIdx n u) : K) =
      rootPow (R := R) n ((npIfftshiftIdx n a - n / 2) * (u - n / 2)) := by
  apply hper
  unfold npFftshiftIdx npIfftshiftIdx
  have h1 : (a + n / 2) % n - n / 2 ≡ a [ZMOD n] := by
    have := (Int.mod_modEq (a + n / 2) n).sub_right (n / 2)
    simpa using this
  have h2 : (u - n / 2) % n ≡ u - n / 2 [ZMOD n] := Int.mod_modEq _ _
  exact (h1.symm.mul h2)

/-- `dft2`'s kernel with `alpha = 1/n`, `n` output samples, zero shift and offset, is the centred root-of-unity kernel -/
theorem dftKernel_one_div (hcast : ∀ n : Int, (RealLike.ofInt n : R) = (n : R)) (n x u : Int) :
    (dftKernel (1 / (n : R)) n n 0 0 x u : K) = rootPow (R := R) n ((x - n / 2) * (u - n / 2)) := by
  unfold dftKernel rootPow cc
  congr 1
  simp only [hcast]; push_cast; ring

/-- un-normalised double sums of the centred FFT and of `dft2` with `alpha = 1/S` agree at every output index -/
theorem fft_sum_eq_dft_sum (hcast : ∀ n : Int, (RealLike.ofInt n : R) = (n : R)) (hper : RootPeriodic K R)
    (x : Arr K) (hS0 : 0 < x.s0) (hS1 : 0 < x.s1) (u v : Int) :
    (sumRange x.s1.toNat fun b =>
      (sumRange x.s0.toNat fun a => (rootPow (R := R) x.s0 (a * npFftshiftIdx x.s0 u) : K) *
          x.get (npIfftshiftIdx x.s0 a) (npIfftshiftIdx x.s1 b)) * rootPow (R := R) x.s1 (b * npFftshiftIdx x.s1 v)) =
    (sumRange x.s1.toNat fun y =>
      (sumRange x.s0.toNat fun x' => (dftKernel (1 / (x.s0 : R)) x.s0 x.s0 0 0 x' u : K) * x.get x' y) *
        dftKernel (1 / (x.s1 : R)) x.s1 x.s1 0 0 y v) := by
  -- rotate the outer index of the right-hand side
  rw [← sumRange_rot x.s1 hS1 (fun y : Int =>
      (sumRange x.s0.toNat fun x' => (dftKernel (1 / (x.s0 : R)) x.s0 x.s0 0 0 x' u : K) * x.get x' y) *
        dftKernel (1 / (x.s1 : R)) x.s1 x.s1 0 0 y v)]
  apply sumRange_congr; intro b _
  rw [dftKernel_one_div hcast, ← rootPow_rot hper]
  congr 1
  -- rotate the inner index
  rw [← sumRange_rot x.s0 hS0 (fun x' : Int =>
      (dftKernel (1 / (x.s0 : R)) x.s0 x.s0 0 0 x' u : K) * x.get x' (npIfftshiftIdx x.s1 b))]
  apply sumRange_congr; intro a _
  rw [dftKernel_one_div hcast, ← rootPow_rot hper]
end kernel

end Lentil
