import LentilVerif.Lemmas.Energy
import LentilVerif.Model.Blur
import Mathlib.Analysis.SpecialFunctions.Trigonometric.Sinc
import Mathlib.Tactic.Linarith
/-! Helper lemmas for the blur model (C19) at `K = ℂ`, `R = ℝ`. -/
open Finset
namespace Lentil

noncomputable instance instBlurLikeReal : BlurLike ℝ :=
  ⟨fun x => Real.sinc (Real.pi * x), Real.exp, Real.sin, Real.cos, Real.pi, fun x => decide (x = 0)⟩
noncomputable instance instAbsLikeComplex : AbsLike ℂ ℝ := ⟨fun z => ‖z‖⟩

/-! ## materialising an array does not change it -/

theorem force_get {A : Type} (a : Arr A) (i j : ℤ) : a.force.get i j = a.get i j := by
  unfold Arr.force
  simp only
  split_ifs with h
  · obtain ⟨hi0, hi1, hj0, hj1⟩ := h
    have hs1 : 0 < a.s1 := by omega
    have hidx : 0 ≤ i * a.s1 + j := by positivity
    have hlt : i * a.s1 + j < a.s0 * a.s1 := by nlinarith
    have hnat : (i * a.s1 + j).toNat < (a.s0 * a.s1).toNat := by omega
    rw [Array.getD_eq_getD_getElem?]
    simp only [List.getElem?_toArray, List.getElem?_map, List.getElem?_range hnat, Option.map_some, Option.getD_some]
    have e : Int.ofNat (i * a.s1 + j).toNat = i * a.s1 + j := by simp [Int.toNat_of_nonneg hidx]
    rw [e]
    have e1 : (i * a.s1 + j) / a.s1 = i := by
      rw [add_comm, Int.add_mul_ediv_right _ _ (ne_of_gt hs1), Int.ediv_eq_zero_of_lt hj0 hj1, zero_add]
    have e2 : (i * a.s1 + j) % a.s1 = j := by
      rw [add_comm, Int.add_mul_emod_self_right, Int.emod_eq_of_lt hj0 hj1]
    rw [e1, e2]
  · rfl

@[simp] theorem force_s0 {A : Type} (a : Arr A) : a.force.s0 = a.s0 := rfl
@[simp] theorem force_s1 {A : Type} (a : Arr A) : a.force.s1 = a.s1 := rfl

theorem force_eq {A : Type} (a : Arr A) : a.force = a := by
  have h : a.force.get = a.get := funext fun i => funext fun j => force_get a i j
  cases a with
  | mk s0 s1 g =>
    show Arr.mk s0 s1 (Arr.force ⟨s0, s1, g⟩).get = Arr.mk s0 s1 g
    rw [h]

/-- the executable blur core (with materialised intermediates) is the plain composition -/
theorem blurCore_def (img k : Arr ℝ) :
    blurCore ℂ img k = absArr (ifft2 (R := ℝ) (mulKernel (fft2 (R := ℝ) (toCx (K := ℂ) img)) k)) := by
  simp only [blurCore, force_eq]

/-- the three blurs as the source composes them (`Gen.bw…Renorm` regenerated from the `return` statements) -/
theorem pixel_def (img : Arr ℝ) (os : ℝ) : pixel ℂ img os = blurCore ℂ img (pixelKernel img.s0 img.s1 os) := by
  simp only [pixel, Gen.bwPixelRenorm, Bool.false_eq_true, if_false, Gen.bwPixelApply, stAbs, stIfft2, stFft2, stMul, blurCore]
/-- the closing statements of `jitter` / `smear` at ℝ: a blurred frame with zero total is returned as it is (the regenerated guard
`if np.sum(out) == 0: return out`), any other is rescaled to the input total -/
noncomputable def renormZ (img out : Arr ℝ) : Arr ℝ := if arrSum out = 0 then out else renorm img out
theorem renormZ_ne (img out : Arr ℝ) (h : arrSum out ≠ 0) : renormZ img out = renorm img out := by simp [renormZ, h]
theorem renormZ_zero (img out : Arr ℝ) (h : arrSum out = 0) : renormZ img out = out := by simp [renormZ, h]
theorem renormZ_s0 (img out : Arr ℝ) : (renormZ img out).s0 = out.s0 := by unfold renormZ; split_ifs <;> rfl
theorem renormZ_s1 (img out : Arr ℝ) : (renormZ img out).s1 = out.s1 := by unfold renormZ; split_ifs <;> rfl

theorem renormGuarded_true_eq (img out : Arr ℝ) :
    renormGuarded true (fun o s t : ℝ => (o * s) / t) img out = renormZ img out := by
  unfold renormGuarded renormZ
  by_cases h : arrSum out = 0
  · simp [h, BlurLike.isZero]
  · simp [h, BlurLike.isZero, renormWith, renorm]

theorem jitter_def (img : Arr ℝ) (scale ps os : ℝ) :
    jitter ℂ img scale ps os = renormZ img (blurCore ℂ img (jitterKernel img.s0 img.s1 scale ps os)) := by
  rw [← renormGuarded_true_eq]
  simp only [jitter, Gen.bwJitterRenorm, if_true, Gen.bwJitterApply, stAbs, stIfft2, stFft2, stMul, blurCore,
    Gen.bwJitterRenormGuard]
  rfl
theorem smear_def (img : Arr ℝ) (dist ang ps os : ℝ) :
    smear ℂ img dist ang ps os = renormZ img (blurCore ℂ img (smearKernel img.s0 img.s1 dist ang ps os)) := by
  rw [← renormGuarded_true_eq]
  simp only [smear, Gen.bwSmearRenorm, if_true, Gen.bwSmearApply, stAbs, stIfft2, stFft2, stMul, blurCore,
    Gen.bwSmearRenormGuard]
  rfl

theorem renorm_get (img out : Arr ℝ) (i j : ℤ) : (renorm img out).get i j = out.get i j * arrSum img / arrSum out := rfl

/-- zero frequency sits at index 0 -/
theorem fftfreqIdx_zero (n : ℤ) (hn : 1 ≤ n) : fftfreqIdx n 0 = 0 := by
  unfold fftfreqIdx; rw [if_pos (by omega)]

theorem fftfreq_zero (n : ℤ) (hn : 1 ≤ n) : (fftfreq n 0 : ℝ) = 0 := by
  unfold fftfreq; rw [fftfreqIdx_zero n hn]; simp [RealLike.ofInt]

open ComplexConjugate

theorem fker_symm (n : ℕ) (a k : ℤ) : fker n a k = fker n k a := by
  unfold fker ker cc; congr 1; push_cast; ring

theorem fker_zero_left (n : ℕ) (k : ℤ) : fker n 0 k = 1 := by
  unfold fker ker cc; simp

theorem orth_fker (n : ℕ) (hn : 0 < n) : Orth n n (fun a k => fker n a k) :=
  orth_ker n n hn le_rfl n _ _

@[simp] theorem fft2_s0 (x : Arr ℂ) : (fft2 (R := ℝ) x).s0 = x.s0 := rfl
@[simp] theorem fft2_s1 (x : Arr ℂ) : (fft2 (R := ℝ) x).s1 = x.s1 := rfl

theorem fft2_get_eq (x : Arr ℂ) (m n : ℕ) (hm : x.s0 = m) (hn : x.s1 = n) (k l : ℤ) :
    (fft2 (R := ℝ) x).get k l = ∑ b ∈ range n, (∑ a ∈ range m, fker m a k * x.get a b) * fker n b l := by
  unfold fft2
  rw [dft2_get_eq]
  simp only [dft2Sum, hm, hn, RealLike.ofInt, Int.toNat_natCast, Bool.false_eq_true, if_false, one_mul, Int.cast_one,
    Int.cast_natCast, fker]

theorem ifft2_get_eq (X : Arr ℂ) (m n : ℕ) (hm : X.s0 = m) (hn : X.s1 = n) (i j : ℤ) :
    (ifft2 (R := ℝ) X).get i j
      = (∑ v ∈ range n, (∑ u ∈ range m, conj (fker m u i) * X.get u v) * conj (fker n v j)) / ((m : ℂ) * n) := by
  unfold ifft2
  simp only [CxLike.divInt, CxLike.conj]
  rw [fft2_get_eq ⟨X.s0, X.s1, fun i j => conj (X.get i j)⟩ m n hm hn]
  simp only [map_sum, map_mul, Complex.conj_conj, hm, hn]
  push_cast
  rfl

/-- `ifft2 ∘ fft2 = id` on every sample (contract-level inversion of the plain DFT pair) -/
theorem ifft2_fft2 (x : Arr ℂ) (m n : ℕ) (hm : x.s0 = m) (hn : x.s1 = n) (hm0 : 0 < m) (hn0 : 0 < n)
    (i j : ℕ) (hi : i < m) (hj : j < n) : (ifft2 (R := ℝ) (fft2 (R := ℝ) x)).get i j = x.get i j := by
  rw [ifft2_get_eq _ m n (by simpa using hm) (by simpa using hn)]
  simp only [fft2_get_eq x m n hm hn, fker_symm m _ (i : ℤ), fker_symm n _ (j : ℤ)]
  rw [inv2 m n m n (fun a k => fker m a k) (fun b l => fker n b l) (orth_fker m hm0) (orth_fker n hn0)
    (fun a b => x.get a b) i j hi hj]
  have hm' : (m : ℂ) ≠ 0 := by exact_mod_cast hm0.ne'
  have hn' : (n : ℂ) ≠ 0 := by exact_mod_cast hn0.ne'
  field_simp

/-- with the all-ones transfer function the blur core returns `|img|` -/
theorem blurCore_one (img k : Arr ℝ) (hk : ∀ i j, k.get i j = 1) (m n : ℕ) (hm : img.s0 = m) (hn : img.s1 = n)
    (hm0 : 0 < m) (hn0 : 0 < n) (i j : ℕ) (hi : i < m) (hj : j < n) :
    (blurCore ℂ img k).get i j = |img.get i j| := by
  have hmul : mulKernel (fft2 (R := ℝ) (toCx (K := ℂ) img)) k = fft2 (R := ℝ) (toCx (K := ℂ) img) := by
    unfold mulKernel; simp only [hk, CxLike.ofReal, Complex.ofReal_one, mul_one]
  rw [blurCore_def, hmul]
  simp only [absArr, AbsLike.cabs]
  rw [ifft2_fft2 (toCx (K := ℂ) img) m n hm hn hm0 hn0 i j hi hj]
  simp [toCx, CxLike.ofReal]

/-- renormalising an array by its own total is the identity when the total is non-zero -/
theorem renorm_of_eq (img out : Arr ℝ) (m n : ℕ) (hm : img.s0 = m) (hn : img.s1 = n) (hm' : out.s0 = m) (hn' : out.s1 = n)
    (h : ∀ i j : ℕ, i < m → j < n → out.get i j = img.get i j) (hS : arrSum img ≠ 0) (i j : ℕ) (hi : i < m) (hj : j < n) :
    (renorm img out).get i j = img.get i j := by
  have hsum : arrSum out = arrSum img := by
    rw [arrSum_eq, arrSum_eq, hm, hn, hm', hn']
    simp only [Int.toNat_natCast]
    exact sum_congr rfl fun i hi => sum_congr rfl fun j hj => h i j (mem_range.mp hi) (mem_range.mp hj)
  simp only [renorm_get, hsum, h i j hi hj]
  field_simp

/-! ## the blur keeps the (complex) total: `Σ ifft2(Y) = Y[0,0]` -/

theorem sum_conj_fker (m : ℕ) (hm0 : 0 < m) (u : ℕ) (hu : u < m) :
    ∑ i ∈ range m, conj (fker m u i) = if u = 0 then (m : ℂ) else 0 := by
  have := (orth_fker m hm0).conj u hu 0 hm0
  simpa [fker_zero_left] using this

theorem sum_swap4 (m n : ℕ) (a b Y : ℕ → ℕ → ℂ) :
    ∑ i ∈ range m, ∑ j ∈ range n, ∑ v ∈ range n, (∑ u ∈ range m, a u i * Y u v) * b v j
      = ∑ v ∈ range n, (∑ u ∈ range m, (∑ i ∈ range m, a u i) * Y u v) * ∑ j ∈ range n, b v j := by
  have h1 : ∀ i ∈ range m, ∑ j ∈ range n, ∑ v ∈ range n, (∑ u ∈ range m, a u i * Y u v) * b v j
      = ∑ v ∈ range n, (∑ u ∈ range m, a u i * Y u v) * ∑ j ∈ range n, b v j := by
    intro i _; rw [sum_comm]; exact sum_congr rfl fun v _ => by rw [mul_sum]
  rw [sum_congr rfl h1, sum_comm]
  refine sum_congr rfl fun v _ => ?_
  rw [← sum_mul]; congr 1
  rw [sum_comm]; exact sum_congr rfl fun u _ => by rw [sum_mul]

theorem sum_ifft2 (Y : Arr ℂ) (m n : ℕ) (hm : Y.s0 = m) (hn : Y.s1 = n) (hm0 : 0 < m) (hn0 : 0 < n) :
    ∑ i ∈ range m, ∑ j ∈ range n, (ifft2 (R := ℝ) Y).get i j = Y.get 0 0 := by
  simp only [ifft2_get_eq Y m n hm hn, div_eq_mul_inv, ← sum_mul]
  rw [sum_swap4 m n (fun u i => conj (fker m u i)) (fun v j => conj (fker n v j)) (fun u v => Y.get u v)]
  have hA : ∀ v ∈ range n, (∑ u ∈ range m, (∑ i ∈ range m, conj (fker m u i)) * Y.get u v) * ∑ j ∈ range n, conj (fker n v j)
      = if v = 0 then (m : ℂ) * Y.get 0 v * n else 0 := by
    intro v hv
    rw [sum_conj_fker n hn0 v (mem_range.mp hv)]
    have : ∑ u ∈ range m, (∑ i ∈ range m, conj (fker m u i)) * Y.get u v = (m : ℂ) * Y.get 0 v := by
      rw [sum_congr rfl (fun u hu => by rw [sum_conj_fker m hm0 u (mem_range.mp hu)])]
      simp only [ite_mul, zero_mul]
      rw [sum_ite_eq' (range m) 0 (fun u => (m : ℂ) * Y.get u v)]
      simp [hm0]
    rw [this]; split_ifs <;> simp
  rw [sum_congr rfl hA, sum_ite_eq' (range n) 0 (fun v => (m : ℂ) * Y.get 0 v * n)]
  have hm' : (m : ℂ) ≠ 0 := by exact_mod_cast hm0.ne'
  have hn' : (n : ℂ) ≠ 0 := by exact_mod_cast hn0.ne'
  simp only [mem_range, hn0, if_true, Nat.cast_zero]
  field_simp

/-- zero-frequency sample of the transform of a real image is its total -/
theorem fft2_dc (img : Arr ℝ) (m n : ℕ) (hm : img.s0 = m) (hn : img.s1 = n) :
    (fft2 (R := ℝ) (toCx (K := ℂ) img)).get 0 0 = ((arrSum img : ℝ) : ℂ) := by
  rw [fft2_get_eq _ m n hm hn, arrSum_eq, hm, hn]
  simp only [fker_symm _ _ 0, fker_zero_left, one_mul, mul_one, toCx, CxLike.ofReal, Int.toNat_natCast]
  push_cast
  rw [sum_comm]

/-- the un-normalised blur has total at least `|k[0,0]·Σ img|` (triangle inequality on `Σ ifft2(…) = Y[0,0]`) -/
theorem blurCore_total_ge (img k : Arr ℝ) (m n : ℕ) (hm : img.s0 = m) (hn : img.s1 = n) (hm0 : 0 < m) (hn0 : 0 < n) :
    |k.get 0 0 * arrSum img| ≤ arrSum (blurCore ℂ img k) := by
  have hY := sum_ifft2 (mulKernel (fft2 (R := ℝ) (toCx (K := ℂ) img)) k) m n hm hn hm0 hn0
  have hval : (mulKernel (fft2 (R := ℝ) (toCx (K := ℂ) img)) k).get 0 0 = ((k.get 0 0 * arrSum img : ℝ) : ℂ) := by
    simp only [mulKernel, fft2_dc img m n hm hn, CxLike.ofReal]; push_cast; ring
  rw [arrSum_eq (blurCore ℂ img k)]
  have h0 : (blurCore ℂ img k).s0 = m := hm
  have h1 : (blurCore ℂ img k).s1 = n := hn
  rw [h0, h1]
  simp only [Int.toNat_natCast, blurCore_def, absArr, AbsLike.cabs]
  calc |k.get 0 0 * arrSum img| = ‖((k.get 0 0 * arrSum img : ℝ) : ℂ)‖ := by rw [Complex.norm_real, Real.norm_eq_abs]
    _ = ‖∑ i ∈ range m, ∑ j ∈ range n, (ifft2 (R := ℝ) (mulKernel (fft2 (R := ℝ) (toCx (K := ℂ) img)) k)).get i j‖ := by
        rw [hY, hval]
    _ ≤ _ := (norm_sum_le _ _).trans (sum_le_sum fun i _ => norm_sum_le _ _)

/-- the complex total of the filtered image is `k[0,0] · Σ img` -/
theorem sum_filtered (img k : Arr ℝ) (m n : ℕ) (hm : img.s0 = m) (hn : img.s1 = n) (hm0 : 0 < m) (hn0 : 0 < n) :
    ∑ i ∈ range m, ∑ j ∈ range n, (ifft2 (R := ℝ) (mulKernel (fft2 (R := ℝ) (toCx (K := ℂ) img)) k)).get i j
      = ((k.get 0 0 * arrSum img : ℝ) : ℂ) := by
  rw [sum_ifft2 (mulKernel (fft2 (R := ℝ) (toCx (K := ℂ) img)) k) m n hm hn hm0 hn0]
  simp only [mulKernel, fft2_dc img m n hm hn, CxLike.ofReal]; push_cast; ring

/-! ## circular shifts (DFT shift theorem) -/

/-- summing `g((j - b) mod n)` over one period is summing `g` -/
theorem sum_roll1 {A : Type*} [AddCommMonoid A] (n : ℕ) (g : ℤ → A) (b : ℤ) :
    ∑ j ∈ range n, g (((j : ℤ) - b) % n) = ∑ j ∈ range n, g j := by
  have := sum_range_shift_int n (fun z => g (z % n)) (fun z => by simp only [Int.add_emod_right]) b
  rw [this]
  exact sum_congr rfl fun j hj => by rw [emod_range_nat n j hj]

/-- one-axis shift theorem for the plain DFT kernel -/
theorem dft1_roll (n : ℕ) (hn : 0 < n) (g : ℤ → ℂ) (a k : ℤ) :
    ∑ i ∈ range n, fker n i k * g (((i : ℤ) - a) % n) = fker n a k * ∑ i ∈ range n, fker n i k * g i := by
  have hper : ∀ z : ℤ, fker n (z + n) k * g ((z + n) % n) = fker n z k * g (z % n) := by
    intro z
    rw [Int.add_emod_right, fker_eq, fker_eq]
    congr 1
    exact E_congr n hn _ _ ⟨k, by ring⟩
  have h1 := sum_range_shift_int n (fun z => fker n z k * g (z % n)) hper a
  have h2 : ∑ i ∈ range n, fker n i k * g ((i : ℤ) % n) = ∑ i ∈ range n, fker n i k * g i :=
    sum_congr rfl fun i hi => by rw [emod_range_nat n i hi]
  rw [← h2, ← h1, mul_sum]
  refine sum_congr rfl fun i _ => ?_
  simp only [fker_eq]
  rw [← mul_assoc, ← E_add]; congr 2; ring

theorem conj_fker_mul (n : ℕ) (hn : 0 < n) (u i a : ℤ) :
    conj (fker n u i) * fker n a u = conj (fker n u ((i - a) % n)) := by
  simp only [fker_eq, conj_E, ← E_add]
  apply E_congr n hn
  rw [Int.emod_def (i - a) n]
  exact ⟨-(u * ((i - a) / n)), by ring⟩

theorem fft2_roll (x : Arr ℂ) (m n : ℕ) (hm : x.s0 = m) (hn : x.s1 = n) (hm0 : 0 < m) (hn0 : 0 < n) (a b k l : ℤ) :
    (fft2 (R := ℝ) (roll x a b)).get k l = fker m a k * fker n b l * (fft2 (R := ℝ) x).get k l := by
  rw [fft2_get_eq (roll x a b) m n hm hn, fft2_get_eq x m n hm hn]
  simp only [roll, hm, hn]
  have inner : ∀ j : ℕ, ∑ i ∈ range m, fker m i k * x.get (((i : ℤ) - a) % m) (((j : ℤ) - b) % n)
      = fker m a k * ∑ i ∈ range m, fker m i k * x.get i (((j : ℤ) - b) % n) :=
    fun j => dft1_roll m hm0 (fun z => x.get z (((j : ℤ) - b) % n)) a k
  simp only [inner]
  have outer := dft1_roll n hn0 (fun z => ∑ i ∈ range m, fker m i k * x.get i z) b l
  have e1 : ∑ j ∈ range n, (fker m a k * ∑ i ∈ range m, fker m i k * x.get i (((j : ℤ) - b) % n)) * fker n j l
      = fker m a k * ∑ j ∈ range n, fker n j l * ∑ i ∈ range m, fker m i k * x.get i (((j : ℤ) - b) % n) := by
    rw [mul_sum]; exact sum_congr rfl fun j _ => by ring
  rw [e1, outer, mul_assoc]
  congr 2
  exact sum_congr rfl fun j _ => mul_comm _ _

theorem roll_get {A : Type} (x : Arr A) (a b i j : ℤ) :
    (roll x a b).get i j = x.get ((i - a) % x.s0) ((j - b) % x.s1) := rfl

theorem toCx_roll (img : Arr ℝ) (a b : ℤ) : toCx (K := ℂ) (roll img a b) = roll (toCx (K := ℂ) img) a b := rfl

theorem ifft2_mul_roll (img k : Arr ℝ) (m n : ℕ) (hm : img.s0 = m) (hn : img.s1 = n) (hm0 : 0 < m) (hn0 : 0 < n)
    (a b i j : ℤ) :
    (ifft2 (R := ℝ) (mulKernel (fft2 (R := ℝ) (toCx (K := ℂ) (roll img a b))) k)).get i j
      = (ifft2 (R := ℝ) (mulKernel (fft2 (R := ℝ) (toCx (K := ℂ) img)) k)).get ((i - a) % m) ((j - b) % n) := by
  rw [ifft2_get_eq _ m n hm hn, ifft2_get_eq _ m n hm hn]
  have hnum : ∀ v ∈ range n,
      (∑ u ∈ range m, conj (fker m u i) * (mulKernel (fft2 (R := ℝ) (toCx (K := ℂ) (roll img a b))) k).get u v)
          * conj (fker n v j)
        = (∑ u ∈ range m, conj (fker m u ((i - a) % m)) * (mulKernel (fft2 (R := ℝ) (toCx (K := ℂ) img)) k).get u v)
          * conj (fker n v ((j - b) % n)) := by
    intro v _
    rw [sum_mul, sum_mul]
    refine sum_congr rfl fun u _ => ?_
    rw [← conj_fker_mul m hm0 u i a, ← conj_fker_mul n hn0 v j b]
    simp only [mulKernel, toCx_roll, fft2_roll (toCx (K := ℂ) img) m n hm hn hm0 hn0]
    ring
  rw [sum_congr rfl hnum]

/-- the blur core commutes with circular shifts, for any transfer function -/
theorem blurCore_roll (img k : Arr ℝ) (m n : ℕ) (hm : img.s0 = m) (hn : img.s1 = n) (hm0 : 0 < m) (hn0 : 0 < n)
    (a b i j : ℤ) :
    (blurCore ℂ (roll img a b) k).get i j = (blurCore ℂ img k).get ((i - a) % m) ((j - b) % n) := by
  rw [blurCore_def, blurCore_def]
  show ‖(ifft2 (R := ℝ) (mulKernel (fft2 (R := ℝ) (toCx (K := ℂ) (roll img a b))) k)).get i j‖
    = ‖(ifft2 (R := ℝ) (mulKernel (fft2 (R := ℝ) (toCx (K := ℂ) img)) k)).get ((i - a) % m) ((j - b) % n)‖
  rw [ifft2_mul_roll img k m n hm hn hm0 hn0]

theorem arrSum_roll (x : Arr ℝ) (m n : ℕ) (hm : x.s0 = m) (hn : x.s1 = n) (a b : ℤ) :
    arrSum (roll x a b) = arrSum x := by
  rw [arrSum_eq, arrSum_eq]
  simp only [roll, hm, hn, Int.toNat_natCast]
  rw [sum_roll1 m (fun z => ∑ j ∈ range n, x.get z (((j : ℤ) - b) % n)) a]
  exact sum_congr rfl fun i _ => sum_roll1 n (fun z => x.get i z) b

/-! ## Hermitian symmetry on odd axes and realness of the filtered image -/

/-- a function of period `n` has the same sum over the reflected period -/
theorem sum_range_neg {A : Type*} [AddCommMonoid A] (n : ℕ) (h : ℤ → A) (hper : ∀ z, h (z + n) = h z) :
    ∑ i ∈ range n, h (-(i : ℤ)) = ∑ i ∈ range n, h i := by
  have h1 := sum_range_shift_int n h hper ((n : ℤ) - 1)
  rw [← h1, ← Finset.sum_range_reflect (fun j => h ((j : ℤ) - ((n : ℤ) - 1))) n]
  refine sum_congr rfl fun j hj => ?_
  have hj' := mem_range.mp hj
  congr 1
  have : ((n - 1 - j : ℕ) : ℤ) = (n : ℤ) - 1 - j := by omega
  rw [this]; ring

theorem neg_emod_cases (n : ℕ) (hn : 0 < n) (u : ℤ) :
    (-u) % (n : ℤ) = if u % (n : ℤ) = 0 then 0 else (n : ℤ) - u % n := by
  have hn' : (0 : ℤ) < n := by exact_mod_cast hn
  have hw0 := Int.emod_nonneg u (ne_of_gt hn')
  have hw1 := Int.emod_lt_of_pos u hn'
  have e : -u = ((n : ℤ) - u % n) + n * (-(u / n) - 1) := by
    have := Int.emod_add_mul_ediv u n
    linarith
  rw [e, Int.add_mul_emod_self_left]
  split_ifs with h
  · rw [h, sub_zero, Int.emod_self]
  · exact Int.emod_eq_of_lt (by omega) (by omega)

/-- on an odd axis the frequency index is an odd function of the sample index modulo `n` -/
theorem fftfreqIdx_neg_odd (n : ℕ) (hodd : n % 2 = 1) (u : ℤ) :
    fftfreqIdx n ((-u) % n) = -fftfreqIdx n (u % n) := by
  have hn : 0 < n := by omega
  have hn' : (0 : ℤ) < n := by exact_mod_cast hn
  have hw0 := Int.emod_nonneg u (ne_of_gt hn')
  have hw1 := Int.emod_lt_of_pos u hn'
  rw [neg_emod_cases n hn u]
  unfold fftfreqIdx
  split_ifs <;> omega

theorem fftfreq_neg_odd (n : ℕ) (hodd : n % 2 = 1) (u : ℤ) :
    (fftfreq n ((-u) % n) : ℝ) = -fftfreq n (u % n) := by
  unfold fftfreq; rw [fftfreqIdx_neg_odd n hodd u]; simp [RealLike.ofInt, neg_div]

/-- evenness of a real transfer function under index negation modulo the shape (`K(−f) = K(f)`: Hermitian, being real) -/
def KerEven (k : Arr ℝ) (m n : ℕ) : Prop := ∀ u v : ℤ, k.get ((-u) % m) ((-v) % n) = k.get (u % m) (v % n)

/-- on any axis the frequency index at the negated sample index is the negated one, or (at the unpaired Nyquist sample of an
even axis) the same one -/
theorem fftfreqIdx_neg_any (n : ℕ) (hn : 0 < n) (u : ℤ) :
    fftfreqIdx n ((-u) % n) = -fftfreqIdx n (u % n) ∨ fftfreqIdx n ((-u) % n) = fftfreqIdx n (u % n) := by
  have hn' : (0 : ℤ) < n := by exact_mod_cast hn
  have hw0 := Int.emod_nonneg u (ne_of_gt hn')
  have hw1 := Int.emod_lt_of_pos u hn'
  rw [neg_emod_cases n hn u]
  unfold fftfreqIdx
  split_ifs <;> omega

theorem fftfreq_neg_any (n : ℕ) (hn : 0 < n) (u : ℤ) :
    (fftfreq n ((-u) % n) : ℝ) = -fftfreq n (u % n) ∨ (fftfreq n ((-u) % n) : ℝ) = fftfreq n (u % n) := by
  unfold fftfreq
  rcases fftfreqIdx_neg_any n hn u with h | h
  · left; rw [h]; simp [RealLike.ofInt, neg_div]
  · right; rw [h]

/-- the pixel transfer function is Hermitian on every shape (sinc is even in each frequency separately) -/
theorem pixelKernel_even_any (m n : ℕ) (hm : 0 < m) (hn : 0 < n) (os : ℝ) : KerEven (pixelKernel m n os) m n := by
  intro u v
  simp only [pixelKernel, Gen.bwPixelKernel, BlurLike.sinc]
  rcases fftfreq_neg_any m hm u with h1 | h1 <;> rcases fftfreq_neg_any n hn v with h2 | h2 <;>
    simp only [h1, h2, neg_mul, mul_neg, Real.sinc_neg]

/-- the jitter transfer function is Hermitian on every shape (it depends on `f_x² + f_y²` only) -/
theorem jitterKernel_even_any (m n : ℕ) (hm : 0 < m) (hn : 0 < n) (scale ps os : ℝ) :
    KerEven (jitterKernel m n scale ps os) m n := by
  intro u v
  simp only [jitterKernel, Gen.bwJitterKernel]
  rcases fftfreq_neg_any m hm u with h1 | h1 <;> rcases fftfreq_neg_any n hn v with h2 | h2 <;>
    simp only [h1, h2, neg_mul_neg]

theorem pixelKernel_even (m n : ℕ) (hm : m % 2 = 1) (hn : n % 2 = 1) (os : ℝ) : KerEven (pixelKernel m n os) m n := by
  intro u v
  simp only [pixelKernel, Gen.bwPixelKernel, fftfreq_neg_odd m hm, fftfreq_neg_odd n hn, BlurLike.sinc, neg_mul, mul_neg,
    Real.sinc_neg]

theorem jitterKernel_even (m n : ℕ) (hm : m % 2 = 1) (hn : n % 2 = 1) (scale ps os : ℝ) :
    KerEven (jitterKernel m n scale ps os) m n := by
  intro u v
  simp only [jitterKernel, Gen.bwJitterKernel, fftfreq_neg_odd m hm, fftfreq_neg_odd n hn, neg_mul_neg]

theorem smearKernel_even (m n : ℕ) (hm : m % 2 = 1) (hn : n % 2 = 1) (dist ang ps os : ℝ) :
    KerEven (smearKernel m n dist ang ps os) m n := by
  intro u v
  simp only [smearKernel, Gen.bwSmearKernel, fftfreq_neg_odd m hm, fftfreq_neg_odd n hn, BlurLike.sinc, mul_neg, ← neg_add,
    neg_mul, Real.sinc_neg]

theorem fker_period_right (n : ℕ) (hn : 0 < n) (a k : ℤ) : fker n a (k + n) = fker n a k := by
  rw [fker_eq, fker_eq]; exact E_congr n hn _ _ ⟨a, by ring⟩
theorem fker_period_left (n : ℕ) (hn : 0 < n) (a k : ℤ) : fker n (a + n) k = fker n a k := by
  rw [fker_eq, fker_eq]; exact E_congr n hn _ _ ⟨k, by ring⟩
theorem conj_fker_left (n : ℕ) (a k : ℤ) : conj (fker n a k) = fker n (-a) k := by
  rw [fker_eq, fker_eq, conj_E]; congr 1; ring
theorem conj_fker_right (n : ℕ) (a k : ℤ) : conj (fker n a k) = fker n a (-k) := by
  rw [fker_eq, fker_eq, conj_E]; congr 1; ring

/-- transform of a real image at any integer index pair: periodic, and conjugation negates the indices -/
theorem fft2_real_conj (img : Arr ℝ) (m n : ℕ) (hm : img.s0 = m) (hn : img.s1 = n) (u v : ℤ) :
    conj ((fft2 (R := ℝ) (toCx (K := ℂ) img)).get u v) = (fft2 (R := ℝ) (toCx (K := ℂ) img)).get (-u) (-v) := by
  rw [fft2_get_eq _ m n hm hn, fft2_get_eq _ m n hm hn]
  simp only [map_sum, map_mul, conj_fker_right, toCx, CxLike.ofReal, Complex.conj_ofReal]

theorem fft2_period0 (x : Arr ℂ) (m n : ℕ) (hm : x.s0 = m) (hn : x.s1 = n) (hm0 : 0 < m) (u v : ℤ) :
    (fft2 (R := ℝ) x).get (u + m) v = (fft2 (R := ℝ) x).get u v := by
  rw [fft2_get_eq _ m n hm hn, fft2_get_eq _ m n hm hn]; simp only [fker_period_right m hm0]
theorem fft2_period1 (x : Arr ℂ) (m n : ℕ) (hm : x.s0 = m) (hn : x.s1 = n) (hn0 : 0 < n) (u v : ℤ) :
    (fft2 (R := ℝ) x).get u (v + n) = (fft2 (R := ℝ) x).get u v := by
  rw [fft2_get_eq _ m n hm hn, fft2_get_eq _ m n hm hn]; simp only [fker_period_right n hn0]

/-- **realness.** For a real image and an even real transfer function, `ifft2(fft2(img)·K)` is real at every sample. -/
theorem filtered_real (img k : Arr ℝ) (m n : ℕ) (hm : img.s0 = m) (hn : img.s1 = n) (hm0 : 0 < m) (hn0 : 0 < n)
    (hk : KerEven k m n) (i j : ℤ) :
    conj ((ifft2 (R := ℝ) (mulKernel (fft2 (R := ℝ) (toCx (K := ℂ) img)) k)).get i j)
      = (ifft2 (R := ℝ) (mulKernel (fft2 (R := ℝ) (toCx (K := ℂ) img)) k)).get i j := by
  set X := fft2 (R := ℝ) (toCx (K := ℂ) img) with hX
  -- summand with periodic extensions in both frequency indices
  let T : ℤ → ℤ → ℂ := fun u v => conj (fker m u i) * (X.get u v * ((k.get (u % m) (v % n) : ℝ) : ℂ)) * conj (fker n v j)
  have hs0 : (mulKernel X k).s0 = m := hm
  have hs1 : (mulKernel X k).s1 = n := hn
  have hc : (ifft2 (R := ℝ) (mulKernel X k)).get i j = (∑ v ∈ range n, ∑ u ∈ range m, T u v) / ((m : ℂ) * n) := by
    rw [ifft2_get_eq _ m n hs0 hs1]
    congr 1
    refine sum_congr rfl fun v hv => ?_
    rw [sum_mul]
    refine sum_congr rfl fun u hu => ?_
    simp only [T, mulKernel, CxLike.ofReal, emod_range_nat m u hu, emod_range_nat n v hv]
  have hTconj : ∀ u v : ℤ, conj (T u v) = T (-u) (-v) := by
    intro u v
    simp only [T, map_mul, Complex.conj_conj, Complex.conj_ofReal, hX, fft2_real_conj img m n hm hn, hk u v]
    rw [conj_fker_left m (-u) i, conj_fker_left n (-v) j, neg_neg, neg_neg]
  have hper0 : ∀ v u : ℤ, T (u + m) v = T u v := by
    intro v u
    simp only [T, hX, fker_period_left m hm0, fft2_period0 (toCx (K := ℂ) img) m n hm hn hm0, Int.add_emod_right]
  have hper1 : ∀ u v : ℤ, T u (v + n) = T u v := by
    intro u v
    simp only [T, hX, fker_period_left n hn0, fft2_period1 (toCx (K := ℂ) img) m n hm hn hn0, Int.add_emod_right]
  rw [hc, map_div₀, map_mul, Complex.conj_natCast, Complex.conj_natCast, map_sum]
  congr 1
  simp only [map_sum, hTconj]
  rw [sum_range_neg n (fun v => ∑ u ∈ range m, T (-(u : ℤ)) v) (fun v => by simp only [hper1])]
  exact sum_congr rfl fun v _ => sum_range_neg m (fun u => T u v) (fun u => hper0 v u)

/-- the exact circular convolution of the image with the kernel whose DFT is `k`, in its Fourier form -/
noncomputable def conv (img k : Arr ℝ) : Arr ℂ := ifft2 (R := ℝ) (mulKernel (fft2 (R := ℝ) (toCx (K := ℂ) img)) k)

/-- "the output equals the convolution": `c = conv img k` is real everywhere and the un-normalised output is `|c|`; if `c ≥ 0`
on the image the output equals `c` at every sample, and with unit DC gain the total is kept and the renormalised output
equals `c` as well -/
def EqualsConvolution (img k : Arr ℝ) (m n : ℕ) : Prop :=
  (∀ i j : ℤ, (conv img k).get i j = (((conv img k).get i j).re : ℂ)) ∧
  (∀ i j : ℤ, (blurCore ℂ img k).get i j = |((conv img k).get i j).re|) ∧
  ((∀ i j : ℕ, i < m → j < n → 0 ≤ ((conv img k).get i j).re) →
    (∀ i j : ℕ, i < m → j < n → (blurCore ℂ img k).get i j = ((conv img k).get i j).re) ∧
    (k.get 0 0 = 1 → arrSum (blurCore ℂ img k) = arrSum img ∧
      (arrSum img ≠ 0 → ∀ i j : ℕ, i < m → j < n → (renorm img (blurCore ℂ img k)).get i j = ((conv img k).get i j).re)))

/-! ## convolution theorem; deviation from the Hermitian part (smear on even axes) -/

theorem sum4_reorder (A B A' B' : Finset ℕ) (T : ℕ → ℕ → ℕ → ℕ → ℂ) :
    ∑ v ∈ B, ∑ u ∈ A, ∑ b ∈ B', ∑ a ∈ A', T a b u v = ∑ a ∈ A', ∑ b ∈ B', ∑ v ∈ B, ∑ u ∈ A, T a b u v := by
  calc ∑ v ∈ B, ∑ u ∈ A, ∑ b ∈ B', ∑ a ∈ A', T a b u v
      = ∑ v ∈ B, ∑ b ∈ B', ∑ u ∈ A, ∑ a ∈ A', T a b u v := sum_congr rfl fun v _ => sum_comm
    _ = ∑ b ∈ B', ∑ v ∈ B, ∑ u ∈ A, ∑ a ∈ A', T a b u v := sum_comm
    _ = ∑ b ∈ B', ∑ v ∈ B, ∑ a ∈ A', ∑ u ∈ A, T a b u v := sum_congr rfl fun b _ => sum_congr rfl fun v _ => sum_comm
    _ = ∑ b ∈ B', ∑ a ∈ A', ∑ v ∈ B, ∑ u ∈ A, T a b u v := sum_congr rfl fun b _ => sum_comm
    _ = ∑ a ∈ A', ∑ b ∈ B', ∑ v ∈ B, ∑ u ∈ A, T a b u v := sum_comm

/-- **convolution theorem for the model's DFT pair.** The Fourier-form convolution `conv img k = ifft2(fft2(img)·k)` is the
spatial circular convolution of the image with the point-spread function `h = ifft2(k)`:
`c[i, j] = Σ_a Σ_b img[a, b] · h[(i − a) mod m, (j − b) mod n]`. -/
theorem conv_eq_circular_convolution (img k : Arr ℝ) (m n : ℕ) (hm : img.s0 = m) (hn : img.s1 = n) (hkm : k.s0 = m) (hkn : k.s1 = n)
    (hm0 : 0 < m) (hn0 : 0 < n) (i j : ℤ) :
    (conv img k).get i j = ∑ a ∈ range m, ∑ b ∈ range n, (img.get a b : ℂ) *
      (ifft2 (R := ℝ) (toCx (K := ℂ) k)).get ((i - a) % m) ((j - b) % n) := by
  have hX : ∀ u v : ℤ, (fft2 (R := ℝ) (toCx (K := ℂ) img)).get u v
      = ∑ b ∈ range n, (∑ a ∈ range m, fker m a u * (img.get a b : ℂ)) * fker n b v :=
    fun u v => by rw [fft2_get_eq _ m n hm hn]; rfl
  have hH : ∀ p q : ℤ, (ifft2 (R := ℝ) (toCx (K := ℂ) k)).get p q
      = (∑ v ∈ range n, (∑ u ∈ range m, conj (fker m u p) * (k.get u v : ℂ)) * conj (fker n v q)) / ((m : ℂ) * n) :=
    fun p q => by rw [ifft2_get_eq _ m n hkm hkn]; rfl
  unfold conv
  rw [ifft2_get_eq _ m n hm hn]
  simp only [mulKernel, hX, hH, CxLike.ofReal]
  simp only [← conj_fker_mul m hm0 _ i, ← conj_fker_mul n hn0 _ j]
  simp only [div_eq_mul_inv, mul_sum, sum_mul]
  rw [sum4_reorder (range m) (range n) (range m) (range n)
    (fun a b u v => conj (fker m u i) * (fker m a u * (img.get a b : ℂ) * fker n b v * (k.get u v : ℂ)) * conj (fker n v j) * ((m : ℂ) * n)⁻¹)]
  refine sum_congr rfl fun a _ => sum_congr rfl fun b _ => sum_congr rfl fun v _ => sum_congr rfl fun u _ => ?_
  ring

/-- even and odd parts of a real transfer function under negation of the frequency indices modulo the shape -/
noncomputable def evenPart (k : Arr ℝ) (m n : ℕ) : Arr ℝ :=
  { k with get := fun u v => (k.get (u % m) (v % n) + k.get ((-u) % m) ((-v) % n)) / 2 }
noncomputable def oddPart (k : Arr ℝ) (m n : ℕ) : Arr ℝ :=
  { k with get := fun u v => (k.get (u % m) (v % n) - k.get ((-u) % m) ((-v) % n)) / 2 }

theorem neg_neg_emod (n : ℕ) (u : ℤ) : (-((-u) % (n : ℤ))) % (n : ℤ) = u % n := by
  apply (Int.emod_emod_of_dvd _ (dvd_refl (n : ℤ))).symm.trans
  rw [Int.emod_emod_of_dvd _ (dvd_refl _)]
  apply Int.emod_eq_emod_iff_emod_sub_eq_zero.mpr
  have h := Int.emod_add_mul_ediv (-u) n
  have : -((-u) % (n : ℤ)) - u = (n : ℤ) * ((-u) / n) := by linarith
  rw [this, Int.mul_emod_right]

theorem neg_emod_emod (n : ℕ) (u : ℤ) : (-(u % (n : ℤ))) % (n : ℤ) = (-u) % n := by
  apply Int.emod_eq_emod_iff_emod_sub_eq_zero.mpr
  have h := Int.emod_add_mul_ediv u n
  have : -(u % (n : ℤ)) - -u = (n : ℤ) * (u / n) := by linarith
  rw [this, Int.mul_emod_right]

theorem evenPart_even (k : Arr ℝ) (m n : ℕ) : KerEven (evenPart k m n) m n := by
  intro u v
  simp only [evenPart, Int.emod_emod_of_dvd _ (dvd_refl _), neg_emod_emod]
  ring

theorem norm_fker (n : ℕ) (a k : ℤ) : ‖fker n a k‖ = 1 := by
  rw [fker_eq, E, Complex.norm_exp]
  simp [Complex.div_re, Complex.mul_re, Complex.mul_im]

/-- the inverse transform is bounded by the mean absolute spectrum -/
theorem norm_ifft2_le (Y : Arr ℂ) (m n : ℕ) (hm : Y.s0 = m) (hn : Y.s1 = n) (i j : ℤ) :
    ‖(ifft2 (R := ℝ) Y).get i j‖ ≤ (∑ v ∈ range n, ∑ u ∈ range m, ‖Y.get u v‖) / ((m : ℝ) * n) := by
  rw [ifft2_get_eq Y m n hm hn, norm_div]
  have hden : ‖((m : ℂ) * n)‖ = (m : ℝ) * n := by simp
  rw [hden]
  apply div_le_div_of_nonneg_right _ (by positivity)
  refine (norm_sum_le _ _).trans (sum_le_sum fun v _ => ?_)
  rw [norm_mul, Complex.norm_conj, norm_fker, mul_one]
  refine (norm_sum_le _ _).trans (sum_le_sum fun u _ => ?_)
  rw [norm_mul, Complex.norm_conj, norm_fker, one_mul]

/-- the Fourier-form convolution is additive in the transfer function (on the samples of the shape) -/
theorem conv_add (img k kH kN : Arr ℝ) (m n : ℕ) (hm : img.s0 = m) (hn : img.s1 = n)
    (hk : ∀ u v : ℕ, u < m → v < n → k.get u v = kH.get u v + kN.get u v) (i j : ℤ) :
    (conv img k).get i j = (conv img kH).get i j + (conv img kN).get i j := by
  unfold conv
  rw [ifft2_get_eq _ m n hm hn, ifft2_get_eq _ m n hm hn, ifft2_get_eq _ m n hm hn, ← add_div]
  congr 1
  rw [← sum_add_distrib]
  refine sum_congr rfl fun v hv => ?_
  rw [← add_mul, ← sum_add_distrib]
  congr 1
  refine sum_congr rfl fun u hu => ?_
  simp only [mulKernel, CxLike.ofReal, hk u v (mem_range.mp hu) (mem_range.mp hv)]
  push_cast; ring

/-- **deviation from the Hermitian part.** For any real transfer function `k`, split into its even (Hermitian) part and its odd
part under index negation: the un-normalised blur differs from `|c_H|`, the absolute value of the *real* convolution with the
Hermitian part, by at most the mean of `|fft2(img)|·|k_odd|` over the spectrum. -/
theorem blur_deviation_le (img k : Arr ℝ) (m n : ℕ) (hm : img.s0 = m) (hn : img.s1 = n) (hm0 : 0 < m) (hn0 : 0 < n) (i j : ℤ) :
    (conv img (evenPart k m n)).get i j = (((conv img (evenPart k m n)).get i j).re : ℂ) ∧
    abs ((blurCore ℂ img k).get i j - abs ((conv img (evenPart k m n)).get i j).re)
      ≤ (∑ v ∈ range n, ∑ u ∈ range m, ‖(fft2 (R := ℝ) (toCx (K := ℂ) img)).get u v‖ * |(oddPart k m n).get u v|) / ((m : ℝ) * n) := by
  have hreal : (conv img (evenPart k m n)).get i j = (((conv img (evenPart k m n)).get i j).re : ℂ) :=
    (Complex.conj_eq_iff_re.mp (filtered_real img (evenPart k m n) m n hm hn hm0 hn0 (evenPart_even k m n) i j)).symm
  refine ⟨hreal, ?_⟩
  have hsplit := conv_add img k (evenPart k m n) (oddPart k m n) m n hm hn (fun u v hu hv => by
    simp only [evenPart, oddPart, emod_range_nat m u (mem_range.mpr hu), emod_range_nat n v (mem_range.mpr hv)]; ring) i j
  have hb : (blurCore ℂ img k).get i j = ‖(conv img k).get i j‖ := by rw [blurCore_def]; rfl
  have hH : abs ((conv img (evenPart k m n)).get i j).re = ‖(conv img (evenPart k m n)).get i j‖ := by
    conv_rhs => rw [hreal]
    rw [Complex.norm_real, Real.norm_eq_abs]
  rw [hb, hH, hsplit]
  refine (abs_norm_sub_norm_le _ _).trans ?_
  rw [add_sub_cancel_left]
  refine (norm_ifft2_le _ m n hm hn i j).trans (le_of_eq ?_)
  congr 1
  refine sum_congr rfl fun v _ => sum_congr rfl fun u _ => ?_
  simp only [mulKernel, CxLike.ofReal, norm_mul, Complex.norm_real, Real.norm_eq_abs]

/-- off the Nyquist sample of an even axis the frequency index is negated with the sample index -/
theorem fftfreqIdx_neg_off_nyquist (n : ℕ) (hn : 0 < n) (u : ℤ) (h : 2 * (u % (n : ℤ)) ≠ n) :
    fftfreqIdx n ((-u) % n) = -fftfreqIdx n (u % n) := by
  have hn' : (0 : ℤ) < n := by exact_mod_cast hn
  have hw0 := Int.emod_nonneg u (ne_of_gt hn')
  have hw1 := Int.emod_lt_of_pos u hn'
  rw [neg_emod_cases n hn u]
  unfold fftfreqIdx
  split_ifs <;> omega

/-- the odd part of the smear transfer function lives on the Nyquist row / column of even axes only -/
theorem smear_oddPart_support (m n : ℕ) (hm : 0 < m) (hn : 0 < n) (dist ang ps os : ℝ) (u v : ℤ)
    (hu : 2 * (u % (m : ℤ)) ≠ m) (hv : 2 * (v % (n : ℤ)) ≠ n) :
    (oddPart (smearKernel m n dist ang ps os) m n).get u v = 0 := by
  have fu : (fftfreq m ((-u) % m) : ℝ) = -fftfreq m (u % m) := by
    unfold fftfreq; rw [fftfreqIdx_neg_off_nyquist m hm u hu]; simp [RealLike.ofInt, neg_div]
  have fv : (fftfreq n ((-v) % n) : ℝ) = -fftfreq n (v % n) := by
    unfold fftfreq; rw [fftfreqIdx_neg_off_nyquist n hn v hv]; simp [RealLike.ofInt, neg_div]
  simp only [oddPart, smearKernel, Gen.bwSmearKernel, fu, fv, BlurLike.sinc, mul_neg, ← neg_add, neg_mul, Real.sinc_neg, sub_self,
    zero_div]

/-- a non-negative convolution is returned unchanged and keeps the total (conditional form, realness as a hypothesis; used by
`C19.equals_convolution_when_hermitian`, where realness is proved). Writing the exact circular
convolution as the inverse transform of the product, `c = ifft2(fft2(img)·K)`: wherever `c` is real and non-negative the
un-normalised output equals it, and if it is so at every sample the output total is `K[0,0]·Σ img = Σ img`.
-/
theorem nonneg_convolution_kept (img k : Arr ℝ) (m n : ℕ) (hm : img.s0 = m) (hn : img.s1 = n) (hm0 : 0 < m)
    (hn0 : 0 < n) (r : ℕ → ℕ → ℝ) (hr : ∀ i j, 0 ≤ r i j)
    (hc : ∀ i j : ℕ, i < m → j < n →
      (ifft2 (R := ℝ) (mulKernel (fft2 (R := ℝ) (toCx (K := ℂ) img)) k)).get i j = ((r i j : ℝ) : ℂ)) :
    (∀ i j : ℕ, i < m → j < n → (blurCore ℂ img k).get i j = r i j) ∧
    (k.get 0 0 = 1 → arrSum (blurCore ℂ img k) = arrSum img) := by
  have hget : ∀ i j : ℕ, i < m → j < n → (blurCore ℂ img k).get i j = r i j := by
    intro i j hi hj
    rw [blurCore_def]
    show ‖(ifft2 (R := ℝ) (mulKernel (fft2 (R := ℝ) (toCx (K := ℂ) img)) k)).get i j‖ = r i j
    rw [hc i j hi hj, Complex.norm_real, Real.norm_eq_abs, abs_of_nonneg (hr i j)]
  refine ⟨hget, fun hk => ?_⟩
  have h0 : (blurCore ℂ img k).s0 = m := hm
  have h1 : (blurCore ℂ img k).s1 = n := hn
  rw [arrSum_eq (blurCore ℂ img k), h0, h1]
  simp only [Int.toNat_natCast]
  have hs := sum_filtered img k m n hm hn hm0 hn0
  rw [hk, one_mul] at hs
  apply Complex.ofReal_injective
  rw [← hs]
  push_cast
  exact sum_congr rfl fun i hi => sum_congr rfl fun j hj => by
    rw [hget i j (mem_range.mp hi) (mem_range.mp hj), hc i j (mem_range.mp hi) (mem_range.mp hj)]

/-- the odd part of the smear transfer function is at most 1 in modulus (`|sinc| ≤ 1`) -/
theorem smear_oddPart_abs_le_one (m n : ℕ) (dist ang ps os : ℝ) (u v : ℤ) :
    |(oddPart (smearKernel m n dist ang ps os) m n).get u v| ≤ 1 := by
  simp only [oddPart, smearKernel, Gen.bwSmearKernel, BlurLike.sinc]
  rw [abs_div, abs_two, div_le_iff₀ (by norm_num)]
  refine (abs_sub _ _).trans ?_
  exact (add_le_add (Real.abs_sinc_le_one _) (Real.abs_sinc_le_one _)).trans (by norm_num)

/-- the bound of `smear_even_axis_deviation` is at most the mean modulus of the image spectrum over the Nyquist row and column -/
theorem nyquist_bound_le_lines (img : Arr ℝ) (m n : ℕ) (hm0 : 0 < m) (hn0 : 0 < n) (dist ang ps os : ℝ) :
    (∑ v ∈ range n, ∑ u ∈ range m, ‖(fft2 (R := ℝ) (toCx (K := ℂ) img)).get u v‖
        * |(oddPart (smearKernel m n dist ang ps os) m n).get u v|) / ((m : ℝ) * n)
      ≤ (∑ v ∈ range n, ∑ u ∈ range m,
          if 2 * u = m ∨ 2 * v = n then ‖(fft2 (R := ℝ) (toCx (K := ℂ) img)).get u v‖ else 0) / ((m : ℝ) * n) := by
  have hmn : (0 : ℝ) < (m : ℝ) * n := by positivity
  refine div_le_div_of_nonneg_right ?_ hmn.le
  refine sum_le_sum fun v hv => sum_le_sum fun u hu => ?_
  split_ifs with hny
  · calc _ ≤ ‖(fft2 (R := ℝ) (toCx (K := ℂ) img)).get u v‖ * 1 :=
          mul_le_mul_of_nonneg_left (smear_oddPart_abs_le_one m n dist ang ps os u v) (norm_nonneg _)
      _ = _ := mul_one _
  · have hu' := emod_range_nat m u hu
    have hv' := emod_range_nat n v hv
    rw [smear_oddPart_support m n hm0 hn0 dist ang ps os u v (by rw [hu']; omega) (by rw [hv']; omega), abs_zero, mul_zero]

end Lentil
