import LentilVerif.Lemmas.Energy
import LentilVerif.Model.Blur
import Mathlib.Analysis.SpecialFunctions.Trigonometric.Sinc
/-! Helper lemmas for the blur model (C19) at `K = ℂ`, `R = ℝ`. -/
open Finset
namespace Lentil

noncomputable instance instBlurLikeReal : BlurLike ℝ :=
  ⟨fun x => Real.sinc (Real.pi * x), Real.exp, Real.sin, Real.cos, Real.pi⟩
noncomputable instance instAbsLikeComplex : AbsLike ℂ ℝ := ⟨fun z => ‖z‖⟩

/-- zero frequency sits at index 0 -/
theorem fftfreqIdx_zero (n : ℤ) (hn : 1 ≤ n) : fftfreqIdx n 0 = 0 := by
  unfold fftfreqIdx; rw [if_pos (by omega)]

theorem fftfreq_zero (n : ℤ) (hn : 1 ≤ n) : (fftfreq n 0 : ℝ) = 0 := by
  unfold fftfreq; rw [fftfreqIdx_zero n hn]; simp [RealLike.ofInt]

open ComplexConjugate

/-- the plain DFT kernel `exp(-2πi·a·k/n)` as the shared kernel with the centring cancelled -/
noncomputable def fker (n : ℕ) (a k : ℤ) : ℂ := ker (1 / n) n n ((n : ℤ) / 2) (-(((n : ℤ) / 2 : ℤ) : ℝ)) a k

theorem fker_symm (n : ℕ) (a k : ℤ) : fker n a k = fker n k a := by
  unfold fker ker cc; congr 1; push_cast; ring

theorem fker_zero_left (n : ℕ) (k : ℤ) : fker n 0 k = 1 := by
  unfold fker ker cc; simp

theorem orth_fker (n : ℕ) (hn : 0 < n) : Orth n n (fun a k => fker n a k) :=
  orth_ker n n hn le_rfl n _ _

@[simp] theorem fft2_s0 (x : Arr ℂ) : (fft2 (R := ℝ) x).s0 = x.s0 := rfl
@[simp] theorem fft2_s1 (x : Arr ℂ) : (fft2 (R := ℝ) x).s1 = x.s1 := rfl

theorem fft2_get_eq (x : Arr ℂ) (m n : ℕ) (hm : x.s0 = m) (hn : x.s1 = n) (k l : ℤ) :
    (fft2 (R := ℝ) x).get k l = ∑ b ∈ range n, (∑ a ∈ range m, fker m a k * x.get a b) * fker n b l := by
  unfold fft2
  rw [dft2_get_eq]
  simp only [dft2Sum, hm, hn, RealLike.ofInt, Int.toNat_natCast, Bool.false_eq_true, if_false, one_mul, Int.cast_one,
    Int.cast_natCast, fker]

theorem ifft2_get_eq (X : Arr ℂ) (m n : ℕ) (hm : X.s0 = m) (hn : X.s1 = n) (i j : ℤ) :
    (ifft2 (R := ℝ) X).get i j
      = (∑ v ∈ range n, (∑ u ∈ range m, conj (fker m u i) * X.get u v) * conj (fker n v j)) / ((m : ℂ) * n) := by
  unfold ifft2
  simp only [CxLike.divInt, CxLike.conj]
  rw [fft2_get_eq ⟨X.s0, X.s1, fun i j => conj (X.get i j)⟩ m n hm hn]
  simp only [map_sum, map_mul, Complex.conj_conj, hm, hn]
  push_cast
  rfl

/-- `ifft2 ∘ fft2 = id` on every sample (contract-level inversion of the plain DFT pair) -/
theorem ifft2_fft2 (x : Arr ℂ) (m n : ℕ) (hm : x.s0 = m) (hn : x.s1 = n) (hm0 : 0 < m) (hn0 : 0 < n)
    (i j : ℕ) (hi : i < m) (hj : j < n) : (ifft2 (R := ℝ) (fft2 (R := ℝ) x)).get i j = x.get i j := by
  rw [ifft2_get_eq _ m n (by simpa using hm) (by simpa using hn)]
  simp only [fft2_get_eq x m n hm hn, fker_symm m _ (i : ℤ), fker_symm n _ (j : ℤ)]
  rw [inv2 m n m n (fun a k => fker m a k) (fun b l => fker n b l) (orth_fker m hm0) (orth_fker n hn0)
    (fun a b => x.get a b) i j hi hj]
  have hm' : (m : ℂ) ≠ 0 := by exact_mod_cast hm0.ne'
  have hn' : (n : ℂ) ≠ 0 := by exact_mod_cast hn0.ne'
  field_simp

/-- with the all-ones transfer function the blur core returns `|img|` -/
theorem blurCore_one (img k : Arr ℝ) (hk : ∀ i j, k.get i j = 1) (m n : ℕ) (hm : img.s0 = m) (hn : img.s1 = n)
    (hm0 : 0 < m) (hn0 : 0 < n) (i j : ℕ) (hi : i < m) (hj : j < n) :
    (blurCore ℂ img k).get i j = |img.get i j| := by
  have hmul : mulKernel (fft2 (R := ℝ) (toCx (K := ℂ) img)) k = fft2 (R := ℝ) (toCx (K := ℂ) img) := by
    unfold mulKernel; simp only [hk, CxLike.ofReal, Complex.ofReal_one, mul_one]
  unfold blurCore
  rw [hmul]
  simp only [absArr, AbsLike.cabs]
  rw [ifft2_fft2 (toCx (K := ℂ) img) m n hm hn hm0 hn0 i j hi hj]
  simp [toCx, CxLike.ofReal]

/-- renormalising an array by its own total is the identity when the total is non-zero -/
theorem renorm_of_eq (img out : Arr ℝ) (m n : ℕ) (hm : img.s0 = m) (hn : img.s1 = n) (hm' : out.s0 = m) (hn' : out.s1 = n)
    (h : ∀ i j : ℕ, i < m → j < n → out.get i j = img.get i j) (hS : arrSum img ≠ 0) (i j : ℕ) (hi : i < m) (hj : j < n) :
    (renorm img out).get i j = img.get i j := by
  have hsum : arrSum out = arrSum img := by
    rw [arrSum_eq, arrSum_eq, hm, hn, hm', hn']
    simp only [Int.toNat_natCast]
    exact sum_congr rfl fun i hi => sum_congr rfl fun j hj => h i j (mem_range.mp hi) (mem_range.mp hj)
  simp only [renorm, hsum, h i j hi hj]
  field_simp

/-! ## the blur keeps the (complex) total: `Σ ifft2(Y) = Y[0,0]` -/

theorem sum_conj_fker (m : ℕ) (hm0 : 0 < m) (u : ℕ) (hu : u < m) :
    ∑ i ∈ range m, conj (fker m u i) = if u = 0 then (m : ℂ) else 0 := by
  have := (orth_fker m hm0).conj u hu 0 hm0
  simpa [fker_zero_left] using this

theorem sum_swap4 (m n : ℕ) (a b Y : ℕ → ℕ → ℂ) :
    ∑ i ∈ range m, ∑ j ∈ range n, ∑ v ∈ range n, (∑ u ∈ range m, a u i * Y u v) * b v j
      = ∑ v ∈ range n, (∑ u ∈ range m, (∑ i ∈ range m, a u i) * Y u v) * ∑ j ∈ range n, b v j := by
  have h1 : ∀ i ∈ range m, ∑ j ∈ range n, ∑ v ∈ range n, (∑ u ∈ range m, a u i * Y u v) * b v j
      = ∑ v ∈ range n, (∑ u ∈ range m, a u i * Y u v) * ∑ j ∈ range n, b v j := by
    intro i _; rw [sum_comm]; exact sum_congr rfl fun v _ => by rw [mul_sum]
  rw [sum_congr rfl h1, sum_comm]
  refine sum_congr rfl fun v _ => ?_
  rw [← sum_mul]; congr 1
  rw [sum_comm]; exact sum_congr rfl fun u _ => by rw [sum_mul]

theorem sum_ifft2 (Y : Arr ℂ) (m n : ℕ) (hm : Y.s0 = m) (hn : Y.s1 = n) (hm0 : 0 < m) (hn0 : 0 < n) :
    ∑ i ∈ range m, ∑ j ∈ range n, (ifft2 (R := ℝ) Y).get i j = Y.get 0 0 := by
  simp only [ifft2_get_eq Y m n hm hn, div_eq_mul_inv, ← sum_mul]
  rw [sum_swap4 m n (fun u i => conj (fker m u i)) (fun v j => conj (fker n v j)) (fun u v => Y.get u v)]
  have hA : ∀ v ∈ range n, (∑ u ∈ range m, (∑ i ∈ range m, conj (fker m u i)) * Y.get u v) * ∑ j ∈ range n, conj (fker n v j)
      = if v = 0 then (m : ℂ) * Y.get 0 v * n else 0 := by
    intro v hv
    rw [sum_conj_fker n hn0 v (mem_range.mp hv)]
    have : ∑ u ∈ range m, (∑ i ∈ range m, conj (fker m u i)) * Y.get u v = (m : ℂ) * Y.get 0 v := by
      rw [sum_congr rfl (fun u hu => by rw [sum_conj_fker m hm0 u (mem_range.mp hu)])]
      simp only [ite_mul, zero_mul]
      rw [sum_ite_eq' (range m) 0 (fun u => (m : ℂ) * Y.get u v)]
      simp [hm0]
    rw [this]; split_ifs <;> simp
  rw [sum_congr rfl hA, sum_ite_eq' (range n) 0 (fun v => (m : ℂ) * Y.get 0 v * n)]
  have hm' : (m : ℂ) ≠ 0 := by exact_mod_cast hm0.ne'
  have hn' : (n : ℂ) ≠ 0 := by exact_mod_cast hn0.ne'
  simp only [mem_range, hn0, if_true, Nat.cast_zero]
  field_simp

/-- zero-frequency sample of the transform of a real image is its total -/
theorem fft2_dc (img : Arr ℝ) (m n : ℕ) (hm : img.s0 = m) (hn : img.s1 = n) :
    (fft2 (R := ℝ) (toCx (K := ℂ) img)).get 0 0 = ((arrSum img : ℝ) : ℂ) := by
  rw [fft2_get_eq _ m n hm hn, arrSum_eq, hm, hn]
  simp only [fker_symm _ _ 0, fker_zero_left, one_mul, mul_one, toCx, CxLike.ofReal, Int.toNat_natCast]
  push_cast
  rw [sum_comm]

/-- the un-normalised blur has total at least `|k[0,0]·Σ img|` (triangle inequality on `Σ ifft2(…) = Y[0,0]`) -/
theorem blurCore_total_ge (img k : Arr ℝ) (m n : ℕ) (hm : img.s0 = m) (hn : img.s1 = n) (hm0 : 0 < m) (hn0 : 0 < n) :
    |k.get 0 0 * arrSum img| ≤ arrSum (blurCore ℂ img k) := by
  have hY := sum_ifft2 (mulKernel (fft2 (R := ℝ) (toCx (K := ℂ) img)) k) m n hm hn hm0 hn0
  have hval : (mulKernel (fft2 (R := ℝ) (toCx (K := ℂ) img)) k).get 0 0 = ((k.get 0 0 * arrSum img : ℝ) : ℂ) := by
    simp only [mulKernel, fft2_dc img m n hm hn, CxLike.ofReal]; push_cast; ring
  rw [arrSum_eq (blurCore ℂ img k)]
  have h0 : (blurCore ℂ img k).s0 = m := hm
  have h1 : (blurCore ℂ img k).s1 = n := hn
  rw [h0, h1]
  simp only [Int.toNat_natCast, blurCore, absArr, AbsLike.cabs]
  calc |k.get 0 0 * arrSum img| = ‖((k.get 0 0 * arrSum img : ℝ) : ℂ)‖ := by rw [Complex.norm_real, Real.norm_eq_abs]
    _ = ‖∑ i ∈ range m, ∑ j ∈ range n, (ifft2 (R := ℝ) (mulKernel (fft2 (R := ℝ) (toCx (K := ℂ) img)) k)).get i j‖ := by
        rw [hY, hval]
    _ ≤ _ := (norm_sum_le _ _).trans (sum_le_sum fun i _ => norm_sum_le _ _)

end Lentil
