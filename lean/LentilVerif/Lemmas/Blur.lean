import LentilVerif.Lemmas.Energy
import LentilVerif.Model.Blur
import Mathlib.Analysis.SpecialFunctions.Trigonometric.Sinc
/-! Helper lemmas for the blur model (C19) at `K = ℂ`, `R = ℝ`. -/
open Finset
namespace Lentil

noncomputable instance instBlurLikeReal : BlurLike ℝ :=
  ⟨fun x => Real.sinc (Real.pi * x), Real.exp, Real.sin, Real.cos, Real.pi⟩
noncomputable instance instAbsLikeComplex : AbsLike ℂ ℝ := ⟨fun z => ‖z‖⟩

/-- zero frequency sits at index 0 -/
theorem fftfreqIdx_zero (n : ℤ) (hn : 1 ≤ n) : fftfreqIdx n 0 = 0 := by
  unfold fftfreqIdx; rw [if_pos (by omega)]

theorem fftfreq_zero (n : ℤ) (hn : 1 ≤ n) : (fftfreq n 0 : ℝ) = 0 := by
  unfold fftfreq; rw [fftfreqIdx_zero n hn]; simp [RealLike.ofInt]

end Lentil
