import LentilVerif.Lemmas.Energy
import LentilVerif.Model.Blur
import Mathlib.Analysis.SpecialFunctions.Trigonometric.Sinc
/-! Helper lemmas for the blur model (C19) at `K = ℂ`, `R = ℝ`. -/
open Finset
namespace Lentil

noncomputable instance instBlurLikeReal : BlurLike ℝ :=
  ⟨fun x => Real.sinc (Real.pi * x), Real.exp, Real.sin, Real.cos, Real.pi⟩
noncomputable instance instAbsLikeComplex : AbsLike ℂ ℝ := ⟨fun z => ‖z‖⟩

/-- zero frequency sits at index 0 -/
theorem fftfreqIdx_zero (n : ℤ) (hn : 1 ≤ n) : fftfreqIdx n 0 = 0 := by
  unfold fftfreqIdx; rw [if_pos (by omega)]

theorem fftfreq_zero (n : ℤ) (hn : 1 ≤ n) : (fftfreq n 0 : ℝ) = 0 := by
  unfold fftfreq; rw [fftfreqIdx_zero n hn]; simp [RealLike.ofInt]

open ComplexConjugate

theorem fker_symm (n : ℕ) (a k : ℤ) : fker n a k = fker n k a := by
  unfold fker ker cc; congr 1; push_cast; ring

theorem fker_zero_left (n : ℕ) (k : ℤ) : fker n 0 k = 1 := by
  unfold fker ker cc; simp

theorem orth_fker (n : ℕ) (hn : 0 < n) : Orth n n (fun a k => fker n a k) :=
  orth_ker n n hn le_rfl n _ _

@[simp] theorem fft2_s0 (x : Arr ℂ) : (fft2 (R := ℝ) x).s0 = x.s0 := rfl
@[simp] theorem fft2_s1 (x : Arr ℂ) : (fft2 (R := ℝ) x).s1 = x.s1 := rfl

theorem fft2_get_eq (x : Arr ℂ) (m n : ℕ) (hm : x.s0 = m) (hn : x.s1 = n) (k l : ℤ) :
    (fft2 (R := ℝ) x).get k l = ∑ b ∈ range n, (∑ a ∈ range m, fker m a k * x.get a b) * fker n b l := by
  unfold fft2
  rw [dft2_get_eq]
  simp only [dft2Sum, hm, hn, RealLike.ofInt, Int.toNat_natCast, Bool.false_eq_true, if_false, one_mul, Int.cast_one,
    Int.cast_natCast, fker]

theorem ifft2_get_eq (X : Arr ℂ) (m n : ℕ) (hm : X.s0 = m) (hn : X.s1 = n) (i j : ℤ) :
    (ifft2 (R := ℝ) X).get i j
      = (∑ v ∈ range n, (∑ u ∈ range m, conj (fker m u i) * X.get u v) * conj (fker n v j)) / ((m : ℂ) * n) := by
  unfold ifft2
  simp only [CxLike.divInt, CxLike.conj]
  rw [fft2_get_eq ⟨X.s0, X.s1, fun i j => conj (X.get i j)⟩ m n hm hn]
  simp only [map_sum, map_mul, Complex.conj_conj, hm, hn]
  push_cast
  rfl

/-- `ifft2 ∘ fft2 = id` on every sample (contract-level inversion of the plain DFT pair) -/
theorem ifft2_fft2 (x : Arr ℂ) (m n : ℕ) (hm : x.s0 = m) (hn : x.s1 = n) (hm0 : 0 < m) (hn0 : 0 < n)
    (i j : ℕ) (hi : i < m) (hj : j < n) : (ifft2 (R := ℝ) (fft2 (R := ℝ) x)).get i j = x.get i j := by
  rw [ifft2_get_eq _ m n (by simpa using hm) (by simpa using hn)]
  simp only [fft2_get_eq x m n hm hn, fker_symm m _ (i : ℤ), fker_symm n _ (j : ℤ)]
  rw [inv2 m n m n (fun a k => fker m a k) (fun b l => fker n b l) (orth_fker m hm0) (orth_fker n hn0)
    (fun a b => x.get a b) i j hi hj]
  have hm' : (m : ℂ) ≠ 0 := by exact_mod_cast hm0.ne'
  have hn' : (n : ℂ) ≠ 0 := by exact_mod_cast hn0.ne'
  field_simp

/-- with the all-ones transfer function the blur core returns `|img|` -/
theorem blurCore_one (img k : Arr ℝ) (hk : ∀ i j, k.get i j = 1) (m n : ℕ) (hm : img.s0 = m) (hn : img.s1 = n)
    (hm0 : 0 < m) (hn0 : 0 < n) (i j : ℕ) (hi : i < m) (hj : j < n) :
    (blurCore ℂ img k).get i j = |img.get i j| := by
  have hmul : mulKernel (fft2 (R := ℝ) (toCx (K := ℂ) img)) k = fft2 (R := ℝ) (toCx (K := ℂ) img) := by
    unfold mulKernel; simp only [hk, CxLike.ofReal, Complex.ofReal_one, mul_one]
  unfold blurCore
  rw [hmul]
  simp only [absArr, AbsLike.cabs]
  rw [ifft2_fft2 (toCx (K := ℂ) img) m n hm hn hm0 hn0 i j hi hj]
  simp [toCx, CxLike.ofReal]

/-- renormalising an array by its own total is the identity when the total is non-zero -/
theorem renorm_of_eq (img out : Arr ℝ) (m n : ℕ) (hm : img.s0 = m) (hn : img.s1 = n) (hm' : out.s0 = m) (hn' : out.s1 = n)
    (h : ∀ i j : ℕ, i < m → j < n → out.get i j = img.get i j) (hS : arrSum img ≠ 0) (i j : ℕ) (hi : i < m) (hj : j < n) :
    (renorm img out).get i j = img.get i j := by
  have hsum : arrSum out = arrSum img := by
    rw [arrSum_eq, arrSum_eq, hm, hn, hm', hn']
    simp only [Int.toNat_natCast]
    exact sum_congr rfl fun i hi => sum_congr rfl fun j hj => h i j (mem_range.mp hi) (mem_range.mp hj)
  simp only [renorm, hsum, h i j hi hj]
  field_simp

/-! ## the blur keeps the (complex) total: `Σ ifft2(Y) = Y[0,0]` -/

theorem sum_conj_fker (m : ℕ) (hm0 : 0 < m) (u : ℕ) (hu : u < m) :
    ∑ i ∈ range m, conj (fker m u i) = if u = 0 then (m : ℂ) else 0 := by
  have := (orth_fker m hm0).conj u hu 0 hm0
  simpa [fker_zero_left] using this

theorem sum_swap4 (m n : ℕ) (a b Y : ℕ → ℕ → ℂ) :
    ∑ i ∈ range m, ∑ j ∈ range n, ∑ v ∈ range n, (∑ u ∈ range m, a u i * Y u v) * b v j
      = ∑ v ∈ range n, (∑ u ∈ range m, (∑ i ∈ range m, a u i) * Y u v) * ∑ j ∈ range n, b v j := by
  have h1 : ∀ i ∈ range m, ∑ j ∈ range n, ∑ v ∈ range n, (∑ u ∈ range m, a u i * Y u v) * b v j
      = ∑ v ∈ range n, (∑ u ∈ range m, a u i * Y u v) * ∑ j ∈ range n, b v j := by
    intro i _; rw [sum_comm]; exact sum_congr rfl fun v _ => by rw [mul_sum]
  rw [sum_congr rfl h1, sum_comm]
  refine sum_congr rfl fun v _ => ?_
  rw [← sum_mul]; congr 1
  rw [sum_comm]; exact sum_congr rfl fun u _ => by rw [sum_mul]

theorem sum_ifft2 (Y : Arr ℂ) (m n : ℕ) (hm : Y.s0 = m) (hn : Y.s1 = n) (hm0 : 0 < m) (hn0 : 0 < n) :
    ∑ i ∈ range m, ∑ j ∈ range n, (ifft2 (R := ℝ) Y).get i j = Y.get 0 0 := by
  simp only [ifft2_get_eq Y m n hm hn, div_eq_mul_inv, ← sum_mul]
  rw [sum_swap4 m n (fun u i => conj (fker m u i)) (fun v j => conj (fker n v j)) (fun u v => Y.get u v)]
  have hA : ∀ v ∈ range n, (∑ u ∈ range m, (∑ i ∈ range m, conj (fker m u i)) * Y.get u v) * ∑ j ∈ range n, conj (fker n v j)
      = if v = 0 then (m : ℂ) * Y.get 0 v * n else 0 := by
    intro v hv
    rw [sum_conj_fker n hn0 v (mem_range.mp hv)]
    have : ∑ u ∈ range m, (∑ i ∈ range m, conj (fker m u i)) * Y.get u v = (m : ℂ) * Y.get 0 v := by
      rw [sum_congr rfl (fun u hu => by rw [sum_conj_fker m hm0 u (mem_range.mp hu)])]
      simp only [ite_mul, zero_mul]
      rw [sum_ite_eq' (range m) 0 (fun u => (m : ℂ) * Y.get u v)]
      simp [hm0]
    rw [this]; split_ifs <;> simp
  rw [sum_congr rfl hA, sum_ite_eq' (range n) 0 (fun v => (m : ℂ) * Y.get 0 v * n)]
  have hm' : (m : ℂ) ≠ 0 := by exact_mod_cast hm0.ne'
  have hn' : (n : ℂ) ≠ 0 := by exact_mod_cast hn0.ne'
  simp only [mem_range, hn0, if_true, Nat.cast_zero]
  field_simp

/-- zero-frequency sample of the transform of a real image is its total -/
theorem fft2_dc (img : Arr ℝ) (m n : ℕ) (hm : img.s0 = m) (hn : img.s1 = n) :
    (fft2 (R := ℝ) (toCx (K := ℂ) img)).get 0 0 = ((arrSum img : ℝ) : ℂ) := by
  rw [fft2_get_eq _ m n hm hn, arrSum_eq, hm, hn]
  simp only [fker_symm _ _ 0, fker_zero_left, one_mul, mul_one, toCx, CxLike.ofReal, Int.toNat_natCast]
  push_cast
  rw [sum_comm]

/-- the un-normalised blur has total at least `|k[0,0]·Σ img|` (triangle inequality on `Σ ifft2(…) = Y[0,0]`) -/
theorem blurCore_total_ge (img k : Arr ℝ) (m n : ℕ) (hm : img.s0 = m) (hn : img.s1 = n) (hm0 : 0 < m) (hn0 : 0 < n) :
    |k.get 0 0 * arrSum img| ≤ arrSum (blurCore ℂ img k) := by
  have hY := sum_ifft2 (mulKernel (fft2 (R := ℝ) (toCx (K := ℂ) img)) k) m n hm hn hm0 hn0
  have hval : (mulKernel (fft2 (R := ℝ) (toCx (K := ℂ) img)) k).get 0 0 = ((k.get 0 0 * arrSum img : ℝ) : ℂ) := by
    simp only [mulKernel, fft2_dc img m n hm hn, CxLike.ofReal]; push_cast; ring
  rw [arrSum_eq (blurCore ℂ img k)]
  have h0 : (blurCore ℂ img k).s0 = m := hm
  have h1 : (blurCore ℂ img k).s1 = n := hn
  rw [h0, h1]
  simp only [Int.toNat_natCast, blurCore, absArr, AbsLike.cabs]
  calc |k.get 0 0 * arrSum img| = ‖((k.get 0 0 * arrSum img : ℝ) : ℂ)‖ := by rw [Complex.norm_real, Real.norm_eq_abs]
    _ = ‖∑ i ∈ range m, ∑ j ∈ range n, (ifft2 (R := ℝ) (mulKernel (fft2 (R := ℝ) (toCx (K := ℂ) img)) k)).get i j‖ := by
        rw [hY, hval]
    _ ≤ _ := (norm_sum_le _ _).trans (sum_le_sum fun i _ => norm_sum_le _ _)

/-- the complex total of the filtered image is `k[0,0] · Σ img` -/
theorem sum_filtered (img k : Arr ℝ) (m n : ℕ) (hm : img.s0 = m) (hn : img.s1 = n) (hm0 : 0 < m) (hn0 : 0 < n) :
    ∑ i ∈ range m, ∑ j ∈ range n, (ifft2 (R := ℝ) (mulKernel (fft2 (R := ℝ) (toCx (K := ℂ) img)) k)).get i j
      = ((k.get 0 0 * arrSum img : ℝ) : ℂ) := by
  rw [sum_ifft2 (mulKernel (fft2 (R := ℝ) (toCx (K := ℂ) img)) k) m n hm hn hm0 hn0]
  simp only [mulKernel, fft2_dc img m n hm hn, CxLike.ofReal]; push_cast; ring

/-! ## circular shifts (DFT shift theorem) -/

/-- summing `g((j - b) mod n)` over one period is summing `g` -/
theorem sum_roll1 {A : Type*} [AddCommMonoid A] (n : ℕ) (g : ℤ → A) (b : ℤ) :
    ∑ j ∈ range n, g (((j : ℤ) - b) % n) = ∑ j ∈ range n, g j := by
  have := sum_range_shift_int n (fun z => g (z % n)) (fun z => by simp only [Int.add_emod_right]) b
  rw [this]
  exact sum_congr rfl fun j hj => by rw [emod_range n j hj]

/-- one-axis shift theorem for the plain DFT kernel -/
theorem dft1_roll (n : ℕ) (hn : 0 < n) (g : ℤ → ℂ) (a k : ℤ) :
    ∑ i ∈ range n, fker n i k * g (((i : ℤ) - a) % n) = fker n a k * ∑ i ∈ range n, fker n i k * g i := by
  have hper : ∀ z : ℤ, fker n (z + n) k * g ((z + n) % n) = fker n z k * g (z % n) := by
    intro z
    rw [Int.add_emod_right, fker_eq, fker_eq]
    congr 1
    exact E_congr n hn _ _ ⟨k, by ring⟩
  have h1 := sum_range_shift_int n (fun z => fker n z k * g (z % n)) hper a
  have h2 : ∑ i ∈ range n, fker n i k * g ((i : ℤ) % n) = ∑ i ∈ range n, fker n i k * g i :=
    sum_congr rfl fun i hi => by rw [emod_range n i hi]
  rw [← h2, ← h1, mul_sum]
  refine sum_congr rfl fun i _ => ?_
  simp only [fker_eq]
  rw [← mul_assoc, ← E_add]; congr 2; ring

theorem conj_fker_mul (n : ℕ) (hn : 0 < n) (u i a : ℤ) :
    conj (fker n u i) * fker n a u = conj (fker n u ((i - a) % n)) := by
  simp only [fker_eq, conj_E, ← E_add]
  apply E_congr n hn
  rw [Int.emod_def (i - a) n]
  exact ⟨-(u * ((i - a) / n)), by ring⟩

theorem fft2_roll (x : Arr ℂ) (m n : ℕ) (hm : x.s0 = m) (hn : x.s1 = n) (hm0 : 0 < m) (hn0 : 0 < n) (a b k l : ℤ) :
    (fft2 (R := ℝ) (roll x a b)).get k l = fker m a k * fker n b l * (fft2 (R := ℝ) x).get k l := by
  rw [fft2_get_eq (roll x a b) m n hm hn, fft2_get_eq x m n hm hn]
  simp only [roll, hm, hn]
  have inner : ∀ j : ℕ, ∑ i ∈ range m, fker m i k * x.get (((i : ℤ) - a) % m) (((j : ℤ) - b) % n)
      = fker m a k * ∑ i ∈ range m, fker m i k * x.get i (((j : ℤ) - b) % n) :=
    fun j => dft1_roll m hm0 (fun z => x.get z (((j : ℤ) - b) % n)) a k
  simp only [inner]
  have outer := dft1_roll n hn0 (fun z => ∑ i ∈ range m, fker m i k * x.get i z) b l
  have e1 : ∑ j ∈ range n, (fker m a k * ∑ i ∈ range m, fker m i k * x.get i (((j : ℤ) - b) % n)) * fker n j l
      = fker m a k * ∑ j ∈ range n, fker n j l * ∑ i ∈ range m, fker m i k * x.get i (((j : ℤ) - b) % n) := by
    rw [mul_sum]; exact sum_congr rfl fun j _ => by ring
  rw [e1, outer, mul_assoc]
  congr 2
  exact sum_congr rfl fun j _ => mul_comm _ _

theorem roll_get {A : Type} (x : Arr A) (a b i j : ℤ) :
    (roll x a b).get i j = x.get ((i - a) % x.s0) ((j - b) % x.s1) := rfl

theorem toCx_roll (img : Arr ℝ) (a b : ℤ) : toCx (K := ℂ) (roll img a b) = roll (toCx (K := ℂ) img) a b := rfl

theorem ifft2_mul_roll (img k : Arr ℝ) (m n : ℕ) (hm : img.s0 = m) (hn : img.s1 = n) (hm0 : 0 < m) (hn0 : 0 < n)
    (a b i j : ℤ) :
    (ifft2 (R := ℝ) (mulKernel (fft2 (R := ℝ) (toCx (K := ℂ) (roll img a b))) k)).get i j
      = (ifft2 (R := ℝ) (mulKernel (fft2 (R := ℝ) (toCx (K := ℂ) img)) k)).get ((i - a) % m) ((j - b) % n) := by
  rw [ifft2_get_eq _ m n hm hn, ifft2_get_eq _ m n hm hn]
  have hnum : ∀ v ∈ range n,
      (∑ u ∈ range m, conj (fker m u i) * (mulKernel (fft2 (R := ℝ) (toCx (K := ℂ) (roll img a b))) k).get u v)
          * conj (fker n v j)
        = (∑ u ∈ range m, conj (fker m u ((i - a) % m)) * (mulKernel (fft2 (R := ℝ) (toCx (K := ℂ) img)) k).get u v)
          * conj (fker n v ((j - b) % n)) := by
    intro v _
    rw [sum_mul, sum_mul]
    refine sum_congr rfl fun u _ => ?_
    rw [← conj_fker_mul m hm0 u i a, ← conj_fker_mul n hn0 v j b]
    simp only [mulKernel, toCx_roll, fft2_roll (toCx (K := ℂ) img) m n hm hn hm0 hn0]
    ring
  rw [sum_congr rfl hnum]

/-- the blur core commutes with circular shifts, for any transfer function -/
theorem blurCore_roll (img k : Arr ℝ) (m n : ℕ) (hm : img.s0 = m) (hn : img.s1 = n) (hm0 : 0 < m) (hn0 : 0 < n)
    (a b i j : ℤ) :
    (blurCore ℂ (roll img a b) k).get i j = (blurCore ℂ img k).get ((i - a) % m) ((j - b) % n) := by
  show ‖(ifft2 (R := ℝ) (mulKernel (fft2 (R := ℝ) (toCx (K := ℂ) (roll img a b))) k)).get i j‖
    = ‖(ifft2 (R := ℝ) (mulKernel (fft2 (R := ℝ) (toCx (K := ℂ) img)) k)).get ((i - a) % m) ((j - b) % n)‖
  rw [ifft2_mul_roll img k m n hm hn hm0 hn0]

theorem arrSum_roll (x : Arr ℝ) (m n : ℕ) (hm : x.s0 = m) (hn : x.s1 = n) (a b : ℤ) :
    arrSum (roll x a b) = arrSum x := by
  rw [arrSum_eq, arrSum_eq]
  simp only [roll, hm, hn, Int.toNat_natCast]
  rw [sum_roll1 m (fun z => ∑ j ∈ range n, x.get z (((j : ℤ) - b) % n)) a]
  exact sum_congr rfl fun i _ => sum_roll1 n (fun z => x.get i z) b

end Lentil
