import LentilVerif.Lemmas.FourierPad
import LentilVerif.Lemmas.Energy
import LentilVerif.Lemmas.Extent
/-! Bridge from `Lemmas/FourierPad.lean` to the field model (for C03): the canvas `embedAll [fld] S0 S1` built from
`Fld.emb` (generated extent kernel) is the `padded` array, hence transforms like the sub-array with its offset.
Not imported by Props/C01, C05, C19 (so a change of `extent.py` does not touch those checks). -/
open Finset
namespace Lentil

theorem embedAll_single_get (fld : Fld ℂ) (S0 S1 : ℤ) (i j : ℤ) :
    (embedAll [fld] S0 S1).get i j = (padded fld.arr fld.o0 fld.o1 S0 S1).get i j := by
  simp only [embedAll, sumList, List.foldl, zero_add, Fld.emb, embAt, Fld.extent, arrayExtent_eq, padded]
  by_cases hR : (S0 / 2 - fld.arr.s0 / 2 + fld.o0 ≤ i ∧ i ≤ S0 / 2 - fld.arr.s0 / 2 + fld.o0 + fld.arr.s0 - 1)
  · by_cases hC : (S1 / 2 - fld.arr.s1 / 2 + fld.o1 ≤ j ∧ j ≤ S1 / 2 - fld.arr.s1 / 2 + fld.o1 + fld.arr.s1 - 1)
    · rw [if_pos hR, if_pos hC, if_pos]
      · congr 1 <;> ring
      · rw [Extent.inb_iff]; simp only; omega
    · rw [if_pos hR, if_neg hC, if_neg]
      rw [Extent.inb_iff]; simp only; omega
  · rw [if_neg hR, if_neg]
    rw [Extent.inb_iff]; simp only; omega

theorem dft2_embed (fld : Fld ℂ) (m n S0 S1 : ℕ) (hm : fld.arr.s0 = m) (hn : fld.arr.s1 = n)
    (hr : 0 ≤ (S0 : ℤ) / 2 - (m : ℤ) / 2 + fld.o0 ∧ (S0 : ℤ) / 2 - (m : ℤ) / 2 + fld.o0 + m ≤ S0)
    (hc : 0 ≤ (S1 : ℤ) / 2 - (n : ℤ) / 2 + fld.o1 ∧ (S1 : ℤ) / 2 - (n : ℤ) / 2 + fld.o1 + n ≤ S1)
    (αr αc : ℝ) (M N : ℤ) (shr shc : ℝ) (unitary : Bool) (u v : ℤ) :
    (dft2 (embedAll [fld] S0 S1) αr αc M N shr shc 0 0 unitary).get u v
      = (dft2 fld.arr αr αc M N shr shc fld.o0 fld.o1 unitary).get u v := by
  rw [← dft2_padded fld.arr m n S0 S1 hm hn fld.o0 fld.o1 hr hc, dft2_get_eq, dft2_get_eq]
  congr 1
  unfold dft2Sum
  have e0 : (embedAll [fld] (S0 : ℤ) (S1 : ℤ)).s0 = (padded fld.arr fld.o0 fld.o1 S0 S1).s0 := rfl
  have e1 : (embedAll [fld] (S0 : ℤ) (S1 : ℤ)).s1 = (padded fld.arr fld.o0 fld.o1 S0 S1).s1 := rfl
  simp only [e0, e1, embedAll_single_get]

end Lentil
