import LentilVerif.Model.PropagateFft
/-! Helper lemmas for C09 (core Lean): congruence of the fold-sums and of `insert` in the target array. -/
namespace Lentil

variable {K : Type}

theorem sumRange_succ [Add K] [Zero K] (n : Nat) (f : Nat → K) : sumRange (n + 1) f = sumRange n f + f n := by
  unfold sumRange; rw [List.range_succ, List.foldl_append]; rfl

theorem sumRange_congr [Add K] [Zero K] (n : Nat) (f g : Nat → K) (h : ∀ i, i < n → f i = g i) :
    sumRange n f = sumRange n g := by
  induction n with
  | zero => rfl
  | succ n ih =>
    rw [sumRange_succ, sumRange_succ, ih (fun i hi => h i (Nat.lt_succ_of_lt hi)), h n (Nat.lt_succ_self n)]

theorem insertArr_s0 [Add K] [Mul K] (f : Fld K) (out : Arr K) (w : K) : (insertArr f out w).s0 = out.s0 := by
  unfold insertArr; split <;> rfl
theorem insertArr_s1 [Add K] [Mul K] (f : Fld K) (out : Arr K) (w : K) : (insertArr f out w).s1 = out.s1 := by
  unfold insertArr; split <;> rfl

/-- what `insert` writes at `(i, j)` depends on the target only through its shape and its old value at `(i, j)` -/
theorem insertArr_get_congr [Add K] [Mul K] (f : Fld K) (out out' : Arr K) (w : K) (i j : Int)
    (h0 : out.s0 = out'.s0) (h1 : out.s1 = out'.s1) (h : out.get i j = out'.get i j) :
    (insertArr f out w).get i j = (insertArr f out' w).get i j := by
  unfold insertArr; rw [h0, h1]; split
  · exact h
  · simp only [h]

theorem foldInsert_shape [Add K] [Mul K] (fs : List (Fld K)) (out : Arr K) (w : K) :
    (fs.foldl (fun o f => insertArr f o w) out).s0 = out.s0 ∧ (fs.foldl (fun o f => insertArr f o w) out).s1 = out.s1 := by
  induction fs generalizing out with
  | nil => exact ⟨rfl, rfl⟩
  | cons f fs ih =>
    simp only [List.foldl_cons]
    have := ih (insertArr f out w)
    rw [insertArr_s0, insertArr_s1] at this; exact this

theorem foldInsert_get_congr [Add K] [Mul K] (fs : List (Fld K)) (out out' : Arr K) (w : K) (i j : Int)
    (h0 : out.s0 = out'.s0) (h1 : out.s1 = out'.s1) (h : out.get i j = out'.get i j) :
    (fs.foldl (fun o f => insertArr f o w) out).get i j = (fs.foldl (fun o f => insertArr f o w) out').get i j := by
  induction fs generalizing out out' with
  | nil => exact h
  | cons f fs ih =>
    simp only [List.foldl_cons]
    exact ih _ _ (by rw [insertArr_s0, insertArr_s0, h0]) (by rw [insertArr_s1, insertArr_s1, h1])
      (insertArr_get_congr f out out' w i j h0 h1 h)

/-- the composition of `_fft2` read from the source is `fftshift ∘ fft2(norm='ortho') ∘ ifftshift`: the step before the transform
reads index `(i + n/2) mod n` (`np.fft.ifftshift`), the step after it `(i - n/2) mod n` (`np.fft.fftshift`), and the norm is ortho.
(A swap of the two shifts — wrong on odd grids — or another norm changes the generated definitions and this stops checking.) -/
theorem fft2_composition (n i : Int) :
    Gen.fft2InnerIdx n i = npIfftshiftIdx n i ∧ Gen.fft2OuterIdx n i = npFftshiftIdx n i ∧ Gen.fft2Norm = 1 := ⟨rfl, rfl, rfl⟩

theorem scratchTooSmall_true_iff (scr : Arr K) (S : Int × Int) :
    scratchTooSmall (some scr) S = true ↔ scr.s0 < S.1 ∨ scr.s1 < S.2 := by
  simp only [scratchTooSmall, Gen.fftScratchTooSmall, Bool.not_eq_true', Bool.and_eq_false_iff, decide_eq_false_iff_not]; omega

theorem scratchTooSmall_false_iff (scr : Arr K) (S : Int × Int) :
    scratchTooSmall (some scr) S = false ↔ scr.s0 ≥ S.1 ∧ scr.s1 ≥ S.2 := by
  simp only [scratchTooSmall, Gen.fftScratchTooSmall, Bool.not_eq_false', Bool.and_eq_true, decide_eq_true_eq]

theorem fftShapeOut_some (sh S : Int × Int) (os : Int) : fftShapeOut (some sh) S os = (sh.1 * os, sh.2 * os) := rfl
theorem fftShapeOut_none (S : Int × Int) (os : Int) : fftShapeOut none S os = S := rfl

theorem hasTilt_cons (a : Int) (l : List Int) :
    Gen.hasTilt (a :: l) = (if (decide (a ≠ (0 : Int))) then true else Gen.hasTilt l) := rfl

theorem hasTilt_true_of_mem (ntilt : List Int) (n : Int) (hn : n ∈ ntilt) (hpos : n ≠ 0) : Gen.hasTilt ntilt = true := by
  induction ntilt with
  | nil => cases hn
  | cons a l ih =>
    rw [hasTilt_cons]
    by_cases ha : a ≠ 0
    · rw [decide_eq_true ha]; rfl
    · have hmem : n ∈ l := by
        rcases List.mem_cons.mp hn with h | h
        · exact absurd (h ▸ hpos) ha
        · exact h
      rw [decide_eq_false ha]; exact ih hmem

theorem hasTilt_false_of_all_zero (ntilt : List Int) (h : ∀ n ∈ ntilt, n = 0) : Gen.hasTilt ntilt = false := by
  induction ntilt with
  | nil => rfl
  | cons a l ih =>
    rw [hasTilt_cons]
    have ha : ¬ (a ≠ 0) := by simp [h a List.mem_cons_self]
    rw [decide_eq_false ha]
    exact ih (fun n hn => h n (List.mem_cons_of_mem _ hn))

theorem inRegion_iff (r : (Int × Int) × (Int × Int)) (i j : Int) :
    inRegion r i j = true ↔ r.1.1 ≤ i ∧ i < r.1.2 ∧ r.2.1 ≤ j ∧ j < r.2.2 := by
  unfold inRegion; simp only [Bool.and_eq_true, decide_eq_true_eq]; omega

/-- inside the `S0 x S1` grid the zeroed scratch view reads zero (the zeroed region — generated — covers the grid) -/
theorem zeroedCorner_get [Zero K] (scr : Arr K) (S0 S1 i j : Int) (hi : 0 ≤ i ∧ i < S0) (hj : 0 ≤ j ∧ j < S1) :
    (zeroedCorner scr S0 S1).get i j = 0 := by
  have h : inRegion (Gen.scratchZero S0 S1) i j = true := by
    rw [inRegion_iff]; simp only [Gen.scratchZero]; omega
  simp only [zeroedCorner, h, if_true]

theorem emod_rangeB (x n : Int) (hn : 0 < n) : 0 ≤ x % n ∧ x % n < n :=
  ⟨Int.emod_nonneg x (by omega), Int.emod_lt_of_pos x hn⟩

end Lentil
