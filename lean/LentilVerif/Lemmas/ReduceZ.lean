import LentilVerif.Model.FieldZ
import LentilVerif.Lemmas.Reduce
/-! Helper lemmas for the 0-d aware merge/reduce model (`Model/FieldZ.lean`, C06). Property theorems are in Props/C06.lean. -/
namespace Lentil
variable {K : Type}

/-! ### `disjointZ` is `disjoint` with flags carried along -/

theorem mergeGroupsZ_toG (a b : GroupZ K) : (mergeGroupsZ a b).toG = mergeGroups a.toG b.toG := by
  simp only [mergeGroupsZ, mergeGroups, GroupZ.toG, List.map_append, List.map_map]
  rfl

theorem disjointZ_succ_none (fuel : Nat) (gs : List (GroupZ K)) (h : firstPair (gs.map GroupZ.toG) = none) :
    disjointZ (fuel + 1) gs = gs := by
  unfold disjointZ; simp only [h]

/-- the step of `disjointZ` under the recognised constants of the current source (keep m, append n, recompute m, pop n) -/
theorem disjointZ_succ_some (fuel : Nat) (gs : List (GroupZ K)) (m k : Nat) (hm : m < gs.length) (hk : k < gs.length)
    (h : firstPair (gs.map GroupZ.toG) = some (m, k)) :
    disjointZ (fuel + 1) gs = disjointZ fuel ((gs.set m (mergeGroupsZ gs[m] gs[k])).eraseIdx k) := by
  conv => lhs; unfold disjointZ
  have hst : Gen.disjointStep = (0, 1, 0, 1) := rfl
  simp only [h, hst, if_true, Int.reduceEq, if_false, List.getElem?_eq_getElem hm, List.getElem?_eq_getElem hk,
    List.getElem?_set_self hm, List.set_set, mergeGroupsZ]

theorem disjointZ_toG (fuel : Nat) (gs : List (GroupZ K)) :
    (disjointZ fuel gs).map GroupZ.toG = disjoint fuel (gs.map GroupZ.toG) := by
  induction fuel generalizing gs with
  | zero => rfl
  | succ fuel ih =>
    cases hfp : firstPair (gs.map GroupZ.toG) with
    | none =>
      rw [disjoint_succ_none fuel _ hfp, disjointZ_succ_none fuel gs hfp]
    | some mk =>
      obtain ⟨m, k⟩ := mk
      obtain ⟨hmk, hk, _⟩ := firstPair_some _ m k hfp
      rw [List.length_map] at hk
      have hm : m < gs.length := by omega
      rw [disjoint_succ_some fuel _ m k (by rw [List.length_map]; exact hm) (by rw [List.length_map]; exact hk) hfp]
      rw [disjointZ_succ_some fuel gs m k hm hk hfp]
      rw [ih, ← List.eraseIdx_map, List.map_set, mergeGroupsZ_toG, List.getElem_map, List.getElem_map]

/-- induction principle for `disjointZ` (same shape as `disjoint_induction`) -/
theorem disjointZ_induction (P : List (GroupZ K) → Prop)
    (hstep : ∀ (gs : List (GroupZ K)) (m k : Nat) (_ : m < k) (hk : k < gs.length),
      P gs → P ((gs.set m (mergeGroupsZ (gs[m]'(by omega)) gs[k])).eraseIdx k))
    (fuel : Nat) (gs : List (GroupZ K)) (h0 : P gs) : P (disjointZ fuel gs) := by
  induction fuel generalizing gs with
  | zero => exact h0
  | succ fuel ih =>
    cases hfp : firstPair (gs.map GroupZ.toG) with
    | none => rw [disjointZ_succ_none fuel gs hfp]; exact h0
    | some mk =>
      obtain ⟨m, k⟩ := mk
      obtain ⟨hmk, hk, _⟩ := firstPair_some _ m k hfp
      rw [List.length_map] at hk
      have hm : m < gs.length := by omega
      rw [disjointZ_succ_some fuel gs m k hm hk hfp]
      exact ih _ (hstep gs m k hmk hk h0)

/-- every member of every final group is one of the inputs -/
theorem disjointZ_members (fuel : Nat) (gs : List (GroupZ K)) (Q : ZFld K → Prop)
    (h : ∀ g ∈ gs, ∀ z ∈ g.fields, Q z) : ∀ g ∈ disjointZ fuel gs, ∀ z ∈ g.fields, Q z := by
  refine disjointZ_induction (fun gs => ∀ g ∈ gs, ∀ z ∈ g.fields, Q z) ?_ fuel gs h
  intro gs m k _ hk hP g hg z hz
  rcases List.mem_or_eq_of_mem_set (List.mem_of_mem_eraseIdx hg) with h1 | h1
  · exact hP g h1 z hz
  · subst h1
    rcases List.mem_append.mp hz with h2 | h2
    · exact hP _ (List.getElem_mem _) z h2
    · exact hP _ (List.getElem_mem _) z h2

/-! ### `mergeZ` -/

theorem mergeShape_none_iff (b : Extent) (a : Int) :
    Gen.mergeShape b.rmin b.rmax b.cmin b.cmax a = none ↔ (b = ⟨0, 0, 0, 0⟩ ∧ a ≠ 0) := by
  cases b
  unfold Gen.mergeShape
  simp only []
  split_ifs with h h2 <;> simp_all

theorem b2i_ne_zero (x : Bool) : b2i x ≠ 0 ↔ x = true := by cases x <;> simp [b2i]

/-- where the collection is not an all-0-d collection on the origin pixel, the 0-d aware `_merge` is `_merge` on arrays -/
theorem mergeZ_of_mergeL [Add K] [Zero K] (zs : List (ZFld K)) (p : Fld K)
    (hz : (zs.all fun z => z.zd) = false ∨ boundaryL (zs.map fun z => z.fld.extent) ≠ ⟨0, 0, 0, 0⟩)
    (h : mergeL (zs.map fun z => z.fld) = some p) : mergeZ zs = some { fld := p, zd := false } := by
  unfold mergeZ
  simp only []
  cases hc : Gen.mergeShape _ _ _ _ _ with
  | none =>
    obtain ⟨hb, ha⟩ := (mergeShape_none_iff _ _).mp hc
    rw [b2i_ne_zero] at ha
    rcases hz with hz | hz
    · rw [hz] at ha; cases ha
    · exact absurd hb hz
  | some shp => simp only [h, Option.map_some]

/-- the 0-d aware `_merge` always answers (since the /repo fix of `_merge_shape`) -/
theorem mergeZ_isSome [Add K] [Zero K] (zs : List (ZFld K)) : (mergeZ zs).isSome = true := by
  unfold mergeZ
  simp only []
  cases hc : Gen.mergeShape _ _ _ _ _ with
  | none => rfl
  | some shp =>
    have hm := mergeL_isSome (zs.map fun z => z.fld)
    cases hl : mergeL (zs.map fun z => z.fld) with
    | none => rw [hl] at hm; cases hm
    | some p => rfl

/-- the result of the 0-d aware `_merge` is 0-d exactly for an all-0-d collection on the origin pixel -/
theorem mergeZ_zd [Add K] [Zero K] (zs : List (ZFld K)) (p : ZFld K) (h : mergeZ zs = some p) :
    p.zd = true ↔ (boundaryL (zs.map fun z => z.fld.extent) = ⟨0, 0, 0, 0⟩ ∧ (zs.all fun z => z.zd) = true) := by
  unfold mergeZ at h
  simp only [] at h
  cases hc : Gen.mergeShape (boundaryL (zs.map fun z => z.fld.extent)).rmin (boundaryL (zs.map fun z => z.fld.extent)).rmax
      (boundaryL (zs.map fun z => z.fld.extent)).cmin (boundaryL (zs.map fun z => z.fld.extent)).cmax
      (b2i (zs.all fun z => z.zd)) with
  | none =>
    obtain ⟨hb, ha⟩ := (mergeShape_none_iff _ _).mp hc
    rw [b2i_ne_zero] at ha
    simp only [hc, Option.some.injEq] at h
    subst h
    simp [hb, ha]
  | some shp =>
    simp only [hc] at h
    cases hl : mergeL (zs.map fun z => z.fld) with
    | none => simp [hl] at h
    | some q =>
      simp only [hl, Option.map_some, Option.some.injEq] at h
      subst h
      simp only [Bool.false_eq_true, false_iff]
      rintro ⟨hb, ha⟩
      have := (mergeShape_none_iff (boundaryL (zs.map fun z => z.fld.extent)) (b2i (zs.all fun z => z.zd))).mpr
        ⟨hb, (b2i_ne_zero _).mpr ha⟩
      rw [this] at hc; cases hc

/-- **the 0-d aware merge occupies the `boundary` box and embeds as the sum of its members** — including the
origin-pixel corner with 0-d members -/
theorem mergeZ_spec [AddZeroClass K] (zs : List (ZFld K)) (hne : zs ≠ [])
    (hpos : ∀ z ∈ zs, 0 < z.fld.arr.s0 ∧ 0 < z.fld.arr.s1) (p : ZFld K) (h : mergeZ zs = some p) :
    p.fld.extent = boundaryL (zs.map fun z => z.fld.extent) ∧
    ∀ r c, p.fld.emb r c = sumList zs (fun z => z.fld.emb r c) := by
  have hne' : (zs.map fun z => z.fld) ≠ [] := by simpa using hne
  have hpos' : ∀ f ∈ (zs.map fun z => z.fld), 0 < f.arr.s0 ∧ 0 < f.arr.s1 := by
    intro f hf; obtain ⟨z, hz, rfl⟩ := List.mem_map.mp hf; exact hpos z hz
  have hmm : (zs.map fun z => z.fld.extent) = (zs.map fun z => z.fld).map Fld.extent := by rw [List.map_map]; rfl
  unfold mergeZ at h
  simp only [] at h
  cases hc : Gen.mergeShape (boundaryL (zs.map fun z => z.fld.extent)).rmin (boundaryL (zs.map fun z => z.fld.extent)).rmax
      (boundaryL (zs.map fun z => z.fld.extent)).cmin (boundaryL (zs.map fun z => z.fld.extent)).cmax
      (b2i (zs.all fun z => z.zd)) with
  | some shp =>
    simp only [hc] at h
    cases hl : mergeL (zs.map fun z => z.fld) with
    | none => simp [hl] at h
    | some q =>
      simp only [hl, Option.map_some, Option.some.injEq] at h
      subst h
      refine ⟨by rw [hmm]; exact mergeL_extent _ hne' hpos' q hl, fun r c => ?_⟩
      rw [mergeL_emb _ hne' hpos' q hl r c]
      simp only [sumList, List.foldl_map]
  | none =>
    have hb := ((mergeShape_none_iff _ _).mp hc).1
    simp only [hc, Option.some.injEq] at h
    subst h
    rw [hb]
    have he : arrayExtent 1 1 (Gen.mergeOffset (0:Int) 0 0 0).1 (Gen.mergeOffset (0:Int) 0 0 0).2 = ⟨0, 0, 0, 0⟩ := by decide
    refine ⟨he, fun r c => ?_⟩
    -- every member occupies exactly the origin pixel
    have hmem : ∀ z ∈ zs, z.fld.extent = ⟨0, 0, 0, 0⟩ := by
      intro z hz
      have h1 := boundary_contains (zs.map fun z => z.fld) z.fld (List.mem_map_of_mem hz)
      simp only [← hmm, hb] at h1
      have h2 := z.fld.extent_valid (hpos z hz)
      cases he : z.fld.extent with
      | mk a b c d => rw [he] at h1 h2; simp only at h1 h2; simp only [Extent.mk.injEq]; omega
    show embAt (arrayExtent 1 1 (Gen.mergeOffset (0:Int) 0 0 0).1 (Gen.mergeOffset (0:Int) 0 0 0).2) _ r c = _
    simp only [he]
    unfold embAt
    by_cases hin : (Extent.mk 0 0 0 0).inb r c = true
    · rw [if_pos hin]
      apply sumList_congr
      intro z hz
      have fe : z.fld.emb r c = embAt z.fld.extent z.fld.arr.get r c := rfl
      rw [fe, hmem z hz]; unfold embAt
      rw [if_pos hin]
      rw [Extent.inb_iff] at hin
      simp only at hin
      have hr : r = 0 := by omega
      have hc : c = 0 := by omega
      subst hr hc; rfl
    · rw [if_neg hin]
      have : sumList zs (fun z => z.fld.emb r c) = sumList zs (fun _ => (0 : K)) := by
        apply sumList_congr
        intro z hz
        have fe : z.fld.emb r c = embAt z.fld.extent z.fld.arr.get r c := rfl
        rw [fe, hmem z hz]; unfold embAt
        rw [if_neg hin]
      rw [this, sumList_zero]

/-! ### what `reduceZ` returns for one group -/

/-- closed form of `GroupZ.out` under the current generated test `Gen.reduceMerges n = (n > 1)` -/
def GroupZ.outSpec [Add K] [Zero K] (g : GroupZ K) : Option (ZFld K) :=
  match g.fields with
  | [z] => some z
  | l => mergeZ l

theorem GroupZ.out_eq [Add K] [Zero K] (g : GroupZ K) : g.out = g.outSpec := by
  obtain ⟨fields, extent⟩ := g
  cases fields with
  | nil => simp [GroupZ.out, GroupZ.outSpec, Gen.reduceMerges]
  | cons a t =>
    cases t with
    | nil => simp [GroupZ.out, GroupZ.outSpec, Gen.reduceMerges]
    | cons b t =>
      simp [GroupZ.out, GroupZ.outSpec, Gen.reduceMerges]


theorem reduceZ_eq [Add K] [Zero K] (zs : List (ZFld K)) :
    reduceZ zs = (disjointZ zs.length (zs.map GroupZ.single)).map GroupZ.out := rfl

theorem single_toG (zs : List (ZFld K)) :
    (zs.map GroupZ.single).map GroupZ.toG = (zs.map fun z => z.fld).map Group.single := by
  simp only [List.map_map]; rfl

theorem GroupZ.out_spec [AddMonoid K] (g : GroupZ K) (hg : g.toG.wf) (p : ZFld K) (h : g.out = some p) :
    p.fld.extent = g.extent ∧ ∀ r c, p.fld.emb r c = (g.toG.fields.map fun f => f.emb r c).sum := by
  obtain ⟨fields, extent⟩ := g
  have hpos : ∀ z ∈ fields, 0 < z.fld.arr.s0 ∧ 0 < z.fld.arr.s1 := by
    intro z hz; exact hg.pos z.fld (List.mem_map_of_mem hz)
  have hsum : ∀ r c, sumList fields (fun z => z.fld.emb r c) = ((fields.map fun z => z.fld).map fun f => f.emb r c).sum := by
    intro r c; rw [sumList_eq_sum, List.map_map]; rfl
  rcases hg.ext with ⟨f, hf, he⟩ | ⟨hl, he⟩
  · simp only [GroupZ.toG] at hf he
    cases fields with
    | nil => simp at hf
    | cons z t =>
      cases t with
      | cons _ _ => simp at hf
      | nil =>
        simp only [List.map_cons, List.map_nil, List.cons.injEq, and_true] at hf
        simp only [GroupZ.out_eq, GroupZ.outSpec, Option.some.injEq] at h
        subst h
        subst hf
        exact ⟨he.symm, fun r c => by simp [GroupZ.toG]⟩
  · simp only [GroupZ.toG, List.length_map] at hl he
    have hne : fields ≠ [] := by intro h0; rw [h0] at hl; simp at hl
    have hm : GroupZ.out (K := K) ⟨fields, extent⟩ = mergeZ fields := by
      cases fields with
      | nil => simp at hl
      | cons a t =>
        cases t with
        | nil => simp at hl
        | cons b t => simp only [GroupZ.out_eq, GroupZ.outSpec]
    rw [hm] at h
    obtain ⟨e1, e2⟩ := mergeZ_spec fields hne hpos p h
    refine ⟨?_, fun r c => ?_⟩
    · rw [e1, he, List.map_map]; rfl
    · rw [e2 r c]; exact hsum r c

theorem map_outZ_spec [AddMonoid K] (gs : List (GroupZ K)) (out : List (ZFld K)) (hwf : ∀ g ∈ gs, g.toG.wf)
    (h : gs.map GroupZ.out = out.map some) :
    (out.map fun z => z.fld.extent) = gs.map GroupZ.extent ∧
    ∀ r c, (out.map fun z => z.fld.emb r c) = gs.map fun g => (g.toG.fields.map fun f => f.emb r c).sum := by
  induction gs generalizing out with
  | nil =>
    cases out with
    | nil => simp
    | cons p ps => simp at h
  | cons g gs ih =>
    cases out with
    | nil => simp at h
    | cons p ps =>
      simp only [List.map_cons, List.cons.injEq] at h
      obtain ⟨h1, h2⟩ := h
      obtain ⟨e1, e2⟩ := GroupZ.out_spec g (hwf g (List.mem_cons_self ..)) p h1
      obtain ⟨i1, i2⟩ := ih ps (fun x hx => hwf x (List.mem_cons_of_mem _ hx)) h2
      refine ⟨by simp only [List.map_cons, e1, i1], fun r c => ?_⟩
      simp only [List.map_cons, e2 r c, i2 r c]

/-- every group has an output (since the /repo fix of `_merge_shape`) -/
theorem GroupZ.out_isSome [Add K] [Zero K] (g : GroupZ K) : g.out.isSome = true := by
  obtain ⟨fields, extent⟩ := g
  cases fields with
  | nil => simp only [GroupZ.out_eq, GroupZ.outSpec]; exact mergeZ_isSome _
  | cons a t =>
    cases t with
    | nil => simp [GroupZ.out_eq, GroupZ.outSpec]
    | cons b t => simp only [GroupZ.out_eq, GroupZ.outSpec]; exact mergeZ_isSome _

/-- for a group without 0-d members the 0-d aware output is the plain-array output -/
theorem GroupZ.out_of_out [Add K] [Zero K] (g : GroupZ K) (hz : ∀ z ∈ g.fields, z.zd = false) (p : Fld K)
    (h : g.toG.out = some p) : (g.out.map fun z => z.fld) = some p := by
  obtain ⟨fields, extent⟩ := g
  cases fields with
  | nil =>
    simp only [GroupZ.toG, List.map_nil, Group.out] at h
    simp only [GroupZ.out_eq, GroupZ.outSpec]
    have hb : boundaryL ([] : List Extent) ≠ ⟨0, 0, 0, 0⟩ := by decide
    rw [mergeZ_of_mergeL [] p (Or.inr hb) h]; rfl
  | cons a t =>
    cases t with
    | nil =>
      simp only [GroupZ.toG, List.map_cons, List.map_nil, Group.out, Option.some.injEq] at h
      simp [GroupZ.out_eq, GroupZ.outSpec, h]
    | cons b t =>
      simp only [GroupZ.toG, List.map_cons, Group.out] at h
      simp only [GroupZ.out_eq, GroupZ.outSpec]
      have ha : ((a :: b :: t).all fun z => z.zd) = false := by
        simp only [List.all_cons, hz a (List.mem_cons_self ..), Bool.false_and]
      rw [mergeZ_of_mergeL (a :: b :: t) p (Or.inl ha) (by simpa using h)]; rfl

theorem map_out_of_out [Add K] [Zero K] (gs : List (GroupZ K)) (hz : ∀ g ∈ gs, ∀ z ∈ g.fields, z.zd = false)
    (out : List (Fld K)) (h : gs.map (fun g => g.toG.out) = out.map some) :
    gs.map (fun g => g.out.map fun z => z.fld) = out.map some := by
  induction gs generalizing out with
  | nil =>
    cases out with
    | nil => rfl
    | cons p ps => simp at h
  | cons g gs ih =>
    cases out with
    | nil => simp at h
    | cons p ps =>
      simp only [List.map_cons, List.cons.injEq] at h ⊢
      exact ⟨GroupZ.out_of_out g (hz g (List.mem_cons_self ..)) p h.1,
        ih (fun g' hg' => hz g' (List.mem_cons_of_mem _ hg')) ps h.2⟩

/-- the final groups of `reduceZ`, with the flags forgotten, are the final groups of `reduce` -/
theorem reduceZ_groups_toG (zs : List (ZFld K)) :
    (disjointZ zs.length (zs.map GroupZ.single)).map GroupZ.toG =
      disjoint (zs.map fun z => z.fld).length ((zs.map fun z => z.fld).map Group.single) := by
  rw [disjointZ_toG, single_toG, List.length_map]

theorem reduceZ_groups_wf (zs : List (ZFld K)) (hpos : ∀ z ∈ zs, 0 < z.fld.arr.s0 ∧ 0 < z.fld.arr.s1) :
    ∀ g ∈ disjointZ zs.length (zs.map GroupZ.single), g.toG.wf := by
  intro g hg
  have hmem : g.toG ∈ (disjointZ zs.length (zs.map GroupZ.single)).map GroupZ.toG := List.mem_map_of_mem hg
  rw [reduceZ_groups_toG] at hmem
  refine disjoint_wf _ _ ?_ _ hmem
  intro g' hg'
  obtain ⟨f, hf, rfl⟩ := List.mem_map.mp hg'
  obtain ⟨z, hz, rfl⟩ := List.mem_map.mp hf
  exact Group.single_wf _ (hpos z hz)

/-! ### totality of `reduce` / `reduceZ` (unconditional since the /repo fix of `_merge_shape`) -/

/-- every group has an output field -/
theorem Group.out_isSome [Add K] [Zero K] (g : Group K) : g.out.isSome = true := by
  obtain ⟨fields, extent⟩ := g
  cases fields with
  | nil => simp only [Group.out]; exact mergeL_isSome _
  | cons a t =>
    cases t with
    | nil => rfl
    | cons b t => simp only [Group.out]; exact mergeL_isSome _

/-- **totality of `reduce`**: every element of `reduce fs` is a field, for every collection of array fields -/
theorem reduce_isSome [Add K] [Zero K] (fs : List (Fld K)) : ∀ o ∈ reduce fs, o.isSome = true := by
  intro o ho
  rw [reduce_eq] at ho
  obtain ⟨g, _, rfl⟩ := List.mem_map.mp ho
  exact Group.out_isSome g

/-- **totality of the 0-d aware `reduce`** -/
theorem reduceZ_isSome [Add K] [Zero K] (zs : List (ZFld K)) : ∀ o ∈ reduceZ zs, o.isSome = true := by
  intro o ho
  rw [reduceZ_eq] at ho
  obtain ⟨g, _, rfl⟩ := List.mem_map.mp ho
  exact GroupZ.out_isSome g

/-- positive-shape members of a collection whose `boundary` box is the origin pixel all occupy exactly the origin pixel -/
theorem members_origin_of_box_origin (fs : List (Fld K)) (hpos : ∀ f ∈ fs, 0 < f.arr.s0 ∧ 0 < f.arr.s1)
    (hb : boundaryL (fs.map Fld.extent) = ⟨0, 0, 0, 0⟩) : ∀ f ∈ fs, f.extent = ⟨0, 0, 0, 0⟩ := by
  intro f hf
  have h1 := boundary_contains fs f hf
  simp only [hb] at h1
  have h2 := f.extent_valid (hpos f hf)
  cases he : f.extent with
  | mk a b c d => rw [he] at h1 h2; simp only at h1 h2; simp only [Extent.mk.injEq]; omega

/-- a field of more than one element never occupies exactly the origin pixel -/
theorem extent_ne_origin_of_not_size1 (f : Fld K) (hpos : 0 < f.arr.s0 ∧ 0 < f.arr.s1) (h : f.size1 = false) :
    f.extent ≠ ⟨0, 0, 0, 0⟩ := by
  intro he
  simp only [Fld.extent, arrayExtent_eq, Extent.mk.injEq] at he
  have : f.size1 = true := by
    simp only [Fld.size1, Bool.and_eq_true, decide_eq_true_eq]; omega
  rw [h] at this; cases this

/-! ### closed forms of the public `merge` / `overlap` models under the current generated tests (not property theorems) -/

theorem overlapL_two (a b : Fld K) : overlapL [a, b] = intersect a.extent b.extent := by
  simp [overlapL, Gen.overlapIsPair]

theorem overlapL_many [Add K] [Zero K] (fs : List (Fld K)) (h : fs.length ≠ 2) :
    overlapL fs = decide ((reduce fs).length ≤ 1) := by
  rw [reduce_eq, List.length_map]
  have h2 : ¬ ((fs.length : Int) = 2) := by omega
  simp only [overlapL, Gen.overlapIsPair, Gen.overlapManyFalse, h2, decide_false, Bool.false_eq_true, if_false]
  rw [Bool.eq_iff_iff]
  simp only [Bool.not_eq_true', decide_eq_false_iff_not, decide_eq_true_eq]
  have e : (fs.map fun f => ({ fields := [f], extent := f.extent } : Group K)) = fs.map Group.single := rfl
  rw [e]; omega

theorem mergePublic_eq [Add K] [Zero K] (a b : ZFld K) (enforce : Bool) :
    mergePublic a b enforce =
      if enforce = true ∧ intersect a.fld.extent b.fld.extent = false then none else mergeZ [a, b] := by
  unfold mergePublic
  rw [overlapL_two]
  cases enforce <;> cases intersect a.fld.extent b.fld.extent <;> simp [Gen.mergeRefuses, b2i]

end Lentil
