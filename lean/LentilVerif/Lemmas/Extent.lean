import LentilVerif.Model.Basic
/-! Facts about the generated extent kernel (core Lean, `omega`). Helper lemmas — property theorems are in Props/. -/
namespace Lentil

theorem Extent.inb_iff (e : Extent) (r c : Int) :
    e.inb r c = true ↔ e.rmin ≤ r ∧ r ≤ e.rmax ∧ e.cmin ≤ c ∧ c ≤ e.cmax := by
  unfold Extent.inb; simp only [Bool.and_eq_true, decide_eq_true_eq]; omega

theorem Extent.inb_iff_mem (e : Extent) (r c : Int) : e.inb r c = true ↔ e.mem r c := Extent.inb_iff e r c

theorem arrayExtent_eq (s0 s1 o0 o1 : Int) :
    arrayExtent s0 s1 o0 o1 = ⟨-(s0 / 2) + o0, -(s0 / 2) + o0 + s0 - 1, -(s1 / 2) + o1, -(s1 / 2) + o1 + s1 - 1⟩ := by
  simp [arrayExtent, Gen.arrayExtent, Extent.ofT]

theorem intersect_eq (a b : Extent) :
    intersect a b = (decide (a.rmin ≤ b.rmax) && decide (a.rmax ≥ b.rmin) && decide (a.cmin ≤ b.cmax) && decide (a.cmax ≥ b.cmin)) := by
  simp [intersect, Gen.intersect]

theorem intersect_iff' (a b : Extent) :
    intersect a b = true ↔ a.rmin ≤ b.rmax ∧ b.rmin ≤ a.rmax ∧ a.cmin ≤ b.cmax ∧ b.cmin ≤ a.cmax := by
  rw [intersect_eq]; simp only [Bool.and_eq_true, decide_eq_true_eq, ge_iff_le]; omega

theorem intersectionExtent_eq (a b : Extent) :
    intersectionExtent a b = ⟨max a.rmin b.rmin, min a.rmax b.rmax, max a.cmin b.cmin, min a.cmax b.cmax⟩ := by
  simp [intersectionExtent, Gen.intersectionExtent, Extent.ofT]

theorem intersectionShift_eq (a b : Extent) :
    intersectionShift a b =
      (max a.rmin b.rmin + (min a.rmax b.rmax - max a.rmin b.rmin + 1) / 2,
       max a.cmin b.cmin + (min a.cmax b.cmax - max a.cmin b.cmin + 1) / 2) := by
  simp [intersectionShift, Gen.intersectionShift, Gen.intersectionExtent]

theorem intersectionSlices_eq (a b : Extent) :
    intersectionSlices a b =
      (((max a.rmin b.rmin - a.rmin, min a.rmax b.rmax - a.rmin + 1), (max a.cmin b.cmin - a.cmin, min a.cmax b.cmax - a.cmin + 1)),
       ((max a.rmin b.rmin - b.rmin, min a.rmax b.rmax - b.rmin + 1), (max a.cmin b.cmin - b.cmin, min a.cmax b.cmax - b.cmin + 1))) := by
  simp [intersectionSlices, Gen.intersectionSlices, Gen.intersectionExtent]

theorem intersectionShape_eq (a b : Extent) :
    intersectionShape a b =
      if (decide (min a.rmax b.rmax - max a.rmin b.rmin + 1 ≤ 0) || decide (min a.cmax b.cmax - max a.cmin b.cmin + 1 ≤ 0)) then none
      else some (min a.rmax b.rmax - max a.rmin b.rmin + 1, min a.cmax b.cmax - max a.cmin b.cmin + 1) := by
  unfold intersectionShape Gen.intersectionShape Gen.intersectionExtent; rfl

theorem arrayCenter_eq (e : Extent) :
    arrayCenter e = (e.rmin + (e.rmax - e.rmin + 1) / 2, e.cmin + (e.cmax - e.cmin + 1) / 2) := by
  simp [arrayCenter, Gen.arrayCenter]

end Lentil

namespace Lentil

/-- Bool form of `intersection_mem` -/
theorem inter_inb (a b : Extent) (r c : Int) :
    (intersectionExtent a b).inb r c = (a.inb r c && b.inb r c) := by
  rw [Bool.eq_iff_iff, Bool.and_eq_true, Extent.inb_iff, Extent.inb_iff, Extent.inb_iff, intersectionExtent_eq]
  simp only; omega

theorem not_intersect_inb (a b : Extent) (h : intersect a b = false) (r c : Int) :
    (a.inb r c && b.inb r c) = false := by
  rw [Bool.eq_false_iff]
  intro hh
  rw [Bool.and_eq_true, Extent.inb_iff, Extent.inb_iff] at hh
  have : intersect a b = true := by rw [intersect_iff']; omega
  rw [h] at this; exact Bool.false_ne_true this

/-- where the intersection slices start, in each operand's index space -/
theorem slices_start (a b : Extent) :
    (intersectionSlices a b).1.1.1 = (intersectionExtent a b).rmin - a.rmin ∧
    (intersectionSlices a b).1.2.1 = (intersectionExtent a b).cmin - a.cmin ∧
    (intersectionSlices a b).2.1.1 = (intersectionExtent a b).rmin - b.rmin ∧
    (intersectionSlices a b).2.2.1 = (intersectionExtent a b).cmin - b.cmin := by
  rw [intersectionSlices_eq, intersectionExtent_eq]; simp

/-- the product array (shape of the `a` slice, offset = intersection shift) occupies exactly the intersection extent -/
theorem mulArr_extent (a b : Extent) (h : intersect a b = true) :
    arrayExtent ((intersectionSlices a b).1.1.2 - (intersectionSlices a b).1.1.1)
                ((intersectionSlices a b).1.2.2 - (intersectionSlices a b).1.2.1)
                (intersectionShift a b).1 (intersectionShift a b).2 = intersectionExtent a b := by
  rw [intersect_iff'] at h
  rw [arrayExtent_eq, intersectionExtent_eq, intersectionShift_eq, intersectionSlices_eq]
  simp only [Extent.mk.injEq]
  omega

/-- the two slices of `self.data[self_slice] * other.data[other_slice]` are non-empty, inside their arrays and of equal shape -/
theorem slices_wellformed (a b : Extent) (ha : a.rmin ≤ a.rmax ∧ a.cmin ≤ a.cmax) (hb : b.rmin ≤ b.rmax ∧ b.cmin ≤ b.cmax)
    (h : intersect a b = true) :
    (0 ≤ (intersectionSlices a b).1.1.1 ∧ (intersectionSlices a b).1.1.1 < (intersectionSlices a b).1.1.2 ∧
      (intersectionSlices a b).1.1.2 ≤ a.nrow) ∧
    (0 ≤ (intersectionSlices a b).1.2.1 ∧ (intersectionSlices a b).1.2.1 < (intersectionSlices a b).1.2.2 ∧
      (intersectionSlices a b).1.2.2 ≤ a.ncol) ∧
    (0 ≤ (intersectionSlices a b).2.1.1 ∧ (intersectionSlices a b).2.1.1 < (intersectionSlices a b).2.1.2 ∧
      (intersectionSlices a b).2.1.2 ≤ b.nrow) ∧
    (0 ≤ (intersectionSlices a b).2.2.1 ∧ (intersectionSlices a b).2.2.1 < (intersectionSlices a b).2.2.2 ∧
      (intersectionSlices a b).2.2.2 ≤ b.ncol) ∧
    (intersectionSlices a b).1.1.2 - (intersectionSlices a b).1.1.1 = (intersectionSlices a b).2.1.2 - (intersectionSlices a b).2.1.1 ∧
    (intersectionSlices a b).1.2.2 - (intersectionSlices a b).1.2.1 = (intersectionSlices a b).2.2.2 - (intersectionSlices a b).2.2.1 := by
  rw [intersect_iff'] at h
  rw [intersectionSlices_eq]; simp only [Extent.nrow, Extent.ncol]; omega

/-! ### translation covariance of the extent kernel (position independence) -/

/-- an extent moved by (d0, d1) pixels -/
def Extent.shift (e : Extent) (d0 d1 : Int) : Extent := ⟨e.rmin + d0, e.rmax + d0, e.cmin + d1, e.cmax + d1⟩

theorem arrayExtent_translate (s0 s1 o0 o1 d0 d1 : Int) :
    arrayExtent s0 s1 (o0 + d0) (o1 + d1) = (arrayExtent s0 s1 o0 o1).shift d0 d1 := by
  rw [arrayExtent_eq, arrayExtent_eq]; simp only [Extent.shift, Extent.mk.injEq]; omega

theorem intersect_translate (a b : Extent) (d0 d1 : Int) :
    intersect (a.shift d0 d1) (b.shift d0 d1) = intersect a b := by
  rw [Bool.eq_iff_iff, intersect_iff', intersect_iff']; simp only [Extent.shift]; omega

theorem intersectionSlices_translate (a b : Extent) (d0 d1 : Int) :
    intersectionSlices (a.shift d0 d1) (b.shift d0 d1) = intersectionSlices a b := by
  rw [intersectionSlices_eq, intersectionSlices_eq]; simp only [Extent.shift, Prod.mk.injEq]; omega

theorem intersectionShift_translate (a b : Extent) (d0 d1 : Int) :
    intersectionShift (a.shift d0 d1) (b.shift d0 d1) = ((intersectionShift a b).1 + d0, (intersectionShift a b).2 + d1) := by
  rw [intersectionShift_eq, intersectionShift_eq]; simp only [Extent.shift, Prod.mk.injEq]; omega

end Lentil
