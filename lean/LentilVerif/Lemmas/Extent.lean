import LentilVerif.Model.Basic
/-! Facts about the generated extent kernel (core Lean, `omega`). Helper lemmas — property theorems are in Props/. -/
namespace Lentil

theorem Extent.inb_iff (e : Extent) (r c : Int) :
    e.inb r c = true ↔ e.rmin ≤ r ∧ r ≤ e.rmax ∧ e.cmin ≤ c ∧ c ≤ e.cmax := by
  unfold Extent.inb; simp only [Bool.and_eq_true, decide_eq_true_eq]; omega

theorem Extent.inb_iff_mem (e : Extent) (r c : Int) : e.inb r c = true ↔ e.mem r c := Extent.inb_iff e r c

theorem arrayExtent_eq (s0 s1 o0 o1 : Int) :
    arrayExtent s0 s1 o0 o1 = ⟨-(s0 / 2) + o0, -(s0 / 2) + o0 + s0 - 1, -(s1 / 2) + o1, -(s1 / 2) + o1 + s1 - 1⟩ := by
  simp [arrayExtent, Gen.arrayExtent, Extent.ofT]

theorem intersect_eq (a b : Extent) :
    intersect a b = (decide (a.rmin ≤ b.rmax) && decide (a.rmax ≥ b.rmin) && decide (a.cmin ≤ b.cmax) && decide (a.cmax ≥ b.cmin)) := by
  simp [intersect, Gen.intersect]

theorem intersect_iff' (a b : Extent) :
    intersect a b = true ↔ a.rmin ≤ b.rmax ∧ b.rmin ≤ a.rmax ∧ a.cmin ≤ b.cmax ∧ b.cmin ≤ a.cmax := by
  rw [intersect_eq]; simp only [Bool.and_eq_true, decide_eq_true_eq, ge_iff_le]; omega

theorem intersectionExtent_eq (a b : Extent) :
    intersectionExtent a b = ⟨max a.rmin b.rmin, min a.rmax b.rmax, max a.cmin b.cmin, min a.cmax b.cmax⟩ := by
  simp [intersectionExtent, Gen.intersectionExtent, Extent.ofT]

theorem intersectionShift_eq (a b : Extent) :
    intersectionShift a b =
      (max a.rmin b.rmin + (min a.rmax b.rmax - max a.rmin b.rmin + 1) / 2,
       max a.cmin b.cmin + (min a.cmax b.cmax - max a.cmin b.cmin + 1) / 2) := by
  simp [intersectionShift, Gen.intersectionShift, Gen.intersectionExtent]

theorem intersectionSlices_eq (a b : Extent) :
    intersectionSlices a b =
      (((max a.rmin b.rmin - a.rmin, min a.rmax b.rmax - a.rmin + 1), (max a.cmin b.cmin - a.cmin, min a.cmax b.cmax - a.cmin + 1)),
       ((max a.rmin b.rmin - b.rmin, min a.rmax b.rmax - b.rmin + 1), (max a.cmin b.cmin - b.cmin, min a.cmax b.cmax - b.cmin + 1))) := by
  simp [intersectionSlices, Gen.intersectionSlices, Gen.intersectionExtent]

theorem intersectionShape_eq (a b : Extent) :
    intersectionShape a b =
      if (decide (min a.rmax b.rmax - max a.rmin b.rmin + 1 ≤ 0) || decide (min a.cmax b.cmax - max a.cmin b.cmin + 1 ≤ 0)) then none
      else some (min a.rmax b.rmax - max a.rmin b.rmin + 1, min a.cmax b.cmax - max a.cmin b.cmin + 1) := by
  unfold intersectionShape Gen.intersectionShape Gen.intersectionExtent; rfl

theorem arrayCenter_eq (e : Extent) :
    arrayCenter e = (e.rmin + (e.rmax - e.rmin + 1) / 2, e.cmin + (e.cmax - e.cmin + 1) / 2) := by
  simp [arrayCenter, Gen.arrayCenter]

end Lentil
