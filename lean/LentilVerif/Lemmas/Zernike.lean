import LentilVerif.Model.ZernikeRadial
import LentilVerif.Model.Zernike
/-! Noll index arithmetic (core Lean, `omega`). Helper lemmas — property theorems are in Props/C11.lean. -/
namespace Lentil

theorem tri_succ (n : Nat) : tri (n + 1) = tri n + (n + 1) := by
  unfold tri
  have h : (n + 1) * (n + 1 + 1) = n * (n + 1) + 2 * (n + 1) := by
    simp only [Nat.mul_add, Nat.add_mul, Nat.mul_one, Nat.one_mul]; omega
  rw [h, Nat.add_mul_div_left _ _ (by decide : 0 < 2)]

theorem rowPos_spec (fuel n q : Nat) (hf : q ≤ fuel + n) :
    (rowPos n q fuel).2 ≤ (rowPos n q fuel).1 ∧
    tri (rowPos n q fuel).1 + (rowPos n q fuel).2 = tri n + q ∧ n ≤ (rowPos n q fuel).1 := by
  induction fuel generalizing n q with
  | zero => simp only [rowPos]; exact ⟨by omega, trivial, Nat.le_refl _⟩
  | succ f ih =>
    simp only [rowPos]
    split
    · simp_all
    · have := ih (n + 1) (q - (n + 1)) (by omega)
      rw [tri_succ] at this
      omega

theorem nollRow_spec (j : Nat) (hj : 1 ≤ j) :
    (nollRow j).2 ≤ (nollRow j).1 ∧ j = tri (nollRow j).1 + (nollRow j).2 + 1 := by
  have := rowPos_spec j 0 (j - 1) (by omega)
  unfold nollRow
  have t0 : tri 0 = 0 := by decide
  rw [t0] at this
  omega

theorem tri_mono {a b : Nat} (h : a ≤ b) : tri a ≤ tri b := by
  induction h with
  | refl => exact Nat.le_refl _
  | step _ ih => rw [tri_succ]; omega

/-- uniqueness: (n, p) with p ≤ n is determined by tri n + p -/
theorem row_unique (n p n' p' : Nat) (hp : p ≤ n) (hp' : p' ≤ n') (h : tri n + p = tri n' + p') :
    n = n' ∧ p = p' := by
  rcases Nat.lt_trichotomy n n' with hlt | heq | hgt
  · have := tri_mono (show n + 1 ≤ n' from hlt); rw [tri_succ] at this; omega
  · subst heq; omega
  · have := tri_mono (show n' + 1 ≤ n from hgt); rw [tri_succ] at this; omega

/-- the row/position of `tri n + p + 1` is `(n, p)` -/
theorem nollRow_of (n p : Nat) (hp : p ≤ n) : nollRow (tri n + p + 1) = (n, p) := by
  obtain ⟨h1, h2⟩ := nollRow_spec (tri n + p + 1) (by omega)
  have := row_unique (nollRow (tri n + p + 1)).1 (nollRow (tri n + p + 1)).2 n p h1 hp (by omega)
  exact Prod.ext this.1 this.2

theorem absM_valid (n p : Nat) (hp : p ≤ n) : absM n p ≤ n ∧ (n - absM n p) % 2 = 0 := by
  unfold absM; split <;> omega

/-! ### the literal list construction of `zernike_index` -/

/-- `[a+2, a+2, a+4, a+4, …]` (2t entries) -/
def pairTail : Nat → Nat → List Nat
  | _, 0 => []
  | a, t + 1 => (a + 2) :: (a + 2) :: pairTail (a + 2) t

/-- the regenerated pieces of `zernike_index` in closed form (each `rfl`: an edit of the source changes the generated definition and
breaks these, and with them `codeIndex_eq`) -/
theorem gen_index_forms (j n a : Nat) :
    Gen.rowStep a = [a + 2, a + 2] ∧ Gen.rowSeed n = (if n % 2 = 1 then [1, 1] else [0]) ∧ Gen.rowLoops n = n / 2 ∧
    Gen.idxR j n = (j : Int) - ((n + 1) * (n + 2) / 2 : Nat) - 1 ∧ Gen.idxSign j = (if j % 2 = 1 then -1 else 1) :=
  ⟨rfl, rfl, rfl, rfl, rfl⟩

theorem rowMLoop_eq (t : Nat) (l : List Nat) : rowMLoop t l = l ++ pairTail (l.getLastD 0) t := by
  induction t generalizing l with
  | zero => simp [rowMLoop, pairTail]
  | succ t ih =>
    simp only [rowMLoop, pairTail, (gen_index_forms 0 0 _).1]
    rw [ih]
    have : (l ++ [l.getLastD 0 + 2, l.getLastD 0 + 2]).getLastD 0 = l.getLastD 0 + 2 := by simp
    rw [this]
    simp

theorem pairTail_length (a t : Nat) : (pairTail a t).length = 2 * t := by
  induction t generalizing a with
  | zero => rfl
  | succ t ih => simp only [pairTail, List.length_cons, ih]; omega

theorem pairTail_getD (a t p : Nat) (hp : p < 2 * t) : (pairTail a t).getD p 0 = a + 2 * (p / 2 + 1) := by
  induction t generalizing a p with
  | zero => omega
  | succ t ih =>
    simp only [pairTail]
    match p with
    | 0 => simp
    | 1 => simp
    | p + 2 =>
      simp only [List.getD_cons_succ]
      rw [ih (a + 2) p (by omega)]
      omega

theorem rowMList_getD (n p : Nat) (hp : p ≤ n) : (rowMList n).length = n + 1 ∧ (rowMList n).getD p 0 = absM n p := by
  unfold rowMList
  rw [rowMLoop_eq, (gen_index_forms 0 n 0).2.1, (gen_index_forms 0 n 0).2.2.1]
  by_cases hn : n % 2 = 1
  · simp only [hn, if_true]
    refine ⟨by simp [pairTail_length]; omega, ?_⟩
    unfold absM
    rw [if_neg (by omega)]
    match p with
    | 0 => simp
    | 1 => simp
    | p + 2 =>
      have : ([1, 1] ++ pairTail ([1, 1].getLastD 0) (n / 2)).getD (p + 2) 0 = (pairTail 1 (n / 2)).getD p 0 := by simp
      rw [this, pairTail_getD 1 (n / 2) p (by omega)]
      omega
  · simp only [hn, if_false]
    refine ⟨by simp [pairTail_length]; omega, ?_⟩
    unfold absM
    rw [if_pos (by omega)]
    match p with
    | 0 => simp
    | p + 1 =>
      have : ([0] ++ pairTail ([0].getLastD 0) (n / 2)).getD (p + 1) 0 = (pairTail 0 (n / 2)).getD p 0 := by simp
      rw [this, pairTail_getD 0 (n / 2) p (by omega)]
      omega

theorem codeIndex_eq (j : Nat) (hj : 1 ≤ j) : codeIndex j = (nollM j, nollN j) := by
  obtain ⟨hp, e⟩ := nollRow_spec j hj
  unfold codeIndex nollM nollN
  simp only [(gen_index_forms j _ 0).2.2.2.1, (gen_index_forms j 0 0).2.2.2.2]
  generalize hn : (nollRow j).1 = n at *
  generalize hq : (nollRow j).2 = p at *
  by_cases n0 : n = 0
  · subst n0
    have p0 : p = 0 := by omega
    subst p0
    simp [absM]
  · rw [if_neg n0]
    obtain ⟨hl, hg⟩ := rowMList_getD n p hp
    have ht : (n + 1) * (n + 2) / 2 = tri n + (n + 1) := by rw [← tri_succ]; rfl
    simp only [ht, hl]
    have hr : ((j : Int) - ((tri n + (n + 1) : Nat) : Int) - 1) < 0 := by omega
    rw [if_pos hr]
    have hidx : (((n + 1 : Nat) : Int) + ((j : Int) - ((tri n + (n + 1) : Nat) : Int) - 1)).toNat = p := by omega
    rw [hidx, hg]
    refine Prod.ext ?_ rfl
    simp only
    by_cases hj2 : j % 2 = 0
    · rw [if_neg (by omega), if_pos hj2]; omega
    · rw [if_pos (by omega), if_neg hj2]; omega
/-! ### evaluation strategy of the driver -/

theorem radialEval_eq_terms {K : Type} [Add K] [Mul K] [Zero K] [One K] [IntCast K] (n m : Nat) (rho : K) :
    radialEval n m rho = evalTerms (radialTerms n m) rho := by
  unfold radialEval evalTerms radialTerms
  split
  · rfl
  · rw [List.foldl_map]

theorem zernFast_eq {K : Type} [Add K] [Mul K] [Zero K] [One K] [IntCast K] (sqrtN : Nat → K) (cos sin : K → K)
    (j : Nat) (normalize : Bool) (rho theta : K) (mask : Bool) :
    zernFast sqrtN cos sin j normalize rho theta mask = zernAt sqrtN cos sin j normalize rho theta mask := by
  unfold zernFast zernAt
  simp only [radialEval_eq_terms]

end Lentil
