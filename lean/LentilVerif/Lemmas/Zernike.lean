import LentilVerif.Model.Zernike
/-! Noll index arithmetic (core Lean, `omega`). Helper lemmas — property theorems are in Props/C11.lean. -/
namespace Lentil

theorem tri_succ (n : Nat) : tri (n + 1) = tri n + (n + 1) := by
  unfold tri
  have h : (n + 1) * (n + 1 + 1) = n * (n + 1) + 2 * (n + 1) := by
    simp only [Nat.mul_add, Nat.add_mul, Nat.mul_one, Nat.one_mul]; omega
  rw [h, Nat.add_mul_div_left _ _ (by decide : 0 < 2)]

theorem rowPos_spec (fuel n q : Nat) (hf : q ≤ fuel + n) :
    (rowPos n q fuel).2 ≤ (rowPos n q fuel).1 ∧
    tri (rowPos n q fuel).1 + (rowPos n q fuel).2 = tri n + q ∧ n ≤ (rowPos n q fuel).1 := by
  induction fuel generalizing n q with
  | zero => simp only [rowPos]; exact ⟨by omega, trivial, Nat.le_refl _⟩
  | succ f ih =>
    simp only [rowPos]
    split
    · simp_all
    · have := ih (n + 1) (q - (n + 1)) (by omega)
      rw [tri_succ] at this
      omega

theorem nollRow_spec (j : Nat) (hj : 1 ≤ j) :
    (nollRow j).2 ≤ (nollRow j).1 ∧ j = tri (nollRow j).1 + (nollRow j).2 + 1 := by
  have := rowPos_spec j 0 (j - 1) (by omega)
  unfold nollRow
  have t0 : tri 0 = 0 := by decide
  rw [t0] at this
  omega

theorem tri_mono {a b : Nat} (h : a ≤ b) : tri a ≤ tri b := by
  induction h with
  | refl => exact Nat.le_refl _
  | step _ ih => rw [tri_succ]; omega

/-- uniqueness: (n, p) with p ≤ n is determined by tri n + p -/
theorem row_unique (n p n' p' : Nat) (hp : p ≤ n) (hp' : p' ≤ n') (h : tri n + p = tri n' + p') :
    n = n' ∧ p = p' := by
  rcases Nat.lt_trichotomy n n' with hlt | heq | hgt
  · have := tri_mono (show n + 1 ≤ n' from hlt); rw [tri_succ] at this; omega
  · subst heq; omega
  · have := tri_mono (show n' + 1 ≤ n from hgt); rw [tri_succ] at this; omega

/-- the row/position of `tri n + p + 1` is `(n, p)` -/
theorem nollRow_of (n p : Nat) (hp : p ≤ n) : nollRow (tri n + p + 1) = (n, p) := by
  obtain ⟨h1, h2⟩ := nollRow_spec (tri n + p + 1) (by omega)
  have := row_unique (nollRow (tri n + p + 1)).1 (nollRow (tri n + p + 1)).2 n p h1 hp (by omega)
  exact Prod.ext this.1 this.2

theorem absM_valid (n p : Nat) (hp : p ≤ n) : absM n p ≤ n ∧ (n - absM n p) % 2 = 0 := by
  unfold absM; split <;> omega

end Lentil
