import LentilVerif.Model.Field
import LentilVerif.Lemmas.Extent
import LentilVerif.Lemmas.Field
import Mathlib.Algebra.BigOperators.Group.List.Basic
/-! Helper lemmas for `reduce` / `_disjoint` / `boundary` (C06). Property theorems are in Props/C06.lean.
No `min`/`max` is typed in this file (it imports Mathlib; see the agent guide). -/
namespace Lentil
variable {K : Type}

/-! ### the index list of `itertools.combinations(range(n), 2)` and `firstPair` -/

/-- the pairs (m, k), m < k < n, in `combinations` order — the list `firstPair` searches -/
def pairIdx (n : Nat) : List (Nat × Nat) :=
  (List.range n).flatMap fun m => ((List.range n).filter fun k => m < k).map fun k => (m, k)

/-- the test `firstPair` applies to a pair of indices -/
def pairPred (gs : List (Group K)) : Nat × Nat → Bool := fun (m, k) =>
  match gs[m]?, gs[k]? with
  | some gm, some gk => intersect gm.extent gk.extent
  | _, _ => false

theorem firstPair_eq (gs : List (Group K)) : firstPair gs = (pairIdx gs.length).find? (pairPred gs) := rfl

theorem mem_pairIdx (n m k : Nat) : (m, k) ∈ pairIdx n ↔ m < k ∧ k < n := by
  simp only [pairIdx, List.mem_flatMap, List.mem_map, List.mem_filter, List.mem_range, decide_eq_true_eq,
    Prod.mk.injEq]
  constructor
  · rintro ⟨a, ha, b, ⟨hb, hab⟩, rfl, rfl⟩; exact ⟨hab, hb⟩
  · rintro ⟨h1, h2⟩; exact ⟨m, by omega, k, ⟨h2, h1⟩, rfl, rfl⟩

theorem pairPred_eq (gs : List (Group K)) (m k : Nat) (hm : m < gs.length) (hk : k < gs.length) :
    pairPred gs (m, k) = intersect gs[m].extent gs[k].extent := by
  simp only [pairPred, List.getElem?_eq_getElem hm, List.getElem?_eq_getElem hk]

/-- the pair found by `firstPair` is a genuine pair of distinct indices whose cached extents intersect -/
theorem firstPair_some (gs : List (Group K)) (m k : Nat) (h : firstPair gs = some (m, k)) :
    ∃ (hmk : m < k) (hk : k < gs.length), intersect (gs[m]'(by omega)).extent gs[k].extent = true := by
  rw [firstPair_eq] at h
  have hmem := List.mem_of_find?_eq_some h
  have hp := List.find?_some h
  rw [mem_pairIdx] at hmem
  obtain ⟨hmk, hk⟩ := hmem
  rw [pairPred_eq gs m k (by omega) hk] at hp
  exact ⟨hmk, hk, hp⟩

/-- no pair found: all cached extents are pairwise non-intersecting -/
theorem firstPair_none (gs : List (Group K)) (h : firstPair gs = none) (m k : Nat) (hmk : m < k) (hk : k < gs.length) :
    intersect (gs[m]'(by omega)).extent gs[k].extent = false := by
  rw [firstPair_eq, List.find?_eq_none] at h
  have := h (m, k) ((mem_pairIdx _ _ _).2 ⟨hmk, hk⟩)
  rw [pairPred_eq gs m k (by omega) hk] at this
  simpa using this

/-- `firstPair` finds nothing exactly when no pair of cached extents intersects (inclusive test: sharing a single pixel
row or column counts), whatever the number of groups -/
theorem firstPair_none_iff (gs : List (Group K)) :
    firstPair gs = none ↔ ∀ (m k : Nat) (_ : m < k) (hk : k < gs.length), intersect (gs[m]'(by omega)).extent gs[k].extent = false := by
  constructor
  · intro h m k hmk hk; exact firstPair_none gs h m k hmk hk
  · intro h
    rw [firstPair_eq, List.find?_eq_none]
    rintro ⟨m, k⟩ hmem
    rw [mem_pairIdx] at hmem
    rw [pairPred_eq gs m k (by omega) hmem.2, h m k hmem.1 hmem.2]
    simp

/-! ### one step of `_disjoint` -/

/-- `fields[m]['field'].extend(fields[n]['field']); fields[m]['extent'] = boundary(fields[m]['field'])` -/
def mergeGroups (gm gk : Group K) : Group K :=
  { fields := gm.fields ++ gk.fields, extent := boundaryL ((gm.fields ++ gk.fields).map Fld.extent) }

theorem disjoint_zero (gs : List (Group K)) : disjoint 0 gs = gs := rfl

theorem disjoint_succ_none (fuel : Nat) (gs : List (Group K)) (h : firstPair gs = none) :
    disjoint (fuel + 1) gs = gs := by
  unfold disjoint; simp only [h]

theorem disjoint_succ_some (fuel : Nat) (gs : List (Group K)) (m k : Nat) (hm : m < gs.length) (hk : k < gs.length)
    (h : firstPair gs = some (m, k)) :
    disjoint (fuel + 1) gs = disjoint fuel ((gs.set m (mergeGroups gs[m] gs[k])).eraseIdx k) := by
  conv => lhs; unfold disjoint
  -- the recognised step constants of the current source: keep m, append n, recompute m, pop n
  have hst : Gen.disjointStep = (0, 1, 0, 1) := rfl
  simp only [h, hst, if_true, Int.reduceEq, if_false, List.getElem?_eq_getElem hm, List.getElem?_eq_getElem hk,
    List.getElem?_set_self hm, List.set_set, mergeGroups]

/-- induction principle: a predicate that holds initially and survives every merge step (of an intersecting pair
`m < k`) holds for the result of `_disjoint` -/
theorem disjoint_induction (P : List (Group K) → Prop)
    (hstep : ∀ (gs : List (Group K)) (m k : Nat) (hmk : m < k) (hk : k < gs.length),
      intersect (gs[m]'(by omega)).extent gs[k].extent = true → P gs →
      P ((gs.set m (mergeGroups (gs[m]'(by omega)) gs[k])).eraseIdx k))
    (fuel : Nat) (gs : List (Group K)) (h0 : P gs) : P (disjoint fuel gs) := by
  induction fuel generalizing gs with
  | zero => exact h0
  | succ fuel ih =>
    cases hfp : firstPair gs with
    | none => rw [disjoint_succ_none fuel gs hfp]; exact h0
    | some mk =>
      obtain ⟨m, k⟩ := mk
      obtain ⟨hmk, hk, hint⟩ := firstPair_some gs m k hfp
      rw [disjoint_succ_some fuel gs m k (by omega) hk hfp]
      exact ih _ (hstep gs m k hmk hk hint h0)

theorem step_length (gs : List (Group K)) (m k : Nat) (g : Group K) (hk : k < gs.length) :
    ((gs.set m g).eraseIdx k).length = gs.length - 1 := by
  rw [List.length_eraseIdx, List.length_set, if_pos hk]

/-- fuel = number of groups suffices: the result is a fixed point (no intersecting pair left) -/
theorem disjoint_fixed (fuel : Nat) (gs : List (Group K)) (h : gs.length ≤ fuel) : firstPair (disjoint fuel gs) = none := by
  induction fuel generalizing gs with
  | zero =>
    have : gs = [] := List.eq_nil_of_length_eq_zero (by omega)
    subst this; rfl
  | succ fuel ih =>
    cases hfp : firstPair gs with
    | none => rw [disjoint_succ_none fuel gs hfp]; exact hfp
    | some mk =>
      obtain ⟨m, k⟩ := mk
      obtain ⟨hmk, hk, _⟩ := firstPair_some gs m k hfp
      rw [disjoint_succ_some fuel gs m k (by omega) hk hfp]
      apply ih
      rw [step_length gs m k _ hk]; omega

/-! ### the group invariant -/

/-- invariant of the groups of `_reduce`: member fields of positive shape; a singleton group caches its field's
extent, a group of two or more caches `boundary` of its members -/
structure Group.wf (g : Group K) : Prop where
  pos : ∀ f ∈ g.fields, 0 < f.arr.s0 ∧ 0 < f.arr.s1
  ext : (∃ f, g.fields = [f] ∧ g.extent = f.extent) ∨
        (2 ≤ g.fields.length ∧ g.extent = boundaryL (g.fields.map Fld.extent))

theorem Group.wf.ne_nil {g : Group K} (h : g.wf) : g.fields ≠ [] := by
  rcases h.ext with ⟨f, hf, _⟩ | ⟨hl, _⟩
  · rw [hf]; simp
  · intro h0; rw [h0] at hl; simp at hl

/-- the initial group `{'field': [f], 'extent': f.extent}` of `_reduce` -/
def Group.single (f : Fld K) : Group K := { fields := [f], extent := f.extent }

theorem Group.single_wf (f : Fld K) (hf : 0 < f.arr.s0 ∧ 0 < f.arr.s1) : (Group.single f).wf :=
  ⟨by intro x hx; rw [Group.single, List.mem_singleton] at hx; subst hx; exact hf, Or.inl ⟨f, rfl, rfl⟩⟩

theorem mergeGroups_wf (a b : Group K) (ha : a.wf) (hb : b.wf) : (mergeGroups a b).wf := by
  refine ⟨?_, Or.inr ⟨?_, rfl⟩⟩
  · intro f hf
    rcases List.mem_append.mp hf with h | h
    · exact ha.pos f h
    · exact hb.pos f h
  · have h1 := List.length_pos_of_ne_nil ha.ne_nil
    have h2 := List.length_pos_of_ne_nil hb.ne_nil
    simp only [mergeGroups, List.length_append]; omega

theorem step_mem (gs : List (Group K)) (m k : Nat) (g' g : Group K) (h : g ∈ (gs.set m g').eraseIdx k) :
    g ∈ gs ∨ g = g' :=
  List.mem_or_eq_of_mem_set (List.mem_of_mem_eraseIdx h)

theorem disjoint_wf (fuel : Nat) (gs : List (Group K)) (h : ∀ g ∈ gs, g.wf) : ∀ g ∈ disjoint fuel gs, g.wf := by
  refine disjoint_induction (fun gs => ∀ g ∈ gs, g.wf) ?_ fuel gs h
  intro gs m k hmk hk _ hP g hg
  rcases step_mem gs m k _ g hg with h1 | h1
  · exact hP g h1
  · subst h1
    exact mergeGroups_wf _ _ (hP _ (List.getElem_mem _)) (hP _ (List.getElem_mem _))

/-! ### what `reduce` returns for one group -/

/-- `_merge(f['field']) if len(f['field']) > 1 else f['field'][0]` -/
def Group.out [Add K] [Zero K] (g : Group K) : Option (Fld K) :=
  match g.fields with
  | [f] => some f
  | l => mergeL l

theorem reduce_eq [Add K] [Zero K] (fs : List (Fld K)) :
    reduce fs = (disjoint fs.length (fs.map Group.single)).map Group.out := rfl

theorem sumList_eq_sum [AddMonoid K] {α} (l : List α) (f : α → K) : sumList l f = (l.map f).sum := by
  unfold sumList
  suffices ∀ acc : K, l.foldl (fun acc x => acc + f x) acc = acc + (l.map f).sum by
    rw [this 0, zero_add]
  induction l with
  | nil => intro acc; simp
  | cons x xs ih => intro acc; simp only [List.foldl_cons, List.map_cons, List.sum_cons, ih, add_assoc]

/-- the field returned for a well-formed group occupies the group's cached extent and embeds as the sum of its members -/
theorem Group.out_spec [AddMonoid K] (g : Group K) (hg : g.wf) (p : Fld K) (h : g.out = some p) :
    p.extent = g.extent ∧ ∀ r c, p.emb r c = (g.fields.map fun f => f.emb r c).sum := by
  obtain ⟨fields, extent⟩ := g
  have hpos := hg.pos
  have hne := hg.ne_nil
  rcases hg.ext with ⟨f, hf, he⟩ | ⟨hl, he⟩
  · simp only at hf he
    subst hf
    simp only [Group.out, Option.some.injEq] at h
    subst h
    exact ⟨he.symm, fun r c => by simp⟩
  · simp only at hl he hpos hne
    have hm : Group.out (K := K) ⟨fields, extent⟩ = mergeL fields := by
      cases fields with
      | nil => simp at hl
      | cons a t =>
        cases t with
        | nil => simp at hl
        | cons b t => simp only [Group.out]
    rw [hm] at h
    refine ⟨?_, fun r c => ?_⟩
    · rw [mergeL_extent fields hne hpos p h, he]
    · rw [mergeL_emb fields hne hpos p h r c, sumList_eq_sum]

/-- all groups well-formed and every returned value a field: extents and embeddings of the outputs, group by group -/
theorem map_out_spec [AddMonoid K] (gs : List (Group K)) (out : List (Fld K)) (hwf : ∀ g ∈ gs, g.wf)
    (h : gs.map Group.out = out.map some) :
    out.map Fld.extent = gs.map Group.extent ∧
    ∀ r c, (out.map fun f => f.emb r c) = gs.map fun g => (g.fields.map fun f => f.emb r c).sum := by
  induction gs generalizing out with
  | nil =>
    cases out with
    | nil => simp
    | cons p ps => simp at h
  | cons g gs ih =>
    cases out with
    | nil => simp at h
    | cons p ps =>
      simp only [List.map_cons, List.cons.injEq] at h
      obtain ⟨h1, h2⟩ := h
      obtain ⟨e1, e2⟩ := Group.out_spec g (hwf g (List.mem_cons_self ..)) p h1
      obtain ⟨i1, i2⟩ := ih ps (fun x hx => hwf x (List.mem_cons_of_mem _ hx)) h2
      refine ⟨by simp only [List.map_cons, e1, i1], fun r c => ?_⟩
      simp only [List.map_cons, e2 r c, i2 r c]

/-! ### the total is preserved by every step -/

theorem sum_set_erase [AddCommMonoid K] (l : List K) (m k : Nat) (hmk : m < k) (hk : k < l.length) :
    ((l.set m ((l[m]'(by omega)) + l[k])).eraseIdx k).sum = l.sum := by
  induction l generalizing m k with
  | nil => simp at hk
  | cons x xs ih =>
    cases k with
    | zero => omega
    | succ k =>
      simp only [List.length_cons, Nat.add_lt_add_iff_right] at hk
      cases m with
      | zero =>
        simp only [List.getElem_cons_zero, List.getElem_cons_succ, List.set_cons_zero, List.eraseIdx_cons_succ,
          List.sum_cons]
        rw [add_assoc, List.add_sum_eraseIdx hk (fun a _ => AddCommute.all _ a)]
      | succ m =>
        simp only [List.getElem_cons_succ, List.set_cons_succ, List.eraseIdx_cons_succ, List.sum_cons]
        rw [ih m k (by omega) hk]

/-- weight of a group for a fixed additive functional `e` of fields -/
def Group.weight {M : Type} [AddCommMonoid M] (e : Fld K → M) (g : Group K) : M := (g.fields.map e).sum

theorem step_total {M : Type} [AddCommMonoid M] (e : Fld K → M) (gs : List (Group K)) (m k : Nat) (hmk : m < k) (hk : k < gs.length) :
    (((gs.set m (mergeGroups (gs[m]'(by omega)) gs[k])).eraseIdx k).map (Group.weight e)).sum
      = (gs.map (Group.weight e)).sum := by
  have hw : Group.weight e (mergeGroups (gs[m]'(by omega)) gs[k]) =
      ((gs.map (Group.weight e))[m]'(by rw [List.length_map]; omega)) +
      ((gs.map (Group.weight e))[k]'(by rw [List.length_map]; omega)) := by
    simp only [Group.weight, mergeGroups, List.map_append, List.sum_append, List.getElem_map]
  rw [← List.eraseIdx_map, List.map_set, hw]
  exact sum_set_erase _ m k hmk (by rw [List.length_map]; exact hk)

theorem disjoint_total {M : Type} [AddCommMonoid M] (e : Fld K → M) (fuel : Nat) (gs : List (Group K)) :
    ((disjoint fuel gs).map (Group.weight e)).sum = (gs.map (Group.weight e)).sum := by
  refine disjoint_induction (fun gs' => (gs'.map (Group.weight e)).sum = (gs.map (Group.weight e)).sum) ?_ fuel gs rfl
  intro gs' m k hmk hk _ hP
  rw [step_total e gs' m k hmk hk]; exact hP

theorem single_total {M : Type} [AddCommMonoid M] (e : Fld K → M) (fs : List (Fld K)) :
    ((fs.map Group.single).map (Group.weight e)).sum = (fs.map e).sum := by
  rw [List.map_map]
  congr 1
  apply List.map_congr_left
  intro f _
  simp [Group.weight, Group.single]

/-! ### `boundary` is the bounding box (with the two caveats of its initial value) -/

theorem fold_attained (es : List Extent) (acc : Extent) :
    ((es.foldl bstep acc).rmin = acc.rmin ∨ ∃ e ∈ es, e.rmin = (es.foldl bstep acc).rmin) ∧
    ((es.foldl bstep acc).rmax = acc.rmax ∨ ∃ e ∈ es, e.rmax = (es.foldl bstep acc).rmax) ∧
    ((es.foldl bstep acc).cmin = acc.cmin ∨ ∃ e ∈ es, e.cmin = (es.foldl bstep acc).cmin) ∧
    ((es.foldl bstep acc).cmax = acc.cmax ∨ ∃ e ∈ es, e.cmax = (es.foldl bstep acc).cmax) := by
  induction es generalizing acc with
  | nil => simp
  | cons x xs ih =>
    simp only [List.foldl_cons]
    obtain ⟨p1, p2, p3, p4⟩ := bstep_proj acc x
    obtain ⟨i1, i2, i3, i4⟩ := ih (bstep acc x)
    refine ⟨?_, ?_, ?_, ?_⟩
    · rcases i1 with h | ⟨e, he, h⟩
      · rw [p1] at h
        split_ifs at h
        · exact Or.inr ⟨x, List.mem_cons_self .., h.symm⟩
        · exact Or.inl h
      · exact Or.inr ⟨e, List.mem_cons_of_mem _ he, h⟩
    · rcases i2 with h | ⟨e, he, h⟩
      · rw [p2] at h
        split_ifs at h
        · exact Or.inr ⟨x, List.mem_cons_self .., h.symm⟩
        · exact Or.inl h
      · exact Or.inr ⟨e, List.mem_cons_of_mem _ he, h⟩
    · rcases i3 with h | ⟨e, he, h⟩
      · rw [p3] at h
        split_ifs at h
        · exact Or.inr ⟨x, List.mem_cons_self .., h.symm⟩
        · exact Or.inl h
      · exact Or.inr ⟨e, List.mem_cons_of_mem _ he, h⟩
    · rcases i4 with h | ⟨e, he, h⟩
      · rw [p4] at h
        split_ifs at h
        · exact Or.inr ⟨x, List.mem_cons_self .., h.symm⟩
        · exact Or.inl h
      · exact Or.inr ⟨e, List.mem_cons_of_mem _ he, h⟩

/-- `b` is the bounding box of the extents `es`: it contains each of them, and each of its four sides is attained -/
def IsBBox (b : Extent) (es : List Extent) : Prop :=
  (∀ e ∈ es, b.rmin ≤ e.rmin ∧ e.rmax ≤ b.rmax ∧ b.cmin ≤ e.cmin ∧ e.cmax ≤ b.cmax) ∧
  (∃ e ∈ es, e.rmin = b.rmin) ∧ (∃ e ∈ es, e.rmax = b.rmax) ∧ (∃ e ∈ es, e.cmin = b.cmin) ∧ (∃ e ∈ es, e.cmax = b.cmax)

theorem boundaryInit_eq : Extent.ofT Gen.boundaryInit = ⟨9223372036854775807, -9223372036854775807, 9223372036854775807, -9223372036854775807⟩ := rfl

/-- a list of options all of which are `some` is the image of a list of values -/
theorem exists_eq_map_some {α} (l : List (Option α)) (h : ∀ o ∈ l, o.isSome = true) : ∃ out : List α, l = out.map some := by
  induction l with
  | nil => exact ⟨[], rfl⟩
  | cons o os ih =>
    obtain ⟨out, ho⟩ := ih (fun x hx => h x (List.mem_cons_of_mem _ hx))
    cases o with
    | none => have := h none (List.mem_cons_self ..); simp at this
    | some a => exact ⟨a :: out, by rw [ho]; rfl⟩

/-! ### concrete fields for the non-vacuity examples in Props/C06.lean -/
namespace Ex
/-- 2×2 at the origin: extent (−1, 0, −1, 0) -/
def A : Fld Int := ⟨⟨2, 2, fun i j => 1 + i + 2 * j⟩, 0, 0⟩
/-- 2×3 at (1, 1): extent (0, 1, 0, 2) — shares the pixel (0, 0) with `A` -/
def B : Fld Int := ⟨⟨2, 3, fun i j => 10 + i - j⟩, 1, 1⟩
/-- 1×2 at (5, −5): extent (5, 5, −6, −5) — far from everything -/
def C : Fld Int := ⟨⟨1, 2, fun _ j => 7 + j⟩, 5, -5⟩
/-- 1×2 at (−1, 2): extent (−1, −1, 1, 2) — meets neither `A` nor `B`, but lies in the bounding box of `A ∪ B` -/
def D : Fld Int := ⟨⟨1, 2, fun _ j => 100 + j⟩, -1, 2⟩
/-- wholly negative extents: 2×2 at (−5, −5) → (−6, −5, −6, −5); 1×3 at (−8, −3) → (−8, −8, −4, −2) -/
def N1 : Fld Int := ⟨⟨2, 2, fun i j => 1 + i + 2 * j⟩, -5, -5⟩
def N2 : Fld Int := ⟨⟨1, 3, fun _ j => 20 + j⟩, -8, -3⟩
/-- a 3×3 target with content -/
def T : Arr Int := ⟨3, 3, fun i j => 3 * i + j⟩
/-- 2×2 field at (9, 9): wholly outside `T` (the D20 witness shape) -/
def O : Fld Int := ⟨⟨2, 2, fun i j => 1 + i + 2 * j⟩, 9, 9⟩
end Ex

/-- a bounding box (contains every member, every side attained) is unique -/
theorem IsBBox.unique {b b' : Extent} {es : List Extent} (h : IsBBox b es) (h' : IsBBox b' es) : b = b' := by
  obtain ⟨hc, ⟨e1, m1, a1⟩, ⟨e2, m2, a2⟩, ⟨e3, m3, a3⟩, ⟨e4, m4, a4⟩⟩ := h
  obtain ⟨hc', ⟨f1, n1, b1⟩, ⟨f2, n2, b2⟩, ⟨f3, n3, b3⟩, ⟨f4, n4, b4⟩⟩ := h'
  have p1 := hc' e1 m1; have p2 := hc' e2 m2; have p3 := hc' e3 m3; have p4 := hc' e4 m4
  have q1 := hc f1 n1; have q2 := hc f2 n2; have q3 := hc f3 n3; have q4 := hc f4 n4
  cases b; cases b'
  simp only [Extent.mk.injEq]
  simp only at a1 a2 a3 a4 b1 b2 b3 b4 p1 p2 p3 p4 q1 q2 q3 q4
  omega

/-- being the bounding box only depends on which extents are members -/
theorem IsBBox.of_mem_iff {b : Extent} {es es' : List Extent} (hm : ∀ e, e ∈ es ↔ e ∈ es') (h : IsBBox b es) : IsBBox b es' := by
  obtain ⟨hc, ⟨e1, m1, a1⟩, ⟨e2, m2, a2⟩, ⟨e3, m3, a3⟩, ⟨e4, m4, a4⟩⟩ := h
  exact ⟨fun e he => hc e ((hm e).mpr he), ⟨e1, (hm e1).mp m1, a1⟩, ⟨e2, (hm e2).mp m2, a2⟩, ⟨e3, (hm e3).mp m3, a3⟩,
    ⟨e4, (hm e4).mp m4, a4⟩⟩

/-- moving every member by (d0, d1) moves the bounding box by (d0, d1) -/
theorem IsBBox.shift {b : Extent} {es : List Extent} (h : IsBBox b es) (d0 d1 : Int) :
    IsBBox (b.shift d0 d1) (es.map fun e => e.shift d0 d1) := by
  obtain ⟨hc, ⟨e1, m1, a1⟩, ⟨e2, m2, a2⟩, ⟨e3, m3, a3⟩, ⟨e4, m4, a4⟩⟩ := h
  refine ⟨?_, ⟨e1.shift d0 d1, List.mem_map_of_mem m1, ?_⟩, ⟨e2.shift d0 d1, List.mem_map_of_mem m2, ?_⟩,
    ⟨e3.shift d0 d1, List.mem_map_of_mem m3, ?_⟩, ⟨e4.shift d0 d1, List.mem_map_of_mem m4, ?_⟩⟩
  · intro e he
    obtain ⟨e0, he0, rfl⟩ := List.mem_map.mp he
    have := hc e0 he0
    simp only [Extent.shift]; omega
  all_goals (simp only [Extent.shift]; omega)

/-- a sum over a list does not depend on the order of the list -/
theorem sumList_perm [AddCommMonoid K] {α} {l l' : List α} (h : l.Perm l') (f : α → K) : sumList l f = sumList l' f := by
  rw [sumList_eq_sum, sumList_eq_sum]; exact (h.map f).sum_eq

end Lentil
