import LentilVerif.Model.FieldPublicFlow
/-! `combinations(range(n), 2)` (as `Lentil.combos`) is the index list the model `firstPair` scans -/
namespace Lentil

def pairsL : List Nat → List (Nat × Nat)
  | [] => []
  | x :: xs => xs.map (fun k => (x, k)) ++ pairsL xs

theorem combos_one (l : List Nat) : combos 1 l = l.map fun x => [x] := by
  induction l with
  | nil => rfl
  | cons x xs ih => simp [combos, ih]

theorem combos_two_pairs (l : List Nat) : (combos 2 l).filterMap toPair = pairsL l := by
  induction l with
  | nil => rfl
  | cons x xs ih =>
    simp only [combos, List.filterMap_append, ih, pairsL, combos_one, List.map_map, List.filterMap_map]
    congr 1
    have hf : (toPair ∘ (fun t => x :: t) ∘ fun y => [y]) = some ∘ (fun k => (x, k)) := by funext k; rfl
    rw [hf]; simp

theorem flatMap_congr' {α β : Type} (l : List α) (f g : α → List β) (h : ∀ a ∈ l, f a = g a) :
    l.flatMap f = l.flatMap g := by
  induction l with
  | nil => rfl
  | cons a t ih =>
    simp only [List.flatMap_cons]
    rw [h a (by simp), ih (fun b hb => h b (by simp [hb]))]

theorem scan_pairs (l : List Nat) (h : l.Pairwise (· < ·)) :
    (l.flatMap fun m => (l.filter fun k => m < k).map fun k => (m, k)) = pairsL l := by
  induction l with
  | nil => rfl
  | cons x xs ih =>
    have hx : ∀ k ∈ xs, x < k := (List.pairwise_cons.mp h).1
    have hxs := (List.pairwise_cons.mp h).2
    rw [List.flatMap_cons, pairsL]
    congr 1
    · have : (x :: xs).filter (fun k => decide (x < k)) = xs := by
        rw [List.filter_cons_of_neg (by simp)]
        exact List.filter_eq_self.mpr (fun k hk => by simpa using hx k hk)
      rw [this]
    · rw [← ih hxs]
      apply flatMap_congr'
      intro m hm
      have : ¬ m < x := Nat.not_lt.mpr (Nat.le_of_lt (hx m hm))
      rw [List.filter_cons_of_neg (by simpa using this)]

end Lentil
