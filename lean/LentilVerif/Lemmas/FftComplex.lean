import LentilVerif.Lemmas.FftDft
import LentilVerif.Lemmas.Fourier
import Mathlib.Analysis.Real.Sqrt
import Mathlib.Analysis.SpecialFunctions.Trigonometric.Basic
import Mathlib.Analysis.SpecialFunctions.Complex.Log
/-! At the instantiation `K = ℂ`, `R = ℝ` of the model's scalar classes (instances in Lemmas/Fourier.lean), the two analytic facts the generic
FFT = DFT theorem needs: `exp(-2 pi i t/n)` is `n`-periodic in the integer `t`; `1/sqrt(ab) = sqrt|1/a · 1/b|`. -/
namespace Lentil
open Complex

/-- `np.round(x).astype(int)` (half to even) and `np.min` of two reals, at `R = ℝ` -/
noncomputable instance instFftLikeReal : FftLike ℝ :=
  ⟨fun x => if x - ⌊x⌋ < 1 / 2 then ⌊x⌋ else if 1 / 2 < x - ⌊x⌋ then ⌊x⌋ + 1 else if ⌊x⌋ % 2 = 0 then ⌊x⌋ else ⌊x⌋ + 1, min, fun a b => decide (b < a)⟩

theorem gt_real (a b : ℝ) : FftLike.gt a b = true ↔ b < a := by
  show decide (b < a) = true ↔ b < a
  exact decide_eq_true_iff

/-- **`np.round` (half to even) is monotone**, at the real instance: discharges `hmono` of `C09.scratch_shape_monotone` -/
theorem roundEven_real_mono (a b : ℝ) (h : a ≤ b) : (FftLike.roundEven a : Int) ≤ FftLike.roundEven b := by
  show (if a - ⌊a⌋ < 1 / 2 then ⌊a⌋ else if 1 / 2 < a - ⌊a⌋ then ⌊a⌋ + 1 else if ⌊a⌋ % 2 = 0 then ⌊a⌋ else ⌊a⌋ + 1) ≤
    (if b - ⌊b⌋ < 1 / 2 then ⌊b⌋ else if 1 / 2 < b - ⌊b⌋ then ⌊b⌋ + 1 else if ⌊b⌋ % 2 = 0 then ⌊b⌋ else ⌊b⌋ + 1)
  have hfl : ⌊a⌋ ≤ ⌊b⌋ := Int.floor_le_floor h
  rcases lt_or_eq_of_le hfl with hlt | heq
  · have ha : (if a - ⌊a⌋ < 1 / 2 then ⌊a⌋ else if 1 / 2 < a - ⌊a⌋ then ⌊a⌋ + 1 else if ⌊a⌋ % 2 = 0 then ⌊a⌋ else ⌊a⌋ + 1) ≤ ⌊a⌋ + 1 := by
      split_ifs <;> omega
    have hb : ⌊b⌋ ≤ (if b - ⌊b⌋ < 1 / 2 then ⌊b⌋ else if 1 / 2 < b - ⌊b⌋ then ⌊b⌋ + 1 else if ⌊b⌋ % 2 = 0 then ⌊b⌋ else ⌊b⌋ + 1) := by
      split_ifs <;> omega
    omega
  · rw [← heq]
    split_ifs <;> first | omega | (exfalso; linarith)

/-- the min law used by the scale theorems, at the real instance -/
theorem min_real (a b : ℝ) : FftLike.min a b = min a b := rfl

/-- grid of the non-vacuity instances: `dx = du = 1/2`, `z = λ = 1`, `os = 1` gives 4 x 4 -/
theorem fftShape_half_example : fftShape (1/2 : ℝ) (1/2) (1/2) (1/2) 1 1 1 = (4, 4) := by
  have h4 : ((RealLike.ofInt 1 : ℝ) / ((1/2 : ℝ) * (1/2) / (1 * 1 * RealLike.ofInt 1))) = 4 := by
    simp only [RealLike.ofInt]; norm_num
  simp only [fftShape, Gen.fftShapeAlpha, Gen.fftAlphaCall, Gen.dftAlpha, h4, FftLike.roundEven]
  norm_num

/-- per-axis sampling with consistent wavelengths: `du = (1/2, 1/4)` gives the non-square grid 4 x 8 -/
theorem fftShape_aniso_example : fftShape (1/2 : ℝ) (1/2) (1/2) (1/4) 1 1 1 = (4, 8) := by
  have h4 : ((RealLike.ofInt 1 : ℝ) / ((1/2 : ℝ) * (1/2) / (1 * 1 * RealLike.ofInt 1))) = 4 := by
    simp only [RealLike.ofInt]; norm_num
  have h8 : ((RealLike.ofInt 1 : ℝ) / ((1/2 : ℝ) * (1/4) / (1 * 1 * RealLike.ofInt 1))) = 8 := by
    simp only [RealLike.ofInt]; norm_num
  simp only [fftShape, Gen.fftShapeAlpha, Gen.fftAlphaCall, Gen.dftAlpha, h4, h8, FftLike.roundEven]
  norm_num

/-- `t ↦ exp(i t)` is additive -/
theorem expI_add_complex (a b : ℝ) : (CxLike.expI (a + b) : ℂ) = CxLike.expI a * CxLike.expI b := by
  show Complex.exp (((a + b : ℝ) : ℂ) * Complex.I) = Complex.exp ((a : ℂ) * Complex.I) * Complex.exp ((b : ℂ) * Complex.I)
  rw [← Complex.exp_add]; congr 1; push_cast; ring

theorem rootPeriodic_complex : RootPeriodic ℂ ℝ := by
  intro n a b h
  show Complex.exp (((-(2 * Real.pi * ((a : ℤ) : ℝ) / ((n : ℤ) : ℝ)) : ℝ) : ℂ) * I) =
    Complex.exp (((-(2 * Real.pi * ((b : ℤ) : ℝ) / ((n : ℤ) : ℝ)) : ℝ) : ℂ) * I)
  by_cases hn : n = 0
  · subst hn; simp at h; rw [h]
  · obtain ⟨k, hk⟩ : n ∣ a - b := Int.ModEq.dvd (show b ≡ a [ZMOD n] from h.symm)
    rw [Complex.exp_eq_exp_iff_exists_int]
    refine ⟨-k, ?_⟩
    have hnc : (n : ℂ) ≠ 0 := by exact_mod_cast hn
    have ha : (a : ℂ) = b + n * k := by
      have : a = b + n * k := by omega
      exact_mod_cast this
    push_cast
    rw [ha]; field_simp; ring

theorem norm_complex (a b : ℤ) (ha : 0 < a) (hb : 0 < b) :
    (RealLike.ofInt 1 : ℝ) / RealLike.sqrt (RealLike.ofInt (a * b)) = RealLike.sqrt (RealLike.abs (1 / (a : ℝ) * (1 / (b : ℝ)))) := by
  show (((1 : ℤ) : ℝ)) / Real.sqrt ((a * b : ℤ) : ℝ) = Real.sqrt |1 / (a : ℝ) * (1 / (b : ℝ))|
  have ha' : (0 : ℝ) < a := by exact_mod_cast ha
  have hb' : (0 : ℝ) < b := by exact_mod_cast hb
  rw [abs_of_pos (by positivity)]
  push_cast
  rw [one_div_mul_one_div, one_div, one_div, Real.sqrt_inv]

end Lentil
