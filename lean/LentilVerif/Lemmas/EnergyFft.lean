import LentilVerif.Lemmas.EnergyPlane
import LentilVerif.Props.C09
/-! C05 end to end for the FFT propagator: C09's `fft_eq_propagate_dft` (every sample of `propagate_fft`'s output is the sample of
the `propagate_dft` model at the reported wavelength, α = 1/S) composed with the plane-energy bound of Lemmas/EnergyPlane.lean. -/
open Finset
namespace Lentil

theorem fits_of_within (f : Fld ℂ) (W0 W1 : ℕ) (hpos : 0 < f.arr.s0 ∧ 0 < f.arr.s1) (hw : f.within W0 W1) : Fits f W0 W1 := by
  unfold Fld.within at hw
  rw [arrayExtent_eq] at hw
  unfold Fld.extent at hw
  rw [arrayExtent_eq] at hw
  simp only at hw
  refine ⟨f.arr.s0.toNat, f.arr.s1.toNat, by omega, by omega, ?_, ?_⟩ <;> (constructor <;> omega)

/-- the samples of the `propagate_dft` model on a canvas `so` (no mask, `prop_shape = shape`, oversample folded in) -/
theorem propagateDft_canvas_get (fs : List (Fld ℂ)) (αr αc : ℝ) (so0 so1 : ℤ) (hso : 0 < so0 ∧ 0 < so1) (i j : ℤ)
    (hi : 0 ≤ i ∧ i < so0) (hj : 0 ≤ j ∧ j < so1) :
    (wavefrontField 1 (propagateDft (fs.map fun f => (⟨f, 0, 0, 0, 0⟩ : TField ℂ ℝ)) αr αc so0 so1 so0 so1 1 none) so0 so1).get i j
      = fieldAt fs αr αc (i - so0 / 2) (j - so1 / 2) := by
  rw [wavefrontField_get _ so0 so1 i j hi hj]
  unfold propagateDft
  rw [sum_filterMap_embO, List.map_map]
  have h := propagateField_sum_eq_fieldAt fs αr αc (outExtent (so0 * 1) (so1 * 1) none) (so0 * 1) (so1 * 1)
    (by rw [outExtent_nomask]; simp only; omega) (by omega) (i - so0 / 2) (j - so1 / 2)
  have hin : ((outExtent (so0 * 1) (so1 * 1) none).inb (i - so0 / 2) (j - so1 / 2)
      && (propExtent (so0 * 1) (so1 * 1) 0 0).inb (i - so0 / 2) (j - so1 / 2)) = true := by
    rw [Bool.and_eq_true, outExtent_nomask, Extent.inb_iff, propExtent, arrayExtent_eq, Extent.inb_iff]
    simp only [mul_one]; omega
  rw [hin, if_pos rfl] at h
  rw [← h]
  rfl

/-- the centred index box of a canvas `so ≤ K` lies inside the period -/
theorem canvas_sum_eq (g : ℤ → ℤ → ℝ) (s0 s1 : ℕ) :
    ∑ i ∈ range s0, ∑ j ∈ range s1, g ((i : ℤ) - (s0 : ℤ) / 2) ((j : ℤ) - (s1 : ℤ) / 2)
      = ∑ p ∈ Finset.Ico (-((s0 : ℤ) / 2)) (-((s0 : ℤ) / 2) + s0) ×ˢ Finset.Ico (-((s1 : ℤ) / 2)) (-((s1 : ℤ) / 2) + s1), g p.1 p.2 := by
  rw [Finset.sum_product, ← sum_range_shift' (fun U => ∑ V ∈ Finset.Ico (-((s1 : ℤ) / 2)) (-((s1 : ℤ) / 2) + s1), g U V) s0 (-((s0 : ℤ) / 2))]
  refine sum_congr rfl fun i _ => ?_
  rw [← sum_range_shift' (fun V => g (-((s0 : ℤ) / 2) + i) V) s1 (-((s1 : ℤ) / 2))]
  exact sum_congr rfl fun j _ => by congr 1 <;> ring

theorem propagate_fft_energy_aux (fs : List (Fld ℂ)) (W0 W1 : ℕ) (dx0 dx1 du0 du1 wl z : ℝ) (os : ℤ)
    (shape : Option (ℤ × ℤ)) (scratch : Option (Arr ℂ)) (lam : ℝ) (S0 S1 : ℤ) (so : ℤ × ℤ) (g : Fld ℂ)
    (h : propagateFft 1 fs false W0 W1 dx0 dx1 du0 du1 wl z os shape scratch = FftOut.ok lam S0 S1 so g)
    (hiso : dx0 * du0 = dx1 * du1) (hp : dx0 * du0 ≠ 0) (hz : z ≠ 0) (hos : 0 < os) (hS : 0 < S0 ∧ 0 < S1)
    (hW : (W0 : ℤ) ≤ S0 ∧ (W1 : ℤ) ≤ S1) (hfit : ∀ f ∈ fs, f.within W0 W1)
    (hpos : ∀ f ∈ fs, 0 < f.arr.s0 ∧ 0 < f.arr.s1) (hso : 0 < so.1 ∧ 0 < so.2) :
    ∑ i ∈ range so.1.toNat, ∑ j ∈ range so.2.toNat, Complex.normSq ((wavefrontField 1 [g] so.1 so.2).get i j)
      ≤ arrSum (intensity (R := ℝ) (embedAll fs W0 W1)) ∧
    (so = (S0, S1) →
      ∑ i ∈ range so.1.toNat, ∑ j ∈ range so.2.toNat, Complex.normSq ((wavefrontField 1 [g] so.1 so.2).get i j)
        = arrSum (intensity (R := ℝ) (embedAll fs W0 W1))) := by
  have hosR : ((os : ℤ) : ℝ) ≠ 0 := Int.cast_ne_zero.mpr (by omega)
  -- unpack the accepted call: square grid, reported wavelength, output shape inside the grid
  have hfacts : S0 = S1 ∧ dftAlpha dx0 dx1 du0 du1 lam z os = (1 / (S0 : ℝ), 1 / (S0 : ℝ)) ∧ so.1 ≤ S0 ∧ so.2 ≤ S0 := by
    by_cases hb : shapeTooBig (R := ℝ) shape (fftShape dx0 dx1 du0 du1 z wl os) os = true
    · simp only [propagateFft, Bool.false_eq_true, if_false, hb, if_true] at h; cases h
    by_cases ht : scratchTooSmall scratch (fftShape dx0 dx1 du0 du1 z wl os) = true
    · simp only [propagateFft, Bool.false_eq_true, if_false, hb, ht, if_true] at h; cases h
    simp only [propagateFft, Bool.false_eq_true, if_false, hb, ht, FftOut.ok.injEq] at h
    obtain ⟨hl, h0, h1, hso', _⟩ := h
    have hsq : S0 = S1 := by
      rw [← h0, ← h1]; simp only [fftShape, Gen.fftShapeAlpha, Gen.fftAlphaCall, Gen.dftAlpha, hiso]
    subst hsq
    have hSR : ((S0 : ℤ) : ℝ) ≠ 0 := Int.cast_ne_zero.mpr (by omega)
    rw [h0, h1] at hl
    have hα := C09.reported_wavelength_isotropic (R := ℝ) (fun _ => rfl) (fun a => min_self a) dx0 dx1 du0 du1 z wl os S0 hiso hp hz hosR hSR
    rw [hl] at hα
    refine ⟨rfl, hα, ?_, ?_⟩
    · rw [← hso', ← h0]; cases shape with
      | none => simp [fftShapeOut, Gen.fftShapeOutNone]
      | some sh =>
        rw [shapeTooBig_iff (fun _ => rfl) gt_real sh _ os hos] at hb
        simp only [not_or, not_lt, gt_iff_lt] at hb
        rw [fftShapeOut_some]; exact hb.1
    · rw [← hso', ← h1]; cases shape with
      | none => simp [fftShapeOut, Gen.fftShapeOutNone]
      | some sh =>
        rw [shapeTooBig_iff (fun _ => rfl) gt_real sh _ os hos] at hb
        simp only [not_or, not_lt, gt_iff_lt] at hb
        rw [fftShapeOut_some]; exact hb.2
  obtain ⟨hsq, hα, hle0, hle1⟩ := hfacts
  subst hsq
  obtain ⟨K, hK⟩ : ∃ K : ℕ, S0 = K := ⟨S0.toNat, by omega⟩
  obtain ⟨s0, hs0⟩ : ∃ s : ℕ, so.1 = s := ⟨so.1.toNat, by omega⟩
  obtain ⟨s1, hs1⟩ : ∃ s : ℕ, so.2 = s := ⟨so.2.toNat, by omega⟩
  have hK0 : 0 < K := by omega
  -- every sample of the FFT output is the field at its frequency coordinate
  have hsample : ∀ i j : ℕ, i < s0 → j < s1 →
      (wavefrontField 1 [g] so.1 so.2).get i j = fieldAt fs (1 / (K : ℝ)) (1 / (K : ℝ)) ((i : ℤ) - (s0 : ℤ) / 2) ((j : ℤ) - (s1 : ℤ) / 2) := by
    intro i j hi hj
    rw [C09.fft_eq_propagate_dft fs W0 W1 dx0 dx1 du0 du1 wl z os shape scratch lam S0 S0 so g h (Or.inl hiso) hp (hiso ▸ hp) hz hos hS
      ⟨by omega, hW.1, by omega, hW.2⟩ hfit hpos hso i j ⟨by omega, by omega⟩ ⟨by omega, by omega⟩, hα]
    simp only
    rw [propagateDft_canvas_get fs _ _ so.1 so.2 hso i j ⟨by omega, by omega⟩ ⟨by omega, by omega⟩, hK, hs0, hs1]
    simp
  have hfits : ∀ f ∈ fs, Fits f W0 W1 := fun f hf => fits_of_within f W0 W1 (hpos f hf) (hfit f hf)
  have hWK : W0 ≤ K ∧ W1 ≤ K := by constructor <;> omega
  have hsum : ∑ i ∈ range so.1.toNat, ∑ j ∈ range so.2.toNat, Complex.normSq ((wavefrontField 1 [g] so.1 so.2).get i j)
      = ∑ p ∈ Finset.Ico (-((s0 : ℤ) / 2)) (-((s0 : ℤ) / 2) + s0) ×ˢ Finset.Ico (-((s1 : ℤ) / 2)) (-((s1 : ℤ) / 2) + s1),
          Complex.normSq (fieldAt fs (1 / (K : ℝ)) (1 / (K : ℝ)) p.1 p.2) := by
    rw [← canvas_sum_eq (fun U V => Complex.normSq (fieldAt fs (1 / (K : ℝ)) (1 / (K : ℝ)) U V)) s0 s1]
    have e0 : so.1.toNat = s0 := by omega
    have e1 : so.2.toNat = s1 := by omega
    rw [e0, e1]
    exact sum_congr rfl fun i hi => sum_congr rfl fun j hj => by
      rw [hsample i j (mem_range.mp hi) (mem_range.mp hj)]
  have hsub : Finset.Ico (-((s0 : ℤ) / 2)) (-((s0 : ℤ) / 2) + s0) ×ˢ Finset.Ico (-((s1 : ℤ) / 2)) (-((s1 : ℤ) / 2) + s1) ⊆ periodBox K K := by
    unfold periodBox
    apply Finset.product_subset_product <;> apply Finset.Ico_subset_Ico <;> omega
  have hpl := plane_energy_le fs W0 W1 K K hfits hK0 hK0 hWK.1 hWK.2 _ hsub
  rw [hsum]
  refine ⟨hpl.1, fun hfull => ?_⟩
  have e0 : s0 = K := by have := congrArg Prod.fst hfull; simp only at this; omega
  have e1 : s1 = K := by have := congrArg Prod.snd hfull; simp only at this; omega
  rw [e0, e1]
  exact hpl.2

theorem propagate_fft_energy_cons (fs : List (Fld ℂ)) (W0 W1 : ℕ) (dx0 dx1 du0 du1 wl z : ℝ) (os : ℤ)
    (shape : Option (ℤ × ℤ)) (scratch : Option (Arr ℂ)) (lam : ℝ) (S0 S1 : ℤ) (so : ℤ × ℤ) (g : Fld ℂ)
    (h : propagateFft 1 fs false W0 W1 dx0 dx1 du0 du1 wl z os shape scratch = FftOut.ok lam S0 S1 so g)
    (hcons : dx0 * du0 = dx1 * du1 ∨ (S0 : ℝ) * (dx0 * du0) = (S1 : ℝ) * (dx1 * du1))
    (hp : dx0 * du0 ≠ 0) (hp1 : dx1 * du1 ≠ 0) (hz : z ≠ 0) (hos : 0 < os) (hS : 0 < S0 ∧ 0 < S1)
    (hW : (W0 : ℤ) ≤ S0 ∧ (W1 : ℤ) ≤ S1) (hfit : ∀ f ∈ fs, f.within W0 W1)
    (hpos : ∀ f ∈ fs, 0 < f.arr.s0 ∧ 0 < f.arr.s1) (hso : 0 < so.1 ∧ 0 < so.2) :
    ∑ i ∈ range so.1.toNat, ∑ j ∈ range so.2.toNat, Complex.normSq ((wavefrontField 1 [g] so.1 so.2).get i j)
      ≤ arrSum (intensity (R := ℝ) (embedAll fs W0 W1)) ∧
    (so = (S0, S1) →
      ∑ i ∈ range so.1.toNat, ∑ j ∈ range so.2.toNat, Complex.normSq ((wavefrontField 1 [g] so.1 so.2).get i j)
        = arrSum (intensity (R := ℝ) (embedAll fs W0 W1))) := by
  have hosR : ((os : ℤ) : ℝ) ≠ 0 := Int.cast_ne_zero.mpr (by omega)
  -- unpack the accepted call: square grid, reported wavelength, output shape inside the grid
  have hfacts : dftAlpha dx0 dx1 du0 du1 lam z os = (1 / (S0 : ℝ), 1 / (S1 : ℝ)) ∧ so.1 ≤ S0 ∧ so.2 ≤ S1 := by
    by_cases hb : shapeTooBig (R := ℝ) shape (fftShape dx0 dx1 du0 du1 z wl os) os = true
    · simp only [propagateFft, Bool.false_eq_true, if_false, hb, if_true] at h; cases h
    by_cases ht : scratchTooSmall scratch (fftShape dx0 dx1 du0 du1 z wl os) = true
    · simp only [propagateFft, Bool.false_eq_true, if_false, hb, ht, if_true] at h; cases h
    simp only [propagateFft, Bool.false_eq_true, if_false, hb, ht, FftOut.ok.injEq] at h
    obtain ⟨hl, h0, h1, hso', _⟩ := h
    have hc : (S0 : ℝ) * (dx0 * du0) = (S1 : ℝ) * (dx1 * du1) := by
      rcases hcons with hiso | hc
      · have hsq : S0 = S1 := by
          rw [← h0, ← h1]; simp only [fftShape, Gen.fftShapeAlpha, Gen.fftAlphaCall, Gen.dftAlpha, hiso]
        rw [hsq, hiso]
      · exact hc
    have hSR0 : ((S0 : ℤ) : ℝ) ≠ 0 := Int.cast_ne_zero.mpr (by omega)
    have hSR1 : ((S1 : ℤ) : ℝ) ≠ 0 := Int.cast_ne_zero.mpr (by omega)
    rw [h0, h1] at hl
    have hα := C09.reported_wavelength_consistent (R := ℝ) (fun _ => rfl) (fun a => min_self a) dx0 dx1 du0 du1 z wl os S0 S1 hc hp hp1 hz
      hosR hSR0 hSR1
    rw [hl] at hα
    refine ⟨hα, ?_, ?_⟩
    · rw [← hso', ← h0]; cases shape with
      | none => simp [fftShapeOut, Gen.fftShapeOutNone]
      | some sh =>
        rw [shapeTooBig_iff (fun _ => rfl) gt_real sh _ os hos] at hb
        simp only [not_or, not_lt, gt_iff_lt] at hb
        rw [fftShapeOut_some]; exact hb.1
    · rw [← hso', ← h1]; cases shape with
      | none => simp [fftShapeOut, Gen.fftShapeOutNone]
      | some sh =>
        rw [shapeTooBig_iff (fun _ => rfl) gt_real sh _ os hos] at hb
        simp only [not_or, not_lt, gt_iff_lt] at hb
        rw [fftShapeOut_some]; exact hb.2
  obtain ⟨hα, hle0, hle1⟩ := hfacts
  obtain ⟨K, hK⟩ : ∃ K : ℕ, S0 = K := ⟨S0.toNat, by omega⟩
  obtain ⟨L, hL⟩ : ∃ L : ℕ, S1 = L := ⟨S1.toNat, by omega⟩
  obtain ⟨s0, hs0⟩ : ∃ s : ℕ, so.1 = s := ⟨so.1.toNat, by omega⟩
  obtain ⟨s1, hs1⟩ : ∃ s : ℕ, so.2 = s := ⟨so.2.toNat, by omega⟩
  have hK0 : 0 < K := by omega
  have hL0 : 0 < L := by omega
  -- every sample of the FFT output is the field at its frequency coordinate
  have hsample : ∀ i j : ℕ, i < s0 → j < s1 →
      (wavefrontField 1 [g] so.1 so.2).get i j = fieldAt fs (1 / (K : ℝ)) (1 / (L : ℝ)) ((i : ℤ) - (s0 : ℤ) / 2) ((j : ℤ) - (s1 : ℤ) / 2) := by
    intro i j hi hj
    rw [C09.fft_eq_propagate_dft fs W0 W1 dx0 dx1 du0 du1 wl z os shape scratch lam S0 S1 so g h hcons hp hp1 hz hos hS
      ⟨by omega, hW.1, by omega, hW.2⟩ hfit hpos hso i j ⟨by omega, by omega⟩ ⟨by omega, by omega⟩, hα]
    simp only
    rw [propagateDft_canvas_get fs _ _ so.1 so.2 hso i j ⟨by omega, by omega⟩ ⟨by omega, by omega⟩, hK, hL, hs0, hs1]
    simp
  have hfits : ∀ f ∈ fs, Fits f W0 W1 := fun f hf => fits_of_within f W0 W1 (hpos f hf) (hfit f hf)
  have hWK : W0 ≤ K ∧ W1 ≤ L := by constructor <;> omega
  have hsum : ∑ i ∈ range so.1.toNat, ∑ j ∈ range so.2.toNat, Complex.normSq ((wavefrontField 1 [g] so.1 so.2).get i j)
      = ∑ p ∈ Finset.Ico (-((s0 : ℤ) / 2)) (-((s0 : ℤ) / 2) + s0) ×ˢ Finset.Ico (-((s1 : ℤ) / 2)) (-((s1 : ℤ) / 2) + s1),
          Complex.normSq (fieldAt fs (1 / (K : ℝ)) (1 / (L : ℝ)) p.1 p.2) := by
    rw [← canvas_sum_eq (fun U V => Complex.normSq (fieldAt fs (1 / (K : ℝ)) (1 / (L : ℝ)) U V)) s0 s1]
    have e0 : so.1.toNat = s0 := by omega
    have e1 : so.2.toNat = s1 := by omega
    rw [e0, e1]
    exact sum_congr rfl fun i hi => sum_congr rfl fun j hj => by
      rw [hsample i j (mem_range.mp hi) (mem_range.mp hj)]
  have hsub : Finset.Ico (-((s0 : ℤ) / 2)) (-((s0 : ℤ) / 2) + s0) ×ˢ Finset.Ico (-((s1 : ℤ) / 2)) (-((s1 : ℤ) / 2) + s1) ⊆ periodBox K L := by
    unfold periodBox
    apply Finset.product_subset_product <;> apply Finset.Ico_subset_Ico <;> omega
  have hpl := plane_energy_le fs W0 W1 K L hfits hK0 hL0 hWK.1 hWK.2 _ hsub
  rw [hsum]
  refine ⟨hpl.1, fun hfull => ?_⟩
  have e0 : s0 = K := by have := congrArg Prod.fst hfull; simp only at this; omega
  have e1 : s1 = L := by have := congrArg Prod.snd hfull; simp only at this; omega
  rw [e0, e1]
  exact hpl.2

end Lentil
