import LentilVerif.Model.FieldMergeFlow
import Mathlib.Algebra.Group.Defs
/-! helper for `Props/C06.merge_flow_spec`: a guarded in-place accumulation is the fold of guarded terms -/
namespace Lentil

theorem foldl_guarded_add {K : Type} [AddMonoid K] {α : Type} (c : α → Bool) (g : α → K) (l : List α) (a : K) :
    l.foldl (fun acc x => if c x = true then acc + g x else acc) a =
      l.foldl (fun acc x => acc + (if c x = true then g x else 0)) a := by
  congr 1
  funext acc x
  split
  · rfl
  · exact (add_zero acc).symm

end Lentil
