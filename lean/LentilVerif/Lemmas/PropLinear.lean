import LentilVerif.Model.PropSeg
import LentilVerif.Lemmas.PlaneAlg
import Mathlib.Algebra.BigOperators.Intervals
import Mathlib.Algebra.BigOperators.Ring.Finset
/-! `dft2` of a field with its own offset, written over *global* coordinates: the kernel depends on the sample index only
through `cc m x + off`, the sample's position on the infinite plane, so zero padding (any box around the field) does not
change the result and the result is additive in the embedded field. Helper lemmas for C03 `propagate_linear`. -/
namespace Lentil
open Finset

variable {K : Type}

theorem sumRange_eq_finsum [AddCommMonoid K] (n : Nat) (f : Nat → K) : sumRange n f = ∑ i ∈ range n, f i := by
  induction n with
  | zero => rfl
  | succ n ih =>
    have : sumRange (n + 1) f = sumRange n f + f n := by
      unfold sumRange; rw [List.range_succ, List.foldl_append]; rfl
    rw [this, ih, Finset.sum_range_succ]

/-- window lemma: a function on ℤ that vanishes outside `[lo, lo+m)` has the same sum over any range containing it -/
theorem sum_window [AddCommMonoid K] (g : Int → K) (lo : Int) (m : Nat) (R0 : Int) (H : Nat)
    (h0 : R0 ≤ lo) (h1 : lo + m ≤ R0 + H) (hz : ∀ r, ¬ (lo ≤ r ∧ r < lo + m) → g r = 0) :
    ∑ k ∈ range H, g (R0 + k) = ∑ x ∈ range m, g (lo + x) := by
  have hsub : Ico (lo - R0).toNat ((lo - R0).toNat + m) ⊆ range H := by
    intro k hk; rw [mem_Ico] at hk; rw [mem_range]; omega
  rw [← Finset.sum_subset hsub]
  · rw [Finset.sum_Ico_eq_sum_range]
    apply Finset.sum_congr (by congr 1; omega)
    intro x _
    congr 1
    push_cast
    omega
  · intro k hk hk'
    apply hz
    rw [mem_Ico] at hk'
    rw [mem_range] at hk
    omega

/-- common bounding box of finitely many fields -/
theorem exists_box (l : List (Fld K)) :
    ∃ (R0 : Int) (H : Nat) (C0 : Int) (W : Nat), ∀ f ∈ l,
      R0 ≤ f.extent.rmin ∧ f.extent.rmax < R0 + H ∧ C0 ≤ f.extent.cmin ∧ f.extent.cmax < C0 + W := by
  induction l with
  | nil => exact ⟨0, 0, 0, 0, by simp⟩
  | cons f l ih =>
    obtain ⟨R0, H, C0, W, h⟩ := ih
    refine ⟨R0 - (R0 - f.extent.rmin).toNat,
            (R0 + H - (R0 - (R0 - f.extent.rmin).toNat)).toNat + (f.extent.rmax + 1 - (R0 - (R0 - f.extent.rmin).toNat)).toNat,
            C0 - (C0 - f.extent.cmin).toNat,
            (C0 + W - (C0 - (C0 - f.extent.cmin).toNat)).toNat + (f.extent.cmax + 1 - (C0 - (C0 - f.extent.cmin).toNat)).toNat, ?_⟩
    intro g hg
    rcases List.mem_cons.mp hg with rfl | hg
    · push_cast; omega
    · have := h g hg; push_cast; omega

section dft
variable {R : Type} [Add R] [Sub R] [Mul R] [Neg R] [RealLike R] [NonUnitalNonAssocSemiring K] [CxLike K R]

/-- the DFT kernel as a function of the global coordinate of the input sample -/
def gKernel (α : R) (M : Int) (shift : R) (u : Int) (r : Int) : K :=
  CxLike.expI (-(RealLike.twoPi * α * RealLike.ofInt r * (RealLike.ofInt (cc M u) - shift)))

/-- the (unscaled) transform of an embedded field `E` summed over a box of the infinite plane -/
def boxDft (E : Int → Int → K) (αr αc : R) (M N : Int) (shr shc : R) (u v : Int) (R0 : Int) (H : Nat) (C0 : Int) (W : Nat) : K :=
  ∑ l ∈ range W, (∑ k ∈ range H, (gKernel αr M shr u (R0 + k) : K) * E (R0 + k) (C0 + l)) * gKernel αc N shc v (C0 + l)

/-- **`dft2` with the field's offset is the transform of the embedded field over any box containing it** -/
theorem dft2_eq_boxDft (f : Fld K) (hpos : 0 < f.arr.s0 ∧ 0 < f.arr.s1) (αr αc : R) (M N : Int) (shr shc : R) (u v : Int)
    (R0 : Int) (H : Nat) (C0 : Int) (W : Nat)
    (hb : R0 ≤ f.extent.rmin ∧ f.extent.rmax < R0 + H ∧ C0 ≤ f.extent.cmin ∧ f.extent.cmax < C0 + W) :
    (dft2 f.arr αr αc M N shr shc f.o0 f.o1 false).get u v = boxDft (fun r c => f.emb r c) αr αc M N shr shc u v R0 H C0 W := by
  have hext : f.extent = ⟨-(f.arr.s0 / 2) + f.o0, -(f.arr.s0 / 2) + f.o0 + f.arr.s0 - 1,
      -(f.arr.s1 / 2) + f.o1, -(f.arr.s1 / 2) + f.o1 + f.arr.s1 - 1⟩ := arrayExtent_eq _ _ _ _
  rw [hext] at hb; simp only at hb
  have hemb : ∀ r c, f.emb r c = if (-(f.arr.s0 / 2) + f.o0 ≤ r ∧ r ≤ -(f.arr.s0 / 2) + f.o0 + f.arr.s0 - 1 ∧
      -(f.arr.s1 / 2) + f.o1 ≤ c ∧ c ≤ -(f.arr.s1 / 2) + f.o1 + f.arr.s1 - 1)
      then f.arr.get (r - (-(f.arr.s0 / 2) + f.o0)) (c - (-(f.arr.s1 / 2) + f.o1)) else 0 := by
    intro r c
    show embAt f.extent f.arr.get r c = _
    unfold embAt
    rw [hext]
    by_cases hin : (Extent.mk (-(f.arr.s0 / 2) + f.o0) (-(f.arr.s0 / 2) + f.o0 + f.arr.s0 - 1)
        (-(f.arr.s1 / 2) + f.o1) (-(f.arr.s1 / 2) + f.o1 + f.arr.s1 - 1)).inb r c = true
    · rw [if_pos hin]; rw [Extent.inb_iff] at hin; rw [if_pos hin]
    · rw [if_neg hin]; rw [Extent.inb_iff] at hin; rw [if_neg hin]
  unfold boxDft
  unfold dft2
  simp only [Bool.false_eq_true, if_false]
  rw [sumRange_eq_finsum]
  -- outer window (columns)
  rw [sum_window (fun c => (∑ k ∈ range H, (gKernel αr M shr u (R0 + k) : K) * f.emb (R0 + k) c) * gKernel αc N shc v c)
      (-(f.arr.s1 / 2) + f.o1) f.arr.s1.toNat C0 W (by omega) (by omega)]
  · apply Finset.sum_congr rfl
    intro y hy
    rw [mem_range] at hy
    have hk2 : (dftKernel αc f.arr.s1 N f.o1 shc (y : Int) v : K) = gKernel αc N shc v (-(f.arr.s1 / 2) + f.o1 + y) := by
      unfold dftKernel gKernel cc
      have : (y : Int) - f.arr.s1 / 2 + f.o1 = -(f.arr.s1 / 2) + f.o1 + y := by omega
      rw [this]
    rw [hk2]
    congr 1
    rw [sumRange_eq_finsum]
    -- inner window (rows)
    rw [sum_window (fun r => (gKernel αr M shr u r : K) * f.emb r (-(f.arr.s1 / 2) + f.o1 + y))
        (-(f.arr.s0 / 2) + f.o0) f.arr.s0.toNat R0 H (by omega) (by omega)]
    · apply Finset.sum_congr rfl
      intro x hx
      rw [mem_range] at hx
      have hk1 : (dftKernel αr f.arr.s0 M f.o0 shr (x : Int) u : K) = gKernel αr M shr u (-(f.arr.s0 / 2) + f.o0 + x) := by
        unfold dftKernel gKernel cc
        have : (x : Int) - f.arr.s0 / 2 + f.o0 = -(f.arr.s0 / 2) + f.o0 + x := by omega
        rw [this]
      rw [hk1]
      congr 1
      rw [hemb, if_pos (by omega)]
      congr 1 <;> omega
    · intro r hr
      rw [hemb, if_neg (by omega), mul_zero]
  · intro c hc
    have : ∀ k ∈ range H, (gKernel αr M shr u (R0 + k) : K) * f.emb (R0 + k) c = 0 := by
      intro k _; rw [hemb, if_neg (by omega), mul_zero]
    rw [Finset.sum_eq_zero this, zero_mul]

theorem boxDft_zero (αr αc : R) (M N : Int) (shr shc : R) (u v : Int) (R0 : Int) (H : Nat) (C0 : Int) (W : Nat) :
    boxDft (fun _ _ => (0 : K)) αr αc M N shr shc u v R0 H C0 W = 0 := by
  unfold boxDft; simp

theorem boxDft_add (E1 E2 : Int → Int → K) (αr αc : R) (M N : Int) (shr shc : R) (u v : Int) (R0 : Int) (H : Nat) (C0 : Int) (W : Nat) :
    boxDft (fun r c => E1 r c + E2 r c) αr αc M N shr shc u v R0 H C0 W
      = boxDft E1 αr αc M N shr shc u v R0 H C0 W + boxDft E2 αr αc M N shr shc u v R0 H C0 W := by
  unfold boxDft
  rw [← Finset.sum_add_distrib]
  apply Finset.sum_congr rfl
  intro l _
  rw [← add_mul, ← Finset.sum_add_distrib]
  congr 1
  apply Finset.sum_congr rfl
  intro k _
  rw [mul_add]

theorem boxDft_congr (E1 E2 : Int → Int → K) (h : ∀ r c, E1 r c = E2 r c) (αr αc : R) (M N : Int) (shr shc : R) (u v : Int)
    (R0 : Int) (H : Nat) (C0 : Int) (W : Nat) :
    boxDft E1 αr αc M N shr shc u v R0 H C0 W = boxDft E2 αr αc M N shr shc u v R0 H C0 W := by
  have : E1 = E2 := by funext r c; exact h r c
  rw [this]

/-- the sum of the transforms of a list of fields is the transform of their total embedding -/
theorem sum_dft2_eq_boxDft (l : List (Fld K)) (hpos : ∀ f ∈ l, 0 < f.arr.s0 ∧ 0 < f.arr.s1) (αr αc : R) (M N : Int) (shr shc : R)
    (u v : Int) (R0 : Int) (H : Nat) (C0 : Int) (W : Nat)
    (hb : ∀ f ∈ l, R0 ≤ f.extent.rmin ∧ f.extent.rmax < R0 + H ∧ C0 ≤ f.extent.cmin ∧ f.extent.cmax < C0 + W) :
    sumList l (fun f => (dft2 f.arr αr αc M N shr shc f.o0 f.o1 false).get u v)
      = boxDft (fun r c => sumList l (fun f => f.emb r c)) αr αc M N shr shc u v R0 H C0 W := by
  induction l with
  | nil => simp only [sumL_nil]; exact (boxDft_zero αr αc M N shr shc u v R0 H C0 W).symm
  | cons f l ih =>
    rw [sumL_cons, ih (fun g hg => hpos g (List.mem_cons_of_mem _ hg)) (fun g hg => hb g (List.mem_cons_of_mem _ hg)),
        dft2_eq_boxDft f (hpos f (List.mem_cons_self ..)) αr αc M N shr shc u v R0 H C0 W (hb f (List.mem_cons_self ..)),
        ← boxDft_add]
    apply boxDft_congr
    intro r c
    rw [sumL_cons]

end dft
end Lentil
