import LentilVerif.Model.ZernikeFit
import LentilVerif.Lemmas.ZernikeFit
import LentilVerif.Lemmas.GeometrySums
import LentilVerif.Gen.ZernikeCalls
import Mathlib.LinearAlgebra.Matrix.Determinant.Basic
import Mathlib.LinearAlgebra.Matrix.Adjugate
import Mathlib.LinearAlgebra.Matrix.Notation
import Mathlib.Tactic.Ring
import Mathlib.Analysis.SpecialFunctions.Sqrt
import Mathlib.Tactic.NormNum
import Mathlib.LinearAlgebra.Matrix.ToLin
import Mathlib.LinearAlgebra.Matrix.DotProduct
/-! The executable model of Model/ZernikeFit.lean is the abstract matrix model of Lemmas/ZernikeFit.lean: Laplace determinant =
`Matrix.det`, Cramer solution of the normal equations = `(BᵀB)⁻¹Bᵀ·opd`, compose = `B·c`, remove = `opd − B·fit`; coefficient
positions of `zernike_compose`; permutation of the requested modes. -/
namespace Lentil
open Matrix Finset
variable {K : Type} [Field K]


/-- the leading `n × n` block of a `Nat`-indexed table as a matrix -/
def blockOf (n m : ℕ) (A : ℕ → ℕ → K) : Matrix (Fin n) (Fin m) K := Matrix.of fun r c => A r c

theorem sumRange_fin (n : ℕ) (f : ℕ → K) : sumRange n f = ∑ i : Fin n, f i := by
  rw [sumRange_eq_sum, Fin.sum_univ_eq_sum_range]

/-- the Laplace-expansion determinant of the executable model is Mathlib's determinant -/
theorem detN_eq_det (n : ℕ) (A : ℕ → ℕ → K) : detN n A = (blockOf n n A).det := by
  induction n generalizing A with
  | zero => simp [detN]
  | succ n ih =>
    rw [detN, sumRange_fin, Matrix.det_succ_row_zero]
    apply Finset.sum_congr rfl
    intro j _
    rw [ih]
    have hsub : (blockOf (n + 1) (n + 1) A).submatrix Fin.succ j.succAbove
        = blockOf n n (fun r c => A (r + 1) (if c < (j : ℕ) then c else c + 1)) := by
      ext r c
      simp only [blockOf, Matrix.submatrix_apply, Matrix.of_apply, Fin.val_succ]
      congr 1
      rw [Fin.succAbove]
      split_ifs with h1 h2 h2
      · rfl
      · exact absurd (by simpa [Fin.lt_def] using h1) h2
      · exact absurd (by simpa [Fin.lt_def] using h2) h1
      · rfl
    rw [hsub]
    have hsign : ((-1 : K) ^ (j : ℕ)) * (blockOf (n + 1) (n + 1) A) 0 j
        = (if (j : ℕ) % 2 = 0 then A 0 j else -(A 0 j)) := by
      simp only [blockOf, Matrix.of_apply, Fin.val_zero]
      split_ifs with h
      · rw [Even.neg_one_pow (Nat.even_iff.2 h), one_mul]
      · rw [Odd.neg_one_pow (Nat.odd_iff.2 (by omega)), neg_one_mul]
    rw [← hsign]


theorem gram_block (p k : ℕ) (B : ℕ → ℕ → K) : blockOf k k (gramX p B) = (blockOf p k B)ᵀ * blockOf p k B := by
  ext a b
  simp only [blockOf, gramX, sumRange_fin, Matrix.of_apply, Matrix.mul_apply, Matrix.transpose_apply]

theorem rhs_block (p k : ℕ) (B : ℕ → ℕ → K) (opd : ℕ → K) :
    (fun a : Fin k => rhsX p B opd a) = (blockOf p k B)ᵀ *ᵥ (fun s : Fin p => opd s) := by
  ext a
  simp only [blockOf, rhsX, sumRange_fin, Matrix.mulVec, dotProduct, Matrix.of_apply, Matrix.transpose_apply]

theorem cramerX_eq (k : ℕ) (G : ℕ → ℕ → K) (b : ℕ → K) (i : Fin k) :
    cramerX k G b i = Matrix.cramer (blockOf k k G) (fun r : Fin k => b r) i / (blockOf k k G).det := by
  unfold cramerX
  rw [detN_eq_det, detN_eq_det, Matrix.cramer_apply]
  congr 2
  ext r c
  simp only [blockOf, Matrix.of_apply, Matrix.updateCol_apply, Fin.ext_iff]

/-- **the executable fit is the abstract fit**: Cramer's solution of the normal equations equals `(BᵀB)⁻¹Bᵀ·opd` -/
theorem fitX_eq_zfit (p k : ℕ) (B : ℕ → ℕ → K) (opd : ℕ → K)
    (h : IsUnit ((blockOf p k B)ᵀ * blockOf p k B).det) :
    (fun a : Fin k => fitX p k B opd a) = zfit (blockOf p k B) (fun s : Fin p => opd s) := by
  set Bm := blockOf p k B with hB
  set G := Bmᵀ * Bm with hG
  have hd : G.det ≠ 0 := h.ne_zero
  have hx : (fun a : Fin k => fitX p k B opd a) = G.det⁻¹ • Matrix.cramer G (Bmᵀ *ᵥ (fun s : Fin p => opd s)) := by
    ext a
    unfold fitX
    rw [cramerX_eq, gram_block, rhs_block]
    simp only [Pi.smul_apply, smul_eq_mul, div_eq_inv_mul]
    rfl
  have hsol : G *ᵥ (fun a : Fin k => fitX p k B opd a) = Bmᵀ *ᵥ (fun s : Fin p => opd s) := by
    rw [hx, Matrix.mulVec_smul, Matrix.mulVec_cramer, smul_smul, inv_mul_cancel₀ hd, one_smul]
  unfold zfit pinvFR
  rw [← Matrix.mulVec_mulVec, ← hsol, Matrix.mulVec_mulVec, Matrix.nonsing_inv_mul _ h, Matrix.one_mulVec]

theorem composeX_eq_zcompose (p k : ℕ) (B : ℕ → ℕ → K) (c : ℕ → K) :
    (fun s : Fin p => composeX k B c s) = zcompose (blockOf p k B) (fun a : Fin k => c a) := by
  ext s
  simp only [composeX, Gen.removeContract, zcompose, sumRange_fin, Matrix.mulVec, dotProduct, blockOf, Matrix.of_apply]

theorem removeX_eq_zremove (p k : ℕ) (B : ℕ → ℕ → K) (opd : ℕ → K)
    (h : IsUnit ((blockOf p k B)ᵀ * blockOf p k B).det) :
    (fun s : Fin p => removeX p k B opd s) = zremove (blockOf p k B) (fun s : Fin p => opd s) := by
  unfold zremove
  rw [← fitX_eq_zfit p k B opd h, ← composeX_eq_zcompose]
  rfl


/-- permuting the requested modes permutes the fitted coefficients -/
theorem zfit_perm {P M : Type} [Fintype P] [Fintype M] [DecidableEq M] (B : Matrix P M K) (σ : M ≃ M) (opd : P → K) :
    zfit (B.submatrix id σ) opd = zfit B opd ∘ σ := by
  unfold zfit pinvFR
  have h1 : (B.submatrix id σ)ᵀ * B.submatrix id σ = (Bᵀ * B).submatrix σ σ := by
    rw [Matrix.transpose_submatrix]
    ext a b; simp [Matrix.mul_apply]
  rw [h1, Matrix.inv_submatrix_equiv, Matrix.transpose_submatrix]
  ext a
  simp only [Matrix.mulVec, dotProduct, Matrix.mul_apply, Matrix.submatrix_apply, Function.comp, id]
  apply Finset.sum_congr rfl; intro s _
  congr 1
  exact Equiv.sum_comp σ (fun j => (Bᵀ * B)⁻¹ (σ a) j * Bᵀ j s)

/-- `zernike_compose` with the coefficients of the requested modes placed at their (regenerated) positions — position `i` holds the
coefficient of the mode with Noll index `Gen.composeNoll i = i + 1` — composes `B·c` for the basis of the requested modes -/
theorem composeFull_positions (sqrtN : ℕ → K) (cos sin : K → K) (k L : ℕ) (modes : ℕ → ℕ) (c : ℕ → K) (normalize : Bool)
    (rho theta : ℕ → K) (mask : ℕ → Bool) (s : ℕ) (hm : ∀ a, a < k → 1 ≤ modes a ∧ modes a ≤ L) :
    composeFullX sqrtN cos sin (fun i => (Gen.composeNoll i).toNat) L
        (fun i => ∑ a ∈ range k, if modes a = i + 1 then c a else 0) normalize rho theta mask s
      = composeX k (zBasisX sqrtN cos sin modes normalize rho theta mask) c s := by
  unfold composeFullX composeX Gen.removeContract zBasisX
  simp only [sumRange_eq_sum]
  have hn : ∀ i : ℕ, (Gen.composeNoll (i : ℤ)).toNat = i + 1 := by intro i; simp [Gen.composeNoll]
  simp only [hn, Finset.sum_mul]
  rw [Finset.sum_comm]
  apply Finset.sum_congr rfl
  intro a ha
  obtain ⟨h1, h2⟩ := hm a (Finset.mem_range.1 ha)
  rw [Finset.sum_eq_single (modes a - 1)]
  · rw [if_pos (by omega), show modes a - 1 + 1 = modes a by omega, mul_comm]
  · intro i _ hi; rw [if_neg (by omega), zero_mul]
  · intro hne; exact absurd (Finset.mem_range.2 (by omega)) hne

/-- a concrete Zernike basis over ℚ: modes [1, 4, 2] (piston, defocus, x-tilt), unnormalised, sampled at ρ = 0, 1/2, 1 on the ray
θ = 0 (where cos = 1, sin = 0). Its entries are `[[1,-1,0],[1,-1/2,1/2],[1,1,1]]` and `det(BᵀB) = 1/4 ≠ 0`. -/
def exModes : ℕ → ℕ := fun a => if a = 0 then 1 else if a = 1 then 4 else 2
def exRho : ℕ → ℚ := fun s => if s = 0 then 0 else if s = 1 then 1 / 2 else 1
def exBasis : ℕ → ℕ → ℚ := zBasisX (fun _ => 0) (fun _ => 1) (fun _ => 0) exModes false exRho (fun _ => 0) (fun _ => true)

theorem exBasis_entries : blockOf 3 3 exBasis = !![1, -1, 0; 1, -1/2, 1/2; 1, 1, 1] := by
  have n1 : nollN 1 = 0 ∧ nollM 1 = 0 := by decide
  have n4 : nollN 4 = 2 ∧ nollM 4 = 0 := by decide
  have n2 : nollN 2 = 1 ∧ nollM 2 = 1 := by decide
  ext r c
  fin_cases r <;> fin_cases c <;>
    simp [blockOf, exBasis, zBasisX, zernAt, Gen.zernCore, exModes, exRho, n1, n4, n2, radialEval, radialCoeff, Gen.radialNum, Gen.radialDen, Gen.fact, powK,
      List.range, List.range.loop] <;> norm_num


theorem exBasis_independent : IsUnit ((blockOf 3 3 exBasis)ᵀ * blockOf 3 3 exBasis).det := by
  rw [exBasis_entries, Matrix.det_mul, Matrix.det_transpose, isUnit_iff_ne_zero, Matrix.det_fin_three]
  simp
  norm_num


/-- over a linearly ordered field, `BᵀB` is invertible iff `x ↦ B·x` is injective iff the columns of `B` (the requested modes sampled on
the array) are linearly independent -/
theorem gram_unit_iff {P M F : Type} [Fintype P] [Fintype M] [DecidableEq M] [Field F] [LinearOrder F] [IsStrictOrderedRing F]
    (B : Matrix P M F) :
    (IsUnit (Bᵀ * B).det ↔ Function.Injective B.mulVec) ∧ (IsUnit (Bᵀ * B).det ↔ LinearIndependent F B.col) := by
  have h1 : IsUnit (Bᵀ * B).det ↔ Function.Injective B.mulVec := by
    rw [← Matrix.isUnit_iff_isUnit_det, ← Matrix.mulVec_injective_iff_isUnit]
    constructor
    · intro h x y hxy
      apply h
      rw [← Matrix.mulVec_mulVec, ← Matrix.mulVec_mulVec, hxy]
    · intro h x y hxy
      apply h
      have hz : (Bᵀ * B) *ᵥ (x - y) = 0 := by rw [Matrix.mulVec_sub, hxy, sub_self]
      have hq : (B *ᵥ (x - y)) ⬝ᵥ (B *ᵥ (x - y)) = 0 := by
        rw [Matrix.dotProduct_mulVec, ← Matrix.mulVec_transpose, Matrix.mulVec_mulVec, hz, zero_dotProduct]
      have := dotProduct_self_eq_zero.1 hq
      rw [Matrix.mulVec_sub, sub_eq_zero] at this
      exact this
  exact ⟨h1, h1.trans Matrix.mulVec_injective_iff⟩


theorem zBasisX_outside {F : Type} [Field F] (sqrtN : ℕ → F) (cos sin : F → F) (modes : ℕ → ℕ) (normalize : Bool) (rho theta : ℕ → F) (mask : ℕ → Bool)
    (s a : ℕ) (h : mask s = false) : zBasisX sqrtN cos sin modes normalize rho theta mask s a = 0 := by
  unfold zBasisX zernAt Gen.zernCore
  simp only [h, Bool.false_eq_true, if_false, mul_zero]
  split_ifs <;> rfl

/-- outside the mask `zernike_remove` leaves the OPD untouched, and the fit does not look at the OPD there -/
theorem remove_outside_mask {F : Type} [Field F] (sqrtN : ℕ → F) (cos sin : F → F) (p k : ℕ) (modes : ℕ → ℕ) (normalize : Bool) (rho theta : ℕ → F)
    (mask : ℕ → Bool) (opd opd' : ℕ → F) :
    (∀ s, mask s = false → removeX p k (zBasisX sqrtN cos sin modes normalize rho theta mask) opd s = opd s) ∧
    ((∀ s, s < p → mask s = true → opd s = opd' s) →
      ∀ a, fitX p k (zBasisX sqrtN cos sin modes normalize rho theta mask) opd a
         = fitX p k (zBasisX sqrtN cos sin modes normalize rho theta mask) opd' a) := by
  constructor
  · intro s hs
    unfold removeX composeX Gen.removeContract
    simp only [zBasisX_outside _ _ _ _ _ _ _ _ s _ hs, zero_mul, sumRange_eq_sum, Finset.sum_const_zero, sub_zero]
  · intro hag a
    unfold fitX
    have : rhsX p (zBasisX sqrtN cos sin modes normalize rho theta mask) opd
        = rhsX p (zBasisX sqrtN cos sin modes normalize rho theta mask) opd' := by
      funext b
      unfold rhsX
      simp only [sumRange_eq_sum]
      apply Finset.sum_congr rfl
      intro s hs
      by_cases hm : mask s = true
      · rw [hag s (Finset.mem_range.1 hs) hm]
      · rw [zBasisX_outside _ _ _ _ _ _ _ _ s b (by simpa using hm), zero_mul, zero_mul]
    rw [this]


/-- cos and sin at the multiples `x·π/2` of a quarter turn, as exact rational tables (`x` integer-valued, |x| ≤ 3) -/
def cosQ (x : ℚ) : ℚ := if x = 0 then 1 else if x = 2 ∨ x = -2 then -1 else 0
def sinQ (x : ℚ) : ℚ := if x = 1 ∨ x = -3 then 1 else if x = -1 ∨ x = 3 then -1 else 0

/-- a 2 × 2 array raveled in C order: samples (ρ, θ) = (1, 0), (1, π/2), (1/2, π), (0, 0), all inside the mask; requested modes [2, 3, 4]
(x-tilt: cosine, y-tilt: sine with m = −1, defocus), unnormalised; angles in units of π/2 -/
def ex2Modes : ℕ → ℕ := fun a => if a = 0 then 2 else if a = 1 then 3 else 4
def ex2Rho : ℕ → ℚ := fun s => if s = 0 then 1 else if s = 1 then 1 else if s = 2 then 1 / 2 else 0
def ex2Theta : ℕ → ℚ := fun s => if s = 0 then 0 else if s = 1 then 1 else if s = 2 then 2 else 0
def ex2Basis : ℕ → ℕ → ℚ := zBasisX (fun _ => 0) cosQ sinQ ex2Modes false ex2Rho ex2Theta (fun _ => true)

theorem ex2Basis_entries : blockOf 4 3 ex2Basis = !![1, 0, 1; 0, -1, 1; -1/2, 0, -1/2; 0, 0, -1] := by
  have n2 : nollN 2 = 1 ∧ nollM 2 = 1 := by decide
  have n3 : nollN 3 = 1 ∧ nollM 3 = -1 := by decide
  have n4 : nollN 4 = 2 ∧ nollM 4 = 0 := by decide
  ext r c
  fin_cases r <;> fin_cases c <;>
    simp [blockOf, ex2Basis, zBasisX, zernAt, Gen.zernCore, ex2Modes, ex2Rho, ex2Theta, n2, n3, n4, radialEval, radialCoeff,
      Gen.radialNum, Gen.radialDen, Gen.fact, powK, cosQ, sinQ, List.range, List.range.loop] <;> norm_num

theorem ex2Basis_independent : IsUnit ((blockOf 4 3 ex2Basis)ᵀ * blockOf 4 3 ex2Basis).det := by
  rw [ex2Basis_entries, isUnit_iff_ne_zero, Matrix.det_fin_three]
  simp [Matrix.mul_apply, Fin.sum_univ_four]
  norm_num

/-- cos and sin at the multiples `x·π/2` of a quarter turn as exact tables over ℝ (`x` integer-valued, |x| ≤ 3) -/
noncomputable def cosR (x : ℝ) : ℝ := if x = 0 then 1 else if x = 2 ∨ x = -2 then -1 else 0
noncomputable def sinR (x : ℝ) : ℝ := if x = 1 ∨ x = -3 then 1 else if x = -1 ∨ x = 3 then -1 else 0

/-- the library default `normalize=True` on a PARTIAL mask: a 2 × 2 array raveled in C order, samples (ρ, θ) = (1, 0), (1, π/2), (1/2, π), (0, 0), the
last one OUTSIDE the mask; requested modes [1, 2, 3] (piston, x-tilt, y-tilt) with Noll's normalisation (√2·√(n+1) = 2 for the tilts), `√` the real
square root; angles in units of π/2 -/
def ex3Modes : ℕ → ℕ := fun a => if a = 0 then 1 else if a = 1 then 2 else 3
noncomputable def ex3Rho : ℕ → ℝ := fun s => if s = 0 then 1 else if s = 1 then 1 else if s = 2 then 1 / 2 else 0
noncomputable def ex3Theta : ℕ → ℝ := fun s => if s = 0 then 0 else if s = 1 then 1 else if s = 2 then 2 else 0
def ex3Mask : ℕ → Bool := fun s => decide (s < 3)
noncomputable def ex3Basis : ℕ → ℕ → ℝ := zBasisX (fun k => Real.sqrt k) cosR sinR ex3Modes true ex3Rho ex3Theta ex3Mask

theorem ex3Basis_entries : blockOf 4 3 ex3Basis = !![1, 2, 0; 1, 0, -2; 1, -1, 0; 0, 0, 0] := by
  have n1 : nollN 1 = 0 ∧ nollM 1 = 0 := by decide
  have n2 : nollN 2 = 1 ∧ nollM 2 = 1 := by decide
  have n3 : nollN 3 = 1 ∧ nollM 3 = -1 := by decide
  have h22 : Real.sqrt 2 * Real.sqrt 2 = 2 := Real.mul_self_sqrt (by norm_num)
  ext r c
  fin_cases r <;> fin_cases c <;>
    simp [blockOf, ex3Basis, zBasisX, zernAt, Gen.zernCore, ex3Modes, ex3Rho, ex3Theta, ex3Mask, n1, n2, n3, radialEval, radialCoeff,
      Gen.radialNum, Gen.radialDen, Gen.fact, powK, cosR, sinR, List.range, List.range.loop, h22] <;> norm_num [h22]

theorem ex3Basis_independent : IsUnit ((blockOf 4 3 ex3Basis)ᵀ * blockOf 4 3 ex3Basis).det := by
  rw [ex3Basis_entries, isUnit_iff_ne_zero, Matrix.det_fin_three]
  simp [Matrix.mul_apply, Fin.sum_univ_four]
  norm_num

end Lentil
