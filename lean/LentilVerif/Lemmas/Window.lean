import LentilVerif.Model.Propagate
import LentilVerif.Lemmas.Extent
/-! Facts about the generated window kernel of `propagate_dft` (core Lean, `omega`). Helper lemmas. -/
namespace Lentil

theorem intersectionShape_some (a b : Extent) (ha : a.rmin ≤ a.rmax ∧ a.cmin ≤ a.cmax) (hb : b.rmin ≤ b.rmax ∧ b.cmin ≤ b.cmax)
    (h : intersect a b = true) :
    intersectionShape a b = some ((intersectionExtent a b).nrow, (intersectionExtent a b).ncol) := by
  rw [intersect_iff'] at h
  rw [intersectionShape_eq, intersectionExtent_eq]
  simp only [Extent.nrow, Extent.ncol]
  split
  · rename_i h1; exfalso
    simp only [Bool.or_eq_true, decide_eq_true_eq] at h1; omega
  · rfl

theorem dftWindow_none (oe : Extent) (P0 P1 f0 f1 : Int) (h : intersect oe (propExtent P0 P1 f0 f1) = false) :
    dftWindow oe P0 P1 f0 f1 = none := by
  unfold dftWindow Gen.dftWindow
  unfold intersect propExtent arrayExtent Extent.ofT at h
  simp only [h]
  rfl

/-- closed form of the window block when the extents intersect: shape and centre of the intersection, and the
recentring shift `fix - centre(intersection)` -/
theorem dftWindow_some (oe : Extent) (P0 P1 f0 f1 : Int) (hoe : oe.rmin ≤ oe.rmax ∧ oe.cmin ≤ oe.cmax)
    (hP : 0 < P0 ∧ 0 < P1) (h : intersect oe (propExtent P0 P1 f0 f1) = true) :
    dftWindow oe P0 P1 f0 f1 =
      some (((intersectionExtent oe (propExtent P0 P1 f0 f1)).nrow, (intersectionExtent oe (propExtent P0 P1 f0 f1)).ncol),
            intersectionShift oe (propExtent P0 P1 f0 f1),
            (f0 - (intersectionShift oe (propExtent P0 P1 f0 f1)).1, f1 - (intersectionShift oe (propExtent P0 P1 f0 f1)).2)) := by
  have hpe : (propExtent P0 P1 f0 f1).rmin ≤ (propExtent P0 P1 f0 f1).rmax ∧
      (propExtent P0 P1 f0 f1).cmin ≤ (propExtent P0 P1 f0 f1).cmax := by
    unfold propExtent; rw [arrayExtent_eq]; simp only; omega
  have hs := intersectionShape_some oe (propExtent P0 P1 f0 f1) hoe hpe h
  have h' := h
  rw [intersect_iff'] at h'
  unfold dftWindow Gen.dftWindow
  unfold intersect propExtent arrayExtent Extent.ofT at h
  unfold intersectionShape propExtent arrayExtent Extent.ofT at hs
  simp only [h, if_true, hs, Option.getD_some]
  rw [intersectionExtent_eq, intersectionShift_eq]
  unfold propExtent at *
  rw [arrayExtent_eq] at *
  simp only [Gen.arrayExtent, Gen.intersectionExtent, Gen.intersectionShift, Gen.arrayCenter,
    Extent.nrow, Extent.ncol, intersectionExtent, Extent.ofT] at *
  simp only [Option.some.injEq, Prod.mk.injEq]
  refine ⟨trivial, trivial, ?_, ?_⟩ <;> omega

/-- the extent rebuilt from intersection shape and shift is the intersection extent (core-only copy of
`C06.intersection_shift_roundtrip`) -/
theorem inter_roundtrip (a b : Extent) (h : intersect a b = true) :
    arrayExtent (intersectionExtent a b).nrow (intersectionExtent a b).ncol (intersectionShift a b).1 (intersectionShift a b).2
      = intersectionExtent a b := by
  rw [intersect_iff'] at h
  rw [arrayExtent_eq, intersectionExtent_eq, intersectionShift_eq]
  simp only [Extent.nrow, Extent.ncol, Extent.mk.injEq]
  omega

theorem inter_inb_imp_intersect (a b : Extent) (r c : Int) (h : (intersectionExtent a b).inb r c = true) :
    intersect a b = true := by
  rw [Extent.inb_iff, intersectionExtent_eq] at h
  rw [intersect_iff']; simp only at h; omega

theorem inter_inb_iff (a b : Extent) (r c : Int) :
    (intersectionExtent a b).inb r c = true ↔ a.inb r c = true ∧ b.inb r c = true := by
  rw [Extent.inb_iff, Extent.inb_iff, Extent.inb_iff, intersectionExtent_eq]; simp only; omega

/-- the recentred output coordinate: local index `r - rmin` of the intersection array, centred (`cc`), minus the
recentring shift `fix - centre`, is the global coordinate relative to the integer part of the field's shift -/
theorem window_coord (a b : Extent) (fix r : Int) :
    cc (intersectionExtent a b).nrow (r - (intersectionExtent a b).rmin) - (fix - (intersectionShift a b).1) = r - fix ∧
    cc (intersectionExtent a b).ncol (r - (intersectionExtent a b).cmin) - (fix - (intersectionShift a b).2) = r - fix := by
  rw [intersectionExtent_eq, intersectionShift_eq]; simp only [Extent.nrow, Extent.ncol, cc]; omega

/-- bounding box of the output mask as an extent: rows/cols `b` of an `S0 x S1` array, origin at `floor(S/2)` -/
theorem outExtent_mask (S0 S1 : Int) (b : Extent) :
    outExtent S0 S1 (some b) = ⟨b.rmin - S0 / 2, b.rmax - S0 / 2, b.cmin - S1 / 2, b.cmax - S1 / 2⟩ := by
  simp only [outExtent, Gen.maskShape, Gen.maskShift]; rw [arrayExtent_eq]
  simp only [Extent.mk.injEq]; omega

theorem outExtent_nomask (S0 S1 : Int) :
    outExtent S0 S1 none = ⟨-(S0 / 2), -(S0 / 2) + S0 - 1, -(S1 / 2), -(S1 / 2) + S1 - 1⟩ := by
  simp only [outExtent]; rw [arrayExtent_eq]; simp only [Extent.mk.injEq]; omega

end Lentil
