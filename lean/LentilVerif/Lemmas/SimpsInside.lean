import LentilVerif.Lemmas.Spectrum
/-! C15 — the Simpson sample points of `Spectrum.bin(ends='inside')` (float centres) are non-decreasing -/
namespace Lentil.Spec

theorem adjLe_tail : ∀ (y : ℚ) (l : List ℚ), adjLe (y :: l) → adjLe l := by
  intro y l h
  cases l with
  | nil => trivial
  | cons a l => exact h.2

theorem adjLe_prefix : ∀ (a b : List ℚ), adjLe (a ++ b) → adjLe a := by
  intro a
  induction a with
  | nil => intro _ _; trivial
  | cons a0 a ih =>
    intro b h
    cases a with
    | nil => trivial
    | cons a1 a' =>
      simp only [List.cons_append, adjLe] at h ⊢
      exact ⟨h.1, ih b h.2⟩

theorem adjLe_last_two : ∀ (a : List ℚ) (p l : ℚ), adjLe (a ++ [p, l]) → p ≤ l := by
  intro a
  induction a with
  | nil => intro p l h; exact h.1
  | cons a0 a ih =>
    intro p l h
    exact ih p l (adjLe_tail a0 _ h)

theorem adjLe_append_three : ∀ (a : List ℚ) (p q l : ℚ), adjLe (a ++ [p]) → p ≤ q → q ≤ l → adjLe (a ++ [p, q, l]) := by
  intro a
  induction a with
  | nil => intro p q l _ h1 h2; exact ⟨h1, h2, trivial⟩
  | cons a0 a ih =>
    intro p q l h h1 h2
    cases a with
    | nil =>
      simp only [List.cons_append, List.nil_append, adjLe] at h ⊢
      exact ⟨h.1, h1, h2, trivial⟩
    | cons a1 a' =>
      simp only [List.cons_append, adjLe] at h ⊢
      exact ⟨h.1, ih p q l h.2 h1 h2⟩

/-- inserting the mid-point of the last two points before the last one keeps a non-decreasing list non-decreasing -/
theorem adjLe_insert_before_last (x : List ℚ) (l p : ℚ) (hx : adjLe x) (hl : x.getLast? = some l)
    (hp : x.dropLast.getLast? = some p) : adjLe (x.dropLast ++ [l + (p - l) / 2, l]) := by
  have e1 : x.dropLast ++ [l] = x := List.dropLast_append_getLast? l hl
  have e2 : x.dropLast.dropLast ++ [p] = x.dropLast := List.dropLast_append_getLast? p hp
  have e3 : x = x.dropLast.dropLast ++ [p, l] := by
    conv_lhs => rw [← e1, ← e2]
    simp
  have hpl : p ≤ l := adjLe_last_two _ p l (by rw [← e3]; exact hx)
  have hpre : adjLe (x.dropLast.dropLast ++ [p]) := by
    rw [e2]; exact adjLe_prefix _ [l] (by rw [e1]; exact hx)
  have := adjLe_append_three _ p (l + (p - l) / 2) l hpre (by linarith) (by linarith)
  rw [← e2]
  simpa using this

theorem adjLe_simpsPoints_inside (c : List ℚ) (hs : StrictInc c) : adjLe (simpsPoints false c false) := by
  unfold simpsPoints
  match c, hs with
  | [], _ => simp [adjLe]
  | [c0], _ => simp [adjLe]
  | c0 :: c1 :: cs, hs =>
    cases hl : (c0 :: c1 :: cs).getLast? with
    | none => simp [adjLe]
    | some cl =>
      cases hp : ((c0 :: c1 :: cs).dropLast).getLast? with
      | none => simp [adjLe]
      | some cp =>
        have h01 : c0 < c1 := (List.pairwise_cons.mp hs).1 c1 (by simp)
        have hid : (midpoints (c0 :: c1 :: cs)).map (fun q : ℚ => if false = true then truncQ q else q) = midpoints (c0 :: c1 :: cs) := by simp
        simp only [Bool.false_eq_true, if_false]
        simp only [Bool.false_eq_true, if_false] at hid
        rw [hid]
        -- the interleaved grid c0, m01, c1, …, cl is non-decreasing
        have hI := adjLe_interleave (c1 :: cs) c0 c0 cl hs (le_refl _) (fun l hl' => by rw [hl] at hl'; cases hl'; exact le_refl _)
        have hx : adjLe (interleave (c0 :: c1 :: cs) (midpoints (c0 :: c1 :: cs))) :=
          adjLe_prefix _ [cl] (adjLe_tail c0 _ hI)
        simp only [midpoints, interleave] at hx ⊢
        have hm0 : c0 ≤ Gen.binMid c0 c1 := hx.1
        have hx' : adjLe (c0 :: (c0 + (Gen.binMid c0 c1 - c0) / 2) :: Gen.binMid c0 c1 :: interleave (c1 :: cs) (midpoints (c1 :: cs))) := by
          refine ⟨by linarith, by linarith, hx.2⟩
        split
        · rename_i l p hl' hp'
          exact adjLe_insert_before_last _ l p hx' hl' hp'
        · trivial

end Lentil.Spec
