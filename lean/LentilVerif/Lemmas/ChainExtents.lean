import LentilVerif.Lemmas.PlaneAlg
import LentilVerif.Model.ChainExt
/-! Extents of the fields a chain of planes produces, computed from the planes' bounding slices alone — so that the side
conditions of `chain_distrib` (`ChainOK`: no one-element intermediate field) follow from a condition on the *input*. -/
namespace Lentil
variable {K R : Type}

theorem size1_iff_onePx (f : Fld K) : f.size1 = true ↔ f.extent.onePx := by
  unfold Fld.size1 Fld.extent Extent.onePx
  rw [arrayExtent_eq]
  simp only [Bool.and_eq_true, decide_eq_true_eq]
  omega

theorem pos_iff_valid (f : Fld K) : (0 < f.arr.s0 ∧ 0 < f.arr.s1) ↔ f.extent.valid := by
  unfold Fld.extent Extent.valid
  rw [arrayExtent_eq]
  simp only
  omega

theorem mulExtent_valid (e q g : Extent) (he : e.valid) (hq : q.valid) (h : mulExtent e q = some g) : g.valid := by
  unfold mulExtent at h
  by_cases hi : intersect e q = true
  · rw [if_pos hi, Option.some.injEq] at h
    subst h
    exact intersectionExtent_valid e q he hq hi
  · rw [if_neg hi] at h; exact absurd h (by simp)

theorem stepExtents_valid (qs es : List Extent) (hqs : ∀ q ∈ qs, q.valid) (hes : ∀ e ∈ es, e.valid) (g : Extent)
    (hg : g ∈ stepExtents qs es) : g.valid := by
  unfold stepExtents at hg
  rw [List.mem_flatMap] at hg
  obtain ⟨e, he, hg⟩ := hg
  rw [List.mem_filterMap] at hg
  obtain ⟨q, hq', hq⟩ := hg
  exact mulExtent_valid e q g (hes e he) (hqs q hq') hq

/-- array × array: the product's extent is the intersection, or the product is dropped -/
theorem mul_extent [Mul K] (f q : Fld K) (hf : f.size1 = false) (hq : q.size1 = false) :
    (f.mul q).map Fld.extent = mulExtent f.extent q.extent := by
  rw [Fld.mul_closed]
  simp only [hf, hq, Bool.false_and, Bool.false_eq_true, if_false]
  unfold Fld.mulArr mulExtent
  by_cases hi : intersect f.extent q.extent = true
  · simp only [hi, if_true, Option.map_some, Option.some.injEq]
    show arrayExtent _ _ _ _ = _
    exact mulArr_extent f.extent q.extent hi
  · simp only [hi, Bool.false_eq_true, if_false, Option.map_none]

/-- one-element field × array: the array's extent -/
theorem mul_scalar_left_extent [Mul K] (f q : Fld K) (hf : f.size1 = true) (hq : q.size1 = false) (hv : q.extent.valid) :
    (f.mul q).map Fld.extent = some q.extent := by
  have hint : intersect q.extent q.extent = true := by rw [intersect_iff']; unfold Extent.valid at hv; omega
  have hbe : (f.broadcastTo q).extent = q.extent := rfl
  have h1 : f.mul q = (f.broadcastTo q).mulArr q := by
    rw [Fld.mul_closed]
    simp only [hf, hq, Bool.and_false, Bool.false_eq_true, if_false, if_true]
  rw [h1]
  unfold Fld.mulArr
  simp only [hbe, hint, if_true, Option.map_some, Option.some.injEq]
  show arrayExtent _ _ _ _ = _
  rw [mulArr_extent q.extent q.extent hint, intersectionExtent_eq]
  cases hqe : q.extent; simp

theorem filterMap_mul_extents [Mul K] (f : Fld K) (hf : f.size1 = false) (qs : List (Fld K)) (hq : ∀ q ∈ qs, q.size1 = false) :
    (qs.filterMap fun q => f.mul q).map Fld.extent = (qs.map Fld.extent).filterMap fun q => mulExtent f.extent q := by
  induction qs with
  | nil => rfl
  | cons q qs ih =>
    have hme := mul_extent f q hf (hq q (List.mem_cons_self ..))
    have ih' := ih (fun x hx => hq x (List.mem_cons_of_mem _ hx))
    simp only [List.filterMap_cons, List.map_cons]
    cases hm : f.mul q with
    | none => rw [hm] at hme; simp only [Option.map_none] at hme; rw [← hme]; exact ih'
    | some g => rw [hm] at hme; simp only [Option.map_some] at hme; rw [← hme, List.map_cons, ih']

/-- **extents after a plane**, for array fields and array phasors: computed from extents only -/
theorem planeMultiply_extents [Zero K] [Mul K] (ph : R → K) (p : PlaneM K R) (data : List (Fld K))
    (hd : ∀ f ∈ data, f.size1 = false) (hq : ∀ q ∈ planePhasors ph p, q.size1 = false) :
    (planeMultiply ph p data).map Fld.extent = stepExtents ((planePhasors ph p).map Fld.extent) (data.map Fld.extent) := by
  unfold planeMultiply stepExtents
  induction data with
  | nil => rfl
  | cons f fs ih =>
    simp only [List.flatMap_cons, List.map_append, List.map_cons]
    rw [ih (fun x hx => hd x (List.mem_cons_of_mem _ hx)),
        filterMap_mul_extents f (hd f (List.mem_cons_self ..)) _ hq]

/-- the fresh wavefront (a one-element field) takes the extents of the first plane's phasors -/
theorem planeMultiply_fresh_extents [Zero K] [Mul K] (ph : R → K) (p : PlaneM K R) (w0 : Fld K) (h0 : w0.size1 = true)
    (hq : ∀ q ∈ planePhasors ph p, q.size1 = false ∧ q.extent.valid) :
    (planeMultiply ph p [w0]).map Fld.extent = (planePhasors ph p).map Fld.extent := by
  unfold planeMultiply
  simp only [List.flatMap_cons, List.flatMap_nil, List.append_nil]
  generalize planePhasors ph p = qs at hq
  induction qs with
  | nil => rfl
  | cons q qs ih =>
    have hme := mul_scalar_left_extent w0 q h0 (hq q (List.mem_cons_self ..)).1 (hq q (List.mem_cons_self ..)).2
    have ih' := ih (fun x hx => hq x (List.mem_cons_of_mem _ hx))
    simp only [List.filterMap_cons, List.map_cons]
    cases hm : w0.mul q with
    | none => rw [hm] at hme; simp at hme
    | some g => rw [hm] at hme; simp only [Option.map_some, Option.some.injEq] at hme; rw [List.map_cons, hme, ih']

end Lentil

namespace Lentil
variable {K R : Type}

/-- every bounding slice covers its mask, is non-empty and is not a single pixel -/
def SegsOK (S0 S1 : Int) (l : List Seg) : Prop :=
  ∀ g ∈ l, g.covers S0 S1 ∧ (g.s.r0 < g.s.r1 ∧ g.s.c0 < g.s.c1 ∧ ¬ (g.s.r1 - g.s.r0 = 1 ∧ g.s.c1 - g.s.c0 = 1))

/-- an array-mask plane whose segments are `SegsOK` -/
def PlaneM.ok (p : PlaneM K R) : Prop :=
  match p.mask with
  | .scalar _ => False
  | .segs S0 S1 l => SegsOK S0 S1 l

theorem segPhasor_extent [Zero K] [Mul K] (ph : R → K) (amp : Attr K) (opd : Attr R) (S0 S1 : Int) (g : Seg) :
    (segPhasor ph amp opd S0 S1 g).extent = segBox S0 S1 g := by
  show arrayExtent _ _ _ _ = _
  exact slice_extent _ _ _ _ _ _

theorem phasors_ok [Zero K] [Mul K] (ph : R → K) (p : PlaneM K R) (hp : p.ok) :
    (planePhasors ph p).map Fld.extent = p.boxes ∧
    ∀ q ∈ planePhasors ph p, q.size1 = false ∧ q.extent.valid ∧ (0 < q.arr.s0 ∧ 0 < q.arr.s1) := by
  obtain ⟨amp, opd, mask⟩ := p
  cases mask with
  | scalar on => exact absurd hp (by simp [PlaneM.ok])
  | segs S0 S1 l =>
    refine ⟨?_, ?_⟩
    · simp only [planePhasors, PlaneM.boxes, List.map_map]
      apply List.map_congr_left
      intro g _
      exact segPhasor_extent ph amp opd S0 S1 g
    · intro q hq
      simp only [planePhasors, List.mem_map] at hq
      obtain ⟨g, hg, rfl⟩ := hq
      obtain ⟨_, h1, h2, h3⟩ := hp g hg
      have hpos : 0 < (segPhasor ph amp opd S0 S1 g).arr.s0 ∧ 0 < (segPhasor ph amp opd S0 S1 g).arr.s1 := by
        simp only [segPhasor]; omega
      refine ⟨?_, (pos_iff_valid _).mp hpos, hpos⟩
      rw [Bool.eq_false_iff]; intro hh
      simp only [Fld.size1, segPhasor, Bool.and_eq_true, decide_eq_true_eq] at hh
      exact h3 ⟨of_decide_eq_true hh.1, of_decide_eq_true hh.2⟩

/-- **`ChainOK` from a condition on the input**: array fields through planes that are `ok`, with `ExtOK` on the boxes -/
theorem chainOK_of_ext [Zero K] [Mul K] (ph : R → K) (ps : List (PlaneM K R)) (hps : ∀ p ∈ ps, p.ok) (data : List (Fld K))
    (hd : ∀ f ∈ data, f.size1 = false ∧ f.extent.valid) (hE : ExtOK (ps.map PlaneM.boxes) (data.map Fld.extent)) :
    ChainOK ph ps data ∧ ∀ f ∈ chainMultiply ph ps data, f.size1 = false ∧ f.extent.valid := by
  induction ps generalizing data with
  | nil => exact ⟨trivial, hd⟩
  | cons p ps ih =>
    obtain ⟨hbox, hq⟩ := phasors_ok ph p (hps p (List.mem_cons_self ..))
    have hext : (planeMultiply ph p data).map Fld.extent = stepExtents p.boxes (data.map Fld.extent) := by
      rw [planeMultiply_extents ph p data (fun f hf => (hd f hf).1) (fun q hq' => (hq q hq').1), hbox]
    simp only [List.map_cons] at hE
    obtain ⟨hE1, hE2⟩ := hE
    have hout : ∀ g ∈ planeMultiply ph p data, g.size1 = false ∧ g.extent.valid := by
      intro g hg
      have hmem : g.extent ∈ stepExtents p.boxes (data.map Fld.extent) := by
        rw [← hext]; exact List.mem_map_of_mem hg
      refine ⟨?_, ?_⟩
      · rw [Bool.eq_false_iff]; intro hh
        exact hE1 _ hmem ((size1_iff_onePx g).mp hh)
      · refine stepExtents_valid _ _ ?_ ?_ _ hmem
        · intro b hb; rw [← hbox] at hb
          obtain ⟨q, hq', rfl⟩ := List.mem_map.mp hb
          exact (hq q hq').2.1
        · intro e he
          obtain ⟨f, hf, rfl⟩ := List.mem_map.mp he
          exact (hd f hf).2
    rw [← hext] at hE2
    obtain ⟨ihok, ihfin⟩ := ih (fun x hx => hps x (List.mem_cons_of_mem _ hx)) _ hout hE2
    refine ⟨⟨fun f hf => (pos_iff_valid f).mpr (hd f hf).2, fun q hq' => (hq q hq').2.2, ?_, fun g hg => (hout g hg).1, ihok⟩, ihfin⟩
    intro f _ q hq'
    rw [(hq q hq').1, Bool.and_false]

/-- the same from the fresh wavefront (a single one-element field): it takes the boxes of the first plane -/
theorem chainOK_fresh [Zero K] [Mul K] (ph : R → K) (w0 : Fld K) (h0 : w0.size1 = true) (p : PlaneM K R) (ps : List (PlaneM K R))
    (hp : p.ok) (hps : ∀ x ∈ ps, x.ok) (hE : ExtOK (ps.map PlaneM.boxes) p.boxes) :
    ChainOK ph (p :: ps) [w0] ∧ ∀ f ∈ chainMultiply ph (p :: ps) [w0], f.size1 = false ∧ f.extent.valid := by
  obtain ⟨hbox, hq⟩ := phasors_ok ph p hp
  have hext : (planeMultiply ph p [w0]).map Fld.extent = p.boxes := by
    rw [planeMultiply_fresh_extents ph p w0 h0 (fun q hq' => ⟨(hq q hq').1, (hq q hq').2.1⟩), hbox]
  have hout : ∀ g ∈ planeMultiply ph p [w0], g.size1 = false ∧ g.extent.valid := by
    intro g hg
    have hmem : g.extent ∈ (planePhasors ph p).map Fld.extent := by rw [hbox, ← hext]; exact List.mem_map_of_mem hg
    obtain ⟨q, hq', hqe⟩ := List.mem_map.mp hmem
    refine ⟨?_, ?_⟩
    · rw [Bool.eq_false_iff]; intro hh
      have h1 := (size1_iff_onePx g).mp hh
      rw [← hqe] at h1
      have := (size1_iff_onePx q).mpr h1
      rw [(hq q hq').1] at this; exact Bool.false_ne_true this
    · rw [← hqe]; exact (hq q hq').2.1
  rw [← hext] at hE
  obtain ⟨ihok, ihfin⟩ := chainOK_of_ext ph ps hps _ hout hE
  have hs : w0.arr.s0 = 1 ∧ w0.arr.s1 = 1 := by
    simp only [Fld.size1, Bool.and_eq_true, decide_eq_true_eq] at h0; exact h0
  refine ⟨⟨?_, fun q hq' => (hq q hq').2.2, ?_, fun g hg => (hout g hg).1, ihok⟩, ihfin⟩
  · intro f hf; simp only [List.mem_cons, List.not_mem_nil, or_false] at hf; subst hf; omega
  · intro f _ q hq'
    rw [(hq q hq').1, Bool.and_false]

/-- the transmission of an array-mask plane is the sum of its segment transmissions -/
theorem planeT_segs [NonUnitalNonAssocSemiring K] (ph : R → K) (amp : Attr K) (opd : Attr R) (S0 S1 : Int) (l : List Seg)
    (hl : SegsOK S0 S1 l) (r c : Int) :
    planeT ph ⟨amp, opd, .segs S0 S1 l⟩ r c = sumList l (fun g => segFactor ph amp opd S0 S1 g.m r c) := by
  unfold planeT
  simp only [planePhasors]
  rw [sumList_map]
  apply sumList_congr
  intro g hg
  obtain ⟨hc, _, _, h3⟩ := hl g hg
  have hs1 : (segPhasor ph amp opd S0 S1 g).size1 = false := by
    rw [Bool.eq_false_iff]; intro hh
    simp only [Fld.size1, segPhasor, Bool.and_eq_true, decide_eq_true_eq] at hh
    exact h3 ⟨of_decide_eq_true hh.1, of_decide_eq_true hh.2⟩
  simp only [Fld.sem, hs1, Bool.false_eq_true, if_false]
  exact segPhasor_emb ph amp opd S0 S1 g hc r c

/-- one plane in two descriptions: the segment list `l` and the single union mask `g0` -/
structure SplitPlane (K R : Type) where
  amp : Attr K
  opd : Attr R
  S0 : Int
  S1 : Int
  l : List Seg
  g0 : Seg

def SplitPlane.seg (s : SplitPlane K R) : PlaneM K R := ⟨s.amp, s.opd, .segs s.S0 s.S1 s.l⟩
def SplitPlane.mono (s : SplitPlane K R) : PlaneM K R := ⟨s.amp, s.opd, .segs s.S0 s.S1 [s.g0]⟩

/-- `l` is a partition of `g0`: pairwise disjoint supports whose union is `g0`'s mask; all slices cover and are not a pixel -/
def SplitPlane.WF (s : SplitPlane K R) : Prop :=
  SegsOK s.S0 s.S1 s.l ∧ SegsOK s.S0 s.S1 [s.g0] ∧
  (s.l.map Seg.m).Pairwise (fun a b => ∀ i j, ¬ (a i j = true ∧ b i j = true)) ∧
  ∀ i j, s.g0.m i j = (s.l.map Seg.m).any (fun m => m i j)

end Lentil

namespace Lentil
instance (e : Extent) : Decidable e.onePx := by unfold Extent.onePx; infer_instance

end Lentil

namespace Lentil.Witness
open Lentil
/-- a plane in two descriptions: segments `g2`, `g3` and their union `g23` -/
def sp : SplitPlane Int Int := ⟨.scalar 2, .scalar 0, 5, 5, [g2, g3], g23⟩

theorem sp_wf : sp.WF := by
  refine ⟨?_, ?_, g23_disjoint, fun _ _ => rfl⟩
  · intro g hg
    simp only [sp, List.mem_cons, List.not_mem_nil, or_false] at hg
    rcases hg with rfl | rfl
    · exact g2_ok
    · refine ⟨⟨by decide, by decide, by decide, by decide, ?_⟩, by decide⟩
      intro i j _ _ _ _ h
      simp only [g3, Bool.and_eq_true, decide_eq_true_eq] at h ⊢
      omega
  · intro g hg
    simp only [sp, List.mem_cons, List.not_mem_nil, or_false] at hg
    subst hg
    refine ⟨⟨by decide, by decide, by decide, by decide, ?_⟩, by decide⟩
    intro i j _ _ _ _ h
    simp only [g23, g2, g3, List.any_cons, List.any_nil, Bool.or_false, Bool.or_eq_true, Bool.and_eq_true, decide_eq_true_eq] at h ⊢
    omega

theorem sp_ext : ExtOK ([sp].map fun x => x.seg.boxes) sp.seg.boxes ∧ ExtOK ([sp].map fun x => x.mono.boxes) sp.mono.boxes := by
  refine ⟨⟨?_, trivial⟩, ⟨?_, trivial⟩⟩ <;> decide

end Lentil.Witness

/-! ### chains with Tilt planes interleaved -/
namespace Lentil
variable {K R : Type}

/-- the default plane (amplitude 1, flat OPD `o` with `ph o = 1`, 0-d mask) maps every list of array fields to itself -/
theorem planeMultiply_default_id [MulZeroOneClass K] (ph : R → K) (o : R) (hph : ph o = 1) (data : List (Fld K))
    (hd : ∀ f ∈ data, f.size1 = false ∧ f.extent.valid) :
    planeMultiply ph ⟨.scalar 1, .scalar o, .scalar true⟩ data = data := by
  unfold planeMultiply
  simp only [planePhasors]
  induction data with
  | nil => rfl
  | cons f fs ih =>
    have hf := hd f (List.mem_cons_self ..)
    have hq1 : (scalarPhasor ph (.scalar (1 : K)) (.scalar o) true).size1 = true := rfl
    have hqv : ∀ x : K, x * (scalarPhasor ph (.scalar (1 : K)) (.scalar o) true).arr.get 0 0 = x := by
      intro x; simp [scalarPhasor, maskMul, Attr.at, hph]
    have hm := mul_one_field f _ hf.1 hq1 ((pos_iff_valid f).mpr hf.2) hqv
    rw [List.flatMap_cons, ih (fun x hx => hd x (List.mem_cons_of_mem _ hx))]
    simp only [List.filterMap_cons, List.filterMap_nil, hm]
    rfl

/-- one masked plane on array fields, under `ExtOK`: the outputs are array fields again and `ExtOK` continues -/
theorem step_ext_ok [Zero K] [Mul K] (ph : R → K) (p : PlaneM K R) (hp : p.ok) (data : List (Fld K))
    (hd : ∀ f ∈ data, f.size1 = false ∧ f.extent.valid) (rest : List (List Extent))
    (hE : ExtOK (p.boxes :: rest) (data.map Fld.extent)) :
    (∀ g ∈ planeMultiply ph p data, g.size1 = false ∧ g.extent.valid) ∧ ExtOK rest ((planeMultiply ph p data).map Fld.extent) := by
  obtain ⟨hbox, hq⟩ := phasors_ok ph p hp
  have hext : (planeMultiply ph p data).map Fld.extent = stepExtents p.boxes (data.map Fld.extent) := by
    rw [planeMultiply_extents ph p data (fun f hf => (hd f hf).1) (fun q hq' => (hq q hq').1), hbox]
  obtain ⟨hE1, hE2⟩ := hE
  refine ⟨?_, by rw [hext]; exact hE2⟩
  intro g hg
  have hmem : g.extent ∈ stepExtents p.boxes (data.map Fld.extent) := by rw [← hext]; exact List.mem_map_of_mem hg
  refine ⟨?_, ?_⟩
  · rw [Bool.eq_false_iff]; intro hh
    exact hE1 _ hmem ((size1_iff_onePx g).mp hh)
  · refine stepExtents_valid _ _ ?_ ?_ _ hmem
    · intro b hb; rw [← hbox] at hb
      obtain ⟨q, hq', rfl⟩ := List.mem_map.mp hb
      exact (hq q hq').2.1
    · intro e he
      obtain ⟨f, hf, rfl⟩ := List.mem_map.mp he
      exact (hd f hf).2

/-- the first masked plane on the fresh wavefront: array fields occupying the plane's boxes -/
theorem fresh_step_ok [Zero K] [Mul K] (ph : R → K) (w0 : Fld K) (h0 : w0.size1 = true) (p : PlaneM K R) (hp : p.ok) :
    (∀ g ∈ planeMultiply ph p [w0], g.size1 = false ∧ g.extent.valid) ∧ (planeMultiply ph p [w0]).map Fld.extent = p.boxes := by
  obtain ⟨hbox, hq⟩ := phasors_ok ph p hp
  have hext : (planeMultiply ph p [w0]).map Fld.extent = p.boxes := by
    rw [planeMultiply_fresh_extents ph p w0 h0 (fun q hq' => ⟨(hq q hq').1, (hq q hq').2.1⟩), hbox]
  refine ⟨?_, hext⟩
  intro g hg
  have hmem : g.extent ∈ (planePhasors ph p).map Fld.extent := by rw [hbox, ← hext]; exact List.mem_map_of_mem hg
  obtain ⟨q, hq', hqe⟩ := List.mem_map.mp hmem
  refine ⟨?_, by rw [← hqe]; exact (hq q hq').2.1⟩
  rw [Bool.eq_false_iff]; intro hh
  have h1 := (size1_iff_onePx g).mp hh
  rw [← hqe] at h1
  have := (size1_iff_onePx q).mpr h1
  rw [(hq q hq').1] at this; exact Bool.false_ne_true this

end Lentil

namespace Lentil

theorem onePxb_iff (e : Extent) : e.onePxb = true ↔ e.onePx := by
  unfold Extent.onePxb Extent.onePx; simp only [Bool.and_eq_true, decide_eq_true_eq]

/-- the Boolean scope test the driver evaluates (`c03.extok`) is the hypothesis `ExtOK` of the end-to-end theorems -/
theorem extOKb_iff (Q : List (List Extent)) (es : List Extent) : extOKb Q es = true ↔ ExtOK Q es := by
  induction Q generalizing es with
  | nil => simp [extOKb, ExtOK]
  | cons qs rest ih =>
    simp only [extOKb, ExtOK, Bool.and_eq_true, List.all_eq_true, ih]
    constructor
    · rintro ⟨h1, h2⟩
      exact ⟨fun e he hp => by have := h1 e he; rw [(onePxb_iff e).mpr hp] at this; simp at this, h2⟩
    · rintro ⟨h1, h2⟩
      refine ⟨fun e he => ?_, h2⟩
      cases hb : e.onePxb with
      | false => rfl
      | true => exact absurd ((onePxb_iff e).mp hb) (h1 e he)

end Lentil
