import LentilVerif.Model.Geometry
/-! Facts about the generated pad/subarray/boundary_slice/slice_offset kernels and the boundary search (core Lean, `omega`).
Helper lemmas — property theorems are in Props/C20.lean. -/
namespace Lentil

theorem inWin_iff (lo hi i : Int) : inWin lo hi i = true ↔ lo ≤ i ∧ i < hi := by
  unfold inWin; simp only [Bool.and_eq_true, decide_eq_true_eq]

/-- per-axis closed form of the pad index block: (src start, src stop, dst start, dst stop) -/
def padAxis (m S : Int) : Int × Int × Int × Int :=
  if S - m ≤ 0 then (m / 2 - S / 2, m / 2 - S / 2 + S, 0, S) else (0, m, S / 2 - m / 2, S / 2 - m / 2 + m)

theorem padIdx2_eq (m0 m1 S0 S1 : Int) :
    Gen.padIdx2 m0 m1 S0 S1 =
      (((padAxis m0 S0).1, (padAxis m0 S0).2.1, (padAxis m1 S1).1, (padAxis m1 S1).2.1),
       ((padAxis m0 S0).2.2.1, (padAxis m0 S0).2.2.2, (padAxis m1 S1).2.2.1, (padAxis m1 S1).2.2.2)) := by
  unfold Gen.padIdx2 padAxis
  by_cases h0 : S0 - m0 ≤ 0 <;> by_cases h1 : S1 - m1 ≤ 0 <;> simp [h0, h1]

theorem padIdx3_eq (d m0 m1 S0 S1 : Int) :
    Gen.padIdx3 d m0 m1 S0 S1 =
      (((padAxis m0 S0).1, (padAxis m0 S0).2.1, (padAxis m1 S1).1, (padAxis m1 S1).2.1),
       ((padAxis m0 S0).2.2.1, (padAxis m0 S0).2.2.2, (padAxis m1 S1).2.2.1, (padAxis m1 S1).2.2.2)) := by
  unfold Gen.padIdx3 padAxis
  by_cases h0 : S0 - m0 ≤ 0 <;> by_cases h1 : S1 - m1 ≤ 0 <;> simp [h0, h1]

/-- the slices of one axis are in bounds on both sides and have equal length -/
theorem padAxis_bounds (m S : Int) (hm : 0 ≤ m) (hS : 0 ≤ S) :
    0 ≤ (padAxis m S).1 ∧ (padAxis m S).1 ≤ (padAxis m S).2.1 ∧ (padAxis m S).2.1 ≤ m ∧
    0 ≤ (padAxis m S).2.2.1 ∧ (padAxis m S).2.2.1 ≤ (padAxis m S).2.2.2 ∧ (padAxis m S).2.2.2 ≤ S ∧
    (padAxis m S).2.1 - (padAxis m S).1 = (padAxis m S).2.2.2 - (padAxis m S).2.2.1 := by
  unfold padAxis; split <;> simp only <;> omega

/-- key fact per axis: destination index `i` (inside the target) is copied iff its centre-relative coordinate
`i - S/2` is a source coordinate, and then it is copied from the sample with the same coordinate -/
theorem padAxis_centre (m S i : Int) (_hm : 0 ≤ m) (hi0 : 0 ≤ i) (hi1 : i < S) :
    (inWin (padAxis m S).2.2.1 (padAxis m S).2.2.2 i = inWin 0 m (i - S / 2 + m / 2)) ∧
    (inWin (padAxis m S).2.2.1 (padAxis m S).2.2.2 i = true →
      i - (padAxis m S).2.2.1 + (padAxis m S).1 = i - S / 2 + m / 2) := by
  unfold padAxis
  split
  · refine ⟨?_, ?_⟩
    · rw [Bool.eq_iff_iff, inWin_iff, inWin_iff]; simp only; omega
    · intro _; simp only; omega
  · refine ⟨?_, ?_⟩
    · rw [Bool.eq_iff_iff, inWin_iff, inWin_iff]; simp only; omega
    · intro _; simp only; omega


theorem anyBelow_iff (n : Nat) (p : Nat → Bool) : anyBelow n p = true ↔ ∃ k, k < n ∧ p k = true := by
  induction n with
  | zero => simp [anyBelow]
  | succ n ih =>
    simp only [anyBelow, Bool.or_eq_true, ih]
    constructor
    · rintro (h | ⟨k, hk, hp⟩)
      · exact ⟨n, by omega, h⟩
      · exact ⟨k, by omega, hp⟩
    · rintro ⟨k, hk, hp⟩
      by_cases e : k = n
      · subst e; exact Or.inl hp
      · exact Or.inr ⟨k, by omega, hp⟩

theorem firstTrue_none (n : Nat) (p : Nat → Bool) (h : firstTrue n p = none) : ∀ i, i < n → p i = false := by
  induction n with
  | zero => intro i hi; omega
  | succ n ih =>
    simp only [firstTrue] at h
    cases hf : firstTrue n p with
    | some k => rw [hf] at h; simp at h
    | none =>
      rw [hf] at h
      by_cases hp : p n = true
      · simp [hp] at h
      · intro i hi
        by_cases e : i = n
        · subst e; simpa using hp
        · exact ih hf i (by omega)

theorem firstTrue_some (n : Nat) (p : Nat → Bool) (k : Nat) (h : firstTrue n p = some k) :
    k < n ∧ p k = true ∧ ∀ i, i < k → p i = false := by
  induction n with
  | zero => simp [firstTrue] at h
  | succ n ih =>
    simp only [firstTrue] at h
    cases hf : firstTrue n p with
    | some k' =>
      rw [hf] at h; simp only [Option.some.injEq] at h; subst h
      obtain ⟨a, b, c⟩ := ih hf
      exact ⟨by omega, b, c⟩
    | none =>
      rw [hf] at h
      by_cases hp : p n = true
      · simp only [hp, if_true, Option.some.injEq] at h; subst h
        exact ⟨by omega, hp, firstTrue_none _ p hf⟩
      · simp [hp] at h

theorem lastTrue_none (n : Nat) (p : Nat → Bool) (h : lastTrue n p = none) : ∀ i, i < n → p i = false := by
  induction n with
  | zero => intro i hi; omega
  | succ n ih =>
    simp only [lastTrue] at h
    by_cases hp : p n = true
    · simp [hp] at h
    · simp only [hp] at h
      intro i hi
      by_cases e : i = n
      · subst e; simpa using hp
      · exact ih (by simpa using h) i (by omega)

theorem lastTrue_some (n : Nat) (p : Nat → Bool) (k : Nat) (h : lastTrue n p = some k) :
    k < n ∧ p k = true ∧ ∀ i, k < i → i < n → p i = false := by
  induction n with
  | zero => simp [lastTrue] at h
  | succ n ih =>
    simp only [lastTrue] at h
    by_cases hp : p n = true
    · simp only [hp, if_true, Option.some.injEq] at h; subst h
      exact ⟨by omega, hp, fun i h1 h2 => by omega⟩
    · simp only [hp] at h
      obtain ⟨a, b, c⟩ := ih (by simpa using h)
      refine ⟨by omega, b, fun i h1 h2 => ?_⟩
      by_cases e : i = n
      · subst e; simpa using hp
      · exact c i h1 (by omega)


theorem sliceOffset_eq (r0 r1 c0 c1 S0 S1 : Int) :
    Gen.sliceOffset r0 r1 c0 c1 S0 S1 = (r0 + (r1 - r0) / 2 - S0 / 2, c0 + (c1 - c0) / 2 - S1 / 2) := by
  unfold Gen.sliceOffset
  simp only
  split
  · rename_i h
    simp only [Bool.and_eq_true, decide_eq_true_eq] at h
    simp only [Prod.mk.injEq]; omega
  · rfl

/-- the padded bounding slice: inside the array, containing the box, and tight up to clipping at the array border -/
theorem boundarySlice_spec (rmin rmax cmin cmax S0 S1 p0 p1 : Int)
    (hb : 0 ≤ rmin ∧ rmin ≤ rmax ∧ rmax < S0 ∧ 0 ≤ cmin ∧ cmin ≤ cmax ∧ cmax < S1) (hp : 0 ≤ p0 ∧ 0 ≤ p1) :
    let sl := Gen.boundarySlice rmin rmax cmin cmax S0 S1 p0 p1
    (0 ≤ sl.1.1 ∧ sl.1.1 ≤ rmin ∧ rmax < sl.1.2 ∧ sl.1.2 ≤ S0 ∧ 0 ≤ sl.2.1 ∧ sl.2.1 ≤ cmin ∧ cmax < sl.2.2 ∧ sl.2.2 ≤ S1) ∧
    (sl.1.1 = 0 ∨ sl.1.1 = rmin - p0) ∧ (sl.1.2 = S0 ∨ sl.1.2 = rmax + p0 + 1) ∧
    (sl.2.1 = 0 ∨ sl.2.1 = cmin - p1) ∧ (sl.2.2 = S1 ∨ sl.2.2 = cmax + p1 + 1) ∧
    (rmin - p0 ≤ sl.1.1 ∧ sl.1.2 ≤ rmax + p0 + 1 ∧ cmin - p1 ≤ sl.2.1 ∧ sl.2.2 ≤ cmax + p1 + 1) := by
  simp only [Gen.boundarySlice]
  omega

/-- the window `[r0,r1) × [c0,c1)` of an `S0 × S1` array, carried as a field with offset `slice_offset`, occupies
exactly the pixels it was cut from (coordinates relative to the parent's floor(n/2) origin) -/
theorem sliceOffset_extent (r0 r1 c0 c1 S0 S1 : Int) :
    arrayExtent (r1 - r0) (c1 - c0) (Gen.sliceOffset r0 r1 c0 c1 S0 S1).1 (Gen.sliceOffset r0 r1 c0 c1 S0 S1).2
      = ⟨r0 - S0 / 2, r1 - 1 - S0 / 2, c0 - S1 / 2, c1 - 1 - S1 / 2⟩ := by
  rw [sliceOffset_eq]
  simp only [arrayExtent, Gen.arrayExtent, Extent.ofT, Extent.mk.injEq]
  omega

theorem subarrayIdx_spec (A0 A1 h w o0 o1 : Int) :
    Gen.subarrayIdx A0 A1 h w o0 o1 =
      if A0 / 2 - h / 2 + o0 < 0 ∨ A1 / 2 - w / 2 + o1 < 0 ∨ A0 / 2 - h / 2 + o0 + h > A0 ∨ A1 / 2 - w / 2 + o1 + w > A1
      then .error "ValueError"
      else .ok (A0 / 2 - h / 2 + o0, A0 / 2 - h / 2 + o0 + h, A1 / 2 - w / 2 + o1, A1 / 2 - w / 2 + o1 + w) := by
  simp only [Gen.subarrayIdx, Bool.or_eq_true, decide_eq_true_eq, gt_iff_lt, or_assoc]


theorem walkSide_length (i n : Nat) (acc : List HexCell) (h : HexCell) :
    (walkSide i n acc h).1.length = acc.length + n := by
  induction n generalizing acc h with
  | zero => simp [walkSide]
  | succ n ih => simp only [walkSide]; rw [ih]; simp only [List.length_append, List.length_singleton]; omega

theorem walkSides_length (k m : Nat) : (walkSides k m).1.length = m * k := by
  induction m with
  | zero => simp [walkSides]
  | succ m ih => simp only [walkSides]; rw [walkSide_length, ih, Nat.succ_mul]

/-- the translated inner loop (a fold that ignores its index) is the recursive `walkSide` -/
theorem foldl_range_walkSide (i n : Nat) (acc : List HexCell) (h : HexCell) :
    (List.range n).foldl (fun st (_ : Nat) => (st.1 ++ [st.2], Gen.hexNeighbor st.2 i)) (acc, h) = walkSide i n acc h := by
  induction n generalizing acc h with
  | zero => rfl
  | succ n ih =>
    rw [List.range_succ_eq_map, List.foldl_cons, List.foldl_map, walkSide]
    exact ih (acc ++ [h]) (Gen.hexNeighbor h i)

/-- **the translated loops of `hex_ring` are the recursive walk the lemmas speak about** -/
theorem hexRing_eq_walk (k : Nat) : hexRing k = (walkSides k 6).1 := by
  have inner : ∀ (i : Nat) (st : List HexCell × HexCell),
      (List.range k).foldl (fun st (_ : Nat) => (st.1 ++ [st.2], Gen.hexNeighbor st.2 i)) st = walkSide i k st.1 st.2 := by
    intro i st
    exact foldl_range_walkSide i k st.1 st.2
  have outer : ∀ m : Nat, (List.range m).foldl (fun st i => (List.range k).foldl (fun st (_ : Nat) => (st.1 ++ [st.2], Gen.hexNeighbor st.2 i)) st)
      (([] : List HexCell), Gen.hexRingStart (k : Int)) = walkSides k m := by
    intro m
    induction m with
    | zero => rfl
    | succ m ih => rw [List.range_succ, List.foldl_append, ih]; simp only [List.foldl_cons, List.foldl_nil, inner]; rfl
  unfold hexRing Gen.hexRing
  exact congrArg Prod.fst (outer 6)

theorem hexRing_length (k : Nat) : (hexRing k).length = 6 * k := by
  rw [hexRing_eq_walk]; exact walkSides_length k 6

theorem segCells_length (k : Nat) : (segCells k).length = 1 + 3 * k * (k + 1) := by
  induction k with
  | zero => simp [segCells]
  | succ k ih =>
    simp only [segCells, List.length_append, ih, hexRing_length]
    have : 3 * (k + 1) * (k + 1 + 1) = 3 * k * (k + 1) + 6 * (k + 1) := by
      simp only [Nat.mul_add, Nat.add_mul, Nat.mul_one]; omega
    omega

/-- kept + dropped-in-range = all -/
theorem filter_not_length {α} (l : List α) (p : α → Bool) :
    (l.filter fun x => !p x).length + (l.filter p).length = l.length := by
  induction l with
  | nil => rfl
  | cons a t ih =>
    simp only [List.filter_cons]
    cases p a <;> simp <;> omega


/-- `t` steps from `h` in direction `d` -/
def hexStep (h d : HexCell) (t : Int) : HexCell := (h.1 + t * d.1, h.2.1 + t * d.2.1, h.2.2 + t * d.2.2)

theorem hexStep_zero (h d : HexCell) : hexStep h d 0 = h := by
  simp [hexStep]

theorem hexStep_neighbor (h : HexCell) (i : Nat) (t : Int) :
    hexStep (hexNeighbor h i) (Gen.hexDirections.getD i (0, 0, 0)) t = hexStep h (Gen.hexDirections.getD i (0, 0, 0)) (t + 1) := by
  simp only [hexStep, hexNeighbor, Gen.hexNeighbor, Gen.hexDirection, Gen.hexAdd, Int.add_mul, Int.one_mul, Prod.mk.injEq]
  omega

theorem walkSide_spec (i n : Nat) (acc : List HexCell) (h : HexCell) :
    walkSide i n acc h =
      (acc ++ (List.range n).map (fun (t : Nat) => hexStep h (Gen.hexDirections.getD i (0, 0, 0)) t),
       hexStep h (Gen.hexDirections.getD i (0, 0, 0)) n) := by
  induction n generalizing acc h with
  | zero => simp [walkSide, hexStep_zero]
  | succ n ih =>
    simp only [walkSide]
    rw [ih, List.range_succ_eq_map]
    have h0 : hexStep h (Gen.hexDirections.getD i (0, 0, 0)) ((0 : Nat) : Int) = h := hexStep_zero h _
    have hm : List.map (fun (t : Nat) => hexStep (hexNeighbor h i) (Gen.hexDirections.getD i (0, 0, 0)) t) (List.range n)
        = List.map ((fun (t : Nat) => hexStep h (Gen.hexDirections.getD i (0, 0, 0)) t) ∘ Nat.succ) (List.range n) := by
      apply List.map_congr_left
      intro t _
      simp only [Function.comp, Nat.succ_eq_add_one, Int.natCast_add, Int.natCast_one]
      exact hexStep_neighbor h i t
    refine Prod.ext ?_ ?_
    · simp only [List.map_cons, List.map_map, List.append_assoc, List.singleton_append, h0, hm]
    · simp only [Int.natCast_add, Int.natCast_one]
      exact hexStep_neighbor h i n


theorem hexRing_mem (k : Nat) (c : HexCell) (hc : c ∈ hexRing k) :
    ∃ t : Nat, t < k ∧
      (c = (-(k : Int) + t, (k : Int), -(t : Int)) ∨ c = ((t : Int), (k : Int) - t, -(k : Int)) ∨
       c = ((k : Int), -(t : Int), -(k : Int) + t) ∨ c = ((k : Int) - t, -(k : Int), (t : Int)) ∨
       c = (-(t : Int), -(k : Int) + t, (k : Int)) ∨ c = (-(k : Int), (t : Int), (k : Int) - t)) := by
  have d0 : Gen.hexDirections.getD 0 (0, 0, 0) = (1, 0, -1) := rfl
  have d1 : Gen.hexDirections.getD 1 (0, 0, 0) = (1, -1, 0) := rfl
  have d2 : Gen.hexDirections.getD 2 (0, 0, 0) = (0, -1, 1) := rfl
  have d3 : Gen.hexDirections.getD 3 (0, 0, 0) = (-1, 0, 1) := rfl
  have d4 : Gen.hexDirections.getD 4 (0, 0, 0) = (-1, 1, 0) := rfl
  have d5 : Gen.hexDirections.getD 5 (0, 0, 0) = (0, 1, -1) := rfl
  rw [hexRing_eq_walk] at hc
  simp only [walkSides, walkSide_spec, d0, d1, d2, d3, d4, d5, Gen.hexRingStart, hexStep, List.nil_append,
    List.mem_append, List.mem_map, List.mem_range, Int.mul_one, Int.mul_zero, Int.mul_neg, Int.add_zero, Int.zero_add] at hc
  rcases hc with ((((⟨t, ht, e⟩ | ⟨t, ht, e⟩) | ⟨t, ht, e⟩) | ⟨t, ht, e⟩) | ⟨t, ht, e⟩) | ⟨t, ht, e⟩
  · exact ⟨t, ht, Or.inl e.symm⟩
  · exact ⟨t, ht, Or.inr (Or.inl (by rw [← e]; refine Prod.ext (by first | rfl | (simp only; omega)) (Prod.ext (by first | rfl | (simp only; omega)) (by first | rfl | (simp only; omega)))))⟩
  · exact ⟨t, ht, Or.inr (Or.inr (Or.inl (by rw [← e]; refine Prod.ext (by first | rfl | (simp only; omega)) (Prod.ext (by first | rfl | (simp only; omega)) (by first | rfl | (simp only; omega))))))⟩
  · exact ⟨t, ht, Or.inr (Or.inr (Or.inr (Or.inl (by rw [← e]; refine Prod.ext (by first | rfl | (simp only; omega)) (Prod.ext (by first | rfl | (simp only; omega)) (by first | rfl | (simp only; omega)))))))⟩
  · exact ⟨t, ht, Or.inr (Or.inr (Or.inr (Or.inr (Or.inl (by rw [← e]; refine Prod.ext (by first | rfl | (simp only; omega)) (Prod.ext (by first | rfl | (simp only; omega)) (by first | rfl | (simp only; omega))))))))⟩
  · exact ⟨t, ht, Or.inr (Or.inr (Or.inr (Or.inr (Or.inr (by rw [← e]; refine Prod.ext (by first | rfl | (simp only; omega)) (Prod.ext (by first | rfl | (simp only; omega)) (by first | rfl | (simp only; omega))))))))⟩


/-- `hex_ring(k)` as six explicit sides -/
theorem hexRing_eq (k : Nat) :
    hexRing k =
      (List.range k).map (fun (t : Nat) => ((-(k : Int) + t, (k : Int), -(t : Int)) : HexCell)) ++
      (List.range k).map (fun (t : Nat) => (((t : Int), (k : Int) - t, -(k : Int)) : HexCell)) ++
      (List.range k).map (fun (t : Nat) => (((k : Int), -(t : Int), -(k : Int) + t) : HexCell)) ++
      (List.range k).map (fun (t : Nat) => (((k : Int) - t, -(k : Int), (t : Int)) : HexCell)) ++
      (List.range k).map (fun (t : Nat) => ((-(t : Int), -(k : Int) + t, (k : Int)) : HexCell)) ++
      (List.range k).map (fun (t : Nat) => ((-(k : Int), (t : Int), (k : Int) - t) : HexCell)) := by
  have d0 : Gen.hexDirections.getD 0 (0, 0, 0) = (1, 0, -1) := rfl
  have d1 : Gen.hexDirections.getD 1 (0, 0, 0) = (1, -1, 0) := rfl
  have d2 : Gen.hexDirections.getD 2 (0, 0, 0) = (0, -1, 1) := rfl
  have d3 : Gen.hexDirections.getD 3 (0, 0, 0) = (-1, 0, 1) := rfl
  have d4 : Gen.hexDirections.getD 4 (0, 0, 0) = (-1, 1, 0) := rfl
  have d5 : Gen.hexDirections.getD 5 (0, 0, 0) = (0, 1, -1) := rfl
  rw [hexRing_eq_walk]
  simp only [walkSides, walkSide_spec, d0, d1, d2, d3, d4, d5, Gen.hexRingStart, hexStep, List.nil_append,
    Int.mul_one, Int.mul_zero, Int.mul_neg, Int.add_zero, Int.zero_add]
  congr 1
  · congr 1
    · congr 1
      · congr 1
        · congr 1
          apply List.map_congr_left; intro t _
          exact Prod.ext (by first | rfl | (simp only; omega)) (Prod.ext (by first | rfl | (simp only; omega)) (by first | rfl | (simp only; omega)))
        · apply List.map_congr_left; intro t _
          exact Prod.ext (by first | rfl | (simp only; omega)) (Prod.ext (by first | rfl | (simp only; omega)) (by first | rfl | (simp only; omega)))
      · apply List.map_congr_left; intro t _
        exact Prod.ext (by first | rfl | (simp only; omega)) (Prod.ext (by first | rfl | (simp only; omega)) (by first | rfl | (simp only; omega)))
    · apply List.map_congr_left; intro t _
      exact Prod.ext (by first | rfl | (simp only; omega)) (Prod.ext (by first | rfl | (simp only; omega)) (by first | rfl | (simp only; omega)))
  · apply List.map_congr_left; intro t _
    exact Prod.ext (by first | rfl | (simp only; omega)) (Prod.ext (by first | rfl | (simp only; omega)) (by first | rfl | (simp only; omega)))

theorem hexRing_nodup (k : Nat) : (hexRing k).Nodup := by
  rw [hexRing_eq]
  have inj : ∀ (f : Nat → HexCell), (∀ a b : Nat, f a = f b → a = b) → ((List.range k).map f).Nodup := by
    intro f hf
    rw [List.Nodup, List.pairwise_map]
    exact List.Pairwise.imp (fun hab h => hab (hf _ _ h)) (List.nodup_range (n := k))
  simp only [List.nodup_append, List.mem_append, List.mem_map, List.mem_range]
  refine ⟨⟨⟨⟨⟨inj _ ?_, inj _ ?_, ?_⟩, inj _ ?_, ?_⟩, inj _ ?_, ?_⟩, inj _ ?_, ?_⟩, inj _ ?_, ?_⟩
  · intro a b h; simp only [Prod.mk.injEq] at h; omega
  · intro a b h; simp only [Prod.mk.injEq] at h; omega
  · intro a ha b ⟨t', ht', e'⟩ hab
    rcases ha with ⟨t, ht, e⟩
    all_goals (subst e; subst e'; simp only [Prod.mk.injEq] at hab; omega)
  · intro a b h; simp only [Prod.mk.injEq] at h; omega
  · intro a ha b ⟨t', ht', e'⟩ hab
    rcases ha with ⟨t, ht, e⟩ | ⟨t, ht, e⟩
    all_goals (subst e; subst e'; simp only [Prod.mk.injEq] at hab; omega)
  · intro a b h; simp only [Prod.mk.injEq] at h; omega
  · intro a ha b ⟨t', ht', e'⟩ hab
    rcases ha with (⟨t, ht, e⟩ | ⟨t, ht, e⟩) | ⟨t, ht, e⟩
    all_goals (subst e; subst e'; simp only [Prod.mk.injEq] at hab; omega)
  · intro a b h; simp only [Prod.mk.injEq] at h; omega
  · intro a ha b ⟨t', ht', e'⟩ hab
    rcases ha with ((⟨t, ht, e⟩ | ⟨t, ht, e⟩) | ⟨t, ht, e⟩) | ⟨t, ht, e⟩
    all_goals (subst e; subst e'; simp only [Prod.mk.injEq] at hab; omega)
  · intro a b h; simp only [Prod.mk.injEq] at h; omega
  · intro a ha b ⟨t', ht', e'⟩ hab
    rcases ha with (((⟨t, ht, e⟩ | ⟨t, ht, e⟩) | ⟨t, ht, e⟩) | ⟨t, ht, e⟩) | ⟨t, ht, e⟩
    all_goals (subst e; subst e'; simp only [Prod.mk.injEq] at hab; omega)


theorem hexRing_bounds (k : Nat) (c : HexCell) (hc : c ∈ hexRing k) :
    (-(k : Int) ≤ c.1 ∧ c.1 ≤ k) ∧ (-(k : Int) ≤ c.2.1 ∧ c.2.1 ≤ k) ∧ (-(k : Int) ≤ c.2.2 ∧ c.2.2 ≤ k) ∧
    (c.1 = k ∨ c.1 = -k ∨ c.2.1 = k ∨ c.2.1 = -k ∨ c.2.2 = k ∨ c.2.2 = -k) := by
  obtain ⟨t, ht, h⟩ := hexRing_mem k c hc
  rcases h with rfl | rfl | rfl | rfl | rfl | rfl <;>
    exact ⟨⟨by simp only; omega, by simp only; omega⟩, ⟨by simp only; omega, by simp only; omega⟩,
      ⟨by simp only; omega, by simp only; omega⟩, by simp⟩

theorem segCells_bounds (k : Nat) (c : HexCell) (hc : c ∈ segCells k) :
    (-(k : Int) ≤ c.1 ∧ c.1 ≤ k) ∧ (-(k : Int) ≤ c.2.1 ∧ c.2.1 ≤ k) ∧ (-(k : Int) ≤ c.2.2 ∧ c.2.2 ≤ k) := by
  induction k with
  | zero =>
    simp only [segCells, List.mem_singleton] at hc
    subst hc; simp
  | succ k ih =>
    simp only [segCells, List.mem_append] at hc
    rcases hc with h | h
    · have := ih h
      refine ⟨⟨by omega, by omega⟩, ⟨by omega, by omega⟩, ⟨by omega, by omega⟩⟩
    · have := hexRing_bounds (k + 1) c h
      exact ⟨this.1, this.2.1, this.2.2.1⟩

theorem segCells_nodup (k : Nat) : (segCells k).Nodup := by
  induction k with
  | zero => simp [segCells]
  | succ k ih =>
    simp only [segCells]
    rw [List.nodup_append]
    refine ⟨ih, hexRing_nodup (k + 1), ?_⟩
    intro a ha b hb hab
    subst hab
    have h1 := segCells_bounds k a ha
    have h2 := (hexRing_bounds (k + 1) a hb).2.2.2
    push_cast at h2
    omega

end Lentil
