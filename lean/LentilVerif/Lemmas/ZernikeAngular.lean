import Mathlib.Analysis.SpecialFunctions.Integrals.Basic
/-! Angular integrals over a period used by Noll's normalisation (C11). -/
namespace Lentil
open Real intervalIntegral

theorem angular_cos_sq (m : ℕ) (hm : 1 ≤ m) : ∫ θ in (0 : ℝ)..(2 * π), Real.cos ((m : ℝ) * θ) ^ 2 = π := by
  have hm0 : (m : ℝ) ≠ 0 := by positivity
  have := intervalIntegral.integral_comp_mul_left (a := 0) (b := 2 * π) (fun x => Real.cos x ^ 2) hm0

  rw [this, integral_cos_sq]
  have s : Real.sin ((m : ℝ) * (2 * π)) = 0 := by
    rw [show (m : ℝ) * (2 * π) = ((2 * m : ℕ) : ℝ) * π by push_cast; ring]; exact Real.sin_nat_mul_pi _
  simp only [s, mul_zero, Real.sin_zero, sub_zero, smul_eq_mul]
  field_simp
  ring

theorem angular_sin_sq (m : ℕ) (hm : 1 ≤ m) : ∫ θ in (0 : ℝ)..(2 * π), Real.sin ((m : ℝ) * θ) ^ 2 = π := by
  have hm0 : (m : ℝ) ≠ 0 := by positivity
  have := intervalIntegral.integral_comp_mul_left (a := 0) (b := 2 * π) (fun x => Real.sin x ^ 2) hm0

  rw [this, integral_sin_sq]
  have s : Real.sin ((m : ℝ) * (2 * π)) = 0 := by
    rw [show (m : ℝ) * (2 * π) = ((2 * m : ℕ) : ℝ) * π by push_cast; ring]; exact Real.sin_nat_mul_pi _
  simp only [s, zero_mul, mul_zero, Real.sin_zero, sub_zero, smul_eq_mul]
  field_simp
  ring

end Lentil
