import Mathlib.Analysis.SpecialFunctions.Integrals.Basic
/-! Angular integrals over a period used by Noll's normalisation (C11). -/
namespace Lentil
open Real intervalIntegral

theorem angular_cos_sq (m : ℕ) (hm : 1 ≤ m) : ∫ θ in (0 : ℝ)..(2 * π), Real.cos ((m : ℝ) * θ) ^ 2 = π := by
  have hm0 : (m : ℝ) ≠ 0 := by positivity
  have := intervalIntegral.integral_comp_mul_left (a := 0) (b := 2 * π) (fun x => Real.cos x ^ 2) hm0

  rw [this, integral_cos_sq]
  have s : Real.sin ((m : ℝ) * (2 * π)) = 0 := by
    rw [show (m : ℝ) * (2 * π) = ((2 * m : ℕ) : ℝ) * π by push_cast; ring]; exact Real.sin_nat_mul_pi _
  simp only [s, mul_zero, Real.sin_zero, sub_zero, smul_eq_mul]
  field_simp
  ring

theorem angular_sin_sq (m : ℕ) (hm : 1 ≤ m) : ∫ θ in (0 : ℝ)..(2 * π), Real.sin ((m : ℝ) * θ) ^ 2 = π := by
  have hm0 : (m : ℝ) ≠ 0 := by positivity
  have := intervalIntegral.integral_comp_mul_left (a := 0) (b := 2 * π) (fun x => Real.sin x ^ 2) hm0

  rw [this, integral_sin_sq]
  have s : Real.sin ((m : ℝ) * (2 * π)) = 0 := by
    rw [show (m : ℝ) * (2 * π) = ((2 * m : ℕ) : ℝ) * π by push_cast; ring]; exact Real.sin_nat_mul_pi _
  simp only [s, zero_mul, mul_zero, Real.sin_zero, sub_zero, smul_eq_mul]
  field_simp
  ring


theorem int_cos_int (k : ℤ) (hk : k ≠ 0) : ∫ θ in (0 : ℝ)..(2 * π), Real.cos ((k : ℝ) * θ) = 0 := by
  have hk0 : (k : ℝ) ≠ 0 := by exact_mod_cast hk
  rw [intervalIntegral.integral_comp_mul_left (fun x => Real.cos x) hk0, integral_cos]
  have s : Real.sin ((k : ℝ) * (2 * π)) = 0 := by
    rw [show (k : ℝ) * (2 * π) = ((2 * k : ℤ) : ℝ) * π by push_cast; ring]; exact Real.sin_int_mul_pi _
  simp [s]

theorem int_sin_int (k : ℤ) : ∫ θ in (0 : ℝ)..(2 * π), Real.sin ((k : ℝ) * θ) = 0 := by
  by_cases hk : k = 0
  · subst hk; simp
  · have hk0 : (k : ℝ) ≠ 0 := by exact_mod_cast hk
    rw [intervalIntegral.integral_comp_mul_left (fun x => Real.sin x) hk0, integral_sin]
    have c : Real.cos ((k : ℝ) * (2 * π)) = 1 := by
      rw [show (k : ℝ) * (2 * π) = (k : ℝ) * (2 * π) from rfl]; exact Real.cos_int_mul_two_pi k
    simp [c]

/-- azimuthal factors of different order are orthogonal over a period, and cos ⟂ sin for any orders -/
theorem angular_cross (m m' : ℕ) :
    (m ≠ m' → ∫ θ in (0 : ℝ)..(2 * π), Real.cos ((m : ℝ) * θ) * Real.cos ((m' : ℝ) * θ) = 0) ∧
    (m ≠ m' → ∫ θ in (0 : ℝ)..(2 * π), Real.sin ((m : ℝ) * θ) * Real.sin ((m' : ℝ) * θ) = 0) ∧
    (∫ θ in (0 : ℝ)..(2 * π), Real.cos ((m : ℝ) * θ) * Real.sin ((m' : ℝ) * θ) = 0) := by
  have ic : ∀ k : ℤ, IntervalIntegrable (fun θ : ℝ => Real.cos ((k : ℝ) * θ)) MeasureTheory.volume 0 (2 * π) :=
    fun k => (Real.continuous_cos.comp (continuous_const.mul continuous_id)).intervalIntegrable _ _
  have is : ∀ k : ℤ, IntervalIntegrable (fun θ : ℝ => Real.sin ((k : ℝ) * θ)) MeasureTheory.volume 0 (2 * π) :=
    fun k => (Real.continuous_sin.comp (continuous_const.mul continuous_id)).intervalIntegrable _ _
  refine ⟨fun h => ?_, fun h => ?_, ?_⟩
  · have e : ∀ θ : ℝ, Real.cos ((m : ℝ) * θ) * Real.cos ((m' : ℝ) * θ)
        = (1 / 2) * Real.cos ((((m : ℤ) - m' : ℤ) : ℝ) * θ) + (1 / 2) * Real.cos ((((m : ℤ) + m' : ℤ) : ℝ) * θ) := by
      intro θ; push_cast; rw [sub_mul, add_mul, Real.cos_sub, Real.cos_add]; ring
    simp only [e]
    rw [intervalIntegral.integral_add ((ic _).const_mul _) ((ic _).const_mul _), intervalIntegral.integral_const_mul,
      intervalIntegral.integral_const_mul, int_cos_int _ (by omega), int_cos_int _ (by omega)]
    simp
  · have e : ∀ θ : ℝ, Real.sin ((m : ℝ) * θ) * Real.sin ((m' : ℝ) * θ)
        = (1 / 2) * Real.cos ((((m : ℤ) - m' : ℤ) : ℝ) * θ) - (1 / 2) * Real.cos ((((m : ℤ) + m' : ℤ) : ℝ) * θ) := by
      intro θ; push_cast; rw [sub_mul, add_mul, Real.cos_sub, Real.cos_add]; ring
    simp only [e]
    rw [intervalIntegral.integral_sub ((ic _).const_mul _) ((ic _).const_mul _), intervalIntegral.integral_const_mul,
      intervalIntegral.integral_const_mul, int_cos_int _ (by omega), int_cos_int _ (by omega)]
    simp
  · have e : ∀ θ : ℝ, Real.cos ((m : ℝ) * θ) * Real.sin ((m' : ℝ) * θ)
        = (1 / 2) * Real.sin ((((m : ℤ) + m' : ℤ) : ℝ) * θ) - (1 / 2) * Real.sin ((((m : ℤ) - m' : ℤ) : ℝ) * θ) := by
      intro θ; push_cast; rw [sub_mul, add_mul, Real.sin_sub, Real.sin_add]; ring
    simp only [e]
    rw [intervalIntegral.integral_sub ((is _).const_mul _) ((is _).const_mul _), intervalIntegral.integral_const_mul,
      intervalIntegral.integral_const_mul, int_sin_int, int_sin_int]
    simp

end Lentil
