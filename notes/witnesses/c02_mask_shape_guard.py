"""Witness for KF-C02-mask-shape-guard (unchanged tree): propagate_dft's guard `np.all(mask.shape != shape_out)` refuses a
mask of the wrong shape only when BOTH dimensions differ. Run: /venv/bin/python notes/witnesses/c02_mask_shape_guard.py"""
import sys; sys.path.insert(0, '/repo')
import numpy as np, lentil

w = lentil.Wavefront(5e-7) * lentil.Pupil(amplitude=np.ones((4, 4)), pixelscale=1e-3, focal_length=8.0)
for ms in [(8, 8), (8, 10), (10, 8), (10, 10)]:
    m = np.zeros(ms); m[2:5, 3:6] = 1          # the same support rows 2..4, cols 3..5 in every mask
    try:
        f = lentil.propagate_dft(w, pixelscale=5e-6, shape=4, oversample=2, mask=m).field
        nz = np.argwhere(np.abs(f) > 0)
        print(ms, 'accepted for output (8, 8): evaluated rows', nz[:, 0].min(), '..', nz[:, 0].max(), 'cols', nz[:, 1].min(), '..', nz[:, 1].max())
    except ValueError as e:
        print(ms, 'ValueError:', e)
# (8, 10) and (10, 8) are accepted and the window moves by one sample: cols 2..4 / rows 1..3 instead of 3..5 / 2..4
