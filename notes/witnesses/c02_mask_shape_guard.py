"""Regression demonstration for the former known finding KF-C02-mask-shape-guard (fixed by c7b8eca: `np.all` -> `np.any` in the
mask-shape guard of propagate_dft).

Exits 0 on a fixed tree (every mask whose shape differs from the output array in either dimension raises ValueError) and
non-zero (1) on the old tree, where an 8x10 or 10x8 mask was accepted for an 8x8 output and the evaluated window moved by one sample.
Run: VERIF_REPO=/repo /venv/bin/python notes/witnesses/c02_mask_shape_guard.py"""
import os, sys
sys.path.insert(0, os.environ.get('VERIF_REPO', '/repo'))
import numpy as np, lentil

w = lentil.Wavefront(5e-7) * lentil.Pupil(amplitude=np.ones((4, 4)), pixelscale=1e-3, focal_length=8.0)
bad = 0
for ms in [(8, 8), (8, 10), (10, 8), (10, 10)]:
    m = np.zeros(ms); m[2:5, 3:6] = 1          # the same support rows 2..4, cols 3..5 in every mask
    try:
        f = lentil.propagate_dft(w, pixelscale=5e-6, shape=4, oversample=2, mask=m).field
        nz = np.argwhere(np.abs(f) > 0)
        print(ms, 'accepted for output (8, 8): evaluated rows', nz[:, 0].min(), '..', nz[:, 0].max(), 'cols', nz[:, 1].min(), '..', nz[:, 1].max())
        if ms != (8, 8): bad += 1
    except ValueError as e:
        print(ms, 'ValueError:', e)
        if ms == (8, 8): bad += 1
print('DEFECT PRESENT: a mask of the wrong shape was accepted' if bad else 'ok: only the 8x8 mask is accepted')
sys.exit(1 if bad else 0)
