"""C04 observations on the unchanged tree: two scale dependences of solver calls (run: /venv/bin/python notes/witnesses/c04_scale_dependence.py).

(1) Plane.fit_tilt: np.linalg.lstsq(rcond=None) on the UNSCALED basis [1, r*px0, -c*px1] drops the tip (or tilt) column when its
    norm relative to the piston column falls below eps*max(M, N): the recorded tilt is 0 instead of the least-squares tilt.
(2) DispersiveTilt with a higher-order dispersion/trace: scipy.optimize.leastsq(x0=0) does not move when all lengths are ~1e-16.
"""
import sys; sys.path.insert(0, '/repo')
import numpy as np, lentil

def fit(px, shape, th=(5e-7, -2e-6)):
    m, n = shape
    r = np.arange(m)[:, None] - m // 2; c = np.arange(n)[None, :] - n // 2
    opd = th[0] * r * px - th[1] * c * px + 0 * r * c
    p = lentil.Pupil(amplitude=1, opd=opd, mask=np.ones(shape), pixelscale=px, focal_length=1.0).fit_tilt()
    t = p.tilt[0]
    return (t.y, t.x)          # Tilt(x, y) stores self.x = y, self.y = x

print('(1) fit_tilt of a pure ramp thx=5e-7, thy=-2e-6 rad; recorded (x, y):')
for shape in ((3, 87818), (513, 513), (64, 64)):
    for px in (1e-6, 1e-9, 1e-10, 3e-11, 1.5e-11, 1e-12, 1e-13):
        print(f'    shape {shape}, pixelscale {px:g} m -> {fit(px, shape)}')

print('(2) DispersiveTilt(trace=[a2/k, a1, a0*k], dispersion=[b2/k, b1, d1*k]) at wavelength wl*k; arc-length residual:')
for k in (1.0, 1e-3, 1e-6, 1e-8, 1e-9):
    tr = [12.0 / k, -0.4, 3e-5 * k]; dp = [1.5e-3 / k, 2e-4, 5e-7 * k]; wl = 5.3e-7 * k
    d = lentil.DispersiveTilt(trace=tr, dispersion=dp)
    x, y = (float(np.ravel(v)[0]) for v in d.shift(wavelength=wl, xs=0.0, ys=0.0))
    xs, ws = np.polynomial.legendre.leggauss(200); tt = 0.5 * x * (xs + 1)
    s = 0.5 * x * np.sum(ws * np.sqrt(1 + np.polyval(np.polyder(tr), tt) ** 2))
    print(f'    k = {k:g}: x = {x:.6g}, dispersion(arc length)/wavelength - 1 = {np.polyval(dp, s) / wl - 1:.3e}')

print('(2b) witness found by the check (VERIF_SEED=5, wave 3): all lengths ~1e-16')
d = lentil.DispersiveTilt(trace=[11132072248.475796, -0.7064694519696406, 5.845641320580455e-14],
                          dispersion=[1703890.2505812873, -0.0002782679140702931, 6.555182509452748e-16])
print('    shift at wavelength 6.477765140425857e-16:', [float(np.ravel(v)[0]) for v in d.shift(wavelength=6.477765140425857e-16, xs=0.0, ys=0.0)],
      '(x = 0: leastsq(x0=0) did not move; the dispersion maps arc length 0 to 6.555e-16, not 6.478e-16)')
