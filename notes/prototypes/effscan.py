import ast, pathlib
FRESH_CALLS = {'copy','array','zeros','ones','empty','zeros_like','ones_like','repeat','tile','where','floor','abs','real','einsum','dot','sum','sqrt','exp','deepcopy','broadcast_to','meshgrid','linspace','append','hstack','concatenate','delete','diff','outer','clip','minimum','maximum','asarray_fresh'}
ALIAS_CALLS = {'asarray','atleast_1d','atleast_2d','ravel','reshape','squeeze','view'}
def callname(c):
    f=c.func
    return f.attr if isinstance(f,ast.Attribute) else (f.id if isinstance(f,ast.Name) else '?')
for path in sorted(pathlib.Path('/repo/lentil').glob('*.py')):
    tree=ast.parse(path.read_text())
    for fn in ast.walk(tree):
        if not isinstance(fn,(ast.FunctionDef,)): continue
        params={a.arg for a in fn.args.args+fn.args.kwonlyargs if a.arg!='self'}
        alias=set(params)
        def base(e):
            while isinstance(e,(ast.Subscript,ast.Attribute)):
                if isinstance(e,ast.Attribute) and isinstance(e.value,ast.Name) and e.value.id=='self': return 'self.'+e.attr
                e=e.value
            return e.id if isinstance(e,ast.Name) else None
        def is_alias_expr(e):
            if isinstance(e,ast.Name): return e.id in alias
            if isinstance(e,ast.Subscript): return is_alias_expr(e.value)   # basic slicing -> view
            if isinstance(e,ast.Attribute): return (base(e) in alias) or (isinstance(e.value,ast.Name) and e.value.id=='self')
            if isinstance(e,ast.Call) and callname(e) in ALIAS_CALLS and e.args: return is_alias_expr(e.args[0])
            if isinstance(e,ast.IfExp): return is_alias_expr(e.body) or is_alias_expr(e.orelse)
            return False
        for st in ast.walk(fn):
            if isinstance(st,ast.Assign):
                for t in st.targets:
                    if isinstance(t,ast.Name):
                        if is_alias_expr(st.value): alias.add(t.id)
                        else: alias.discard(t.id)
                    if isinstance(t,(ast.Subscript,)):
                        b=base(t)
                        if b in alias or (b or '').startswith('self.'): print(f'{path.name}:{st.lineno} {fn.name}: WRITE {ast.unparse(t)} = ... (base {b})')
            if isinstance(st,ast.AugAssign):
                b=base(st.target)
                if isinstance(st.target,(ast.Subscript,ast.Attribute)) or (b in alias):
                    if b in alias or (b or '').startswith('self.'): print(f'{path.name}:{st.lineno} {fn.name}: AUGWRITE {ast.unparse(st.target)} (base {b})')
            if isinstance(st,ast.Call):
                for kw in st.keywords:
                    if kw.arg=='out' and is_alias_expr(kw.value): print(f'{path.name}:{st.lineno} {fn.name}: OUT= {ast.unparse(kw.value)}')
                if callname(st)=='uniform' or (isinstance(st.func,ast.Attribute) and ast.unparse(st.func).startswith('np.random.') and callname(st) not in ('default_rng',)):
                    print(f'{path.name}:{st.lineno} {fn.name}: GLOBAL-RNG {ast.unparse(st.func)}')
    for node in tree.body:
        if isinstance(node,ast.FunctionDef):
            for d in node.decorator_list:
                if 'lru_cache' in ast.unparse(d): print(f'{path.name}:{node.lineno} MODULE-CACHE {node.name}')
        if isinstance(node,ast.Assign) and isinstance(node.value,(ast.Dict,ast.List)): print(f'{path.name}:{node.lineno} MODULE-MUTABLE {ast.unparse(node.targets[0])}')
