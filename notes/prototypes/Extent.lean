/-! Extent kernel as a translator would emit it from lentil/extent.py (Int arithmetic, `//` ↦ Int `/` by positive literal). -/
namespace Lentil

structure Extent where
  rmin : Int
  rmax : Int
  cmin : Int
  cmax : Int
deriving Repr, DecidableEq

def arrayExtent (s0 s1 : Int) (sh0 sh1 : Int) : Extent :=
  let rmin := -(s0 / 2) + sh0
  let cmin := -(s1 / 2) + sh1
  let rmax := rmin + s0 - 1
  let cmax := cmin + s1 - 1
  ⟨rmin, rmax, cmin, cmax⟩

def arrayCenter (e : Extent) : Int × Int :=
  let nrow := e.rmax - e.rmin + 1
  let ncol := e.cmax - e.cmin + 1
  (e.rmin + nrow / 2, e.cmin + ncol / 2)

def intersect (a b : Extent) : Bool :=
  a.rmin ≤ b.rmax && a.rmax ≥ b.rmin && a.cmin ≤ b.cmax && a.cmax ≥ b.cmin

def intersectionExtent (a b : Extent) : Extent :=
  ⟨max a.rmin b.rmin, min a.rmax b.rmax, max a.cmin b.cmin, min a.cmax b.cmax⟩

def intersectionShift (a b : Extent) : Int × Int :=
  let e := intersectionExtent a b
  let nrow := e.rmax - e.rmin + 1
  let ncol := e.cmax - e.cmin + 1
  (e.rmin + nrow / 2, e.cmin + ncol / 2)

def Extent.mem (e : Extent) (r c : Int) : Prop := e.rmin ≤ r ∧ r ≤ e.rmax ∧ e.cmin ≤ c ∧ c ≤ e.cmax

/-- An array of shape (s0,s1) at offset (o0,o1): local index (i,j) sits at global coordinate. -/
def globalOf (s0 s1 o0 o1 i j : Int) : Int × Int := (i - s0 / 2 + o0, j - s1 / 2 + o1)

theorem arrayExtent_mem (s0 s1 o0 o1 r c : Int) (h0 : 0 < s0) (h1 : 0 < s1) :
    (arrayExtent s0 s1 o0 o1).mem r c ↔
      ∃ i j, 0 ≤ i ∧ i < s0 ∧ 0 ≤ j ∧ j < s1 ∧ globalOf s0 s1 o0 o1 i j = (r, c) := by
  unfold Extent.mem arrayExtent globalOf
  constructor
  · intro h
    refine ⟨r + s0 / 2 - o0, c + s1 / 2 - o1, ?_, ?_, ?_, ?_, ?_⟩ <;> simp at * <;> omega
  · rintro ⟨i, j, hi0, hi1, hj0, hj1, h⟩
    simp at h ⊢
    omega

theorem intersect_iff (a b : Extent) (ha : a.rmin ≤ a.rmax ∧ a.cmin ≤ a.cmax) (hb : b.rmin ≤ b.rmax ∧ b.cmin ≤ b.cmax) :
    intersect a b = true ↔ ∃ r c, a.mem r c ∧ b.mem r c := by
  unfold intersect Extent.mem
  simp only [Bool.and_eq_true, decide_eq_true_eq, ge_iff_le]
  constructor
  · intro h
    exact ⟨max a.rmin b.rmin, max a.cmin b.cmin, by omega, by omega⟩
  · rintro ⟨r, c, h1, h2⟩; omega

theorem intersection_mem (a b : Extent) (r c : Int) :
    (intersectionExtent a b).mem r c ↔ a.mem r c ∧ b.mem r c := by
  unfold intersectionExtent Extent.mem; simp only; omega

/-- the extent rebuilt from intersection shape and shift is the intersection extent -/
theorem intersection_shift_roundtrip (a b : Extent) (h : intersect a b = true) :
    let e := intersectionExtent a b
    let sh := intersectionShift a b
    arrayExtent (e.rmax - e.rmin + 1) (e.cmax - e.cmin + 1) sh.1 sh.2 = e := by
  unfold intersect at h
  simp only [Bool.and_eq_true, decide_eq_true_eq, ge_iff_le] at h
  simp only [intersectionShift, intersectionExtent, arrayExtent]
  congr 1 <;> omega

end Lentil
