def fact : Nat → Nat
  | 0 => 1
  | n+1 => (n+1) * fact n
/-- coefficient of ρ^(n-2k) in R_n^m, as in lentil.zernike.R -/
def radialCoeff (n m k : Nat) : Int :=
  (if k % 2 = 0 then 1 else -1) * ((fact (n - k) / (fact k * fact ((n + m) / 2 - k) * fact ((n - m) / 2 - k)) : Nat) : Int)
def radialAtOne (n m : Nat) : Int := ((List.range ((n - m) / 2 + 1)).map (radialCoeff n m)).foldl (· + ·) 0
/-- all valid (n,m) with n ≤ N -/
def allAtOne (N : Nat) : Bool :=
  (List.range (N + 1)).all fun n => (List.range (n + 1)).all fun m => (n - m) % 2 != 0 || radialAtOne n m == 1
theorem radial_at_one_40 : allAtOne 40 = true := by decide +kernel
#print axioms radial_at_one_40

-- Gram: ∫_0^1 R_n^m R_n'^m ρ dρ = Σ_k Σ_l a_k b_l / (n-2k + n'-2l + 2); cleared denominators via Rat-free cross-multiplication
def gramNum (n n' m : Nat) (D : Nat) : Int :=
  ((List.range ((n - m) / 2 + 1)).map fun k =>
    ((List.range ((n' - m) / 2 + 1)).map fun l =>
      radialCoeff n m k * radialCoeff n' m l * ((D / (n - 2*k + n' - 2*l + 2) : Nat) : Int)).foldl (· + ·) 0).foldl (· + ·) 0
/-- D = lcm(1..2N+2); claim gramNum = D/(2(n+1)) if n = n' else 0 -/
def lcmUpTo (k : Nat) : Nat := (List.range (k + 1)).foldl (fun a i => if i = 0 then a else Nat.lcm a i) 1
def allGram (N : Nat) : Bool :=
  let D := lcmUpTo (2 * N + 2)
  (List.range (N + 1)).all fun n => (List.range (N + 1)).all fun n' => (List.range (min n n' + 1)).all fun m =>
    (n - m) % 2 != 0 || (n' - m) % 2 != 0 || gramNum n n' m D == (if n = n' then ((D / (2 * (n + 1)) : Nat) : Int) else 0)
theorem radial_gram_40 : allGram 40 = true := by decide +kernel
#print axioms radial_gram_40
