import Feas.Extent
import Mathlib.Algebra.GroupWithZero.Defs
import Mathlib.Tactic.SplitIfs
import Mathlib.Algebra.Group.Basic
namespace Lentil
structure Arr (K : Type) where
  s0 : Int
  s1 : Int
  get : Int → Int → K
structure Fld (K : Type) where
  arr : Arr K
  o0 : Int
  o1 : Int
def Extent.inb (e : Extent) (r c : Int) : Bool :=
  decide (e.rmin ≤ r) && decide (r ≤ e.rmax) && decide (e.cmin ≤ c) && decide (c ≤ e.cmax)
theorem Extent.inb_iff (e : Extent) (r c : Int) :
    e.inb r c = true ↔ e.rmin ≤ r ∧ r ≤ e.rmax ∧ e.cmin ≤ c ∧ c ≤ e.cmax := by
  unfold Extent.inb; simp only [Bool.and_eq_true, decide_eq_true_eq]; omega
def Fld.extent {K} (f : Fld K) : Extent := arrayExtent f.arr.s0 f.arr.s1 f.o0 f.o1
def embAt {K} [Zero K] (e : Extent) (get : Int → Int → K) (r c : Int) : K :=
  if e.inb r c then get (r - e.rmin) (c - e.cmin) else 0
def Fld.emb {K} [Zero K] (f : Fld K) (r c : Int) : K := embAt f.extent f.arr.get r c
def Fld.mul {K} [Mul K] (a b : Fld K) : Option (Fld K) :=
  let ea := a.extent
  let eb := b.extent
  if intersect ea eb then
    let e := intersectionExtent ea eb
    let sh := intersectionShift ea eb
    some { arr := { s0 := e.rmax - e.rmin + 1, s1 := e.cmax - e.cmin + 1,
                    get := fun i j => a.arr.get (i + (e.rmin - ea.rmin)) (j + (e.cmin - ea.cmin)) *
                                      b.arr.get (i + (e.rmin - eb.rmin)) (j + (e.cmin - eb.cmin)) },
           o0 := sh.1, o1 := sh.2 }
  else none

variable {K : Type} [MulZeroClass K]

theorem emb_mk (s0 s1 o0 o1 : Int) (g : Int → Int → K) (r c : Int) :
    (Fld.mk ⟨s0, s1, g⟩ o0 o1).emb r c = embAt (arrayExtent s0 s1 o0 o1) g r c := rfl

theorem mul_emb (a b : Fld K) (ha : 0 < a.arr.s0 ∧ 0 < a.arr.s1) (hb : 0 < b.arr.s0 ∧ 0 < b.arr.s1) (r c : Int) :
    (match a.mul b with | some p => p.emb r c | none => 0) = a.emb r c * b.emb r c := by
  have oka : a.extent.rmin ≤ a.extent.rmax ∧ a.extent.cmin ≤ a.extent.cmax := by
    simp only [Fld.extent, arrayExtent]; omega
  have okb : b.extent.rmin ≤ b.extent.rmax ∧ b.extent.cmin ≤ b.extent.cmax := by
    simp only [Fld.extent, arrayExtent]; omega
  have ra : a.emb r c = embAt a.extent a.arr.get r c := rfl
  have rb : b.emb r c = embAt b.extent b.arr.get r c := rfl
  rw [ra, rb]
  unfold Fld.mul
  generalize hea : a.extent = ea at *
  generalize heb : b.extent = eb at *
  by_cases h : intersect ea eb = true
  · have hrt := intersection_shift_roundtrip ea eb h
    simp only at hrt
    simp only [h, if_true, emb_mk, hrt]
    unfold intersect at h
    simp only [Bool.and_eq_true, decide_eq_true_eq, ge_iff_le] at h
    unfold embAt
    have e1 := Extent.inb_iff (intersectionExtent ea eb) r c
    have e2 := Extent.inb_iff ea r c
    have e3 := Extent.inb_iff eb r c
    simp only [intersectionExtent] at e1 ⊢
    by_cases h1 : ea.inb r c = true <;> by_cases h2 : eb.inb r c = true
    · have h3 : (⟨max ea.rmin eb.rmin, min ea.rmax eb.rmax, max ea.cmin eb.cmin, min ea.cmax eb.cmax⟩ : Extent).inb r c = true := by
        rw [e1]; rw [e2] at h1; rw [e3] at h2; omega
      have hx : ∀ (x m i : Int), x - m + (m - i) = x - i := by intros; omega
      simp only [h1, h2, h3, if_true, hx]
    · have h3 : ¬ ((⟨max ea.rmin eb.rmin, min ea.rmax eb.rmax, max ea.cmin eb.cmin, min ea.cmax eb.cmax⟩ : Extent).inb r c = true) := by
        rw [e1]; rw [e3] at h2; omega
      simp [h2, h3]
    · have h3 : ¬ ((⟨max ea.rmin eb.rmin, min ea.rmax eb.rmax, max ea.cmin eb.cmin, min ea.cmax eb.cmax⟩ : Extent).inb r c = true) := by
        rw [e1]; rw [e2] at h1; omega
      simp [h1, h3]
    · have h3 : ¬ ((⟨max ea.rmin eb.rmin, min ea.rmax eb.rmax, max ea.cmin eb.cmin, min ea.cmax eb.cmax⟩ : Extent).inb r c = true) := by
        rw [e1]; rw [e2] at h1; omega
      simp [h1, h3]
  · have hf : intersect ea eb = false := by simpa using h
    simp only [hf, embAt]
    have e2 := Extent.inb_iff ea r c
    have e3 := Extent.inb_iff eb r c
    unfold intersect at hf
    by_cases h1 : ea.inb r c = true <;> by_cases h2 : eb.inb r c = true
    · exfalso
      rw [e2] at h1; rw [e3] at h2
      have : (decide (ea.rmin ≤ eb.rmax) && decide (ea.rmax ≥ eb.rmin) && decide (ea.cmin ≤ eb.cmax) && decide (ea.cmax ≥ eb.cmin)) = true := by
        simp only [Bool.and_eq_true, decide_eq_true_eq, ge_iff_le]; omega
      rw [hf] at this; exact Bool.false_ne_true this
    · simp [h2]
    · simp [h1]
    · simp [h1]
end Lentil
#print axioms Lentil.mul_emb
