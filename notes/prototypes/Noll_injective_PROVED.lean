/-! Noll index: row/position decomposition by repeated subtraction (core Lean only). -/
def tri (n : Nat) : Nat := n * (n + 1) / 2

theorem tri_succ (n : Nat) : tri (n + 1) = tri n + (n + 1) := by
  unfold tri
  have h : (n + 1) * (n + 1 + 1) = n * (n + 1) + 2 * (n + 1) := by
    simp only [Nat.mul_add, Nat.add_mul, Nat.mul_one, Nat.one_mul]; omega
  rw [h, Nat.add_mul_div_left _ _ (by decide : 0 < 2)]

/-- `rowPos n q fuel`: q is the 0-based position counted from the start of row n -/
def rowPos : Nat → Nat → Nat → Nat × Nat
  | n, q, 0 => (n, q)
  | n, q, fuel + 1 => if q ≤ n then (n, q) else rowPos (n + 1) (q - (n + 1)) fuel

/-- Noll j ≥ 1 ↦ (n, p) with p ≤ n and j = tri n + p + 1 -/
def nollRow (j : Nat) : Nat × Nat := rowPos 0 (j - 1) j

theorem rowPos_spec (fuel n q : Nat) (hf : q ≤ fuel + n) :
    (rowPos n q fuel).2 ≤ (rowPos n q fuel).1 ∧
    tri (rowPos n q fuel).1 + (rowPos n q fuel).2 = tri n + q ∧ n ≤ (rowPos n q fuel).1 := by
  induction fuel generalizing n q with
  | zero => simp only [rowPos]; exact ⟨by omega, trivial, Nat.le_refl _⟩
  | succ f ih =>
    simp only [rowPos]
    split
    · simp_all
    · have := ih (n + 1) (q - (n + 1)) (by omega)
      rw [tri_succ] at this
      omega

theorem nollRow_spec (j : Nat) (hj : 1 ≤ j) :
    (nollRow j).2 ≤ (nollRow j).1 ∧ j = tri (nollRow j).1 + (nollRow j).2 + 1 := by
  have := rowPos_spec j 0 (j - 1) (by omega)
  unfold nollRow
  have t0 : tri 0 = 0 := by decide
  rw [t0] at this
  omega

/-- uniqueness: (n,p) with p ≤ n is determined by tri n + p -/
theorem tri_mono {a b : Nat} (h : a ≤ b) : tri a ≤ tri b := by
  induction h with
  | refl => exact Nat.le_refl _
  | step _ ih => rw [tri_succ]; omega

theorem row_unique (n p n' p' : Nat) (hp : p ≤ n) (hp' : p' ≤ n') (h : tri n + p = tri n' + p') :
    n = n' ∧ p = p' := by
  rcases Nat.lt_trichotomy n n' with hlt | heq | hgt
  · have := tri_mono (show n + 1 ≤ n' from hlt); rw [tri_succ] at this; omega
  · subst heq; omega
  · have := tri_mono (show n' + 1 ≤ n from hgt); rw [tri_succ] at this; omega

def absM (n p : Nat) : Nat := if n % 2 = 0 then 2 * ((p + 1) / 2) else 2 * (p / 2) + 1

theorem absM_valid (n p : Nat) (hp : p ≤ n) : absM n p ≤ n ∧ (n - absM n p) % 2 = 0 := by
  unfold absM; split <;> omega

/-- the signed azimuthal index, as `zernike_index` returns it -/
def nollM (j : Nat) : Int :=
  let (n, p) := nollRow j
  if j % 2 = 0 then (absM n p : Int) else -(absM n p : Int)

theorem noll_injective (j j' : Nat) (hj : 1 ≤ j) (hj' : 1 ≤ j')
    (hn : (nollRow j).1 = (nollRow j').1) (hm : nollM j = nollM j') : j = j' := by
  obtain ⟨hp, e⟩ := nollRow_spec j hj
  obtain ⟨hp', e'⟩ := nollRow_spec j' hj'
  unfold nollM at hm
  simp only at hm
  generalize (nollRow j).1 = n at *
  generalize (nollRow j).2 = p at *
  generalize (nollRow j').2 = p' at *
  subst hn
  unfold absM at hm
  split at hm <;> split at hm <;> split at hm <;> omega
#print axioms noll_injective
