import Feas.Dft1
open Finset

variable {K : Type*} [Field K]

def fwd (n : ℕ) (ζ : K) (f : ℕ → K) (u : ℕ) : K := ∑ x ∈ range n, f x * ζ ^ (-(cc n x * cc n u))
def bwd (n : ℕ) (ζ : K) (F : ℕ → K) (y : ℕ) : K := (n : K)⁻¹ * ∑ u ∈ range n, F u * ζ ^ (cc n y * cc n u)

theorem bwd_fwd (n : ℕ) (hn : 0 < n) (hn0 : (n : K) ≠ 0) (ζ : K) (hζ : IsPrimitiveRoot ζ n) (f : ℕ → K)
    (y : ℕ) (hy : y < n) : bwd n ζ (fwd n ζ f) y = f y := by
  have hζ0 : ζ ≠ 0 := hζ.ne_zero hn.ne'
  unfold bwd fwd
  have step : ∑ u ∈ range n, (∑ x ∈ range n, f x * ζ ^ (-(cc n x * cc n u))) * ζ ^ (cc n y * cc n u)
      = ∑ x ∈ range n, f x * ∑ u ∈ range n, ζ ^ ((cc n y - cc n x) * cc n u) := by
    simp_rw [sum_mul, mul_sum]
    rw [sum_comm]
    apply sum_congr rfl; intro x _
    apply sum_congr rfl; intro u _
    rw [mul_assoc, ← zpow_add₀ hζ0]; congr 2; ring
  rw [step]
  have step2 : ∑ x ∈ range n, f x * ∑ u ∈ range n, ζ ^ ((cc n y - cc n x) * cc n u)
      = ∑ x ∈ range n, f x * (if y = x then (n : K) else 0) := by
    apply sum_congr rfl; intro x hx
    rw [orth n hn ζ hζ y x hy (mem_range.mp hx)]
  rw [step2]
  simp only [mul_ite, mul_zero]
  rw [sum_ite_eq (range n) y (fun x => f x * (n : K))]
  simp only [mem_range, hy, if_true]
  field_simp
#print axioms bwd_fwd
