/-! Mathlib-free generic model: 1-D centred DFT as an executable fold. -/
namespace Lentil
class CxLike (K : Type) (R : Type) where
  expI : R → K          -- exp(i t)
  ofReal : R → K
class Scal (R : Type) where
  ofInt : Int → R
  twoPi : R

def cc (n : Nat) (i : Nat) : Int := (i : Int) - ((n / 2 : Nat) : Int)

def sumRange {K} [Add K] [Zero K] (n : Nat) (f : Nat → K) : K := ((List.range n).map f).sum

/-- F[u] = Σ_x f[x] · exp(-2πi α (cc x + off)(cc u - shift)) -/
def dft1 {K R} [Add K] [Mul K] [Zero K] [Neg R] [Mul R] [Sub R] [Add R] [CxLike K R] [Scal R]
    (m M : Nat) (α shift : R) (off : Int) (f : Nat → K) (u : Nat) : K :=
  sumRange m fun x =>
    CxLike.expI (-(Scal.twoPi * α * (Scal.ofInt (cc m x + off)) * (Scal.ofInt (cc M u) - shift))) * f x
end Lentil

-- executable instantiation
structure Cx where (re im : Float)
instance : Add Cx := ⟨fun a b => ⟨a.re+b.re, a.im+b.im⟩⟩
instance : Mul Cx := ⟨fun a b => ⟨a.re*b.re - a.im*b.im, a.re*b.im + a.im*b.re⟩⟩
instance : Zero Cx := ⟨⟨0,0⟩⟩
instance : Lentil.CxLike Cx Float := ⟨fun t => ⟨Float.cos t, Float.sin t⟩, fun r => ⟨r,0⟩⟩
instance : Lentil.Scal Float := ⟨fun i => Float.ofInt i, 6.283185307179586⟩
#eval (Lentil.dft1 (K := Cx) (R := Float) 4 4 0.25 0.0 0 (fun x => ⟨Float.ofNat x, 0⟩) 1).re
#eval (Lentil.dft1 (K := Cx) (R := Float) 4 4 0.25 0.0 0 (fun x => ⟨Float.ofNat x, 0⟩) 1).im
