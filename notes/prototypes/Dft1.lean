import Mathlib.RingTheory.RootsOfUnity.Complex
import Mathlib.Algebra.BigOperators.Intervals
open Finset

/-- centred coordinate of index i in an axis of n samples -/
def cc (n : ℕ) (i : ℕ) : ℤ := (i : ℤ) - ((n / 2 : ℕ) : ℤ)

variable {K : Type*} [Field K]

/-- orthogonality of a primitive n-th root of unity over a full period, centred indices -/
theorem orth (n : ℕ) (hn : 0 < n) (ζ : K) (hζ : IsPrimitiveRoot ζ n) (x y : ℕ) (hx : x < n) (hy : y < n) :
    ∑ u ∈ range n, ζ ^ ((cc n x - cc n y) * cc n u) = if x = y then (n : K) else 0 := by
  have hζ0 : ζ ≠ 0 := hζ.ne_zero hn.ne'
  split_ifs with hxy
  · subst hxy; simp
  · -- geometric series with ratio ζ^(x-y) ≠ 1
    set d : ℤ := cc n x - cc n y with hd
    have hd' : d = (x : ℤ) - y := by simp [hd, cc]
    have hr : ζ ^ d ≠ 1 := by
      intro h
      have := (hζ.zpow_eq_one_iff_dvd d).mp h
      rw [hd'] at this
      have h1 : ((n : ℤ)) ∣ (x : ℤ) - y := this
      have : (x : ℤ) - y = 0 := by
        apply Int.eq_zero_of_abs_lt_dvd h1
        rw [abs_lt]; constructor <;> omega
      omega
    have hsum : ∑ u ∈ range n, ζ ^ (d * cc n u) = ζ ^ (d * cc n 0) * ∑ u ∈ range n, (ζ ^ d) ^ u := by
      rw [mul_sum]; apply sum_congr rfl; intro u _
      rw [← zpow_natCast, ← zpow_mul, ← zpow_add₀ hζ0]; congr 1; simp [cc]; ring
    rw [hsum]
    have hg : (ζ ^ d - 1) * ∑ u ∈ range n, (ζ ^ d) ^ u = 0 := by
      rw [mul_comm, geom_sum_mul, ← zpow_natCast, ← zpow_mul, mul_comm, zpow_mul, zpow_natCast, hζ.pow_eq_one, one_zpow, sub_self]
    have : ∑ u ∈ range n, (ζ ^ d) ^ u = 0 := by
      rcases mul_eq_zero.mp hg with h | h
      · exact absurd (sub_eq_zero.mp h) hr
      · exact h
    rw [this, mul_zero]
#print axioms orth
