"""Prototype: translate the pure-integer fragment of lentil/extent.py to Lean 4 (Int)."""
import ast, sys, textwrap
SRC = open('/repo/lentil/extent.py').read()
mod = ast.parse(SRC)
# per-function parameter kinds: 'pair' (2 ints), 'ext' (4 ints), 'none' (specialise to None)
SIG = {
 'array_extent': [('shape','pair'),('shift','pair'),('parent_shape','none')],
 'array_center': [('extent','ext')],
 'intersect': [('a','ext'),('b','ext')],
 'intersection_extent': [('a','ext'),('b','ext')],
 'intersection_shape': [('a','ext'),('b','ext')],
 'intersection_slices': [('a','ext'),('b','ext')],
 'intersection_shift': [('a','ext'),('b','ext')],
}
class T:
    def __init__(s, fn): s.fn=fn; s.env={}
    def expr(s, e):
        if isinstance(e, ast.Constant):
            if isinstance(e.value,bool): return 'true' if e.value else 'false'
            if isinstance(e.value,int): return f'({e.value} : Int)'
            if e.value is None: return 'none'
        if isinstance(e, ast.Name): return s.env.get(e.id, e.id)
        if isinstance(e, ast.BinOp):
            op = {ast.Add:'+',ast.Sub:'-',ast.Mult:'*',ast.FloorDiv:'/'}[type(e.op)]
            if isinstance(e.op, ast.FloorDiv):
                assert isinstance(e.right, ast.Constant) and e.right.value>0, 'floor-div only by positive literal'
            return f'({s.expr(e.left)} {op} {s.expr(e.right)})'
        if isinstance(e, ast.UnaryOp) and isinstance(e.op, ast.USub): return f'(-{s.expr(e.operand)})'
        if isinstance(e, ast.Subscript):
            base = e.value.id; idx = e.slice.value
            return f'{base}_{idx}'
        if isinstance(e, ast.Call):
            f = e.func.id if isinstance(e.func, ast.Name) else ast.unparse(e.func)
            if f=='int': return s.expr(e.args[0])
            if f in ('max','min'): return f'({f} {s.expr(e.args[0])} {s.expr(e.args[1])})'
            if f=='slice': return f'({s.expr(e.args[0])}, {s.expr(e.args[1])})'
            if f in SIG: return f'({lean_name(f)} ' + ' '.join(s.arg(a) for a in e.args) + ')'
            if f=='len': return '(2 : Int)'
        if isinstance(e, ast.Compare):
            assert len(e.ops)==1
            op={ast.LtE:'≤',ast.GtE:'≥',ast.Lt:'<',ast.Gt:'>',ast.Eq:'=',ast.IsNot:'≠'}[type(e.ops[0])]
            return f'(decide ({s.expr(e.left)} {op} {s.expr(e.comparators[0])}))'
        if isinstance(e, ast.BoolOp):
            op = ' && ' if isinstance(e.op, ast.And) else ' || '
            return '(' + op.join(s.expr(v) for v in e.values) + ')'
        if isinstance(e, ast.Tuple): return '(' + ', '.join(s.expr(v) for v in e.elts) + ')'
        raise NotImplementedError(ast.dump(e))
    def arg(s,a):
        if isinstance(a, ast.Name) and a.id in s.kinds:
            k=s.kinds[a.id]; n = 2 if k=='pair' else 4
            return ' '.join(f'{a.id}_{i}' for i in range(n))
        if isinstance(a, ast.Name) and a.id in s.tuples: return ' '.join(s.tuples[a.id])
        return s.expr(a)
def lean_name(f): 
    p=f.split('_'); return p[0]+''.join(x.capitalize() for x in p[1:])
out=['namespace Gen']
for fn in mod.body:
    if not isinstance(fn, ast.FunctionDef) or fn.name not in SIG: continue
    t=T(fn); t.kinds={n:k for n,k in SIG[fn.name]}; t.tuples={}
    params=[]
    for n,k in SIG[fn.name]:
        if k=='pair': params += [f'{n}_0',f'{n}_1']
        elif k=='ext': params += [f'{n}_{i}' for i in range(4)]
    lines=[]; ret=None
    def stmts(body, indent):
        global ret
        res=[]
        for st in body:
            if isinstance(st, ast.Expr) and isinstance(st.value, ast.Constant): continue  # docstring
            if isinstance(st, ast.Assign):
                tg=st.targets[0]
                if isinstance(tg, ast.Tuple):
                    names=[x.id for x in tg.elts]
                    v=st.value
                    if isinstance(v, ast.Name) and v.id in t.kinds:   # unpack param
                        for i,nm in enumerate(names): res.append(f'{indent}let {nm} := {v.id}_{i}')
                    elif isinstance(v, ast.Tuple):
                        for nm,e in zip(names,v.elts): res.append(f'{indent}let {nm} := {t.expr(e)}')
                    elif isinstance(v, ast.Call):
                        res.append(f'{indent}let ({", ".join(names)}) := {t.expr(v)}')
                    else: raise NotImplementedError(ast.dump(st))
                else:
                    res.append(f'{indent}let {tg.id} := {t.expr(st.value)}')
            elif isinstance(st, ast.If):
                test=st.test
                # specialise: `len(shape) < 2` is False for pair params; `parent_shape is not None` False
                src=ast.unparse(test)
                if src=='len(shape) < 2' or src=='parent_shape is not None': continue
                thn=stmts(st.body, indent+'  '); els=stmts(st.orelse, indent+'  ')
                # only pattern: if cond: x = A else: x = B
                a1=st.body[0]; a2=st.orelse[0]
                nm=a1.targets[0].id
                res.append(f'{indent}let {nm} := if {t.expr(test)} then {t.expr(a1.value)} else {t.expr(a2.value)}')
            elif isinstance(st, ast.Return):
                res.append(f'{indent}{t.expr(st.value)}')
            else: raise NotImplementedError(ast.dump(st))
        return res
    body=stmts(fn.body,'  ')
    out.append(f'def {lean_name(fn.name)} ({" ".join(params)} : Int) :=')
    out += body
    out.append('')
out.append('end Gen')
print('\n'.join(out))
