import Feas.DftModel
import Mathlib.Analysis.SpecialFunctions.Trigonometric.Basic
import Mathlib.Algebra.BigOperators.Intervals
open Finset
noncomputable instance : Lentil.CxLike ℂ ℝ := ⟨fun t => Complex.exp (t * Complex.I), fun r => (r : ℂ)⟩
noncomputable instance : Lentil.Scal ℝ := ⟨fun i => (i : ℝ), 2 * Real.pi⟩

theorem sumRange_eq {K} [AddCommMonoid K] (n : ℕ) (f : ℕ → K) : Lentil.sumRange n f = ∑ i ∈ range n, f i := by
  unfold Lentil.sumRange
  induction n with
  | zero => simp
  | succ k ih => rw [List.range_succ, List.map_append, List.sum_append, ih, Finset.sum_range_succ]; simp

theorem dft1_eq (m M : ℕ) (α shift : ℝ) (off : ℤ) (f : ℕ → ℂ) (u : ℕ) :
    Lentil.dft1 (K := ℂ) (R := ℝ) m M α shift off f u =
      ∑ x ∈ range m, f x * Complex.exp (-2 * Real.pi * Complex.I * α * ((Lentil.cc m x + off : ℤ) : ℝ) * (((Lentil.cc M u : ℤ) : ℝ) - shift)) := by
  unfold Lentil.dft1
  rw [sumRange_eq]
  apply sum_congr rfl
  intro x _
  rw [mul_comm]
  congr 2
  simp only [Lentil.CxLike.expI, Lentil.Scal.twoPi, Lentil.Scal.ofInt]
  push_cast
  ring
#print axioms dft1_eq
