import numpy as np, lentil, warnings, itertools
print(lentil.__file__)
from lentil.radiometry import Spectrum
rng=np.random.default_rng(0)
ok = {}
# D1
f = rng.normal(size=(5,6))+1j*rng.normal(size=(5,6))
ok['D1'] = all(np.abs(lentil.fourier.idft2(lentil.fourier.dft2(f,(1/5,1/6),unitary=u),(1/5,1/6),unitary=u)-f).max()<1e-12 for u in (True,False))
# D2
n=16; glob = lentil.circle((n,n),6,antialias=False); rr,cc = np.mgrid[0:n,0:n]
s0 = glob*(rr+cc< n-1); s1 = glob-s0; seg=np.stack([s0,s1]); opd=rng.normal(size=(n,n))*1e-7
wm = lentil.Wavefront(650e-9)*lentil.Pupil(amplitude=1,opd=opd,mask=glob.copy(),pixelscale=1/n,focal_length=10.)
ws = lentil.Wavefront(650e-9)*lentil.Pupil(amplitude=1,opd=opd,mask=seg.copy(),pixelscale=1/n,focal_length=10.)
ok['D2'] = np.abs(wm.field-ws.field).max()<1e-12 and np.abs(np.abs(wm.field)-glob).max()<1e-12 and np.abs(wm.intensity-ws.intensity).max()<1e-12
# D3
sh=(16,18); dx=(1/16,1/20); amp=lentil.circle(sh,6,antialias=False); r,c=lentil.helper.mesh(sh); du=(5e-6,8e-6)
tx,ty=2.3e-6,-1.7e-6
Pr=lentil.Pupil(amplitude=amp,opd=tx*r*dx[0]+ty*(-c)*dx[1],pixelscale=dx,focal_length=10.); P0=lentil.Pupil(amplitude=amp,pixelscale=dx,focal_length=10.)
o1=lentil.propagate_dft(lentil.Wavefront(650e-9)*Pr,du,shape=(14,12),oversample=2)
o2=lentil.propagate_dft(lentil.Wavefront(650e-9)*P0*lentil.Tilt(x=tx,y=ty),du,shape=(14,12),oversample=2)
em=np.abs(lentil.field.insert(lentil.field.Field(np.ones(o2.data[0].shape),offset=o2.data[0].offset),np.zeros(o2.shape,complex)))>0
ok['D3'] = em.sum()>50 and np.abs(o1.field-o2.field)[em].max()<1e-12
# D4
P=lentil.Pupil(amplitude=amp,opd=2e-6*r*dx[0],pixelscale=dx,focal_length=10.); P.fit_tilt(inplace=True); P.opd=P.opd+1e-6*r*dx[0]; P.fit_tilt(inplace=True)
Pref=lentil.Pupil(amplitude=amp,opd=3e-6*r*dx[0],pixelscale=dx,focal_length=10.)
a=lentil.propagate_dft(lentil.Wavefront(650e-9)*P,5e-6,shape=(14,12),oversample=2); b=lentil.propagate_dft(lentil.Wavefront(650e-9)*Pref,5e-6,shape=(14,12),oversample=2)
em=np.abs(lentil.field.insert(lentil.field.Field(np.ones(a.data[0].shape),offset=a.data[0].offset),np.zeros(a.shape,complex)))>0
ok['D4'] = em.sum()>20 and np.abs(a.field-b.field)[em].max()<1e-12
# D5
ok['D5'] = str((lentil.Wavefront(1e-6,ptype='image')*lentil.Tilt(x=0,y=0)).ptype)=='image'
# D7/D8/D10
res=[]
for (m,nn),os_,du_ in [((16,16),2,5e-6),((15,15),2,5e-6),((16,16),2,5.1e-6),((15,15),3,5.1e-6)]:
    amp_=lentil.circle((m,nn),min(m,nn)/2-2); P_=lentil.Pupil(amplitude=amp_,opd=rng.normal(size=(m,nn))*1e-7,pixelscale=1/16,focal_length=10.)
    w=lentil.Wavefront(650e-9)*P_
    ss=lentil.scratch_shape(650e-9,1/16,du_,10.,os_)
    of=lentil.propagate_fft(w,du_,shape=(8,8),oversample=os_)
    of2=lentil.propagate_fft(w,du_,shape=(8,8),oversample=os_,scratch=np.full(ss,7+3j))
    w2=lentil.Wavefront(650e-9)*P_; w2._wavelength=of.wavelength
    od=lentil.propagate_dft(w2,du_,shape=(8,8),oversample=os_)
    res.append((np.abs(of.field-od.field).max(), np.abs(of.field-of2.field).max(), ss))
print(res); ok['D7_D8_D10'] = all(a<1e-12 and b<1e-12 for a,b,_ in res)
# D10 pad origin, D11 cube
good=True
for m in range(1,8):
    for S in range(1,9):
        a=np.zeros((m,m)); a[m//2,m//2]=1; p=lentil.pad(a,(S,S)); good &= p[S//2,S//2]==1
        if S>=m: good &= np.array_equal(lentil.pad(lentil.pad(np.arange(m*m).reshape(m,m)+1,(S,S)),(m,m)), np.arange(m*m).reshape(m,m)+1)
cube=np.arange(2*3*5).reshape(2,3,5); pc=lentil.pad(cube,(7,9)); good &= pc.shape==(2,7,9) and np.array_equal(pc[:,2:5,2:7],cube)
ok['D10_D11']=bool(good)
# D12, D13
mm=np.array([[0,2.],[3,0]]); lentil.Plane(mask=mm); img=np.array([[5.,20.]]); out=lentil.detector.adc(img,1,saturation_capacity=10)
ro=np.array([[5.,20.]]); ro.setflags(write=False); out2=lentil.detector.adc(ro,1,saturation_capacity=10)
ok['D12']=mm[0,1]==2; ok['D13']=img[0,1]==20 and out[0,1]==10 and out2[0,1]==10
# D14
m9=np.zeros((9,9)); m9[2:5,3:6]=1; rho,_=lentil.zernike_coordinates(m9); ok['D14']=np.unravel_index(np.argmin(rho),rho.shape)==(3,4) and rho.min()==0
# D15
mask=lentil.circle((32,32),14,antialias=False); opd=lentil.zernike_compose(mask,[0,0,0,1.0])
ok['D15']=np.abs(lentil.zernike_remove(opd,mask,[4])).max()<1e-12 and np.abs(lentil.zernike_remove(opd,mask,[1,2,3,4])).max()<1e-12
# D16
a=Spectrum([0.5,0.6,0.7],[1,2,3],waveunit='um'); b=Spectrum([500,600,700],[2,2,2],waveunit='nm'); c=a*b; d=b*a
ok['D16']=c.waveunit=='um' and c.value[0]==2 and a.waveunit=='um' and b.waveunit=='nm' and np.allclose(d.value,[2,4,6]) and d.waveunit=='nm'; print('D16 residual ulp grid:', c.wave, c.value)
qe=Spectrum([0.4,0.5,0.6,0.7,0.8],[0.1,0.2,0.4,0.3,0.1],waveunit='um'); lentil.detector.collect_charge(np.ones((3,2,2)),[500.,600.,700.],qe); ok['D16b']=qe.waveunit=='um'
# D17
pat='RGBGBRBRG'; good=True
for osf in (1,2,3,4,5):
    nn=3*2*osf; cube=rng.uniform(1,2,size=(2,nn,nn)); qr,qg,qb=[0.1,0.2],[0.3,0.4],[0.5,0.6]
    out=lentil.detector.collect_charge_bayer(cube,[500,600],qr,qg,qb,pat,oversample=osf)
    Pm=np.array(list(pat)).reshape(3,3); q={'R':qr,'G':qg,'B':qb}; ref=np.zeros((nn,nn))
    for i in range(nn):
        for j in range(nn):
            ch=Pm[(i//osf)%3,(j//osf)%3]; ref[i,j]=cube[0,i,j]*q[ch][0]+cube[1,i,j]*q[ch][1]
    good &= np.abs(out-ref).max()<1e-12
ok['D17']=bool(good)
# D18
mk=lentil.circle((12,20),5,antialias=False); o=lentil.power_spectrum(mk,1e-3,50e-9,5,3,seed=1); ok['D18']=abs(np.sqrt(np.mean(o[mk>0]**2))-50e-9)<1e-18 and np.abs(o[mk==0]).max()==0
# D19
im=rng.uniform(0,1,(12,18)); fy=np.fft.fftfreq(12)[:,None]; fx=np.fft.fftfreq(18)[None,:]
ok['D19']=np.abs(lentil.detector.pixel(im,3)-np.abs(np.fft.ifft2(np.fft.fft2(im)*np.sinc(fy*3)*np.sinc(fx*3)))).max()<1e-12
# D20
bad=0
for t in range(5000):
    shp=tuple(rng.integers(2,7,2)); off=tuple(int(x) for x in rng.integers(-9,10,2)); osh=tuple(rng.integers(1,8,2))
    try: lentil.field.insert(lentil.field.Field(np.ones(shp),offset=off),np.zeros(osh,complex))
    except Exception: bad+=1
ok['D20']=bad==0
# D21
s=Spectrum(np.arange(400.,411.),np.arange(11.))
try: s.resample(np.array([405.,401.]))
except ValueError: pass
ok['D21']=s.wave.size==s.value.size==11
# D22
try: lentil.detector.shot_noise(np.array([[1.,-1]]),'gaussian',seed=1); ok['D22']=False
except ValueError: ok['D22']=True
print(ok); print('ALL', all(ok.values()))
