"""C13 — spectrum arithmetic is pointwise, commutative, unit-agnostic; operands unchanged.

Tie: Model/SpecArith.lean (_sampling, common grid with the 1e-9·Δ guard, per-operand interpolation/fill, ufunc, unit
hand-over of the right operand through Gen.waveTo) is hand-written and compared with lentil.radiometry.Spectrum on dyadic
spectra through the ℚ-instantiated driver (lengths and units exactly, grid/values with relative tolerance 1e-11)."""
import warnings
from fractions import Fraction
import numpy as np
import vlib
from harness.speccommon import *

LEVEL_TEXT = ('Lean 4 theorems about an executable model of Spectrum._ufunc/_interp_common (ufunc_pointwise, scalar_vector_elementwise, the partial theorem unit_handover_partial and operand_inside/outside are structural restatements of the model; the content is operand_is_interpolant — operands equal the independently defined piecewise-linear interpolant / the fill —, grid_spans_union_start, grid_spans_union_end, grid_step_le_requested, grid_size_scale_invariant, ufunc_result_valid, ufunc_scale / unit_invariance_unitless and op_comm): the result at every grid point is '
              'op(S1(g), S2(g)) with Si the linear interpolant inside operand i\'s range and the fill value outside; the grid starts at '
              'the smaller minimum and ends at the larger maximum; add/multiply (any commutative op) are commutative incl. the '
              'left/right sampling swap; scalar/vector operands act element-wise on the unchanged grid; the right operand is used '
              'in the left operand\'s unit. Model tied to the code by differential testing at ℚ.')
LEVEL_NOTE = ('the scalar grid arithmetic of _interp_common (range, guard, number of intervals, linspace arguments), which grid points belong to an operand (`_intersect`: Gen.intersectKeeps, and the two `_intersect(sᵢ.wave, commonwave, tol)` / `np.clip(commonwave[index], min, max)` call shapes checked by the generator; the model\'s operandAt is proved equal to the regenerated test for all arguments — operand_membership_is_code, with intersect_keeps_iff / intersect_keeps_ends stating the closed range widened by the guard band), which arithmetic each operator ends in (`a + b` → Spectrum.add → _ufunc(np.add, other, sampling, method, fill_value): Gen.operatorOp/operatorMethod/methodOp/reflectedAliases; pass-through order, the defaults and the left-operand-first order of the ufunc call are checked by the generator; operators_dispatch, add_mul_operators_commute), the three refusals of the `Spectrum.wave` setter (Gen.waveRejectsSample / waveRejectsStep, sortedness guard checked structurally; wave_setter_is_code ties the model\'s validWave to them), what each _sampling option selects and the wiring of Spectrum._ufunc (element-wise operand kinds, conversion of the right operand on a copy, no write to self, result units from the left operand) are regenerated as Gen/InterpGrid.lean; the model consumes them (bridge lemmas gridNum_eq, commonGrid_eq, samplingOf_eq) and operands_unchanged_structural is about the wiring. unit invariance is proved for unitless spectra (`unit_invariance_unitless`: re-expressing both operands and a numeric sampling in any unit rescales the result\'s grid and keeps its values, every operator; `ufunc_scale` is the k>0 core) and, end to end from valid operands (`ufunc_of_valid`: WF, valid grids, ≥ 2 samples, a named sampling option ⇒ the operation succeeds on a valid grid from the smaller minimum to the larger maximum with one value per wavelength and pointwise values; all side conditions derived), the result is a spectrum; the guard band is `operand_guard_band`; commutativity at driver level is `ufuncU_comm_same_units` (same units) and `ufuncU_comm_across_units` (unitless operands in different units); for density spectra (scope in ASSUMPTIONS) unit invariance and commutativity across units are proved for operators homogeneous of degree one, i.e. addition and subtraction (ufunc_value_scale: dividing both operands\' values and the fill by k divides the result by k; unit_invariance_density; ufuncU_comm_across_units_density and its instance add_comm_across_units_density, fill 0, equal flux units); for multiplication of densities only the '
              'hand-over step is proved (`unit_handover_partial`, a PARTIAL theorem: the right operand is used in the left operand\'s unit and the result carries the left units; it does not give invariance) and the clause, like "operands unchanged" and "result is a new object", '
              'is evaluated on the implementation by the oracle in every run (all 4 units, snapshots). Trusted: interp1d(linear), '
              'np.linspace, np.clip.')
TECHNIQUE = 'Lean 4 proof (unfolding + list lemmas) about a hand model + differential correspondence at ℚ'
GEN = ['Units', 'InterpGrid', 'SpectrumOps']
OPS = ['C13']
RULE = ('pairs of dyadic spectra (2..8 samples each; identical / nested / overlapping / touching / disjoint ranges; uniform and '
        'non-uniform grids), operators add/subtract/multiply/divide, sampling min/left/right/float, fill 0/1.5/2, all 16 wavelength-unit '
        'pairs, unitless and density values; scalar (int/float and NumPy scalars np.int64/int32/float32/bool_/float64/uint8 on the right, incl. power and reflected multiply) and vector operands; reflected forms of all five operators with ndarray / int64 ndarray / list / np.float64 / float / int / 0-d array on the left (result must be one element-wise Spectrum or a TypeError, left*s = s*left); (equal length, '
        'length 1, wrong length); reuse histories (an operand used once — in an operation or sampled — then changed in place by to(<flux unit>) / to(<wavelength unit>) / assignment of `value`, then used again, linear and quadratic: the second result must equal the operation on fresh copies of the operands\' current data and, for linear, the independent pointwise reference). distinct = (kind, op, sampling, units, sizes, first data); non-trivial = ranges differ or units differ')
TRUSTED = ['scipy.interpolate.interp1d(kind="linear") is the piecewise-linear interpolant; np.linspace(a,b,n)[i] = a + i(b-a)/(n-1); np.clip',
           'NumPy ufuncs add/subtract/multiply/true_divide/power act element-wise']
UNPROVEN = ['commutativity across units and unit invariance for DENSITY spectra are proved for operators homogeneous of degree one — addition, subtraction — (ufunc_value_scale, unit_invariance_density with the fill value re-expressed as a density, instances add_sub_unit_invariance_density, ufuncU_comm_across_units_density / add_comm_across_units_density for fill 0 and equal flux units); for MULTIPLICATION of two densities (fill 0) they are oracle only (a product of densities does not rescale like a density: the oracle compares physical values)',
            'operands unchanged / result is a new object: snapshots in the correspondence (no heap model)',
            'quadratic/cubic interpolation methods (spline kernels are not modelled); power between two spectra (irrational values)',
            ]
ASSUMPTIONS = ['sampling <= 0 and one-sample operands are not generated (the model totalises them)',
               'unit invariance is claimed — and checked by the oracle in all 4 units — for unitless spectra with any fill value and for density spectra with fill 0 (add/subtract/multiply): a numeric fill value is a number in the left operand\'s value unit per ITS wavelength unit, so for densities a fixed non-zero fill is not unit-invariant by construction (e.g. 3.5 in nm vs 2.0015 for the same operands in um); divide needs a non-zero fill and is therefore checked for unitless spectra only',
               'operands with different value units (photlam + flam): the code combines the raw numbers and labels the result with the left operand\'s unit (so a+b and b+a carry different labels); generated (tag value-units:mixed), model and oracle follow the code; reported as an observation',
               'quadratic/cubic interpolation (tag method:…): oracle only — the method-independent laws (grid, commutativity, unit invariance, operands unchanged) and the values against an independent scipy interp1d of the same kind on the clipped grid; Blackbody operands and grids of more than 6000 points are oracle-only too',
               'the documented two-element (below, above) fill_value is not usable in spectrum-spectrum arithmetic: _interp_common computes fill_value * np.ones(n), which raises ValueError (broadcast) unless the common grid has exactly n = 2 points; for n = 2 the call is accepted and the pair is used POSITION-wise as the fill array [below, above] of the two grid points (not as below/above-range values). Probed on every such case (tag fill-pair:ValueError / fill-pair:accepted), the oracle expects exactly this split; reported, not modelled',
               'for scalar/vector operands the result shares its wavelength array with the operand ((s*2.0).wave is s.wave): counted (tag result-grid-aliases-operand); the result is a new Spectrum object and no lentil call mutates the array in place, so it is reported as an observation, not as a violation of "the result is a new spectrum"',
               'a numeric sampling is below 1e9 x the union span (beyond that the 1e-9·Δ guard of _interp_common collapses the grid to one point; model and code agree there)',
               'both operands have at least two samples; division avoids zero denominators (values and fill of the divisor are non-zero)']

W = ['m', 'um', 'nm', 'angstrom']
MPU = {'m': Fraction(1), 'um': Fraction(1, 10**6), 'nm': Fraction(1, 10**9), 'angstrom': Fraction(1, 10**10)}
OPSN = ['add', 'subtract', 'multiply', 'divide']

def _extremes(rng, k):
    """inputs a small random sample never reaches: common grids of > 2^16 samples, analytic (Blackbody) operands in another unit,
    metre-valued operands with nanometre spacing"""
    out = []
    # metre-valued operands (numbers ~5e-7) with the same number of samples on grids offset by a few nanometres: an absolute
    # tolerance of 1e-8 in the operands' unit (np.allclose/np.isclose defaults) is 10 nm here
    for i in range(max(2, k // 6)):
        n1 = int(rng.integers(3, 8))
        w1 = inc_grid(rng, n1, start=dyadic(rng, 400, 600, 2), bits=2, maxstep=12.0, uniform=bool(i % 2))
        off = [0.25, 1.0, 3.5, 7.75][int(rng.integers(0, 4))]
        out.append({'kind': 'pair', 'form': 'method', 'fn': OPSN[int(rng.integers(0, 3))], 'w1': w1, 'v1': [dyadic(rng, 1, 16, 3) for _ in w1], 'w2': [x + off for x in w1],
                    'v2': [dyadic(rng, 1, 16, 3) for _ in w1], 'u1': 'm', 'u2': ['m', 'm', 'nm', 'um'][int(rng.integers(0, 4))], 'vu': None, 'vu2': None, 'method': 'linear',
                    'sampling': 'min', 'fill': 0.0, 'fk': 'float', 'rel': 'offset-metres', 'dt1': 'float', 'dt2': 'float'})
    for i in range(k):
        t = i % 3
        if t == 0:
            # very fine requested sampling: tens of thousands of grid points
            n1, n2 = int(rng.integers(2, 6)), int(rng.integers(2, 6))
            w1 = inc_grid(rng, n1, start=dyadic(rng, 300, 500, 2), bits=2, maxstep=120.0)
            w2 = inc_grid(rng, n2, start=w1[0] + int(rng.integers(-8, 200)) * 0.25, bits=2, maxstep=120.0)
            fn = OPSN[int(rng.integers(0, 3))]
            u = W[int(rng.integers(0, 4))] if rng.integers(0, 2) else 'nm'
            out.append({'kind': 'pair', 'form': 'method', 'fn': fn, 'w1': w1, 'v1': [dyadic(rng, 0, 16, 3) for _ in w1], 'w2': w2, 'v2': [dyadic(rng, 0, 16, 3) for _ in w2],
                        'u1': u, 'u2': 'nm' if rng.integers(0, 2) else u, 'vu': None, 'sampling': 2.0 ** (int(np.floor(np.log2(max(w1[-1], w2[-1]) - min(w1[0], w2[0])))) - 16), 'fill': 0.0, 'fk': 'float',
                        'rel': 'fine', 'dt1': 'float', 'dt2': 'float'})
        else:
            # a Spectrum combined with a Blackbody (analytic sample()) given on a coarse grid, in the same or another unit
            w1 = inc_grid(rng, int(rng.integers(3, 8)), start=dyadic(rng, 400, 700, 2), bits=2, maxstep=120.0)
            lo, hi = w1[0] - int(rng.integers(0, 100)), w1[-1] + int(rng.integers(0, 400))
            nb = int(rng.integers(2, 5))
            wb = [lo + (hi - lo) * j / (nb - 1) for j in range(nb)]
            out.append({'kind': 'bb', 'fn': OPSN[int(rng.integers(0, 3))], 'w1': w1, 'v1': [dyadic(rng, 0, 16, 3) for _ in w1], 'wb': wb, 'temp': float(int(rng.integers(2500, 9000))),
                        'u1': W[int(rng.integers(0, 4))], 'ub': W[int(rng.integers(0, 4))], 'vu': ['photlam', 'wlam', 'flam'][int(rng.integers(0, 3))], 'bb_left': bool(rng.integers(0, 4) == 0),
                        'sampling': ['min', 'left', 'right'][int(rng.integers(0, 3))]})
    return out

def generate(rng, tier):
    n = {'quick': 200, 'thorough': 4000, 'search': 1000}[tier]
    out = _extremes(rng, {'quick': 6, 'thorough': 90, 'search': 60}[tier])
    # reflected operations: a NumPy array / NumPy scalar / list / Python number on the LEFT of each of the five operators
    for fnr in ('add', 'subtract', 'multiply', 'divide', 'power'):
        for left in ('ndarray', 'f64', 'list', 'float', 'int', '0d', 'i64arr'):
            if tier == 'quick' and rng.integers(0, 2) and fnr != 'multiply': continue
            w = inc_grid(rng, int(rng.integers(2, 9)), bits=2)
            out.append({'kind': 'reflected', 'fn': fnr, 'left': left, 'w1': w, 'v1': [dyadic(rng, 0.125, 8, 3) for _ in w],
                        'lv': [float(int(x)) for x in rng.integers(1, 5, len(w))], 'c': float(int(rng.integers(1, 5)))})
    for i in range(n):
        t = i % 8
        if t < 6:
            n1, n2 = int(rng.integers(2, 9)), int(rng.integers(2, 9))
            w1 = inc_grid(rng, n1, start=dyadic(rng, 300, 500, 2), bits=2, maxstep=24.0)
            rel = ['identical', 'nested', 'overlap', 'touch', 'disjoint', 'free'][int(rng.integers(0, 6))]
            span = w1[-1] - w1[0]
            if rel == 'identical': w2 = list(w1)
            elif rel == 'nested': w2 = inc_grid(rng, n2, start=w1[0] + int(rng.integers(0, 3)) * 0.25, bits=2, maxstep=max(0.25, span / (2 * n2)))
            elif rel == 'overlap': w2 = inc_grid(rng, n2, start=w1[0] + int(span * 2) / 4, bits=2, maxstep=24.0)
            elif rel == 'touch': w2 = inc_grid(rng, n2, start=w1[-1], bits=2, maxstep=24.0)
            elif rel == 'disjoint': w2 = inc_grid(rng, n2, start=w1[-1] + dyadic(rng, 1, 60, 2), bits=2, maxstep=24.0)
            else: w2 = inc_grid(rng, n2, start=dyadic(rng, 250, 600, 2), bits=2, maxstep=24.0)
            fn = OPSN[int(rng.integers(0, 4))]
            lo = 0.125 if fn == 'divide' else 0
            v1 = [dyadic(rng, 0, 16, 3) for _ in w1]; v2 = [dyadic(rng, lo, 16, 3) for _ in w2]
            if rng.integers(0, 2): w1, w2, v1, v2 = w2, w1, v2, v1
            if fn == 'divide': v2 = [max(x, 0.125) for x in v2]
            sm = ['min', 'min', 'left', 'right', 0.5, 3.0, 0.375, 40.0][int(rng.integers(0, 8))]
            fill = [1.5, 2.0][int(rng.integers(0, 2))] if fn == 'divide' else [0.0, 0.0, 1.5][int(rng.integers(0, 3))]
            u1, u2 = (W[int(rng.integers(0, 4))], W[int(rng.integers(0, 4))]) if rng.integers(0, 2) else ('nm', 'nm')
            vu = [None, None, 'wlam'][int(rng.integers(0, 3))]
            # storage dtype of the values: an integer 0/1 bandpass or integer counts are legitimate spectra
            dt1, dt2 = [['float', 'float', 'int', 'bool'][int(x)] for x in rng.integers(0, 4, 2)]
            if vu is not None: dt1 = dt2 = 'float'
            if dt1 == 'int': v1 = [float(int(x)) for x in v1]
            if dt1 == 'bool': v1 = [float(int(x) % 2) for x in v1]
            if dt2 == 'int': v2 = [float(max(int(x), 1 if fn == 'divide' else 0)) for x in v2]
            if dt2 == 'bool': v2 = [1.0 if fn == 'divide' else float(int(x) % 2) for x in v2]
            fk = 'float'
            if dt1 != 'float' or dt2 != 'float':
                fill = [0.5, 1.5, 0.25][int(rng.integers(0, 3))] if (fn == 'divide' or rng.integers(0, 3)) else 0.0
            # how the fill value is passed: as a float, as a Python int, or not at all (the default fill_value=0 is an int)
            if float(fill).is_integer() and rng.integers(0, 3): fk = 'default' if fill == 0 else 'int'
            if fk == 'pair': fill = 0.0
            elif fn != 'divide' and rng.integers(0, 4) == 0: fill, fk = 0.0, 'default'
            # different value units (photlam + flam …): the code combines the raw numbers and keeps the left label (observation)
            vu2 = vu
            if vu is not None and rng.integers(0, 4) == 0: vu2 = [x for x in ('photlam', 'flam', 'wlam') if x != vu][int(rng.integers(0, 2))]
            # spline interpolation of the operands: every law but "linear interpolant" applies
            method = 'linear'
            if min(len(w1), len(w2)) >= 4 and rng.integers(0, 8) == 0: method = ['quadratic', 'cubic'][int(rng.integers(0, 2))]
            if fn != 'divide' and rng.integers(0, 25) == 0: fk, fill = 'pair', 0.0       # documented (below, above) fill pair (probe), main call with default fill
            out.append({'kind': 'pair', 'form': ['method', 'method', 'method+kw', 'operator'][int(rng.integers(0, 4))], 'fn': fn, 'w1': w1, 'v1': v1, 'w2': w2, 'v2': v2, 'u1': u1, 'u2': u2, 'vu': vu, 'vu2': vu2, 'method': method,
                        'sampling': sm, 'fill': fill, 'fk': fk, 'rel': rel, 'dt1': dt1, 'dt2': dt2})
        elif t == 6:
            w = inc_grid(rng, int(rng.integers(2, 9)), bits=2)
            fn = (OPSN + ['power', 'rmul'])[int(rng.integers(0, 6))]
            c = float(int(rng.integers(0, 4))) if fn == 'power' else dyadic(rng, 0.125 if fn == 'divide' else -4, 8, 3)
            dt = ['float', 'float', 'int'][int(rng.integers(0, 3))]
            if rng.integers(0, 3) == 0 and fn != 'rmul':
                out.append({'kind': 'scalar', 'fn': fn, 'w1': w, 'v1': [dyadic(rng, 0.125, 8, 3) for _ in w], 'c': float(int(rng.integers(1, 4))), 'as_int': False,
                            'dt1': 'float', 'np_scalar': ['int64', 'int32', 'float32', 'bool_', 'float64', 'uint8'][int(rng.integers(0, 6))]})
                continue
            out.append({'kind': 'scalar', 'fn': fn, 'w1': w, 'v1': [dyadic(rng, 0, 8, 3) if dt == 'float' else float(int(rng.integers(0, 9))) for _ in w], 'c': c,
                        'as_int': bool(rng.integers(0, 2)) and float(c).is_integer(), 'dt1': dt})
        else:
            w = inc_grid(rng, int(rng.integers(2, 9)), bits=2)
            fn = OPSN[int(rng.integers(0, 4))]
            m = [len(w), len(w), len(w), 1, len(w) + 1, max(2, len(w) - 1) if len(w) != 3 else 5][int(rng.integers(0, 6))]
            dt = ['float', 'float', 'int'][int(rng.integers(0, 3))]
            out.append({'kind': 'vector', 'fn': fn, 'w1': w, 'v1': [dyadic(rng, 0, 8, 3) if dt == 'float' else float(int(rng.integers(0, 9))) for _ in w],
                        'v': [dyadic(rng, 0.125, 8, 3) for _ in range(m)], 'as': ['list', 'array', 'tuple'][int(rng.integers(0, 3))], 'dt1': dt})
    # an operand USED once (in an operation, or sampled) and then changed in place — value-unit conversion `to(<flux unit>)`, assignment
    # of `value`, wavelength-unit conversion — and used AGAIN: the second result must be that of fresh spectra built from the
    # operands as they are now (pointwise clause on the operands' CURRENT values; no state may survive from the first use)
    FU = ['photlam', 'flam', 'wlam']
    for i in range({'quick': 16, 'thorough': 300, 'search': 250}[tier]):
        n1, n2 = int(rng.integers(3, 9)), int(rng.integers(3, 9))
        w1 = inc_grid(rng, n1, start=dyadic(rng, 300, 500, 2), bits=2, maxstep=60.0)
        w2 = inc_grid(rng, n2, start=w1[0] + int(rng.integers(-8, 120)) * 0.25, bits=2, maxstep=60.0)
        vu = FU[int(rng.integers(0, 3))]
        out.append({'kind': 'reuse', 'fn': OPSN[int(rng.integers(0, 3))], 'w1': w1, 'v1': [dyadic(rng, 0.125, 16, 3) for _ in w1], 'w2': w2, 'v2': [dyadic(rng, 0.125, 16, 3) for _ in w2],
                    'vu': vu, 'to': [u for u in FU if u != vu][int(rng.integers(0, 2))], 'which': ['left', 'right'][int(rng.integers(0, 2))],
                    'first': ['op', 'op', 'sample'][int(rng.integers(0, 3))], 'change': ['to-flux', 'to-flux', 'set-value', 'to-wave'][int(rng.integers(0, 4))],
                    'vnew': [dyadic(rng, 0.125, 16, 3) for _ in range(max(n1, n2))], 'wu': [u for u in W if u != 'nm'][int(rng.integers(0, 3))],
                    'method': ['linear', 'linear', 'linear', 'quadratic'][int(rng.integers(0, 4))]})
    return out

def signature(c):
    if c['kind'] == 'reuse': return f"reuse {c['fn']} {c['vu']}>{c['to']} {c['which']} {c['first']} {c['change']} {c['method']} {len(c['w1'])} {len(c['w2'])} {c['w1'][:2]}"
    if c['kind'] == 'reflected': return f"reflected {c['fn']} {c['left']} {len(c['w1'])} {c['w1'][:2]}"
    if c['kind'] == 'pair' and (c.get('method', 'linear') != 'linear' or c.get('vu2', c['vu']) != c['vu']): return f"pair* {c['method']} {c['vu']}/{c.get('vu2')} {c['fn']} {c['sampling']} {c['u1']} {c['u2']} {c['w1'][:2]} {c['w2'][:2]}"
    if c['kind'] == 'bb': return f"bb {c['fn']} {c['u1']} {c['ub']} {c['vu']} {c['temp']} {c['bb_left']} {c['w1'][:2]} {len(c['wb'])}"
    if c['kind'] == 'pair': return f"pair {c.get('dt1')}/{c.get('dt2')} {c['fn']} {c['sampling']} {c['u1']} {c['u2']} {c['vu']} {len(c['w1'])} {len(c['w2'])} {c['w1'][:2]} {c['w2'][:2]}"
    return f"{c['kind']} {c['fn']} {len(c['w1'])} {c.get('c', len(c.get('v', [])))} {c['w1'][:2]}"
def nontrivial(c): return c['kind'] != 'pair' or c.get('rel') == 'fine' or c['w1'] != c['w2'] or c['u1'] != c['u2']
def tags(c):
    t = [c['kind'], 'op:' + c['fn']]
    if c['kind'] == 'reuse': return t + ['reuse:first=' + c['first'], 'reuse:change=' + c['change'], 'reuse:operand=' + c['which'], 'method:' + c['method']]
    if c['kind'] == 'reflected': return t + ['left:' + c['left']]
    if c['kind'] == 'bb': return t + ['bb:' + ('left' if c['bb_left'] else 'right'), 'bb:units=' + ('same' if c['u1'] == c['ub'] else 'mixed')]
    if 'fk' in c: t.append('fill:' + c['fk'])
    t.append('dtype:' + c.get('dt1', 'float') + ('/' + c['dt2'] if 'dt2' in c else ''))
    t += NOTES.pop(id(c), [])
    if c['kind'] == 'pair': t += ['form:' + c.get('form', 'method'), 'method:' + c.get('method', 'linear'), 'value-units:' + ('same' if c.get('vu2', c['vu']) == c['vu'] else 'mixed')]
    if c['kind'] == 'pair': t += ['rel:' + c['rel'], 'sampling:' + str(c['sampling'] if isinstance(c['sampling'], str) else 'float'), 'units:' + ('same' if c['u1'] == c['u2'] else 'mixed')]
    return t

# ------------------------------------------------------------------------------------------ implementation
def _R():
    vlib.import_lentil()
    import lentil.radiometry as R
    return R

DT = {'float': float, 'int': np.int64, 'bool': bool}

def _mk(R, w_nm, v, u, vu, dt='float'):
    f = float(MPU['nm'] / MPU[u])
    k = 1.0 if vu is None else f
    val = np.array(v) / k
    if dt != 'float': val = np.array(v).astype(DT[dt])          # integer-/bool-stored values (only with vu None)
    return R.Spectrum(np.array(w_nm) * f, val, waveunit=u, valueunit=vu)

class _Guard(Exception):
    pass

class guard:
    """run an implementation call under a time limit (20 s) and an address-space limit (+3 GB): a spectrum operation on
    <= 10 samples that needs more has built an absurd grid; report it instead of hanging the check"""
    def __init__(self, seconds=20, extra=3 << 30): self.seconds, self.extra = seconds, extra
    def _alarm(self, *a): raise _Guard(f'call did not finish within {self.seconds} s')
    def __enter__(self):
        import signal, resource
        self.old = signal.signal(signal.SIGALRM, self._alarm); signal.setitimer(signal.ITIMER_REAL, self.seconds)
        self.lim = resource.getrlimit(resource.RLIMIT_AS)
        try:
            used = int(open('/proc/self/statm').read().split()[0]) * resource.getpagesize()
            cap = used + self.extra
            if self.lim[1] != resource.RLIM_INFINITY: cap = min(cap, self.lim[1])
            resource.setrlimit(resource.RLIMIT_AS, (cap, self.lim[1]))
        except Exception:
            pass
        return self
    def __exit__(self, et, ev, tb):
        import signal, resource
        signal.setitimer(signal.ITIMER_REAL, 0); signal.signal(signal.SIGALRM, self.old)
        try: resource.setrlimit(resource.RLIMIT_AS, self.lim)
        except Exception: pass
        if et is not None and issubclass(et, (MemoryError, _Guard)):
            self.msg = f'{et.__name__}: {ev}'[:200]; return True
        self.msg = None
        return False

def _snap(s): return (s.wave.tobytes(), s.value.tobytes(), s.wave.shape, s.value.shape, s.waveunit, s.valueunit)
def _out(r): return {'wave': [float(x) for x in r.wave], 'value': [float(x) for x in r.value], 'wu': r.waveunit, 'vu': r.valueunit}

def _fillkw(c):
    fk = c.get('fk', 'float')
    return {} if fk in ('default', 'pair') else {'fill_value': int(c['fill']) if fk == 'int' else c['fill']}

import operator
OPER = {'add': operator.add, 'subtract': operator.sub, 'multiply': operator.mul, 'divide': operator.truediv, 'power': operator.pow}

def _call(s1, fn, other, form='method', **kw):
    if fn == 'rmul': return other * s1
    # the real operators (+ - * / **) take no options: usable when sampling and fill are the defaults
    if form == 'operator' and kw.get('sampling', 'min') == 'min' and 'fill_value' not in kw and 'method' not in kw: return OPER[fn](s1, other)
    if form == 'method+kw' and 'method' not in kw: kw = dict(kw, method='linear')
    return getattr(s1, fn)(other, **kw)

def _reuse(c, R):
    """a, b; first use; change ONE operand in place; second use; the same operation on fresh spectra built from the operands' current data"""
    dens, plain = ('left', 'right') if c['which'] == 'left' else ('right', 'left')
    sp = {'left': R.Spectrum(np.array(c['w1']), np.array(c['v1']), waveunit='nm', valueunit=c['vu'] if dens == 'left' else None),
          'right': R.Spectrum(np.array(c['w2']), np.array(c['v2']), waveunit='nm', valueunit=c['vu'] if dens == 'right' else None)}
    kw = {} if c['method'] == 'linear' else {'method': c['method']}
    op = lambda x, y: getattr(x, c['fn'])(y, **kw)
    fresh = lambda s_: R.Spectrum(np.array(s_.wave, dtype=float).copy(), np.array(s_.value, dtype=float).copy(), waveunit=s_.waveunit, valueunit=s_.valueunit)
    o = {}
    try:
        t = sp[dens]
        if c['first'] == 'op': o['r1'] = _out(op(sp['left'], sp['right']))
        else: o['r1s'] = [float(x) for x in t.sample(np.array(t.wave[:-1]) + 0.125, waveunit='nm', **kw)]
        if c['change'] == 'to-flux': t.to(c['to'])
        elif c['change'] == 'to-wave': t.to(c['wu'])
        else: t.value = np.array(c['vnew'][:len(t.wave)])
        o['r2'] = _out(op(sp['left'], sp['right']))
        o['r2_fresh'] = _out(op(fresh(sp['left']), fresh(sp['right'])))
        o['left'], o['right'] = _out(sp['left']), _out(sp['right'])
    except Exception as e:
        o['exc'] = type(e).__name__; o['msg'] = str(e)[:120]
    return o

def _oracle_reuse(c, io):
    if 'exc' in io: return f"reuse: {io['exc']}: {io.get('msg')}"
    a, b = io['r2'], io['r2_fresh']
    if (a['wu'], a['vu']) != (b['wu'], b['vu']): return f"second use: units {a['wu']},{a['vu']} but {b['wu']},{b['vu']} from fresh copies of the operands"
    if len(a['wave']) != len(b['wave']) or any(abs(x - y) > 1e-12 * (1 + abs(y)) for x, y in zip(a['wave'], b['wave'])):
        return f"second use: grid {a['wave'][:4]}… differs from the grid of fresh copies {b['wave'][:4]}…"
    sc = max([abs(y) for y in b['value']] + [1e-300])
    bad = [(i, x, y) for i, (x, y) in enumerate(zip(a['value'], b['value'])) if not abs(x - y) <= 1e-9 * sc]
    if bad:
        i, x, y = bad[0]
        return (f"an operand used before and then changed in place ({c['change']}, {c['which']} operand, first use: {c['first']}) is not seen with its current values: "
                f"{c['fn']} gives {x!r} at grid point {i} (λ={a['wave'][i]}), fresh copies of the same operands give {y!r} ({len(bad)} of {len(b['value'])} points differ)")
    if c['method'] == 'linear':
        # independent pointwise reference on the operands' CURRENT data (both in the left operand's wavelength unit)
        L, Rr = io['left'], io['right']
        k = float(MPU[Rr['wu']] / MPU[L['wu']])
        rw = [x * k for x in Rr['wave']]
        rv = [v / k for v in Rr['value']] if Rr['vu'] is not None else Rr['value']
        g = np.array(a['wave'])
        tol = 1e-9 * (g[1] - g[0]) if len(g) > 1 else 0.0
        f = lambda xs, ys: np.where((g >= xs[0] - tol) & (g <= xs[-1] + tol), np.interp(np.clip(g, xs[0], xs[-1]), xs, ys), 0.0)
        ref = {'add': np.add, 'subtract': np.subtract, 'multiply': np.multiply, 'divide': np.divide}[c['fn']](f(L['wave'], L['value']), f(rw, rv))
        sc = max(float(np.max(np.abs(ref))), 1e-300)
        d = np.abs(np.array(a['value']) - ref)
        if not np.all(d <= 1e-7 * sc): 
            i = int(np.argmax(d))
            return f"second use is not op(interp(a), interp(b)) of the operands' current values: {a['value'][i]!r} vs {float(ref[i])!r} at λ={a['wave'][i]} ({c['change']}, first use: {c['first']})"
    return None

def impl(c):
    R = _R()
    with warnings.catch_warnings():
        warnings.simplefilter('ignore')
        k = c['kind']
        if k == 'reuse': return _reuse(c, R)
        if k == 'pair':
            s1, s2 = _mk(R, c['w1'], c['v1'], c['u1'], c['vu'], c.get('dt1', 'float')), _mk(R, c['w2'], c['v2'], c['u2'], c.get('vu2', c['vu']), c.get('dt2', 'float'))
            o = {'s1': _out(s1), 's2': _out(s2)}
            g = guard()
            with g:
                _pair(c, R, s1, s2, o)
            if g.msg: return {'guard': g.msg, 's1': o['s1'], 's2': o['s2']}
            return o
        if k == 'bb':
            f1 = float(MPU['nm'] / MPU[c['u1']]); fb = float(MPU['nm'] / MPU[c['ub']])
            s1 = R.Spectrum(np.array(c['w1']) * f1, np.array(c['v1']), waveunit=c['u1'], valueunit=c['vu'])
            bb = R.Blackbody(np.array(c['wb']) * fb, c['temp'], waveunit=c['ub'], valueunit=c['vu'])
            a, b = (bb, s1) if c['bb_left'] else (s1, bb)
            snaps = (_snap(a), _snap(b))
            o = {}
            g = guard()
            with g:
                r = getattr(a, c['fn'])(b, sampling=c['sampling'])
                o = {'res': _out(r), 'unchanged': (_snap(a) == snaps[0], _snap(b) == snaps[1]), 'H': R.H, 'C': R.C, 'K': R.K}
            if g.msg: return {'guard': g.msg}
            return o
        if k == 'reflected':
            s1 = R.Spectrum(np.array(c['w1']), np.array(c['v1']))
            left = {'ndarray': np.array(c['lv']), 'i64arr': np.array(c['lv']).astype(np.int64), 'list': list(c['lv']), 'f64': np.float64(c['c']), 'float': float(c['c']),
                    'int': int(c['c']), '0d': np.array(c['c'])}[c['left']]
            b1 = _snap(s1)
            o = {}
            try:
                r = OPER[c['fn']](left, s1)
                o['type'] = type(r).__name__
                if isinstance(r, R.Spectrum): o['res'] = _out(r)
                else: o['repr'] = (str(getattr(r, 'dtype', '')), str(getattr(r, 'shape', '')))
            except TypeError:
                o['exc'] = 'TypeError'
            if c['fn'] == 'multiply':
                o['comm'] = _out(OPER['multiply'](s1, left))
            o['unchanged'] = _snap(s1) == b1
            return o
        s1 = R.Spectrum(np.array(c['w1']), np.array(c['v1']).astype(DT[c.get('dt1', 'float')]))
        return _single(c, R, s1)

def _pair(c, R, s1, s2, o):
            b1, b2 = _snap(s1), _snap(s2)
            smp = c['sampling'] if isinstance(c['sampling'], str) else c['sampling'] * float(MPU['nm'] / MPU[c['u1']])
            o['sampling'] = smp
            kw = dict({'sampling': smp}, **_fillkw(c))
            if c.get('method', 'linear') != 'linear': kw['method'] = c['method']
            mk = {'method': c['method']} if c.get('method', 'linear') != 'linear' else {}
            if c.get('fk') == 'pair':
                o['pair_n'] = len(s1.add(s2).wave)          # the probe uses the default sampling: its own common grid
                try:
                    s1.add(s2, fill_value=(0.5, 2.0)); o['pair'] = 'accepted'
                except ValueError:
                    o['pair'] = 'ValueError'
                NOTES[id(c)] = ['fill-pair:' + o['pair']]
            r = _call(s1, c['fn'], s2, form=c.get('form', 'method'), **kw)
            o['res'] = _out(r); o['new'] = (r is not s1) and (r is not s2) and not np.shares_memory(r.value, s1.value) and not np.shares_memory(r.value, s2.value)
            o['unchanged'] = (_snap(s1) == b1, _snap(s2) == b2)
            sw = {'left': 'right', 'right': 'left'}.get(c['sampling'], c['sampling']) if isinstance(c['sampling'], str) else c['sampling'] * float(MPU['nm'] / MPU[c['u2']])
            if c['fn'] in ('add', 'multiply') and (c['vu'] is None or c['u1'] == c['u2']) and c.get('vu2', c['vu']) == c['vu']:
                r2 = _call(s2, c['fn'], s1, sampling=sw, **_fillkw(c), **mk)
                r2.to(c['u1'])
                o['swapped'] = _out(r2)
            o['units'] = {}
            for u in W:
                a, b = s1.copy(), s2.copy(); a.to(u); b.to(u)
                smu = c['sampling'] if isinstance(c['sampling'], str) else c['sampling'] * float(MPU['nm'] / MPU[u])
                o['units'][u] = _out(_call(a, c['fn'], b, sampling=smu, **_fillkw(c), **mk))
            return o

def _single(c, R, s1):
        k = c['kind']
        b1 = _snap(s1)
        if k == 'scalar':
            cc = int(c['c']) if c['as_int'] else c['c']
            if c.get('np_scalar'):
                cc = getattr(np, c['np_scalar'])(1 if c['np_scalar'] == 'bool_' else c['c'])
                NOTES[id(c)] = ['scalar:numpy-type:' + c['np_scalar']]
                try:
                    r = _call(s1, c['fn'], cc)
                except TypeError as e:
                    return {'exc': 'TypeError', 'msg': str(e)[:80], 'unchanged': _snap(s1) == b1}
                return {'res': _out(r), 'new': r is not s1, 'unchanged': _snap(s1) == b1}
            r = _call(s1, c['fn'], cc, form='operator' if c['fn'] != 'rmul' and int(c['c'] * 8) % 2 == 0 else 'method')
            if np.shares_memory(r.wave, s1.wave): NOTES[id(c)] = ['result-grid-aliases-operand']
            return {'res': _out(r), 'new': r is not s1, 'unchanged': _snap(s1) == b1}
        v = {'list': list, 'tuple': tuple, 'array': np.array}[c['as']](c['v'])
        try:
            r = _call(s1, c['fn'], v)
            return {'res': _out(r), 'new': r is not s1, 'unchanged': _snap(s1) == b1}
        except ValueError:
            return {'exc': 'ValueError', 'unchanged': _snap(s1) == b1}

def requests(c, io):
    if '_harness_exc' in io or 'guard' in io: return []
    k = c['kind']
    if k in ('bb', 'reuse'): return []
    if k == 'reflected':
        if 'res' not in io or c['fn'] != 'multiply': return []
        s1 = {'wave': qs(c['w1']), 'value': qs(c['v1'])}
        if c['left'] in ('ndarray', 'list', 'i64arr'): return [{'op': 'c13.vector', 'fn': 'multiply', 's1': s1, 'v': qs(c['lv'])}]
        return [{'op': 'c13.scalar', 'fn': 'multiply', 's1': s1, 'c': q(c['c'])}]
    if k == 'pair' and (len(io['res']['wave']) > 6000 or c.get('method', 'linear') != 'linear'): return []      # very fine grids: oracle only (grid laws + pointwise recomputation)
    if k == 'pair':
        sp = lambda o: {'wave': qs(o['wave']), 'value': qs(o['value']), 'wu': o['wu'], 'vu': o['vu']}
        sm = c['sampling'] if isinstance(c['sampling'], str) else q(io['sampling'])
        return [{'op': 'c13.ufunc', 'fn': c['fn'], 's1': sp(io['s1']), 's2': sp(io['s2']), 'sampling': sm, 'fill': q(c['fill'])}]
    s1 = {'wave': qs(c['w1']), 'value': qs(c['v1'])}
    fn = 'multiply' if c['fn'] == 'rmul' else c['fn']
    if k == 'scalar':
        return [{'op': 'c13.scalar', 'fn': fn, 's1': s1, 'c': q(1.0 if c.get('np_scalar') == 'bool_' else c['c'])}]
    return [{'op': 'c13.vector', 'fn': fn, 's1': s1, 'v': qs(c['v'])}]

def _fl(ps): return [float(unq(p)) for p in ps]

def compare(c, io, mo):
    if 'guard' in io or not mo: return None
    if c['kind'] == 'reflected' and 'res' not in io: return None
    m = mo[0]
    if 'exc' in io: return None if (not m.get('ok') and m.get('err') == io['exc']) else f"impl raised {io['exc']}, model {str(m)[:100]}"
    if not m.get('ok'): return f"model refused ({m.get('err')}), implementation answered"
    r = io['res']
    mw, mv = _fl(m['wave']), _fl(m['value'])
    if len(mw) != len(r['wave']): return f"grid length: impl {len(r['wave'])} model {len(mw)} (impl {r['wave'][:3]}…{r['wave'][-1]}, model {mw[:3]}…{mw[-1]})"
    if not all_close(mw, r['wave'], 1e-11): return f"grid: impl {r['wave']} model {mw}"
    scale = 1.0 + max([abs(x) for x in r['value']] + [0.0])
    if not all_close(mv, r['value'], 1e-9, 1e-9 * scale): return f"values: impl {r['value']} model {mv}"
    if c['kind'] == 'pair' and (m['wu'] != r['wu'] or m['vu'] != r['vu']): return f"units: impl {r['wu']},{r['vu']} model {m['wu']},{m['vu']}"
    return None

# ------------------------------------------------------------------------------------------ oracle
NOTES = {}
NP = {'add': np.add, 'subtract': np.subtract, 'multiply': np.multiply, 'divide': np.true_divide, 'power': np.power, 'rmul': np.multiply}

def _planck_ref(lam_nm, T, u, vu, H, C, K):
    """Planck radiance at lam_nm, as a density per unit `u` in flux unit `vu`, from the physical formula"""
    lam = lam_nm * 1e-9
    L = 2 * H * C ** 2 / (lam ** 5 * (np.exp(H * C / (lam * K * T)) - 1))           # W m^-2 sr^-1 m^-1
    per_w = {'photlam': H * C / lam, 'flam': 1e-3, 'wlam': 1.0}[vu]
    return L / per_w * float(MPU[u])

def _oracle_bb(c, io):
    r = io['res']
    lead_u = c['ub'] if c['bb_left'] else c['u1']
    if r['wu'] != lead_u or r['vu'] != c['vu']: return f"result units {r['wu']},{r['vu']}"
    if not all(io['unchanged']): return 'an operand was changed by the operation'
    fl = float(MPU[lead_u] / MPU['nm'])
    g = np.array(r['wave']) * fl                       # grid in nm
    w1, wb = np.array(c['w1']), np.array(c['wb'])
    lo, hi = min(w1[0], wb[0]), max(w1[-1], wb[-1])
    if not close(g[0], lo, 1e-12) or not close(g[-1], hi, 1e-12): return f'grid spans [{g[0]}, {g[-1]}] nm, union of the ranges is [{lo}, {hi}]'
    dmin = min(np.diff(w1).min(), np.diff(wb).min())
    tol = 1e-6 * dmin
    kden = float(MPU[lead_u] / MPU[c['u1']])           # s1's density per u1 -> per lead unit
    for i, x in enumerate(g):
        if any(0 < abs(x - e) < 2 * tol for e in (w1[0], w1[-1], wb[0], wb[-1])): continue
        a = 0.0 if (x < w1[0] - tol or x > w1[-1] + tol) else float(np.interp(min(max(x, w1[0]), w1[-1]), w1, np.array(c['v1']))) * kden
        # the Blackbody operand is analytic: its sample() evaluates Planck's law, it does not interpolate its stored grid
        b = 0.0 if (x < wb[0] - tol or x > wb[-1] + tol) else _planck_ref(min(max(x, wb[0]), wb[-1]), c['temp'], lead_u, c['vu'], io['H'], io['C'], io['K'])
        want = float(NP[c['fn']](b, a) if c['bb_left'] else NP[c['fn']](a, b))
        if not close(r['value'][i], want, 1e-9, 1e-12 * (1 + abs(want))):
            return (f"{'Blackbody' if c['bb_left'] else 'Spectrum'}[{lead_u}] {c['fn']} {'Spectrum' if c['bb_left'] else 'Blackbody'}[{c['u1'] if c['bb_left'] else c['ub']}]: value at {x} nm is {r['value'][i]!r}; "
                    f"{c['fn']} of the operands there (Blackbody = Planck's law at {c['temp']} K) is {want!r}")
    return None

def _oracle_reflected(c, io):
    sym = {'add': '+', 'subtract': '-', 'multiply': '*', 'divide': '/', 'power': '**'}[c['fn']]
    what = f"{c['left']} {sym} Spectrum"
    if not io['unchanged']: return f'{what}: the spectrum operand was changed'
    lv = np.array(c['lv']) if c['left'] in ('ndarray', 'list', 'i64arr') else c['c']
    if 'exc' in io:
        # only * has a reflected form today (__rmul__); the other operators may refuse, but must not return a non-spectrum
        return None if c['fn'] != 'multiply' else f'{what} raised TypeError'
    if io['type'] != 'Spectrum': return f"{what} returned a {io['type']} {io.get('repr')} instead of one element-wise Spectrum"
    r = io['res']
    if r['wave'] != c['w1']: return f'{what}: wavelength grid changed'
    want = NP[c['fn']](lv, np.array(c['v1']))
    if not all_close(r['value'], list(np.broadcast_to(want, (len(c['w1']),))), 1e-14): return f"{what} is not element-wise: {r['value']} vs {list(want)}"
    if 'comm' in io and (io['comm']['wave'] != r['wave'] or not all_close(io['comm']['value'], r['value'], 1e-15)): return f'{what} differs from Spectrum * {c["left"]}'
    return None

def oracle(c, io):
    k = c['kind']
    if k == 'reflected': return _oracle_reflected(c, io)
    if k == 'reuse': return _oracle_reuse(c, io)
    if k == 'bb' and 'guard' not in io: return _oracle_bb(c, io)
    if 'guard' in io:
        return ('grid does not span the union at the requested sampling: the operation on %d and %d samples tried to build an absurd grid (%s)'
                % (len(c['w1']), len(c.get('w2', [])), io['guard']))
    if k != 'pair':
        if 'exc' in io:
            if k == 'vector' and len(c['v']) not in (len(c['w1']), 1): return None if io['unchanged'] else 'refused operation changed the operand'
            return f"{c['fn']} with a {k}" + (f" (np.{c['np_scalar']}({c['c']}) on the right)" if c.get('np_scalar') else '') + f" raised {io['exc']}: {io.get('msg', '')}"
        r = io['res']
        if r['wave'] != c['w1']: return 'scalar/vector operand changed the wavelength grid'
        other = (1.0 if c.get('np_scalar') == 'bool_' else c['c']) if k == 'scalar' else np.array(c['v'])
        want = NP[c['fn']](np.array(c['v1']), other)
        if not all_close(r['value'], list(np.broadcast_to(want, (len(c['w1']),))), 1e-14): return f"{c['fn']} with a {k} is not element-wise: {r['value']} vs {list(want)}"
        if not io['new']: return 'result is not a new spectrum'
        if not io['unchanged']: return 'operand changed'
        return None
    r = io['res']
    atol = 1e-9 * (1.0 + max([abs(x) for x in r['value'] if np.isfinite(x)] + [0.0]))      # a grid point 1 ulp off a steep knot
    if not io['new']: return 'result is not a new spectrum'
    if not io['unchanged'][0]: return 'left operand changed by the operation'
    if not io['unchanged'][1]: return 'right operand changed by the operation'
    if r['wu'] != c['u1'] or r['vu'] != c['vu']: return f"result units {r['wu']},{r['vu']}"
    # physical description of both operands in nm, independent of lentil's unit code
    f1 = float(MPU[c['u1']] / MPU['nm'])
    g = np.array(r['wave']) * f1                                   # result grid in nm
    kden = 1.0 if c['vu'] is None else f1
    w1, w2 = np.array(c['w1']), np.array(c['w2'])
    d1, d2 = np.diff(w1).min(), np.diff(w2).min()
    sm = c['sampling']
    dw = min(d1, d2) if sm == 'min' else d1 if sm == 'left' else d2 if sm == 'right' else sm
    lo, hi = min(w1[0], w2[0]), max(w1[-1], w2[-1])
    if not close(g[0], lo, 1e-12) or not close(g[-1], hi, 1e-12): return f'grid spans [{g[0]}, {g[-1]}] nm, union of the ranges is [{lo}, {hi}]'
    if len(g) > 1:
        st = np.diff(g)
        if np.max(np.abs(st - st[0])) > 1e-9 * dw: return 'grid is not uniform'
        if st[0] > dw * (1 + 1e-9): return f'grid step {st[0]} nm exceeds the requested sampling {dw}'
        n = int(np.ceil((hi - lo) / dw - 1e-6))
        if len(g) - 1 != max(n, 1) and abs((hi - lo) / dw - round((hi - lo) / dw)) > 1e-6: return f'grid has {len(g) - 1} intervals, ceil(span/Δ) = {n}'
    tol = 1e-6 * dw
    def S(w, v):
        inside = (g >= w[0] - tol) & (g <= w[-1] + tol)
        return np.where(inside, np.interp(np.clip(g, w[0], w[-1]), w, v), c['fill']), inside
    a, in1 = S(w1, np.array(c['v1'], dtype=float))
    b, in2 = S(w2, np.array(c['v2'], dtype=float))
    if c['vu'] is not None:
        # densities are stored per unit of the left operand; fill values are not rescaled
        a = np.where(in1, a * kden, a); b = np.where(in2, b * kden, b)
    with np.errstate(all='ignore'):
        want = NP[c['fn']](a, b)
    near_edge = np.zeros(len(g), dtype=bool)
    for e in (w1[0], w1[-1], w2[0], w2[-1]):
        near_edge |= (np.abs(g - e) < 2 * tol) & (np.abs(g - e) > 0)
    got = np.array(r['value'])
    if c.get('method', 'linear') != 'linear':
        # splines: recompute each operand with an independent scipy interp1d of the requested kind on the clipped grid
        import scipy.interpolate
        def Sk(w, v, inside):
            f = scipy.interpolate.interp1d(w, v, kind=c['method'], bounds_error=False, fill_value=c['fill'])
            return np.where(inside, f(np.clip(g, w[0], w[-1])), c['fill'])
        a = Sk(w1, np.array(c['v1'], dtype=float), in1); b = Sk(w2, np.array(c['v2'], dtype=float), in2)
        if c['vu'] is not None: a = np.where(in1, a * kden, a); b = np.where(in2, b * kden, b)
        with np.errstate(all='ignore'):
            want = NP[c['fn']](a, b)
    bad = ~near_edge & ~((got == want) | (np.abs(got - want) <= 1e-9 * np.maximum(np.abs(got), np.abs(want)) + atol))
    if bad.any():
        i = int(np.argmax(bad))
        return f"value at {g[i]} nm is {r['value'][i]!r}; {c['fn']}(S1, S2) = {c['fn']}({a[i]!r}, {b[i]!r}) = {float(want[i])!r}"
    if 'pair' in io and io['pair'] != ('accepted' if io['pair_n'] == 2 else 'ValueError'):
        return f"fill_value=(0.5, 2.0) on a common grid of {io['pair_n']} points: {io['pair']} (today: accepted exactly for 2 points, ValueError otherwise)"
    if 'swapped' in io:
        s = io['swapped']
        if len(s['wave']) != len(r['wave']) or not all_close(s['wave'], r['wave'], 1e-12) or not all_close(s['value'], r['value'], 1e-9, atol):
            return f"{c['fn']} is not commutative: a∘b = {r['value']}, b∘a = {s['value']}"
    if c['vu'] is None or (c['fill'] == 0 and c['fn'] != 'divide'):
        # densities (per unit wavelength) rescale by the unit factor: once for sums, twice for products; fill 0 only, because a
        # non-zero fill value is a number in whatever unit the operands happen to be in
        pw = 0 if c['vu'] is None else {'add': 1, 'subtract': 1, 'multiply': 2}[c['fn']]
        for u, ru in io['units'].items():
            fu = float(MPU[c['u1']] / MPU[u])
            if pw: ru = dict(ru, value=[x * fu ** pw for x in ru['value']])
            if ru['wu'] != u: return f'result of operands in {u} is in {ru["wu"]}'
            if len(ru['wave']) != len(r['wave']) or not all_close(ru['wave'], [x * fu for x in r['wave']], 1e-12) or not all_close(ru['value'], r['value'], 1e-9, atol):
                return f"outcome depends on the unit: operands in {u} give {len(ru['wave'])} samples {ru['value'][:4]}…, in {c['u1']},{c['u2']}: {len(r['wave'])} samples {r['value'][:4]}…"
    return None
