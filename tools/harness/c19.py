"""C19 — pixel, jitter and smear blurs are flux-preserving convolutions on any shape.

Tie: Model/Blur.lean (kernels from the fftfreq index map, |ifft2(fft2(img)·K)|, renormalisation) run at doubles by the
driver (op c19.blur) and compared with the real lentil.detector.pixel / lentil.convolvable.jitter / smear.
Oracle: independent Fourier-domain convolution with the analytic transfer function (frequency index map restated here),
shape, non-negativity, commutation with np.roll, zero-extent identity, preserved total, physical-units equivalence."""
import numpy as np
import vlib
from vlib import fbits, bitsf

LEVEL_TEXT = ('Lean 4 theorems about the executable blur model at ℂ/ℝ for all image shapes (square or not), extents, angles, pixel '
              'scales and oversampling factors: kernel and output have the image shape; each transfer function has gain 1 at zero '
              'frequency; outputs are non-negative; blurs commute with circular shifts (DFT shift theorem); zero extent gives the all-ones kernel and the identity on non-negative images; '
              'the renormalised (jitter, smear) output keeps the input total; only extent/pixelscale·oversample enters. The same '
              'model is run at doubles against the real functions on every check.')
LEVEL_NOTE = ('Partial: "equals the exact circular convolution when that is non-negative (up to the unpaired Nyquist sample on even '
              'axes)" is proved only conditionally on the convolution being real; Hermitian symmetry / the Nyquist remainder have no '
              'theorem and are evaluated on the real code by the oracle on every case. Trusted: np.fft.fft2/ifft2 are the plain DFT pair with origin at index 0, np.fft.fftfreq follows its '
              'documented index map, np.sinc/np.exp/np.abs as named; rounding not modelled.')
TECHNIQUE = 'Lean 4 proof (Finset sums, roots-of-unity orthogonality, sinc/exp at 0) over a generic executable model + differential correspondence'
GEN = []
OPS = ['C01', 'C05', 'C19']
RULE = ('cases: non-negative images with rows, cols drawn independently from 1..8 (thorough 1..12; forced 1xn, nx1, even/odd, non-square), '
        'smooth-positive / sparse point-source / constant images; pixel with oversample 1..5, jitter with scale 0..1.5 px, smear with '
        'distance 0..4 px and angle in [0,360) incl. 0/45/90; extents also given in physical units with a pixel scale; circular shifts '
        'of either sign; zero extent. distinct = (kind, shape, parameters, roll); non-trivial = non-square or oversample ≠ 1 or '
        'physical units (outside what the test-suite samples)')
TRUSTED = ['np.fft.fft2 / ifft2 are the un-normalised DFT and its inverse with origin at index 0; np.fft.fftfreq(n) = [0,1,…,⌈n/2⌉-1,-⌊n/2⌋,…,-1]/n; '
           'np.sinc(x) = sin(πx)/(πx); np.meshgrid(x, y) puts x along columns (all modelled in Model/Blur.lean, observed through the correspondence)']
UNPROVEN = ['equals_convolution_when_hermitian: that c = ifft2(fft2(img)·K) is real (Hermitian symmetry of the transfer functions on odd '
            'axes), the bound on the deviation from the unpaired Nyquist row/column on even axes, and the spatial-domain form of the '
            'circular convolution — only the conditional nonneg_convolution_kept_partial is proved; the clause is evaluated by the '
            'oracle against an independent Fourier-domain convolution on every case']
ASSUMPTIONS = ['images are non-negative with positive total (an all-zero image makes jitter/smear return 0/0)', 'shapes at least 1x1',
               'pixelscale ≠ 0; smear angle is given (angle=None draws a random direction and is not covered)']

TOL = 1e-9


# ------------------------------------------------------------------------------------------ generation
def _shape(rng, kmax):
    t = rng.integers(0, 8)
    if t == 0: return (1, int(rng.integers(1, kmax + 1)))
    if t == 1: return (int(rng.integers(1, kmax + 1)), 1)
    if t == 2:
        k = int(rng.integers(1, kmax + 1)); return (k, k)
    return (int(rng.integers(1, kmax + 1)), int(rng.integers(1, kmax + 1)))

def _img(rng, shape):
    m, n = shape
    t = rng.integers(0, 4)
    if t == 0:
        a = rng.uniform(0.5, 1.5, (m, n))                                  # positive with background
    elif t == 1:
        a = np.zeros((m, n)); k = int(rng.integers(1, 4))                   # sparse point sources
        for _ in range(k): a[int(rng.integers(0, m)), int(rng.integers(0, n))] += float(rng.uniform(0.5, 5))
    elif t == 2:
        a = np.full((m, n), float(rng.uniform(0.5, 3)))                     # constant
    else:
        a = rng.uniform(0, 1, (m, n)) * (rng.uniform(size=(m, n)) < 0.6)
        if not a.any(): a[0, 0] = 1.0
    return [float(x) for x in a.ravel()]

def _case(rng, kmax):
    kind = ['pixel', 'jitter', 'smear'][int(rng.integers(0, 3))]
    shape = _shape(rng, kmax)
    c = {'kind': kind, 'shape': list(shape), 'img': _img(rng, shape), 'oversample': int(rng.integers(1, 6)),
         'pixelscale': 1.0 if rng.integers(0, 2) else float(rng.uniform(2e-6, 2e-5)),
         'roll': [int(rng.integers(-shape[0] - 1, shape[0] + 2)), int(rng.integers(-shape[1] - 1, shape[1] + 2))]}
    if kind == 'pixel':
        c['pixelscale'] = 1.0; c['extent'] = None
    elif kind == 'jitter':
        c['extent_px'] = float(rng.uniform(0, 1.5)) / c['oversample']      # 1-sigma in detector pixels
    else:
        c['extent_px'] = float(rng.uniform(0, 4)) / c['oversample']
        c['angle'] = [0.0, 90.0, 45.0, 180.0][int(rng.integers(0, 4))] if rng.integers(0, 3) == 0 else float(rng.uniform(0, 360))
    if kind != 'pixel': c['extent'] = c['extent_px'] * c['pixelscale']
    return c

def generate(rng, tier):
    n, kmax = {'quick': (150, 8), 'thorough': (3000, 12), 'search': (800, 8)}[tier]
    return [_case(rng, kmax) for _ in range(n)]

def signature(c):
    return f"{c['kind']} {c['shape']} os={c['oversample']} ps={c['pixelscale']} e={c.get('extent')} a={c.get('angle')} roll={c['roll']} {vlib.jhash(c['img'])}"

def nontrivial(c):
    return c['shape'][0] != c['shape'][1] or c['oversample'] != 1 or c['pixelscale'] != 1.0

def tags(c):
    t = [c['kind'], f"os={c['oversample']}"]
    m, n = c['shape']
    if m != n: t.append('non-square')
    if m == 1 or n == 1: t.append('single-row/col')
    t.append('parity:' + ('e' if m % 2 == 0 else 'o') + ('e' if n % 2 == 0 else 'o'))
    if c['pixelscale'] != 1.0: t.append('physical-units')
    return t

def shrink(c):
    if c['roll'] != [0, 0]: yield {**c, 'roll': [0, 0]}
    if c['pixelscale'] != 1.0 and c['kind'] != 'pixel': yield {**c, 'pixelscale': 1.0, 'extent': c['extent_px']}
    if any(x != round(x) for x in c['img']): yield {**c, 'img': [float(round(x + 0.5)) for x in c['img']]}


# ------------------------------------------------------------------------------------------ implementation
def _image(c): return np.array(c['img'], dtype=float).reshape(c['shape'])

def _run(c, img, extent=None, pixelscale=None, oversample=None):
    lentil = vlib.import_lentil()
    import lentil.detector, lentil.convolvable
    os_ = c['oversample'] if oversample is None else oversample
    ps = c['pixelscale'] if pixelscale is None else pixelscale
    e = c.get('extent') if extent is None else extent
    if c['kind'] == 'pixel': return lentil.detector.pixel(img.copy(), oversample=os_)
    if c['kind'] == 'jitter': return lentil.convolvable.jitter(img.copy(), e, pixelscale=ps, oversample=os_)
    return lentil.convolvable.smear(img.copy(), e, angle=c['angle'], pixelscale=ps, oversample=os_)

def _pack(a):
    a = np.asarray(a)
    return {'shape': list(a.shape), 'v': [float(x) for x in a.ravel()], 'dtype': str(a.dtype)}

def impl(c):
    img = _image(c)
    def guarded(f):
        try: return _pack(f())
        except Exception as e: return {'exc': type(e).__name__, 'msg': str(e)[:200]}
    res = {'out': guarded(lambda: _run(c, img)),
           'rolled': guarded(lambda: _run(c, np.roll(img, tuple(c['roll']), axis=(0, 1))))}
    if c['kind'] == 'pixel':
        res['zero'] = guarded(lambda: _run(c, img, oversample=0))
    else:
        res['zero'] = guarded(lambda: _run(c, img, extent=0.0))
        # the same extent expressed in samples: extent/pixelscale*oversample with pixelscale = oversample = 1
        res['units'] = guarded(lambda: _run(c, img, extent=c['extent'] / c['pixelscale'] * c['oversample'], pixelscale=1, oversample=1))
    return res

def requests(c, io):
    r = {'op': 'c19.blur', 'kind': c['kind'], 'shape': c['shape'], 'v': [fbits(x) for x in c['img']],
         'pixelscale': fbits(c['pixelscale']), 'oversample': fbits(float(c['oversample']))}
    if c['kind'] != 'pixel': r['extent'] = fbits(c['extent'])
    if c['kind'] == 'smear': r['angle'] = fbits(c['angle'])
    return [r]

def _arr(d): return np.array(d['v'], dtype=float).reshape(d['shape'])

def compare(c, io, mo):
    m = mo[0]
    if not m.get('ok'): return f"model refused: {m.get('err')}"
    if 'exc' in io['out']: return f"implementation raised {io['out']['exc']}: {io['out'].get('msg')}; the model answered"
    got = _arr(io['out']); want = np.array([bitsf(x) for x in m['out']['v']]).reshape(m['out']['shape'])
    if got.shape != want.shape: return f'shape impl {got.shape} model {want.shape}'
    tol = TOL * (1 + float(np.sum(np.abs(_image(c)))))
    d = float(np.max(np.abs(got - want)))
    return None if d <= tol else f'max |impl - model| = {d:.3e} > {tol:.1e}'


# ------------------------------------------------------------------------------------------ oracle (real code only)
def _freq(n):
    """fftfreq restated: sample i has integer frequency i for i < ceil(n/2), else i - n"""
    k = np.array([i if i < (n + 1) // 2 else i - n for i in range(n)], dtype=float)
    return k / n

def transfer(c):
    """analytic transfer function on the (rows ↔ f_y, cols ↔ f_x) frequency grid"""
    m, n = c['shape']
    fy = _freq(m)[:, None] * np.ones((1, n)); fx = np.ones((m, 1)) * _freq(n)[None, :]
    os_ = c['oversample']
    if c['kind'] == 'pixel': return np.sinc(fy * os_) * np.sinc(fx * os_)
    w = c['extent_px'] * os_                                  # extent in samples
    if c['kind'] == 'jitter': return np.exp(-2 * np.pi ** 2 * w ** 2 * (fx ** 2 + fy ** 2))
    a = np.deg2rad(c['angle'])
    return np.sinc((np.sin(a) * fy + np.cos(a) * fx) * w)

def _dft_mats(n):
    k = np.arange(n)
    return np.exp(-2j * np.pi * np.outer(k, k) / n)

def ref_convolution(c):
    """exact circular convolution with the kernel whose DFT is the transfer function, by explicit DFT matrices"""
    img = _image(c); m, n = img.shape
    Wm, Wn = _dft_mats(m), _dft_mats(n)
    X = Wm @ img @ Wn
    return (np.conj(Wm) @ (X * transfer(c)) @ np.conj(Wn)) / (m * n)

def oracle(c, io):
    img = _image(c); S = float(img.sum()); tol = TOL * (1 + S)
    for k, d in io.items():
        if 'exc' in d: return f"{c['kind']}[{k}] raised {d['exc']}: {d.get('msg')} on a {c['shape']} image"
    out = _arr(io['out'])
    for k, d in io.items():
        a = _arr(d)
        if a.shape != img.shape: return f"{k}: output shape {a.shape} != image shape {img.shape}"
        if not np.all(np.isfinite(a)): return f'{k}: non-finite output'
        if a.min() < 0: return f'{k}: negative output {a.min()}'
    K = transfer(c)
    if abs(K[0, 0] - 1) > 1e-12: return f'transfer function gain at zero frequency is {K[0, 0]}'
    d = float(np.max(np.abs(_arr(io['rolled']) - np.roll(out, tuple(c['roll']), axis=(0, 1)))))
    if not d <= tol: return f"does not commute with circular shift {c['roll']}: differs by {d:.3e}"
    d = float(np.max(np.abs(_arr(io['zero']) - img)))
    if not d <= tol: return f'zero extent is not the identity: differs by {d:.3e}'
    if c['kind'] != 'pixel':
        if not abs(out.sum() - S) <= tol: return f'total not preserved: {S} -> {out.sum()}'
        d = float(np.max(np.abs(_arr(io['units']) - out)))
        if not d <= tol: return (f"extent {c['extent']} with pixelscale {c['pixelscale']}, oversample {c['oversample']} differs from "
                                 f"the same extent in samples by {d:.3e}")
    conv = ref_convolution(c)
    # where the exact convolution is real and non-negative the output equals it (and so keeps the total)
    if float(np.max(np.abs(conv.imag))) <= 1e-12 * (1 + S) and conv.real.min() >= 0:
        d = float(np.max(np.abs(out - conv.real)))
        if not d <= tol: return f'output differs from the exact non-negative circular convolution by {d:.3e}'
        if not abs(out.sum() - S) <= tol: return f'total not preserved by a non-negative convolution: {S} -> {out.sum()}'
    else:
        ref = np.abs(conv)
        if c['kind'] != 'pixel': ref = ref * S / ref.sum()
        d = float(np.max(np.abs(out - ref)))
        if not d <= tol: return f'output differs from |convolution| with the analytic transfer function by {d:.3e}'
    return None
