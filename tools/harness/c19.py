"""C19 — pixel, jitter and smear blurs are flux-preserving convolutions on any shape.

Tie: Model/Blur.lean (kernels from the fftfreq index map, |ifft2(fft2(img)·K)|, renormalisation) run at doubles by the
driver (op c19.blur; calls that omit pixelscale / oversample run pixelDefault / jitterDefault / smearDefault, which take the defaults
regenerated from the signatures) and compared with the real lentil.detector.pixel / lentil.convolvable.jitter / smear.
Oracle: independent Fourier-domain convolution with the analytic transfer function (frequency index map restated here),
shape, non-negativity, commutation with np.roll, zero-extent identity, preserved total, physical-units equivalence."""
import numpy as np
import vlib
from vlib import fbits, bitsf

LEVEL_TEXT = ('Lean 4 theorems about the executable blur model at ℂ/ℝ whose transfer functions are the definitions regenerated from '
              'detector.pixel / convolvable.jitter / smear on every run (Gen/BlurWiring), for all image shapes (square or not), extents, '
              'angles, pixel scales and oversampling factors: kernel shape = image shape (kernel_shape_eq_image_shape: rfl checks of the regenerated shape expressions — a compile-time tie that fails when the source swaps the axes, not a statement about NumPy broadcasting); the kernels are the separable sinc, '
              'exp(−2π²σ²ρ²) and the directional sinc in closed form; gain 1 at zero frequency; outputs non-negative for every image of non-negative total; blurs commute with '
              'circular shifts; zero extent is the identity on every non-negative image; jitter/smear keep the total of every image — the all-zero image included in all three: the zero-total guard `if np.sum(out) == 0: return out` is regenerated from the sources (Gen.bw…RenormGuard) and the model follows it, so no statement leans on x/0 = 0; only '
              'extent/pixelscale·oversample enters (unit invariance), and the call that expresses the extent in samples by omitting pixelscale and oversample — their defaults are regenerated from the signatures (Gen.bw…DefaultPixelscale / …DefaultOversample) — is that blur (samples_call_is_default_call); pixel and jitter kernels are Hermitian on every shape and smear on odd axes, hence the '
              'filtered image is real and the output equals the exact circular convolution wherever that is non-negative (total kept) — pixel, jitter: all '
              'shapes; smear: odd×odd; and the same for the functions as the sources compose them, renormalisation and zero-total guard included (blurs_return_nonneg_convolution) — with a proved bound on even axes — at most the mean modulus of the image\'s own spectrum on the Nyquist row/column, before and after renormalisation — and exactness for images with no content on those lines (smear_exact_when_nyquist_free); the convolution is the spatial circular convolution with ifft2(K). The driver runs '
              'these very definitions at doubles against the real functions; the composition abs∘ifft2∘(·kernel)∘fft2, the renormalisation expression, the '
              'angle=None branch and pixelate\'s call wiring are regenerated from the sources as well (pixelate_wiring: shape arithmetic plus rfl checks of the regenerated constants).')
LEVEL_NOTE = ('Partial: for smear on even-sized axes the unpaired Nyquist row/column breaks Hermitian symmetry; the deviation of the output (before and after '
              'renormalisation) is bounded by that row/column (theorems; the oracle evaluates exactly the proved bound on the real code); pixelate is modelled up to its call wiring and shape only (the spline '
              'interpolation of util.rescale is not modelled). Trusted: np.fft.fft2/ifft2 are the plain DFT pair with origin at index 0, np.fft.fftfreq follows its '
              'documented index map, np.sinc/np.exp/np.abs/np.meshgrid as named; rounding not modelled.')
TECHNIQUE = 'Lean 4 proof (Finset sums, roots-of-unity orthogonality, periodic reindexing, sinc/exp) over an executable model defined from translator-regenerated kernels + differential correspondence'
GEN = ['BlurWiring', 'Extent', 'FieldIdx', 'FieldMerge', 'FieldDispatch', 'NormalizePower', 'RescaleGrid']
OPS = ['C01', 'C05', 'C19', 'C17']
RULE = ('cases: non-negative images with rows, cols drawn independently from 1..8 (thorough 1..12; forced 1xn, nx1, even/odd, non-square), '
        'one case in eight has an axis of a non-fast FFT length 13/17/19/23/29/31; smooth-positive / sparse point-source / constant images; pixel with oversample 1..5, jitter with scale 0..1.5 px, smear with '
        'distance 0..4 px (tail to 8) and angle in [0,360) incl. 0/45/90, also angle=None under a seeded global generator; integer and fractional oversampling; default arguments (the model then runs the default-call definitions over the regenerated defaults); pixelate; extents also given in physical units with a pixel scale; the call is made on the caller\'s own array; circular shifts '
        'of either sign; zero extent. distinct = (kind, shape, parameters, roll); non-trivial = non-square or oversample ≠ 1 or '
        'physical units (outside what the test-suite samples) A ≈5 % sample (search tier: a leading block of 220) comes from an extremes stream: pixel scales 1e-12 … 1e-8 and 1e3 … 1e9 with multi-pixel extents, int16/int32/uint8/uint16/uint32/int64 frames at the limits of their dtype (totals beyond 2³¹), image amplitudes 1e-100 … 1e9, extents 0 / 5e-324 / 1e-300 / 25–60 px, frames of 257–1024 samples along one axis (search only); all tolerances are relative to Σ img. About 5 % of jitter/smear cases use a negative pixel scale. pixelate cases are compared with the rescale contract evaluated on the model\'s pixel output at the C17 model\'s interpolation grid.')
TRUSTED = ['scipy.ndimage order-3 spline interpolation (mode nearest) inside util.rescale, used by pixelate: trusted, compared on the model\'s pixel output only',
           'np.fft.fft2 / ifft2 are the un-normalised DFT and its inverse with origin at index 0; np.fft.fftfreq(n) = [0,1,…,⌈n/2⌉-1,-⌊n/2⌋,…,-1]/n; '
           'np.sinc(x) = sin(πx)/(πx); np.meshgrid(x, y) puts x along columns (all modelled in Model/Blur.lean, observed through the correspondence)']
UNPROVEN = ['pixelate: the call wiring (pixel, then rescale by 1/oversample, order 3, nearest, unitary) and the output shape are regenerated and proved '
            '(pixelate_wiring); its values are compared with the rescale contract (scipy order-3 spline, unitary factor, order-1 mask) evaluated on the '
            'MODEL\'s pixel output at the grid of the C17 model (Gen.rescaleCoordY/X); the spline itself is trusted, no theorem about the values or the total',
            'smear(angle=None): the branch is regenerated and modelled (smearNone, compared with the implementation under a seeded global generator; '
            'smear_none_is_smear_at_drawn_angle; non-negativity, preserved total and commutation with circular shifts carried over by smear_none_nonneg_total_roll); that exactly one uniform variate of the global generator is consumed is oracle only',
            'smear on even-sized axes: the deviation from the Hermitian-part convolution is bounded by the Nyquist row/column for the un-normalised and '
            'the renormalised output (smear_even_axis_deviation, smear_renormalised_deviation; at most the mean modulus of the image spectrum on those lines: smear_deviation_le_nyquist_lines; exact when the image has no content there: smear_exact_when_nyquist_free); no closed form of the output otherwise, and nothing says the bound is small for a given image',
            'an image whose blurred total underflows to zero without the image being zero (amplitudes below ~1e-154) is returned un-normalised by the guard: floating-point range, not modelled, not generated']
ASSUMPTIONS = ['images are non-negative (the all-zero image included: generated, in the corpus, and covered by the theorems since the fix of the 0·0/0 renormalisation)',
               'images are 2-D arrays of shape at least 1x1 (a 1-D array raises IndexError, a 3-D array a broadcasting ValueError: observed by hand, not generated)',
               'pixelscale ≠ 0']

TOL = 1e-9


# ------------------------------------------------------------------------------------------ generation
def _shape(rng, kmax):
    if rng.integers(0, 8) == 0:
        # an axis whose length is not a "fast" FFT length (13, 17, 19, 23, 29, 31): padding to a fast length would turn the circular
        # convolution into a linear one; the other axis small so that the interpreted model stays cheap
        n = int([13, 17, 19, 23, 29, 31][int(rng.integers(0, 6))]); k = int(rng.integers(1, 5))
        return (n, k) if rng.integers(0, 2) else (k, n)
    t = rng.integers(0, 8)
    if t == 0: return (1, int(rng.integers(1, kmax + 1)))
    if t == 1: return (int(rng.integers(1, kmax + 1)), 1)
    if t == 2:
        k = int(rng.integers(1, kmax + 1)); return (k, k)
    return (int(rng.integers(1, kmax + 1)), int(rng.integers(1, kmax + 1)))

def _img(rng, shape):
    m, n = shape
    t = rng.integers(0, 4)
    if t == 0:
        a = rng.uniform(0.5, 1.5, (m, n))                                  # positive with background
    elif t == 1:
        a = np.zeros((m, n)); k = int(rng.integers(1, 4))                   # sparse point sources
        for _ in range(k): a[int(rng.integers(0, m)), int(rng.integers(0, n))] += float(rng.uniform(0.5, 5))
    elif t == 2:
        a = np.full((m, n), float(rng.uniform(0.5, 3)))                     # constant
    elif rng.integers(0, 3) == 0:
        # Nyquist-dominated: checkerboard / stripes on a background (the content the even-axis allowance is about)
        ii, jj = np.meshgrid(np.arange(m), np.arange(n), indexing='ij')
        pat = [(-1.0) ** (ii + jj), (-1.0) ** ii, (-1.0) ** jj][int(rng.integers(0, 3))]
        a = float(rng.uniform(1.0, 2.0)) + float(rng.uniform(0.2, 1.0)) * pat
    else:
        a = rng.uniform(0, 1, (m, n)) * (rng.uniform(size=(m, n)) < 0.6)
        if not a.any(): a[0, 0] = 1.0
    return [float(x) for x in a.ravel()]

def _case(rng, kmax):
    kind = ['pixel', 'jitter', 'smear'][int(rng.integers(0, 3))]
    shape = _shape(rng, kmax)
    os_ = int(rng.integers(1, 6))
    if rng.integers(0, 5) == 0: os_ = float([1.5, 2.5, 0.5, 3.25][int(rng.integers(0, 4))])        # fractional oversampling
    c = {'kind': kind, 'shape': list(shape), 'img': _img(rng, shape), 'oversample': os_,
         'pixelscale': 1.0 if rng.integers(0, 2) else float(rng.uniform(2e-6, 2e-5)),
         'roll': [int(rng.integers(-shape[0] - 1, shape[0] + 2)), int(rng.integers(-shape[1] - 1, shape[1] + 2))]}
    big = rng.integers(0, 6) == 0
    if kind == 'pixel':
        c['pixelscale'] = 1.0; c['extent'] = None
    elif kind == 'jitter':
        c['extent_px'] = float(rng.uniform(0, 3.0 if big else 1.5)) / c['oversample']      # 1-sigma in detector pixels
    else:
        c['extent_px'] = float(rng.uniform(0, 8.0 if big else 4.0)) / c['oversample']
        c['angle'] = [0.0, 90.0, 45.0, 180.0][int(rng.integers(0, 4))] if rng.integers(0, 3) == 0 else float(rng.uniform(0, 360))
    if kind != 'pixel': c['extent'] = c['extent_px'] * c['pixelscale']
    if kind != 'pixel' and rng.integers(0, 20) == 0: c['pixelscale'] = -c['pixelscale']      # a negative unit: the kernels are even in extent/pixelscale
    # default arguments (pixelscale=1, oversample=1 omitted from the call) and extra probes
    if rng.integers(0, 6) == 0:
        c['oversample'] = 1; c['pixelscale'] = 1.0; c['defaults'] = True
        if kind != 'pixel': c['extent'] = c['extent_px'] = float(c['extent_px'])
    if kind == 'pixel' and isinstance(c['oversample'], int) and rng.integers(0, 2): c['pixelate'] = True
    c['layout'] = ['C', 'C', 'F', 'strided', 'readonly', 'float32'][int(rng.integers(0, 6))]
    if c['layout'] == 'float32': c['img'] = [float(np.float32(x)) for x in c['img']]
    if kind == 'smear' and rng.integers(0, 4) == 0: c['angle'] = [0.0, 90.0, 270.0, 45.0, 135.0][int(rng.integers(0, 5))]
    if kind == 'smear' and rng.integers(0, 3) == 0: c['random_angle_seed'] = int(rng.integers(0, 2 ** 31))
    if sum(fbits(x) for x in c['img']) % 41 == 0:
        # the all-zero image (a dark frame): a non-negative image like any other. Chosen by the bits of the drawn image, not by a
        # draw, so that the cases of existing seeds stay what they were
        c['img'] = [0.0] * len(c['img']); c.pop('pixelate', None)       # (rescale(unitary=True) of a zero frame is C17's 0/0)
    return c

def _extreme(rng, kmax, heavy):
    """the extremes stream: physical units from 1e-12 to 1e9 (a multi-pixel blur in nano-scale units), integer frames whose total
    exceeds the integer range of their dtype, image amplitudes from 1e-100 to 1e9, extents at 0 / denormal / tens of pixels,
    long 1-D-like frames (`heavy`: search tier only)"""
    c = _case(rng, kmax)
    for k in ('defaults', 'pixelate', 'random_angle_seed'): c.pop(k, None)
    if c.get('layout') == 'float32': c['layout'] = 'C'          # the extremes below are not representable in single precision
    t = int(rng.integers(0, 6 if heavy else 5))
    if c['kind'] == 'pixel' and t in (0, 1, 4): t = 2
    if t in (0, 1):      # the unit of extent and pixel scale
        ps = float([1e-9, 4.85e-9, 5e-9, 1e-8, 1e-12, 2.5e-10][int(rng.integers(0, 6))]) if t == 0 else float([1e3, 1e9, 7.5e5][int(rng.integers(0, 3))])
        c['pixelscale'] = ps; c['extent_px'] = float(rng.uniform(0.5, 3.0)) / c['oversample']; c['extent'] = c['extent_px'] * ps
    elif t == 2:         # integer frames at the limits of their dtype
        dt = ['int32', 'int32', 'uint16', 'int16', 'uint8', 'int64', 'uint32'][int(rng.integers(0, 7))]
        hi = {'int32': 2 ** 31 - 1, 'uint16': 65535, 'int16': 32767, 'uint8': 255, 'int64': 10 ** 15, 'uint32': 2 ** 32 - 1}[dt]
        m, n = c['shape']
        if m * n < 4: c['shape'] = [3, 4]; m, n = 3, 4
        v = rng.integers(hi // 4, hi + 1, m * n)
        v[int(rng.integers(0, m * n))] = hi
        c['img'] = [float(x) for x in v]; c['dtype'] = dt
    elif t == 3:         # image amplitude
        k = [1e-9, 1e9, 1e-100, 1e-30][int(rng.integers(0, 4))]      # (below ~1e-154 out*sum(img) underflows: floating-point range, not modelled)
        c['img'] = [x * k for x in c['img']]
    elif t == 4:         # extent at zero, denormal, or tens of pixels
        e = float([0.0, 5e-324, 1e-300, 1e-12, 25.0, 60.0][int(rng.integers(0, 6))])
        c['extent_px'] = e / c['oversample']; c['extent'] = c['extent_px'] * c['pixelscale']
    else:                # long frames
        L = int([257, 600, 1024][int(rng.integers(0, 3))])
        c['shape'] = [1, L] if rng.integers(0, 2) else [L, int(rng.integers(1, 3))]
        c['img'] = _img(rng, tuple(c['shape']))
        c['roll'] = [int(rng.integers(-3, 4)), int(rng.integers(-L, L))]
    return c

def generate(rng, tier):
    n, kmax = {'quick': (150, 8), 'thorough': (3000, 12), 'search': (400, 8)}[tier]
    out = []
    if tier == 'search': out += [_extreme(rng, kmax, True) for _ in range(220)]        # the nasty inputs first
    for i in range(n):
        out.append(_extreme(rng, kmax, False) if (tier != 'search' and i % 20 == 7) else _case(rng, kmax))
    if tier == 'thorough': out += [_extreme(rng, kmax, False) for _ in range(150)]
    return out

def signature(c):
    return (f"{c['kind']} {c['shape']} os={c['oversample']} ps={c['pixelscale']} e={c.get('extent')} a={c.get('angle')} roll={c['roll']} "
            f"lay={c.get('layout')} dt={c.get('dtype')} d={int(bool(c.get('defaults')))} p={int(bool(c.get('pixelate')))} r={c.get('random_angle_seed')} {vlib.jhash(c['img'])}")

def nontrivial(c):
    return c['shape'][0] != c['shape'][1] or c['oversample'] != 1 or c['pixelscale'] != 1.0

def tags(c):
    t = [c['kind'], f"os={c['oversample']}"]
    if c.get('defaults'): t.append('default-arguments')
    if c.get('layout', 'C') != 'C': t.append('layout:' + c['layout'])
    if c.get('dtype'): t.append('dtype:' + c['dtype'])
    if c['pixelscale'] < 0: t.append('negative-pixelscale')
    if 0 < c['pixelscale'] < 1e-7: t.append('nano-scale-units')
    if c['pixelscale'] > 1e2: t.append('huge-units')
    if c.get('pixelate'): t.append('pixelate')
    if 'random_angle_seed' in c: t.append('smear(angle=None)')
    if not isinstance(c['oversample'], int): t.append('fractional-oversample')
    m, n = c['shape']
    if m != n: t.append('non-square')
    if m == 1 or n == 1: t.append('single-row/col')
    t.append('parity:' + ('e' if m % 2 == 0 else 'o') + ('e' if n % 2 == 0 else 'o'))
    if max(m, n) >= 13 and max(m, n) in (13, 17, 19, 23, 29, 31): t.append('non-fast-length')
    if c['pixelscale'] != 1.0: t.append('physical-units')
    if c['kind'] == 'smear': t.append('smear:even-axis' if (m % 2 == 0 or n % 2 == 0) else 'smear:odd×odd')
    if not any(c['img']): t.append('zero-image')
    return t

def shrink(c):
    if c['roll'] != [0, 0]: yield {**c, 'roll': [0, 0]}
    if c['pixelscale'] != 1.0 and c['kind'] != 'pixel': yield {**c, 'pixelscale': 1.0, 'extent': c['extent_px']}
    if any(x != round(x) for x in c['img']): yield {**c, 'img': [float(round(x + 0.5)) for x in c['img']]}


# ------------------------------------------------------------------------------------------ implementation
def _image(c): return np.array(c['img'], dtype=float).reshape(c['shape'])

def _run(c, img, extent=None, pixelscale=None, oversample=None, angle='case'):
    """the real call, on the caller's own array (never a copy), with default arguments left out when the case says so"""
    lentil = vlib.import_lentil()
    import lentil.detector, lentil.convolvable
    os_ = c['oversample'] if oversample is None else oversample
    ps = c['pixelscale'] if pixelscale is None else pixelscale
    e = c.get('extent') if extent is None else extent
    kw = {} if (c.get('defaults') and oversample is None and pixelscale is None) else {'oversample': os_}
    if c['kind'] == 'pixel': return lentil.detector.pixel(img, **kw)
    if kw: kw['pixelscale'] = ps
    if c['kind'] == 'jitter': return lentil.convolvable.jitter(img, e, **kw)
    return lentil.convolvable.smear(img, e, angle=(c['angle'] if angle == 'case' else angle), **kw)

def _pack(a):
    a = np.asarray(a)
    return {'shape': list(a.shape), 'v': [float(x) for x in a.ravel()], 'dtype': str(a.dtype)}

def impl(c):
    lentil = vlib.import_lentil()
    img = _image(c)
    if c.get('dtype'): img = img.astype(c['dtype'])          # integer frames (values are integers; the references use float64)
    lay = c.get('layout', 'C')
    if lay == 'F': img = np.asfortranarray(img)
    elif lay == 'strided':
        big = np.zeros((img.shape[0] * 2, img.shape[1] * 2), dtype=img.dtype); big[::2, 1::2] = img; img = big[::2, 1::2]
    elif lay == 'float32' and not c.get('dtype'): img = img.astype(np.float32)
    elif lay == 'readonly': img = img.copy(); img.flags.writeable = False
    img0 = img.copy()
    def guarded(f):
        try: return _pack(f())
        except Exception as e: return {'exc': type(e).__name__, 'msg': str(e)[:200]}
    res = {'out': guarded(lambda: _run(c, img)),
           'rolled': guarded(lambda: _run(c, np.roll(img, tuple(c['roll']), axis=(0, 1))))}
    if c['kind'] == 'pixel':
        res['zero'] = guarded(lambda: _run(c, img, oversample=0))
    else:
        res['zero'] = guarded(lambda: _run(c, img, extent=0.0))
        # the same extent expressed in samples: extent/pixelscale*oversample with pixelscale = oversample = 1
        res['units'] = guarded(lambda: _run(c, img, extent=c['extent'] / c['pixelscale'] * c['oversample'], pixelscale=1, oversample=1))
    if c.get('pixelate'):
        import lentil.detector
        res['pixelate'] = guarded(lambda: lentil.detector.pixelate(img, c['oversample']))
        res['pixelate_ref'] = guarded(lambda: lentil.rescale(lentil.detector.pixel(img, c['oversample']), 1 / c['oversample'],
                                                             order=3, mode='nearest', unitary=True))
    if 'random_angle_seed' in c:
        # smear(angle=None) draws its direction from NumPy's global generator: run it under a seeded snapshot, twice
        seed = c['random_angle_seed']; saved = np.random.get_state()
        try:
            np.random.seed(seed); res['rand1'] = guarded(lambda: _run(c, img, angle=None))
            after = np.random.get_state()
            np.random.seed(seed); res['rand2'] = guarded(lambda: _run(c, img, angle=None))
            rs = np.random.RandomState(seed); a = rs.uniform(0, 2 * np.pi)
            res['rand_ref'] = guarded(lambda: _run(c, img, angle=float(np.degrees(a))))
            st = rs.get_state()
            res['rand_draws'] = {'one_uniform': bool(after[2] == st[2] and np.array_equal(after[1], st[1]))}
        finally:
            np.random.set_state(saved)
    res['input'] = {'untouched': bool(np.array_equal(img, img0))}
    return res

def requests(c, io):
    r = {'op': 'c19.blur', 'kind': c['kind'], 'shape': c['shape'], 'v': [fbits(x) for x in c['img']],
         'pixelscale': fbits(float(c['pixelscale'])), 'oversample': fbits(float(c['oversample']))}
    if c['kind'] != 'pixel': r['extent'] = fbits(c['extent'])
    if c['kind'] == 'smear': r['angle'] = fbits(c['angle'])
    # the call omits pixelscale / oversample: the model takes the defaults regenerated from the signatures (Gen.bw…Default…)
    if c.get('defaults') and not c.get('pixelate') and 'random_angle_seed' not in c: r['defaults'] = True
    if c.get('pixelate'):
        # pixelate = rescale(pixel(img, os), 1/os): the interpolation grid comes from the C17 model (Gen.rescaleCoordY/X, exact rationals)
        from fractions import Fraction
        rat = lambda x: [Fraction(float(x)).numerator, Fraction(float(x)).denominator]
        sc = 1 / c['oversample']
        return [r, {'op': 'rs.coords', 'shape': c['shape'], 'scale': rat(sc), 'prod': [rat(c['shape'][0] * sc), rat(c['shape'][1] * sc)]}]
    if 'random_angle_seed' in c:
        # the model of the angle=None branch, fed with the uniform [0, 1) variate the seeded global generator yields first
        u = float(np.random.RandomState(c['random_angle_seed']).random_sample())
        r2 = {k: v for k, v in r.items() if k != 'angle'}; r2.update({'kind': 'smear_none', 'u': fbits(u)})
        return [r, r2]
    return [r]

def _arr(d): return np.array(d['v'], dtype=float).reshape(d['shape'])

def compare(c, io, mo):
    m = mo[0]
    if not m.get('ok'): return f"model refused: {m.get('err')}"
    if 'exc' in io['out']: return f"implementation raised {io['out']['exc']}: {io['out'].get('msg')}; the model answered"
    got = _arr(io['out']); want = np.array([bitsf(x) for x in m['out']['v']]).reshape(m['out']['shape'])
    if got.shape != want.shape: return f'shape impl {got.shape} model {want.shape}'
    tol = (3e-6 if c.get('layout') == 'float32' else TOL) * max(float(np.sum(np.abs(_image(c)))), 1e-300)      # float32 frames: single-precision sums
    if not np.array_equal(np.isnan(got), np.isnan(want)):
        return f'nan pattern differs: impl {int(np.isnan(got).sum())} nan samples, model {int(np.isnan(want).sum())}'
    d = 0.0 if np.isnan(got).all() else float(np.nanmax(np.abs(got - want)))
    if not d <= tol: return f'max |impl - model| = {d:.3e} > {tol:.1e}'
    if c.get('pixelate') and len(mo) > 1:
        g = mo[1]
        if not g.get('ok'): return f"model refused the rescale grid: {g.get('err')}"
        if 'exc' in io['pixelate']: return f"pixelate raised {io['pixelate']['exc']}; the model answered"
        from scipy.ndimage import map_coordinates
        ys = np.array([a / b for a, b in g['y']], dtype=float); xs = np.array([a / b for a, b in g['x']], dtype=float)
        xx, yy = np.meshgrid(xs, ys)
        # contract of util.rescale on the MODEL's pixel output and the model's grid: order-3 spline ('nearest'), unitary factor, order-1 mask
        mk = map_coordinates((want != 0).astype(float), [yy, xx], order=1, mode='nearest'); mk[mk < np.finfo(float).eps] = 0
        ref = map_coordinates(want, [yy, xx], order=3, mode='nearest')
        ref = ref * (want.sum() / ref.sum()) * mk
        gotp = _arr(io['pixelate'])
        if gotp.shape != ref.shape: return f'pixelate: shape impl {gotp.shape}, model grid {ref.shape}'
        d = float(np.max(np.abs(gotp - ref)))
        if not d <= 10 * tol: return f'pixelate: max |impl - rescale contract on the model| = {d:.3e} > {10 * tol:.1e}'
        return None
    if len(mo) > 1:
        if not mo[1].get('ok'): return f"model refused smear(angle=None): {mo[1].get('err')}"
        if 'exc' in io['rand1']: return f"smear(angle=None) raised {io['rand1']['exc']}; the model answered"
        w2 = np.array([bitsf(x) for x in mo[1]['out']['v']]).reshape(mo[1]['out']['shape'])
        r1 = _arr(io['rand1'])
        if not np.array_equal(np.isnan(r1), np.isnan(w2)): return 'smear(angle=None): nan pattern differs between impl and model'
        d = 0.0 if np.isnan(r1).all() else float(np.nanmax(np.abs(r1 - w2)))
        if not d <= tol: return f'smear(angle=None): max |impl - model| = {d:.3e} > {tol:.1e}'
    return None


# ------------------------------------------------------------------------------------------ oracle (real code only)
def _freq(n):
    """fftfreq restated: sample i has integer frequency i for i < ceil(n/2), else i - n"""
    k = np.array([i if i < (n + 1) // 2 else i - n for i in range(n)], dtype=float)
    return k / n

def transfer(c):
    """analytic transfer function on the (rows ↔ f_y, cols ↔ f_x) frequency grid"""
    m, n = c['shape']
    fy = _freq(m)[:, None] * np.ones((1, n)); fx = np.ones((m, 1)) * _freq(n)[None, :]
    os_ = c['oversample']
    if c['kind'] == 'pixel': return np.sinc(fy * os_) * np.sinc(fx * os_)
    w = c['extent_px'] * os_                                  # extent in samples
    if c['kind'] == 'jitter': return np.exp(-2 * np.pi ** 2 * w ** 2 * (fx ** 2 + fy ** 2))
    a = np.deg2rad(c['angle'])
    return np.sinc((np.sin(a) * fy + np.cos(a) * fx) * w)

def _dft_mats(n):
    k = np.arange(n)
    return np.exp(-2j * np.pi * np.outer(k, k) / n)

def ref_convolution(c):
    """exact circular convolution with the kernel whose DFT is the transfer function, by explicit DFT matrices"""
    img = _image(c); m, n = img.shape
    Wm, Wn = _dft_mats(m), _dft_mats(n)
    X = Wm @ img @ Wn
    return (np.conj(Wm) @ (X * transfer(c)) @ np.conj(Wn)) / (m * n)

def oracle(c, io):
    img = _image(c); S = float(img.sum())
    tol = (3e-6 if c.get('layout') == 'float32' else TOL) * max(S, 1e-300)      # relative to the image scale only (float32 frames: single-precision sums)
    if not io['input']['untouched']: return "the caller's image was modified"
    arrs = {k: d for k, d in io.items() if isinstance(d, dict) and ('v' in d or 'exc' in d)}
    if c['kind'] == 'pixel' and 'exc' in arrs.get('zero', {}): arrs.pop('zero')      # a library that refuses oversample=0 is not in violation
    for k, d in arrs.items():
        if 'exc' in d: return f"{c['kind']}[{k}] raised {d['exc']}: {d.get('msg')} on a {c['shape']} image"
    out = _arr(io['out'])
    for k, d in arrs.items():
        a = _arr(d)
        if k.startswith('pixelate'): continue
        if a.shape != img.shape: return f"{k}: output shape {a.shape} != image shape {img.shape}"
        if not np.all(np.isfinite(a)): return f'{k}: non-finite output' + (' on the all-zero image (0·0/0 in the renormalisation)' if not img.any() else '')
        if a.min() < 0: return f'{k}: negative output {a.min()}'
        if not img.any() and a.any(): return f'{k}: the all-zero image does not blur to zeros (max {a.max()})'
    K = transfer(c)
    if abs(K[0, 0] - 1) > 1e-12: return f'transfer function gain at zero frequency is {K[0, 0]}'
    d = float(np.max(np.abs(_arr(io['rolled']) - np.roll(out, tuple(c['roll']), axis=(0, 1)))))
    if not d <= tol: return f"does not commute with circular shift {c['roll']}: differs by {d:.3e}"
    if 'zero' in arrs:
        d = float(np.max(np.abs(_arr(io['zero']) - img)))
        if not d <= tol: return f'zero extent is not the identity: differs by {d:.3e}'
    if c['kind'] != 'pixel':
        if not abs(out.sum() - S) <= tol: return f'total not preserved: {S} -> {out.sum()}'
        d = float(np.max(np.abs(_arr(io['units']) - out)))
        if not d <= tol: return (f"extent {c['extent']} with pixelscale {c['pixelscale']}, oversample {c['oversample']} differs from "
                                 f"the same extent in samples by {d:.3e}")
    conv = ref_convolution(c)
    m, n = img.shape
    # where the exact convolution is real and non-negative the output equals it (and so keeps the total)
    if float(np.max(np.abs(conv.imag))) <= 1e-12 * S and conv.real.min() >= 0:
        d = float(np.max(np.abs(out - conv.real)))
        if not d <= tol: return f'output differs from the exact non-negative circular convolution by {d:.3e}'
        if not abs(out.sum() - S) <= tol: return f'total not preserved by a non-negative convolution: {S} -> {out.sum()}'
    else:
        if m % 2 == 1 and n % 2 == 1 and float(np.max(np.abs(conv.imag))) > 1e-11 * S:
            return 'odd x odd image but the reference convolution is not real (transfer function not Hermitian)'
        # whatever the convolution's sign or phase, the output is its modulus (renormalised for jitter/smear): no allowance
        ref = np.abs(conv)
        if c['kind'] != 'pixel': ref = ref * S / ref.sum()
        d = float(np.max(np.abs(out - ref)))
        if not d <= tol: return f'output differs from |convolution| with the analytic transfer function by {d:.3e} (tol {tol:.1e})'
    if c['kind'] == 'smear' and (m % 2 == 0 or n % 2 == 0) and S > 0:
        # the statement's "to within the unpaired Nyquist sample on even axes", with exactly the proved allowance
        # (smear_renormalised_deviation): |out − |c_H|·S/Σ|c|| ≤ (1/mn)·Σ|fft2 img|·|K_N|, K_H / K_N the even / odd part of the
        # transfer function under negation of the frequency indices, c_H the (real) convolution with K_H
        iu = (-np.arange(m)) % m; iv = (-np.arange(n)) % n
        Kneg = K[np.ix_(iu, iv)]
        KH, KN = (K + Kneg) / 2, (K - Kneg) / 2
        Wm, Wn = _dft_mats(m), _dft_mats(n)
        Ximg = Wm @ img @ Wn
        cH = (np.conj(Wm) @ (Ximg * KH) @ np.conj(Wn)) / (m * n)
        if float(np.max(np.abs(cH.imag))) > 1e-11 * S: return 'the convolution with the Hermitian part of the transfer function is not real'
        bound = float(np.sum(np.abs(Ximg) * np.abs(KN))) / (m * n)
        lines = np.zeros((m, n), dtype=bool)
        if m % 2 == 0: lines[m // 2, :] = True
        if n % 2 == 0: lines[:, n // 2] = True
        if float(np.max(np.abs(KN[~lines]))) > 1e-12: return 'the odd part of the transfer function is not confined to the Nyquist row/column'
        d = float(np.max(np.abs(out - np.abs(cH.real) * S / np.abs(conv).sum())))
        if not d <= bound + 10 * tol:
            return f'smear on an even axis: output differs from the renormalised Hermitian-part convolution by {d:.3e}, more than the proved Nyquist bound {bound:.3e}'
        if bound <= tol and cH.real.min() >= 0 and not float(np.max(np.abs(out - cH.real))) <= 10 * tol:
            return 'Nyquist-free image on an even axis: the smear output is not the exact convolution'
    if 'pixelate' in arrs:
        got, ref = _arr(io['pixelate']), _arr(io['pixelate_ref'])
        want = (int(np.ceil(m / c['oversample'])), int(np.ceil(n / c['oversample'])))
        if got.shape != want: return f"pixelate: shape {got.shape}, expected ceil(shape/oversample) = {want}"
        if got.shape != ref.shape or not float(np.max(np.abs(got - ref))) <= tol:
            return 'pixelate differs from rescale(pixel(img, oversample), 1/oversample, order=3, mode="nearest", unitary=True)'
        if img.min() > 0 and not abs(got.sum() - out.sum()) <= (3e-6 if c.get('layout') == 'float32' else 1e-9) * abs(out.sum()) and np.all(got > 0):
            return f'pixelate does not keep the total of the pixel-blurred image: {out.sum()} -> {got.sum()}'
    if 'rand1' in arrs:
        r1, r2, rr = _arr(io['rand1']), _arr(io['rand2']), _arr(io['rand_ref'])
        if not np.array_equal(r1, r2): return 'smear(angle=None) is not reproducible under the same global seed'
        if not float(np.max(np.abs(r1 - rr))) <= tol: return 'smear(angle=None) is not the smear along uniform(0, 2π) radians drawn from the global generator'
        if not abs(r1.sum() - S) <= tol: return f'smear(angle=None): total not preserved: {S} -> {r1.sum()}'
        if not io['rand_draws']['one_uniform']: return 'smear(angle=None) does not consume exactly one uniform draw of the global generator'
    return None
