"""C08 — the plane-type state machine follows the documented table.

Tie: Gen/PlaneType.lean is regenerated on every run from lentil/plane.py (_mul_ptype_table, _can_mul_ptype,
_mul_result_ptype, Plane.multiply guard, constructors and multiply overrides of every public class), lentil/propagate.py
(_propagate_ptype), lentil/ptype.py, lentil/wavefront.py and from the three RST tables; the theorems are stated about those
definitions.  The correspondence runs random programs over every public plane class (and over explicit ptypes) on the
real library and compares the trace of types/exceptions with the model's."""
import os, re, warnings
import numpy as np
import vlib

LEVEL_TEXT = ('Lean 4 theorems about tables regenerated from the source on every run (the content is the 15+3 generated cells and the class table; `run_eq_doc`/`final_eq_doc` lift them to programs of any length by a two-line induction ; further: fft_typing, no_write_before_guard, propagate_no_write_before_guard, caller_ptype_table (Gen.classPtypeWith, regenerated from the constructor chains: a class either refuses a caller-supplied ptype keyword for every type — Pupil, Image, Rotate, Flip: TypeError at construction — or takes exactly the type given — Plane, LensletArray, Tilt, DispersiveTilt, Grism), class_run_eq_doc, typed_wavefront_stays_typed, table_driven_all_but_rotate_flip): all 15 cells of the code table equal the '
              'documented RST table; propagation typing; for every program of any length (induction) the code machine and the '
              'documented machine give the same trace of types/refusals; every documented '
              'class except Rotate/Flip has its documented ptype and acts as documented (partial: Rotate/Flip are an open known '
              'finding with a Lean witness). Structure of the generated table, each evaluated on Gen.codeMul/codePropagate: a product is refused exactly when a typed wavefront meets an untyped `none` plane or a plane of the other type (mul_refused_iff — only the pair (wavefront type, plane ptype) matters, whatever ptype the caller constructs the plane with); a typed wavefront keeps its type and an untyped one takes a pupil/image plane\'s (mul_result_type); tilt/transform planes are neutral and never refused (tilt_transform_neutral) and can be dropped from any program without changing the final type (neutral_planes_can_be_dropped); an accepted plane type can be applied again without change (mul_idempotent); propagation is an involution on pupil/image (propagate_involutive); the documented system Pupil, tilts…, propagate, tilts…, Image is accepted for any number of tilt-type classes (standard_system_accepted); refused_steps_keep_type is a fact about how the MODEL threads the type through a program, not evidence about the code.')
LEVEL_NOTE = ('partial: `all_documented_classes_apply_partial` and `class_run_eq_doc_partial` exclude lentil.Rotate/lentil.Flip '
              '(KF-C08-rotate-flip). That a refused operation leaves the *arrays* of both operands untouched is observed by '
              'snapshots in the correspondence only (the model carries types, not arrays). Trusted: the table generators in '
              'tools/specs/c08.py (closed-fragment evaluator over the Python AST, strict RST table parser).')
TECHNIQUE = 'Lean 4 proof (case analysis + induction over programs) over generated tables; differential correspondence on random programs'
GEN = ['PlaneType']
OPS = ['C08']
RULE = ('programs of 1..12 (quick) / 1..40 (thorough) operations drawn from {multiply by an instance of each of the 9 public plane '
        'classes (scalar or array-valued), multiply by Plane(ptype=t) for each of the 5 ptypes, propagate_dft, propagate_fft} '
        'with operands as built / through pickle / through copy.deepcopy / with a directly constructed PType, from each of the 3 start types, each built three ways (one array field; no field: Wavefront.empty; no field left after two planes with non-overlapping apertures; plus dedicated cases from a bare Wavefront(λ) with a 0-d field and from a two-segment aperture with two fields); distinct = (start, op sequence); non-trivial = the program contains at least one '
        'accepted and one refused step or a propagation')
TRUSTED = ['the effect walker of tools/specs/c08.py (prop_effects/_operand_effects: which AST shapes count as a write to an operand)', 'table generators of tools/specs/c08.py: evaluation of the closed Python fragment of _can_mul_ptype/_mul_result_ptype/'
           '_propagate_ptype/constructors on every input of their finite domain; RST grid/simple table parsing']
UNPROVEN = ['"a refused operation leaves both operands unchanged": the structural part is a theorem for products (no_write_before_guard) and for propagation (propagate_no_write_before_guard: the statements of propagate_dft/propagate_fft up to and including the `_propagate_ptype` call perform no attribute/item write or in-place mutator call on the wavefront, also through a local alias or inside a module-level helper it is handed to, e.g. _has_tilt — regenerated lists Gen.propDftEffectsBeforeTypeCheck/propFftEffectsBeforeTypeCheck; objects reached by ITERATING over the wavefront, `for f in wavefront.data: f.x = …`, are not followed); (no_write_before_guard: no multiply override '
            'writes an attribute of either operand before delegating to Plane.multiply, whose first statement is the ptype check — regenerated '
            'effect lists); that nothing else (aliasing through helper calls, C code) touches the operands is observed by by-value snapshots on '
            'every refused and accepted step of the correspondence only',
            'applicability of lentil.Rotate / lentil.Flip (open known finding KF-C08-rotate-flip)']
ASSUMPTIONS = ['propagated pupils carry a focal length: a Pupil() built without one (default focal_length=None; inf after a further plane) fails loudly in propagate_dft/propagate_fft with an accidental TypeError/ValueError — generated (Pupil default constructor), counted (tag propagate:no-focal-length:accidental-exception); with focal_length None and at least one field the outcome must be an exception, never a wavefront; with no field to transform, or once a further plane has turned None into inf, propagate_* may also return a (degenerate, alpha = 0) wavefront of the documented type — counted (tag propagate:infinite-focal-length:returned-a-wavefront). Not a violation: no clause says such a wavefront must propagate (coordinator decision). Every other TypeError must carry one of the documented refusal messages (ptype guard, _propagate_ptype, Wavefront.ptype setter).',
               'competing refusals: planes are also built with a pixel scale equal to / different from the wavefront\'s; a "Not allowed" cell must raise TypeError whatever else is wrong with the operands, an allowed cell with inconsistent pixel scales raises ValueError (C07\'s rule; the type model carries no pixel scale, such steps are compared step-wise). Array planes of another shape are not a refusal (fields intersect).',
               'a custom multiply (one that never delegates to Plane.multiply) is modelled by a structural rule read off its source: names that do not exist -> AttributeError; otherwise, if every return hands back the argument, a copy of it, or a Wavefront built with (p|plane)type=<argument>.(p|plane)type, the type is kept without consulting the table (Gen.classCustomKeepsType); else the model refuses with OtherError and the correspondence decides',
               'propagate_fft on a wavefront carrying fitted tilt raises NotImplementedError whatever its type (the tilt check precedes the type check: generated as Gen.codePropagateFft, theorem fft_typing); with no data at all the harness uses propagate_dft (propagate_fft needs a field to pad)',
               'programs continue after a refusal with the operands as they were (as a Python session that catches the exception)']

def _public_classes():
    """the plane classes exported by lentil/__init__.py (same source as the generated `PlaneClass`)"""
    import ast
    tree = ast.parse(open(os.path.join(vlib.REPO, 'lentil', '__init__.py')).read())
    for n in tree.body:
        if isinstance(n, ast.ImportFrom) and n.module == 'lentil.plane': return [a.name for a in n.names]
    return ['Plane', 'Pupil', 'Image', 'Tilt', 'DispersiveTilt', 'Grism', 'LensletArray', 'Rotate', 'Flip']
CLASSES = _public_classes()
TILT_FAMILY = [c for c in ('Tilt', 'DispersiveTilt', 'Grism') if c in CLASSES]      # constructors that forward a caller-supplied ptype
PTYPES = ['none', 'pupil', 'image', 'tilt', 'transform']
WTYPES = ['none', 'pupil', 'image']
NOTES = {}
# how the start wavefront is built: one array field / no field at all (Wavefront.empty) / no field left after two planes
# with non-overlapping apertures
MODES = ['field', 'empty', 'disjoint']
# further starts, used in dedicated cases: a bare Wavefront(λ) (one 0-d field; multiplications only — a 0-d field cannot be
# propagated) and a two-segment aperture (two fields)
EXTRA_MODES = ['bare', 'multi']

def generate(rng, tier):
    n, lmax = {'quick': (300, 12), 'thorough': (5000, 40), 'search': (1500, 16)}[tier]
    out = []
    # every (start, single op) pair first: exhaustive over the table and the classes
    for s in WTYPES:
        for mode in MODES:
            for c in CLASSES: out.append({'start': s, 'mode': mode, 'ops': [{'k': 'cls', 'cls': c, 'arr': False, 'par': 0}, {'k': 'prop', 'fft': False, 'par': 0}]})
            for p in PTYPES: out.append({'start': s, 'mode': mode, 'ops': [{'k': 'pt', 'pt': p, 'arr': False, 'par': 0}]})
            out.append({'start': s, 'mode': mode, 'ops': [{'k': 'prop', 'fft': False, 'par': 0}]})
        out.append({'start': s, 'mode': 'field', 'ops': [{'k': 'prop', 'fft': True, 'par': 0}]})
    for i in range(n):
        L = int(rng.integers(1, lmax + 1))
        ops = []
        for _ in range(L):
            t = int(rng.integers(0, 10))
            if t < 6:
                ops.append({'k': 'cls', 'cls': CLASSES[int(rng.integers(0, len(CLASSES)))], 'arr': bool(rng.integers(0, 3) == 0), 'par': int(rng.integers(0, 4))})
            elif t < 8:
                ops.append({'k': 'pt', 'pt': PTYPES[int(rng.integers(0, 5))], 'arr': bool(rng.integers(0, 3) == 0), 'par': int(rng.integers(0, 4))})
            else:
                ops.append({'k': 'prop', 'fft': bool(rng.integers(0, 2)), 'par': int(rng.integers(0, 4))})
        # how the operands reached the call: as built, through pickle, through copy.deepcopy / Plane.copy, or (explicit ptypes)
        # with a PType constructed directly instead of by the lentil.ptype() factory
        for o in ops:
            if o['k'] != 'prop': o['pxs'] = [None, None, 'same', 'diff'][int(rng.integers(0, 4))]
            if o['k'] == 'pt' and rng.integers(0, 2): o['ctor'] = TILT_FAMILY[int(rng.integers(0, len(TILT_FAMILY)))]
            if o['k'] != 'prop': o['via'] = ['plain', 'plain', 'pickle', 'deepcopy', 'direct'][int(rng.integers(0, 5))]
            o['wvia'] = ['plain', 'plain', 'plain', 'pickle', 'deepcopy'][int(rng.integers(0, 5))]
        out.append({'start': WTYPES[i % 3], 'mode': MODES[(i // 3) % 4 % 3], 'ops': ops})
    for s in WTYPES:
        for c in CLASSES:
            out.append({'start': s, 'mode': 'bare', 'ops': [{'k': 'cls', 'cls': c, 'arr': False, 'par': 1, 'via': 'plain', 'wvia': 'plain'}, {'k': 'cls', 'cls': 'Tilt', 'arr': False, 'par': 2, 'via': 'plain', 'wvia': 'plain'}]})
            out.append({'start': s, 'mode': 'multi', 'ops': [{'k': 'cls', 'cls': c, 'arr': False, 'par': 1, 'via': 'plain', 'wvia': 'plain'}, {'k': 'prop', 'fft': False, 'par': 0, 'wvia': 'plain'},
                                                             {'k': 'cls', 'cls': 'Image', 'arr': False, 'par': 0, 'via': 'plain', 'wvia': 'plain'}]})
    # every cell of the table with a competing refusal: the plane's pixel scale differs from the wavefront's. A "Not allowed"
    # cell must still raise TypeError (the type is checked before anything else); an allowed one raises ValueError
    for s in WTYPES:
        for p in PTYPES:
            out.append({'start': s, 'mode': 'field', 'ops': [{'k': 'pt', 'pt': p, 'arr': False, 'par': 0, 'via': 'plain', 'wvia': 'plain', 'pxs': 'diff'}]})
        for c in CLASSES:
            out.append({'start': s, 'mode': 'field', 'ops': [{'k': 'cls', 'cls': c, 'arr': True, 'par': 1, 'via': 'plain', 'wvia': 'plain', 'pxs': 'diff'},
                                                             {'k': 'cls', 'cls': c, 'arr': False, 'par': 1, 'via': 'plain', 'wvia': 'plain', 'pxs': 'same'}]})
    # a caller-supplied plane type through each constructor of the Tilt family (TiltInterface pops `ptype` from kwargs)
    for s in WTYPES:
        for p in PTYPES:
            for ctor in TILT_FAMILY:
                out.append({'start': s, 'mode': 'field', 'ops': [{'k': 'pt', 'pt': p, 'ctor': ctor, 'arr': False, 'par': 1, 'via': 'plain', 'wvia': 'plain'}, {'k': 'prop', 'fft': False, 'par': 0, 'wvia': 'plain'}]})
    # every class / ptype once through each route, from each start type
    for s in WTYPES:
        for via in ('pickle', 'deepcopy', 'direct'):
            for c in CLASSES: out.append({'start': s, 'mode': 'field', 'ops': [{'k': 'cls', 'cls': c, 'arr': False, 'par': 1, 'via': via, 'wvia': 'plain'}, {'k': 'prop', 'fft': False, 'par': 0, 'wvia': via if via != 'direct' else 'plain'}]})
            for p in PTYPES: out.append({'start': s, 'mode': 'field', 'ops': [{'k': 'pt', 'pt': p, 'arr': False, 'par': 0, 'via': via, 'wvia': 'pickle'}]})
    return out

def _opname(o):
    n = o['cls'] if o['k'] == 'cls' else ((o.get('ctor') or 'pt') + ':' + o['pt'] if o['k'] == 'pt' else 'prop')
    v = ('x' if o.get('pxs') == 'diff' else '=' if o.get('pxs') == 'same' else '') + (o.get('via', 'plain')[0] if o.get('via', 'plain') != 'plain' else '') + (o.get('wvia', 'plain')[0].upper() if o.get('wvia', 'plain') != 'plain' else '')
    return n + ('~' + v if v else '')

def signature(c): return c['start'] + '/' + c.get('mode', 'field') + ' ' + ' '.join(_opname(o) for o in c['ops'])
def nontrivial(c): return len(c['ops']) > 1 or c['ops'][0]['k'] == 'prop'
def tags(c):
    t = ['start:' + c['start'], 'mode:' + c.get('mode', 'field'), 'len:%d' % min(len(c['ops']), 20)]
    t += sorted({('op:' + _opname(o).split('~')[0]) for o in c['ops']})
    t += NOTES.pop(id(c), [])
    t += sorted({'via:' + o.get('via', 'plain') for o in c['ops'] if o['k'] != 'prop'} | {'wavefront-via:' + o.get('wvia', 'plain') for o in c['ops']})
    return t

# ------------------------------------------------------------------------------------------ implementation
def _plane_px(o, w):
    """pixelscale keyword of the plane: absent, equal to the wavefront's, or different from it (a competing refusal:
    _mul_pixelscale raises ValueError for inconsistent pixel scales)"""
    pxs = o.get('pxs')
    if not pxs or o.get('cls') in ('Rotate', 'Flip'): return {}
    wp = None if w.pixelscale is None else float(np.asarray(w.pixelscale).ravel()[0])
    if pxs == 'same': return {'pixelscale': 1e-3 if wp is None else wp}
    return {'pixelscale': 2e-3 if wp is None else 2.0 * wp}

def _mkplane(o, w):
    import lentil
    px = _plane_px(o, w)
    amp = np.ones(tuple(w.shape)) if (o['arr'] and len(tuple(w.shape)) == 2 and 0 < int(np.prod(w.shape)) <= 4096) else 1
    par = o['par']
    if o['k'] == 'pt' and o.get('ctor'):
        pt = _direct_ptype(o['pt']) if o.get('via') == 'direct' else getattr(lentil, o['pt'])
        if o['ctor'] == 'Tilt': return lentil.Tilt(x=1e-7 * par, y=-2e-7 * par, ptype=pt, **px)
        return getattr(lentil, o['ctor'])(trace=[1.0, 0.0], dispersion=[1.0, 5e-7], ptype=pt, **px)
    if o['k'] == 'pt': return lentil.Plane(amplitude=amp, ptype=_direct_ptype(o['pt']) if o.get('via') == 'direct' else o['pt'], **px)
    c = o['cls']
    if c == 'Plane': return lentil.Plane(amplitude=amp, opd=1e-8 * par, **px)
    if c == 'Pupil': return lentil.Pupil(amplitude=amp, **px) if par == 3 else lentil.Pupil(amplitude=amp, focal_length=1.0 + par, **px)     # par 3: the default constructor (focal_length=None)
    if c == 'Image': return lentil.Image(amplitude=amp, **px)
    if c == 'Tilt': return lentil.Tilt(x=1e-7 * par, y=-2e-7 * par, **px)
    if c == 'DispersiveTilt': return lentil.DispersiveTilt(trace=[1.0, 0.0], dispersion=[1.0, 5e-7], **px)
    if c == 'Grism': return lentil.Grism(trace=[1.0, 0.0], dispersion=[1.0, 5e-7], **px)
    if c == 'LensletArray': return lentil.LensletArray(amplitude=amp, **px)
    if c == 'Rotate': return lentil.Rotate(angle=90 * par)
    if c == 'Flip': return lentil.Flip(axis=None if par == 0 else par % 2)
    return getattr(lentil, c)()        # a class this harness has no recipe for: default constructor

def _route(obj, via):
    import pickle, copy
    if via == 'pickle': return pickle.loads(pickle.dumps(obj))
    if via == 'deepcopy': return copy.deepcopy(obj)
    return obj

def _direct_ptype(name):
    """a PType built by the class itself, not by the lentil.ptype() factory"""
    import sys
    vlib.import_lentil()
    return sys.modules['lentil.ptype'].PType(name)

def _snap_arr(a):
    a = np.asarray(a)
    return (a.shape, str(a.dtype), a.tobytes())

def _snap_w(w):
    return (str(w.ptype), None if w.pixelscale is None else repr(np.asarray(w.pixelscale).tolist()), repr(w.focal_length), repr(w.wavelength),
            tuple(np.asarray(w.shape).tolist()) if w.shape is not None else None,
            tuple((id(f), _snap_arr(f.data), tuple(f.offset), tuple((id(t), _tilt_state(t)) for t in f.tilt)) for f in w.data))

def _tilt_state(t):
    return tuple(sorted((k, repr(v) if not isinstance(v, np.ndarray) else _snap_arr(v)) for k, v in vars(t).items()
                        if k in ('x', 'y', 'trace', 'dispersion', '_ptype', 'focal_length', 'angle', 'axis', 'order')))

def _snap_p(p):
    # every instance attribute by value (arrays by bytes; _slice, trace, dispersion, _diameter, _pixelscale … included)
    def val(v):
        if isinstance(v, np.ndarray): return _snap_arr(v)
        if isinstance(v, list) and all(hasattr(x, 'multiply') for x in v): return tuple(id(x) for x in v)
        return repr(v)
    return (str(p.ptype), tuple(sorted((k, val(v)) for k, v in vars(p).items())))

def impl(case):
    lentil = vlib.import_lentil()
    with warnings.catch_warnings():
        warnings.simplefilter('ignore')
        mode = case.get('mode', 'field')
        if mode == 'empty':
            w = lentil.Wavefront.empty(5e-7, pixelscale=1e-3, focal_length=2.0, shape=(4, 4), ptype=case['start'])
        elif mode == 'disjoint':
            A = np.zeros((8, 8)); A[0:3, 0:3] = 1
            B = np.zeros((8, 8)); B[5:8, 5:8] = 1
            w = lentil.Plane(amplitude=B, pixelscale=1e-3).multiply(lentil.Plane(amplitude=A, pixelscale=1e-3).multiply(lentil.Wavefront(5e-7, focal_length=2.0)))
            w.ptype = case['start']
        elif mode == 'bare':
            w = lentil.Wavefront(5e-7, pixelscale=1e-3, focal_length=2.0, ptype=case['start'])
        elif mode == 'multi':
            seg = np.zeros((2, 8, 8)); seg[0, 1:4, 1:4] = 1; seg[1, 4:7, 4:7] = 1
            w = lentil.Plane(amplitude=np.ones((8, 8)), mask=seg, pixelscale=1e-3).multiply(lentil.Wavefront(5e-7, focal_length=2.0))
            w.ptype = case['start']
            if len(w.data) != 2: return {'exc': 'start-not-two-fields'}
        else:
            w = lentil.Plane(amplitude=np.ones((4, 4)), pixelscale=1e-3).multiply(lentil.Wavefront(5e-7, focal_length=2.0))
            w.ptype = case['start']
        if mode in ('empty', 'disjoint') and len(w.data) != 0: return {'exc': 'start-not-empty'}
        if str(w.ptype) != case['start']: return {'exc': 'start'}
        trace, mutated, ptypes, tilts, changed_ok, pxconf, msgs, nofocal = [], [], [], [], [], [], [], []
        for i, o in enumerate(case['ops']):
            w = _route(w, o.get('wvia', 'plain'))
            if o['k'] == 'prop':
                plane = None
                sw = _snap_w(w)
                tilts.append(None); pxconf.append(False); nofocal.append(('none' if w.data else 'none-nodata') if w.focal_length is None else ('inf' if not np.isfinite(w.focal_length) else False))
                try:
                    N = 8
                    du = 5e-6 if (w.focal_length is None or not np.isfinite(w.focal_length) or w.pixelscale is None) else w.wavelength * w.focal_length / (N * w.pixelscale[0])
                    if o['fft'] and w.data:
                        tilts[-1] = bool(any(f.tilt for f in w.data))
                        w2 = lentil.propagate_fft(w, pixelscale=du, oversample=1)
                    else:
                        w2 = lentil.propagate_dft(w, pixelscale=du, shape=(4 + o['par'], 6), oversample=1 + o['par'] % 2)
                    if _snap_w(w) != sw: changed_ok.append([i, 'wavefront'])
                    trace.append(str(w2.ptype)); w = w2
                    msgs.append(None)
                except Exception as e:
                    trace.append(type(e).__name__); msgs.append(str(e)[:90])
                    if _snap_w(w) != sw: mutated.append([i, 'wavefront'])
                ptypes.append(None)
                continue
            plane = _route(_mkplane(o, w), o.get('via', 'plain'))
            pp_, wp_ = getattr(plane, 'pixelscale', None), w.pixelscale
            pxconf.append(bool(pp_ is not None and wp_ is not None and o.get('cls') not in ('Rotate', 'Flip')
                               and not np.allclose(np.asarray(pp_, dtype=float), np.asarray(wp_, dtype=float), rtol=0, atol=0)))
            ptypes.append(str(plane.ptype))
            sw, sp = _snap_w(w), _snap_p(plane)
            tilts.append(None); nofocal.append(False)
            try:
                w2 = plane.multiply(w) if i % 2 else w * plane
                if w2 is not w and _snap_w(w) != sw: changed_ok.append([i, 'wavefront'])
                if _snap_p(plane) != sp: changed_ok.append([i, 'plane'])
                trace.append(str(w2.ptype)); w = w2; msgs.append(None)
            except Exception as e:
                trace.append(type(e).__name__); msgs.append(str(e)[:90])
                if _snap_w(w) != sw: mutated.append([i, 'wavefront'])
                if _snap_p(plane) != sp: mutated.append([i, 'plane'])
        if any(nf and t_ not in WTYPES and not _documented_typeerror(m_) for nf, t_, m_ in zip(nofocal, trace, msgs)): NOTES[id(case)] = ['propagate:no-focal-length:accidental-exception']
        if any(nf in ('inf', 'none-nodata') and t_ in WTYPES for nf, t_ in zip(nofocal, trace)): NOTES.setdefault(id(case), []).append('propagate:infinite-focal-length:returned-a-wavefront')
        return {'trace': trace, 'mutated': mutated, 'ptypes': ptypes, 'tilts': tilts, 'changed_ok': changed_ok, 'pxconf': pxconf, 'msgs': msgs, 'nofocal': nofocal}

DOC_TYPEERRORS = ("can't multiply Wavefront with ptype", "Wavefront must have ptype", 'invalid ptype', 'cannot be type')

def _documented_typeerror(msg):
    return msg is not None and any(t in msg for t in DOC_TYPEERRORS)

def _stepwise(case, io):
    """programs with explicit ptypes or with an fft applied to a tilt-carrying wavefront are compared step by step from the
    observed state (the class machine carries neither an explicit ptype nor the tilt flag)"""
    return any(o['k'] == 'pt' for o in case['ops']) or any(t for t in io.get('tilts', []) if t) or any(io.get('pxconf', [])) or any(io.get('nofocal', []))

def requests(case, io):
    if 'trace' not in io: return []
    reqs = []
    if not _stepwise(case, io):
        reqs.append({'op': 'c08.class_run', 'start': case['start'], 'ops': [o['cls'] if o['k'] == 'cls' else 'prop' for o in case['ops']]})
    for c in sorted({o['cls'] for o in case['ops'] if o['k'] == 'cls'}):
        reqs.append({'op': 'c08.class_ptype', 'cls': c})
    if _stepwise(case, io):
        cur = case['start']
        for o, r, t in zip(case['ops'], io['trace'], io['tilts']):
            if o['k'] == 'pt': reqs.append({'op': 'c08.type_run', 'start': cur, 'ops': [o['pt']]})
            elif o['k'] == 'prop' and t is not None: reqs.append({'op': 'c08.fft_step', 'start': cur, 'tilt': bool(t)})
            else: reqs.append({'op': 'c08.class_run', 'start': cur, 'ops': [o['cls'] if o['k'] == 'cls' else 'prop']})
            if r in WTYPES: cur = r
    return reqs

def compare(case, io, mo):
    if 'trace' not in io: return f'implementation could not build the start wavefront: {io}'
    k = 0
    step = _stepwise(case, io)
    if not step:
        m = mo[k]; k += 1
        if not m.get('ok'): return f'model refused: {m}'
        if m['trace'] != io['trace']: return f"trace: impl {io['trace']} model {m['trace']}"
    seen = {}
    for o, p in zip(case['ops'], io['ptypes']):
        if o['k'] == 'cls': seen[o['cls']] = p
    for c in sorted(seen):
        m = mo[k]; k += 1
        if m.get('ptype') != seen[c]: return f"ptype of lentil.{c}(): impl {seen[c]} model {m.get('ptype')}"
    if step:
        for i, (o, r) in enumerate(zip(case['ops'], io['trace'])):
            m = mo[k]; k += 1
            if not m.get('ok'): return f'model refused: {m}'
            if io['nofocal'][i] and m['trace'][0] in WTYPES and r not in WTYPES and not _documented_typeerror(io['msgs'][i]):
                continue      # a wavefront without focal length cannot be propagated (accidental TypeError on None): ASSUMPTIONS, counted
            if io['pxconf'][i] and m['trace'][0] in WTYPES:
                # the type rule allows the product but the pixel scales are inconsistent: ValueError (the type model has no pixel scale)
                if r != 'ValueError': return f"step {i} ({_opname(o)}): inconsistent pixel scales, impl {r}, expected ValueError"
                continue
            if m['trace'] != [r]: return f"step {i} ({_opname(o)}): impl {r} model {m['trace'][0]}"
    return None

# ------------------------------------------------------------------------------------------ oracle
_DOC = {}
def _doc():
    """the documented tables, parsed independently of the generator (plain regular expressions on the RST text)"""
    if _DOC: return _DOC
    t = open(os.path.join(vlib.REPO, 'docs/user/fundamentals/wavefront.rst')).read()
    t = t[t.index('Multiplication rules'):]
    rows = re.findall(r'(?m)^\|\s*``(\w+)``\s*\|([^|]*)\|([^|]*)\|([^|]*)\|', t)
    mul = {}
    for r in rows:
        if r[0] in PTYPES and r[0] not in [k[1] for k in mul]:
            for w, v in zip(WTYPES, r[1:]):
                v = v.strip().strip('`')
                mul[(w, r[0])] = v if v in WTYPES else None
    t = open(os.path.join(vlib.REPO, 'docs/user/fundamentals/planes.rst')).read()
    cls = {}
    for m in re.finditer(r'(?m)^:class:`(\w+)`\s+((?::class:`~lentil\.\w+`,?\s*)+)$', t):
        for n in re.findall(r'~lentil\.(\w+)', m.group(2)): cls[n] = m.group(1)
    _DOC.update({'mul': mul, 'cls': cls})
    return _DOC

def _doc_ptype(cname):
    import lentil
    d = _doc()['cls']
    for k in getattr(lentil, cname).__mro__:
        if k.__name__ in d: return d[k.__name__]
    return None

def oracle(case, io):
    if 'trace' not in io: return None
    d = _doc()
    if len(d['mul']) != 15: return 'documented multiplication table could not be read (15 cells expected)'
    cur = case['start']
    msgs = []
    for i, (o, r) in enumerate(zip(case['ops'], io['trace'])):
        if o['k'] == 'prop':
            want = {'pupil': 'image', 'image': 'pupil'}.get(cur, 'TypeError')
            what = f"propagate_{'fft' if o['fft'] else 'dft'} from '{cur}'"
            if io['nofocal'][i] == 'none' and want in WTYPES and r in WTYPES:
                msgs.append(f"step {i}: {what} on a wavefront without a (finite) focal length returned a '{r}' wavefront; it must fail loudly")
                continue
            if io['nofocal'][i] and want in WTYPES and r not in WTYPES and not _documented_typeerror(io['msgs'][i]):
                # reported defect candidate (see ASSUMPTIONS): Pupil() with its default focal_length=None hands None to the wavefront
                continue
            if io['tilts'][i]:
                # propagate_fft does not support fitted tilt and says so before it looks at the type (ASSUMPTIONS)
                want = 'NotImplementedError'; what += ' carrying fitted tilt'
        else:
            p = o['pt'] if o['k'] == 'pt' else _doc_ptype(o['cls'])
            if o['k'] == 'pt' and io['ptypes'][i] != p:
                msgs.append(f"step {i}: lentil.{o.get('ctor') or 'Plane'}(ptype=lentil.{p}) has ptype '{io['ptypes'][i]}'")
            want = d['mul'][(cur, p)] or 'TypeError'
            if io['pxconf'][i] and want != 'TypeError': want = 'ValueError'
            what = (f"lentil.{o['cls']}.multiply" if o['k'] == 'cls' else f"{o.get('ctor') or 'Plane'}(ptype='{p}').multiply") + f" (documented ptype '{p}') on a '{cur}' wavefront" + (' with a pixel scale different from the wavefront\'s' if io['pxconf'][i] else '')
            if o['k'] == 'cls' and io['ptypes'][i] != p:
                msgs.append(f"step {i}: {what} gave {r}, documented {want}; lentil.{o['cls']}() has ptype '{io['ptypes'][i]}', documented '{p}'")
                if r in WTYPES: cur = r
                continue
        if r == 'TypeError' and want == 'TypeError' and not _documented_typeerror(io['msgs'][i]):
            msgs.append(f"step {i}: {what} raised a TypeError that is not the documented refusal: {io['msgs'][i]!r}")
        if r != want: msgs.append(f'step {i}: {what} gave {r}, documented {want}')
        if r in WTYPES: cur = r
    for i, which in io.get('changed_ok', []):
        msgs.append(f"step {i} ({_opname(case['ops'][i])}) was accepted but changed its operand: the {which}")
    for i, which in io['mutated']:
        msgs.append(f"step {i} ({_opname(case['ops'][i])}) was refused but changed the {which}")
    if not msgs: return None
    # wrong types / wrong refusals first; steps that died with an exception class foreign to the table last
    msgs.sort(key=lambda m: any(f'gave {e}' in m for e in ('AttributeError',)))
    return msgs[0]

def shrink(c):
    ops = c['ops']
    for i in range(len(ops)):
        yield {'start': c['start'], 'mode': c.get('mode', 'field'), 'ops': ops[:i] + ops[i + 1:]}

# ------------------------------------------------------------------------------------------ known findings
def matches_finding(kf, case, msg):
    m = kf.get('match', {})
    return any(c in msg for c in m.get('call', [])) and m.get('outcome', '') in msg

def replay_finding(kf):
    lentil = vlib.import_lentil()
    out = []
    for name in ('Rotate', 'Flip'):
        p = getattr(lentil, name)()
        try:
            p.multiply(lentil.Wavefront(5e-7)); out.append(False)
        except AttributeError:
            out.append(True)
        except Exception:
            out.append(False)
        out.append(str(p.ptype) != 'transform')
    return any(out)
