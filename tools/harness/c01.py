"""C01 — the matrix-triple-product DFT equals the defining Fourier sum and is invertible.

Tie: Model/Fourier.lean (`dft2`, `idft2`, hand model of lentil/fourier.py, generic in the value type) is run at
complex doubles by the driver (ops c01.dft2 / c01.idft2 / c01.roundtrip; c01.out / c01.iout run the out= buffer models (dft2Out / idft2Out) of
Model/FourierOut.lean and their outcome — written / TypeError / ValueError — is compared with the real call's) and compared with the real
lentil.fourier.dft2 / idft2; the theorems of Props/C01.lean are about the very same definitions at K = ℂ, R = ℝ.
Oracle: extended-precision (np.longdouble) evaluation of the defining double sum, the round trip and Parseval."""
import numpy as np
import vlib
from vlib import fbits, bitsf

LEVEL_TEXT = ('Lean 4 theorems about the executable model of fourier.dft2/idft2 instantiated at ℂ/ℝ; the model is proved equal to the wiring regenerated from fourier.py on every run (centring, which offset/shift/sampling feeds which matrix factor, .T, product order, unitary factor, idft2 plumbing); for all shapes, real '
              'samplings α_r ≠ α_c, real shifts, integer offsets and both flags: the triple product equals the defining double sum '
              'with factor √|α_r α_c| exactly when unitary; linearity; zero-padded embedding = sub-array with offset; shift = input phase ramp; idft2 equals its own defining sum (any sampling, shape, shift, both flags); on a full or oversampled period (α = 1/K, K ≥ m, same flag) '
              'idft2 ∘ dft2 = id; with integer offsets forward, an integer shift back and any real forward shift the full-period round trip is the circularly rolled input times the shift\'s phase ramp (idft2_dft2_full_period_rolled), on an oversampled period with a forward real shift the input times that ramp (idft2_dft2_oversampled_shifted); under the unitary flag dft2 and idft2 conserve Σ|·|² (roots-of-unity orthogonality); out= of dft2 in a buffer model (guard regenerated, np.dot\'s acceptance condition by hand): which buffers are written, and that a written buffer holds the values of a fresh allocation, i.e. the defining sum (dft2_out_buffer_holds_defining_sum); the plain calls dft2(f, α) / idft2(F, α) — every other argument at its default, regenerated from the signatures — invert each other at α = 1/n and the forward one is the unitary centred transform (default_calls_roundtrip); out= of idft2 in the same buffer model (out handed to dft2, conjugation and division in place: three flags regenerated from idft2\'s statements): the same buffers are written (idft2_out_accepted_iff) and a written buffer is the returned object and holds the values of idft2 without out=, i.e. the defining inverse sum, for both flags (idft2_out_buffer, idft2_out_buffer_holds_defining_sum). The '
              'same model definitions are run at complex doubles against the real functions on every check.')
LEVEL_NOTE = ('Trusted: Lean kernel + Mathlib; that np.dot/np.outer/np.exp compute the sums/products/exponentials the hand model '
              'writes (checked differentially to 1e-9 relative, not proved); floating-point rounding is not modelled. The out= '
              'clause: dft2_out_buffer / dft2_out_accepted_iff are about a buffer model whose acceptance condition (exactly complex128, shape (M, N), C-contiguous by strides, writeable) is NumPy\'s np.dot(out=) contract written by hand — trusted, and compared with the real outcome on every generated buffer (ops c01.out, c01.iout); idft2_out_buffer is about idft2Out, which follows the regenerated flags Gen.fwIdft2PassesOut / ConjInPlace / DivideInPlace (that np.conj(X, out=X) and np.divide(X, n, out=X) write X and return it is NumPy\'s contract, trusted, observed); out=f (aliasing) and alignment have no model: correspondence and oracle only.')
TECHNIQUE = 'Lean 4 proof (Finset sums, Complex.exp, primitive roots of unity) over a generic executable model + differential correspondence'
GEN = ['FourierWiring', 'Extent', 'FieldIdx', 'FieldMerge', 'FieldDispatch']
OPS = ['C01']
RULE = ('cases: dft2 / idft2 with input and output shapes drawn independently from 1..7 (thorough 1..12 with a 5 % tail up to 16; forced 1x1, single row/column, '
        'even/odd, non-square), complex Gaussian data, per-axis α drawn independently from {1/n_in, 1/n_out, random in ±(0.01,0.6)}, '
        'real shifts in [-3,3], integer offsets in [-9,9], both flags, scalar / pair / default forms of alpha, shape, shift, offset, the unitary flag omitted on a third of the unitary calls (the model then takes the regenerated default), complex / float / int64 input, with and without out= (incl. float64 / int64 buffers that must be refused with TypeError; idft2 cases carry the same buffer classes and are run through the idft2 buffer model), the call made on the caller\'s own array, full and oversampled round trips, C / Fortran / strided / read-only inputs, out= buffers of every class dft2\'s guard or np.dot(out=) distinguishes (Fortran-ordered — accepted when a single row/column —, strided, read-only, complex64, clongdouble, object, wrong shape, transposed, 1-D, complex64 of the wrong shape: the buffer model\'s outcome must be the real one; for the oracle an exception or the right values, never silently something else), full-period round trips of which half carry integer offsets forward and an integer shift back and a quarter a real forward shift too (drawn from a sub-stream seeded by the case\'s first sample), bursts of repeated shapes with fresh '
        'offsets (coordinate cache); all-zero and single-sample input planes (complex / float / int64) written by dft2 and idft2 into a pre-filled non-zero out= buffer (12 per quick run, 200 thorough, a leading block of 60 in the search tier: the buffer must hold the zeros of a fresh allocation, not its stale contents); plus full-period round trips. distinct = (kind, shapes, α class per axis, shift/offset zero-ness, '
        'flags) signature with values; non-trivial = outside the region the test-suite samples (square α = 1/n isotropic, zero '
        'shift and offset, fresh allocation) A ≈5 % sample (search tier: a leading block of 260 + a >32-key cache-churn sequence) comes from an extremes stream: samplings within 3e-5 … one ulp of 1/n on centred same-shape transforms, in-place out=f, 1-D-like arrays of up to 1025 rows (quick ≤ 100), data at 1e-150 … 1e150, int8…uint32 inputs at their limits, shifts within 1e-9 of integers, shifts to 1e3, offsets to ±1000, samplings 1e-9 … 10; all tolerances are relative to Σ|f|.')
TRUSTED = ['np.dot(A, B, out=buf) accepts buf exactly when it is a writeable, aligned, C-contiguous complex128 array of the result\'s shape and raises ValueError otherwise; np.can_cast(complex, dtype) is true for complex128 / clongdouble / object and false for complex64 / float64 / int64 (Model/FourierOut.lean dotAccepts, BufDtype.canCastComplex: written by hand, compared with the real outcome on every generated buffer, for dft2 and for idft2)',
           'np.conj(X, out=X) and np.divide(X, n, out=X) overwrite X with the conjugate / quotient and return X itself (Model/FourierOut.lean idft2Out; observed by c01.iout: the real buffer after the call holds the returned values and is the returned object)',
           'np.dot / np.outer / np.exp / np.conj / np.multiply(out=) compute the products, sums and exponentials written in '
           'Model/Fourier.lean (observed through the 1e-9 relative tolerance of the correspondence, not proved)',
           'functools.lru_cache on _dft2_coords returns the arrays it was given (history independence is only observed: bursts of '
           'repeated shapes in the generator)']
UNPROVEN = ['out=: the theorems are about a buffer model; its np.dot(out=) acceptance condition is NumPy\'s contract written by hand (trusted, observed by c01.out on every generated buffer), only dft2\'s own dtype guard and "the result is the buffer" are regenerated. Not in the model: the in-place call out=f (buffer aliasing the input; relies on NumPy evaluating E1.dot(f) before writing — in-place correspondence cases only), alignment, non-2-D or empty results. idft2(out=) is in the buffer model since wave 12 (idft2Out; idft2_out_buffer), its aliasing call out=F is not',
            'the rolled round trip is proved on a full period only (α = 1/m, 1/n, output shape = input shape); on an oversampled period a forward real shift is proved to give the phase-ramped copy (idft2_dft2_oversampled_shifted); with offsets or an inverse shift on an oversampled period no theorem describes it and it is not generated; a non-integer inverse shift has no theorem']
ASSUMPTIONS = ['shapes are at least 1x1; α, shifts real; offsets integers; inversion/Parseval only claimed on a full period '
               '(α = 1/m, 1/n, output shape = input shape; zero shift/offset for idft2 ∘ dft2 = id, integer offsets and integer inverse shift for the rolled form) with the same flag on both sides; out= buffers are aligned and do not overlap the input (except the in-place cases, oracle only)']

LD = np.longdouble
PI_LD = LD(4) * np.arctan(LD(1))


# ------------------------------------------------------------------------------------------ generation
def _shape(rng, kmax):
    t = rng.integers(0, 10)
    if t == 0: return (1, 1)
    if t == 1: return (1, int(rng.integers(2, kmax + 1))) if rng.integers(0, 2) else (int(rng.integers(2, kmax + 1)), 1)
    if t == 2:
        k = int(rng.integers(1, kmax + 1)); return (k, k)
    return (int(rng.integers(1, kmax + 1)), int(rng.integers(1, kmax + 1)))

def _alpha(rng, n_in, n_out):
    t = rng.integers(0, 6)
    if t == 0: return 1.0 / n_in, '1/n'
    if t == 1: return 1.0 / n_out, '1/N'
    a = float(rng.uniform(0.01, 0.6))
    if t == 2: a = -a
    return a, 'free'

def _data(rng, shape):
    m, n = shape
    if rng.integers(0, 5) == 0:
        re = rng.integers(-3, 4, m * n).astype(float); im = rng.integers(-3, 4, m * n).astype(float)
    else:
        re = rng.normal(size=m * n); im = rng.normal(size=m * n)
    if rng.integers(0, 8) == 0: im = np.zeros(m * n)
    return [float(x) for x in re], [float(x) for x in im]

def _case(rng, kmax, prev=None):
    kind = ['dft2', 'dft2', 'dft2', 'idft2', 'round'][int(rng.integers(0, 5))]
    if prev is not None and prev['kind'] != 'round' and rng.integers(0, 4) == 0:
        kind, shape, oshape = prev['kind'], tuple(prev['shape']), tuple(prev['oshape'])       # coordinate-cache burst
    else:
        shape = _shape(rng, kmax)
        oshape = shape if rng.integers(0, 4) == 0 else _shape(rng, kmax)
    re, im = _data(rng, shape)
    unitary = bool(rng.integers(0, 2))
    if kind == 'round':
        per = list(shape)
        if rng.integers(0, 2):       # oversampled period: forward onto K x L >= shape, inverse back onto the input shape
            per = [shape[0] + int(rng.integers(0, 4)), shape[1] + int(rng.integers(0, 4))]
        c = {'kind': 'round', 'shape': list(shape), 'oshape': list(shape), 're': re, 'im': im, 'period': per,
             'alpha': [1.0 / per[0], 1.0 / per[1]], 'aclass': ['1/n', '1/n'], 'shift': [0.0, 0.0], 'offset': [0, 0],
             'unitary': unitary, 'out': bool(rng.integers(0, 2)), 'layout': ['C', 'C', 'F', 'strided', 'readonly'][int(rng.integers(0, 5))]}
        return _roll_variant(c)
    ar, cr = _alpha(rng, shape[0], oshape[0]); ac, cl = _alpha(rng, shape[1], oshape[1])
    if rng.integers(0, 6) == 0:      # full period, so that Parseval is also evaluated on these kinds
        oshape = shape; ar, ac, cr, cl = 1.0 / shape[0], 1.0 / shape[1], '1/n', '1/n'; unitary = True
    shift = [0.0, 0.0] if rng.integers(0, 4) == 0 else [float(rng.uniform(-3, 3)), float(rng.uniform(-3, 3))]
    if rng.integers(0, 6) == 0: shift = [float(rng.integers(-3, 4)), float(rng.integers(-3, 4))]
    offset = [0, 0] if (kind == 'idft2' or rng.integers(0, 4) == 0) else [int(rng.integers(-9, 10)), int(rng.integers(-9, 10))]
    forms = {}
    if rng.integers(0, 4) == 0:          # the documented scalar / default argument forms (broadcast_to(x, (2,)) paths)
        t = int(rng.integers(0, 4))
        if t == 0: ac, cl = ar, cr; forms['alpha'] = 'scalar'
        elif t == 1: oshape = (oshape[0], oshape[0]); forms['shape'] = 'scalar'
        elif t == 2: shift = [shift[0], shift[0]]; forms['shift'] = 'scalar'
        else: ac, cl = ar, cr; oshape = (oshape[0], oshape[0]); shift = [shift[0], shift[0]]; forms.update(alpha='scalar', shape='scalar', shift='scalar')
    if oshape == shape and rng.integers(0, 2): forms['shape'] = 'none'
    if shift == [0.0, 0.0] and rng.integers(0, 2): forms['shift'] = 'default'
    if offset == [0, 0] and kind == 'dft2' and rng.integers(0, 2): forms['offset'] = 'default'
    if kind == 'dft2' and offset[0] == offset[1] and rng.integers(0, 2): forms['offset'] = 'scalar'
    dtype = 'complex'
    if not any(im) and rng.integers(0, 2): dtype = 'int' if all(x == round(x) for x in re) else 'float'
    outk = ['none', 'none', 'ok', 'ok', 'float', 'fortran', 'strided', 'complex64', 'wrongshape'][int(rng.integers(0, 9))] if rng.integers(0, 2) else 'none'
    layout = ['C', 'C', 'C', 'F', 'strided', 'readonly'][int(rng.integers(0, 6))]
    outk = _refine_out(outk, shape, oshape, unitary)
    # a third of the unitary calls omit the flag (default regenerated: Gen.fwDft2DefaultUnitary / fwIdft2DefaultUnitary); chosen by the
    # case's shapes, not the random stream, so that existing seeds keep their cases
    if unitary and (shape[0] + 2 * shape[1] + 3 * oshape[0] + oshape[1]) % 3 == 0: forms['unitary'] = 'default'
    return {'kind': kind, 'shape': list(shape), 'oshape': list(oshape), 're': re, 'im': im, 'alpha': [ar, ac], 'aclass': [cr, cl],
            'shift': shift, 'offset': offset, 'unitary': unitary, 'out': outk == 'ok', 'out_kind': outk, 'forms': forms, 'dtype': dtype, 'layout': layout}

def _refine_out(outk, shape, oshape, unitary):
    """more buffer classes without consuming the main random stream (so that existing seeds keep their cases): the variant is a
    function of the case's shapes. Every class np.dot(out=) or dft2's guard distinguishes is reached: Fortran order (accepted for a
    single row / column / 1x1), strided, read-only, complex64, clongdouble, object, float64, int64, wrong shape, transposed, 1-D,
    complex64 of the wrong shape (guard before np.dot)."""
    v = (shape[0] * 5 + shape[1] * 3 + oshape[0] * 2 + oshape[1] + int(unitary))
    if outk == 'strided': return ['strided', 'readonly'][v % 2]
    if outk == 'complex64': return ['complex64', 'clongdouble', 'object', 'complex64-wrongshape'][v % 4]
    if outk == 'wrongshape': return ['wrongshape', 'onedim', 'transposed' if oshape[0] != oshape[1] else 'wrongshape'][v % 3]
    if outk == 'float': return ['float', 'int'][v % 2]
    return outk

BUFFER_KINDS = ('ok', 'float', 'int', 'fortran', 'strided', 'readonly', 'complex64', 'clongdouble', 'object', 'complex64-wrongshape',
                'wrongshape', 'onedim', 'transposed')

def _make_buf(c):
    """the caller's out= buffer of the case (pre-filled, so that 'whatever it held' is exercised)"""
    M, N = c['oshape']; k = c.get('out_kind', 'ok' if c['out'] else 'none')
    mk = {'ok': lambda: np.full((M, N), 7.5 - 2.5j, dtype=complex),
          'float': lambda: np.zeros((M, N), dtype=float), 'int': lambda: np.zeros((M, N), dtype=np.int64),
          'fortran': lambda: np.full((M, N), 7.5 - 2.5j, dtype=complex, order='F'),
          'strided': lambda: np.zeros((M, 2 * N), dtype=complex)[:, ::2],
          'readonly': lambda: _ro(np.zeros((M, N), dtype=complex)),
          'complex64': lambda: np.zeros((M, N), dtype=np.complex64), 'clongdouble': lambda: np.zeros((M, N), dtype=np.clongdouble),
          'object': lambda: np.zeros((M, N), dtype=object), 'complex64-wrongshape': lambda: np.zeros((M + 1, N), dtype=np.complex64),
          'wrongshape': lambda: np.zeros((M + 1, N), dtype=complex), 'onedim': lambda: np.zeros((M * N,), dtype=complex),
          'transposed': lambda: np.zeros((N, M), dtype=complex)}
    return mk[k]()

def _ro(a):
    a.flags.writeable = False; return a

def _buf_desc(b):
    """what the buffer model is told about the buffer: dtype name, shape, strides in elements, writeable"""
    names = {np.dtype(complex): 'complex128', np.dtype(np.complex64): 'complex64', np.dtype(np.clongdouble): 'clongdouble',
             np.dtype(float): 'float64', np.dtype(np.int64): 'int64', np.dtype(object): 'object'}
    return {'dtype': names[b.dtype], 'shape': [int(x) for x in b.shape], 'strides': [int(x // b.itemsize) for x in b.strides],
            'writeable': bool(b.flags.writeable)}

def _roll_variant(c):
    """half of the full-period round trips carry integer offsets forward and an integer shift back (a circular roll), half of those a
    real forward shift as well (a phase ramp on top): idft2_dft2_full_period_rolled. Drawn from a sub-stream seeded by the case's
    first sample so that the main stream — and with it the cases of existing seeds — is unchanged."""
    if c['period'] != c['shape']: return c
    sub = np.random.default_rng(fbits(c['re'][0]) % (2 ** 63))
    if sub.integers(0, 2) == 0: return c
    c['offset'] = [int(sub.integers(-4, 5)), int(sub.integers(-4, 5))]
    c['ishift'] = [int(sub.integers(-4, 5)), int(sub.integers(-4, 5))]
    if sub.integers(0, 2): c['shift'] = [float(sub.uniform(-2, 2)), float(sub.uniform(-2, 2))]
    return c

def _blank(kind, shape, oshape, re, im, alpha, unitary, **kw):
    c = {'kind': kind, 'shape': list(shape), 'oshape': list(oshape), 're': re, 'im': im, 'alpha': list(alpha), 'aclass': ['free', 'free'],
         'shift': [0.0, 0.0], 'offset': [0, 0], 'unitary': unitary, 'out': False, 'out_kind': 'none', 'forms': {}, 'dtype': 'complex'}
    c.update(kw); return c

def _extreme(rng, heavy):
    """the extremes stream: inputs a small random sample never reaches — samplings within 1e-5 .. one ulp of 1/n, in-place out=f,
    hundreds to a thousand rows (1-D-like so that the call stays cheap), data at 1e-9 and 1e9, integer dtypes at their limits,
    shifts within 1e-9 of integers, large shifts/offsets. `heavy` allows > 300 rows (search tier only)."""
    t = int(rng.integers(0, 7))
    unitary = bool(rng.integers(0, 2))
    if t == 0:      # sampling close to, but not equal to, critical sampling; same shape, centred
        shape = _shape(rng, 7)
        d = [1e-5, 5e-6, 1e-6, 1e-7, -1e-6, -7e-6, 3e-5][int(rng.integers(0, 7))]
        alpha = [(1.0 / shape[0]) * (1 + d), (1.0 / shape[1]) * (1 + (d if rng.integers(0, 2) else 0.0))]
        if rng.integers(0, 4) == 0: alpha = [float(np.nextafter(1.0 / shape[0], 2.0)), float(np.nextafter(1.0 / shape[1], 0.0))]
        re, im = _data(rng, shape)
        return _blank('dft2', shape, shape, re, im, alpha, unitary, aclass=['near-1/n', 'near-1/n'],
                      forms={'shape': 'none'} if rng.integers(0, 2) else {}, out_kind=['none', 'ok'][int(rng.integers(0, 2))])
    if t in (1, 2):  # in-place transform out=f (the form of tests/test_fourier.py::test_dft2_out), incl. many rows
        rows = [257, 300, 513, 1025][int(rng.integers(0, 4))] if (heavy and t == 1) else int([2, 5, 33, 64, 100][int(rng.integers(0, 5))])
        shape = (rows, int(rng.integers(1, 4))) if rng.integers(0, 4) else (int(rng.integers(1, 4)), rows)
        re, im = _data(rng, shape)
        alpha = [1.0 / shape[0], 1.0 / shape[1]] if rng.integers(0, 2) else [float(rng.uniform(0.001, 0.01)), float(rng.uniform(0.05, 0.4))]
        return _blank(['dft2', 'idft2'][int(rng.integers(0, 4) == 0)], shape, shape, re, im, alpha, unitary, out_kind='alias')
    if t == 3:       # many rows / columns, general sampling, output shape unrelated
        rows = int([200, 257, 400, 1025][int(rng.integers(0, 4))]) if heavy else int([65, 80, 100][int(rng.integers(0, 3))])
        shape = (rows, int(rng.integers(1, 3))); oshape = (int(rng.integers(1, 4)), rows) if rng.integers(0, 2) else (rows, 1)
        re, im = _data(rng, shape)
        return _blank('dft2', shape, oshape, re, im, [float(rng.uniform(0.0005, 0.004)), float(rng.uniform(0.0005, 0.3))], unitary,
                      shift=[float(rng.uniform(-3, 3)), float(rng.uniform(-3, 3))], offset=[int(rng.integers(-9, 10)), int(rng.integers(-9, 10))],
                      out_kind=['none', 'ok'][int(rng.integers(0, 2))])
    shape = _shape(rng, 7); oshape = _shape(rng, 7)
    re, im = _data(rng, shape)
    alpha = [float(rng.uniform(0.01, 0.6)), float(rng.uniform(0.01, 0.6))]
    if t == 4:       # data scale 1e-9 / 1e9 / 1e-300-ish, complex
        k = [1e-9, 1e9, 1e-150, 1e150][int(rng.integers(0, 4))]
        return _blank(['dft2', 'idft2'][int(rng.integers(0, 2))], shape, oshape, [x * k for x in re], [x * k for x in im], alpha, unitary,
                      shift=[float(rng.uniform(-3, 3)), 0.0])
    if t == 5:       # integer dtypes at their limits
        dt = ['int8', 'int16', 'int32', 'uint16', 'uint32'][int(rng.integers(0, 5))]
        info = np.iinfo(dt)
        v = rng.integers(max(info.min, -2 ** 31), min(info.max, 2 ** 32 - 1) + 1, shape[0] * shape[1])
        v[0] = info.max; v[-1] = info.min
        return _blank('dft2', shape, oshape, [float(x) for x in v], [0.0] * len(v), alpha, unitary, dtype=dt,
                      offset=[int(rng.integers(-9, 10)), int(rng.integers(-9, 10))])
    # shifts within 1e-9 of an integer / large shifts and offsets / tiny and large samplings
    sh = [float(rng.integers(-3, 4)) + float([1e-9, -1e-9, 1e-12, 0.0][int(rng.integers(0, 4))]), float([1e3, -250.5, 0.5, 1e-9][int(rng.integers(0, 4))])]
    al = [float([1e-9, 1e-3, 2.5, 10.0][int(rng.integers(0, 4))]), float(rng.uniform(0.01, 0.6))]
    return _blank('dft2', shape, oshape, re, im, al, unitary, shift=sh, offset=[int([-9, 9, 100, -1000][int(rng.integers(0, 4))]), 0])

def _churn(rng):
    """more distinct (m, n, M, N) keys than the coordinate cache holds (32), then the first keys again"""
    keys = [((int(a), int(b)), (int(d), int(e))) for a in (1, 2, 3) for b in (2, 3, 4) for d in (1, 3) for e in (2, 4)][:36]
    out = []
    for (sh, osh) in keys + keys[:6]:
        re, im = _data(rng, sh)
        out.append(_blank('dft2', sh, osh, re, im, [0.3, 0.2], True, shift=[0.25, -1.5], offset=[int(rng.integers(-3, 4)), int(rng.integers(-3, 4))]))
    return out

def _zero_out_case(rng, kmax):
    """an all-zero (one in four: all-zero but for a single sample) input plane written into a caller-supplied, pre-filled non-zero
    out= buffer (a work buffer reused for successive planes of which a later one is empty), dft2 and idft2, complex / float / int64
    input: the buffer must end up holding what a fresh allocation holds — zeros — not its stale contents (an early return on an empty
    input would leave them)"""
    while True:
        c = _case(rng, kmax)
        if c['kind'] in ('dft2', 'idft2'): break
    n = len(c['re']); t = int(rng.integers(0, 4))
    re, im = [0.0] * n, [0.0] * n
    if t == 3:
        k = int(rng.integers(0, n)); re[k] = float(rng.uniform(0.5, 2.0)) * (-1.0) ** int(rng.integers(0, 2)); im[k] = float(rng.normal())
    c.update({'re': re, 'im': im, 'out': True, 'out_kind': 'ok', 'zero_input': t != 3, 'dtype': ['complex', 'float', 'int', 'complex'][t]})
    return c

def generate(rng, tier):
    n, kmax = {'quick': (300, 7), 'thorough': (8000, 12), 'search': (700, 7)}[tier]
    out, prev = [], None
    if tier == 'search':                 # only run once a tie is already broken: the nasty inputs first
        out += [_zero_out_case(rng, 7) for _ in range(60)]
        out += [_extreme(rng, True) for _ in range(260)] + _churn(rng)
    for i in range(n):
        k = 16 if (tier == 'thorough' and rng.integers(0, 20) == 0) else kmax      # a 5 % tail of shapes up to 16
        if tier != 'search' and i % 20 == 7:                                       # ≈ 5 % sample of the extremes stream
            c = _extreme(rng, False); out.append(c); prev = None; continue
        c = _case(rng, k, prev); out.append(c); prev = c
    if tier == 'thorough': out += [_extreme(rng, True) for _ in range(150)] + _churn(rng)
    # appended after the main stream, so that the cases of existing seeds are unchanged
    if tier != 'search': out += [_zero_out_case(rng, kmax) for _ in range({'quick': 12, 'thorough': 200}[tier])]
    return out

def _full_period(c):
    return (c['oshape'] == c['shape'] and c['alpha'][0] == 1.0 / c['shape'][0] and c['alpha'][1] == 1.0 / c['shape'][1])

def signature(c):
    z = lambda v: 'z' if v[0] == 0 and v[1] == 0 else 'nz'
    return (f"{c['kind']} {c['shape']}->{c['oshape']} a={c['alpha']} sh={c['shift']} off={c['offset']} "
            f"u={int(c['unitary'])} out={c.get('out_kind', int(c['out']))} forms={sorted(c.get('forms', {}).items())} lay={c.get('layout')} per={c.get('period')} ish={c.get('ishift')} dt={c.get('dtype', 'complex')}")

def nontrivial(c):
    sq = c['shape'][0] == c['shape'][1] and _full_period(c)
    return not (sq and c['shift'] == [0.0, 0.0] and c['offset'] == [0, 0] and not c['out'] and c['kind'] == 'dft2')

def tags(c):
    t = [c['kind'], 'unitary' if c['unitary'] else 'non-unitary']
    if c['out']: t.append('out=')
    if c['alpha'][0] != c['alpha'][1]: t.append('alpha_r!=alpha_c')
    if _full_period(c): t.append('full-period')
    if c['shape'] != c['oshape']: t.append('oshape!=shape')
    if c['shape'][0] != c['shape'][1]: t.append('non-square')
    if c['shape'] == [1, 1]: t.append('1x1')
    if c['shift'] != [0.0, 0.0] and c['offset'] != [0, 0]: t.append('shift+offset')
    if c['offset'][0] != c['offset'][1]: t.append('off_r!=off_c')
    if c['alpha'][0] < 0 or c['alpha'][1] < 0: t.append('negative-alpha')
    for a in c['aclass']: t.append('alpha:' + a)
    if c.get('out_kind') == 'alias': t.append('out=f (in place)')
    if 'zero_input' in c: t.append('zero-input+out=' if c['zero_input'] else 'one-sample-input+out=')
    if max(c['shape'] + c['oshape']) > 64: t.append('rows>64')
    if max(c['shape'] + c['oshape']) > 256: t.append('rows>256')
    for k, v in c.get('forms', {}).items(): t.append(f'form:{k}={v}')
    if c.get('layout', 'C') != 'C': t.append('layout:' + c['layout'])
    if c.get('period', c['shape']) != c['shape']: t.append('oversampled-roundtrip')
    if c.get('out_kind') in BUFFER_KINDS[3:]: t.append('out=' + c['out_kind'])
    if c['kind'] == 'round' and (c['offset'] != [0, 0] or c.get('ishift', [0, 0]) != [0, 0]): t.append('roundtrip:rolled')
    if c['kind'] == 'round' and c['shift'] != [0.0, 0.0]: t.append('roundtrip:phased')
    if c.get('dtype', 'complex') != 'complex': t.append('dtype:' + c['dtype'])
    if c.get('out_kind') in ('float', 'int'): t.append('out=real-buffer')
    return t

def shrink(c):
    if c['out'] or c.get('out_kind', 'none') != 'none': yield {**c, 'out': False, 'out_kind': 'none'}
    if c.get('forms'): yield {**c, 'forms': {}}
    if c.get('dtype', 'complex') != 'complex': yield {**c, 'dtype': 'complex'}
    if c['shift'] != [0.0, 0.0]: yield {**c, 'shift': [0.0, 0.0]}
    if c['offset'] != [0, 0]: yield {**c, 'offset': [0, 0]}
    if c.get('ishift', [0, 0]) != [0, 0]: yield {**c, 'ishift': [0, 0]}
    if any(x != round(x) for x in c['re'] + c['im']):
        yield {**c, 're': [float(round(x)) for x in c['re']], 'im': [float(round(x)) for x in c['im']]}
    if any(c['im']): yield {**c, 'im': [0.0] * len(c['im'])}


# ------------------------------------------------------------------------------------------ implementation
def _f(c): return (np.array(c['re']) + 1j * np.array(c['im'])).reshape(c['shape'])

def _pack(a):
    a = np.asarray(a)
    return {'shape': list(a.shape), 're': [float(x) for x in a.real.ravel()], 'im': [float(x) for x in a.imag.ravel()]}

def _unpack(d): return (np.array(d['re']) + 1j * np.array(d['im'])).reshape(d['shape'])

def _kwargs(c, with_offset):
    """the call's keyword arguments in the case's argument forms (pair / scalar / default)"""
    fm = c.get('forms', {})
    kw = {'alpha': c['alpha'][0] if fm.get('alpha') == 'scalar' else tuple(c['alpha']), 'unitary': c['unitary']}
    if fm.get('unitary') == 'default': del kw['unitary']
    if fm.get('shape') == 'scalar': kw['shape'] = c['oshape'][0]
    elif fm.get('shape') != 'none': kw['shape'] = tuple(c['oshape'])
    if fm.get('shift') == 'scalar': kw['shift'] = c['shift'][0]
    elif fm.get('shift') != 'default': kw['shift'] = tuple(c['shift'])
    if with_offset:
        if fm.get('offset') == 'scalar': kw['offset'] = c['offset'][0]
        elif fm.get('offset') != 'default': kw['offset'] = tuple(c['offset'])
    return kw

def _call(fn, c, x, **kw):
    """call on the caller's array itself (so that a write into it is seen), then (when requested) with out=; report whether
    both agree; a real-valued buffer must be refused with TypeError"""
    x0 = x.copy()
    fresh = fn(x, **kw)
    info = {'arg_untouched': bool(np.array_equal(x, x0) and x.dtype == x0.dtype)}
    ok = c.get('out_kind', 'ok' if c['out'] else 'none')
    if ok == 'ok':
        buf = _make_buf(c)
        r = fn(x, out=buf, **kw)
        info.update({'out_outcome': 'ok', 'same_obj': bool(r is buf), 'out_diff': float(np.max(np.abs(np.asarray(r) - fresh))) if r.shape == fresh.shape else -1.0,
                     'buf_diff': float(np.max(np.abs(buf - fresh))) if buf.shape == fresh.shape else -1.0,
                     'arg_untouched': bool(info['arg_untouched'] and np.array_equal(x, x0))})
        fresh = r
    elif ok == 'alias':
        # transform in place: the caller passes the input array itself as the output buffer
        y = np.array(x0, dtype=complex)
        r = fn(y, out=y, **kw)
        sc = float(np.max(np.abs(fresh))) if fresh.size else 0.0
        info.update({'same_obj': bool(r is y), 'out_diff': float(np.max(np.abs(np.asarray(r) - fresh))) if r.shape == fresh.shape else -1.0,
                     'buf_diff': float(np.max(np.abs(y - fresh))) if y.shape == fresh.shape else -1.0})
        fresh = r
    elif ok in BUFFER_KINDS[3:]:
        # buffers dft2's guard or np.dot(out=) may refuse: either an exception, or the right values in the buffer — never silently
        # something else; which of the two is what the buffer model predicts (compare)
        buf = _make_buf(c)
        try:
            r = fn(x, out=buf, **kw)
            info['exotic'] = {'raised': None, 'same_obj': bool(r is buf), 'dtype': str(buf.dtype),
                              'diff': float(np.max(np.abs(np.asarray(r) - fresh))) if np.shape(r) == fresh.shape else -1.0,
                              'buf_diff': float(np.max(np.abs(buf - fresh))) if np.shape(buf) == fresh.shape else -1.0}
        except Exception as e:
            info['exotic'] = {'raised': type(e).__name__}
        info['out_outcome'] = info['exotic']['raised'] or 'ok'
    elif ok in ('float', 'int'):
        buf = _make_buf(c)
        try:
            fn(x, out=buf, **kw); info['real_out'] = 'accepted'
        except TypeError:
            info['real_out'] = 'TypeError'
        except Exception as e:
            info['real_out'] = type(e).__name__
        info['out_outcome'] = 'ok' if info['real_out'] == 'accepted' else info['real_out']
    return fresh, info

def _input(c):
    f = _f(c)
    dt = c.get('dtype', 'complex')
    if dt == 'float': return _layout(c, np.ascontiguousarray(f.real))
    if dt == 'int': return _layout(c, np.ascontiguousarray(f.real).astype(np.int64))
    if dt != 'complex': f = np.ascontiguousarray(f.real).astype(dt)
    return _layout(c, f)

def _layout(c, f):
    """the same values in another memory layout: Fortran order, a strided view of a larger array, a read-only array"""
    lay = c.get('layout', 'C')
    if lay == 'F': return np.asfortranarray(f)
    if lay == 'strided':
        big = np.zeros((f.shape[0] * 2, f.shape[1] * 3), dtype=f.dtype); big[::2, ::3] = f
        return big[::2, ::3]
    if lay == 'readonly':
        g = f.copy(); g.flags.writeable = False; return g
    return f

def impl(c):
    vlib.import_lentil()
    import lentil.fourier as LF
    f = _input(c)
    k = c['kind']
    if k == 'dft2':
        F, info = _call(LF.dft2, c, f, **_kwargs(c, True))
        res = {'F': _pack(F), **info}
    elif k == 'idft2':
        F, info = _call(LF.idft2, c, f, **_kwargs(c, False))
        res = {'F': _pack(F), **info}
    else:
        f0 = f.copy()
        per = c.get('period', c['shape'])
        fw = {}
        if c['shift'] != [0.0, 0.0]: fw['shift'] = tuple(c['shift'])
        if c['offset'] != [0, 0]: fw['offset'] = tuple(c['offset'])
        F = LF.dft2(f, tuple(c['alpha']), shape=tuple(per), unitary=c['unitary'], **fw) if per != c['shape'] else LF.dft2(f, tuple(c['alpha']), unitary=c['unitary'], **fw)
        F0 = F.copy()
        kw = {'shape': tuple(c['shape'])} if per != c['shape'] else {}
        if c.get('ishift', [0, 0]) != [0, 0]: kw['shift'] = tuple(c['ishift'])
        g, info = _call(LF.idft2, c, F, alpha=tuple(c['alpha']), unitary=c['unitary'], **kw)
        info['arg_untouched'] = bool(info['arg_untouched'] and np.array_equal(f, f0) and np.array_equal(F, F0))
        res = {'F': _pack(F0), 'g': _pack(g), **info}
    res['input_untouched'] = res.pop('arg_untouched')
    return res

def _arr_req(c):
    return {'shape': c['shape'], 're': [fbits(x) for x in c['re']], 'im': [fbits(x) for x in c['im']]}

def requests(c, io):
    base = {**_arr_req(c), 'alpha': [fbits(a) for a in c['alpha']], 'unitary': c['unitary']}
    if c['kind'] == 'round':
        return [{'op': 'c01.roundtrip', **base, 'period': c.get('period', c['shape']), 'shift': [fbits(s) for s in c['shift']],
                 'offset': c['offset'], 'ishift': [fbits(float(s)) for s in c.get('ishift', [0, 0])]}]
    base.update({'oshape': c['oshape'], 'shift': [fbits(s) for s in c['shift']]})
    if c.get('forms', {}).get('unitary') == 'default': base['unitary'] = None      # the model takes the regenerated default
    if c['kind'] == 'dft2':
        rq = [{'op': 'c01.dft2', **base, 'offset': c['offset']}]
        if c.get('out_kind', 'ok' if c['out'] else 'none') in BUFFER_KINDS:
            # the out= path in the buffer model (Model/FourierOut.lean): dft2's guard, then np.dot's acceptance condition
            rq.append({'op': 'c01.out', **base, 'unitary': c['unitary'], 'offset': c['offset'], 'buf': _buf_desc(_make_buf(c))})
        return rq
    rq = [{'op': 'c01.idft2', **base}]
    if c.get('out_kind', 'ok' if c['out'] else 'none') in BUFFER_KINDS:
        # idft2(out=) in the buffer model (Model/FourierOut.lean idft2Out): out handed to dft2, then conj / divide in place
        rq.append({'op': 'c01.iout', **base, 'unitary': c['unitary'], 'buf': _buf_desc(_make_buf(c))})
    return rq

def _tol(c):
    """relative to the data scale only (so that nano- and giga-scale data are judged alike); grows mildly with the phase size"""
    big = 1.0 + max(abs(x) for x in c['shift']) * max(abs(a) for a in c['alpha']) * max(c['shape'] + [abs(o) for o in c['offset']])
    return 1e-9 * max(float(np.sum(np.abs(_f(c)))), 1e-300) * max(1.0, big / 1e3)

def _model_arr(d): return (np.array([bitsf(x) for x in d['re']]) + 1j * np.array([bitsf(x) for x in d['im']])).reshape(d['shape'])

def compare(c, io, mo):
    m = mo[0]
    if not m.get('ok'): return f"model refused: {m.get('err')}"
    tol = _tol(c)
    for key in (['F', 'g'] if c['kind'] == 'round' else ['F']):
        a, b = _unpack(io[key]), _model_arr(m[key])
        if a.shape != b.shape: return f'{key}: shape impl {a.shape} model {b.shape}'
        d = float(np.max(np.abs(a - b))) if a.size else 0.0
        if not d <= tol: return f'{key}: max |impl - model| = {d:.3e} > {tol:.1e}'
    if len(mo) > 1:
        o = mo[1]
        if not o.get('ok'): return f"buffer model refused: {o.get('err')}"
        if o['outcome'] != io.get('out_outcome'):
            return f"out= ({c.get('out_kind')} buffer {_buf_desc(_make_buf(c))}): buffer model says {o['outcome']}, the real call {io.get('out_outcome')}"
        if o['outcome'] == 'ok':
            if not o.get('is_buffer') or 'B' not in o: return 'buffer model: result is not the buffer'
            a, b = _unpack(io['F']), _model_arr(o['B'])
            if c['kind'] == 'idft2':
                # the real buffer after the call vs the real fresh result must agree exactly when the model's buffer and result do
                bd = io['exotic']['buf_diff'] if 'exotic' in io else io.get('buf_diff')
                md = float(np.max(np.abs(_model_arr(o['B']) - _model_arr(o['F'])))) if b.size else 0.0
                if md != 0.0: return f'idft2 out=: buffer model leaves the buffer {md:.3e} away from the returned values'
                if bd is None or not 0 <= bd <= tol: return f'idft2 out=: the real buffer is {bd} away from the fresh result, the model says it holds it'
            same = io['exotic']['same_obj'] if 'exotic' in io else io.get('same_obj')
            if not same: return 'out= accepted: the model returns the buffer, the real call another array'
            d = float(np.max(np.abs(a - b))) if a.shape == b.shape and a.size else (0.0 if a.shape == b.shape else float('inf'))
            if not d <= tol: return f'out= buffer contents: max |impl - model| = {d:.3e} > {tol:.1e}'
    return None


# ------------------------------------------------------------------------------------------ oracle (real code only)
def _coords(n): return (np.arange(n) - n // 2).astype(LD)

def ref_sum(f, alpha, oshape, shift, offset, sign):
    """defining double sum in extended precision: F[u,v] = Σ_x Σ_y f[x,y] exp(sign·2πi(α_r X_x U_u + α_c Y_y V_v)),
    X = arange(m) - floor(m/2) + off_r, U = arange(M) - floor(M/2) - shift_r (and likewise for columns)"""
    m, n = f.shape; M, N = oshape
    X = _coords(m) + LD(offset[0]); Y = _coords(n) + LD(offset[1])
    U = _coords(M) - LD(shift[0]); V = _coords(N) - LD(shift[1])
    if m * n * M * N > 300000:
        # same double sum, summed over x first and then over y (two extended-precision matrix products) to stay affordable
        a1 = LD(2) * PI_LD * LD(alpha[0]) * np.outer(U, X); a2 = LD(2) * PI_LD * LD(alpha[1]) * np.outer(Y, V)
        c1, s1, c2, s2 = np.cos(a1), sign * np.sin(a1), np.cos(a2), sign * np.sin(a2)
        fr = f.real.astype(LD); fi = f.imag.astype(LD)
        gr = c1 @ fr - s1 @ fi; gi = s1 @ fr + c1 @ fi
        return gr @ c2 - gi @ s2, gr @ s2 + gi @ c2
    ph = (LD(alpha[0]) * U[:, None, None, None] * X[None, None, :, None]
          + LD(alpha[1]) * V[None, :, None, None] * Y[None, None, None, :])
    ang = LD(2) * PI_LD * ph
    fr = f.real.astype(LD)[None, None]; fi = f.imag.astype(LD)[None, None]
    cs, sn = np.cos(ang), sign * np.sin(ang)
    re = np.sum(fr * cs - fi * sn, axis=(2, 3)); im = np.sum(fr * sn + fi * cs, axis=(2, 3))
    return re, im

def _dist(F, re, im):
    if F.shape != re.shape: return float('inf')
    if F.size == 0: return 0.0
    return float(np.max(np.hypot(F.real.astype(LD) - re, F.imag.astype(LD) - im)))

def _is_rolled(c): return c['offset'] != [0, 0] or c['shift'] != [0.0, 0.0] or c.get('ishift', [0, 0]) != [0, 0]

def _rolled(c, f):
    """what the full-period round trip returns (idft2_dft2_full_period_rolled): sample [i, j] is f[x, y] with
    x = (i - ishift_r - off_r) mod m, y likewise, times exp(2πi((x - m//2 + off_r)·shift_r/m + (y - n//2 + off_c)·shift_c/n))"""
    if not _is_rolled(c): return f
    m, n = f.shape; t = c.get('ishift', [0, 0]); o = c['offset']; s = c['shift']
    x = (np.arange(m) - t[0] - o[0]) % m; y = (np.arange(n) - t[1] - o[1]) % n
    ph = np.exp(2j * np.pi * np.add.outer((x - m // 2 + o[0]) * s[0] / m, (y - n // 2 + o[1]) * s[1] / n))
    return f[np.ix_(x, y)] * ph

def oracle(c, io):
    f = _f(c); tol = _tol(c); k = c['kind']
    if not io.get('input_untouched', True): return 'the caller\'s input array was modified'
    ex = io.get('exotic')
    if ex is not None:
        if ex['raised'] is None and c['out_kind'] in ('complex64', 'complex64-wrongshape'): return 'a complex64 out= buffer was accepted: the complex128 result is silently truncated'
        if ex['raised'] is None and c['out_kind'] in ('wrongshape', 'onedim', 'transposed'): return 'an out= buffer of the wrong shape was accepted'
        if ex['raised'] is None and c['out_kind'] == 'readonly': return 'a read-only out= buffer was written'
        if ex['raised'] is None and not (ex['same_obj'] and 0 <= ex['diff'] <= 1e-12 * max(np.sum(np.abs(f)), 1e-300)
                                         and 0 <= ex['buf_diff'] <= 1e-12 * max(np.sum(np.abs(f)), 1e-300)):
            return f"out= ({c['out_kind']} buffer) was accepted but does not hold the result of a fresh allocation (diff {ex['diff']:.3e})"
    if io.get('real_out') not in (None, 'TypeError'):
        return f"a real-valued out= buffer was not refused with TypeError ({io['real_out']}): the complex result cannot be stored in it"
    if c['out'] or c.get('out_kind') == 'alias':
        if not io.get('same_obj'): return 'out= given but a different array was returned'
        if not (0 <= io['out_diff'] <= 1e-12 * max(np.sum(np.abs(f)), 1e-300) and 0 <= io['buf_diff'] <= 1e-12 * max(np.sum(np.abs(f)), 1e-300)):
            return f"out= result differs from a fresh allocation by {io['out_diff']:.3e}"
    a = c['alpha']
    scale = np.sqrt(LD(abs(LD(a[0]) * LD(a[1]))))
    F = _unpack(io['F'])
    if k in ('dft2', 'round'):
        re, im = ref_sum(f, a, c.get('period', c['oshape']) if k == 'round' else c['oshape'], c['shift'], c['offset'], -1)
        if c['unitary']: re, im = re * scale, im * scale
        d = _dist(F, re, im)
        if not d <= tol: return f'dft2 differs from the defining sum by {d:.3e} (tol {tol:.1e})'
    if k == 'idft2':
        re, im = ref_sum(f, a, c['oshape'], c['shift'], [0, 0], +1)
        s = scale if c['unitary'] else LD(1) / LD(f.size)
        d = _dist(F, re * s, im * s)
        if not d <= tol: return f'idft2 differs from the defining inverse sum by {d:.3e} (tol {tol:.1e})'
    e_in = float(np.sum(np.abs(f) ** 2))
    if k == 'round':
        g = _unpack(io['g'])
        if g.shape != f.shape: return f'round trip shape {g.shape} != {f.shape}'
        d = float(np.max(np.abs(g - _rolled(c, f))))
        if not d <= tol: return (f"idft2(dft2(f)) differs from {'the rolled, phased copy of f' if _is_rolled(c) else 'f'} by {d:.3e} "
                                 f"(unitary={c['unitary']}, offset={c['offset']}, shift={c['shift']}, inverse shift={c.get('ishift', [0, 0])}, tol {tol:.1e})")
        if c['unitary']:
            e_g = float(np.sum(np.abs(g) ** 2)); e_F = float(np.sum(np.abs(F) ** 2))
            if not abs(e_g - e_F) <= 1e-9 * (1 + e_F): return f'unitary idft2 changes the energy: {e_F} -> {e_g}'
    if c['unitary'] and _full_period(c):
        e_out = float(np.sum(np.abs(F) ** 2))
        if not abs(e_out - e_in) <= 1e-9 * (1 + e_in): return f'unitary full-period {k}: energy {e_in} -> {e_out}'
    return None
